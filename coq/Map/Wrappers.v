(* C11 wrappers model: the containers of starlark_map built on SmallMap / hashbrown / one raw allocation,
   mirrored method by method.
     SmallSet<T>        = SmallMap<T, ()>                       (small_set.rs)
     OrderedMap<K,V>    = SmallMap<K,V>, Eq/Ord/Hash by order    (ordered_map.rs)
     OrderedSet<T>      = SmallSet<T>,   Eq/Ord/Hash by order    (ordered_set.rs)
     SortedMap<K,V>     = OrderedMap built by sort_keys          (sorted_map.rs)
     SortedSet<T>       = OrderedSet built by sort               (sorted_set.rs, sorted_vec.rs)
     UnorderedMap<K,V>  = hashbrown::HashTable<(K,V)>            (unordered_map.rs)
     UnorderedSet<T>    = UnorderedMap<T, ()>                    (unordered_set.rs)
     Vec2<A,B>          = two parallel arrays in one allocation  (vec2.rs, sorting/insertion.rs)
   together with the list specification of each.  Executable; NO proofs in this file. *)
From Coq Require Import List Arith Bool.
From SV Require Import Map.Spec Map.Model.
Import ListNotations.

(* ------------------------------------------------------------------ small generic pieces *)
Definition is_none {A} (o : option A) : bool := match o with None => true | Some _ => false end.
Definition is_some {A} (o : option A) : bool := match o with None => false | Some _ => true end.

Fixpoint drop_nth {A} (i : nat) (l : list A) : list A :=
  match l, i with
  | [], _ => []
  | _ :: r, 0 => r
  | x :: r, S j => x :: drop_nth j r
  end.

Definition list_last {A} (l : list A) : option A :=
  match l with [] => None | _ => nth_error l (length l - 1) end.

Section ListCmp.
  Context {A : Type}.
  Variable aeq : A -> A -> bool.
  (* <[T] as PartialEq>::eq : equal lengths, then element by element *)
  Fixpoint list_eqb (l1 l2 : list A) : bool :=
    match l1, l2 with
    | [], [] => true
    | x :: r1, y :: r2 => aeq x y && list_eqb r1 r2
    | _, _ => false
    end.
  Definition slice_eq (l1 l2 : list A) : bool := (length l1 =? length l2) && list_eqb l1 l2.
  Variable acmp : A -> A -> comparison.
  (* Iterator::cmp : lexicographic, a strict prefix is smaller *)
  Fixpoint iter_cmp (l1 l2 : list A) : comparison :=
    match l1, l2 with
    | [], [] => Eq
    | [], _ :: _ => Lt
    | _ :: _, [] => Gt
    | x :: r1, y :: r2 => match acmp x y with Eq => iter_cmp r1 r2 | c => c end
    end.
End ListCmp.

(* ====================================================================== SET SPECIFICATION *)
Section SetSpec.
  Context {K : Type}.
  Variable keq : K -> K -> bool.
  Variable klt : K -> K -> bool.

  Inductive set_op :=
  | SInsert (k : K)              (* insert -> bool (was it new) *)
  | SInsertUnique (k : K)        (* insert_unique_unchecked, issued only for absent elements (caller contract) *)
  | SRemove (k : K)              (* shift_remove -> bool *)
  | STake (k : K)                (* take -> Option<T> *)
  | SRemoveIndex (i : nat)       (* shift_remove_index -> Option<T> *)
  | SPop                         (* pop -> Option<T> *)
  | SClear
  | SRetain (f : K -> bool)
  | SSort                        (* sort *)
  | SReverse
  | SReserve (n : nat)
  | SExtend (l : list K)         (* Extend::extend *)
  | SGetOrInsert (k : K)         (* get_or_insert -> &T *)
  | STryInsert (k : K)           (* OrderedSet::try_insert -> Err(occupied) / Ok(()) *)
  | SWithCapacity (n : nat)      (* replace by with_capacity(n) *)
  | SClone.

  Inductive set_ret := SRUnit | SRBool (b : bool) | SROptK (o : option K) | SRKey (k : K).

  Definition s_mem (l : list K) (k : K) : bool := existsb (keq k) l.
  Fixpoint s_index_of (l : list K) (k : K) : option nat :=
    match l with [] => None | x :: r => if keq k x then Some 0 else option_map S (s_index_of r k) end.
  Fixpoint s_find (l : list K) (k : K) : option K :=
    match l with [] => None | x :: r => if keq k x then Some x else s_find r k end.
  Fixpoint s_remove (l : list K) (k : K) : list K :=
    match l with [] => [] | x :: r => if keq k x then r else x :: s_remove r k end.
  Definition s_insert (l : list K) (k : K) : list K := if s_mem l k then l else l ++ [k].
  Definition s_extend (l : list K) (ks : list K) : list K := fold_left s_insert ks l.
  Definition s_sort (l : list K) : list K := isort klt l.
  Definition s_difference (l o : list K) : list K := filter (fun k => negb (s_mem o k)) l.
  Definition s_union (l o : list K) : list K := l ++ s_difference o l.

  Definition s_step (l : list K) (o : set_op) : list K * set_ret :=
    match o with
    | SInsert k => (s_insert l k, SRBool (negb (s_mem l k)))
    | SInsertUnique k => (s_insert l k, SRUnit)
    | SRemove k => (s_remove l k, SRBool (s_mem l k))
    | STake k => (s_remove l k, SROptK (s_find l k))
    | SRemoveIndex i => (drop_nth i l, SROptK (nth_error l i))
    | SPop => (removelast l, SROptK (list_last l))
    | SClear => ([], SRUnit)
    | SRetain f => (filter f l, SRUnit)
    | SSort => (s_sort l, SRUnit)
    | SReverse => (rev l, SRUnit)
    | SReserve _ => (l, SRUnit)
    | SExtend ks => (s_extend l ks, SRUnit)
    | SGetOrInsert k => (s_insert l k, SRKey (match s_find l k with Some x => x | None => k end))
    | STryInsert k => (s_insert l k, SROptK (s_find l k))
    | SWithCapacity _ => ([], SRUnit)
    | SClone => (l, SRUnit)
    end.
  Definition s_run (ops : list set_op) : list K := fold_left (fun l o => fst (s_step l o)) ops [].
End SetSpec.
Arguments set_op : clear implicits.
Arguments set_ret : clear implicits.

(* ====================================================================== ORDERED-MAP SPECIFICATION *)
Section OMapSpec.
  Context {K V : Type}.
  Variable keq : K -> K -> bool.
  Variable klt : K -> K -> bool.

  Inductive omap_op :=
  | MInsert (k : K) (v : V)                     (* insert -> Option<V> *)
  | MRemove (k : K)                             (* remove (= shift_remove) -> Option<V> *)
  | MClear
  | MEntryOrInsert (k : K) (v : V)              (* entry(k).or_insert(v) *)
  | MEntryModify (k : K) (f : V -> V) (v : V)   (* entry(k).and_modify(f).or_insert(v) *)
  | MSortKeys
  | MExtend (l : list (K * V))
  | MGetMut (k : K) (f : V -> V)                (* get_mut(k): the value, when present, is replaced by f of it -> was it present *)
  | MValuesMut (f : K -> V -> V)                (* iter_mut / values_mut: every value v of key k is replaced by f k v *)
  | MWithCapacity (n : nat)
  | MClone.
  Inductive omap_ret := MRUnit | MROptV (o : option V) | MRVal (v : V) | MRBool (b : bool).

  Definition map_values (f : K -> V -> V) (l : list (K * V)) : list (K * V) :=
    map (fun kv => (fst kv, f (fst kv) (snd kv))) l.

  Definition om_step (l : list (K * V)) (o : omap_op) : list (K * V) * omap_ret :=
    match o with
    | MInsert k v => (Spec.insert keq l k v, MROptV (Spec.get keq l k))
    | MRemove k => (Spec.remove keq l k, MROptV (Spec.get keq l k))
    | MClear => ([], MRUnit)
    | MEntryOrInsert k v =>
        match Spec.get keq l k with Some v' => (l, MRVal v') | None => (l ++ [(k, v)], MRVal v) end
    | MEntryModify k f v =>
        match Spec.get keq l k with Some v' => (Spec.modify keq l k f, MRVal (f v')) | None => (l ++ [(k, v)], MRVal v) end
    | MSortKeys => (Spec.sort_keys klt l, MRUnit)
    | MExtend kvs => (Spec.extend keq l kvs, MRUnit)
    | MGetMut k f => (Spec.modify keq l k f, MRBool (Spec.contains keq l k))
    | MValuesMut f => (map_values f l, MRUnit)
    | MWithCapacity _ => ([], MRUnit)
    | MClone => (l, MRUnit)
    end.
  Definition om_run (ops : list omap_op) : list (K * V) := fold_left (fun l o => fst (om_step l o)) ops [].

  (* SortedMap: built from a sequence of pairs, afterwards only values can be written *)
  Inductive sorted_op :=
  | TGetMut (k : K) (f : V -> V)
  | TValuesMut (f : K -> V -> V).
  Definition sorted_to_omap (o : sorted_op) : omap_op :=
    match o with TGetMut k f => MGetMut k f | TValuesMut f => MValuesMut f end.
  Definition sorted_spec_from_iter (kvs : list (K * V)) : list (K * V) := Spec.sort_keys klt (Spec.extend keq [] kvs).
  Definition sorted_spec_run (kvs : list (K * V)) (ops : list sorted_op) : list (K * V) :=
    fold_left (fun l o => fst (om_step l (sorted_to_omap o))) ops (sorted_spec_from_iter kvs).
End OMapSpec.
Arguments omap_op : clear implicits.
Arguments omap_ret : clear implicits.
Arguments sorted_op : clear implicits.

(* ====================================================================== SmallSet / OrderedSet / SortedSet *)
Section SetModel.
  Context {K H : Type}.
  Variable keq : K -> K -> bool.
  Variable heq : H -> H -> bool.
  Variable klt : K -> K -> bool.
  Variable hash : K -> H.
  Variable thr : nat.
  Variable max_ins : nat.

  Definition sset := @smap K unit H.                               (* struct SmallSet<T>(SmallMap<T, ()>) *)
  Definition set_to_list (s : sset) : list K := map fst (to_list s).     (* iter() *)

  Definition set_new : sset := empty.
  Definition set_with_capacity (n : nat) : sset := with_capacity thr n.
  Definition set_reserve (s : sset) (n : nat) : sset := reserve thr s n.
  Definition set_len (s : sset) : nat := len s.
  Definition set_is_empty (s : sset) : bool := len s =? 0.
  (* insert: self.0.insert(key, ()).is_none() *)
  Definition set_insert (s : sset) (k : K) : sset * bool :=
    let (m, r) := insert_hashed keq heq thr s k (hash k) tt in (m, is_none r).
  Definition set_insert_unique_unchecked (s : sset) (k : K) : sset :=
    insert_hashed_unique_unchecked thr s k (hash k) tt.
  (* get: self.0.get_full(value).map(|(_, t, _)| t) *)
  Definition set_get (s : sset) (k : K) : option K :=
    option_map (fun t => snd (fst t)) (get_full_hashed keq heq s (hash k) k).
  Definition set_get_index (s : sset) (i : nat) : option K := option_map fst (get_index s i).
  Definition set_get_index_of (s : sset) (k : K) : option nat := get_index_of keq heq hash s k.
  Definition set_contains (s : sset) (k : K) : bool := contains_key keq heq hash s k.
  (* shift_remove: self.0.shift_remove(key).is_some() *)
  Definition set_shift_remove (s : sset) (k : K) : sset * bool :=
    let (m, r) := shift_remove_hashed_entry keq heq s (hash k) k in (m, is_some (option_map snd r)).
  (* shift_remove_index: Some(self.0.shift_remove_index_hashed(i)?.0.into_key()) *)
  Definition set_shift_remove_index (s : sset) (i : nat) : sset * option K :=
    let (m, r) := shift_remove_index s i in (m, option_map fst r).
  (* get_or_insert *)
  Definition set_get_or_insert (s : sset) (k : K) : sset * K :=
    match get_index_of_hashed_raw keq heq s (hash k) k with
    | Some i => (s, match get_index s i with Some kv => fst kv | None => k (* unwrap() *) end)
    | None => (insert_hashed_unique_unchecked thr s k (hash k) tt, k)
    end.
  (* take: self.0.shift_remove_entry(key).map(|(k, _)| k) *)
  Definition set_take (s : sset) (k : K) : sset * option K :=
    let (m, r) := shift_remove_hashed_entry keq heq s (hash k) k in (m, option_map fst r).
  Definition set_pop (s : sset) : sset * option K :=
    let (m, r) := pop heq s in (m, option_map fst r).
  Definition set_clear (s : sset) : sset := clear s.
  Definition set_first (s : sset) : option K := option_map fst (first s).
  Definition set_last (s : sset) : option K := option_map fst (last s).
  (* Difference::next: items of self not contained in other; Union = self.iter().chain(other.difference(self)) *)
  Definition set_difference (s o : sset) : list K := filter (fun k => negb (set_contains o k)) (set_to_list s).
  Definition set_union (s o : sset) : list K := set_to_list s ++ set_difference o s.
  Definition set_sort (s : sset) : sset := sort_keys klt max_ins s.
  Definition set_reverse (s : sset) : sset := reverse s.
  (* retain: self.0.retain(|k, _| f(k)) *)
  Definition set_retain (f : K -> bool) (s : sset) : sset := retain (fun k _ => if f k then Some tt else None) s.
  (* extend: self.0.extend(iter.map(|v| (v, ()))) *)
  Definition set_extend (s : sset) (ks : list K) : sset := extend keq heq hash thr s (map (fun k => (k, tt)) ks).
  (* FromIterator: with_capacity(size_hint().0), then insert each *)
  Definition set_from_iter (hint : nat) (ks : list K) : sset :=
    fold_left (fun s k => fst (set_insert s k)) ks (set_with_capacity hint).
  (* OrderedSet::try_insert: Err(occupied) when present, else insert_hashed_unique_unchecked *)
  Definition set_try_insert (s : sset) (k : K) : sset * option K :=
    match set_get s k with
    | Some occ => (s, Some occ)
    | None => (insert_hashed_unique_unchecked thr s k (hash k) tt, None)
    end.

  (* one history step of SmallSet; OrderedSet forwards every method to the SmallSet method of the same name *)
  Definition set_step (s : sset) (o : set_op K) : sset * set_ret K :=
    match o with
    | SInsert k => let (m, b) := set_insert s k in (m, SRBool b)
    | SInsertUnique k => (if set_contains s k then s else set_insert_unique_unchecked s k, SRUnit)
    | SRemove k => let (m, b) := set_shift_remove s k in (m, SRBool b)
    | STake k => let (m, r) := set_take s k in (m, SROptK r)
    | SRemoveIndex i => let (m, r) := set_shift_remove_index s i in (m, SROptK r)
    | SPop => let (m, r) := set_pop s in (m, SROptK r)
    | SClear => (set_clear s, SRUnit)
    | SRetain f => (set_retain f s, SRUnit)
    | SSort => (set_sort s, SRUnit)
    | SReverse => (set_reverse s, SRUnit)
    | SReserve n => (set_reserve s n, SRUnit)
    | SExtend ks => (set_extend s ks, SRUnit)
    | SGetOrInsert k => let (m, r) := set_get_or_insert s k in (m, SRKey r)
    | STryInsert k => let (m, r) := set_try_insert s k in (m, SROptK r)
    | SWithCapacity n => (set_with_capacity n, SRUnit)
    | SClone => (mk (entries s) (index s), SRUnit)
    end.
  Definition set_run (ops : list (set_op K)) : sset := fold_left (fun s o => fst (set_step s o)) ops set_new.

  (* the SmallMap operation each SmallSet method delegates to *)
  Definition set_op_to_map (o : set_op K) : op K unit :=
    match o with
    | SInsert k => OInsert k tt
    | SInsertUnique k => OInsertUnique k tt
    | SRemove k => ORemove k
    | STake k => ORemove k
    | SRemoveIndex i => ORemoveIndex i
    | SPop => OPop
    | SClear => OClear
    | SRetain f => ORetain (fun k _ => if f k then Some tt else None)
    | SSort => OSortKeys
    | SReverse => OReverse
    | SReserve n => OReserve n
    | SExtend ks => OExtend (map (fun k => (k, tt)) ks)
    | SGetOrInsert k => OEntryOrInsert k tt
    | STryInsert k => OEntryOrInsert k tt
    | SWithCapacity n => OWithCapacity n
    | SClone => OClone
    end.

  (* OrderedSet<T>(SmallSet<T>) *)
  Definition oset_step := set_step.
  Definition oset_run := set_run.
  (* SortedSet: FromIterator = OrderedSet::from_iter + sort; From<OrderedSet> = sort *)
  Definition sorted_set_from_iter (hint : nat) (ks : list K) : sset := set_sort (set_from_iter hint ks).
  (* SortedVec::from(vec) = vec.sort() ; SortedSet::from(SortedVec) = OrderedSet::from_iter(inner), NO sort *)
  Definition sorted_vec_from (ks : list K) : list K := isort klt ks.
  Definition sorted_set_from_sorted_vec (hint : nat) (sv : list K) : sset := set_from_iter hint sv.
End SetModel.

(* ====================================================================== SmallMap Eq, OrderedMap, SortedMap *)
Section OMapModel.
  Context {K V H : Type}.
  Variable keq : K -> K -> bool.
  Variable veq : V -> V -> bool.
  Variable heq : H -> H -> bool.
  Variable klt : K -> K -> bool.
  Variable kcmp : K -> K -> comparison.
  Variable vcmp : V -> V -> comparison.
  Variable hash : K -> H.
  Variable thr : nat.
  Variable max_ins : nat.
  Notation smap := (@smap K V H).

  (* impl PartialEq for SmallMap (also SmallSet): order-INsensitive
       self.len() == other.len() && self.iter_hashed().all(|(k, v)| other.get_hashed(k) == Some(v)) *)
  Definition smap_eq (m1 m2 : smap) : bool :=
    (len m1 =? len m2) &&
    forallb (fun e => match get_hashed keq heq m2 (e_hash e) (e_key e) with
                      | Some v => veq v (e_val e)
                      | None => false
                      end) (entries m1).

  (* VecMap::eq_ordered: self.buckets.bbb() == other.buckets.bbb() && self.buckets.aaa() == other.buckets.aaa() *)
  Definition kv_eqb (a b : K * V) : bool := keq (fst a) (fst b) && veq (snd a) (snd b).
  Definition eq_ordered (m1 m2 : smap) : bool :=
    slice_eq heq (map e_hash (entries m1)) (map e_hash (entries m2)) &&
    slice_eq kv_eqb (map e_kv (entries m1)) (map e_kv (entries m2)).
  (* impl PartialEq for OrderedMap: self.0.eq_ordered(&other.0) *)
  Definition omap_eq := eq_ordered.
  (* impl Ord for OrderedMap: self.iter().cmp(other.iter()); tuples compare key first *)
  Definition kv_cmp (a b : K * V) : comparison :=
    match kcmp (fst a) (fst b) with Eq => vcmp (snd a) (snd b) | c => c end.
  Definition omap_cmp (m1 m2 : smap) : comparison := iter_cmp kv_cmp (to_list m1) (to_list m2).
  (* impl Hash for OrderedMap: hash_ordered: for e in iter_hashed() { e.hash(state) } -- the STORED hash, then the value *)
  Section Hash.
    Context {S : Type}.
    Variable mix_h : S -> H -> S.
    Variable mix_v : S -> V -> S.
    Definition hash_ordered (m : smap) (st : S) : S :=
      fold_left (fun st e => mix_v (mix_h st (e_hash e)) (e_val e)) (entries m) st.
  End Hash.

  (* get_mut(k): the value, when present, is replaced by f of it *)
  Definition omap_get_mut (m : smap) (k : K) (f : V -> V) : smap * bool :=
    match get_index_of_hashed_raw keq heq m (hash k) k with
    | Some i =>
        match nth_error (entries m) i with
        | Some e => (mk (set_val (entries m) i (f (e_val e))) (index m), true)
        | None => (m, false)
        end
    | None => (m, false)
    end.
  (* iter_mut / values_mut: every value slot is written, keys, hashes and the index are not touched *)
  Definition omap_values_mut (f : K -> V -> V) (m : smap) : smap :=
    mk (map (fun e => (e_key e, e_hash e, f (e_key e) (e_val e))) (entries m)) (index m).
  (* FromIterator for SmallMap / OrderedMap *)
  Definition omap_from_iter (hint : nat) (kvs : list (K * V)) : smap :=
    extend keq heq hash thr (with_capacity thr hint) kvs.

  Definition omap_step (m : smap) (o : omap_op K V) : smap * omap_ret V :=
    match o with
    | MInsert k v => let (m', r) := insert_hashed keq heq thr m k (hash k) v in (m', MROptV r)
    | MRemove k => let (m', r) := shift_remove_hashed_entry keq heq m (hash k) k in (m', MROptV (option_map snd r))
    | MClear => (clear m, MRUnit)
    | MEntryOrInsert k v => let (m', r) := entry_or_insert keq heq thr m k (hash k) v in (m', MRVal r)
    | MEntryModify k f v => let (m', r) := entry_modify keq heq thr m k (hash k) f v in (m', MRVal r)
    | MSortKeys => (sort_keys klt max_ins m, MRUnit)
    | MExtend kvs => (extend keq heq hash thr m kvs, MRUnit)
    | MGetMut k f => let (m', b) := omap_get_mut m k f in (m', MRBool b)
    | MValuesMut f => (omap_values_mut f m, MRUnit)
    | MWithCapacity n => (with_capacity thr n, MRUnit)
    | MClone => (mk (entries m) (index m), MRUnit)
    end.
  Definition omap_run (ops : list (omap_op K V)) : smap := fold_left (fun m o => fst (omap_step m o)) ops empty.

  (* SortedMap: From<OrderedMap> = sort_keys; FromIterator = OrderedMap::from_iter then From *)
  Definition sorted_from (m : smap) : smap := sort_keys klt max_ins m.
  Definition sorted_from_iter (hint : nat) (kvs : list (K * V)) : smap := sorted_from (omap_from_iter hint kvs).
  Definition sorted_step (m : smap) (o : sorted_op K V) : smap * omap_ret V := omap_step m (sorted_to_omap o).
  Definition sorted_run (hint : nat) (kvs : list (K * V)) (ops : list (sorted_op K V)) : smap :=
    fold_left (fun m o => fst (sorted_step m o)) ops (sorted_from_iter hint kvs).
End OMapModel.

(* ====================================================================== UnorderedMap / UnorderedSet *)
Section Unordered.
  Context {K V H : Type}.
  Variable keq : K -> K -> bool.
  Variable veq : V -> V -> bool.
  Variable heq : H -> H -> bool.
  Variable klt : K -> K -> bool.
  Variable hash : K -> H.

  (* hashbrown::HashTable<(K, V)>: a bag of slots, each stored under the hash it was inserted with.  The position of
     a slot in the list stands for its bucket; nothing proved below depends on it (see WrapperProofs: every
     observable is invariant under permutation of the slots). *)
  Definition uslot := (H * (K * V))%type.
  Definition utable := list uslot.
  Definition u_to_list (t : utable) : list (K * V) := map snd t.          (* entries_unordered / into_entries_unordered *)
  Definition u_len (t : utable) : nat := length t.
  Definition u_match (h : H) (p : K -> bool) (s : uslot) : bool := heq (fst s) h && p (fst (snd s)).
  (* HashTable::find_entry(hash, eq): the first matching slot with what is before and after it *)
  Fixpoint ut_find_entry (t : utable) (h : H) (p : K -> bool) : option (utable * uslot * utable) :=
    match t with
    | [] => None
    | s :: r =>
        if u_match h p s then Some ([], s, r)
        else match ut_find_entry r h p with
             | Some (pre, x, post) => Some (s :: pre, x, post)
             | None => None
             end
    end.
  (* HashTable::find / find_mut *)
  Definition ut_find (t : utable) (h : H) (p : K -> bool) : option (K * V) :=
    match ut_find_entry t h p with Some (_, x, _) => Some (snd x) | None => None end.
  (* HashTable::insert_unique *)
  Definition ut_insert_unique (t : utable) (h : H) (kv : K * V) : utable := t ++ [(h, kv)].

  Definition u_new : utable := [].
  Definition u_get (t : utable) (k : K) : option V := option_map snd (ut_find t (hash k) (keq k)).
  Definition u_contains_key (t : utable) (k : K) : bool := is_some (u_get t k).
  (* insert: raw_entry_mut().from_key_hashed: Occupied -> mem::replace value; Vacant -> insert_unique *)
  Definition u_insert (t : utable) (k : K) (v : V) : utable * option V :=
    match ut_find_entry t (hash k) (keq k) with
    | Some (pre, x, post) => (pre ++ (fst x, (fst (snd x), v)) :: post, Some (snd (snd x)))
    | None => (ut_insert_unique t (hash k) (k, v), None)
    end.
  (* remove: Occupied -> e.remove() *)
  Definition u_remove (t : utable) (k : K) : utable * option V :=
    match ut_find_entry t (hash k) (keq k) with
    | Some (pre, x, post) => (pre ++ post, Some (snd (snd x)))
    | None => (t, None)
    end.
  (* get_mut(k): the value, when present, is replaced by f of it *)
  Definition u_get_mut (t : utable) (k : K) (f : V -> V) : utable * bool :=
    match ut_find_entry t (hash k) (keq k) with
    | Some (pre, x, post) => (pre ++ (fst x, (fst (snd x), f (snd (snd x)))) :: post, true)
    | None => (t, false)
    end.
  (* retain: HashTable::retain(|(k, v)| f(k, v)), f may write v *)
  Definition u_retain (f : K -> V -> option V) (t : utable) : utable :=
    flat_map (fun s => match f (fst (snd s)) (snd (snd s)) with
                       | Some v' => [(fst s, (fst (snd s), v'))]
                       | None => []
                       end) t.
  (* entry(k): Occupied(get) / Vacant(insert(v)) *)
  Definition u_entry_or_insert (t : utable) (k : K) (v : V) : utable * V :=
    match ut_find_entry t (hash k) (keq k) with
    | Some (_, x, _) => (t, snd (snd x))
    | None => (ut_insert_unique t (hash k) (k, v), v)
    end.
  (* entry(k): Occupied(e): e.get_mut() is assigned f of e.get() / Vacant(e): e.insert(v) *)
  Definition u_entry_modify (t : utable) (k : K) (f : V -> V) (v : V) : utable * V :=
    match ut_find_entry t (hash k) (keq k) with
    | Some (pre, x, post) => (pre ++ (fst x, (fst (snd x), f (snd (snd x)))) :: post, f (snd (snd x)))
    | None => (ut_insert_unique t (hash k) (k, v), v)
    end.
  Definition u_clear (t : utable) : utable := [].
  (* entries_unordered_mut / values_unordered_mut *)
  Definition u_values_mut (f : K -> V -> V) (t : utable) : utable :=
    map (fun s => (fst s, (fst (snd s), f (fst (snd s)) (snd (snd s))))) t.
  (* FromIterator / Extend-like loops: insert each *)
  Definition u_extend (t : utable) (kvs : list (K * V)) : utable :=
    fold_left (fun t kv => fst (u_insert t (fst kv) (snd kv))) kvs t.
  Definition u_from_iter (kvs : list (K * V)) : utable := u_extend u_new kvs.
  (* map_values: a new table, every entry re-inserted in iteration order *)
  Definition u_map_values (f : V -> V) (t : utable) : utable :=
    u_extend u_new (map (fun kv => (fst kv, f (snd kv))) (u_to_list t)).
  (* entries_sorted: Vec::from_iter(entries_unordered()); sort_by_key(k)  (std stable sort, see Model.std_stable_sort) *)
  Definition u_entries_sorted (t : utable) : list (K * V) := isort (fun a b => klt (fst a) (fst b)) (u_to_list t).
  (* PartialEq: len equal and every entry of self is in other with an equal value *)
  Definition u_eq (t1 t2 : utable) : bool :=
    (u_len t1 =? u_len t2) &&
    forallb (fun kv => match u_get t2 (fst kv) with Some v => veq v (snd kv) | None => false end) (u_to_list t1).
  (* Hash: len, then the wrapping SUM of the per-entry hashes *)
  Section Hash.
    Context {S : Type}.
    Variable entry_hash : K -> V -> S.
    Variable add : S -> S -> S.
    Variable zero : S.
    Definition u_hash (t : utable) : nat * S :=
      (u_len t, fold_left (fun sum kv => add sum (entry_hash (fst kv) (snd kv))) (u_to_list t) zero).
  End Hash.

  Inductive umap_op :=
  | UInsert (k : K) (v : V)
  | URemove (k : K)
  | URetain (f : K -> V -> option V)
  | UEntryOrInsert (k : K) (v : V)
  | UEntryModify (k : K) (f : V -> V) (v : V)
  | UGetMut (k : K) (f : V -> V)
  | UValuesMut (f : K -> V -> V)
  | UClear
  | UExtend (l : list (K * V))
  | UMapValues (f : V -> V)
  | UWithCapacity (n : nat)
  | UClone.

  Definition u_step (t : utable) (o : umap_op) : utable * omap_ret V :=
    match o with
    | UInsert k v => let (t', r) := u_insert t k v in (t', MROptV r)
    | URemove k => let (t', r) := u_remove t k in (t', MROptV r)
    | URetain f => (u_retain f t, MRUnit)
    | UEntryOrInsert k v => let (t', r) := u_entry_or_insert t k v in (t', MRVal r)
    | UEntryModify k f v => let (t', r) := u_entry_modify t k f v in (t', MRVal r)
    | UGetMut k f => let (t', b) := u_get_mut t k f in (t', MRBool b)
    | UValuesMut f => (u_values_mut f t, MRUnit)
    | UClear => (u_clear t, MRUnit)
    | UExtend kvs => (u_extend t kvs, MRUnit)
    | UMapValues f => (u_map_values f t, MRUnit)
    | UWithCapacity _ => (u_new, MRUnit)
    | UClone => (t, MRUnit)
    end.
  Definition u_run (ops : list umap_op) : utable := fold_left (fun t o => fst (u_step t o)) ops u_new.

  (* the abstract map: an association list whose order carries no meaning *)
  Definition us_step (l : list (K * V)) (o : umap_op) : list (K * V) * omap_ret V :=
    match o with
    | UInsert k v => (Spec.insert keq l k v, MROptV (Spec.get keq l k))
    | URemove k => (Spec.remove keq l k, MROptV (Spec.get keq l k))
    | URetain f => (Spec.retain f l, MRUnit)
    | UEntryOrInsert k v =>
        match Spec.get keq l k with Some v' => (l, MRVal v') | None => (l ++ [(k, v)], MRVal v) end
    | UEntryModify k f v =>
        match Spec.get keq l k with Some v' => (Spec.modify keq l k f, MRVal (f v')) | None => (l ++ [(k, v)], MRVal v) end
    | UGetMut k f => (Spec.modify keq l k f, MRBool (Spec.contains keq l k))
    | UValuesMut f => (map_values f l, MRUnit)
    | UClear => ([], MRUnit)
    | UExtend kvs => (Spec.extend keq l kvs, MRUnit)
    | UMapValues f => (Spec.extend keq [] (map (fun kv => (fst kv, f (snd kv))) l), MRUnit)
    | UWithCapacity _ => ([], MRUnit)
    | UClone => (l, MRUnit)
    end.
  Definition us_run (ops : list umap_op) : list (K * V) := fold_left (fun l o => fst (us_step l o)) ops [].
End Unordered.
Arguments umap_op : clear implicits.

Section UnorderedSet.
  Context {K H : Type}.
  Variable keq : K -> K -> bool.
  Variable heq : H -> H -> bool.
  Variable klt : K -> K -> bool.
  Variable hash : K -> H.
  (* struct UnorderedSet<T> { map: UnorderedMap<T, ()> } *)
  Definition uset := @utable K unit H.
  Definition uset_to_list (t : uset) : list K := map fst (u_to_list t).
  Definition uset_insert (t : uset) (k : K) : uset * bool :=
    let (t', r) := u_insert keq heq hash t k tt in (t', is_none r).
  Definition uset_contains (t : uset) (k : K) : bool := u_contains_key keq heq hash t k.
  (* raw_entry_mut().from_entry(k): Occupied(e) => e.remove() -> removed *)
  Definition uset_remove (t : uset) (k : K) : uset * bool :=
    let (t', r) := u_remove keq heq hash t k in (t', is_some r).
  Definition uset_clear (t : uset) : uset := [].
  Definition uset_from_iter (ks : list K) : uset := u_from_iter keq heq hash (map (fun k => (k, tt)) ks).
  (* entries_sorted: sort_unstable on the elements (all distinct, so the result is THE sorted sequence) *)
  Definition uset_entries_sorted (t : uset) : list K := isort klt (uset_to_list t).
  Definition uset_eq (t1 t2 : uset) : bool := u_eq keq (fun _ _ => true) heq hash t1 t2.
End UnorderedSet.

(* ====================================================================== sorting/insertion.rs *)
Section InsertionSort.
  Context {T : Type}.
  Variable less : T -> nat -> nat -> bool.           (* less(array, i, j) *)
  Variable swap_shift : T -> nat -> nat -> T.        (* swap_shift(array, a, b), a < b *)
  (* find_insertion_point: let mut i = next_unsorted; while i > 0 && less(array, next_unsorted, i - 1) { i -= 1 } *)
  Fixpoint find_insertion_point (arr : T) (next_unsorted : nat) (i : nat) : nat :=
    match i with
    | 0 => 0
    | S i' => if less arr next_unsorted i' then find_insertion_point arr next_unsorted i' else i
    end.
  Definition insertion_step (arr : T) (i : nat) : T :=
    let p := find_insertion_point arr i i in
    if p =? i then arr else swap_shift arr p i.
  (* for i in 1..len *)
  Definition insertion_sort (arr : T) (len : nat) : T := fold_left insertion_step (seq 1 (len - 1)) arr.
End InsertionSort.

(* slice_swap_shift: move the element at b to a, shift a..b one to the right *)
Fixpoint slice_swap_shift {X} (l : list X) (a b : nat) {struct a} : list X :=
  match a, l with
  | 0, _ => match nth_error l b with Some x => x :: drop_nth b l | None => l end
  | S a', y :: r => y :: slice_swap_shift r a' (b - 1)
  | S _, [] => []
  end.

(* ====================================================================== Vec2 *)
Section Vec2.
  Context {A B : Type}.
  Variable min_cap : nat.        (* MIN_NON_ZERO_CAP, a function of size_of::<(A, B)>() *)
  Variable max_ins : nat.        (* MAX_INSERTION of sort_by *)

  (* one allocation [A; cap] [B; cap]; the first len cells of each half are initialised: aaa() and bbb() *)
  Record vec2 := mkv2 { aaa : list A; bbb : list B; cap : nat }.
  Definition v2_len (v : vec2) : nat := length (aaa v).
  Definition v2_to_list (v : vec2) : list (A * B) := combine (aaa v) (bbb v).      (* iter() / into_iter() *)

  Definition v2_new : vec2 := mkv2 [] [] 0.
  Definition v2_with_capacity (c : nat) : vec2 := mkv2 [] [] c.
  (* reserve / reserve_slow *)
  Definition v2_reserve (v : vec2) (additional : nat) : vec2 :=
    if cap v - v2_len v <? additional
    then mkv2 (aaa v) (bbb v) (Nat.max (Nat.max (v2_len v + additional) min_cap) (cap v * 2))
    else v.
  Definition v2_push (v : vec2) (a : A) (b : B) : vec2 :=
    let v' := v2_reserve v 1 in mkv2 (aaa v' ++ [a]) (bbb v' ++ [b]) (cap v').
  Definition v2_get (v : vec2) (i : nat) : option (A * B) :=
    if i <? v2_len v
    then match nth_error (aaa v) i, nth_error (bbb v) i with Some a, Some b => Some (a, b) | _, _ => None end
    else None.
  (* remove: assert!(index < len) -- None stands for the panic *)
  Definition v2_remove (v : vec2) (i : nat) : option (vec2 * (A * B)) :=
    if i <? v2_len v
    then match v2_get v i with
         | Some ab => Some (mkv2 (drop_nth i (aaa v)) (drop_nth i (bbb v)) (cap v), ab)
         | None => None
         end
    else None.
  Definition v2_clear (v : vec2) : vec2 := mkv2 [] [] (cap v).
  Definition v2_pop (v : vec2) : vec2 * option (A * B) :=
    match v2_len v with
    | 0 => (v, None)                                     (* checked_sub(1)? *)
    | S n => (mkv2 (firstn n (aaa v)) (firstn n (bbb v)) (cap v), v2_get v n)
    end.
  Definition v2_first (v : vec2) : option (A * B) := v2_get v 0.
  Definition v2_last (v : vec2) : option (A * B) :=
    match v2_len v with 0 => None | S n => v2_get v n end.
  Definition v2_truncate (v : vec2) (n : nat) : vec2 :=
    if v2_len v <? n then v else mkv2 (firstn n (aaa v)) (firstn n (bbb v)) (cap v).
  (* retain: read (a, b), f may write both and decides; kept pairs are written back at `written` in both halves *)
  Fixpoint retain2 (f : A -> B -> option (A * B)) (la : list A) (lb : list B) : list A * list B :=
    match la, lb with
    | a :: ra, b :: rb =>
        let (ra', rb') := retain2 f ra rb in
        match f a b with Some (a', b') => (a' :: ra', b' :: rb') | None => (ra', rb') end
    | _, _ => ([], [])
    end.
  Definition v2_retain (f : A -> B -> option (A * B)) (v : vec2) : vec2 :=
    let (la, lb) := retain2 f (aaa v) (bbb v) in mkv2 la lb (cap v).
  (* Extend: reserve(size_hint().0) then push each *)
  Definition v2_extend (v : vec2) (l : list (A * B)) : vec2 :=
    fold_left (fun w ab => v2_push w (fst ab) (snd ab)) l (v2_reserve v (length l)).
  Definition v2_from_iter (l : list (A * B)) : vec2 := v2_extend (v2_with_capacity (length l)) l.
  (* Clone: with_capacity(len) and push each *)
  Definition v2_clone (v : vec2) : vec2 :=
    fold_left (fun w ab => v2_push w (fst ab) (snd ab)) (v2_to_list v) (v2_with_capacity (v2_len v)).
  Definition v2_shrink_to_fit (v : vec2) : vec2 :=
    if v2_len v <? cap v then v2_clone v else v.
  (* PartialEq: self.len == other.len && self.iter().eq(other.iter()) *)
  Definition v2_eq (abeq : A * B -> A * B -> bool) (v w : vec2) : bool :=
    (v2_len v =? v2_len w) && list_eqb abeq (v2_to_list v) (v2_to_list w).

  Variable less : A * B -> A * B -> bool.      (* compare(x, y) == Ordering::Less *)
  Definition v2_less (v : vec2) (i j : nat) : bool :=
    match v2_get v i, v2_get v j with Some x, Some y => less x y | _, _ => false end.
  Definition v2_swap_shift (v : vec2) (a b : nat) : vec2 :=
    mkv2 (slice_swap_shift (aaa v) a b) (slice_swap_shift (bbb v) a b) (cap v).
  (* sort_insertion_by *)
  Definition v2_sort_insertion_by (v : vec2) : vec2 := insertion_sort v2_less v2_swap_shift v (v2_len v).
  (* slice::sort_by of std: a stable sort (trusted, as in Model.std_stable_sort) *)
  Definition std_sort_by (l : list (A * B)) : list (A * B) := isort less l.
  (* sort_by *)
  Definition v2_sort_by (v : vec2) : vec2 :=
    if v2_len v <=? max_ins then v2_sort_insertion_by v
    else (* mem::take(self).into_iter().collect(); entries.sort_by(..); push each back *)
      fold_left (fun w ab => v2_push w (fst ab) (snd ab)) (std_sort_by (v2_to_list v)) v2_new.

  Inductive vec2_op :=
  | VPush (a : A) (b : B)
  | VPop
  | VRemove (i : nat)            (* panics (history stops changing the vector) when out of range *)
  | VClear
  | VTruncate (n : nat)
  | VRetain (f : A -> B -> option (A * B))
  | VSortBy
  | VSortInsertionBy
  | VReserve (n : nat)
  | VShrinkToFit
  | VExtend (l : list (A * B))
  | VWithCapacity (n : nat)
  | VClone.
  Definition v2_step (v : vec2) (o : vec2_op) : vec2 * option (A * B) :=
    match o with
    | VPush a b => (v2_push v a b, None)
    | VPop => v2_pop v
    | VRemove i => match v2_remove v i with Some (v', ab) => (v', Some ab) | None => (v, None) end
    | VClear => (v2_clear v, None)
    | VTruncate n => (v2_truncate v n, None)
    | VRetain f => (v2_retain f v, None)
    | VSortBy => (v2_sort_by v, None)
    | VSortInsertionBy => (v2_sort_insertion_by v, None)
    | VReserve n => (v2_reserve v n, None)
    | VShrinkToFit => (v2_shrink_to_fit v, None)
    | VExtend l => (v2_extend v l, None)
    | VWithCapacity n => (v2_with_capacity n, None)
    | VClone => (v2_clone v, None)
    end.
  Definition v2_run (ops : list vec2_op) : vec2 := fold_left (fun v o => fst (v2_step v o)) ops v2_new.

  (* the list specification of Vec2 *)
  Definition vs_step (l : list (A * B)) (o : vec2_op) : list (A * B) * option (A * B) :=
    match o with
    | VPush a b => (l ++ [(a, b)], None)
    | VPop => (removelast l, list_last l)
    | VRemove i => (drop_nth i l, nth_error l i)
    | VClear => ([], None)
    | VTruncate n => (firstn n l, None)
    | VRetain f => (flat_map (fun ab => match f (fst ab) (snd ab) with Some x => [x] | None => [] end) l, None)
    | VSortBy | VSortInsertionBy => (isort less l, None)
    | VReserve _ | VShrinkToFit | VClone => (l, None)
    | VExtend l' => (l ++ l', None)
    | VWithCapacity _ => ([], None)
    end.
  Definition vs_run (ops : list vec2_op) : list (A * B) := fold_left (fun l o => fst (vs_step l o)) ops [].
End Vec2.
Arguments vec2 : clear implicits.
Arguments vec2_op : clear implicits.
