(* C11 user-level specification: an insertion-ordered map is a plain association list.
   insert of an existing key keeps its position and replaces the value; remove deletes and shifts.
   No hashes, no index, no threshold appear here.  Executable; no proofs in this file. *)
From Coq Require Import List Arith Bool.
Import ListNotations.

Section Spec.
  Context {K V : Type}.
  Variable keq : K -> K -> bool.
  Variable klt : K -> K -> bool.     (* strict order used by sort_keys *)

  Definition amap := list (K * V).

  (* ---- the operations a history is made of (shared with the implementation model) ---- *)
  Inductive op :=
  | OInsert (k : K) (v : V)              (* insert / insert_hashed *)
  | OInsertUnique (k : K) (v : V)        (* insert_unique_unchecked, issued only when the key is absent (caller contract);
                                            a history step with a present key is a no-op *)
  | ORemove (k : K)                      (* shift_remove_entry *)
  | ORemoveIndex (i : nat)               (* shift_remove_index *)
  | OPop                                 (* pop *)
  | OClear                               (* clear *)
  | ORetain (f : K -> V -> option V)     (* retain: None = drop, Some v' = keep with (possibly modified) value *)
  | OSortKeys                            (* sort_keys *)
  | OReverse                             (* reverse *)
  | OMaybeDropIndex                      (* maybe_drop_index *)
  | OReserve (n : nat)                   (* reserve *)
  | OExtend (l : list (K * V))           (* extend *)
  | OEntryOrInsert (k : K) (v : V)       (* entry(k).or_insert(v) *)
  | OEntryModify (k : K) (f : V -> V) (v : V)  (* entry(k).and_modify(f).or_insert(v) *)
  | OWithCapacity (n : nat)              (* replace the map by with_capacity(n) *)
  | OClone.                              (* replace the map by its clone *)

  Inductive ret :=
  | RUnit
  | ROptV (o : option V)
  | ROptKV (o : option (K * V))
  | RVal (v : V).

  (* ---- queries ---- *)
  Fixpoint index_of (l : amap) (k : K) : option nat :=
    match l with
    | [] => None
    | (k', _) :: r => if keq k k' then Some 0 else option_map S (index_of r k)
    end.

  Fixpoint get (l : amap) (k : K) : option V :=
    match l with
    | [] => None
    | (k', v) :: r => if keq k k' then Some v else get r k
    end.

  Definition contains (l : amap) (k : K) : bool := match get l k with Some _ => true | None => false end.
  Definition get_index (l : amap) (i : nat) : option (K * V) := nth_error l i.

  (* ---- updates ---- *)
  Fixpoint insert (l : amap) (k : K) (v : V) : amap :=
    match l with
    | [] => [(k, v)]
    | (k', v') :: r => if keq k k' then (k', v) :: r else (k', v') :: insert r k v
    end.

  Fixpoint remove (l : amap) (k : K) : amap :=
    match l with
    | [] => []
    | (k', v') :: r => if keq k k' then r else (k', v') :: remove r k
    end.

  Fixpoint get_entry (l : amap) (k : K) : option (K * V) :=
    match l with
    | [] => None
    | (k', v) :: r => if keq k k' then Some (k', v) else get_entry r k
    end.

  Fixpoint remove_at (i : nat) (l : amap) : amap :=
    match l, i with
    | [], _ => []
    | _ :: r, 0 => r
    | x :: r, S j => x :: remove_at j r
    end.

  Fixpoint modify (l : amap) (k : K) (f : V -> V) : amap :=
    match l with
    | [] => []
    | (k', v') :: r => if keq k k' then (k', f v') :: r else (k', v') :: modify r k f
    end.

  Definition retain (f : K -> V -> option V) (l : amap) : amap :=
    flat_map (fun kv => match f (fst kv) (snd kv) with Some v' => [(fst kv, v')] | None => [] end) l.

  (* stable insertion sort, generic; the only sorting algorithm of this development *)
  Section Sort.
    Context {A : Type} (less : A -> A -> bool).
    (* [revp] is the sorted prefix reversed (largest first); scan from the right while x < element *)
    Fixpoint ins_right (x : A) (revp : list A) : list A :=
      match revp with
      | [] => [x]
      | y :: r => if less x y then y :: ins_right x r else x :: revp
      end.
    Definition isort (l : list A) : list A := rev (fold_left (fun revp x => ins_right x revp) l []).
  End Sort.

  Definition sort_keys (l : amap) : amap := isort (fun a b => klt (fst a) (fst b)) l.

  Definition extend (l : amap) (kvs : list (K * V)) : amap :=
    fold_left (fun l kv => insert l (fst kv) (snd kv)) kvs l.

  Definition last_opt (l : amap) : option (K * V) :=
    match l with [] => None | _ => nth_error l (length l - 1) end.

  Definition step (l : amap) (o : op) : amap * ret :=
    match o with
    | OInsert k v => (insert l k v, ROptV (get l k))
    | OInsertUnique k v => (if contains l k then l else l ++ [(k, v)], RUnit)
    | ORemove k => (remove l k, ROptKV (get_entry l k))
    | ORemoveIndex i => (remove_at i l, ROptKV (nth_error l i))
    | OPop => (removelast l, ROptKV (last_opt l))
    | OClear => ([], RUnit)
    | ORetain f => (retain f l, RUnit)
    | OSortKeys => (sort_keys l, RUnit)
    | OReverse => (rev l, RUnit)
    | OMaybeDropIndex => (l, RUnit)
    | OReserve _ => (l, RUnit)
    | OExtend kvs => (extend l kvs, RUnit)
    | OEntryOrInsert k v =>
        match get l k with
        | Some v' => (l, RVal v')
        | None => (l ++ [(k, v)], RVal v)
        end
    | OEntryModify k f v =>
        match get l k with
        | Some v' => (modify l k f, RVal (f v'))
        | None => (l ++ [(k, v)], RVal v)
        end
    | OWithCapacity _ => ([], RUnit)
    | OClone => (l, RUnit)
    end.

  Definition run (ops : list op) : amap := fold_left (fun l o => fst (step l o)) ops [].
End Spec.

Arguments op : clear implicits.
Arguments ret : clear implicits.
