(* C11 correspondence driver: the SmallMap model instantiated at K = V = H = nat with the threshold and the
   sort cut-off read from the source (Extracted.MapC), replaying the histories the real SmallMap ran and
   reporting, after every step, what the harness reports.  Executable only. *)
From Coq Require Import List Arith Bool ZArith.
From SV Require Import Map.Spec Map.Model Extracted.MapC.
Import ListNotations.
Open Scope nat_scope.

Definition thr : nat := Z.to_nat no_index_threshold.
Definition max_ins : nat := Z.to_nat max_insertion.

(* concrete operations (keys = ids, values = small naturals, hashes = class ids of the 32-bit hashes) *)
Inductive cop :=
| CIns (k v : nat) | CInsU (k v : nat) | CRem (k : nat) | CRemI (i : nat) | CPop | CClear
| CRetain (drop : list nat) (d : nat) | CSort | CRev | CDropIdx | CReserve (n : nat)
| CExtend (l : list (nat * nat)) | CEntry (k v : nat) | CEMod (k d v : nat) | CWithCap (n : nat) | CClone.

Definition to_op (c : cop) : op nat nat :=
  match c with
  | CIns k v => OInsert k v
  | CInsU k v => OInsertUnique k v
  | CRem k => ORemove k
  | CRemI i => ORemoveIndex i
  | CPop => OPop
  | CClear => OClear
  | CRetain drop d => ORetain (fun k v => if existsb (Nat.eqb k) drop then None else Some (v + d))
  | CSort => OSortKeys
  | CRev => OReverse
  | CDropIdx => OMaybeDropIndex
  | CReserve n => OReserve n
  | CExtend l => OExtend l
  | CEntry k v => OEntryOrInsert k v
  | CEMod k d v => OEntryModify k (fun x => x + d) v
  | CWithCap n => OWithCapacity n
  | CClone => OClone
  end.

Section Run.
  Variable hs : list nat.                       (* hash class of key id k = nth k hs 0 *)
  Definition khash (k : nat) : nat := nth k hs 0.
  Definition nkeys : nat := length hs.

  Definition cmap := @smap nat nat nat.
  Definition cstep (m : cmap) (c : cop) : cmap * ret nat nat :=
    step Nat.eqb Nat.eqb Nat.ltb khash thr max_ins m (to_op c).

  Record obs := mkobs {
    o_ret : ret nat nat;
    o_entries : list (nat * nat);
    o_idx : option (list (nat * bool));
    o_look : list (option (nat * nat))
  }.

  Definition observe (m : cmap) (r : ret nat nat) : obs :=
    mkobs r (to_list m) (index_snapshot Nat.eqb m)
      (map (fun k => match get_index_of Nat.eqb Nat.eqb khash m k, get Nat.eqb Nat.eqb khash m k with
                     | Some i, Some v => Some (i, v)
                     | _, _ => None
                     end) (seq 0 nkeys)).

  Fixpoint run_obs (m : cmap) (cs : list cop) : list obs :=
    match cs with
    | [] => []
    | c :: r => let (m', rt) := cstep m c in observe m' rt :: run_obs m' r
    end.

  Definition run_case (cs : list cop) : list obs := run_obs (@empty nat nat nat) cs.

  (* the specification replayed on the same history (for a built-in cross-check of model against Spec) *)
  Fixpoint spec_obs (l : list (nat * nat)) (cs : list cop) : list (ret nat nat * list (nat * nat)) :=
    match cs with
    | [] => []
    | c :: r => let (l', rt) := Spec.step Nat.eqb Nat.ltb l (to_op c) in (rt, l') :: spec_obs l' r
    end.
  Definition spec_case (cs : list cop) := spec_obs [] cs.
End Run.
