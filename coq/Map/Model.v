(* C11 implementation model: starlark_map::SmallMap mirrored branch by branch.
   entries = VecMap over Vec2<(K,V), StarlarkHashValue>   ->  list (K * H * V)
   index   = Option<Box<hashbrown::HashTable<usize>>>      ->  option (list (H * nat))
   A hashbrown table is modelled as an unordered bag of (hash, stored usize) slots with
   find-by-hash-and-predicate, insert_unique, find_entry+remove, iter_mut, retain, clear.
   Keys carry an arbitrary caller-supplied hash (Hashed::new_unchecked); every lookup compares the
   hash first and the key second, as the code does.  Executable; NO proofs in this file. *)
From Coq Require Import List Arith Bool.
From SV Require Import Map.Spec.
Import ListNotations.

Section Model.
  Context {K V H : Type}.
  Variable keq : K -> K -> bool.
  Variable heq : H -> H -> bool.
  Variable klt : K -> K -> bool.
  Variable hash : K -> H.          (* what Hashed::new computes; used by the non-_hashed entry points *)
  Variable thr : nat.              (* NO_INDEX_THRESHOLD *)
  Variable max_ins : nat.          (* MAX_INSERTION of Vec2::sort_by *)

  Definition entry := (K * H * V)%type.
  Definition e_key (e : entry) : K := fst (fst e).
  Definition e_hash (e : entry) : H := snd (fst e).
  Definition e_val (e : entry) : V := snd e.
  Definition e_kv (e : entry) : K * V := (e_key e, e_val e).

  Definition table := list (H * nat).
  Record smap := mk { entries : list entry; index : option table }.

  Definition to_list (m : smap) : list (K * V) := map e_kv (entries m).
  Definition len (m : smap) : nat := length (entries m).

  (* ---------------- hashbrown::HashTable<usize> ---------------- *)
  Definition ht_match (h : H) (p : nat -> bool) (s : H * nat) : bool := heq (fst s) h && p (snd s).
  (* HashTable::find(hash, eq) *)
  Definition ht_find (t : table) (h : H) (p : nat -> bool) : option nat :=
    option_map snd (find (ht_match h p) t).
  (* HashTable::find_entry(hash, eq) followed by OccupiedEntry::remove: the value and the table without that slot *)
  Fixpoint ht_take (t : table) (h : H) (p : nat -> bool) : option (nat * table) :=
    match t with
    | [] => None
    | s :: r =>
        if ht_match h p s then Some (snd s, r)
        else match ht_take r h p with
             | Some (i, r') => Some (i, s :: r')
             | None => None
             end
    end.
  (* HashTable::insert_unique(hash, value, hasher) *)
  Definition ht_insert_unique (t : table) (h : H) (i : nat) : table := t ++ [(h, i)].
  (* for bucket in index.iter_mut(): bucket := f bucket *)
  Definition ht_iter_mut (f : nat -> nat) (t : table) : table := map (fun s => (fst s, f (snd s))) t.
  (* HashTable::retain where the closure may also rewrite the slot: None = dropped, Some j' = kept as j' *)
  Definition ht_retain (f : nat -> option nat) (t : table) : table :=
    flat_map (fun s => match f (snd s) with Some j => [(fst s, j)] | None => [] end) t.

  (* ---------------- vec_map.rs / vec2.rs ---------------- *)
  (* VecMap::get_index_of_hashed_raw: scan the stored hashes, on a hash match compare the key *)
  Fixpoint vm_scan (es : list entry) (h : H) (k : K) (i : nat) : option nat :=
    match es with
    | [] => None
    | e :: r => if heq (e_hash e) h && keq k (e_key e) then Some i else vm_scan r h k (S i)
    end.
  Definition vm_get_index_of (es : list entry) (h : H) (k : K) : option nat := vm_scan es h k 0.

  (* Vec2::remove(index) *)
  Fixpoint remove_nth (i : nat) (es : list entry) : list entry :=
    match es, i with
    | [], _ => []
    | _ :: r, 0 => r
    | x :: r, S j => x :: remove_nth j r
    end.

  (* mem::replace(self.entries.get_unchecked_mut(i).1, val) *)
  Fixpoint set_val (es : list entry) (i : nat) (v : V) : list entry :=
    match es, i with
    | [], _ => []
    | e :: r, 0 => (e_key e, e_hash e, v) :: r
    | e :: r, S j => e :: set_val r j v
    end.

  (* Vec2::retain through VecMap::retain *)
  Definition retain_entries (f : K -> V -> option V) (es : list entry) : list entry :=
    flat_map (fun e => match f (e_key e) (e_val e) with Some v' => [(e_key e, e_hash e, v')] | None => [] end) es.

  (* VecMap::is_sorted_by_key: windows(2).all(|w| w[0].0 <= w[1].0) *)
  Fixpoint is_sorted (ks : list K) : bool :=
    match ks with
    | a :: r => match r with b :: _ => negb (klt b a) && is_sorted r | [] => true end
    | [] => true
    end.

  Definition entry_less (a b : entry) : bool := klt (e_key a) (e_key b).
  (* sorting/insertion.rs insertion_sort: element i is moved left past every element it is less than
     (find_insertion_point scans from i-1 downwards, slice_swap_shift moves it) = Spec.ins_right on the reversed prefix *)
  Definition sort_insertion_by (es : list entry) : list entry := isort entry_less es.
  (* route for len > MAX_INSERTION: collect into Vec, slice::sort_by (stable, std), push back.
     std's stable sort is modelled by the same stable insertion sort (trusted: std sort_by is a stable sort) *)
  Definition std_stable_sort (es : list entry) : list entry := isort entry_less es.
  (* Vec2::sort_by *)
  Definition vec2_sort_by (es : list entry) : list entry :=
    if length es <=? max_ins then sort_insertion_by es else std_stable_sort es.

  (* ---------------- small_map.rs ---------------- *)
  Definition empty : smap := mk [] None.                      (* SmallMap::new *)

  Definition with_capacity (n : nat) : smap :=                (* SmallMap::with_capacity *)
    if n <=? thr then mk [] None else mk [] (Some []).

  (* the closure  |&index| eq(self.entries.get_unchecked(index).0.key())  ; an out-of-range index would be UB in
     the code, the model answers false (C11_index_in_bounds shows it cannot happen) *)
  Definition key_eq_at (es : list entry) (k : K) (i : nat) : bool :=
    match nth_error es i with Some e => keq k (e_key e) | None => false end.

  (* get_index_of_hashed_raw *)
  Definition get_index_of_hashed_raw (m : smap) (h : H) (k : K) : option nat :=
    match index m with
    | None => vm_get_index_of (entries m) h k
    | Some t => ht_find t h (key_eq_at (entries m) k)
    end.

  Definition get_hashed (m : smap) (h : H) (k : K) : option V :=
    match get_index_of_hashed_raw m h k with
    | Some i => option_map e_val (nth_error (entries m) i)
    | None => None
    end.
  Definition get_full_hashed (m : smap) (h : H) (k : K) : option (nat * K * V) :=
    match get_index_of_hashed_raw m h k with
    | Some i => option_map (fun e => (i, e_key e, e_val e)) (nth_error (entries m) i)
    | None => None
    end.
  Definition get (m : smap) (k : K) : option V := get_hashed m (hash k) k.
  Definition get_index_of (m : smap) (k : K) : option nat := get_index_of_hashed_raw m (hash k) k.
  Definition contains_key (m : smap) (k : K) : bool :=
    match get_index_of m k with Some _ => true | None => false end.
  Definition get_index (m : smap) (i : nat) : option (K * V) := option_map e_kv (nth_error (entries m) i).
  Definition first (m : smap) : option (K * V) := get_index m 0.
  Definition last (m : smap) : option (K * V) :=
    match entries m with [] => None | _ => get_index m (len m - 1) end.

  (* create_index / rebuild_index: insert_unique(hash_i, i) for every entry in order *)
  Fixpoint fill_index (es : list entry) (i : nat) (t : table) : table :=
    match es with
    | [] => t
    | e :: r => fill_index r (S i) (ht_insert_unique t (e_hash e) i)
    end.
  Definition create_index (m : smap) : smap := mk (entries m) (Some (fill_index (entries m) 0 [])).
  Definition rebuild_index (m : smap) : smap :=
    match index m with
    | Some _ => mk (entries m) (Some (fill_index (entries m) 0 []))      (* index.clear(); re-insert *)
    | None => m
    end.

  (* insert_hashed_unique_unchecked *)
  Definition insert_hashed_unique_unchecked (m : smap) (k : K) (h : H) (v : V) : smap :=
    let entry_index := length (entries m) in
    let es' := entries m ++ [(k, h, v)] in
    match index m with
    | Some t => mk es' (Some (ht_insert_unique t h entry_index))
    | None => if length es' =? thr + 1 then create_index (mk es' None) else mk es' None
    end.

  (* insert_hashed *)
  Definition insert_hashed (m : smap) (k : K) (h : H) (v : V) : smap * option V :=
    match get_index_of_hashed_raw m h k with
    | None => (insert_hashed_unique_unchecked m k h v, None)
    | Some i => (mk (set_val (entries m) i v) (index m), option_map e_val (nth_error (entries m) i))
    end.

  (* shift_remove_hashed_entry *)
  Definition shift_remove_hashed_entry (m : smap) (h : H) (k : K) : smap * option (K * V) :=
    match index m with
    | Some t =>
        match ht_take t h (key_eq_at (entries m) k) with
        | None => (m, None)
        | Some (i, t1) =>
            (* No need to update the index when the last entry is removed. *)
            let t2 := if i =? length (entries m) - 1 then t1
                      else ht_iter_mut (fun j => if i <? j then j - 1 else j) t1 in
            (mk (remove_nth i (entries m)) (Some t2), option_map e_kv (nth_error (entries m) i))
        end
    | None =>                                                  (* VecMap::remove_hashed_entry *)
        match vm_get_index_of (entries m) h k with
        | Some i => (mk (remove_nth i (entries m)) None, option_map e_kv (nth_error (entries m) i))
        | None => (m, None)
        end
    end.

  (* shift_remove_index_hashed *)
  Definition shift_remove_index (m : smap) (i : nat) : smap * option (K * V) :=
    if length (entries m) <=? i then (m, None)
    else
      let t' := option_map (ht_retain (fun j => if j =? i then None else if i <? j then Some (j - 1) else Some j))
                           (index m) in
      (mk (remove_nth i (entries m)) t', option_map e_kv (nth_error (entries m) i)).

  (* pop *)
  Definition pop (m : smap) : smap * option (K * V) :=
    match length (entries m) with
    | 0 => (m, None)
    | S n =>
        match nth_error (entries m) n with
        | None => (m, None)
        | Some e =>
            let es' := firstn n (entries m) in
            let t' := match index m with
                      | Some t => match ht_take t (e_hash e) (fun i => i =? length es') with
                                  | Some (_, t1) => Some t1
                                  | None => Some t          (* unreachable!() under debug assertions *)
                                  end
                      | None => None
                      end in
            (mk es' t', Some (e_kv e))
        end
    end.

  (* clear: the index object stays allocated *)
  Definition clear (m : smap) : smap := mk [] (option_map (fun _ => []) (index m)).

  (* sort_keys *)
  Definition sort_keys (m : smap) : smap :=
    if is_sorted (map e_key (entries m)) then m
    else rebuild_index (mk (vec2_sort_by (entries m)) (index m)).

  (* reverse *)
  Definition reverse (m : smap) : smap :=
    let n := length (entries m) in
    mk (rev (entries m)) (option_map (ht_iter_mut (fun j => n - 1 - j)) (index m)).

  (* retain: RebuildIndexOnDrop rebuilds only when something was removed *)
  Definition retain (f : K -> V -> option V) (m : smap) : smap :=
    let es' := retain_entries f (entries m) in
    let m' := mk es' (index m) in
    if length es' <? length (entries m) then rebuild_index m' else m'.

  (* maybe_drop_index *)
  Definition maybe_drop_index (m : smap) : smap :=
    if length (entries m) <=? thr then mk (entries m) None else m.

  (* reserve *)
  Definition reserve (m : smap) (additional : nat) : smap :=
    match index m with
    | Some _ => m
    | None => if thr <? length (entries m) + additional then create_index m else m
    end.

  (* Extend::extend = insert for every pair *)
  Definition extend (m : smap) (kvs : list (K * V)) : smap :=
    fold_left (fun m kv => fst (insert_hashed m (fst kv) (hash (fst kv)) (snd kv))) kvs m.

  (* entry_hashed(key).or_insert(v) *)
  Definition entry_or_insert (m : smap) (k : K) (h : H) (v : V) : smap * V :=
    match get_index_of_hashed_raw m h k with
    | Some i => (m, match nth_error (entries m) i with Some e => e_val e | None => v end)        (* Occupied *)
    | None => (insert_hashed_unique_unchecked m k h v, v)                                        (* Vacant *)
    end.

  (* entry_hashed(key).and_modify(f).or_insert(v) *)
  Definition entry_modify (m : smap) (k : K) (h : H) (f : V -> V) (v : V) : smap * V :=
    match get_index_of_hashed_raw m h k with
    | Some i =>
        match nth_error (entries m) i with
        | Some e => (mk (set_val (entries m) i (f (e_val e))) (index m), f (e_val e))
        | None => (m, v)
        end
    | None => (insert_hashed_unique_unchecked m k h v, v)
    end.

  (* one history step *)
  Definition step (m : smap) (o : op K V) : smap * ret K V :=
    match o with
    | OInsert k v => let (m', r) := insert_hashed m k (hash k) v in (m', ROptV r)
    | OInsertUnique k v =>
        (if contains_key m k then m else insert_hashed_unique_unchecked m k (hash k) v, RUnit)
    | ORemove k => let (m', r) := shift_remove_hashed_entry m (hash k) k in (m', ROptKV r)
    | ORemoveIndex i => let (m', r) := shift_remove_index m i in (m', ROptKV r)
    | OPop => let (m', r) := pop m in (m', ROptKV r)
    | OClear => (clear m, RUnit)
    | ORetain f => (retain f m, RUnit)
    | OSortKeys => (sort_keys m, RUnit)
    | OReverse => (reverse m, RUnit)
    | OMaybeDropIndex => (maybe_drop_index m, RUnit)
    | OReserve n => (reserve m n, RUnit)
    | OExtend kvs => (extend m kvs, RUnit)
    | OEntryOrInsert k v => let (m', r) := entry_or_insert m k (hash k) v in (m', RVal r)
    | OEntryModify k f v => let (m', r) := entry_modify m k (hash k) f v in (m', RVal r)
    | OWithCapacity n => (with_capacity n, RUnit)
    | OClone => (mk (entries m) (index m), RUnit)              (* #[derive(Clone)]: both fields cloned *)
    end.

  Definition run (ops : list (op K V)) : smap := fold_left (fun m o => fst (step m o)) ops empty.

  (* what verif_index_snapshot() reports: for every slot its stored index and whether that slot is found under the
     hash stored next to entry [i]; sorted by the harness, compared as a sorted list by the tie *)
  Definition index_snapshot (m : smap) : option (list (nat * bool)) :=
    option_map (fun t =>
      map (fun s => (snd s,
                     match nth_error (entries m) (snd s) with
                     | Some e => match ht_find t (e_hash e) (fun j => j =? snd s) with Some _ => true | None => false end
                     | None => false
                     end)) t) (index m).
End Model.
