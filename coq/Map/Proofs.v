(* C11 proofs: the SmallMap model (Map/Model.v) keeps its invariant under every operation and refines the
   association-list specification (Map/Spec.v), for every hash function (collisions allowed), every threshold
   and every sort cut-off. *)
From Coq Require Import List Arith Lia Bool Permutation.
From SV Require Import Map.Spec Map.Model.
Import ListNotations.

Lemma nth_error_rev {A} (l : list A) j : j < length l -> nth_error (rev l) j = nth_error l (length l - 1 - j).
Proof.
  induction l as [|a l IH]; simpl; intros Hj; [lia|].
  destruct (Nat.lt_ge_cases j (length l)) as [Hlt|Hge].
  - rewrite nth_error_app1 by (rewrite rev_length; assumption). rewrite IH by assumption.
    replace (length l - 0 - j) with (S (length l - 1 - j)) by lia. reflexivity.
  - rewrite nth_error_app2 by (rewrite rev_length; assumption). rewrite rev_length.
    replace (j - length l) with 0 by lia. replace (length l - 0 - j) with 0 by lia. reflexivity.
Qed.

(* ---------------------------------------------------------------------- the insertion sort *)
Section SortLemmas.
  Context {A : Type} (less : A -> A -> bool).
  Notation ins := (ins_right less).
  Notation foldins l acc := (fold_left (fun revp x => ins_right less x revp) l acc).

  Lemma ins_right_perm x l : Permutation (ins x l) (x :: l).
  Proof.
    induction l as [|y l IH]; simpl; auto. destruct (less x y); auto.
    apply perm_trans with (y :: x :: l); [apply perm_skip; exact IH | apply perm_swap].
  Qed.

  Lemma fold_ins_perm l acc : Permutation (foldins l acc) (l ++ acc).
  Proof.
    revert acc; induction l as [|x l IH]; simpl; intros acc; auto.
    eapply perm_trans; [apply IH|].
    eapply perm_trans; [apply Permutation_app_head; apply ins_right_perm|].
    apply Permutation_sym, Permutation_middle.
  Qed.

  Lemma isort_perm l : Permutation (isort less l) l.
  Proof.
    unfold isort. eapply perm_trans; [apply Permutation_sym, Permutation_rev|].
    eapply perm_trans; [apply fold_ins_perm|]. rewrite app_nil_r. apply Permutation_refl.
  Qed.

  (* chain p l: every element is not less than its predecessor (p = the element before the list) *)
  Fixpoint chain (prev : option A) (l : list A) : bool :=
    match l with
    | [] => true
    | x :: r => (match prev with Some p => negb (less x p) | None => true end) && chain (Some x) r
    end.

  Lemma fold_ins_sorted l acc : chain (hd_error acc) l = true -> foldins l acc = rev l ++ acc.
  Proof.
    revert acc; induction l as [|x l IH]; simpl; intros acc Hc; auto.
    apply andb_prop in Hc as [Hx Hc].
    assert (Hi : ins x acc = x :: acc).
    { destruct acc as [|y acc]; simpl in *; auto. destruct (less x y); [discriminate|reflexivity]. }
    rewrite Hi. rewrite IH by (simpl; exact Hc). rewrite <- app_assoc. reflexivity.
  Qed.

  (* an already sorted sequence is left as it is *)
  Lemma isort_sorted_id l : chain None l = true -> isort less l = l.
  Proof.
    intros Hc. unfold isort. rewrite fold_ins_sorted by exact Hc. rewrite app_nil_r. apply rev_involutive.
  Qed.

  (* dchain p l: no element is less-than-preceded: adjacent (a, b) has less a b = false (descending prefix) *)
  Fixpoint dchain (prev : option A) (l : list A) : bool :=
    match l with
    | [] => true
    | x :: r => (match prev with Some p => negb (less p x) | None => true end) && dchain (Some x) r
    end.

  Hypothesis less_asym : forall a b, less a b = true -> less b a = false.

  Lemma ins_right_dchain x l p :
    dchain p l = true -> match p with Some p' => less p' x = false | None => True end ->
    dchain p (ins x l) = true.
  Proof.
    revert p; induction l as [|y l IH]; simpl; intros p Hd Hp.
    - destruct p; [rewrite Hp|]; reflexivity.
    - apply andb_prop in Hd as [Hy Hd]. destruct (less x y) eqn:E; simpl.
      + rewrite Hy. simpl. apply IH; [exact Hd | simpl; apply less_asym; exact E].
      + rewrite E, Hd. destruct p; [rewrite Hp|]; reflexivity.
  Qed.

  Lemma fold_ins_dchain l acc : dchain None acc = true -> dchain None (foldins l acc) = true.
  Proof.
    revert acc; induction l as [|x l IH]; simpl; intros acc Hd; auto.
    apply IH. apply ins_right_dchain; simpl; auto.
  Qed.

  Lemma dchain_nth p l : dchain p l = true ->
    forall i a b, nth_error l i = Some a -> nth_error l (S i) = Some b -> less a b = false.
  Proof.
    revert p; induction l as [|x l IH]; intros p Hd i a b Ha Hb; [destruct i; discriminate|].
    simpl in Hd. apply andb_prop in Hd as [_ Hd]. destruct i as [|i].
    - simpl in Ha. inversion Ha; subst. destruct l as [|y l]; simpl in Hb; [discriminate|].
      inversion Hb; subst. simpl in Hd. apply andb_prop in Hd as [Hab _].
      apply negb_true_iff in Hab. exact Hab.
    - eapply IH; eauto.
  Qed.

  (* the result is sorted: no element is less than its predecessor *)
  Lemma isort_sorted l i a b :
    nth_error (isort less l) i = Some a -> nth_error (isort less l) (S i) = Some b -> less b a = false.
  Proof.
    unfold isort. set (r := foldins l []). intros Ha Hb.
    assert (Hd : dchain None r = true) by (apply fold_ins_dchain; reflexivity).
    assert (Hlen : S i < length r).
    { rewrite <- rev_length. apply nth_error_Some. rewrite Hb. discriminate. }
    rewrite nth_error_rev in Ha by lia. rewrite nth_error_rev in Hb by lia.
    replace (length r - 1 - i) with (S (length r - 1 - S i)) in Ha by lia.
    eapply dchain_nth; eauto.
  Qed.
End SortLemmas.

Section SortMap.
  Context {A B : Type} (g : A -> B) (lessA : A -> A -> bool) (lessB : B -> B -> bool).
  Hypothesis less_g : forall a b, lessA a b = lessB (g a) (g b).

  Lemma ins_right_map x l : map g (ins_right lessA x l) = ins_right lessB (g x) (map g l).
  Proof.
    induction l as [|y l IH]; simpl; auto. rewrite <- less_g. destruct (lessA x y); simpl; [f_equal; exact IH|reflexivity].
  Qed.

  Lemma isort_map l : map g (isort lessA l) = isort lessB (map g l).
  Proof.
    unfold isort. rewrite map_rev. f_equal.
    assert (Hf : forall acc, map g (fold_left (fun r x => ins_right lessA x r) l acc)
                        = fold_left (fun r x => ins_right lessB x r) (map g l) (map g acc)).
    { induction l as [|x l IH]; simpl; intros acc; auto. rewrite IH, ins_right_map. reflexivity. }
    apply (Hf []).
  Qed.

  Lemma chain_map p l : chain lessB (option_map g p) (map g l) = chain lessA p l.
  Proof.
    revert p; induction l as [|x l IH]; simpl; intros p; auto.
    specialize (IH (Some x)). simpl in IH. rewrite IH. destruct p; simpl; [rewrite <- less_g|]; reflexivity.
  Qed.
End SortMap.


Section Proofs.
  Context {K V H : Type}.
  Variable keq : K -> K -> bool.
  Variable heq : H -> H -> bool.
  Variable klt : K -> K -> bool.
  Variable hash : K -> H.
  Variable thr : nat.
  Variable max_ins : nat.
  Hypothesis keq_spec : forall a b, keq a b = true <-> a = b.
  Hypothesis heq_spec : forall a b, heq a b = true <-> a = b.

  Notation entry := (@entry K V H).
  Notation smap := (@smap K V H).
  Notation table := (@table H).
  Notation e_key := (@e_key K V H).
  Notation e_hash := (@e_hash K V H).
  Notation e_val := (@e_val K V H).
  Notation e_kv := (@e_kv K V H).
  Notation index_of := (Spec.index_of keq).
  Notation sget := (Spec.get keq).
  Notation mstep := (Model.step keq heq klt hash thr max_ins).
  Notation sstep := (Spec.step keq klt).

  Lemma keq_refl a : keq a a = true.
  Proof. apply keq_spec; reflexivity. Qed.
  Lemma heq_refl a : heq a a = true.
  Proof. apply heq_spec; reflexivity. Qed.

  (* ------------------------------------------------------------------ association lists *)
  Lemma index_of_some (l : list (K * V)) k i :
    index_of l k = Some i -> exists v, nth_error l i = Some (k, v).
  Proof.
    revert i. induction l as [|[k' v'] l IH]; simpl; intros i Hi; [discriminate|].
    destruct (keq k k') eqn:E.
    - inversion Hi; subst. apply keq_spec in E; subst. exists v'; reflexivity.
    - destruct (index_of l k) eqn:E2; simpl in Hi; [|discriminate].
      inversion Hi; subst. simpl. apply IH; reflexivity.
  Qed.

  Lemma index_of_none (l : list (K * V)) k : index_of l k = None -> ~ In k (map fst l).
  Proof.
    induction l as [|[k' v'] l IH]; simpl; intros Hn; [tauto|].
    destruct (keq k k') eqn:E; [discriminate|].
    destruct (index_of l k) eqn:E2; simpl in Hn; [discriminate|].
    intros [Hc|Hc].
    - subst. rewrite keq_refl in E; discriminate.
    - apply IH; auto.
  Qed.

  Lemma index_of_nth (l : list (K * V)) k v i :
    NoDup (map fst l) -> nth_error l i = Some (k, v) -> index_of l k = Some i.
  Proof.
    revert i. induction l as [|[k' v'] l IH]; intros [|i]; simpl; intros Hnd Hn; try discriminate.
    - inversion Hn; subst. rewrite keq_refl; reflexivity.
    - inversion Hnd as [|? ? Hnot Hnd']; subst.
      destruct (keq k k') eqn:E.
      + apply keq_spec in E; subst. exfalso. apply Hnot.
        apply nth_error_In in Hn. apply (in_map fst) in Hn. exact Hn.
      + rewrite (IH i Hnd' Hn). reflexivity.
  Qed.

  Lemma index_of_not_in (l : list (K * V)) k : ~ In k (map fst l) -> index_of l k = None.
  Proof.
    intros Hn. destruct (index_of l k) eqn:E; auto.
    apply index_of_some in E as [v Hv]. exfalso. apply Hn.
    apply nth_error_In in Hv. apply (in_map fst) in Hv. exact Hv.
  Qed.

  Lemma get_index_of (l : list (K * V)) k :
    sget l k = match index_of l k with Some i => option_map snd (nth_error l i) | None => None end.
  Proof.
    induction l as [|[k' v'] l IH]; simpl; auto.
    destruct (keq k k'); simpl; auto. rewrite IH. destruct (index_of l k); simpl; auto.
  Qed.

  Lemma get_entry_index_of (l : list (K * V)) k :
    Spec.get_entry keq l k = match index_of l k with Some i => nth_error l i | None => None end.
  Proof.
    induction l as [|[k' v'] l IH]; simpl; auto.
    destruct (keq k k'); simpl; auto. rewrite IH. destruct (index_of l k); simpl; auto.
  Qed.

  Lemma remove_index_of (l : list (K * V)) k :
    Spec.remove keq l k = match index_of l k with Some i => Spec.remove_at i l | None => l end.
  Proof.
    induction l as [|[k' v'] l IH]; simpl; auto.
    destruct (keq k k'); simpl; auto. rewrite IH. destruct (index_of l k); simpl; auto.
  Qed.

  Lemma insert_none (l : list (K * V)) k v : index_of l k = None -> Spec.insert keq l k v = l ++ [(k, v)].
  Proof.
    induction l as [|[k' v'] l IH]; simpl; intros Hn; auto.
    destruct (keq k k'); [discriminate|]. destruct (index_of l k) eqn:E; simpl in Hn; [discriminate|].
    rewrite IH; auto.
  Qed.

  (* ------------------------------------------------------------------ entries *)
  Definition hashes_ok (es : list entry) : Prop := Forall (fun e => e_hash e = hash (e_key e)) es.

  Lemma keys_kv (es : list entry) : map fst (map e_kv es) = map e_key es.
  Proof. rewrite map_map. reflexivity. Qed.

  Lemma vm_scan_ok (es : list entry) k i :
    hashes_ok es ->
    vm_scan keq heq es (hash k) k i = option_map (Nat.add i) (index_of (map e_kv es) k).
  Proof.
    revert i. induction es as [|e es IH]; simpl; intros i Hh; auto.
    inversion Hh as [|? ? He Hh']; subst.
    destruct (keq k (e_key e)) eqn:E.
    - apply keq_spec in E. rewrite He, <- E, heq_refl. simpl. rewrite Nat.add_0_r. reflexivity.
    - rewrite andb_false_r. rewrite IH by assumption.
      destruct (index_of (map e_kv es) k); simpl; auto; try (f_equal; lia).
  Qed.

  Lemma vm_get_index_of_ok (es : list entry) k :
    hashes_ok es -> vm_get_index_of keq heq es (hash k) k = index_of (map e_kv es) k.
  Proof.
    intros Hh. unfold vm_get_index_of. rewrite vm_scan_ok by assumption.
    destruct (index_of (map e_kv es) k); reflexivity.
  Qed.

  (* ------------------------------------------------------------------ the hash table *)
  (* the table holds exactly the slots (hs[j], j), each once *)
  Definition IdxOkH (hs : list H) (t : table) : Prop :=
    NoDup (map snd t) /\ forall h j, In (h, j) t <-> nth_error hs j = Some h.
  Definition IdxOk (es : list entry) (t : table) : Prop := IdxOkH (map e_hash es) t.

  Lemma idxok_bound hs t h j : IdxOkH hs t -> In (h, j) t -> j < length hs.
  Proof.
    intros [_ Hin] Hj. apply Hin in Hj. apply nth_error_Some. rewrite Hj. discriminate.
  Qed.

  Lemma in_retain (f : nat -> option nat) (t : table) h j' :
    In (h, j') (ht_retain f t) <-> exists j, In (h, j) t /\ f j = Some j'.
  Proof.
    unfold ht_retain. rewrite in_flat_map. split.
    - intros [[h0 j] [Hin Hx]]. simpl in Hx. destruct (f j) eqn:E; simpl in Hx; [|tauto].
      destruct Hx as [Hx|[]]. inversion Hx; subst. exists j. auto.
    - intros [j [Hin Hf]]. exists (h, j). split; auto. simpl. rewrite Hf. left; reflexivity.
  Qed.

  Lemma nodup_retain (f : nat -> option nat) (t : table) :
    (forall a b c, In a (map snd t) -> In b (map snd t) -> f a = Some c -> f b = Some c -> a = b) ->
    NoDup (map snd t) -> NoDup (map snd (ht_retain f t)).
  Proof.
    induction t as [|[h j] t IH]; simpl; intros Hinj Hnd; [constructor|].
    inversion Hnd as [|? ? Hnot Hnd']; subst.
    assert (IH' : NoDup (map snd (ht_retain f t))).
    { apply IH; auto. intros a b c Ha Hb. apply Hinj; right; assumption. }
    destruct (f j) eqn:E; simpl; auto.
    constructor; auto. intros Hc. apply in_map_iff in Hc as [[h2 j2] [Heq Hin2]]. simpl in Heq. subst j2.
    apply in_retain in Hin2 as [j3 [Hin3 Hf3]].
    assert (j3 = j).
    { apply (Hinj j3 j n); auto. right. apply in_map_iff. exists (h2, j3); auto. }
    subst. apply Hnot. apply in_map_iff. exists (h2, j); auto.
  Qed.

  Lemma retain_ext (f g : nat -> option nat) (t : table) :
    (forall j, In j (map snd t) -> f j = g j) -> ht_retain f t = ht_retain g t.
  Proof.
    induction t as [|[h j] t IH]; simpl; intros He; auto.
    rewrite He by (left; reflexivity). rewrite IH; auto.
  Qed.

  Lemma retain_id (f : nat -> option nat) (t : table) :
    (forall j, In j (map snd t) -> f j = Some j) -> ht_retain f t = t.
  Proof.
    induction t as [|[h j] t IH]; simpl; intros He; auto.
    rewrite He by (left; reflexivity). simpl. rewrite IH; auto.
  Qed.

  Lemma iter_mut_retain (g : nat -> nat) (f : nat -> option nat) (t : table) :
    ht_iter_mut g (ht_retain f t) = ht_retain (fun j => option_map g (f j)) t.
  Proof.
    induction t as [|[h j] t IH]; simpl; auto.
    unfold ht_iter_mut in *. rewrite map_app, IH. destruct (f j); reflexivity.
  Qed.

  Lemma iter_mut_as_retain (g : nat -> nat) (t : table) :
    ht_iter_mut g t = ht_retain (fun j => Some (g j)) t.
  Proof.
    induction t as [|[h j] t IH]; [reflexivity|]. unfold ht_iter_mut in *. simpl. rewrite IH. reflexivity.
  Qed.

  (* every table transformation of the model is a [ht_retain]; this is the one transfer lemma *)
  Lemma idxok_retain (hs hs' : list H) (t : table) (f : nat -> option nat) :
    (forall a b c, a < length hs -> b < length hs -> f a = Some c -> f b = Some c -> a = b) ->
    (forall h j', nth_error hs' j' = Some h <-> exists j, nth_error hs j = Some h /\ f j = Some j') ->
    IdxOkH hs t -> IdxOkH hs' (ht_retain f t).
  Proof.
    intros Hinj Hcorr Hok. pose proof Hok as [Hnd Hin]. split.
    - apply nodup_retain; auto. intros a b c Ha Hb.
      apply in_map_iff in Ha as [[ha a'] [Ea Ha]]. apply in_map_iff in Hb as [[hb b'] [Eb Hb]].
      simpl in *; subst. apply Hinj; eapply idxok_bound; eauto.
    - intros h j'. rewrite in_retain, Hcorr. split; intros [j [H1 H2]]; exists j; split; auto; apply Hin; auto.
  Qed.

  Lemma idxok_nil : IdxOkH [] [].
  Proof.
    split; [constructor|]. intros h j. simpl. split; [tauto|]. destruct j; discriminate.
  Qed.

  Lemma map_snd_combine {A B} (l : list A) (l' : list B) :
    length l = length l' -> map snd (combine l l') = l'.
  Proof.
    revert l'. induction l; intros [|b l']; simpl; intros Hl; try discriminate; auto.
    f_equal. apply IHl. lia.
  Qed.

  Lemma in_combine_seq {A} (l : list A) a x j :
    In (x, j) (combine l (seq a (length l))) <-> a <= j /\ nth_error l (j - a) = Some x.
  Proof.
    revert a. induction l as [|y l IH]; simpl; intros a.
    - split; [tauto|]. intros [_ Hn]. destruct (j - a); discriminate.
    - split.
      + intros [Heq|Hin].
        * inversion Heq; subst. rewrite Nat.sub_diag. simpl. auto.
        * apply IH in Hin as [Hle Hn]. split; [lia|].
          replace (j - a) with (S (j - S a)) by lia. exact Hn.
      + intros [Hle Hn]. destruct (j - a) eqn:E.
        * left. simpl in Hn. inversion Hn. f_equal. lia.
        * right. apply IH. split; [lia|]. replace (j - S a) with n by lia. exact Hn.
  Qed.

  Lemma fill_index_eq (es : list entry) i (t : table) :
    fill_index es i t = t ++ combine (map e_hash es) (seq i (length es)).
  Proof.
    revert i t. induction es as [|e es IH]; simpl; intros i t.
    - rewrite app_nil_r; reflexivity.
    - rewrite IH. unfold ht_insert_unique. rewrite <- app_assoc. reflexivity.
  Qed.

  Lemma idxok_build (es : list entry) : IdxOk es (fill_index es 0 []).
  Proof.
    rewrite fill_index_eq. simpl. unfold IdxOk, IdxOkH.
    rewrite <- (map_length e_hash es). split.
    - rewrite map_snd_combine by (rewrite seq_length; reflexivity). apply seq_NoDup.
    - intros h j. rewrite in_combine_seq. rewrite Nat.sub_0_r. split; [tauto|]. intros; split; [lia|auto].
  Qed.

  Lemma idxok_push (hs : list H) (t : table) h :
    IdxOkH hs t -> IdxOkH (hs ++ [h]) (ht_insert_unique t h (length hs)).
  Proof.
    intros Hok. pose proof Hok as [Hnd Hin]. unfold ht_insert_unique. split.
    - rewrite map_app. simpl.
      eapply Permutation_NoDup; [apply Permutation_cons_append|].
      constructor; auto. intros Hc. apply in_map_iff in Hc as [[h0 j] [Ej Hj]]. simpl in Ej; subst.
      apply (idxok_bound _ _ _ _ Hok) in Hj. lia.
    - intros h0 j. rewrite in_app_iff. simpl. split.
      + intros [Hj|[Hj|[]]].
        * pose proof (idxok_bound _ _ _ _ Hok Hj). rewrite nth_error_app1 by assumption. apply Hin; auto.
        * inversion Hj; subst. rewrite nth_error_app2 by lia. rewrite Nat.sub_diag. reflexivity.
      + intros Hn. destruct (Nat.lt_ge_cases j (length hs)) as [Hlt|Hge].
        * rewrite nth_error_app1 in Hn by assumption. left. apply Hin; auto.
        * rewrite nth_error_app2 in Hn by assumption.
          destruct (j - length hs) eqn:E; simpl in Hn.
          -- inversion Hn; subst. right. left. f_equal. lia.
          -- destruct n; discriminate.
  Qed.

  (* find / find_entry *)
  Lemma ht_find_take (t : table) h p : ht_find heq t h p = option_map fst (ht_take heq t h p).
  Proof.
    unfold ht_find. induction t as [|s t IH]; simpl; auto.
    destruct (ht_match heq h p s); simpl; auto.
    rewrite IH. destruct (ht_take heq t h p) as [[i r]|]; reflexivity.
  Qed.

  Lemma ht_take_some (t : table) h p i t1 :
    NoDup (map snd t) -> ht_take heq t h p = Some (i, t1) ->
    t1 = ht_retain (fun j => if j =? i then None else Some j) t /\ In i (map snd t).
  Proof.
    revert t1. induction t as [|[h0 j] t IH]; simpl; intros t1 Hnd Ht; [discriminate|].
    inversion Hnd as [|? ? Hnot Hnd']; subst.
    destruct (ht_match heq h p (h0, j)) eqn:M.
    - inversion Ht; subst. simpl. rewrite Nat.eqb_refl. simpl. split; auto.
      symmetry. apply retain_id. intros j' Hj'. destruct (Nat.eqb_spec j' i); auto. subst. contradiction.
    - destruct (ht_take heq t h p) as [[i' r']|] eqn:T; [|discriminate].
      inversion Ht; subst. destruct (IH r' Hnd' eq_refl) as [Hr Hi]. split; auto.
      destruct (Nat.eqb_spec j i); [subst; contradiction|]. simpl. rewrite <- Hr. reflexivity.
  Qed.

  Lemma ht_find_ok (es : list entry) (t : table) k :
    hashes_ok es -> NoDup (map e_key es) -> IdxOk es t ->
    ht_find heq t (hash k) (key_eq_at keq es k) = index_of (map e_kv es) k.
  Proof.
    intros Hh Hnd [Hndt Hin]. unfold ht_find.
    destruct (find (ht_match heq (hash k) (key_eq_at keq es k)) t) as [[h j]|] eqn:F; simpl.
    - apply find_some in F as [Hj Hm]. unfold ht_match in Hm. simpl in Hm.
      apply andb_prop in Hm as [_ Hk]. unfold key_eq_at in Hk.
      destruct (nth_error es j) as [e|] eqn:N; [|discriminate].
      apply keq_spec in Hk. symmetry. apply index_of_nth with (v := e_val e).
      + rewrite keys_kv; assumption.
      + rewrite nth_error_map, N. simpl. unfold Model.e_kv. rewrite <- Hk. reflexivity.
    - destruct (index_of (map e_kv es) k) as [i|] eqn:I; auto. exfalso.
      apply index_of_some in I as [v Hv]. rewrite nth_error_map in Hv.
      destruct (nth_error es i) as [e|] eqn:N; simpl in Hv; [|discriminate].
      inversion Hv as [[Hk Hvv]].
      assert (Hs : In (e_hash e, i) t).
      { apply Hin. rewrite nth_error_map, N. reflexivity. }
      pose proof (find_none _ _ F _ Hs) as Hm. unfold ht_match in Hm. simpl in Hm.
      assert (He : e_hash e = hash (e_key e)).
      { unfold hashes_ok in Hh. rewrite Forall_forall in Hh. apply Hh. eapply nth_error_In; eauto. }
      rewrite He, Hk, heq_refl in Hm. unfold key_eq_at in Hm. rewrite N, Hk, keq_refl in Hm. discriminate.
  Qed.

  Lemma ht_take_match (t : table) h p i t1 :
    ht_take heq t h p = Some (i, t1) -> exists h0, In (h0, i) t /\ ht_match heq h p (h0, i) = true.
  Proof.
    revert t1. induction t as [|[h0 j] t IH]; simpl; intros t1 Ht; [discriminate|].
    destruct (ht_match heq h p (h0, j)) eqn:M.
    - inversion Ht; subst. exists h0. auto.
    - destruct (ht_take heq t h p) as [[i' r']|] eqn:T; [|discriminate].
      inversion Ht; subst. destruct (IH r' eq_refl) as [h1 [Hin Hm]]. exists h1. auto.
  Qed.

  Lemma ht_take_none (t : table) h p :
    ht_take heq t h p = None -> forall s, In s t -> ht_match heq h p s = false.
  Proof.
    induction t as [|s0 t IH]; simpl; intros Ht s Hs; [tauto|].
    destruct (ht_match heq h p s0) eqn:M; [discriminate|].
    destruct (ht_take heq t h p) as [[i' r']|] eqn:T; [discriminate|].
    destruct Hs as [Hs|Hs]; [subst; assumption|]. apply IH; auto.
  Qed.

  (* ------------------------------------------------------------------ list surgery on entries *)
  Lemma kv_remove_nth i (es : list entry) : map e_kv (remove_nth i es) = Spec.remove_at i (map e_kv es).
  Proof. revert i; induction es; intros [|i]; simpl; auto. f_equal; auto. Qed.

  Lemma in_remove_nth i (es : list entry) x : In x (remove_nth i es) -> In x es.
  Proof.
    revert i; induction es; intros [|i]; simpl; auto.
    intros [Hx|Hx]; auto. right; eapply IHes; eauto.
  Qed.

  Lemma hashes_ok_remove i (es : list entry) : hashes_ok es -> hashes_ok (remove_nth i es).
  Proof.
    unfold hashes_ok; rewrite !Forall_forall; intros Hh x Hx. apply Hh. eapply in_remove_nth; eauto.
  Qed.

  Lemma nodup_remove i (es : list entry) : NoDup (map e_key es) -> NoDup (map e_key (remove_nth i es)).
  Proof.
    revert i; induction es as [|e es IH]; intros [|i]; simpl; intros Hnd; auto;
      inversion Hnd as [|? ? Hnot Hnd']; subst; auto.
    constructor; auto. intros Hc. apply Hnot. apply in_map_iff in Hc as [x [Ex Hx]].
    apply in_map_iff. exists x; split; auto. eapply in_remove_nth; eauto.
  Qed.

  Lemma length_remove_le i (es : list entry) : length (remove_nth i es) <= length es.
  Proof. revert i; induction es; intros [|i]; simpl; auto. specialize (IHes i). lia. Qed.

  Lemma hs_remove i (es : list entry) j :
    nth_error (map e_hash (remove_nth i es)) j =
    if j <? i then nth_error (map e_hash es) j else nth_error (map e_hash es) (S j).
  Proof.
    revert i j; induction es as [|e es IH]; intros i j.
    - destruct i, j; simpl; try reflexivity; destruct (_ <? _); reflexivity.
    - destruct i as [|i], j as [|j]; simpl; auto. rewrite IH. reflexivity.
  Qed.

  Definition shiftf (i j : nat) : option nat :=
    if j =? i then None else if i <? j then Some (j - 1) else Some j.
  Definition dropf (i j : nat) : option nat := if j =? i then None else Some j.

  Lemma shiftf_inj i a b c : shiftf i a = Some c -> shiftf i b = Some c -> a = b.
  Proof.
    unfold shiftf. destruct (Nat.eqb_spec a i), (Nat.eqb_spec b i), (Nat.ltb_spec i a), (Nat.ltb_spec i b);
      intros Ha Hb; try discriminate; inversion Ha; inversion Hb; lia.
  Qed.

  Lemma idxok_shift_remove (es : list entry) (t : table) i :
    IdxOk es t -> IdxOk (remove_nth i es) (ht_retain (shiftf i) t).
  Proof.
    intros Hok. unfold IdxOk in *. eapply idxok_retain; [ | | exact Hok].
    - intros a b c _ _. apply shiftf_inj.
    - intros h j'. rewrite hs_remove. split.
      + destruct (Nat.ltb_spec j' i); intros Hn.
        * exists j'. split; auto. unfold shiftf.
          destruct (Nat.eqb_spec j' i); [lia|]. destruct (Nat.ltb_spec i j'); [lia|]. reflexivity.
        * exists (S j'). split; auto. unfold shiftf.
          destruct (Nat.eqb_spec (S j') i); [lia|]. destruct (Nat.ltb_spec i (S j')); [|lia]. f_equal; lia.
      + intros [j [Hn Hf]]. unfold shiftf in Hf.
        destruct (Nat.eqb_spec j i); [discriminate|].
        destruct (Nat.ltb_spec i j); inversion Hf; subst.
        * destruct (Nat.ltb_spec (j - 1) i); [lia|]. replace (S (j - 1)) with j by lia. exact Hn.
        * destruct (Nat.ltb_spec j' i); [exact Hn|lia].
  Qed.

  (* removing the last entry: dropping the slot is all that is needed *)
  Lemma drop_last_ext (hs : list H) (t : table) i :
    IdxOkH hs t -> i = length hs - 1 -> ht_retain (dropf i) t = ht_retain (shiftf i) t.
  Proof.
    intros Hok Hi. apply retain_ext. intros j Hj.
    apply in_map_iff in Hj as [[h j0] [Ej Hj]]. simpl in Ej; subst j0.
    pose proof (idxok_bound _ _ _ _ Hok Hj). unfold dropf, shiftf.
    destruct (Nat.eqb_spec j i); auto. destruct (Nat.ltb_spec i j); auto. lia.
  Qed.

  Lemma drop_shift_ext (t : table) i :
    ht_iter_mut (fun j => if i <? j then j - 1 else j) (ht_retain (dropf i) t) = ht_retain (shiftf i) t.
  Proof.
    rewrite iter_mut_retain. apply retain_ext. intros j _. unfold dropf, shiftf.
    destruct (j =? i); simpl; auto. destruct (i <? j); reflexivity.
  Qed.

  Lemma set_val_keys (es : list entry) i v : map e_key (set_val es i v) = map e_key es.
  Proof. revert i; induction es; intros [|i]; simpl; auto. f_equal; auto. Qed.
  Lemma set_val_hashes (es : list entry) i v : map e_hash (set_val es i v) = map e_hash es.
  Proof. revert i; induction es; intros [|i]; simpl; auto. f_equal; auto. Qed.
  Lemma set_val_length (es : list entry) i v : length (set_val es i v) = length es.
  Proof. revert i; induction es; intros [|i]; simpl; auto. Qed.
  Lemma hashes_ok_set_val (es : list entry) i v : hashes_ok es -> hashes_ok (set_val es i v).
  Proof.
    unfold hashes_ok. revert i; induction es as [|e es IH]; intros [|i]; simpl; intros Hh; auto;
      inversion Hh; subst; constructor; auto.
  Qed.

  Lemma kv_set_val (es : list entry) k i v :
    index_of (map e_kv es) k = Some i -> map e_kv (set_val es i v) = Spec.insert keq (map e_kv es) k v.
  Proof.
    revert i; induction es as [|e es IH]; simpl; intros i Hi; [discriminate|].
    destruct (keq k (e_key e)) eqn:E.
    - inversion Hi; subst. reflexivity.
    - destruct (index_of (map e_kv es) k) eqn:E2; simpl in Hi; [|discriminate].
      inversion Hi; subst. simpl. f_equal. apply IH; reflexivity.
  Qed.

  Lemma kv_modify (es : list entry) k i e (f : V -> V) :
    index_of (map e_kv es) k = Some i -> nth_error es i = Some e ->
    map e_kv (set_val es i (f (e_val e))) = Spec.modify keq (map e_kv es) k f.
  Proof.
    revert i; induction es as [|e0 es IH]; simpl; intros i Hi Hn; [discriminate|].
    destruct (keq k (e_key e0)) eqn:E.
    - inversion Hi; subst. simpl in Hn. inversion Hn; subst. reflexivity.
    - destruct (index_of (map e_kv es) k) eqn:E2; simpl in Hi; [|discriminate].
      inversion Hi; subst. simpl in *. f_equal. apply IH; auto.
  Qed.

  Lemma firstn_remove_nth (es : list entry) n : length es = S n -> firstn n es = remove_nth n es.
  Proof.
    revert n; induction es as [|e es IH]; simpl; intros n Hl; [discriminate|].
    destruct n as [|n]; simpl.
    - destruct es; [reflexivity|discriminate].
    - f_equal. apply IH. lia.
  Qed.

  Lemma removelast_remove_at (l : list (K * V)) n : length l = S n -> removelast l = Spec.remove_at n l.
  Proof.
    revert n; induction l as [|a l IH]; intros n Hl; [discriminate|].
    destruct l as [|b l].
    - destruct n; [reflexivity|discriminate].
    - destruct n as [|n]; [discriminate|].
      change (a :: removelast (b :: l) = a :: Spec.remove_at n (b :: l)). f_equal. apply IH. simpl in *; lia.
  Qed.

  (* retain on entries *)
  Lemma kv_retain f (es : list entry) : map e_kv (retain_entries f es) = Spec.retain f (map e_kv es).
  Proof.
    unfold retain_entries, Spec.retain. induction es as [|e es IH]; [reflexivity|].
    cbn [flat_map map]. rewrite map_app. f_equal; [|exact IH].
    change (fst (e_kv e)) with (e_key e). change (snd (e_kv e)) with (e_val e).
    destruct (f (e_key e) (e_val e)); reflexivity.
  Qed.

  Lemma in_keys_retain f (es : list entry) x :
    In x (map e_key (retain_entries f es)) -> In x (map e_key es).
  Proof.
    unfold retain_entries. induction es as [|e es IH]; [simpl; auto|].
    cbn [flat_map map]. rewrite map_app, in_app_iff. intros [Hx|Hx]; [|right; apply IH; exact Hx].
    destruct (f (e_key e) (e_val e)); simpl in Hx; [destruct Hx as [Hx|[]]; left; exact Hx | contradiction].
  Qed.

  Lemma nodup_retain_entries f (es : list entry) :
    NoDup (map e_key es) -> NoDup (map e_key (retain_entries f es)).
  Proof.
    induction es as [|e es IH]; simpl; intros Hnd; [constructor|].
    inversion Hnd as [|? ? Hnot Hnd']; subst. specialize (IH Hnd').
    change (retain_entries f (e :: es)) with
      ((match f (e_key e) (e_val e) with Some v' => [(e_key e, e_hash e, v')] | None => [] end) ++ retain_entries f es).
    destruct (f (e_key e) (e_val e)); simpl; auto.
    constructor; auto. intros Hc. apply Hnot. eapply in_keys_retain; eauto.
  Qed.

  Lemma hashes_ok_retain f (es : list entry) : hashes_ok es -> hashes_ok (retain_entries f es).
  Proof.
    unfold hashes_ok. induction es as [|e es IH]; simpl; intros Hh; [constructor|].
    inversion Hh; subst.
    change (retain_entries f (e :: es)) with
      ((match f (e_key e) (e_val e) with Some v' => [(e_key e, e_hash e, v')] | None => [] end) ++ retain_entries f es).
    destruct (f (e_key e) (e_val e)); simpl; auto.
  Qed.

  Lemma length_retain_le f (es : list entry) : length (retain_entries f es) <= length es.
  Proof.
    induction es as [|e es IH]; simpl; auto.
    change (retain_entries f (e :: es)) with
      ((match f (e_key e) (e_val e) with Some v' => [(e_key e, e_hash e, v')] | None => [] end) ++ retain_entries f es).
    destruct (f (e_key e) (e_val e)); simpl; lia.
  Qed.

  Lemma retain_same_hs f (es : list entry) :
    length (retain_entries f es) = length es -> map e_hash (retain_entries f es) = map e_hash es.
  Proof.
    induction es as [|e es IH]; simpl; auto.
    change (retain_entries f (e :: es)) with
      ((match f (e_key e) (e_val e) with Some v' => [(e_key e, e_hash e, v')] | None => [] end) ++ retain_entries f es).
    pose proof (length_retain_le f es).
    destruct (f (e_key e) (e_val e)); simpl; intros Hl; [|lia].
    f_equal. apply IH. lia.
  Qed.

  (* ------------------------------------------------------------------ the invariant *)
  Definition Inv (m : smap) : Prop :=
    hashes_ok (entries m) /\ NoDup (map e_key (entries m)) /\
    match index m with
    | Some t => IdxOk (entries m) t
    | None => length (entries m) <= thr
    end.

  Lemma inv_intro m :
    hashes_ok (entries m) -> NoDup (map e_key (entries m)) ->
    match index m with Some t => IdxOk (entries m) t | None => length (entries m) <= thr end -> Inv m.
  Proof. unfold Inv; auto. Qed.

  (* split conjunctions of the goal, open [Inv] into its three parts, never look inside [IdxOk] *)
  Ltac isplit :=
    match goal with
    | |- Inv _ => apply inv_intro; simpl
    | |- _ /\ _ => split; isplit
    | _ => idtac
    end.

  Ltac csplit := match goal with |- _ /\ _ => split; csplit | _ => idtac end.

  Lemma inv_empty : Inv (@empty K V H).
  Proof. isplit; [constructor|constructor|lia]. Qed.

  Lemma lookup_ok m k : Inv m -> get_index_of_hashed_raw keq heq m (hash k) k = index_of (to_list m) k.
  Proof.
    intros (Hh & Hnd & Hi). unfold get_index_of_hashed_raw, to_list. destruct (index m).
    - apply ht_find_ok; auto.
    - apply vm_get_index_of_ok; auto.
  Qed.

  Lemma index_of_lt (l : list (K * V)) k i : index_of l k = Some i -> i < length l.
  Proof.
    intros Hi. apply index_of_some in Hi as [v Hv]. apply nth_error_Some. rewrite Hv. discriminate.
  Qed.

  Lemma lookup_cases (es : list entry) k :
    match index_of (map e_kv es) k with
    | Some i => exists e, nth_error es i = Some e /\ e_key e = k /\ sget (map e_kv es) k = Some (e_val e)
    | None => sget (map e_kv es) k = None
    end.
  Proof.
    rewrite get_index_of. destruct (index_of (map e_kv es) k) as [i|] eqn:I; auto.
    apply index_of_some in I as [v Hv]. rewrite Hv. rewrite nth_error_map in Hv.
    destruct (nth_error es i) as [e|]; simpl in Hv; [|discriminate].
    inversion Hv; subst. exists e. auto.
  Qed.

  (* ------------------------------------------------------------------ every operation *)
  Notation m_insert_unique := (insert_hashed_unique_unchecked thr).
  Notation m_insert := (insert_hashed keq heq thr).

  Lemma insert_unique_ok m k v : Inv m -> index_of (to_list m) k = None ->
    Inv (m_insert_unique m k (hash k) v) /\ to_list (m_insert_unique m k (hash k) v) = to_list m ++ [(k, v)].
  Proof.
    intros (Hh & Hnd & Hi) Hnone. unfold insert_hashed_unique_unchecked, to_list in *.
    assert (Hh' : hashes_ok (entries m ++ [(k, hash k, v)])).
    { apply Forall_app; split; [exact Hh | constructor; [reflexivity | constructor]]. }
    assert (Hnd' : NoDup (map e_key (entries m ++ [(k, hash k, v)]))).
    { rewrite map_app. simpl. eapply Permutation_NoDup; [apply Permutation_cons_append|].
      constructor; auto. apply index_of_none in Hnone. rewrite keys_kv in Hnone. exact Hnone. }
    destruct (index m) as [t|].
    - split; [|simpl; rewrite map_app; reflexivity]. isplit; simpl; auto.
      unfold IdxOk. rewrite map_app. simpl. rewrite <- (map_length e_hash). apply idxok_push. exact Hi.
    - destruct (length (entries m ++ [(k, hash k, v)]) =? thr + 1) eqn:E.
      + split; [|simpl; rewrite map_app; reflexivity]. unfold create_index. isplit; simpl; auto.
        apply idxok_build.
      + split; [|simpl; rewrite map_app; reflexivity]. isplit; simpl; auto.
        apply Nat.eqb_neq in E. rewrite app_length in *. simpl in *. lia.
  Qed.

  Lemma insert_ok m k v : Inv m ->
    Inv (fst (m_insert m k (hash k) v)) /\
    to_list (fst (m_insert m k (hash k) v)) = Spec.insert keq (to_list m) k v /\
    snd (m_insert m k (hash k) v) = sget (to_list m) k.
  Proof.
    intros HI. unfold insert_hashed. rewrite lookup_ok by assumption.
    pose proof (lookup_cases (entries m) k) as Hc. fold (to_list m) in Hc.
    destruct (index_of (to_list m) k) as [i|] eqn:I; cbn [fst snd].
    - destruct Hc as [e [Hn [Hk Hg]]]. destruct HI as (Hh & Hnd & Hi). isplit.
      + apply hashes_ok_set_val; auto.
      + rewrite set_val_keys; auto.
      + destruct (index m); [unfold IdxOk in *; rewrite set_val_hashes; auto | rewrite set_val_length; auto].
      + unfold to_list. simpl. apply kv_set_val. exact I.
      + rewrite Hn, Hg. reflexivity.
    - destruct (insert_unique_ok m k v HI I) as [H1 H2]. split; [exact H1|]. split.
      + rewrite H2. symmetry. apply insert_none. exact I.
      + rewrite get_index_of, I. reflexivity.
  Qed.

  Lemma remove_at_inv m i t' :
    Inv m -> i < length (entries m) ->
    match index m with Some t => t' = Some (ht_retain (shiftf i) t) | None => t' = None end ->
    Inv (mk (remove_nth i (entries m)) t').
  Proof.
    intros (Hh & Hnd & Hi) Hlt Ht. isplit; simpl.
    - apply hashes_ok_remove; auto.
    - apply nodup_remove; auto.
    - destruct (index m); subst t'.
      + apply idxok_shift_remove; auto.
      + pose proof (length_remove_le i (entries m)). lia.
  Qed.

  Lemma shift_remove_ok m k : Inv m ->
    Inv (fst (shift_remove_hashed_entry keq heq m (hash k) k)) /\
    to_list (fst (shift_remove_hashed_entry keq heq m (hash k) k)) = Spec.remove keq (to_list m) k /\
    snd (shift_remove_hashed_entry keq heq m (hash k) k) = Spec.get_entry keq (to_list m) k.
  Proof.
    intros HI. pose proof HI as (Hh & Hnd & Hi).
    rewrite remove_index_of, get_entry_index_of. unfold shift_remove_hashed_entry.
    destruct (index m) as [t|] eqn:Ix.
    - pose proof (ht_find_ok (entries m) t k Hh Hnd Hi) as Hf. rewrite ht_find_take in Hf.
      fold (to_list m) in Hf.
      destruct (ht_take heq t (hash k) (key_eq_at keq (entries m) k)) as [[i t1]|] eqn:T; simpl in Hf; rewrite <- Hf; simpl.
      + destruct Hi as [Hndt Hin]. destruct (ht_take_some _ _ _ _ _ Hndt T) as [Ht1 Hi_in].
        assert (Hlt : i < length (entries m)).
        { symmetry in Hf. apply index_of_lt in Hf. unfold to_list in Hf. rewrite map_length in Hf. exact Hf. }
        csplit.
        * apply remove_at_inv; auto. rewrite Ix. f_equal. subst t1.
          change (fun j => if j =? i then None else Some j) with (dropf i).
          destruct (Nat.eqb_spec i (length (entries m) - 1)) as [El|El].
          -- apply (drop_last_ext (map e_hash (entries m))); [split; auto | rewrite map_length; exact El].
          -- apply drop_shift_ext.
        * unfold to_list. simpl. apply kv_remove_nth.
        * unfold to_list. rewrite nth_error_map. reflexivity.
      + csplit; auto.
    - rewrite vm_get_index_of_ok by assumption. fold (to_list m).
      destruct (index_of (to_list m) k) as [i|] eqn:I; simpl.
      + assert (Hlt : i < length (entries m)).
        { apply index_of_lt in I. unfold to_list in I. rewrite map_length in I. exact I. }
        csplit.
        * apply remove_at_inv; auto. rewrite Ix. reflexivity.
        * unfold to_list. simpl. apply kv_remove_nth.
        * unfold to_list. rewrite nth_error_map. reflexivity.
      + csplit; auto.
  Qed.

  Lemma remove_at_oob (l : list (K * V)) i : length l <= i -> Spec.remove_at i l = l.
  Proof.
    revert i; induction l as [|a l IH]; intros [|i]; simpl; intros Hl; auto; try lia. f_equal. apply IH. lia.
  Qed.

  Lemma shift_remove_index_ok m i : Inv m ->
    Inv (fst (shift_remove_index m i)) /\
    to_list (fst (shift_remove_index m i)) = Spec.remove_at i (to_list m) /\
    snd (shift_remove_index m i) = nth_error (to_list m) i.
  Proof.
    intros HI. unfold shift_remove_index. destruct (Nat.leb_spec (length (entries m)) i) as [Hge|Hlt]; simpl.
    - csplit; auto.
      + symmetry. apply remove_at_oob. unfold to_list. rewrite map_length. exact Hge.
      + symmetry. apply nth_error_None. unfold to_list. rewrite map_length. exact Hge.
    - csplit.
      + apply remove_at_inv; auto. destruct (index m); reflexivity.
      + unfold to_list. simpl. apply kv_remove_nth.
      + unfold to_list. rewrite nth_error_map. reflexivity.
  Qed.

  Lemma pop_ok m : Inv m ->
    Inv (fst (pop heq m)) /\
    to_list (fst (pop heq m)) = removelast (to_list m) /\
    snd (pop heq m) = Spec.last_opt (to_list m).
  Proof.
    intros HI. pose proof HI as (Hh & Hnd & Hi). unfold pop.
    destruct (length (entries m)) as [|n] eqn:L.
    - assert (E : to_list m = []) by (unfold to_list; destruct (entries m); [reflexivity|discriminate]).
      cbn [fst snd]. rewrite E. simpl. auto.
    - destruct (nth_error (entries m) n) as [e|] eqn:N.
      2:{ apply nth_error_None in N. lia. }
      assert (Hll : length (to_list m) = S n) by (unfold to_list; rewrite map_length; exact L).
      rewrite (firstn_remove_nth _ _ L). simpl. csplit.
      + apply remove_at_inv; auto; [lia|].
        destruct (index m) as [t|] eqn:Ix; auto.
        rewrite <- (firstn_remove_nth _ _ L), firstn_length, L, Nat.min_l by lia.
        destruct Hi as [Hndt Hin].
        assert (Hs : In (e_hash e, n) t) by (apply Hin; rewrite nth_error_map, N; reflexivity).
        destruct (ht_take heq t (e_hash e) (fun i => i =? n)) as [[i t1]|] eqn:T.
        * destruct (ht_take_some _ _ _ _ _ Hndt T) as [Ht1 _].
          destruct (ht_take_match _ _ _ _ _ T) as [h0 [_ Hm]]. unfold ht_match in Hm. simpl in Hm.
          apply andb_prop in Hm as [_ Hm]. apply Nat.eqb_eq in Hm. subst i t1.
          change (fun j => if j =? n then None else Some j) with (dropf n). f_equal.
          apply (drop_last_ext (map e_hash (entries m))); [split; auto | rewrite map_length; lia].
        * pose proof (ht_take_none _ _ _ T _ Hs) as Hm. unfold ht_match in Hm. simpl in Hm.
          rewrite heq_refl, Nat.eqb_refl in Hm. discriminate.
      + unfold to_list. simpl. rewrite kv_remove_nth. symmetry. apply removelast_remove_at. exact Hll.
      + assert (Hlo : forall l : list (K * V), Spec.last_opt l = nth_error l (length l - 1))
          by (intros [|? ?]; reflexivity).
        rewrite Hlo, Hll. simpl. rewrite Nat.sub_0_r. unfold to_list. rewrite nth_error_map, N. reflexivity.
  Qed.

  Lemma clear_ok m : Inv m -> Inv (clear m) /\ to_list (clear m) = [].
  Proof.
    intros _. unfold clear, to_list. simpl. split; [|reflexivity]. isplit; [constructor|constructor|].
    destruct (index m); simpl; [apply idxok_nil | lia].
  Qed.

  Lemma with_capacity_ok n : Inv (with_capacity thr n) /\ to_list (with_capacity thr n : smap) = [].
  Proof.
    unfold with_capacity. destruct (n <=? thr); (split; [|reflexivity]); isplit;
      first [apply idxok_nil | lia | constructor].
  Qed.

  Lemma rebuild_inv es ix :
    hashes_ok es -> NoDup (map e_key es) -> (ix = None -> length es <= thr) ->
    Inv (rebuild_index (mk es ix)).
  Proof.
    intros Hh Hnd Hl. unfold rebuild_index. simpl. destruct ix; isplit; simpl; auto. apply idxok_build.
  Qed.

  Lemma retain_ok f m : Inv m -> Inv (retain f m) /\ to_list (retain f m) = Spec.retain f (to_list m).
  Proof.
    intros (Hh & Hnd & Hi). unfold retain.
    pose proof (length_retain_le f (entries m)) as Hle.
    assert (Hh' := hashes_ok_retain f _ Hh). assert (Hnd' := nodup_retain_entries f _ Hnd).
    destruct (Nat.ltb_spec (length (retain_entries f (entries m))) (length (entries m))) as [Hlt|Hge].
    - split.
      + apply rebuild_inv; auto. intros E. rewrite E in Hi. lia.
      + unfold rebuild_index. simpl. destruct (index m); unfold to_list; simpl; apply kv_retain.
    - split; [|unfold to_list; simpl; apply kv_retain]. isplit; simpl; auto.
      destruct (index m); [|lia]. unfold IdxOk in *. rewrite retain_same_hs by lia. exact Hi.
  Qed.

  Lemma is_sorted_chain (l : list (K * V)) :
    is_sorted klt (map fst l) = chain (fun a b => klt (fst a) (fst b)) None l.
  Proof.
    destruct l as [|a l]; [reflexivity|]. simpl chain.
    revert a; induction l as [|b l IH]; intros a; [reflexivity|].
    change (is_sorted klt (map fst (a :: b :: l))) with (negb (klt (fst b) (fst a)) && is_sorted klt (map fst (b :: l))).
    rewrite IH. reflexivity.
  Qed.

  Lemma sort_ok m : Inv m ->
    Inv (sort_keys klt max_ins m) /\ to_list (sort_keys klt max_ins m) = Spec.sort_keys klt (to_list m).
  Proof.
    intros HI. pose proof HI as (Hh & Hnd & Hi). unfold sort_keys.
    destruct (is_sorted klt (map e_key (entries m))) eqn:S.
    - split; auto. unfold Spec.sort_keys. symmetry. apply isort_sorted_id.
      rewrite <- is_sorted_chain. unfold to_list. rewrite keys_kv. exact S.
    - assert (Hs : vec2_sort_by klt max_ins (entries m) = isort (entry_less klt) (entries m)).
      { unfold vec2_sort_by, sort_insertion_by, std_stable_sort. destruct (_ <=? _); reflexivity. }
      rewrite Hs. pose proof (isort_perm (entry_less klt) (entries m)) as Hp. split.
      + apply rebuild_inv.
        * unfold hashes_ok. eapply Permutation_Forall; [apply Permutation_sym; exact Hp | exact Hh].
        * eapply Permutation_NoDup; [apply Permutation_map, Permutation_sym; exact Hp | exact Hnd].
        * intros E. rewrite E in Hi. rewrite (Permutation_length Hp). exact Hi.
      + assert (Ht : forall ix, to_list (rebuild_index (mk (isort (entry_less klt) (entries m)) ix))
                           = map e_kv (isort (entry_less klt) (entries m))).
        { intros ix. unfold rebuild_index. simpl. destruct ix; reflexivity. }
        rewrite Ht. unfold Spec.sort_keys, to_list. apply isort_map. intros a b. reflexivity.
  Qed.

  Lemma reverse_ok m : Inv m -> Inv (reverse m) /\ to_list (reverse m) = rev (to_list m).
  Proof.
    intros (Hh & Hnd & Hi). unfold reverse. split; [|unfold to_list; simpl; apply map_rev].
    isplit; simpl.
    - unfold hashes_ok. eapply Permutation_Forall; [apply Permutation_rev | exact Hh].
    - eapply Permutation_NoDup; [apply Permutation_map, Permutation_rev | exact Hnd].
    - destruct (index m) as [t|]; simpl; [|rewrite rev_length; exact Hi].
      rewrite iter_mut_as_retain. unfold IdxOk in *. rewrite map_rev.
      set (hs := map e_hash (entries m)) in *.
      assert (Hn : length (entries m) = length hs) by (unfold hs; rewrite map_length; reflexivity).
      rewrite Hn. eapply idxok_retain; [ | | exact Hi].
      + intros a b c Ha Hb Hfa Hfb. inversion Hfa. inversion Hfb. lia.
      + intros h j'. split.
        * intros Hj. assert (Hlt : j' < length hs).
          { rewrite <- rev_length. apply nth_error_Some. rewrite Hj. discriminate. }
          rewrite nth_error_rev in Hj by exact Hlt. exists (length hs - 1 - j'). split; auto. f_equal. lia.
        * intros [j [Hj Hf]]. inversion Hf; subst.
          assert (Hlt : j < length hs) by (apply nth_error_Some; rewrite Hj; discriminate).
          rewrite nth_error_rev by lia. replace (length hs - 1 - (length hs - 1 - j)) with j by lia. exact Hj.
  Qed.

  Lemma maybe_drop_ok m : Inv m -> Inv (maybe_drop_index thr m) /\ to_list (maybe_drop_index thr m) = to_list m.
  Proof.
    intros (Hh & Hnd & Hi). unfold maybe_drop_index.
    destruct (Nat.leb_spec (length (entries m)) thr); split; auto; isplit; simpl; auto.
  Qed.

  Lemma reserve_ok m n : Inv m -> Inv (reserve thr m n) /\ to_list (reserve thr m n) = to_list m.
  Proof.
    intros HI. pose proof HI as (Hh & Hnd & Hi). unfold reserve. destruct (index m) eqn:Ix; [split; auto|].
    destruct (thr <? length (entries m) + n); split; auto. unfold create_index. isplit; simpl; auto.
    apply idxok_build.
  Qed.

  Lemma extend_ok kvs : forall m, Inv m ->
    Inv (extend keq heq hash thr m kvs) /\ to_list (extend keq heq hash thr m kvs) = Spec.extend keq (to_list m) kvs.
  Proof.
    unfold extend, Spec.extend. induction kvs as [|[k v] kvs IH]; simpl; intros m HI; auto.
    destruct (insert_ok m k v HI) as (H1 & H2 & _). destruct (IH _ H1) as [H3 H4]. split; auto.
    rewrite H4, H2. reflexivity.
  Qed.

  Lemma entry_or_insert_ok m k v : Inv m ->
    let r := entry_or_insert keq heq thr m k (hash k) v in
    let s := sstep (to_list m) (OEntryOrInsert k v) in
    Inv (fst r) /\ to_list (fst r) = fst s /\ RVal (snd r) = snd s.
  Proof.
    intros HI. unfold entry_or_insert. simpl. rewrite lookup_ok by assumption.
    pose proof (lookup_cases (entries m) k) as Hc. fold (to_list m) in Hc.
    destruct (index_of (to_list m) k) as [i|] eqn:I.
    - destruct Hc as [e [Hn [Hk Hg]]]. rewrite Hg, Hn. simpl. auto.
    - rewrite Hc. destruct (insert_unique_ok m k v HI I) as [H1 H2]. simpl. auto.
  Qed.

  Lemma entry_modify_ok m k f v : Inv m ->
    let r := entry_modify keq heq thr m k (hash k) f v in
    let s := sstep (to_list m) (OEntryModify k f v) in
    Inv (fst r) /\ to_list (fst r) = fst s /\ RVal (snd r) = snd s.
  Proof.
    intros HI. unfold entry_modify. simpl. rewrite lookup_ok by assumption.
    pose proof (lookup_cases (entries m) k) as Hc. fold (to_list m) in Hc.
    destruct (index_of (to_list m) k) as [i|] eqn:I.
    - destruct Hc as [e [Hn [Hk Hg]]]. rewrite Hg, Hn. simpl. destruct HI as (Hh & Hnd & Hi). isplit; simpl.
      + apply hashes_ok_set_val; auto.
      + rewrite set_val_keys; auto.
      + destruct (index m); [unfold IdxOk in *; rewrite set_val_hashes; auto | rewrite set_val_length; auto].
      + unfold to_list. simpl. apply kv_modify; auto.
      + reflexivity.
    - rewrite Hc. destruct (insert_unique_ok m k v HI I) as [H1 H2]. simpl. auto.
  Qed.

  Lemma contains_ok m k : Inv m -> contains_key keq heq hash m k = Spec.contains keq (to_list m) k.
  Proof.
    intros HI. unfold contains_key, Model.get_index_of, Spec.contains. rewrite lookup_ok by assumption.
    pose proof (lookup_cases (entries m) k) as Hc. fold (to_list m) in Hc.
    destruct (index_of (to_list m) k); [destruct Hc as [e [_ [_ Hg]]]; rewrite Hg | rewrite Hc]; reflexivity.
  Qed.

  (* one step: the invariant is kept, the abstract state and the returned value are those of the specification *)
  Theorem step_ok m o : Inv m ->
    Inv (fst (mstep m o)) /\ to_list (fst (mstep m o)) = fst (sstep (to_list m) o) /\
    snd (mstep m o) = snd (sstep (to_list m) o).
  Proof.
    intros HI. destruct o; simpl.
    - destruct (insert_ok m k v HI) as (H1 & H2 & H3).
      destruct (m_insert m k (hash k) v) as [m' r]; simpl in *. subst; auto.
    - rewrite contains_ok by assumption. destruct (Spec.contains keq (to_list m) k) eqn:C; auto.
      assert (I : index_of (to_list m) k = None).
      { unfold Spec.contains in C. rewrite get_index_of in C.
        destruct (index_of (to_list m) k) as [i|] eqn:I; auto.
        apply index_of_some in I as [v0 Hv]. rewrite Hv in C. discriminate. }
      destruct (insert_unique_ok m k v HI I) as [H1 H2]. auto.
    - destruct (shift_remove_ok m k HI) as (H1 & H2 & H3).
      destruct (shift_remove_hashed_entry keq heq m (hash k) k) as [m' r]; simpl in *. subst; auto.
    - destruct (shift_remove_index_ok m i HI) as (H1 & H2 & H3).
      destruct (shift_remove_index m i) as [m' r]; simpl in *. subst; auto.
    - destruct (pop_ok m HI) as (H1 & H2 & H3).
      destruct (pop heq m) as [m' r]; simpl in *. subst; auto.
    - destruct (clear_ok m HI); auto.
    - destruct (retain_ok f m HI); auto.
    - destruct (sort_ok m HI); auto.
    - destruct (reverse_ok m HI); auto.
    - destruct (maybe_drop_ok m HI); auto.
    - destruct (reserve_ok m n HI); auto.
    - destruct (extend_ok l m HI); auto.
    - pose proof (entry_or_insert_ok m k v HI) as H0. simpl in H0.
      destruct (entry_or_insert keq heq thr m k (hash k) v) as [m' r]; simpl in *. exact H0.
    - pose proof (entry_modify_ok m k f v HI) as H0. simpl in H0.
      destruct (entry_modify keq heq thr m k (hash k) f v) as [m' r]; simpl in *. exact H0.
    - destruct (with_capacity_ok n); auto.
    - destruct HI as (Hh & Hnd & Hi). isplit; auto.
  Qed.

  (* ------------------------------------------------------------------ histories *)
  Notation mrun := (@Model.run K V H keq heq klt hash thr max_ins).
  Notation srun := (@Spec.run K V keq klt).

  Lemma run_ok_gen ops : forall m, Inv m ->
    Inv (fold_left (fun m o => fst (mstep m o)) ops m) /\
    to_list (fold_left (fun m o => fst (mstep m o)) ops m) = fold_left (fun l o => fst (sstep l o)) ops (to_list m).
  Proof.
    induction ops as [|o ops IH]; simpl; intros m HI; auto.
    destruct (step_ok m o HI) as (H1 & H2 & _). destruct (IH _ H1) as [H3 H4]. split; auto.
    rewrite H4, H2. reflexivity.
  Qed.

  Theorem inv_reachable ops : Inv (mrun ops).
  Proof. apply (run_ok_gen ops _ inv_empty). Qed.

  Theorem refines ops : to_list (mrun ops) = srun ops.
  Proof. apply (run_ok_gen ops _ inv_empty). Qed.

  Theorem ret_refines ops o : snd (mstep (mrun ops) o) = snd (sstep (srun ops) o).
  Proof. rewrite <- refines. apply step_ok. apply inv_reachable. Qed.

  Theorem index_of_refines ops k : Model.get_index_of keq heq hash (mrun ops) k = index_of (srun ops) k.
  Proof. unfold Model.get_index_of. rewrite lookup_ok by apply inv_reachable. rewrite refines. reflexivity. Qed.

  Theorem get_refines ops k : Model.get keq heq hash (mrun ops) k = sget (srun ops) k.
  Proof.
    unfold Model.get, get_hashed. rewrite lookup_ok by apply inv_reachable.
    rewrite get_index_of, <- refines. destruct (index_of (to_list (mrun ops)) k); auto.
    unfold to_list. rewrite nth_error_map. destruct (nth_error (entries (mrun ops)) n); reflexivity.
  Qed.

  Theorem contains_refines ops k : contains_key keq heq hash (mrun ops) k = Spec.contains keq (srun ops) k.
  Proof. rewrite <- refines. apply contains_ok. apply inv_reachable. Qed.

  Theorem get_index_refines ops i : Model.get_index (mrun ops) i = nth_error (srun ops) i.
  Proof. rewrite <- refines. unfold Model.get_index, to_list. rewrite nth_error_map. reflexivity. Qed.

  Theorem index_in_bounds ops t : index (mrun ops) = Some t ->
    Forall (fun s => snd s < length (entries (mrun ops))) t.
  Proof.
    intros Ht. destruct (inv_reachable ops) as (_ & _ & Hi). rewrite Ht in Hi.
    apply Forall_forall. intros [h j] Hin. simpl.
    rewrite <- (map_length e_hash). eapply idxok_bound; eauto.
  Qed.

  Lemma idx_perm (hs : list H) (t : table) : IdxOkH hs t -> Permutation (map snd t) (seq 0 (length hs)).
  Proof.
    intros Hok. pose proof Hok as [Hnd Hin]. apply NoDup_Permutation; auto; [apply seq_NoDup|].
    intros j. rewrite in_seq. split.
    - intros Hj. apply in_map_iff in Hj as [[h j0] [Ej Hj]]. simpl in Ej; subst.
      pose proof (idxok_bound _ _ _ _ Hok Hj). lia.
    - intros [_ Hj]. destruct (nth_error hs j) as [h|] eqn:N.
      + apply in_map_iff. exists (h, j). split; auto. apply Hin; auto.
      + apply nth_error_None in N. simpl in Hj. lia.
  Qed.

  (* the invariant, spelled out *)
  Theorem inv_explicit ops :
    let m := mrun ops in
    NoDup (map e_key (entries m)) /\
    Forall (fun e => e_hash e = hash (e_key e)) (entries m) /\
    match index m with
    | Some t => NoDup (map snd t) /\
                (forall h j, In (h, j) t <-> nth_error (map e_hash (entries m)) j = Some h) /\
                Permutation (map snd t) (seq 0 (length (entries m)))
    | None => length (entries m) <= thr
    end.
  Proof.
    intros m. destruct (inv_reachable ops) as (Hh & Hnd & Hi). fold m in Hh, Hnd, Hi.
    split; auto. split; auto. destruct (index m) as [t|]; auto.
    destruct Hi as [H1 H2]. split; auto. split; auto.
    rewrite <- (map_length e_hash). apply idx_perm. split; auto.
  Qed.

  (* sort_keys: sorted and a permutation *)
  Hypothesis klt_asym : forall a b, klt a b = true -> klt b a = false.

  Theorem sort_keys_sorted (l : list (K * V)) :
    Permutation (Spec.sort_keys klt l) l /\
    forall i a b, nth_error (map fst (Spec.sort_keys klt l)) i = Some a ->
                  nth_error (map fst (Spec.sort_keys klt l)) (S i) = Some b -> klt b a = false.
  Proof.
    split; [apply isort_perm|]. intros i a b Ha Hb. rewrite nth_error_map in Ha, Hb.
    destruct (nth_error (Spec.sort_keys klt l) i) as [[a' va]|] eqn:Na; simpl in Ha; [|discriminate].
    destruct (nth_error (Spec.sort_keys klt l) (S i)) as [[b' vb]|] eqn:Nb; simpl in Hb; [|discriminate].
    inversion Ha; inversion Hb; subst.
    apply (isort_sorted (fun x y : K * V => klt (fst x) (fst y))
             (fun x y Hxy => klt_asym _ _ Hxy) l i (a, va) (b, vb) Na Nb).
  Qed.
End Proofs.

(* the observable content does not depend on the hash function, the threshold or the sort cut-off *)
Theorem hash_independent {K V H1 H2 : Type} (keq : K -> K -> bool) (klt : K -> K -> bool)
    (heq1 : H1 -> H1 -> bool) (heq2 : H2 -> H2 -> bool) (hash1 : K -> H1) (hash2 : K -> H2) (thr1 thr2 mi1 mi2 : nat) :
  (forall a b, keq a b = true <-> a = b) ->
  (forall a b, heq1 a b = true <-> a = b) -> (forall a b, heq2 a b = true <-> a = b) ->
  forall ops : list (op K V),
    to_list (Model.run keq heq1 klt hash1 thr1 mi1 ops) = to_list (Model.run keq heq2 klt hash2 thr2 mi2 ops).
Proof.
  intros Hk H1s H2s ops. rewrite (refines keq heq1 klt hash1 thr1 mi1 Hk H1s), (refines keq heq2 klt hash2 thr2 mi2 Hk H2s).
  reflexivity.
Qed.
