(** * C04 — executable model of freezing (starlark-rust `Freezer::freeze`, `heap_freeze`)

    Mirrors, branch by branch:
      - values/layout/freezer.rs        `Freezer::freeze` (Case 1: value encoded in the pointer / already frozen;
                                         Case 2: `Forward` -> follow, `Header` -> `heap_freeze`)
      - values/layout/avalues/list.rs   `AValueList::heap_freeze` (empty list -> shared static `new_empty_list`;
                                         reserve_with_extra / overwrite_with_forward / freeze elements in order / fill)
      - values/layout/avalues/tuple.rs, complex_branded.rs (`AValueComplexBranded::heap_freeze`: reserve, forward,
                                         `x.freeze(freezer)?` on every field, `r.fill`), complex.rs
                                         (`AValueComplexNoFreeze::heap_freeze` = error "cannot be frozen"),
                                         avalue.rs `heap_freeze_simple_impl` (str, bigint, float, range: reserve/forward/fill)
      - values/types/dict/value.rs      `FreezeBranded for DictGen<RefCell<Dict>>` (entries in iteration order,
                                         key then value, hash kept), set/value.rs likewise
      - values/layout/value_captured.rs `ValueCaptured -> FrozenValueCaptured`, eval/compiler/def.rs `Def -> FrozenDef`
      - environment/modules.rs          `Module::freeze_impl` (`slots.freeze(&freezer)`: every slot in order, one freezer)
    No proofs in this file. *)
From Coq Require Import ZArith NArith List Bool.
Import ListNotations.
Open Scope Z_scope.

(** Layout tags.  A mutable layout and its frozen counterpart are different Rust types
    (`ListGen<ListData>` / `ListGen<FrozenListData>`, `DictGen<RefCell<Dict>>` / `DictGen<FrozenDictData>`, ...). *)
Inductive tag :=
| TList | TFrozenList | TDict | TFrozenDict | TSet | TFrozenSet
| TTuple | TFrozenTuple | TStruct | TFrozenStruct | TRecord | TFrozenRecord
| TEnum | TFrozenEnum | TDef | TFrozenDef | TCaptured | TFrozenCaptured
| TPartial | TFrozenPartial
| TLeaf        (* AValueSimple: str, bigint, float, range ... same layout on both heaps, no fields *)
| TNoFreeze.   (* AValueComplexNoFreeze *)

Scheme Equality for tag.

(** [ref]: a `Value`.  [Imm]: encoded in the pointer (int, bool, None); [Ptr a]: unfrozen heap;
    [FPtr f]: frozen heap; [SEmptyList]: the static `FrozenValue::new_empty_list()`. *)
Inductive ref := Imm (z : Z) | Ptr (a : nat) | FPtr (f : nat) | SEmptyList.

(** [cdata]: the non-pointer payload (string/bigint content id, def id, record type id, enum index; 0 for containers);
    [cfields]: the `Value` fields in layout order (dict: k1 v1 k2 v2 ... in iteration order; set: elements in
    iteration order; def: captured cells then parameter defaults; captured cell: 0 or 1 field);
    [clock]: iterator count (`ListData::check_can_mutate`) / outstanding `RefCell` borrows (dict, set). *)
Record cell := mkCell { ctag : tag; cdata : Z; cfields : list ref; clock : N }.

(** A slot of the unfrozen heap: a live value or a forward pointer written by `overwrite_with_forward`. *)
Inductive mslot := Live (c : cell) | Fwd (r : ref).

(** The world: unfrozen heap + frozen heap (a reserved, not yet filled cell is [None]). *)
Record world := mkW { wm : list mslot; wfz : list (option cell) }.

Inductive ftag_res := FTOk (t : tag) | FTCannot | FTPanic.

(** The layout change performed by `heap_freeze`. Frozen layouts in the unfrozen heap: `panic!("already frozen")`. *)
Definition ftag (t : tag) : ftag_res :=
  match t with
  | TList => FTOk TFrozenList | TDict => FTOk TFrozenDict | TSet => FTOk TFrozenSet
  | TTuple => FTOk TFrozenTuple | TStruct => FTOk TFrozenStruct | TRecord => FTOk TFrozenRecord
  | TEnum => FTOk TFrozenEnum | TDef => FTOk TFrozenDef | TCaptured => FTOk TFrozenCaptured
  | TPartial => FTOk TFrozenPartial
  | TLeaf => FTOk TLeaf
  | TNoFreeze => FTCannot
  | _ => FTPanic
  end.

(** Tags of values that no operation can change in place. *)
Definition is_frozen_tag (t : tag) : bool :=
  match t with
  | TFrozenList | TFrozenDict | TFrozenSet | TFrozenTuple | TFrozenStruct | TFrozenRecord | TFrozenEnum
  | TFrozenDef | TFrozenCaptured | TFrozenPartial | TLeaf => true
  | _ => false
  end.

(** The user-visible type: a value and its frozen image have the same one. *)
Definition ntag (t : tag) : tag := match ftag t with FTOk t' => t' | _ => t end.

Fixpoint upd {A} (l : list A) (n : nat) (x : A) : list A :=
  match l, n with
  | [], _ => []
  | _ :: t, O => x :: t
  | h :: t, S n => h :: upd t n x
  end.

Inductive fres (A : Type) := FOk (a : A) | FCannot | FPanic | FFuel.
Arguments FOk {A} a.
Arguments FCannot {A}.
Arguments FPanic {A}.
Arguments FFuel {A}.

Definition fbind {A B} (x : fres A) (k : A -> fres B) : fres B :=
  match x with FOk a => k a | FCannot => FCannot | FPanic => FPanic | FFuel => FFuel end.

(** Freeze a sequence of fields / slots in order with the same freezer. *)
Fixpoint freeze_list (f : world -> ref -> fres (ref * world)) (w : world) (rs : list ref)
  : fres (list ref * world) :=
  match rs with
  | [] => FOk ([], w)
  | r :: rs =>
      fbind (f w r) (fun p1 =>
      fbind (freeze_list f (snd p1) rs) (fun p2 => FOk (fst p1 :: fst p2, snd p2)))
  end.

Definition static_empty_list_cell : cell := mkCell TFrozenList 0 [] 0.

(** `AValueList::heap_freeze`: `if content.is_empty()` (the payload of a list is 0 in this model). *)
Definition is_empty_list (c : cell) : bool :=
  match ctag c, cfields c with TList, [] => Z.eqb (cdata c) 0 | _, _ => false end.

(** `Freezer::freeze`.  [fuel] bounds the recursion depth (every nested call consumes one live cell). *)
Fixpoint freeze (fuel : nat) (w : world) (r : ref) : fres (ref * world) :=
  match fuel with
  | O => FFuel
  | S k =>
      match r with
      | Imm _ | FPtr _ | SEmptyList => FOk (r, w)                    (* Case 1: `unpack_frozen` *)
      | Ptr a =>
          match nth_error (wm w) a with
          | None => FPanic                                            (* dangling pointer: excluded by heap_wf *)
          | Some (Fwd r') => FOk (r', w)                              (* `AValueOrForwardUnpack::Forward` *)
          | Some (Live c) =>                                          (* `Header(v)` -> `heap_freeze` *)
              match ftag (ctag c) with
              | FTCannot => FCannot
              | FTPanic => FPanic
              | FTOk t' =>
                  if is_empty_list c then
                    FOk (SEmptyList, mkW (upd (wm w) a (Fwd SEmptyList)) (wfz w))
                  else
                    let f := length (wfz w) in                                        (* reserve *)
                    let w1 := mkW (upd (wm w) a (Fwd (FPtr f))) (wfz w ++ [None]) in   (* overwrite_with_forward *)
                    fbind (freeze_list (freeze k) w1 (cfields c)) (fun p =>           (* freeze fields in order *)
                      FOk (FPtr f, mkW (wm (snd p))
                                       (upd (wfz (snd p)) f (Some (mkCell t' (cdata c) (fst p) 0)))))  (* fill *)
              end
          end
      end
  end.

(** `Module::freeze_impl`: all slots, one freezer.  Fuel = number of unfrozen cells + 1 always suffices. *)
Definition freeze_module (w : world) (slots : list ref) : fres (list ref * world) :=
  freeze_list (freeze (S (length (wm w)))) w slots.

(** ** Observation *)

Definition cell_of (w : world) (r : ref) : option cell :=
  match r with
  | Imm _ => None
  | Ptr a => match nth_error (wm w) a with Some (Live c) => Some c | _ => None end
  | FPtr f => match nth_error (wfz w) f with Some (Some c) => Some c | _ => None end
  | SEmptyList => Some static_empty_list_cell
  end.

Definition tag_of (w : world) (r : ref) : option tag := option_map ctag (cell_of w r).

(** What a program can see of a value to depth [n]: type, payload, fields in order (so: list elements, dict/set
    entries and their ORDER, struct fields, captured variables), cycles unrolled. *)
Inductive obsT := OImm (z : Z) | OCut | OBad | ONode (t : tag) (d : Z) (fs : list obsT).

Fixpoint obs (n : nat) (w : world) (r : ref) : obsT :=
  match n with
  | O => OCut
  | S k =>
      match r with
      | Imm z => OImm z
      | _ => match cell_of w r with
             | Some c => ONode (ntag (ctag c)) (cdata c) (map (obs k w) (cfields c))
             | None => OBad
             end
      end
  end.

Fixpoint obs_eqb (a b : obsT) : bool :=
  match a, b with
  | OImm x, OImm y => Z.eqb x y
  | OCut, OCut => true
  | OBad, OBad => true
  | ONode t d fs, ONode t' d' fs' =>
      tag_beq t t' && Z.eqb d d' &&
      (fix go (l l' : list obsT) : bool :=
         match l, l' with
         | [], [] => true
         | x :: l, y :: l' => obs_eqb x y && go l l'
         | _, _ => false
         end) fs fs'
  | _, _ => false
  end.

Definition eq_depth : nat := 24.

(** Equality of hashable values (keys, set elements, `list.index`/`remove` needles) — a function of the observation. *)
Definition veq (w : world) (x y : ref) : bool := obs_eqb (obs eq_depth w x) (obs eq_depth w y).

(** `get_hashed`: lists, dicts, sets (either layout) are not hashable; tuples/structs/records are when their fields are. *)
Fixpoint hashable (n : nat) (w : world) (r : ref) : bool :=
  match n with
  | O => false
  | S k =>
      match r with
      | Imm _ => true
      | _ => match cell_of w r with
             | None => false
             | Some c =>
                 match ntag (ctag c) with
                 | TFrozenList | TFrozenDict | TFrozenSet | TNoFreeze | TFrozenCaptured => false
                 | TFrozenTuple | TFrozenStruct | TFrozenRecord => forallb (hashable k w) (cfields c)
                 | _ => true
                 end
             end
      end
  end.

Definition hash_depth : nat := 12.

(** ** Non-mutating operations (a representative catalogue; all are functions of [cell_of] and [veq]) *)

Inductive rop :=
| RLen                 (* len(x), bool(x) *)
| RType                (* type(x) *)
| RGet (i : nat)       (* x[i] for list/tuple, i-th field; attribute read of a struct/record *)
| RFind (v : ref)      (* list.index / `in` / set membership: first position equal to v *)
| RDictGet (k : ref)   (* d[k], d.get(k), `k in d` *)
| RFields              (* iteration: list(x), d.items() flattened, d.keys()/values() are projections of it *)
| RKeys | RValues.

Inductive rres := RNone | RInt (z : Z) | RTag (t : tag) | RRef (r : ref) | RRefs (rs : list ref) | RNotContainer.

Fixpoint find_pos (w : world) (v : ref) (l : list ref) (i : Z) : option Z :=
  match l with
  | [] => None
  | x :: l => if veq w x v then Some i else find_pos w v l (i + 1)
  end.

Fixpoint dict_lookup (w : world) (k : ref) (l : list ref) : option ref :=
  match l with
  | k' :: v :: l => if veq w k' k then Some v else dict_lookup w k l
  | _ => None
  end.

Fixpoint evens (l : list ref) : list ref :=
  match l with k :: _ :: l => k :: evens l | _ => [] end.
Fixpoint odds (l : list ref) : list ref :=
  match l with _ :: v :: l => v :: odds l | _ => [] end.

Definition is_dict_tag (t : tag) : bool := match t with TDict | TFrozenDict => true | _ => false end.
Definition is_list_tag (t : tag) : bool := match t with TList | TFrozenList => true | _ => false end.
Definition is_set_tag (t : tag) : bool := match t with TSet | TFrozenSet => true | _ => false end.

Definition read (op : rop) (w : world) (r : ref) : rres :=
  match cell_of w r with
  | None => RNotContainer
  | Some c =>
      match op with
      | RLen => RInt (Z.of_nat (if is_dict_tag (ctag c) then Nat.div2 (length (cfields c)) else length (cfields c)))
      | RType => RTag (ntag (ctag c))
      | RGet i => match nth_error (cfields c) i with Some x => RRef x | None => RNone end
      | RFind v => match find_pos w v (cfields c) 0 with Some i => RInt i | None => RNone end
      | RDictGet k => match dict_lookup w k (cfields c) with Some v => RRef v | None => RNone end
      | RFields => RRefs (cfields c)
      | RKeys => RRefs (evens (cfields c))
      | RValues => RRefs (odds (cfields c))
      end
  end.

(** ** Executable well-formedness check (sound for [heap_wf], see Proofs.v) *)
Definition ref_okb (w : world) (r : ref) : bool :=
  match r with
  | Ptr a => match nth_error (wm w) a with Some (Live _) => true | _ => false end
  | FPtr f => match nth_error (wfz w) f with Some (Some _) => true | _ => false end
  | _ => true
  end.

Definition closedb (fz : list (option cell)) (r : ref) : bool :=
  match r with
  | Ptr _ => false
  | FPtr f => match nth_error fz f with Some (Some _) => true | _ => false end
  | _ => true
  end.

Definition heap_wfb (w : world) : bool :=
  forallb (fun s => match s with Live c => forallb (ref_okb w) (cfields c) | Fwd _ => false end) (wm w) &&
  forallb (fun s => match s with
                    | Some c => forallb (closedb (wfz w)) (cfields c) && is_frozen_tag (ctag c)
                    | None => false
                    end) (wfz w).
