(** * C04 — the catalogue of mutation entry points, each written in the order of the code:
      argument checks the code performs BEFORE looking at mutability  ->  mutability guard  ->  iteration lock  ->  effect.

    Rust anchors:
      list   values/types/list/methods.rs  append clear extend insert pop remove  (`ListData::from_value_mut(this)?` =
             downcast to the MUTABLE layout only, else `CannotMutateImmutableValue`, then `check_can_mutate`);
             `remove` searches first ("not found" precedes the guard);
             list/value.rs `set_at` (`convert_index` first, then `FrozenListData::set_at` = CannotMutateImmutableValue);
             eval/compiler/stmt.rs `add_assign` (`is_list_type` holds for BOTH layouts -> `from_value_mut`)
      dict   values/types/dict/methods.rs  clear pop popitem setdefault update (`DictMut::from_value(this)?` first),
             dict/value.rs `set_at` (key hashed first), stmt.rs `bit_or_assign` (`is_dict_type` both layouts -> `DictMut`)
      set    values/types/set/methods.rs   add update remove discard pop clear (`SetMut::from_value(this)?` first)
      other  values/traits.rs default `set_at` = CannotMutateImmutableValue, default `set_attr` = unsupported
             (struct, record, enum, tuple, def have no mutator at all)
    No proofs in this file. *)
From Coq Require Import ZArith NArith List Bool.
From SV Require Import Freeze.Model.
Import ListNotations.
Open Scope Z_scope.

Inductive err :=
| Frozen             (* ValueError::CannotMutateImmutableValue *)
| MutateWhileIter    (* ValueError::MutationDuringIteration *)
| IndexOOB | NotFound | KeyNotFound | Unhashable | EmptyPop
| Unsupported        (* no such method / operation on this type *)
| NotAValue.

Inductive mop :=
(* list *)
| LAppend (v : ref) | LExtend (vs : list ref) | LInsert (i : Z) (v : ref) | LPop (i : option Z) | LRemove (v : ref)
| LClear | LSetAt (i : Z) (v : ref) | LAddAssign (vs : list ref)
(* dict *)
| DPop (k : ref) (d : option ref) | DPopitem | DSetdefault (k v : ref) | DUpdate (kvs : list (ref * ref)) | DClear
| DSetAt (k v : ref) | DOrAssign (kvs : list (ref * ref))
(* set *)
| SAdd (v : ref) | SRemove (v : ref) | SDiscard (v : ref) | SPop | SClear | SUpdate (vs : list ref)
(* any value *)
| SetAttr (name : Z) (v : ref)       (* x.f = v *)
| SetAtAny (v : ref).                (* x[i] = v on a value that is neither list nor dict *)

Inductive mres := MOk (r : rres) | MErr (e : err).

Inductive family := FamList | FamDict | FamSet | FamAny.

Definition op_family (op : mop) : family :=
  match op with
  | LAppend _ | LExtend _ | LInsert _ _ | LPop _ | LRemove _ | LClear | LSetAt _ _ | LAddAssign _ => FamList
  | DPop _ _ | DPopitem | DSetdefault _ _ | DUpdate _ | DClear | DSetAt _ _ | DOrAssign _ => FamDict
  | SAdd _ | SRemove _ | SDiscard _ | SPop | SClear | SUpdate _ => FamSet
  | SetAttr _ _ | SetAtAny _ => FamAny
  end.

Definition tag_in_family (t : tag) (f : family) : bool :=
  match f with
  | FamList => is_list_tag t
  | FamDict => is_dict_tag t
  | FamSet => is_set_tag t
  | FamAny => true
  end.

(** `convert_index` (values/index.rs): negative indices count from the end; out of range is an error. *)
Definition conv_index (len i : Z) : option Z :=
  let j := if i <? 0 then len + i else i in
  if (j <? 0) || (len <=? j) then None else Some j.

(** `index::convert_index` used by `list.insert`: clamps. *)
Definition clamp_index (len i : Z) : Z :=
  let j := if i <? 0 then len + i else i in
  if j <? 0 then 0 else if len <? j then len else j.

(** Checks the code performs before it looks at the mutability of the receiver. *)
Definition pre_check (op : mop) (w : world) (c : cell) : option err :=
  if negb (tag_in_family (ctag c) (op_family op)) then Some Unsupported
  else
    match op with
    | LRemove v => match find_pos w v (cfields c) 0 with None => Some NotFound | Some _ => None end
    | LSetAt i _ => match conv_index (Z.of_nat (length (cfields c))) i with None => Some IndexOOB | Some _ => None end
    | DSetAt k _ => if hashable hash_depth w k then None else Some Unhashable
    | SetAttr _ _ => Some Unsupported
    | SetAtAny _ => if is_list_tag (ctag c) || is_dict_tag (ctag c) then Some Unsupported else None
    | _ => None
    end.

Fixpoint remove_nth (l : list ref) (n : nat) : list ref :=
  match l, n with
  | [], _ => []
  | _ :: t, O => t
  | h :: t, S n => h :: remove_nth t n
  end.

Fixpoint insert_nth (l : list ref) (n : nat) (x : ref) : list ref :=
  match n, l with
  | O, _ => x :: l
  | S n, h :: t => h :: insert_nth t n x
  | S _, [] => [x]
  end.

(** `SmallMap::insert_hashed`: overwrite in place, else push at the end. *)
Fixpoint dict_insert (w : world) (l : list ref) (k v : ref) : list ref :=
  match l with
  | k' :: v' :: l' => if veq w k' k then k' :: v :: l' else k' :: v' :: dict_insert w l' k v
  | _ => [k; v]
  end.

(** `shift_remove`: order of the remaining entries is kept. *)
Fixpoint dict_remove (w : world) (l : list ref) (k : ref) : option (ref * list ref) :=
  match l with
  | k' :: v' :: l' =>
      if veq w k' k then Some (v', l')
      else match dict_remove w l' k with Some (v, l'') => Some (v, k' :: v' :: l'') | None => None end
  | _ => None
  end.

Fixpoint set_mem (w : world) (l : list ref) (v : ref) : bool :=
  match l with [] => false | x :: l => veq w x v || set_mem w l v end.

Definition set_add (w : world) (l : list ref) (v : ref) : list ref := if set_mem w l v then l else l ++ [v].

Fixpoint set_remove (w : world) (l : list ref) (v : ref) : option (list ref) :=
  match l with
  | [] => None
  | x :: l' => if veq w x v then Some l'
               else match set_remove w l' v with Some l'' => Some (x :: l'') | None => None end
  end.

(** The effect on a MUTABLE, unlocked receiver: result and new field list (errors leave the value unchanged). *)
Definition apply (op : mop) (w : world) (c : cell) : mres * list ref :=
  let fs := cfields c in
  let len := Z.of_nat (length fs) in
  match op with
  | LAppend v => (MOk RNone, fs ++ [v])
  | LExtend vs | LAddAssign vs => (MOk RNone, fs ++ vs)
  | LInsert i v => (MOk RNone, insert_nth fs (Z.to_nat (clamp_index len i)) v)
  | LPop oi =>
      let i := match oi with Some i => i | None => len - 1 end in
      if (i <? 0) || (len <=? i) then (MErr IndexOOB, fs)
      else (match nth_error fs (Z.to_nat i) with Some x => MOk (RRef x) | None => MErr IndexOOB end, remove_nth fs (Z.to_nat i))
  | LRemove v =>
      match find_pos w v fs 0 with
      | Some i => (MOk RNone, remove_nth fs (Z.to_nat i))
      | None => (MErr NotFound, fs)
      end
  | LClear | DClear | SClear => (MOk RNone, [])
  | LSetAt i v =>
      match conv_index len i with
      | Some j => (MOk RNone, upd fs (Z.to_nat j) v)
      | None => (MErr IndexOOB, fs)
      end
  | DPop k d =>
      if negb (hashable hash_depth w k) then (MErr Unhashable, fs)
      else match dict_remove w fs k with
           | Some (v, fs') => (MOk (RRef v), fs')
           | None => match d with Some v => (MOk (RRef v), fs) | None => (MErr KeyNotFound, fs) end
           end
  | DPopitem =>
      match fs with
      | k :: v :: fs' => (MOk (RRefs [k; v]), fs')
      | _ => (MErr EmptyPop, fs)
      end
  | DSetdefault k v =>
      if negb (hashable hash_depth w k) then (MErr Unhashable, fs)
      else match dict_lookup w k fs with
           | Some x => (MOk (RRef x), fs)
           | None => (MOk (RRef v), fs ++ [k; v])
           end
  | DUpdate kvs | DOrAssign kvs =>
      (MOk RNone, fold_left (fun acc kv => dict_insert w acc (fst kv) (snd kv)) kvs fs)
  | DSetAt k v => (MOk RNone, dict_insert w fs k v)
  | SAdd v => if negb (hashable hash_depth w v) then (MErr Unhashable, fs) else (MOk RNone, set_add w fs v)
  | SRemove v =>
      if negb (hashable hash_depth w v) then (MErr Unhashable, fs)
      else match set_remove w fs v with Some fs' => (MOk RNone, fs') | None => (MErr NotFound, fs) end
  | SDiscard v =>
      if negb (hashable hash_depth w v) then (MErr Unhashable, fs)
      else match set_remove w fs v with Some fs' => (MOk RNone, fs') | None => (MOk RNone, fs) end
  | SPop =>
      match rev fs with
      | x :: r => (MOk (RRef x), rev r)
      | [] => (MErr EmptyPop, fs)
      end
  | SUpdate vs => (MOk RNone, fold_left (fun acc v => set_add w acc v) vs fs)
  | SetAttr _ _ => (MErr Unsupported, fs)
  | SetAtAny _ => (MErr Frozen, fs)
  end.

(** Error reported by the mutability guard for a value in a frozen (or never mutable) layout. *)
Definition guard_err (op : mop) : err := Frozen.

(** One mutation attempt on the value [r] of world [w]. *)
Definition mutate (op : mop) (w : world) (r : ref) : mres * world :=
  match cell_of w r with
  | None => (MErr NotAValue, w)
  | Some c =>
      match pre_check op w c with
      | Some e => (MErr e, w)
      | None =>
          if is_frozen_tag (ctag c) then (MErr (guard_err op), w)          (* downcast to the mutable layout failed *)
          else if (0 <? clock c)%N then (MErr MutateWhileIter, w)           (* check_can_mutate / try_borrow_mut *)
          else
            match r with
            | Ptr a =>
                let '(res, fs') := apply op w c in
                (res, mkW (upd (wm w) a (Live (mkCell (ctag c) (cdata c) fs' (clock c)))) (wfz w))
            | _ => (MErr (guard_err op), w)     (* a value outside the unfrozen heap has no mutable layout *)
            end
      end
  end.

(** A history: operations on arbitrary values, in order. *)
Fixpoint run (ops : list (mop * ref)) (w : world) : world :=
  match ops with
  | [] => w
  | (op, r) :: ops => run ops (snd (mutate op w r))
  end.

(** ** The method names behind the catalogue, compared with the source by Properties/C04.v
    (`C04_catalogue_covers_source`; the right-hand sides are re-extracted from methods.rs on every run). *)
From Coq Require Import String.
Open Scope string_scope.
Definition catalogue_list_methods : list string := ["append"; "clear"; "extend"; "insert"; "pop"; "remove"].
Definition catalogue_dict_methods : list string := ["clear"; "pop"; "popitem"; "setdefault"; "update"].
Definition catalogue_set_methods : list string := ["add"; "clear"; "discard"; "pop"; "remove"; "update"].
(** Methods whose very first statement is the mutable downcast.  `list.remove` searches first ([pre_check]);
    `dict.update` / `set.update` first compare the argument with the receiver (cannot fail, not modelled). *)
Definition guard_first_list_methods : list string := ["append"; "clear"; "extend"; "insert"; "pop"].
Definition guard_first_dict_methods : list string := ["clear"; "pop"; "popitem"; "setdefault"].
Definition guard_first_set_methods : list string := ["add"; "clear"; "discard"; "pop"; "remove"].
