(** * C04 — executable comparison driver used by the tie (tools/props/C04.py, cases.v route).
    A case = a world holding the value the implementation operated on (rebuilt from its structural encoding), the
    receiver, and one operation of the catalogue.  The driver runs the operation on the unfrozen value, freezes the
    value with [freeze_module], runs the same operation on the image, and reports both outcomes and both resulting
    observations; Python compares them with what the real evaluator did. *)
From Coq Require Import ZArith NArith List Bool.
From SV Require Import Freeze.Model Freeze.Mutate.
Import ListNotations.
Open Scope Z_scope.

Inductive ores := OOk (vs : list obsT) | OErr (e : err).

Definition case_depth : nat := 14.

Definition ores_of (w : world) (m : mres) : ores :=
  match m with
  | MErr e => OErr e
  | MOk (RRef x) => OOk [obs case_depth w x]
  | MOk (RRefs xs) => OOk (map (obs case_depth w) xs)
  | MOk (RInt z) => OOk [OImm z]
  | MOk _ => OOk []
  end.

(** The frozen image of a reference according to the forward pointers left by the freeze. *)
Definition img (w : world) (r : ref) : ref :=
  match r with
  | Ptr a => match nth_error (wm w) a with Some (Fwd r') => r' | _ => r end
  | _ => r
  end.

Definition map_op (f : ref -> ref) (op : mop) : mop :=
  match op with
  | LAppend v => LAppend (f v)
  | LExtend vs => LExtend (map f vs)
  | LInsert i v => LInsert i (f v)
  | LPop i => LPop i
  | LRemove v => LRemove (f v)
  | LClear => LClear
  | LSetAt i v => LSetAt i (f v)
  | LAddAssign vs => LAddAssign (map f vs)
  | DPop k d => DPop (f k) (option_map f d)
  | DPopitem => DPopitem
  | DSetdefault k v => DSetdefault (f k) (f v)
  | DUpdate kvs => DUpdate (map (fun kv => (f (fst kv), f (snd kv))) kvs)
  | DClear => DClear
  | DSetAt k v => DSetAt (f k) (f v)
  | DOrAssign kvs => DOrAssign (map (fun kv => (f (fst kv), f (snd kv))) kvs)
  | SAdd v => SAdd (f v)
  | SRemove v => SRemove (f v)
  | SDiscard v => SDiscard (f v)
  | SPop => SPop
  | SClear => SClear
  | SUpdate vs => SUpdate (map f vs)
  | SetAttr n v => SetAttr n (f v)
  | SetAtAny v => SetAtAny (f v)
  end.

Record case := mkCase { cw : world; ctarget : ref; cop : mop }.

(** (heap_wf?, unfrozen outcome, unfrozen observation after, frozen: outcome, observation after,
     observation of the image == observation of the original) *)
Definition run_case (c : case) : bool * (ores * obsT) * option (ores * obsT * bool) :=
  let mu := mutate (cop c) (cw c) (ctarget c) in
  let u := (ores_of (snd mu) (fst mu), obs case_depth (snd mu) (ctarget c)) in
  match freeze_module (cw c) [ctarget c] with
  | FOk (s' :: _, w') =>
      let mf := mutate (map_op (img w') (cop c)) w' s' in
      (heap_wfb (cw c), u,
       Some (ores_of (snd mf) (fst mf), obs case_depth (snd mf) s',
             obs_eqb (obs case_depth w' s') (obs case_depth (cw c) (ctarget c))))
  | _ => (heap_wfb (cw c), u, None)
  end.

Definition run_cases (cs : list case) := map run_case cs.
