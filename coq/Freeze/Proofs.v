(** * C04 — proofs about the freeze model: the memoised DFS copy is a graph isomorphism onto a closed frozen heap
    (for ALL heaps, cyclic ones included), frozen values reject every mutator of the catalogue, and no history of
    operations changes the frozen heap. *)
From Coq Require Import ZArith NArith List Bool Lia Arith.
From SV Require Import Freeze.Model Freeze.Mutate.
Import ListNotations.
Local Open Scope nat_scope.

(** ** [upd] *)
Lemma length_upd {A} (l : list A) n x : length (upd l n x) = length l.
Proof. revert n; induction l as [|h t IH]; intros [|n]; simpl; auto. Qed.

Lemma nth_upd_eq {A} (l : list A) n x : n < length l -> nth_error (upd l n x) n = Some x.
Proof.
  revert n; induction l as [|h t IH]; intros [|n] H; simpl in *; try lia; auto.
  apply IH; lia.
Qed.

Lemma nth_upd_neq {A} (l : list A) n m x : n <> m -> nth_error (upd l n x) m = nth_error l m.
Proof.
  revert n m; induction l as [|h t IH]; intros [|n] [|m] H; simpl; auto; try congruence.
Qed.

Lemma Forall2_len {A B} (R : A -> B -> Prop) l l' : Forall2 R l l' -> length l' = length l.
Proof. induction 1; simpl; auto. Qed.

Lemma nth_some_lt {A} (l : list A) n x : nth_error l n = Some x -> n < length l.
Proof. intro H. apply nth_error_Some. congruence. Qed.

(** ** Tags *)
Lemma ntag_ftag t t' : ftag t = FTOk t' -> ntag t = t' /\ ntag t' = t' /\ is_frozen_tag t' = true.
Proof. destruct t; simpl; intro H; inversion H; subst; auto. Qed.

Lemma ntag_frozen t : is_frozen_tag t = true -> ntag t = t.
Proof. destruct t; simpl; intro H; try discriminate; reflexivity. Qed.

Lemma is_empty_list_spec c : is_empty_list c = true -> ctag c = TList /\ cfields c = [] /\ cdata c = 0%Z.
Proof.
  unfold is_empty_list. destruct (ctag c); try discriminate. destruct (cfields c); try discriminate.
  intro H. apply Z.eqb_eq in H. auto.
Qed.

(** ** The invariant of the copy, relative to the world [w0] in which freezing started *)
Section Copy.
Variable w0 : world.
Let m0 := wm w0.
Let f0 := wfz w0.

(** [rel m r r']: [r'] is the frozen image of [r] according to the forward pointers in [m]. *)
Definition rel (m : list mslot) (r r' : ref) : Prop :=
  match r with Ptr a => nth_error m a = Some (Fwd r') | _ => r' = r end.

Definition ref_ok (r : ref) : Prop :=
  match r with
  | Ptr a => exists c, nth_error m0 a = Some (Live c)
  | FPtr f => exists c, nth_error f0 f = Some (Some c)
  | _ => True
  end.

(** A reference that does not lead into the unfrozen heap. *)
Definition closed_ref (fz : list (option cell)) (r : ref) : Prop :=
  match r with Ptr _ => False | FPtr f => exists c, nth_error fz f = Some (Some c) | _ => True end.

(** Well-formedness of the world before freezing: no forward pointers yet, no dangling references, the frozen heap
    (modules loaded earlier) is completely filled, frozen-tagged, and closed. *)
Record heap_wf : Prop := {
  wf_live : forall a s, nth_error m0 a = Some s -> exists c, s = Live c;
  wf_mrefs : forall a c, nth_error m0 a = Some (Live c) -> Forall ref_ok (cfields c);
  wf_filled : forall f s, nth_error f0 f = Some s -> exists c, s = Some c;
  wf_frefs : forall f c, nth_error f0 f = Some (Some c) ->
                         Forall (closed_ref f0) (cfields c) /\ is_frozen_tag (ctag c) = true
}.

Record Inv (w : world) : Prop := {
  I_len : length (wm w) = length m0;
  I_live : forall a c, nth_error (wm w) a = Some (Live c) -> nth_error m0 a = Some (Live c);
  I_fwd : forall a r', nth_error (wm w) a = Some (Fwd r') ->
      exists c t', nth_error m0 a = Some (Live c) /\ ftag (ctag c) = FTOk t' /\
        ((r' = SEmptyList /\ is_empty_list c = true) \/
         (exists f, r' = FPtr f /\ length f0 <= f /\ f < length (wfz w) /\
            forall c', nth_error (wfz w) f = Some (Some c') ->
               ctag c' = t' /\ cdata c' = cdata c /\ Forall2 (rel (wm w)) (cfields c) (cfields c')));
  I_old : length f0 <= length (wfz w) /\ forall f, f < length f0 -> nth_error (wfz w) f = nth_error f0 f;
  I_inj : forall a b f, nth_error (wm w) a = Some (Fwd (FPtr f)) -> nth_error (wm w) b = Some (Fwd (FPtr f)) -> a = b;
  I_sur : forall f, length f0 <= f -> f < length (wfz w) -> exists a, nth_error (wm w) a = Some (Fwd (FPtr f))
}.

(** [ext w w']: forward pointers persist and every reserved-but-unfilled cell of [w'] was already so in [w]. *)
Definition ext (w w' : world) : Prop :=
  (forall a r, nth_error (wm w) a = Some (Fwd r) -> nth_error (wm w') a = Some (Fwd r)) /\
  (forall f, nth_error (wfz w') f = Some None -> nth_error (wfz w) f = Some None).

Lemma ext_refl w : ext w w.
Proof. split; auto. Qed.

Lemma ext_trans w1 w2 w3 : ext w1 w2 -> ext w2 w3 -> ext w1 w3.
Proof. intros [A B] [C D]; split; auto. Qed.

Lemma rel_mono m m' r r' :
  (forall a x, nth_error m a = Some (Fwd x) -> nth_error m' a = Some (Fwd x)) -> rel m r r' -> rel m' r r'.
Proof. intros H; destruct r; simpl; auto. Qed.

Lemma Forall2_rel_mono m m' rs rs' :
  (forall a x, nth_error m a = Some (Fwd x) -> nth_error m' a = Some (Fwd x)) ->
  Forall2 (rel m) rs rs' -> Forall2 (rel m') rs rs'.
Proof. intros H F; induction F; constructor; auto. eapply rel_mono; eauto. Qed.

Lemma fwd_persist_upd (w : world) a c s :
  nth_error (wm w) a = Some (Live c) ->
  forall b x, nth_error (wm w) b = Some (Fwd x) -> nth_error (upd (wm w) a s) b = Some (Fwd x).
Proof.
  intros Ha b x Hb. rewrite nth_upd_neq; auto. intro; subst. congruence.
Qed.

(** *** Forwarding an empty list to the shared static value *)
Lemma inv_fwd_static w a c t' :
  Inv w -> nth_error (wm w) a = Some (Live c) -> ftag (ctag c) = FTOk t' -> is_empty_list c = true ->
  Inv (mkW (upd (wm w) a (Fwd SEmptyList)) (wfz w)).
Proof.
  intros HI Ha Ht He.
  pose proof (nth_some_lt _ _ _ Ha) as Hlt.
  pose proof (fwd_persist_upd w a c (Fwd SEmptyList) Ha) as Hp.
  constructor; simpl.
  - rewrite length_upd. apply HI.
  - intros b c1 Hb. destruct (Nat.eq_dec a b) as [->|Hn].
    + rewrite nth_upd_eq in Hb by auto. discriminate.
    + rewrite nth_upd_neq in Hb by auto. apply HI; auto.
  - intros b r1 Hb. destruct (Nat.eq_dec a b) as [<-|Hn].
    + rewrite nth_upd_eq in Hb by auto. inversion Hb; subst.
      exists c, t'. split; [apply HI; auto|]. split; auto.
    + rewrite nth_upd_neq in Hb by auto.
      destruct (I_fwd _ HI _ _ Hb) as (c1 & t1 & H1 & H2 & H3).
      exists c1, t1. split; auto. split; auto.
      destruct H3 as [H3|(f & -> & Hf1 & Hf2 & Hf3)]; [left; auto|right].
      exists f. repeat split; auto; destruct (Hf3 _ H) as (X & Y & Z); auto.
      eapply Forall2_rel_mono; eauto.
  - apply HI.
  - intros x y f Hx Hy.
    destruct (Nat.eq_dec a x) as [<-|Hnx]; [rewrite nth_upd_eq in Hx by auto; discriminate|].
    destruct (Nat.eq_dec a y) as [<-|Hny]; [rewrite nth_upd_eq in Hy by auto; discriminate|].
    rewrite nth_upd_neq in Hx, Hy by auto. eapply I_inj; eauto.
  - intros f H1 H2. destruct (I_sur _ HI f H1 H2) as (x & Hx). exists x. apply Hp; auto.
Qed.

(** *** reserve + overwrite_with_forward *)
Lemma inv_reserve w a c t' :
  Inv w -> nth_error (wm w) a = Some (Live c) -> ftag (ctag c) = FTOk t' ->
  Inv (mkW (upd (wm w) a (Fwd (FPtr (length (wfz w))))) (wfz w ++ [None])).
Proof.
  intros HI Ha Ht.
  pose proof (nth_some_lt _ _ _ Ha) as Hlt.
  pose proof (fwd_persist_upd w a c (Fwd (FPtr (length (wfz w)))) Ha) as Hp.
  destruct (I_old _ HI) as [Ho1 Ho2].
  constructor; simpl.
  - rewrite length_upd. apply HI.
  - intros b c1 Hb. destruct (Nat.eq_dec a b) as [->|Hn].
    + rewrite nth_upd_eq in Hb by auto. discriminate.
    + rewrite nth_upd_neq in Hb by auto. apply HI; auto.
  - intros b r1 Hb. destruct (Nat.eq_dec a b) as [<-|Hn].
    + rewrite nth_upd_eq in Hb by auto. inversion Hb; subst.
      exists c, t'. split; [apply HI; auto|]. split; auto. right.
      exists (length (wfz w)). split; auto. split; auto. split; [rewrite app_length; simpl; lia|].
      intros c' Hc. rewrite nth_error_app2 in Hc by lia. rewrite Nat.sub_diag in Hc. simpl in Hc. discriminate.
    + rewrite nth_upd_neq in Hb by auto.
      destruct (I_fwd _ HI _ _ Hb) as (c1 & t1 & H1 & H2 & H3).
      exists c1, t1. split; auto. split; auto.
      destruct H3 as [H3|(f & -> & Hf1 & Hf2 & Hf3)]; [left; auto|right].
      exists f. split; auto. split; auto. split; [rewrite app_length; simpl; lia|].
      intros c' Hc. rewrite nth_error_app1 in Hc by auto.
      destruct (Hf3 _ Hc) as (X & Y & Z). repeat split; auto.
      eapply Forall2_rel_mono; eauto.
  - split; [rewrite app_length; simpl; lia|].
    intros f Hf. rewrite nth_error_app1 by lia. auto.
  - intros x y f Hx Hy.
    assert (Hbound : forall z, z <> a -> nth_error (wm w) z = Some (Fwd (FPtr f)) -> f < length (wfz w)).
    { intros z _ Hz. destruct (I_fwd _ HI _ _ Hz) as (c1 & t1 & _ & _ & [[E _]|(g & E & _ & Hg & _)]); [discriminate|].
      inversion E; subst; auto. }
    destruct (Nat.eq_dec a x) as [<-|Hnx]; destruct (Nat.eq_dec a y) as [<-|Hny]; auto.
    + rewrite nth_upd_eq in Hx by auto. rewrite nth_upd_neq in Hy by auto. inversion Hx; subst.
      apply Hbound in Hy; auto. lia.
    + rewrite nth_upd_eq in Hy by auto. rewrite nth_upd_neq in Hx by auto. inversion Hy; subst.
      apply Hbound in Hx; auto. lia.
    + rewrite nth_upd_neq in Hx, Hy by auto. eapply I_inj; eauto.
  - intros f H1 H2. rewrite app_length in H2; simpl in H2.
    destruct (Nat.eq_dec f (length (wfz w))) as [->|Hn].
    + exists a. apply nth_upd_eq; auto.
    + destruct (I_sur _ HI f H1) as (x & Hx); [lia|]. exists x. apply Hp; auto.
Qed.

(** *** fill *)
Lemma inv_fill w a c t' f fs :
  Inv w -> nth_error m0 a = Some (Live c) -> ftag (ctag c) = FTOk t' ->
  nth_error (wm w) a = Some (Fwd (FPtr f)) -> Forall2 (rel (wm w)) (cfields c) fs ->
  Inv (mkW (wm w) (upd (wfz w) f (Some (mkCell t' (cdata c) fs 0)))).
Proof.
  intros HI H0 Ht Ha Hfs.
  destruct (I_old _ HI) as [Ho1 Ho2].
  assert (Hf : length f0 <= f /\ f < length (wfz w)).
  { destruct (I_fwd _ HI _ _ Ha) as (c1 & t1 & _ & _ & [[E _]|(g & E & G1 & G2 & _)]); [discriminate|].
    inversion E; subst; auto. }
  constructor; simpl.
  - apply HI.
  - apply HI.
  - intros b r1 Hb.
    destruct (I_fwd _ HI _ _ Hb) as (c1 & t1 & H1 & H2 & H3).
    exists c1, t1. split; auto. split; auto.
    destruct H3 as [H3|(g & -> & Hg1 & Hg2 & Hg3)]; [left; auto|right].
    exists g. split; auto. split; auto. split; [rewrite length_upd; auto|].
    intros c' Hc. destruct (Nat.eq_dec f g) as [<-|Hn].
    + rewrite nth_upd_eq in Hc by lia. inversion Hc; subst; simpl.
      assert (b = a) by (eapply I_inj; eauto). subst b.
      rewrite H0 in H1. inversion H1; subst c1. rewrite Ht in H2. inversion H2; subst. auto.
    + rewrite nth_upd_neq in Hc by auto. auto.
  - split; [rewrite length_upd; auto|].
    intros g Hg. rewrite nth_upd_neq by lia. auto.
  - apply HI.
  - intros g H1 H2. rewrite length_upd in H2. apply HI; auto.
Qed.

(** *** The main lemma: [freeze] preserves the invariant, only extends, and returns the image *)
Definition step_ok (f : world -> ref -> fres (ref * world)) : Prop :=
  forall w r r' w', Inv w -> f w r = FOk (r', w') -> Inv w' /\ ext w w' /\ rel (wm w') r r'.

Lemma freeze_list_ok f : step_ok f ->
  forall rs w rs' w', Inv w -> freeze_list f w rs = FOk (rs', w') ->
    Inv w' /\ ext w w' /\ Forall2 (rel (wm w')) rs rs'.
Proof.
  intros Hf; induction rs as [|r rs IH]; intros w rs' w' HI H; simpl in H.
  - inversion H; subst. split; auto. split; [apply ext_refl|constructor].
  - destruct (f w r) as [[r1 w1]| | |] eqn:E1; simpl in H; try discriminate.
    destruct (freeze_list f w1 rs) as [[rs2 w2]| | |] eqn:E2; simpl in H; try discriminate.
    inversion H; subst.
    destruct (Hf _ _ _ _ HI E1) as (HI1 & Hx1 & Hr1).
    destruct (IH _ _ _ HI1 E2) as (HI2 & Hx2 & Hr2).
    split; auto. split; [eapply ext_trans; eauto|].
    constructor; auto. eapply rel_mono; [apply Hx2|auto].
Qed.

Lemma freeze_ok : forall fuel, step_ok (freeze fuel).
Proof.
  induction fuel as [|k IH]; intros w r r' w' HI H; simpl in H; [discriminate|].
  destruct r as [z|a|f|].
  1,3,4: inversion H; subst; (split; [auto|split; [apply ext_refl|simpl; auto]]).
  destruct (nth_error (wm w) a) as [[c|x]|] eqn:Ea; try discriminate.
  2: { inversion H; subst. split; auto. split; [apply ext_refl|exact Ea]. }
  destruct (ftag (ctag c)) as [t'| |] eqn:Et; try discriminate.
  pose proof (nth_some_lt _ _ _ Ea) as Hlt.
  destruct (is_empty_list c) eqn:Ee.
  - inversion H; subst; clear H.
    split; [eapply inv_fwd_static; eauto|]. split.
    + split; simpl; auto. apply (fwd_persist_upd w a c _ Ea).
    + simpl. apply nth_upd_eq; auto.
  - set (f := length (wfz w)) in *.
    set (w1 := mkW (upd (wm w) a (Fwd (FPtr f))) (wfz w ++ [None])) in *.
    destruct (freeze_list (freeze k) w1 (cfields c)) as [[fs w2]| | |] eqn:E2; simpl in H; try discriminate.
    inversion H; subst r' w'; clear H.
    assert (HI1 : Inv w1) by (eapply inv_reserve; eauto).
    destruct (freeze_list_ok _ IH _ _ _ _ HI1 E2) as (HI2 & [Hx1 Hx2] & Hfs).
    assert (Ha1 : nth_error (wm w1) a = Some (Fwd (FPtr f))) by (simpl; apply nth_upd_eq; auto).
    pose proof (Hx1 _ _ Ha1) as Ha2.
    assert (H0 : nth_error m0 a = Some (Live c)) by (apply HI; auto).
    assert (Hf2 : f < length (wfz w2)).
    { destruct (I_fwd _ HI2 _ _ Ha2) as (c1 & t1 & _ & _ & [[E _]|(g & E & G1 & G2 & _)]); [discriminate|].
      inversion E; subst; auto. }
    split; [eapply inv_fill; eauto|]. split; [|exact Ha2].
    split; simpl.
    + intros b x Hb. apply Hx1. simpl. apply (fwd_persist_upd w a c _ Ea); auto.
    + intros g Hg. destruct (Nat.eq_dec f g) as [<-|Hn].
      * rewrite nth_upd_eq in Hg by auto. discriminate.
      * rewrite nth_upd_neq in Hg by auto. apply Hx2 in Hg. simpl in Hg.
        destruct (Nat.lt_ge_cases g (length (wfz w))) as [Hl|Hl].
        -- rewrite nth_error_app1 in Hg by auto. auto.
        -- rewrite nth_error_app2 in Hg by auto. fold f in Hl.
           fold f in Hg. destruct (g - f) as [|n] eqn:Eg; [lia|]. simpl in Hg. destruct n; discriminate.
Qed.

(** ** Consequences at the end of a complete freeze *)

Definition no_grey (w : world) : Prop := forall f, nth_error (wfz w) f <> Some None.

Lemma inv_init : heap_wf -> Inv w0.
Proof.
  intros W. constructor; auto.
  - intros a r' H. destruct (wf_live W _ _ H) as (c & E). discriminate.
  - intros a b f H. destruct (wf_live W _ _ H) as (c & E). discriminate.
  - intros f H1 H2. fold f0 in H2. lia.
Qed.

Lemma no_grey_init : heap_wf -> no_grey w0.
Proof. intros W f H. destruct (wf_filled W _ _ H) as (c & E). discriminate. Qed.

Lemma no_grey_ext w w' : ext w w' -> no_grey w -> no_grey w'.
Proof. intros [_ E] N f H. apply (N f). auto. Qed.

Lemma closed_ok r : closed_ref f0 r -> ref_ok r.
Proof. destruct r; simpl; auto. tauto. Qed.

Lemma closed_rel m r : closed_ref f0 r -> rel m r r.
Proof. destruct r; simpl; auto. tauto. Qed.

Lemma rel_closed w r r' : Inv w -> no_grey w -> ref_ok r -> rel (wm w) r r' -> closed_ref (wfz w) r'.
Proof.
  intros HI N Hok Hr. destruct r as [z|a|f|]; simpl in Hr; subst; simpl; auto.
  - destruct (I_fwd _ HI _ _ Hr) as (c & t' & _ & _ & [[-> _]|(g & -> & _ & G2 & _)]); simpl; auto.
    destruct (nth_error (wfz w) g) as [[c'|]|] eqn:E.
    + eauto.
    + exfalso. eapply N; eauto.
    + apply nth_error_None in E. lia.
  - destruct Hok as (c & Hc). exists c. destruct (I_old _ HI) as [_ Ho]. rewrite Ho; auto.
    eapply nth_some_lt; eauto.
Qed.

(** The image observes exactly like the original, to every depth (cycles included). *)
Lemma obs_rel w : heap_wf -> Inv w -> no_grey w ->
  forall n r r', ref_ok r -> rel (wm w) r r' -> obs n w r' = obs n w0 r.
Proof.
  intros W HI N. induction n as [|k IH]; intros r r' Hok Hr; [reflexivity|].
  destruct r as [z|a|f|]; simpl in Hr; subst.
  - reflexivity.
  - destruct (I_fwd _ HI _ _ Hr) as (c & t' & H0 & Ht & Hcase).
    destruct (ntag_ftag _ _ Ht) as (N1 & N2 & _).
    assert (Eo : obs (S k) w0 (Ptr a) = ONode t' (cdata c) (map (obs k w0) (cfields c))).
    { simpl. fold m0. rewrite H0. rewrite N1. reflexivity. }
    rewrite Eo.
    destruct Hcase as [[-> He]|(g & -> & G1 & G2 & G3)].
    + destruct (is_empty_list_spec _ He) as (T & F & D). rewrite F, D. simpl.
      rewrite T in Ht. simpl in Ht. inversion Ht; subst. reflexivity.
    + destruct (nth_error (wfz w) g) as [[c'|]|] eqn:E.
      * destruct (G3 _ eq_refl) as (X & Y & Z). simpl. rewrite E. rewrite X, N2, Y. f_equal.
        pose proof (wf_mrefs W _ _ H0) as Hoks.
        clear - Z Hoks IH. induction Z; simpl; auto. inversion Hoks; subst. f_equal; auto.
      * exfalso. eapply N; eauto.
      * apply nth_error_None in E. lia.
  - destruct Hok as (c & Hc). destruct (I_old _ HI) as [_ Ho].
    simpl. fold f0. rewrite Ho by (eapply nth_some_lt; eauto). fold f0. rewrite Hc. f_equal.
    destruct (wf_frefs W _ _ Hc) as [Hcl _].
    clear - Hcl IH. induction Hcl; simpl; auto. f_equal; auto.
    apply IH; [apply closed_ok|apply closed_rel]; auto.
  - reflexivity.
Qed.

(** The frozen heap is closed and frozen-tagged. *)
Lemma frozen_heap_closed w : heap_wf -> Inv w -> no_grey w ->
  forall f c, nth_error (wfz w) f = Some (Some c) ->
    is_frozen_tag (ctag c) = true /\ Forall (closed_ref (wfz w)) (cfields c).
Proof.
  intros W HI N f c Hc. destruct (I_old _ HI) as [Ho1 Ho2].
  destruct (Nat.lt_ge_cases f (length f0)) as [Hl|Hl].
  - rewrite Ho2 in Hc by auto. destruct (wf_frefs W _ _ Hc) as [Hcl Ht]. split; auto.
    eapply Forall_impl; [|apply Hcl]. intros r Hr. destruct r; simpl in *; auto.
    destruct Hr as (c1 & H1). exists c1. rewrite Ho2; auto. eapply nth_some_lt; eauto.
  - destruct (I_sur _ HI f Hl) as (a & Ha); [eapply nth_some_lt; eauto|].
    destruct (I_fwd _ HI _ _ Ha) as (c0 & t' & H0 & Ht & [[E _]|(g & E & _ & _ & G3)]); [discriminate|].
    inversion E; subst g. destruct (G3 _ Hc) as (X & _ & Z).
    destruct (ntag_ftag _ _ Ht) as (_ & _ & Hfr). split; [rewrite X; auto|].
    pose proof (wf_mrefs W _ _ H0) as Hoks.
    clear - Z Hoks HI N. induction Z; auto. inversion Hoks; subst. constructor; auto.
    eapply rel_closed; eauto.
Qed.

(** Sharing: the image is a function of the original, and two DIFFERENT originals never share an allocated image;
    only empty lists are merged (into the static, immutable empty list). *)
Lemma alias_rel w : heap_wf -> Inv w -> forall r1 r2 r1' r2', ref_ok r1 -> ref_ok r2 ->
  rel (wm w) r1 r1' -> rel (wm w) r2 r2' ->
  (r1 = r2 -> r1' = r2') /\ (r1' = r2' -> r1' <> SEmptyList -> r1 = r2).
Proof.
  intros W HI r1 r2 r1' r2' O1 O2 R1 R2. split.
  - intros <-. destruct r1; simpl in *; congruence.
  - intros <- Hne. destruct (I_old _ HI) as [_ Ho].
    destruct r1 as [z|a|f|]; destruct r2 as [z2|a2|f2|]; simpl in *; subst; try congruence.
    + exfalso. destruct (I_fwd _ HI _ _ R2) as (c & t' & _ & _ & [[E _]|(g & E & _)]); discriminate.
    + exfalso. destruct (I_fwd _ HI _ _ R1) as (c & t' & _ & _ & [[E _]|(g & E & _)]); discriminate.
    + destruct r1' as [z|b|g|]; try congruence.
      * exfalso. destruct (I_fwd _ HI _ _ R1) as (c & t' & _ & _ & [[E _]|(g & E & _)]); discriminate.
      * exfalso. destruct (I_fwd _ HI _ _ R1) as (c & t' & _ & _ & [[E _]|(g & E & _)]); discriminate.
      * f_equal. eapply I_inj; eauto.
    + exfalso. destruct (I_fwd _ HI _ _ R1) as (c & t' & _ & _ & [[E _]|(g & E & G1 & _)]); [discriminate|].
      inversion E; subst g. destruct O2 as (c2 & H2). apply nth_some_lt in H2. lia.
    + exfalso. destruct (I_fwd _ HI _ _ R2) as (c & t' & _ & _ & [[E _]|(g & E & G1 & _)]); [discriminate|].
      inversion E; subst g. destruct O1 as (c2 & H2). apply nth_some_lt in H2. lia.
Qed.

(** *** Totality: on a well-formed heap whose unfrozen part holds no frozen layout, a complete freeze never panics and
    never runs out of fuel: it succeeds, or reports "cannot be frozen" (a [TNoFreeze] value was reached). *)
Fixpoint live (m : list mslot) : nat :=
  match m with [] => 0 | Live _ :: t => S (live t) | Fwd _ :: t => live t end.

Lemma live_upd_fwd m : forall a c x, nth_error m a = Some (Live c) -> live (upd m a (Fwd x)) + 1 = live m.
Proof.
  induction m as [|s t IH]; intros [|a] c x H; simpl in *; try discriminate.
  - inversion H; subst. lia.
  - destruct s; simpl; erewrite <- (IH a c x); eauto; lia.
Qed.

Lemma live_le_length m : live m <= length m.
Proof. induction m as [|[c|x] t IH]; simpl; lia. Qed.

Definition mutable_layouts : Prop :=
  forall a c, nth_error m0 a = Some (Live c) -> ftag (ctag c) <> FTPanic.

Definition total_step (f : world -> ref -> fres (ref * world)) (n : nat) : Prop :=
  forall w r, Inv w -> ref_ok r -> live (wm w) < n ->
    (exists r' w', f w r = FOk (r', w') /\ live (wm w') <= live (wm w)) \/ f w r = FCannot.

Lemma freeze_list_total f n : step_ok f -> total_step f n ->
  forall rs w, Inv w -> Forall ref_ok rs -> live (wm w) < n ->
    (exists rs' w', freeze_list f w rs = FOk (rs', w') /\ live (wm w') <= live (wm w)) \/ freeze_list f w rs = FCannot.
Proof.
  intros Hs Ht. induction rs as [|r rs IH]; intros w HI Ho Hl; simpl.
  - left. eauto.
  - inversion Ho; subst.
    destruct (Ht w r HI H1 Hl) as [(r1 & w1 & E1 & L1)|E1]; rewrite E1; simpl; auto.
    destruct (Hs _ _ _ _ HI E1) as (HI1 & _ & _).
    destruct (IH w1 HI1 H2) as [(rs2 & w2 & E2 & L2)|E2]; [lia| |]; rewrite E2; simpl; auto.
    left. do 2 eexists. split; eauto. lia.
Qed.

Lemma freeze_total : heap_wf -> mutable_layouts -> forall fuel, total_step (freeze fuel) fuel.
Proof.
  intros W P. induction fuel as [|k IH]; intros w r HI Ho Hl; [lia|]. simpl.
  destruct r as [z|a|f|]; try (left; eauto; fail).
  destruct Ho as (c0 & H0).
  assert (Ha : a < length (wm w)) by (rewrite (I_len _ HI); eapply nth_some_lt; eauto).
  destruct (nth_error (wm w) a) as [[c|x]|] eqn:Ea.
  - pose proof (I_live _ HI _ _ Ea) as H0'. fold m0 in H0. rewrite H0 in H0'. inversion H0'; subst c0.
    destruct (ftag (ctag c)) as [t'| |] eqn:Et; auto.
    2: { exfalso. eapply P; eauto. }
    pose proof (live_upd_fwd _ _ _ SEmptyList Ea) as L0.
    pose proof (live_upd_fwd _ _ _ (FPtr (length (wfz w))) Ea) as L1.
    destruct (is_empty_list c).
    + left. do 2 eexists. split; eauto. simpl. lia.
    + assert (HI1 : Inv (mkW (upd (wm w) a (Fwd (FPtr (length (wfz w))))) (wfz w ++ [None])))
        by (eapply inv_reserve; eauto).
      destruct (freeze_list_total _ k (freeze_ok k) IH (cfields c) _ HI1 (wf_mrefs W _ _ H0))
        as [(fs & w2 & E2 & L2)|E2]; [simpl; lia| |]; rewrite E2; simpl; auto.
      left. do 2 eexists. split; eauto. simpl in *. lia.
  - left. eauto.
  - apply nth_error_None in Ea. lia.
Qed.

End Copy.

(** The executable check implies [heap_wf]. *)
Lemma ref_okb_sound w r : ref_okb w r = true -> ref_ok w r.
Proof.
  destruct r as [z|a|f|]; simpl; auto.
  - destruct (nth_error (wm w) a) as [[c|]|]; try discriminate. eauto.
  - destruct (nth_error (wfz w) f) as [[c|]|]; try discriminate. eauto.
Qed.

Lemma closedb_sound fz r : closedb fz r = true -> closed_ref fz r.
Proof.
  destruct r as [z|a|f|]; simpl; auto; try discriminate.
  destruct (nth_error fz f) as [[c|]|]; try discriminate. eauto.
Qed.

Lemma heap_wfb_sound w : heap_wfb w = true -> heap_wf w.
Proof.
  unfold heap_wfb. rewrite andb_true_iff, !forallb_forall. intros [Hm Hf].
  constructor.
  - intros a s H. apply nth_error_In in H. apply Hm in H. destruct s; [eauto|discriminate].
  - intros a c H. apply nth_error_In in H. apply Hm in H. rewrite forallb_forall in H.
    apply Forall_forall. intros x Hx. apply ref_okb_sound; auto.
  - intros f s H. apply nth_error_In in H. apply Hf in H. destruct s; [eauto|discriminate].
  - intros f c H. apply nth_error_In in H. apply Hf in H. apply andb_true_iff in H. destruct H as [H1 H2].
    split; auto. rewrite forallb_forall in H1. apply Forall_forall. intros x Hx. apply closedb_sound; auto.
Qed.

(** ** Module-level statements *)

Theorem freeze_module_inv w0 slots slots' w' :
  heap_wf w0 -> freeze_module w0 slots = FOk (slots', w') ->
  Inv w0 w' /\ no_grey w' /\ Forall2 (rel (wm w')) slots slots'.
Proof.
  intros W H. unfold freeze_module in H.
  destruct (freeze_list_ok w0 _ (freeze_ok w0 _) _ _ _ _ (inv_init w0 W) H) as (HI & Hx & Hr).
  split; auto. split; auto. eapply no_grey_ext; eauto. apply no_grey_init; auto.
Qed.

Theorem freeze_module_total w0 slots :
  heap_wf w0 -> mutable_layouts w0 -> Forall (ref_ok w0) slots ->
  (exists slots' w', freeze_module w0 slots = FOk (slots', w')) \/ freeze_module w0 slots = FCannot.
Proof.
  intros W P O. unfold freeze_module.
  destruct (freeze_list_total w0 _ _ (freeze_ok w0 (S (length (wm w0)))) (freeze_total w0 W P (S (length (wm w0)))) slots w0 (inv_init w0 W) O)
    as [(s' & w' & E & _)|E]; eauto.
  pose proof (live_le_length (wm w0)). lia.
Qed.

Lemma map_obs_rel w0 w : heap_wf w0 -> Inv w0 w -> no_grey w ->
  forall n rs rs', Forall (ref_ok w0) rs -> Forall2 (rel (wm w)) rs rs' -> map (obs n w) rs' = map (obs n w0) rs.
Proof.
  intros W HI N n rs rs' Ho Hr. induction Hr; simpl; auto. inversion Ho; subst. f_equal; auto.
  eapply obs_rel; eauto.
Qed.

(** [veq] and [hashable] are functions of observations, hence preserved. *)
Lemma veq_rel w0 w : heap_wf w0 -> Inv w0 w -> no_grey w ->
  forall x y x' y', ref_ok w0 x -> ref_ok w0 y -> rel (wm w) x x' -> rel (wm w) y y' -> veq w x' y' = veq w0 x y.
Proof.
  intros W HI N x y x' y' Ox Oy Rx Ry. unfold veq.
  rewrite (obs_rel w0 w W HI N _ _ _ Ox Rx), (obs_rel w0 w W HI N _ _ _ Oy Ry). reflexivity.
Qed.

(** ** Reachability inside the frozen image *)
Inductive reach (w : world) : ref -> ref -> Prop :=
| reach_refl r : reach w r r
| reach_step r c x r' : cell_of w r = Some c -> In x (cfields c) -> reach w x r' -> reach w r r'.

Definition frozen_heap_ok (w : world) : Prop :=
  forall f c, nth_error (wfz w) f = Some (Some c) ->
    is_frozen_tag (ctag c) = true /\ Forall (closed_ref (wfz w)) (cfields c).

Lemma reach_closed w : frozen_heap_ok w ->
  forall r r', reach w r r' -> closed_ref (wfz w) r -> closed_ref (wfz w) r'.
Proof.
  intros Hok r r' Hr. induction Hr; auto. intros Hc. apply IHHr.
  destruct r as [z|a|f|]; simpl in *; try discriminate; try tauto.
  - destruct (nth_error (wfz w) f) as [[c0|]|] eqn:E; try discriminate. inversion H; subst.
    destruct (Hok _ _ E) as [_ F]. rewrite Forall_forall in F. auto.
  - inversion H; subst. simpl in H0. tauto.
Qed.

Lemma closed_cell_frozen w : frozen_heap_ok w ->
  forall r c, closed_ref (wfz w) r -> cell_of w r = Some c -> is_frozen_tag (ctag c) = true.
Proof.
  intros Hok r c Hc H. destruct r as [z|a|f|]; simpl in *; try discriminate; try tauto.
  - destruct (nth_error (wfz w) f) as [[c0|]|] eqn:E; try discriminate. inversion H; subst.
    apply (Hok _ _ E).
  - inversion H; subst. reflexivity.
Qed.

(** ** Mutation *)

(** Every entry of the catalogue, on a value in a frozen layout of an ARBITRARY world: error, world unchanged. *)
Theorem frozen_immutable_any : forall op w r c,
  cell_of w r = Some c -> is_frozen_tag (ctag c) = true ->
  mutate op w r = (MErr (match pre_check op w c with Some e => e | None => Frozen end), w).
Proof.
  intros op w r c Hc Hf. unfold mutate. rewrite Hc.
  destruct (pre_check op w c); auto. rewrite Hf. reflexivity.
Qed.

(** No operation, on any value, ever writes the frozen heap. *)
Lemma mutate_frozen_heap op w r : wfz (snd (mutate op w r)) = wfz w.
Proof.
  unfold mutate. destruct (cell_of w r) as [c|]; auto.
  destruct (pre_check op w c); auto.
  destruct (is_frozen_tag (ctag c)); auto.
  destruct (0 <? clock c)%N; auto.
  destruct r; auto. destruct (apply op w c). reflexivity.
Qed.

Lemma run_frozen_heap ops : forall w, wfz (run ops w) = wfz w.
Proof.
  induction ops as [|[op r] ops IH]; intros w; simpl; auto.
  rewrite IH. apply mutate_frozen_heap.
Qed.

(** The observation of a closed value depends on the frozen heap only. *)
Lemma obs_closed w1 w2 : wfz w1 = wfz w2 -> frozen_heap_ok w1 ->
  forall n r, closed_ref (wfz w1) r -> obs n w1 r = obs n w2 r.
Proof.
  intros E Hok. induction n as [|k IH]; intros r Hc; [reflexivity|].
  destruct r as [z|a|f|]; simpl in *; try tauto; auto.
  rewrite <- E. destruct (nth_error (wfz w1) f) as [[c|]|] eqn:Ef; auto.
  f_equal. destruct (Hok _ _ Ef) as [_ F]. clear - F IH. induction F; simpl; auto. f_equal; auto.
Qed.

(** ** Reads on the image *)
Definition rres_rel (m : list mslot) (a b : rres) : Prop :=
  match a, b with
  | RNone, RNone => True
  | RInt x, RInt y => x = y
  | RTag x, RTag y => x = y
  | RRef x, RRef y => rel m x y
  | RRefs xs, RRefs ys => Forall2 (rel m) xs ys
  | RNotContainer, RNotContainer => True
  | _, _ => False
  end.

Definition rop_rel (m : list mslot) (a b : rop) : Prop :=
  match a, b with
  | RLen, RLen | RType, RType | RFields, RFields | RKeys, RKeys | RValues, RValues => True
  | RGet i, RGet j => i = j
  | RFind x, RFind y => rel m x y
  | RDictGet x, RDictGet y => rel m x y
  | _, _ => False
  end.

Definition rop_ok (w0 : world) (op : rop) : Prop :=
  match op with RFind x | RDictGet x => ref_ok w0 x | _ => True end.

Section Reads.
Variables (w0 w : world).
Hypothesis W : heap_wf w0.
Hypothesis HI : Inv w0 w.
Hypothesis N : no_grey w.

(** The cell of an image: same type, same payload, fields related. *)
Lemma cell_rel r r' : ref_ok w0 r -> rel (wm w) r r' ->
  match cell_of w0 r, cell_of w r' with
  | Some c, Some c' => ntag (ctag c') = ntag (ctag c) /\ cdata c' = cdata c /\
                       Forall2 (rel (wm w)) (cfields c) (cfields c') /\ Forall (ref_ok w0) (cfields c) /\
                       is_dict_tag (ctag c') = is_dict_tag (ctag c)
  | None, None => True
  | _, _ => False
  end.
Proof.
  intros Hok Hr. destruct r as [z|a|f|]; simpl in Hr; subst.
  - simpl. auto.
  - destruct (I_fwd _ _ HI _ _ Hr) as (c & t' & H0 & Ht & Hcase).
    destruct (ntag_ftag _ _ Ht) as (N1 & N2 & _).
    simpl. rewrite H0.
    destruct Hcase as [[-> He]|(g & -> & G1 & G2 & G3)].
    + destruct (is_empty_list_spec _ He) as (T & F & D). simpl. rewrite T, F, D. repeat split; auto.
    + simpl. destruct (nth_error (wfz w) g) as [[c'|]|] eqn:E.
      * destruct (G3 _ eq_refl) as (X & Y & Z). rewrite X, N1, N2. repeat split; auto.
        -- eapply wf_mrefs; eauto.
        -- clear - Ht. destruct (ctag c); simpl in Ht; inversion Ht; reflexivity.
      * exfalso. eapply N; eauto.
      * apply nth_error_None in E. lia.
  - destruct Hok as (c & Hc). destruct (I_old _ _ HI) as [_ Ho].
    simpl. rewrite Ho by (eapply nth_some_lt; eauto). rewrite Hc.
    destruct (wf_frefs _ W _ _ Hc) as [Hcl _]. repeat split; auto.
    + clear - Hcl. induction Hcl; constructor; auto. apply (closed_rel w0); auto.
    + eapply Forall_impl; [|apply Hcl]. apply closed_ok.
  - simpl. repeat split; auto.
Qed.

Lemma find_pos_rel v v' : ref_ok w0 v -> rel (wm w) v v' ->
  forall l l', Forall (ref_ok w0) l -> Forall2 (rel (wm w)) l l' ->
  forall i, find_pos w v' l' i = find_pos w0 v l i.
Proof.
  intros Ov Rv l l' Ol Rl. induction Rl; intros i; simpl; auto. inversion Ol; subst.
  rewrite (veq_rel w0 w W HI N x v y v') by auto. destruct (veq w0 x v); auto.
Qed.

Lemma dict_lookup_rel k k' : ref_ok w0 k -> rel (wm w) k k' ->
  forall n l l', length l <= n -> Forall (ref_ok w0) l -> Forall2 (rel (wm w)) l l' ->
  match dict_lookup w0 k l, dict_lookup w k' l' with
  | Some v, Some v' => rel (wm w) v v'
  | None, None => True
  | _, _ => False
  end.
Proof.
  intros Ok Rk. induction n as [|n IH]; intros l l' Hn Ol Rl.
  - destruct l; simpl in Hn; [|lia]. inversion Rl; subst. simpl. auto.
  - destruct Rl as [|x x' l l' Rx Rl]; simpl; auto.
    destruct Rl as [|y y' l l' Ry Rl]; simpl; auto.
    inversion Ol as [|? ? Ox Ol1]; subst. inversion Ol1 as [|? ? Oy Ol2]; subst.
    rewrite (veq_rel w0 w W HI N x k x' k') by auto. destruct (veq w0 x k); auto.
    apply IH; auto. simpl in Hn. lia.
Qed.

Lemma evens_rel : forall n l l', length l <= n -> Forall2 (rel (wm w)) l l' -> Forall2 (rel (wm w)) (evens l) (evens l').
Proof.
  induction n as [|n IH]; intros l l' Hn Rl.
  - destruct l; simpl in Hn; [|lia]. inversion Rl; subst. constructor.
  - destruct Rl as [|x x' l l' Rx Rl]; simpl; [constructor|].
    destruct Rl as [|y y' l l' Ry Rl]; simpl; [constructor|].
    constructor; auto. apply IH; auto. simpl in Hn. lia.
Qed.

Lemma odds_rel : forall n l l', length l <= n -> Forall2 (rel (wm w)) l l' -> Forall2 (rel (wm w)) (odds l) (odds l').
Proof.
  induction n as [|n IH]; intros l l' Hn Rl.
  - destruct l; simpl in Hn; [|lia]. inversion Rl; subst. constructor.
  - destruct Rl as [|x x' l l' Rx Rl]; simpl; [constructor|].
    destruct Rl as [|y y' l l' Ry Rl]; simpl; [constructor|].
    constructor; auto. apply IH; auto. simpl in Hn. lia.
Qed.

Lemma nth_error_rel : forall l l' i, Forall2 (rel (wm w)) l l' ->
  match nth_error l i, nth_error l' i with
  | Some x, Some y => rel (wm w) x y | None, None => True | _, _ => False end.
Proof.
  intros l l' i Rl. revert i. induction Rl; intros [|i]; simpl; auto. apply IHRl.
Qed.

(** Every read of the catalogue returns on the image the image of what it returned on the original. *)
Theorem reads_ok op op' r r' :
  ref_ok w0 r -> rel (wm w) r r' -> rop_ok w0 op -> rop_rel (wm w) op op' ->
  rres_rel (wm w) (read op w0 r) (read op' w r').
Proof.
  intros Hok Hr Hop Hrel. unfold read.
  pose proof (cell_rel r r' Hok Hr) as Hc.
  destruct (cell_of w0 r) as [c|]; destruct (cell_of w r') as [c'|]; try (simpl; tauto).
  destruct Hc as (T & D & F & O & Di).
  destruct op, op'; simpl in Hrel; try tauto; simpl.
  - rewrite Di, (Forall2_len _ _ _ F). reflexivity.
  - congruence.
  - subst. pose proof (nth_error_rel _ _ i0 F) as X.
    destruct (nth_error (cfields c) i0); destruct (nth_error (cfields c') i0); simpl; tauto.
  - rewrite (find_pos_rel v v0 Hop Hrel _ _ O F). destruct (find_pos w0 v (cfields c) 0); simpl; auto.
  - pose proof (dict_lookup_rel k k0 Hop Hrel _ _ _ (le_n _) O F) as X.
    destruct (dict_lookup w0 k (cfields c)); destruct (dict_lookup w k0 (cfields c')); simpl; tauto.
  - eapply evens_rel; eauto.
  - eapply odds_rel; eauto.
Qed.

End Reads.
