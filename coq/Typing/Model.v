(* C17 implementation model: the lint type checker of starlark-rust on the monomorphic, mutation-free
   core of MiniStar (coq/Core/Syntax.v).  Executable Gallina, no proofs in this file.

   typing/ctx.rs        TypingContext::expression_type / expression_bind_type        -> infer / bind_type
   typing/oracle/ctx.rs expr_bin_op(_ty)(_basic), expr_un_op, expr_index, expr_slice,
                        iter_item, indexed, intersects, widen_numeric, validate_args   -> the functions named alike
   values/types/num/typecheck.rs typecheck_num_bin_op                                  -> the int rows of bin_basic
   typing/bindings.rs   BindingsCollect::visit / assign                                -> stmt_binds / assign_binds
   typing/typecheck.rs  solve_bindings                                                 -> solve (bound = Extracted.TypingC.iterations)
   typing/ty.rs         Ty::union2 / Ty::unions                                        -> C16's Ty.Model.unions_top

   Types are C16's `ty` (Ty/Spec.v); a binding is identified by its name (the generator makes names unique).
   Results are three-valued: IOk t (the checker commits to t), IErr (the checker records an error; the
   expression then counts as Never), IUnk (the construct is outside the modelled fragment: no claim). *)
From Coq Require Import ZArith String Ascii List Bool.
From SV Require Import Core.Syntax Core.Slice Ty.Spec Ty.Model Extracted.TypingC.
Import ListNotations.
Open Scope string_scope.
Open Scope list_scope.

Definition TyTuple := Ty.Spec.TTuple.          (* for texts that import Core.Syntax (target's TTuple) last *)
Definition tbool := TBase BBool.
Definition tint := TBase BInt.
Definition tstr := TBase BStr.
Definition tnone := TBase BNone.
Definition tfloat := TBase BFloat.
Definition int_or_float := TUnion [tfloat; tint].
Definition u2 (a b : ty) : ty := unions_top [a; b].      (* Ty::union2 *)
Definition us (xs : list ty) : ty := unions_top xs.       (* Ty::unions *)

Inductive ires := IOk (t : ty) | IErr | IUnk.
Inductive lres := LOk (ts : list ty) | LErr | LUnk.
Definition ibind (r : ires) (f : ty -> ires) : ires :=
  match r with IOk t => f t | IErr => IErr | IUnk => IUnk end.
Fixpoint iall (rs : list ires) : lres :=
  match rs with
  | [] => LOk []
  | r :: rest =>
      match r, iall rest with
      | IUnk, _ | _, LUnk => LUnk
      | IErr, _ | _, LErr => LErr
      | IOk t, LOk ts => LOk (t :: ts)
      end
  end.
Definition lbind (r : lres) (f : list ty -> ires) : ires :=
  match r with LOk ts => f ts | LErr => IErr | LUnk => IUnk end.

Definition tmap := list (string * ires).
Fixpoint lookup {A} (x : string) (m : list (string * A)) : option A :=
  match m with
  | [] => None
  | (y, a) :: r => if String.eqb x y then Some a else lookup x r
  end.
Record fsig := mkSig { fs_params : list ty; fs_nreq : nat; fs_ret : ty }.
Definition sigmap := list (string * fsig).

(* ---- TypingOracleCtx::intersects / intersects_basic (fuelled on the nesting depth) --------------- *)
Definition basic_inter (rec : ty -> ty -> bool) (x y : ty) : bool :=
  ty_eqb x y ||
  match x, y with
  | TAny, _ | _, TAny => true
  | TList a, TList b => rec a b
  | TDict k v, TDict k' v' => rec k k' && rec v v'
  | Ty.Spec.TTuple xs, Ty.Spec.TTuple ys => forall2b rec xs ys
  | TTupleOf a, TTupleOf b => rec a b
  | TTupleOf a, Ty.Spec.TTuple ys | Ty.Spec.TTuple ys, TTupleOf a => forallb (rec a) ys
  | _, _ => false
  end.
Fixpoint intersects (fuel : nat) (a b : ty) {struct fuel} : bool :=
  match fuel with
  | O => true
  | S f =>
      if is_any a || is_never a || is_any b || is_never b then true
      else existsb (fun x => existsb (fun y => basic_inter (intersects f) x y) (alts b)) (alts a)
  end.
Definition inter (a b : ty) : bool := intersects 12 a b.
Definition binter (a b : ty) : bool := basic_inter inter a b.

(* widen_numeric *)
Fixpoint widen (t : ty) : ty :=
  match t with
  | TBase BInt | TBase BFloat => int_or_float
  | TList a => TList (widen a)
  | TSet a => TSet (widen a)
  | TTupleOf a => TTupleOf (widen a)
  | TDict k v => TDict (widen k) (widen v)
  | Ty.Spec.TTuple ts => Ty.Spec.TTuple (map widen ts)
  | TUnion ts => us (map widen ts)
  | _ => t
  end.

(* ---- binary operators -------------------------------------------------------------------------- *)
Inductive tbop := TAdd | TSub | TMul | TFloorDiv | TPercent | TBitAnd | TBitOr | TBitXor | TShl | TShr | TLess | TIn.
Inductive bres := BOk (t : ty) | BUnk.
Definition always_bool (o : tbop) : bool := match o with TLess | TIn => true | _ => false end.
Definition is_arith (o : tbop) : bool := match o with TAdd | TSub | TMul | TFloorDiv | TPercent => true | _ => false end.
Definition is_bitop (o : tbop) : bool := match o with TBitAnd | TBitOr | TBitXor | TShl | TShr => true | _ => false end.
Definition is_mul (o : tbop) : bool := match o with TMul => true | _ => false end.

(* expr_bin_op_ty_basic on one pair of alternatives (lhs rule, then the rhs fall-back).
   `fixmul = false` is the code as it is: typecheck_num_bin_op answers `int | float` for `int * Any`
   although `3 * "a"` is a string; `fixmul = true` is the repaired rule (Any) used by the soundness theorem. *)
Definition bin_basic (fixmul : bool) (op : tbop) (a b : ty) : bres :=
  match a with
  | TAny | TIter | TCallable => BOk TAny
  | TBase BInt =>
      match b with
      | TBase BInt => if is_arith op || is_bitop op then BOk tint else if always_bool op then (match op with TLess => BOk tbool | _ => BUnk end) else BUnk
      | TBase BFloat => if is_arith op then BOk tfloat else match op with TLess => BOk tbool | _ => BUnk end
      | TAny => if is_arith op then (if fixmul && is_mul op then BOk TAny else BOk int_or_float)
                else if is_bitop op then BOk tint else match op with TLess => BOk tbool | _ => BUnk end
      | TBase BStr => if is_mul op then BOk TAny else BUnk                       (* rhs fall-back: str rmul *)
      | TList _ => if is_mul op then BOk b else BUnk                             (* rhs fall-back: list * int *)
      | Ty.Spec.TTuple _ | TTupleOf _ => if is_mul op then BOk (TTupleOf TAny) else BUnk
      | _ => BUnk
      end
  | TBase BStr =>
      match op with
      | TAdd | TMul | TPercent => BOk TAny            (* derived bin_op_ty: the method exists -> Any *)
      | TLess | TIn => BOk tbool
      | _ => BUnk
      end
  | TBase BBool => match op with TLess => BOk tbool | _ => BUnk end
  | TList e =>
      match op with
      | TLess => if binter a b then BOk tbool else BUnk
      | TIn => if inter e b then BOk tbool else BUnk
      | TAdd => match b with
                | TList f => BOk (TList (u2 e f))
                | TAny => BOk (TList TAny)
                | _ => BUnk
                end
      | TMul => match b with TBase BInt | TAny => BOk a | _ => BUnk end
      | _ => BUnk
      end
  | Ty.Spec.TTuple _ | TTupleOf _ =>
      match op with
      | TAdd | TMul => BOk TAny
      | TLess | TIn => BOk tbool
      | _ => BUnk
      end
  | TDict k v =>
      match op with
      | TIn => if inter b k then BOk tbool else BUnk
      | TBitOr => match b with TDict _ _ => BOk (u2 a b) | _ => BUnk end
      | _ => BUnk
      end
  | _ => BUnk
  end.

Definition is_bunk (r : bres) : bool := match r with BUnk => true | _ => false end.
Fixpoint goods (rs : list bres) : list ty :=
  match rs with [] => [] | BOk t :: r => t :: goods r | BUnk :: r => goods r end.

(* expr_bin_op_ty *)
Definition bin_op_ty (fixmul : bool) (op : tbop) (lhs rhs : ty) : ires :=
  if is_never lhs || is_never rhs then (if always_bool op then IOk tbool else IOk TNever) else
  let rs := flat_map (fun a => map (fun b => bin_basic fixmul op a b) (alts rhs)) (alts lhs) in
  if existsb is_bunk rs then IUnk else
  match goods rs with
  | [] => IErr
  | g => if always_bool op then IOk tbool else IOk (us g)
  end.

Definition tbop_of (o : binop) : option tbop :=
  match o with
  | BAdd => Some TAdd | BSub => Some TSub | BMul => Some TMul | BFloorDiv => Some TFloorDiv | BMod => Some TPercent
  | BAnd => Some TBitAnd | BOr => Some TBitOr | BXor => Some TBitXor | BShl => Some TShl | BShr => Some TShr
  | BLt | BLe | BGt | BGe => Some TLess
  | BIn | BNotIn => Some TIn
  | BEq | BNe => None
  end.

(* expr_bin_op *)
Definition expr_bin_op (fixmul : bool) (o : binop) (lhs rhs : ty) : ires :=
  match o with
  | BEq | BNe =>
      if inter rhs (widen lhs) then IOk (if is_never lhs || is_never rhs then TNever else tbool) else IErr
  | BIn | BNotIn => bin_op_ty fixmul TIn rhs lhs            (* `x in y` is validated as y.__in__(x) *)
  | _ => match tbop_of o with Some op => bin_op_ty fixmul op lhs rhs | None => IUnk end
  end.

(* typecheck_union_simple *)
Definition union_simple (f : ty -> option ty) (t : ty) : ires :=
  if is_any t || is_never t then IOk t else
  match alts t with
  | [x] => match f x with Some r => IOk r | None => IErr end
  | xs => match flat_map (fun x => match f x with Some r => [r] | None => [] end) xs with
          | [] => IErr
          | g => IOk (us g)
          end
  end.

(* expr_un_op_basic: HAS_minus / HAS_plus / HAS_bit_not of the value types *)
Definition un_basic (o : unop) (t : ty) : option ty :=
  match t, o with
  | TBase BInt, (UNeg | UPos | UInv) => Some t
  | TBase BFloat, (UNeg | UPos) => Some t
  | _, _ => None
  end.

(* TyTuple::item_ty *)
Definition item_ty (t : ty) : ty :=
  match t with Ty.Spec.TTuple ts => us ts | TTupleOf a => a | _ => TAny end.

(* iter_item_basic *)
Definition iter_basic (t : ty) : option ty :=
  match t with
  | TAny | TCallable => Some TAny
  | TList e | TSet e => Some e
  | TDict k _ => Some k
  | Ty.Spec.TTuple _ | TTupleOf _ => Some (item_ty t)
  | TBase BRange => Some TAny
  | TIter => Some TAny
  | _ => None
  end.
Definition iter_item (t : ty) : ires := union_simple iter_basic t.

(* indexed_basic / indexed *)
Definition indexed_basic (i : nat) (t : ty) : ty :=
  match t with
  | TAny => TAny
  | TList x => x
  | Ty.Spec.TTuple xs => nth i xs TNever
  | TTupleOf x => x
  | _ => TAny
  end.
Definition indexed (i : nat) (t : ty) : ty := us (map (indexed_basic i) (alts t)).

(* expr_index_ty: Some = Ok, None = Err(Typing) *)
Definition index_basic (arr idx : ty) : option ty :=
  match arr with
  | TAny | TCallable | TIter => Some TAny
  | Ty.Spec.TTuple _ | TTupleOf _ => if binter idx tint then Some (item_ty arr) else None
  | TList e => if binter idx tint then Some e else None
  | TDict k v => if inter idx k then Some v else None
  | TSet e => if inter idx e then Some e else None
  | TBase BStr => Some TAny                       (* HAS_at *)
  | _ => None
  end.
(* expr_index *)
Definition expr_index (arr idx : ty) : ires :=
  if is_any arr || is_never arr then IOk arr else
  if is_never idx then IOk TNever else
  match flat_map (fun a => flat_map (fun i => match index_basic a i with Some r => [r] | None => [] end) (alts idx)) (alts arr) with
  | [] => IErr
  | g => IOk (us g)
  end.

(* expr_slice_basic (after the repair 0f4399a: a slice of a tuple has any number of the tuple's elements, so a tuple type,
   fixed-arity or homogeneous, slices to Ty::tuple_of(tuple.item_ty()) = tuple[T0 | .. | Tn-1, ...]; the empty tuple type
   `()` slices to tuple[typing.Never, ...] because Ty::unions([]) = Never.  Before the repair the tuple type was returned
   unchanged, like the list type: `t[0:1]` with t: (int, str) kept the type (int, str) although the value is (1,).) *)
Definition slice_basic (t : ty) : option ty :=
  match t with
  | TBase BStr => Some t                                             (* StarlarkValue: v.slice() *)
  | Ty.Spec.TTuple _ | TTupleOf _ => Some (TTupleOf (item_ty t))     (* Ty::tuple_of(tuple.item_ty()) *)
  | TList _ => Some t                                                (* array.is_list(): Ty::basic(array.dupe()) *)
  | _ => None
  end.

(* validate_args for positional arguments against `def` parameters (pos-or-named, some with defaults) *)
Fixpoint args_ok (params args : list ty) : bool :=
  match args, params with
  | [], _ => true
  | _ :: _, [] => false                               (* TooManyPositionalArguments *)
  | a :: ar, p :: pr => inter a p && args_ok pr ar
  end.
Definition call_sig (s : fsig) (args : list ty) : ires :=
  if args_ok (fs_params s) args && Nat.leb (fs_nreq s) (length args) then IOk (fs_ret s) else IErr.

(* result types of the native functions the generator uses (their `ParamSpec`s accept the generator's
   arguments; the special functions zip/enumerate have type-dependent results and stay outside) *)
Definition builtin_ret (f : string) : ires :=
  if String.eqb f "len" then IOk tint
  else if String.eqb f "str" then IOk tstr
  else if String.eqb f "bool" then IOk tbool
  else if String.eqb f "int" then IOk tint
  else if String.eqb f "any" then IOk tbool
  else if String.eqb f "all" then IOk tbool
  else if String.eqb f "abs" then IOk int_or_float
  else if String.eqb f "min" then IOk TAny
  else if String.eqb f "max" then IOk TAny
  else if String.eqb f "sorted" then IOk (TList TAny)
  else if String.eqb f "range" then IOk (TBase BRange)
  else if String.eqb f "emit" then IOk tnone
  else if String.eqb f "probe" then IOk tnone
  else IUnk.

Section Infer.
  Variable fixmul : bool.
  Variable sigs : sigmap.
  Variable types : tmap.

  Definition check_opt (rec : expr -> ires) (o : option expr) : ires :=      (* expr_slice: parts must be ints *)
    match o with
    | None => IOk tint
    | Some e => ibind (rec e) (fun t => if inter t tint then IOk tint else IErr)
    end.

  (* check_comprehension: the clauses are typed for their errors only *)
  Definition check_clauses (rec : expr -> ires) : list clause -> ires :=
    fix go (cls : list clause) : ires :=
    match cls with
    | [] => IOk tnone
    | CFor _ e :: r => ibind (rec e) (fun _ => go r)
    | CIf e :: r => ibind (rec e) (fun _ => go r)
    end.

  (* TypingContext::expression_type *)
  Fixpoint infer (e : expr) : ires :=
    match e with
    | ENone => IOk tnone
    | EBool _ => IOk tbool
    | EInt _ => IOk tint
    | EStr _ => IOk tstr
    | EVar x => match lookup x types with Some r => r | None => IUnk end
    | ETuple es => lbind (iall (map infer es)) (fun ts => IOk (Ty.Spec.TTuple ts))
    | EList es => lbind (iall (map infer es)) (fun ts => IOk (TList (us ts)))
    | EDict kvs =>
        lbind (iall (map (fun kv => match kv with (k, _) => infer k end) kvs)) (fun ks =>
        lbind (iall (map (fun kv => match kv with (_, v) => infer v end) kvs)) (fun vs =>
        IOk (TDict (us ks) (us vs))))
    | EUn UNot a => ibind (infer a) (fun t => if is_never t then IOk TNever else IOk tbool)
    | EUn o a => ibind (infer a) (fun t => union_simple (un_basic o) t)
    | EBin o a b => ibind (infer a) (fun ta => ibind (infer b) (fun tb => expr_bin_op fixmul o ta tb))
    | EAnd a b | EOr a b =>
        ibind (infer a) (fun ta => ibind (infer b) (fun tb => if is_never ta then IOk TNever else IOk (u2 ta tb)))
    | EIf c t f =>
        ibind (infer c) (fun tc => ibind (infer t) (fun tt => ibind (infer f) (fun tf =>
        if is_never tc then IOk TNever else IOk (u2 tt tf))))
    | EIndex a i => ibind (infer a) (fun ta => ibind (infer i) (fun ti => expr_index ta ti))
    | ESlice a lo hi st =>
        ibind (check_opt infer lo) (fun _ => ibind (check_opt infer hi) (fun _ => ibind (check_opt infer st) (fun _ =>
        ibind (infer a) (fun ta => union_simple slice_basic ta))))
    | ECall (EVar f) args [] None None =>
        lbind (iall (map infer args)) (fun ts =>
        match lookup f sigs with
        | Some s => call_sig s ts
        | None => match lookup f types with
                  | Some _ => IUnk
                  | None =>
                      if String.eqb f "list" then      (* list(xs): list of the item type of the argument *)
                        match ts with
                        | [t] => ibind (iter_item t) (fun e => IOk (TList e))
                        | _ => IUnk
                        end
                      else builtin_ret f
                  end
        end)
    | ECall _ _ _ _ _ => IUnk
    | EMeth _ _ _ _ => IUnk
    | ELambda _ _ => IUnk
    | EListComp body cls =>
        ibind (check_clauses infer cls) (fun _ => ibind (infer body) (fun t => IOk (TList t)))
    | EDictComp k v cls =>
        ibind (check_clauses infer cls) (fun _ => ibind (infer k) (fun tk => ibind (infer v) (fun tv => IOk (TDict tk tv))))
    end.

  (* bindings.rs BindExpr / ctx.rs expression_bind_type *)
  Inductive bexpr := BExpr (e : expr) | BGetIndex (i : nat) (b : bexpr) | BIter (b : bexpr) | BAug (x : string) (o : binop) (e : expr).
  Fixpoint bind_type (b : bexpr) : ires :=
    match b with
    | BExpr e => infer e
    | BGetIndex i b => ibind (bind_type b) (fun t => IOk (indexed i t))
    | BIter b => ibind (bind_type b) iter_item
    | BAug x o e =>
        ibind (infer e) (fun rhs =>
        match lookup x types with
        | Some r => ibind r (fun lhs => match tbop_of o with Some op => bin_op_ty fixmul op lhs rhs | None => IUnk end)
        | None => IUnk
        end)
    end.
End Infer.

(* ---- BindingsCollect::visit: which expressions bind which names (pre-order) ---------------------- *)
Fixpoint assign_binds (t : target) (b : bexpr) {struct t} : list (string * bexpr) :=
  match t with
  | TVar x => [(x, b)]
  | Syntax.TTuple ts =>
      (fix go (ts : list target) (i : nat) : list (string * bexpr) :=
         match ts with
         | [] => []
         | t :: r => assign_binds t (BGetIndex i b) ++ go r (S i)
         end) ts O
  | TIndex _ _ => []
  end.

Definition opt_binds (f : expr -> list (string * bexpr)) (o : option expr) : list (string * bexpr) :=
  match o with Some e => f e | None => [] end.

Definition clause_binds (rec : expr -> list (string * bexpr)) : list clause -> list (string * bexpr) :=
  fix go (cls : list clause) : list (string * bexpr) :=
  match cls with
  | [] => []
  | CFor t e :: r => assign_binds t (BIter (BExpr e)) ++ rec e ++ go r
  | CIf e :: r => rec e ++ go r
  end.

Fixpoint comp_binds (e : expr) : list (string * bexpr) :=
  match e with
  | ENone | EBool _ | EInt _ | EStr _ | EVar _ => []
  | ETuple es | EList es => flat_map comp_binds es
  | EDict kvs => flat_map (fun kv => match kv with (k, v) => comp_binds k ++ comp_binds v end) kvs
  | EUn _ a => comp_binds a
  | EBin _ a b | EAnd a b | EOr a b | EIndex a b => comp_binds a ++ comp_binds b
  | EIf c t f => comp_binds c ++ comp_binds t ++ comp_binds f
  | ESlice a lo hi st => comp_binds a ++ opt_binds comp_binds lo ++ opt_binds comp_binds hi ++ opt_binds comp_binds st
  | ECall f args kw st ds =>
      comp_binds f ++ flat_map comp_binds args ++ flat_map (fun kv => match kv with (_, v) => comp_binds v end) kw
      ++ opt_binds comp_binds st ++ opt_binds comp_binds ds
  | EMeth r _ args kw => comp_binds r ++ flat_map comp_binds args ++ flat_map (fun kv => match kv with (_, v) => comp_binds v end) kw
  | ELambda _ b => comp_binds b
  | EListComp b cls => clause_binds comp_binds cls ++ comp_binds b
  | EDictComp k v cls => clause_binds comp_binds cls ++ comp_binds k ++ comp_binds v
  end.

Fixpoint stmt_binds (s : stmt) : list (string * bexpr) :=
  match s with
  | SExpr _ e => comp_binds e
  | SAssign _ t e => assign_binds t (BExpr e) ++ comp_binds e
  | SAug _ t o e => (match t with TVar x => [(x, BAug x o e)] | _ => [] end) ++ comp_binds e
  | SIf _ c th el => comp_binds c ++ flat_map stmt_binds th ++ flat_map stmt_binds el
  | SFor _ t e body => assign_binds t (BIter (BExpr e)) ++ comp_binds e ++ flat_map stmt_binds body
  | SReturn _ (Some e) => comp_binds e
  | SDef _ _ ps body =>
      flat_map (fun p => match p with PNormal _ (Some d) => comp_binds d | _ => [] end) ps ++ flat_map stmt_binds body
  | _ => []
  end.

(* Bindings.types: parameters carry their annotation (Any without one) *)
Fixpoint zip_params (ps : list param) (ts : list ty) : tmap :=
  match ps with
  | [] => []
  | p :: pr => (param_name p, IOk (match ts with t :: _ => t | [] => TAny end)) :: zip_params pr (tl ts)
  end.
Fixpoint stmt_fixed (sigs : sigmap) (s : stmt) : tmap :=
  match s with
  | SIf _ _ th el => flat_map (stmt_fixed sigs) th ++ flat_map (stmt_fixed sigs) el
  | SFor _ _ _ body => flat_map (stmt_fixed sigs) body
  | SDef _ name ps body =>
      zip_params ps (match lookup name sigs with Some s => fs_params s | None => [] end) ++ flat_map (stmt_fixed sigs) body
  | _ => []
  end.

(* SmallMap<BindingId, Vec<BindExpr>>: grouped by name in order of first appearance *)
Fixpoint add_bind (x : string) (b : bexpr) (g : list (string * list bexpr)) : list (string * list bexpr) :=
  match g with
  | [] => [(x, [b])]
  | (y, bs) :: r => if String.eqb x y then (y, bs ++ [b]) :: r else (y, bs) :: add_bind x b r
  end.
Definition group (l : list (string * bexpr)) : list (string * list bexpr) :=
  fold_left (fun g xb => add_bind (fst xb) (snd xb) g) l [].

(* ---- solve_bindings --------------------------------------------------------------------------------- *)
Definition ires_eqb (a b : ires) : bool :=
  match a, b with
  | IOk x, IOk y => ty_eqb x y
  | IErr, IErr | IUnk, IUnk => true
  | _, _ => false
  end.
Fixpoint upd (m : tmap) (x : string) (r : ires) : tmap :=
  match m with
  | [] => [(x, r)]
  | (y, a) :: t => if String.eqb x y then (y, r) :: t else (y, a) :: upd t x r
  end.
Definition get (m : tmap) (x : string) : ires := match lookup x m with Some r => r | None => IOk TNever end.
(* Ty::union2(t.clone(), ty) where an erroneous expression counts as Never *)
Definition join (old new : ires) : ires :=
  match old, new with
  | IUnk, _ | _, IUnk => IUnk
  | IOk a, IOk b => IOk (u2 a b)
  | IOk a, IErr => IOk a
  | IErr, r => r
  end.

Section Solve.
  Variable fixmul : bool.
  Variable sigs : sigmap.
  Variable bs : list (string * list bexpr).

  Definition step1 (x : string) (acc : tmap * bool) (b : bexpr) : tmap * bool :=
    let (m, ch) := acc in
    let new := join (get m x) (bind_type fixmul sigs m b) in
    if ires_eqb new (get m x) then (m, ch) else (upd m x new, true).
  Definition step_name (acc : tmap * bool) (xb : string * list bexpr) : tmap * bool :=
    fold_left (step1 (fst xb)) (snd xb) acc.
  (* one pass of `for (name, exprs) in &bindings.expressions` with `changed = false` before it *)
  Definition step (m : tmap) : tmap * bool := fold_left step_name bs (m, false).

  (* `for _iteration in 0..ITERATIONS { changed = false; pass; if !changed { break } }`; returns (types, changed) *)
  Fixpoint solve_loop (n : nat) (m : tmap) (changed : bool) : tmap * bool :=
    match n with
    | O => (m, changed)
    | S k => let (m', ch) := step m in if ch then solve_loop k m' true else (m', false)
    end.
End Solve.

Definition init_types (sigs : sigmap) (prog : list stmt) (bs : list (string * list bexpr)) : tmap :=
  fold_left (fun m xr => upd m (fst xr) (snd xr)) (flat_map (stmt_fixed sigs) prog)
            (map (fun xb => (fst xb, IOk TNever)) bs).

(* the result of solve_bindings for one top-level def: (types, approximation flag) *)
Definition solve (fixmul : bool) (sigs : sigmap) (prog : list stmt) : tmap * bool :=
  let bs := group (flat_map stmt_binds prog) in
  solve_loop fixmul sigs bs (Z.to_nat iterations) (init_types sigs prog bs) false.

(* ---- the pure semantics of the expression fragment (values of the mutation-free core) ----------------
   literals, names, displays, unary/binary operators incl. `in`, and/or/conditional, indexing, slicing, calls of
   pure builtins; comprehensions, methods, lambdas and calls of defs are outside (None). *)
Inductive pv := PNone | PBool (b : bool) | PInt (z : Z) | PStr (s : string)
              | PList (l : list pv) | PTuple (l : list pv) | PDict (kvs : list (pv * pv)).

(* the value as seen by a type (C16's catalogue) *)
Fixpoint abs (v : pv) : value :=
  match v with
  | PNone => VNone | PBool _ => VBool | PInt _ => VInt false | PStr _ => VStr
  | PList l => VList (map abs l)
  | PTuple l => VTuple (map abs l)
  | PDict kvs => VDict (map (fun kv => match kv with (k, w) => (abs k, abs w) end) kvs)
  end.

Definition truthy (v : pv) : bool :=
  match v with
  | PNone => false | PBool b => b | PInt z => negb (Z.eqb z 0) | PStr s => negb (String.eqb s "")
  | PList [] | PTuple [] | PDict [] => false
  | _ => true
  end.

Definition mapo {A B} (f : A -> option B) : list A -> option (list B) :=
  fix go (l : list A) : option (list B) :=
  match l with
  | [] => Some []
  | a :: r => match f a, go r with Some b, Some br => Some (b :: br) | _, _ => None end
  end.

Fixpoint repeat_str (n : nat) (s : string) : string := match n with O => "" | S k => String.append s (repeat_str k s) end.
Fixpoint repeat_list {A} (n : nat) (l : list A) : list A := match n with O => [] | S k => l ++ repeat_list k l end.

Definition int_arith (o : binop) (x y : Z) : option Z :=
  match o with
  | BAdd => Some (x + y)%Z | BSub => Some (x - y)%Z | BMul => Some (x * y)%Z
  | BFloorDiv => if Z.eqb y 0 then None else Some (x / y)%Z
  | BMod => if Z.eqb y 0 then None else Some (x mod y)%Z
  | BAnd => Some (Z.land x y) | BOr => Some (Z.lor x y) | BXor => Some (Z.lxor x y)
  | BShl => if Z.ltb y 0 then None else Some (Z.shiftl x y)
  | BShr => if Z.ltb y 0 then None else Some (Z.shiftr x y)
  | _ => None
  end.
Definition cmp_res (o : binop) (c : comparison) : option bool :=
  match o, c with
  | BLt, Lt => Some true | BLt, _ => Some false
  | BLe, Gt => Some false | BLe, _ => Some true
  | BGt, Gt => Some true | BGt, _ => Some false
  | BGe, Lt => Some false | BGe, _ => Some true
  | _, _ => None
  end.
Definition scalar_eqb (a b : pv) : option bool :=
  match a, b with
  | PNone, PNone => Some true
  | PBool x, PBool y => Some (Bool.eqb x y)
  | PInt x, PInt y => Some (Z.eqb x y)
  | PStr x, PStr y => Some (String.eqb x y)
  | (PList _ | PTuple _ | PDict _), _ | _, (PList _ | PTuple _ | PDict _) => None
  | _, _ => Some false
  end.

Definition seq_index (l : list pv) (i : Z) : option pv :=
  let n := Z.of_nat (length l) in
  let j := if Z.ltb i 0 then (i + n)%Z else i in
  if Z.ltb j 0 then None else nth_error l (Z.to_nat j).
Fixpoint dict_find (kvs : list (pv * pv)) (k : pv) : option pv :=
  match kvs with
  | [] => None
  | (k', w) :: r => match scalar_eqb k k' with Some true => Some w | _ => dict_find r k end
  end.

(* `x in c`: substring test on strings, membership of a scalar in a list/tuple, key membership in a dict
   (None: the comparison needs the equality of containers, or the operand kinds do not support `in`) *)
Fixpoint is_substr (x s : string) : bool :=
  String.prefix x s || match s with EmptyString => false | String _ r => is_substr x r end.
Fixpoint mem_scalar (l : list pv) (x : pv) : option bool :=
  match l with
  | [] => Some false
  | y :: r => match scalar_eqb x y with
              | Some true => Some true
              | Some false => mem_scalar r x
              | None => None
              end
  end.
Definition in_sem (x c : pv) : option bool :=
  match c with
  | PStr s => match x with PStr t => Some (is_substr t s) | _ => None end
  | PList l | PTuple l => mem_scalar l x
  | PDict kvs => match x with
                 | PList _ | PTuple _ | PDict _ => None       (* unhashable *)
                 | _ => Some (match dict_find kvs x with Some _ => true | None => false end)
                 end
  | _ => None
  end.

Definition bin_sem (o : binop) (a b : pv) : option pv :=
  match o with
  | BEq => option_map PBool (scalar_eqb a b)
  | BNe => option_map (fun r => PBool (negb r)) (scalar_eqb a b)
  | BLt | BLe | BGt | BGe =>
      match a, b with
      | PInt x, PInt y => option_map PBool (cmp_res o (Z.compare x y))
      | PStr x, PStr y => option_map PBool (cmp_res o (String.compare x y))
      | _, _ => None
      end
  | BIn => option_map PBool (in_sem a b)
  | BNotIn => option_map (fun r => PBool (negb r)) (in_sem a b)
  | _ =>
      match a, b with
      | PInt x, PInt y => option_map PInt (int_arith o x y)
      | PStr x, PStr y => match o with BAdd => Some (PStr (String.append x y)) | _ => None end
      | PStr x, PInt n => match o with BMul => Some (PStr (repeat_str (Z.to_nat n) x)) | _ => None end
      | PInt n, PStr x => match o with BMul => Some (PStr (repeat_str (Z.to_nat n) x)) | _ => None end
      | PList x, PList y => match o with BAdd => Some (PList (x ++ y)) | _ => None end
      | PList x, PInt n => match o with BMul => Some (PList (repeat_list (Z.to_nat n) x)) | _ => None end
      | PInt n, PList x => match o with BMul => Some (PList (repeat_list (Z.to_nat n) x)) | _ => None end
      | PTuple x, PTuple y => match o with BAdd => Some (PTuple (x ++ y)) | _ => None end
      | PTuple x, PInt n => match o with BMul => Some (PTuple (repeat_list (Z.to_nat n) x)) | _ => None end
      | PInt n, PTuple x => match o with BMul => Some (PTuple (repeat_list (Z.to_nat n) x)) | _ => None end
      | _, _ => None
      end
  end.

(* a[lo:hi:st] on str/list/tuple: Core/Slice.v's specification of values/index.rs (strings as lists of bytes) *)
Definition slice_sem (v : pv) (lo hi st : option Z) : option pv :=
  match v with
  | PList l => option_map PList (slice_spec l lo hi st)
  | PTuple l => option_map PTuple (slice_spec l lo hi st)
  | PStr s => option_map (fun cs => PStr (string_of_list_ascii cs)) (slice_spec (list_ascii_of_string s) lo hi st)
  | _ => None
  end.

(* the pure builtins the generator uses, on the argument kinds the pure semantics covers (None otherwise) *)
Definition ints_of (l : list pv) : option (list Z) := mapo (fun v => match v with PInt z => Some z | _ => None end) l.
Fixpoint zinsert (z : Z) (l : list Z) : list Z :=
  match l with [] => [z] | y :: r => if Z.leb z y then z :: l else y :: zinsert z r end.
Definition zsort (l : list Z) : list Z := fold_right zinsert [] l.
Definition seq_of (v : pv) : option (list pv) :=
  match v with PList l | PTuple l => Some l | PDict kvs => Some (map fst kvs) | _ => None end.
Definition builtin_sem (f : string) (vs : list pv) : option pv :=
  if String.eqb f "len" then
    match vs with
    | [PStr s] => Some (PInt (Z.of_nat (String.length s)))
    | [PList l] | [PTuple l] => Some (PInt (Z.of_nat (length l)))
    | [PDict kvs] => Some (PInt (Z.of_nat (length kvs)))
    | _ => None
    end
  else if String.eqb f "str" then
    match vs with
    | [PStr s] => Some (PStr s)
    | [PNone] => Some (PStr "None")
    | [PBool b] => Some (PStr (if b then "True" else "False"))
    | _ => None
    end
  else if String.eqb f "bool" then
    match vs with [] => Some (PBool false) | [v] => Some (PBool (truthy v)) | _ => None end
  else if String.eqb f "int" then
    match vs with [PInt z] => Some (PInt z) | [PBool b] => Some (PInt (if b then 1 else 0)) | _ => None end
  else if String.eqb f "any" then
    match vs with [v] => option_map (fun l => PBool (existsb truthy l)) (seq_of v) | _ => None end
  else if String.eqb f "all" then
    match vs with [v] => option_map (fun l => PBool (forallb truthy l)) (seq_of v) | _ => None end
  else if String.eqb f "abs" then
    match vs with [PInt z] => Some (PInt (Z.abs z)) | _ => None end
  else if String.eqb f "min" then
    match vs with
    | [v] => match seq_of v with
             | Some l => match ints_of l with Some (z :: zs) => Some (PInt (fold_left Z.min zs z)) | _ => None end
             | None => None
             end
    | _ => None
    end
  else if String.eqb f "max" then
    match vs with
    | [v] => match seq_of v with
             | Some l => match ints_of l with Some (z :: zs) => Some (PInt (fold_left Z.max zs z)) | _ => None end
             | None => None
             end
    | _ => None
    end
  else if String.eqb f "sorted" then
    match vs with
    | [v] => match seq_of v with
             | Some l => option_map (fun zs => PList (map PInt (zsort zs))) (ints_of l)
             | None => None
             end
    | _ => None
    end
  else if String.eqb f "list" then
    match vs with [] => Some (PList []) | [v] => option_map PList (seq_of v) | _ => None end
  else None.

Section Eval.
  Variable rho : list (string * pv).
  Definition peval_opt (rec : expr -> option pv) (o : option expr) : option (option Z) :=   (* an absent or int slice bound *)
    match o with
    | None => Some None
    | Some e => match rec e with Some (PInt z) => Some (Some z) | _ => None end
    end.
  Fixpoint peval (e : expr) : option pv :=
    match e with
    | ENone => Some PNone
    | EBool b => Some (PBool b)
    | EInt z => Some (PInt z)
    | EStr s => Some (PStr s)
    | EVar x => lookup x rho
    | ETuple es => option_map PTuple (mapo peval es)
    | EList es => option_map PList (mapo peval es)
    | EDict kvs =>
        option_map PDict (mapo (fun kv => match kv with (k, w) =>
          match peval k, peval w with Some a, Some b => Some (a, b) | _, _ => None end end) kvs)
    | EUn UNot a => option_map (fun v => PBool (negb (truthy v))) (peval a)
    | EUn o a => match peval a with
                 | Some (PInt z) => Some (PInt (match o with UNeg => (- z)%Z | UInv => (- z - 1)%Z | _ => z end))
                 | _ => None
                 end
    | EBin o a b => match peval a, peval b with Some x, Some y => bin_sem o x y | _, _ => None end
    | EAnd a b => match peval a with Some x => if truthy x then peval b else Some x | None => None end
    | EOr a b => match peval a with Some x => if truthy x then Some x else peval b | None => None end
    | EIf c t f => match peval c with Some x => if truthy x then peval t else peval f | None => None end
    | EIndex a i =>
        match peval a, peval i with
        | Some (PList l), Some (PInt z) | Some (PTuple l), Some (PInt z) => seq_index l z
        | Some (PDict kvs), Some k => dict_find kvs k
        | _, _ => None
        end
    | ESlice a lo hi st =>
        match peval a, peval_opt peval lo, peval_opt peval hi, peval_opt peval st with
        | Some v, Some l, Some h, Some s => slice_sem v l h s
        | _, _, _, _ => None
        end
    | ECall (EVar f) args [] None None =>         (* a builtin, unless the name is bound to a value *)
        match lookup f rho with
        | Some _ => None
        | None => match mapo peval args with Some vs => builtin_sem f vs | None => None end
        end
    | _ => None
    end.
End Eval.

(* the environment commits to types that contain the values *)
Definition env_ok (types : tmap) (rho : list (string * pv)) : Prop :=
  forall x t v, lookup x types = Some (IOk t) -> lookup x rho = Some v -> denote t (abs v) = true.
