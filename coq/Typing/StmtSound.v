(* C17: soundness of the solver's committed types for straight-line modules (sequences of `x = e`).

   1. everything solve_bindings stores is well formed (`env_wf` is an invariant of the union iteration);
   2. every binding expression of the program is in the grouped map the solver iterates over;
   3. `infer_sound_straightline`: running the assignments one after the other keeps every bound value inside the type
      the (unflagged, diagnostic-free) solver result commits to - by the post-fixpoint property of Typing/Proofs.v and the
      expression soundness of Typing/OpSound.v. *)
From Coq Require Import ZArith String List Bool Lia.
From SV Require Import Core.Syntax Ty.Spec Ty.Model Ty.Proofs Extracted.TypingC Typing.Model Typing.Proofs Typing.OpSound.
Import ListNotations.
Open Scope string_scope.
Open Scope list_scope.

(* ---- straight-line modules and their execution in the pure semantics ---------------------------------- *)
Definition sl_stmt (s : stmt) : option (string * expr) :=
  match s with SAssign _ (TVar x) e => Some (x, e) | _ => None end.
(* Some asg: every statement is `x = e` *)
Definition straightline (prog : list stmt) : option (list (string * expr)) := mapo sl_stmt prog.

(* the newest binding of a name is found first *)
Fixpoint run (asg : list (string * expr)) (rho : list (string * pv)) : option (list (string * pv)) :=
  match asg with
  | [] => Some rho
  | (x, e) :: r => match peval rho e with Some v => run r ((x, v) :: rho) | None => None end
  end.

(* ------------------------------------------------------------------------------------------------ *)
(* 1. well-formedness is an invariant of the solver *)
Lemma lookup_upd m x r y : lookup y (upd m x r) = if String.eqb y x then Some r else lookup y m.
Proof.
  induction m as [|[z a] m IH]; simpl.
  - reflexivity.
  - destruct (String.eqb x z) eqn:Exz; simpl.
    + apply String.eqb_eq in Exz. subst z. destruct (String.eqb y x); reflexivity.
    + rewrite IH. destruct (String.eqb y z) eqn:Eyz; [|reflexivity].
      apply String.eqb_eq in Eyz. subst z. rewrite String.eqb_sym, Exz. reflexivity.
Qed.

Lemma upd_wf m x r : env_wf m -> (forall t, r = IOk t -> wf t) -> env_wf (upd m x r).
Proof.
  intros Hm Hr y t H. rewrite lookup_upd in H. destruct (String.eqb y x).
  - inversion H; subst. apply Hr. reflexivity.
  - eapply Hm; exact H.
Qed.

Lemma get_wf m x t : env_wf m -> get m x = IOk t -> wf t.
Proof.
  unfold get. intros Hm H. destruct (lookup x m) as [r|] eqn:L.
  - subst r. eapply Hm; exact L.
  - inversion H; reflexivity.
Qed.

Lemma join_wf a b t : (forall x, a = IOk x -> wf x) -> (forall x, b = IOk x -> wf x) -> join a b = IOk t -> wf t.
Proof.
  intros Ha Hb H. destruct a as [x| |], b as [y| |]; simpl in H; try discriminate; inversion H; subst; auto.
  apply u2_wf'; auto.
Qed.

Lemma indexed_wf i t : wf t -> wf (indexed i t).
Proof.
  intro W. unfold indexed. apply us_wf. rewrite Forall_forall. intros x Hx. apply in_map_iff in Hx.
  destruct Hx as [a [<- Ha]]. pose proof (wf_alts t a W Ha) as Wa.
  destruct a; try reflexivity; simpl; try exact Wa.
  unfold wf in Wa. simpl in Wa. rewrite forallb_forall in Wa.
  destruct (nth_in_or_default i ts TNever) as [Hin | ->]; [apply Wa; exact Hin | reflexivity].
Qed.

Section SolveWf.
  Variable fixmul : bool.
  Variable sigs : sigmap.
  Hypothesis Hsigs : sigs_wf sigs.

  Lemma bind_type_wf m : env_wf m -> forall b t, bind_type fixmul sigs m b = IOk t -> wf t.
  Proof.
    intros Hm. induction b as [e | i b IH | b IH | x o e]; intros t H; simpl in H.
    - eapply infer_wf; eassumption.
    - destruct (bind_type fixmul sigs m b) as [t'| |]; simpl in H; try discriminate. inversion H; subst.
      apply indexed_wf. apply IH. reflexivity.
    - destruct (bind_type fixmul sigs m b) as [t'| |]; simpl in H; try discriminate.
      eapply iter_item_wf; [apply IH; reflexivity | exact H].
    - destruct (infer fixmul sigs m e) as [rhs| |] eqn:Ie; simpl in H; try discriminate.
      destruct (lookup x m) as [r|] eqn:L; [|discriminate]. destruct r as [lhs| |]; simpl in H; try discriminate.
      destruct (tbop_of o) as [op|]; [|discriminate].
      eapply bin_op_ty_wf; [eapply Hm; exact L | eapply infer_wf; eassumption | exact H].
  Qed.

  Lemma step1_wf x acc b : env_wf (fst acc) -> env_wf (fst (step1 fixmul sigs x acc b)).
  Proof.
    destruct acc as [m ch]. simpl. intro Hm. unfold step1.
    destruct (ires_eqb _ _); simpl; [exact Hm|].
    apply upd_wf; [exact Hm|]. intros t Ht. eapply join_wf; [| | exact Ht].
    - intros y Hy. eapply get_wf; eassumption.
    - intros y Hy. eapply bind_type_wf; eassumption.
  Qed.

  Lemma fold_step1_wf x bs acc : env_wf (fst acc) -> env_wf (fst (fold_left (step1 fixmul sigs x) bs acc)).
  Proof. revert acc. induction bs as [|b bs IH]; intros acc H; simpl; [exact H|]. apply IH. apply step1_wf. exact H. Qed.

  Lemma fold_step_name_wf bs acc : env_wf (fst acc) -> env_wf (fst (fold_left (step_name fixmul sigs) bs acc)).
  Proof.
    revert acc. induction bs as [|xb bs IH]; intros acc H; simpl; [exact H|]. apply IH. unfold step_name.
    apply fold_step1_wf. exact H.
  Qed.

  Lemma step_wf bs m : env_wf m -> env_wf (fst (step fixmul sigs bs m)).
  Proof. intro H. unfold step. apply fold_step_name_wf. exact H. Qed.

  Lemma solve_loop_wf bs : forall n m c, env_wf m -> env_wf (fst (solve_loop fixmul sigs bs n m c)).
  Proof.
    induction n as [|k IH]; intros m c H; simpl; [exact H|].
    pose proof (step_wf bs m H) as W. destruct (step fixmul sigs bs m) as [m' ch]. simpl in W.
    destruct ch; [apply IH; exact W | exact W].
  Qed.
End SolveWf.

(* ------------------------------------------------------------------------------------------------ *)
(* 2. the grouped map holds every binding expression *)
Definition has (g : list (string * list bexpr)) (x : string) (b : bexpr) : Prop := exists es, In (x, es) g /\ In b es.

Lemma add_bind_new x b g : has (add_bind x b g) x b.
Proof.
  induction g as [|[y bs] g IH]; simpl.
  - exists [b]. split; left; reflexivity.
  - destruct (String.eqb x y) eqn:E.
    + apply String.eqb_eq in E. subst y. exists (bs ++ [b]). split; [left; reflexivity | apply in_or_app; right; left; reflexivity].
    + destruct IH as [es [H1 H2]]. exists es. split; [right; exact H1 | exact H2].
Qed.
Lemma add_bind_keeps x b g y c : has g y c -> has (add_bind x b g) y c.
Proof.
  induction g as [|[z bs] g IH]; intros [es [H1 H2]]; [destruct H1|]. simpl.
  destruct H1 as [Heq | H1].
  - inversion Heq; subst. destruct (String.eqb x y).
    + exists (es ++ [b]). split; [left; reflexivity | apply in_or_app; left; exact H2].
    + exists es. split; [left; reflexivity | exact H2].
  - destruct (String.eqb x z).
    + exists es. split; [right; exact H1 | exact H2].
    + assert (Hg : has g y c) by (exists es; split; assumption). apply IH in Hg. destruct Hg as [es' [G1 G2]].
      exists es'. split; [right; exact G1 | exact G2].
Qed.

Lemma group_has l x b : In (x, b) l -> has (group l) x b.
Proof.
  unfold group. intro Hin.
  assert (G : forall g, In (x, b) l \/ has g x b -> has (fold_left (fun g xb => add_bind (fst xb) (snd xb) g) l g) x b).
  { clear Hin. induction l as [|[y c] l IH]; intros g H; simpl.
    - destruct H as [[]|H]; exact H.
    - apply IH. destruct H as [[Heq | Hin] | H].
      + inversion Heq; subst. right. apply add_bind_new.
      + left; exact Hin.
      + right. apply add_bind_keeps. exact H. }
  apply G. left; exact Hin.
Qed.

(* ------------------------------------------------------------------------------------------------ *)
(* 3. straight-line modules *)
Lemma sl_stmt_inv s x e : sl_stmt s = Some (x, e) -> exists ln, s = SAssign ln (TVar x) e.
Proof. destruct s; simpl; try discriminate. destruct t; try discriminate. intro H. inversion H; subst. eauto. Qed.

Lemma straightline_binds prog : forall asg x e,
  straightline prog = Some asg -> In (x, e) asg -> In (x, BExpr e) (flat_map stmt_binds prog).
Proof.
  unfold straightline. induction prog as [|s prog IH]; intros asg x e H Hin.
  - simpl in H. inversion H; subst. destruct Hin.
  - rewrite mapo_cons in H. destruct (sl_stmt s) as [[y d]|] eqn:E; [|discriminate].
    destruct (mapo sl_stmt prog) as [asg'|] eqn:M; [|discriminate]. inversion H; subst.
    destruct (sl_stmt_inv _ _ _ E) as [ln ->]. simpl. destruct Hin as [Heq | Hin].
    + inversion Heq; subst. left; reflexivity.
    + right. apply in_or_app. right. eapply IH; [reflexivity | exact Hin].
Qed.

Lemma straightline_fixed sigs prog asg : straightline prog = Some asg -> flat_map (stmt_fixed sigs) prog = [].
Proof.
  unfold straightline. revert asg. induction prog as [|s prog IH]; intros asg H; [reflexivity|].
  rewrite mapo_cons in H. destruct (sl_stmt s) as [[y d]|] eqn:E; [|discriminate].
  destruct (mapo sl_stmt prog) as [asg'|] eqn:M; [|discriminate].
  destruct (sl_stmt_inv _ _ _ E) as [ln ->]. simpl. eapply IH. reflexivity.
Qed.

Lemma never_map_wf (bs : list (string * list bexpr)) : env_wf (map (fun xb => (fst xb, IOk TNever)) bs).
Proof.
  induction bs as [|[y es] bs IH]; intros x t H; simpl in H; [discriminate|].
  destruct (String.eqb x y); [inversion H; reflexivity | eapply IH; exact H].
Qed.

Lemma solve_straightline_wf fixmul sigs prog asg m f :
  sigs_wf sigs -> straightline prog = Some asg -> solve fixmul sigs prog = (m, f) -> env_wf m.
Proof.
  intros Hs Hsl H. unfold solve in H.
  pose proof (solve_loop_wf fixmul sigs Hs (group (flat_map stmt_binds prog)) (Z.to_nat iterations)
                (init_types sigs prog (group (flat_map stmt_binds prog))) false) as W.
  rewrite H in W. apply W. unfold init_types. rewrite (straightline_fixed sigs prog asg Hsl). simpl. apply never_map_wf.
Qed.

Section Straightline.
  Variable fixmul : bool.
  Variable sigs : sigmap.
  Variable m : tmap.
  Hypothesis Hsigs : sigs_wf sigs.
  Hypothesis Hm : env_wf m.

  (* one assignment `x = e` whose expression type is absorbed by the binding's type keeps the environment inside m *)
  Lemma assign_sound rho x e v :
    env_ok m rho -> absorbed fixmul sigs m x (BExpr e) ->
    sound_ops fixmul sigs m e = true -> infer fixmul sigs m e <> IErr ->
    peval rho e = Some v -> env_ok m ((x, v) :: rho).
  Proof.
    intros Henv Ab So Ne Hp y t w H1 H2. simpl in H2. destruct (String.eqb y x) eqn:E.
    - apply String.eqb_eq in E. subst y. inversion H2; subst w.
      assert (Gx : get m x = IOk t) by (unfold get; rewrite H1; reflexivity).
      destruct (infer fixmul sigs m e) as [te| |] eqn:Ie.
      + eapply absorbed_denote; [exact Ab | simpl; exact Ie | exact Gx|].
        eapply infer_expr_sound_ops; eassumption.
      + congruence.
      + unfold absorbed in Ab. simpl in Ab. rewrite Ie, Gx in Ab. simpl in Ab. discriminate.
    - eapply Henv; eassumption.
  Qed.

  Lemma run_sound asg : forall rho rho',
    (forall x e, In (x, e) asg ->
       absorbed fixmul sigs m x (BExpr e) /\ sound_ops fixmul sigs m e = true /\ infer fixmul sigs m e <> IErr) ->
    env_ok m rho -> run asg rho = Some rho' -> env_ok m rho'.
  Proof.
    induction asg as [|[x e] asg IH]; intros rho rho' Hall Henv Hr; simpl in Hr.
    - inversion Hr; subst. exact Henv.
    - destruct (peval rho e) as [v|] eqn:Pe; [|discriminate].
      destruct (Hall x e (or_introl eq_refl)) as (Ab & So & Ne).
      eapply IH; [| |exact Hr].
      + intros y d Hin. apply Hall. right; exact Hin.
      + eapply assign_sound; eassumption.
  Qed.
End Straightline.

(* the soundness statement of the property for straight-line modules: after the run, every binding the unflagged,
   diagnostic-free checker result commits to holds a value of the committed type *)
Theorem infer_sound_straightline fixmul sigs prog asg m rho :
  sigs_wf sigs ->
  straightline prog = Some asg ->
  solve fixmul sigs prog = (m, false) ->
  (forall x e, In (x, e) asg -> sound_ops fixmul sigs m e = true /\ infer fixmul sigs m e <> IErr) ->
  run asg [] = Some rho ->
  forall x t v, lookup x m = Some (IOk t) -> lookup x rho = Some v -> denote t (abs v) = true.
Proof.
  intros Hs Hsl Hsolve Hall Hr.
  pose proof (solve_straightline_wf _ _ _ _ _ _ Hs Hsl Hsolve) as Hm.
  change (env_ok m rho). eapply (run_sound fixmul sigs m Hs Hm asg [] rho); [| |exact Hr].
  - intros x e Hin. destruct (Hall x e Hin) as [So Ne]. split; [|split; assumption].
    pose proof (straightline_binds prog asg x e Hsl Hin) as Hb. apply group_has in Hb. destruct Hb as [es [G1 G2]].
    eapply solve_post_fixpoint; eassumption.
  - intros x t v H1 H2. discriminate H2.
Qed.
