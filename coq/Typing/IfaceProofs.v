(* C17: soundness of the module interface builder model (Typing/IfaceModel.v), and unsoundness of the variant that
   keeps the first binding's type for a variable re-bound where the assignment may not run exactly once. *)
From Coq Require Import List Arith Bool Lia.
From SV Require Import Typing.IfaceModel.
Import ListNotations.

Definition mem (y : var) (l : list var) : bool := existsb (Nat.eqb y) l.

(* variables assigned anywhere in a statement *)
Fixpoint targets (s : stmt) : list var :=
  match s with
  | SSkip => []
  | SSeq a b => targets a ++ targets b
  | SAssign x _ | SAug x | SDef x => [x]
  | SUnpack xs _ => xs
  | SIf b1 b2 => targets b1 ++ targets b2
  | SFor x _ body => x :: targets body
  end.

Lemma mem_app : forall y l1 l2, mem y (l1 ++ l2) = mem y l1 || mem y l2.
Proof. intros. unfold mem. apply existsb_app. Qed.

Lemma mem_In : forall y l, mem y l = true <-> In y l.
Proof.
  intros. unfold mem. rewrite existsb_exists. split.
  - intros [z [Hz He]]. apply Nat.eqb_eq in He. subst; auto.
  - intros. exists y. split; auto. apply Nat.eqb_refl.
Qed.

(* ---- the evaluator resets exactly the assigned variables *)
Lemma fold_unset_spec : forall xs i y,
  fold_left (assign_unset false) xs i y = if mem y xs then Some IAny else i y.
Proof.
  induction xs as [|x xs IH]; intros i y; simpl; auto.
  rewrite IH. unfold assign_unset, iupd. destruct (Nat.eqb y x) eqn:E; simpl; auto.
  destruct (mem y xs); auto.
Qed.

Lemma unset_spec : forall s i y, unset false i s y = if mem y (targets s) then Some IAny else i y.
Proof.
  induction s; intros i y; simpl.
  - auto.
  - rewrite IHs2, IHs1, mem_app. destruct (mem y (targets s1)), (mem y (targets s2)); auto.
  - unfold assign_unset, iupd. rewrite orb_false_r. auto.
  - unfold assign_unset, iupd. rewrite orb_false_r. auto.
  - apply fold_unset_spec.
  - unfold assign_unset, iupd. rewrite orb_false_r. auto.
  - rewrite IHs2, IHs1, mem_app. destruct (mem y (targets s1)), (mem y (targets s2)); auto.
  - rewrite IHs. unfold assign_unset, iupd. destruct (Nat.eqb y x); simpl; auto. destruct (mem y (targets s)); auto.
Qed.

(* ---- a run only changes the assigned variables *)
Lemma bind_all_frame : forall xs ks r y, mem y xs = false -> bind_all r xs ks y = r y.
Proof.
  induction xs as [|x xs IH]; intros ks r y H; simpl in *; auto.
  destruct ks; auto. apply orb_false_iff in H. destruct H as [H1 H2].
  rewrite IH by auto. unfold rupd. rewrite H1. auto.
Qed.

Lemma exec_frame : forall r s r', exec r s r' -> forall y, mem y (targets s) = false -> r' y = r y.
Proof.
  induction 1; intros y Hy; simpl in Hy; auto.
  - rewrite mem_app in Hy. apply orb_false_iff in Hy. destruct Hy. rewrite IHexec2, IHexec1; auto.
  - unfold rupd. rewrite orb_false_r in Hy. rewrite Hy. auto.
  - apply bind_all_frame; auto.
  - unfold rupd. rewrite orb_false_r in Hy. rewrite Hy. auto.
  - rewrite mem_app in Hy. apply orb_false_iff in Hy. destruct Hy. auto.
  - rewrite mem_app in Hy. apply orb_false_iff in Hy. destruct Hy. auto.
  - pose proof Hy as Hy'. apply orb_false_iff in Hy'. destruct Hy' as [H1 H2].
    rewrite IHexec2 by (simpl; auto). rewrite IHexec1 by auto. unfold rupd. rewrite H1. auto.
Qed.

(* ---- resetting is sound whatever the body did *)
Lemma unset_sound : forall i r s r', exec r s r' -> iface_sound i r -> iface_sound (unset false i s) r'.
Proof.
  intros i r s r' HX HS x ks k Hi Hr. rewrite unset_spec in Hi.
  destruct (mem x (targets s)) eqn:M; try discriminate.
  rewrite (exec_frame _ _ _ HX x M) in Hr. eauto.
Qed.

Lemma fold_unset_sound : forall xs ks i r, iface_sound i r -> iface_sound (fold_left (assign_unset false) xs i) (bind_all r xs ks).
Proof.
  intros xs ks i r HS x ks' k Hi Hr. rewrite fold_unset_spec in Hi.
  destruct (mem x xs) eqn:M; try discriminate. rewrite bind_all_frame in Hr by auto. eauto.
Qed.

Lemma union2_kinds : forall a b ks, union2 a b = IKinds ks -> exists x y, a = IKinds x /\ b = IKinds y /\ ks = x ++ y.
Proof. intros a b ks H. destruct a, b; simpl in H; try discriminate. inversion H; subst. eauto. Qed.

Lemma assign_value_sound : forall i r x t k, iface_sound i r ->
  (forall ks, t = IKinds ks -> In k ks) -> iface_sound (assign_value i x t) (rupd r x k).
Proof.
  intros i r x t k HS Ht y ks k' Hi Hr. unfold assign_value, iupd in Hi. unfold rupd in Hr.
  destruct (Nat.eqb y x) eqn:E.
  - inversion Hr; subst k'. destruct (i x) as [old|] eqn:Eo.
    + inversion Hi as [Hu]. apply union2_kinds in Hu. destruct Hu as [a [b [Ha [Hb Hk]]]]. subst ks.
      apply in_or_app. left. auto.
    + inversion Hi; subst. auto.
  - eauto.
Qed.

Lemma ty_of_sound : forall i r e k ks, iface_sound i r -> eval r e = Some k -> ty_of i e = IKinds ks -> In k ks.
Proof.
  intros i r e k ks HS He Ht. destruct e as [k0 [|]|x]; simpl in *.
  - inversion He; inversion Ht; subst. simpl; auto.
  - discriminate.
  - destruct (i x) as [t|] eqn:Ei; try discriminate. subst t. eauto.
Qed.

(* THE THEOREM on the model: for every run of the module (every choice of branches and iteration counts), every
   variable for which the interface commits to a definite type holds a value of one of the committed kinds *)
Theorem abs_sound : forall s i r r', exec r s r' -> iface_sound i r -> iface_sound (abs false i s) r'.
Proof.
  induction s; intros i r r' HX HS; simpl.
  - inversion HX; subst; auto.
  - inversion HX; subst. eapply IHs2; [eassumption|]. eapply IHs1; eassumption.
  - inversion HX; subst. apply assign_value_sound; auto. intros ks Hk. eapply ty_of_sound; eauto.
  - inversion HX; subst; auto.
  - inversion HX; subst. apply fold_unset_sound; auto.
  - inversion HX; subst. apply assign_value_sound; auto. intros ks Hk. inversion Hk; subst. simpl; auto.
  - exact (unset_sound i r (SIf s1 s2) r' HX HS).
  - exact (unset_sound i r (SFor x k s) r' HX HS).
Qed.

Lemma empty_sound : iface_sound iempty rempty.
Proof. intros x ks k H. discriminate. Qed.

Theorem interface_sound : forall s r', exec rempty s r' -> iface_sound (interface s) r'.
Proof. intros. unfold interface. eapply abs_sound; eauto. apply empty_sound. Qed.

(* ---- keeping the first binding's type for a variable re-bound in a branch is unsound *)
(* level = "low"; if cond: level = 10 *)
Definition rebound_in_if : stmt := SSeq (SAssign 0 (EVal KStr true)) (SIf (SAssign 0 (EVal KOther false)) SSkip).
(* best = "none"; for cand in [3, 5, 4]: best = cand *)
Definition rebound_in_for : stmt := SSeq (SAssign 0 (EVal KStr true)) (SFor 1 KOther (SAssign 0 (EVar 1))).
(* name = "a"; (name, other) = (1, 2) *)
Definition rebound_unpack : stmt := SSeq (SAssign 0 (EVal KStr true)) (SUnpack [0; 2] [KOther; KOther]).

Lemma keep_first_unsound_if :
  exists r', exec rempty rebound_in_if r' /\ abs true iempty rebound_in_if 0 = Some (IKinds [KStr]) /\ r' 0 = Some KOther.
Proof.
  exists (rupd (rupd rempty 0 KStr) 0 KOther). split; [|split]; try reflexivity.
  eapply X_seq. apply X_assign; reflexivity. apply X_if_then. apply X_assign; reflexivity.
Qed.

Lemma keep_first_unsound_for :
  exists r', exec rempty rebound_in_for r' /\ abs true iempty rebound_in_for 0 = Some (IKinds [KStr]) /\ r' 0 = Some KOther.
Proof.
  exists (rupd (rupd (rupd rempty 0 KStr) 1 KOther) 0 KOther). split; [|split]; try reflexivity.
  eapply X_seq. apply X_assign; reflexivity. eapply X_for_iter. apply X_assign; reflexivity. apply X_for_done.
Qed.

Lemma keep_first_unsound_unpack :
  exists r', exec rempty rebound_unpack r' /\ abs true iempty rebound_unpack 0 = Some (IKinds [KStr]) /\ r' 0 = Some KOther.
Proof.
  exists (bind_all (rupd rempty 0 KStr) [0; 2] [KOther; KOther]). split; [|split]; try reflexivity.
  eapply X_seq. apply X_assign; reflexivity. apply X_unpack.
Qed.

Theorem keep_first_binding_refuted :
  exists s r', exec rempty s r' /\ ~ iface_sound (abs true iempty s) r'.
Proof.
  destruct keep_first_unsound_if as [r' [HX [Hi Hr]]]. exists rebound_in_if, r'. split; auto.
  intros HS. specialize (HS 0 [KStr] KOther Hi Hr). simpl in HS. destruct HS as [H|[]]. discriminate.
Qed.

(* the same modules with the evaluator as it is: Any *)
Lemma as_is_any :
  interface rebound_in_if 0 = Some IAny /\ interface rebound_in_for 0 = Some IAny /\ interface rebound_unpack 0 = Some IAny.
Proof. repeat split; reflexivity. Qed.

(* non-trivial instance: straight-line re-binding unions the types, an alias copies the type, a later branch resets only
   what it assigns; one run ends with x0 = None (kind in the union), x1 = a tuple, x2 reset, x3 = a def *)
Definition sample_module : stmt :=
  SSeq (SAssign 0 (EVal KStr true)) (SSeq (SAssign 0 (EVal KNone true)) (SSeq (SAssign 1 (EVal KTuple true))
  (SSeq (SAssign 2 (EVar 1)) (SSeq (SDef 3) (SIf (SAssign 2 (EVal KOther false)) SSkip))))).

Lemma sample_interface :
  interface sample_module 0 = Some (IKinds [KNone; KStr]) /\ interface sample_module 1 = Some (IKinds [KTuple]) /\
  interface sample_module 2 = Some IAny /\ interface sample_module 3 = Some (IKinds [KFn]) /\
  exists r', exec rempty sample_module r' /\ r' 0 = Some KNone /\ r' 1 = Some KTuple /\ r' 2 = Some KOther /\ r' 3 = Some KFn.
Proof.
  repeat split; try reflexivity.
  exists (rupd (rupd (rupd (rupd (rupd (rupd rempty 0 KStr) 0 KNone) 1 KTuple) 2 KTuple) 3 KFn) 2 KOther).
  split; [|repeat split; reflexivity].
  repeat (eapply X_seq; [first [apply X_assign; reflexivity | apply X_def]|]).
  apply X_if_then. apply X_assign; reflexivity.
Qed.
