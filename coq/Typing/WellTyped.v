(* C17: completeness of the model checker on the generator's typing rules (welltyped_no_error).

   `gty`      the generator's monomorphic types (tools/gen/progs.py: INT BOOL STR NONE list tuple dict);
   `wt G e t` the typing derivation the type-directed generator follows when it builds "an expression of static type t"
              (progs.Gen.expr / lit / nonempty_list / slice_of / list_comp / dict_comp, restricted to the constructs of the model);
   `compatb t T`  the checker's type T is acceptable for a generated expression of type t: for a scalar t, T is Never or contains
              the scalar; for a container t, T is Any or every alternative of T is that container with compatible components;
   `welltyped_no_error`: for a well-typed expression the model checker never records a diagnostic (IErr), and the type it
              commits to is compatible. *)
From Coq Require Import ZArith String Ascii List Bool Lia.
From SV Require Import Core.Syntax Core.Slice Ty.Spec Ty.Model Ty.Proofs Extracted.TypingC Typing.Model Typing.Proofs Typing.OpSound.
Import ListNotations.
Open Scope string_scope.
Open Scope list_scope.
Arguments u2 : simpl never.
Arguments us : simpl never.
Arguments inter : simpl never.
Arguments binter : simpl never.

(* ------------------------------------------------------------------------------------------------ *)
(* 1. generator types and compatibility *)
Inductive gty := GInt | GBool | GStr | GNone | GList (t : gty) | GTuple (ts : list gty) | GDict (k v : gty).

Lemma gty_ind' (P : gty -> Prop)
  (HInt : P GInt) (HBool : P GBool) (HStr : P GStr) (HNone : P GNone)
  (HList : forall t, P t -> P (GList t)) (HTuple : forall ts, Forall P ts -> P (GTuple ts))
  (HDict : forall k v, P k -> P v -> P (GDict k v)) : forall t, P t.
Proof.
  fix IH 1. intros [ | | | | t | ts | k v].
  - exact HInt.
  - exact HBool.
  - exact HStr.
  - exact HNone.
  - apply HList, IH.
  - apply HTuple. revert ts. fix IHl 1. intros [|a l]; constructor; [apply IH | apply IHl].
  - apply HDict; apply IH.
Qed.

(* the canonical value of a scalar generator type *)
Definition wit (t : gty) : value :=
  match t with GInt => VInt false | GBool => VBool | GStr => VStr | _ => VNone end.
Definition is_scalar_gty (t : gty) : bool := match t with GInt | GBool | GStr | GNone => true | _ => false end.

Fixpoint compatb (t : gty) (T : ty) {struct t} : bool :=
  match t with
  | GInt => is_never T || denote T (VInt false)
  | GBool => is_never T || denote T VBool
  | GStr => is_never T || denote T VStr
  | GNone => is_never T || denote T VNone
  | GList t' => is_any T || forallb (fun a => match a with TList T' => compatb t' T' | _ => false end) (alts T)
  | GTuple ts => is_any T || forallb (fun a => match a with TTuple Ts => forall2b compatb ts Ts | _ => false end) (alts T)
  | GDict k v => is_any T || forallb (fun a => match a with TDict K V => compatb k K && compatb v V | _ => false end) (alts T)
  end.

(* the alternatives a container type may have *)
Definition am (t : gty) (a : ty) : bool :=
  match t, a with
  | GList t', TList T' => compatb t' T'
  | GTuple ts, TTuple Ts => forall2b compatb ts Ts
  | GDict k v, TDict K V => compatb k K && compatb v V
  | _, _ => false
  end.

Lemma compatb_scalar t T : is_scalar_gty t = true -> compatb t T = is_never T || denote T (wit t).
Proof. destruct t; simpl; intro H; try discriminate; reflexivity. Qed.
Lemma compatb_container t T : is_scalar_gty t = false -> compatb t T = is_any T || forallb (am t) (alts T).
Proof.
  destruct t; simpl; intro H; try discriminate; f_equal; apply forallb_ext; intros a; destruct a; reflexivity.
Qed.

Lemma am_proper t a : am t a = true -> alts a = [a] /\ is_any a = false.
Proof. destruct t, a; simpl; intro H; try discriminate; split; reflexivity. Qed.

Lemma never_not_any T : is_never T = true -> is_any T = false.
Proof. unfold is_never, is_any. destruct (alts T); [reflexivity | discriminate]. Qed.

Lemma compat_any t T : is_any T = true -> compatb t T = true.
Proof.
  intro A. destruct (is_scalar_gty t) eqn:S.
  - rewrite compatb_scalar by exact S. rewrite (is_any_denote _ _ A). apply orb_true_r.
  - rewrite compatb_container by exact S. rewrite A. reflexivity.
Qed.
Lemma compat_never t T : is_never T = true -> compatb t T = true.
Proof.
  intro N. destruct (is_scalar_gty t) eqn:S.
  - rewrite compatb_scalar by exact S. rewrite N. reflexivity.
  - rewrite compatb_container by exact S. unfold is_never in N. destruct (alts T); [|discriminate]. apply orb_true_r.
Qed.
Lemma compat_alone t a : am t a = true -> compatb t a = true.
Proof.
  intro H. assert (S : is_scalar_gty t = false) by (destruct t; try reflexivity; destruct a; discriminate H).
  rewrite compatb_container by exact S. destruct (am_proper _ _ H) as [E _]. rewrite E. simpl. rewrite H. apply orb_true_r.
Qed.
Lemma compat_alts t T : is_scalar_gty t = false -> compatb t T = true -> is_any T = false -> forallb (am t) (alts T) = true.
Proof. intros S H A. rewrite compatb_container in H by exact S. rewrite A in H. exact H. Qed.

(* ------------------------------------------------------------------------------------------------ *)
(* 2. Ty::unions keeps compatibility when every member is compatible *)
Lemma skip_never_all xs : forallb is_never xs = true -> skip_never xs = [].
Proof. induction xs as [|x xs IH]; simpl; [reflexivity|]. intro H. apply andb_prop in H. destruct H as [H1 H2]. rewrite H1. auto. Qed.
Lemma skip_never_incl xs x : In x (skip_never xs) -> In x xs.
Proof.
  induction xs as [|y xs IH]; simpl; [auto|]. destruct (is_never y); [intro H; right; auto | auto].
Qed.

Lemma unions_all_never fuel xs : forallb is_never xs = true -> unions fuel xs = TNever.
Proof.
  intro H. assert (A : existsb is_any xs = false).
  { destruct (existsb is_any xs) eqn:E; [|reflexivity]. apply existsb_exists in E. destruct E as [x [Hin Ax]].
    rewrite forallb_forall in H. rewrite (never_not_any _ (H x Hin)) in Ax. discriminate. }
  destruct fuel; simpl; unfold unions_body; rewrite A, (skip_never_all _ H); reflexivity.
Qed.

Lemma unions_scalar fuel xs w :
  forallb (fun T => is_never T || denote T w) xs = true -> is_never (unions fuel xs) || denote (unions fuel xs) w = true.
Proof.
  intro H. destruct (existsb (fun T => denote T w) xs) eqn:E.
  - rewrite (unions_widen fuel xs w E). apply orb_true_r.
  - assert (N : forallb is_never xs = true).
    { apply forallb_forall. intros x Hin. rewrite forallb_forall in H. specialize (H x Hin).
      destruct (denote x w) eqn:D; [|rewrite orb_false_r in H; exact H].
      assert (X : existsb (fun T => denote T w) xs = true) by (apply existsb_exists; exists x; auto). rewrite X in E. discriminate. }
    rewrite (unions_all_never fuel xs N). reflexivity.
Qed.

Section MergeCompat.
  Variable u : ty -> ty -> ty.
  Hypothesis Hu : forall t a b, compatb t a = true -> compatb t b = true -> compatb t (u a b) = true.

  Lemma merge2_am t x y m : am t x = true -> am t y = true -> merge2 u x y = Some m -> am t m = true.
  Proof.
    destruct t, x; simpl; intro Hx; try discriminate; destruct y; simpl; intros Hy E; try discriminate; inversion E; subst; simpl.
    - apply Hu; assumption.
    - apply andb_prop in Hx. apply andb_prop in Hy. destruct Hx, Hy. rewrite !Hu; auto.
  Qed.
  Lemma merge_adj_am t : forall xs last, am t last = true -> forallb (am t) xs = true -> forallb (am t) (merge_adj u last xs) = true.
  Proof.
    induction xs as [|x xs IH]; intros last Hl Hxs; simpl.
    - rewrite Hl. reflexivity.
    - simpl in Hxs. apply andb_prop in Hxs. destruct Hxs as [Hx Hxs].
      destruct (merge2 u last x) as [m|] eqn:E.
      + apply IH; [|exact Hxs]. exact (merge2_am t last x m Hl Hx E).
      + simpl. rewrite Hl. apply IH; assumption.
  Qed.
  Lemma merge_adjacent_am t xs : forallb (am t) xs = true -> forallb (am t) (merge_adjacent u xs) = true.
  Proof.
    destruct xs as [|x xs]; [reflexivity|]. simpl. intro H. apply andb_prop in H. destruct H. apply merge_adj_am; assumption.
  Qed.
End MergeCompat.

Lemma mk_ty_am t xs : is_scalar_gty t = false -> forallb (am t) xs = true -> compatb t (mk_ty xs) = true.
Proof.
  intros S H. destruct xs as [|a [|b l]].
  - apply compat_never. reflexivity.
  - simpl in *. rewrite andb_true_r in H. apply compat_alone. exact H.
  - rewrite compatb_container by exact S. change (alts (mk_ty (a :: b :: l))) with (a :: b :: l). rewrite H. apply orb_true_r.
Qed.

Lemma unions_body_container t u2 xs :
  is_scalar_gty t = false ->
  (forall u, u2 = Some u -> forall t a b, compatb t a = true -> compatb t b = true -> compatb t (u a b) = true) ->
  forallb (compatb t) xs = true -> compatb t (unions_body u2 xs) = true.
Proof.
  intros S Hu H. unfold unions_body. destruct (existsb is_any xs) eqn:A; [apply compat_any; reflexivity|].
  apply existsb_false_all in A. rewrite Forall_forall in A. rewrite forallb_forall in H.
  assert (Q : forall x, In x xs -> forallb (am t) (alts x) = true).
  { intros x Hin. apply compat_alts; [exact S | apply H; exact Hin | apply A; exact Hin]. }
  destruct (skip_never xs) as [|x0 r0] eqn:E0; [apply compat_never; reflexivity|].
  assert (I0 : forall x, In x (x0 :: r0) -> In x xs) by (intros x Hx; apply skip_never_incl; rewrite E0; exact Hx).
  destruct (skip_never r0) as [|x1 rest] eqn:E1; [apply H, I0; left; reflexivity|].
  assert (I1 : forall x, In x (x1 :: rest) -> In x xs).
  { intros x Hx. apply I0. right. apply skip_never_incl. rewrite E1. exact Hx. }
  match goal with |- compatb t (if ?c then _ else _) = true => destruct c end; [apply H, I0; left; reflexivity|].
  assert (F : forallb (am t) (dedup (sort (flat_map alts (x0 :: x1 :: rest)))) = true).
  { apply dedup_forallb. rewrite sort_forallb, forallb_flat_map. apply forallb_forall. intros x Hx. apply Q.
    destruct Hx as [<-|Hx]; [apply I0; left; reflexivity | apply I1; exact Hx]. }
  apply mk_ty_am; [exact S|]. destruct u2 as [u|]; [|exact F]. apply merge_adjacent_am; [|exact F]. apply Hu. reflexivity.
Qed.

Lemma unions_compat : forall fuel t xs, forallb (compatb t) xs = true -> compatb t (unions fuel xs) = true.
Proof.
  induction fuel as [|f IH]; intros t xs H.
  - destruct (is_scalar_gty t) eqn:S.
    + rewrite compatb_scalar by exact S. apply unions_scalar. erewrite forallb_ext; [exact H|].
      intro x. symmetry. apply compatb_scalar. exact S.
    + simpl. apply unions_body_container; [exact S | intros u E; discriminate E | exact H].
  - destruct (is_scalar_gty t) eqn:S.
    + rewrite compatb_scalar by exact S. apply unions_scalar. erewrite forallb_ext; [exact H|].
      intro x. symmetry. apply compatb_scalar. exact S.
    + simpl. apply unions_body_container; [exact S | | exact H].
      intros u E. inversion E; subst. intros t' a b Ca Cb. apply IH. simpl. rewrite Ca, Cb. reflexivity.
Qed.

Lemma us_compat t ts : forallb (compatb t) ts = true -> compatb t (us ts) = true.
Proof. unfold us, unions_top. apply unions_compat. Qed.
Lemma u2_compat t a b : compatb t a = true -> compatb t b = true -> compatb t (u2 a b) = true.
Proof. intros Ha Hb. unfold u2. apply (us_compat t [a; b]). simpl. rewrite Ha, Hb. reflexivity. Qed.

(* ------------------------------------------------------------------------------------------------ *)
(* 3. compatible types intersect (TypingOracleCtx::intersects), also after widen_numeric *)
Lemma wf_never T : wf T -> is_never T = true -> T = TNever.
Proof.
  intros W N. destruct T; try discriminate N; [reflexivity|]. destruct ts; [|discriminate N]. unfold wf in W. discriminate W.
Qed.
Lemma wf_any T : wf T -> is_any T = true -> T = TAny.
Proof.
  intros W A. destruct T; try discriminate A; [reflexivity|].
  destruct ts as [|x [|y r]]; try discriminate A; [unfold wf in W; discriminate W | destruct x; discriminate A].
Qed.

Definition gbase (t : gty) : base := match t with GInt => BInt | GBool => BBool | GStr => BStr | _ => BNone end.
Lemma scalar_alt t T : is_scalar_gty t = true -> wf T -> is_any T = false -> denote T (wit t) = true -> In (TBase (gbase t)) (alts T).
Proof.
  intros S W A D. destruct (wf_alt_of T _ W D) as [A' | [_ [a (Hin & Da & Ba & _)]]]; [congruence|].
  assert (a = TBase (gbase t)); [|subst; exact Hin].
  destruct t; try discriminate S; destruct a as [| |[]| | |?|?|?|? ?|?|?|?|?]; try discriminate Ba; try discriminate Da; reflexivity.
Qed.

Lemma base_inter_refl rec b : basic_inter rec (TBase b) (TBase b) = true.
Proof. unfold basic_inter. destruct b; reflexivity. Qed.

Lemma inter_compat : forall fuel t A B, wf A -> wf B -> compatb t A = true -> compatb t B = true -> intersects fuel A B = true.
Proof.
  induction fuel as [|f IH]; intros t A B WA WB CA CB; [reflexivity|]. cbn [intersects].
  destruct (is_any A) eqn:AA; [reflexivity|]. destruct (is_never A) eqn:NA; [reflexivity|].
  destruct (is_any B) eqn:AB; [reflexivity|]. destruct (is_never B) eqn:NB; [reflexivity|]. cbn [orb].
  destruct (is_scalar_gty t) eqn:S.
  - rewrite compatb_scalar in CA, CB by exact S. rewrite NA in CA. rewrite NB in CB. simpl in CA, CB.
    apply existsb_exists. exists (TBase (gbase t)). split; [apply scalar_alt; assumption|].
    apply existsb_exists. exists (TBase (gbase t)). split; [apply scalar_alt; assumption|]. apply base_inter_refl.
  - pose proof (compat_alts t A S CA AA) as FA. pose proof (compat_alts t B S CB AB) as FB.
    unfold is_never in NA, NB. destruct (alts A) as [|a0 ra] eqn:EA; [discriminate|]. destruct (alts B) as [|b0 rb] eqn:EB; [discriminate|].
    simpl in FA, FB. apply andb_prop in FA. apply andb_prop in FB. destruct FA as [Fa _]. destruct FB as [Fb _].
    assert (Wa : wf a0) by (apply (wf_alts A); [exact WA | rewrite EA; left; reflexivity]).
    assert (Wb : wf b0) by (apply (wf_alts B); [exact WB | rewrite EB; left; reflexivity]).
    simpl. apply orb_true_iff. left. apply orb_true_iff. left.
    destruct t; try discriminate S; destruct a0; try discriminate Fa; destruct b0; try discriminate Fb; simpl in Fa, Fb; unfold basic_inter.
    + rewrite (IH t a0 b0 Wa Wb Fa Fb). apply orb_true_r.
    + apply orb_true_iff. right. unfold wf in Wa, Wb. simpl in Wa, Wb.
      clear - IH Fa Fb Wa Wb. revert ts0 ts1 Fa Fb Wa Wb. induction ts as [|t ts IHts]; intros [|x xs] [|y ys] Fa Fb Wa Wb; simpl in *; try discriminate; [reflexivity|].
      apply andb_prop in Fa. apply andb_prop in Fb. apply andb_prop in Wa. apply andb_prop in Wb.
      destruct Fa, Fb, Wa, Wb. rewrite (IH t x y); auto. simpl. apply IHts; assumption.
    + apply andb_prop in Fa. apply andb_prop in Fb. destruct Fa, Fb. unfold wf in Wa, Wb. simpl in Wa, Wb.
      apply andb_prop in Wa. apply andb_prop in Wb. destruct Wa, Wb.
      rewrite (IH t1 a0_1 b0_1), (IH t2 a0_2 b0_2); auto. apply orb_true_r.
Qed.

Lemma forallb_Forall {A} (f : A -> bool) l : forallb f l = true <-> Forall (fun x => f x = true) l.
Proof. rewrite forallb_forall, Forall_forall. reflexivity. Qed.

Lemma widen_wf : forall T, wf T -> wf (widen T).
Proof.
  unfold wf. induction T using ty_ind'; intro W; try exact W; simpl.
  - destruct b; reflexivity.
  - apply IHT. exact W.
  - simpl in W. rewrite forallb_map. apply forallb_forall. intros x Hx. rewrite Forall_forall in H. apply H; [exact Hx|].
    rewrite forallb_forall in W. apply W. exact Hx.
  - apply IHT. exact W.
  - simpl in W. apply andb_prop in W. destruct W. rewrite IHT1, IHT2; auto.
  - apply IHT. exact W.
  - apply us_wf. rewrite Forall_forall. intros x Hx. apply in_map_iff in Hx. destruct Hx as [y [<- Hy]].
    rewrite Forall_forall in H. apply H; [exact Hy|]. apply (wf_alts (TUnion ts)); [exact W | exact Hy].
Qed.

Lemma widen_denote : forall T v, denote T v = true -> denote (widen T) v = true.
Proof.
  induction T using ty_ind'; intros v D; try exact D; simpl.
  - destruct b; try exact D; simpl in *; rewrite D; rewrite ?orb_true_r; reflexivity.
  - simpl in D. destruct v; try discriminate. revert D. apply forallb_impl. apply IHT.
  - simpl in D. destruct v; try discriminate. revert vs D. induction H as [|t ts Ht _ IHl]; intros [|w ws] D; simpl in *; try discriminate; [reflexivity|].
    apply andb_prop in D. destruct D as [D1 D2]. rewrite (Ht _ D1), (IHl _ D2). reflexivity.
  - simpl in D. destruct v; try discriminate. revert D. apply forallb_impl. apply IHT.
  - simpl in D. destruct v; try discriminate. revert D. apply forallb_impl. intros [a b] Hab. simpl in *.
    apply andb_prop in Hab. destruct Hab as [H1 H2]. rewrite (IHT1 _ H1), (IHT2 _ H2). reflexivity.
  - simpl in D. destruct v; try discriminate. revert D. apply forallb_impl. apply IHT.
  - simpl in D. apply existsb_exists in D. destruct D as [t [Hin Dt]]. rewrite Forall_forall in H.
    apply (us_in (map widen ts) (widen t)); [apply in_map; exact Hin | apply H; assumption].
Qed.

Lemma widen_compat : forall t T, wf T -> compatb t T = true -> compatb t (widen T) = true.
Proof.
  induction t using gty_ind'; intros T W C;
    try (match goal with |- compatb ?g _ = true => assert (S : is_scalar_gty g = true) by reflexivity end;
         rewrite compatb_scalar in * by exact S; apply orb_prop in C; destruct C as [N|D];
         [rewrite (wf_never T W N); reflexivity | rewrite (widen_denote _ _ D); apply orb_true_r]).
  - (* list *)
    destruct (is_any T) eqn:A; [rewrite (wf_any T W A); reflexivity|].
    assert (One : forall a, am (GList t) a = true -> wf a -> compatb (GList t) (widen a) = true).
    { intros a Ha Wa. destruct a; try discriminate Ha. simpl in Ha. apply (compat_alone (GList t) (TList (widen a))). simpl. apply IHt; assumption. }
    pose proof (compat_alts (GList t) T eq_refl C A) as F.
    destruct T; simpl in F; try discriminate F.
    + reflexivity.
    + apply One; [rewrite andb_true_r in F; exact F | exact W].
    + cbn [widen]. apply us_compat. rewrite forallb_map. apply forallb_forall. intros x Hx. rewrite forallb_forall in F.
      apply One; [apply F; exact Hx | apply (wf_alts (TUnion ts)); [exact W | exact Hx]].
  - (* tuple *)
    destruct (is_any T) eqn:A; [rewrite (wf_any T W A); reflexivity|].
    assert (One : forall a, am (GTuple ts) a = true -> wf a -> compatb (GTuple ts) (widen a) = true).
    { intros a Ha Wa. destruct a; try discriminate Ha. simpl in Ha. apply (compat_alone (GTuple ts) (TTuple (map widen ts0))). simpl.
      unfold wf in Wa. simpl in Wa. clear C A. revert ts0 Ha Wa. induction H as [|t ts Ht _ IHl]; intros [|x xs] Ha Wa; simpl in *; try discriminate; [reflexivity|].
      apply andb_prop in Ha. apply andb_prop in Wa. destruct Ha, Wa. rewrite Ht, IHl; auto. }
    pose proof (compat_alts (GTuple ts) T eq_refl C A) as F.
    destruct T; simpl in F; try discriminate F.
    + reflexivity.
    + apply One; [rewrite andb_true_r in F; exact F | exact W].
    + cbn [widen]. apply us_compat. rewrite forallb_map. apply forallb_forall. intros x Hx. rewrite forallb_forall in F.
      apply One; [apply F; exact Hx | apply (wf_alts (TUnion ts0)); [exact W | exact Hx]].
  - (* dict *)
    destruct (is_any T) eqn:A; [rewrite (wf_any T W A); reflexivity|].
    assert (One : forall a, am (GDict t1 t2) a = true -> wf a -> compatb (GDict t1 t2) (widen a) = true).
    { intros a Ha Wa. destruct a; try discriminate Ha. simpl in Ha. apply (compat_alone (GDict t1 t2) (TDict (widen a1) (widen a2))). simpl.
      apply andb_prop in Ha. unfold wf in Wa. simpl in Wa. apply andb_prop in Wa. destruct Ha, Wa. rewrite IHt1, IHt2; auto. }
    pose proof (compat_alts (GDict t1 t2) T eq_refl C A) as F.
    destruct T; simpl in F; try discriminate F.
    + reflexivity.
    + apply One; [rewrite andb_true_r in F; exact F | exact W].
    + cbn [widen]. apply us_compat. rewrite forallb_map. apply forallb_forall. intros x Hx. rewrite forallb_forall in F.
      apply One; [apply F; exact Hx | apply (wf_alts (TUnion ts)); [exact W | exact Hx]].
Qed.

Lemma eq_inter_compat t A B : wf A -> wf B -> compatb t A = true -> compatb t B = true -> inter B (widen A) = true.
Proof.
  intros WA WB CA CB. unfold inter. apply (inter_compat 12 t); [exact WB | apply widen_wf; exact WA | exact CB | apply widen_compat; assumption].
Qed.

(* ------------------------------------------------------------------------------------------------ *)
(* 4. the generator's typing rules (tools/gen/progs.py Gen.expr: "an expression of static type t") *)
Definition genv := list (string * gty).
Definition gsig := (list gty * nat * gty)%type.            (* parameter types, number without default, result *)
Definition gsigs := list (string * gsig).

Definition cmp_op (o : binop) : bool := match o with BLt | BLe | BGt | BGe => true | _ => false end.
Definition eq_op (o : binop) : bool := match o with BEq | BNe => true | _ => false end.
Definition in_op (o : binop) : bool := match o with BIn | BNotIn => true | _ => false end.
Definition call1 (f : string) (args : list expr) : expr := ECall (EVar f) args [] None None.

(* result type of the builtins the generator calls, by argument types *)
Definition builtin_gty (f : string) (ts : list gty) : option gty :=
  match ts with
  | [t] =>
      if String.eqb f "len" then (match t with GStr | GList _ | GTuple _ | GDict _ _ => Some GInt | _ => None end)
      else if String.eqb f "str" then Some GStr
      else if String.eqb f "bool" then Some GBool
      else if String.eqb f "int" then (match t with GStr | GInt | GBool => Some GInt | _ => None end)
      else if String.eqb f "abs" then (match t with GInt => Some GInt | _ => None end)
      else if String.eqb f "any" || String.eqb f "all" then (match t with GList _ => Some GBool | _ => None end)
      else if String.eqb f "min" || String.eqb f "max" then (match t with GList GInt => Some GInt | _ => None end)
      else if String.eqb f "sorted" then (match t with GList _ => Some t | _ => None end)
      else None
  | _ => None
  end.

Section Rules.
  Variable G : genv.
  Variable GS : gsigs.

  Inductive wt : expr -> gty -> Prop :=
  | W_none : wt ENone GNone
  | W_bool b : wt (EBool b) GBool
  | W_int z : wt (EInt z) GInt
  | W_str s : wt (EStr s) GStr
  | W_var x t : lookup x G = Some t -> wt (EVar x) t
  | W_list es t : Forall (fun e => wt e t) es -> wt (EList es) (GList t)
  | W_tuple es ts : Forall2 wt es ts -> wt (ETuple es) (GTuple ts)
  | W_dict kvs k v : Forall (fun kv => wt (fst kv) k /\ wt (snd kv) v) kvs -> wt (EDict kvs) (GDict k v)
  | W_if c a b tc t : wt c tc -> wt a t -> wt b t -> wt (EIf c a b) t
  | W_and a b t : wt a t -> wt b t -> wt (EAnd a b) t
  | W_or a b t : wt a t -> wt b t -> wt (EOr a b) t
  | W_not a t : wt a t -> wt (EUn UNot a) GBool
  | W_not_and a b t1 t2 : wt a t1 -> wt b t2 -> wt (EUn UNot (EAnd a b)) GBool      (* not (x and c): operands of different types *)
  | W_not_or a b t1 t2 : wt a t1 -> wt b t2 -> wt (EUn UNot (EOr a b)) GBool
  | W_un o a : o <> UNot -> wt a GInt -> wt (EUn o a) GInt
  | W_arith o a b : arith_of o = true -> wt a GInt -> wt b GInt -> wt (EBin o a b) GInt
  | W_cmp o a b t : cmp_op o = true -> wt a t -> wt b t -> wt (EBin o a b) GBool
  | W_eq o a b t : eq_op o = true -> wt a t -> wt b t -> wt (EBin o a b) GBool
  | W_in o a b ta tb : in_op o = true -> wt a ta -> wt b tb -> wt (EBin o a b) GBool
  | W_str_add a b : wt a GStr -> wt b GStr -> wt (EBin BAdd a b) GStr
  | W_str_mul a b : wt a GStr -> wt b GInt -> wt (EBin BMul a b) GStr
  | W_list_add a b t : wt a (GList t) -> wt b (GList t) -> wt (EBin BAdd a b) (GList t)
  | W_list_mul a b t : wt a (GList t) -> wt b GInt -> wt (EBin BMul a b) (GList t)
  | W_tuple_add a b ts1 ts2 : wt a (GTuple ts1) -> wt b (GTuple ts2) -> wt (EBin BAdd a b) (GTuple (ts1 ++ ts2))
  | W_index a i t : wt a (GList t) -> wt i GInt -> wt (EIndex a i) t
  | W_slice a lo hi st t : (t = GStr \/ exists t', t = GList t') -> wt a t -> wt_opt lo -> wt_opt hi -> wt_opt st ->
                           wt (ESlice a lo hi st) t
  | W_builtin f a ta t : builtin_gty f [ta] = Some t -> wt a ta -> wt (call1 f [a]) t
  | W_list_copy a t : wt a (GList t) -> wt (call1 "list" [a]) (GList t)
  | W_list_range args : Forall (fun a => wt a GInt) args -> wt (call1 "list" [call1 "range" args]) (GList GInt)
  | W_call f args ps n r used rest :
      lookup f GS = Some (ps, n, r) -> ps = used ++ rest -> Forall2 wt args used -> (n <= length args)%nat ->
      wt (call1 f args) r
  | W_listcomp body cls t : Forall wtc cls -> wt body t -> wt (EListComp body cls) (GList t)
  | W_dictcomp k v cls tk tv : Forall wtc cls -> wt k tk -> wt v tv -> wt (EDictComp k v cls) (GDict tk tv)
  with wt_opt : option expr -> Prop :=
  | WO_none : wt_opt None
  | WO_some e : wt e GInt -> wt_opt (Some e)
  with wtc : clause -> Prop :=
  | WC_for tg e t : wt e (GList t) -> wtc (CFor tg e)
  | WC_for_range tg args : Forall (fun a => wt a GInt) args -> wtc (CFor tg (call1 "range" args))
  | WC_if e t : wt e t -> wtc (CIf e).
End Rules.

(* ------------------------------------------------------------------------------------------------ *)
(* 5. per-rule lemmas on types *)
Definition okres (t : gty) (r : ires) : Prop :=
  match r with IOk T => compatb t T = true | IUnk => True | IErr => False end.

Lemma okres_never t : okres t (IOk TNever).
Proof. apply compat_never. reflexivity. Qed.

Lemma bin_op_ty_no_err fixmul op ta tb : bin_op_ty fixmul op ta tb <> IErr.
Proof.
  unfold bin_op_ty. destruct (is_never ta || is_never tb) eqn:N; [destruct (always_bool op); discriminate|].
  apply orb_false_elim in N. destruct N as [Na Nb].
  set (rs := flat_map (fun a => map (fun b => bin_basic fixmul op a b) (alts tb)) (alts ta)).
  destruct (existsb is_bunk rs) eqn:U; [discriminate|].
  unfold is_never in Na, Nb. destruct (alts ta) as [|a ra] eqn:Ea; [discriminate|]. destruct (alts tb) as [|b rb] eqn:Eb; [discriminate|].
  assert (Hin : In (bin_basic fixmul op a b) rs) by (unfold rs; simpl; left; reflexivity).
  destruct (bin_basic fixmul op a b) as [r|] eqn:E.
  - apply goods_in in Hin. destruct (goods rs); [destruct Hin|]. destruct (always_bool op); discriminate.
  - assert (X : existsb is_bunk rs = true) by (apply existsb_exists; exists BUnk; split; [exact Hin | reflexivity]). congruence.
Qed.

(* a result of expr_bin_op_ty is compatible when the result of every pair of alternatives is *)
Lemma bin_op_ty_all fixmul op ta tb t g :
  always_bool op = false ->
  (forall a b r, In a (alts ta) -> In b (alts tb) -> bin_basic fixmul op a b = BOk r -> compatb g r = true) ->
  bin_op_ty fixmul op ta tb = IOk t -> compatb g t = true.
Proof.
  intros B Hall H. unfold bin_op_ty in H. rewrite B in H.
  destruct (is_never ta || is_never tb); [inversion H; apply compat_never; reflexivity|].
  destruct (existsb is_bunk _); [discriminate|]. destruct (goods _) as [|g0 gs] eqn:E; [discriminate|]. inversion H; subst.
  apply us_compat. apply forallb_forall. intros r Hr. rewrite <- E in Hr. apply goods_inv in Hr.
  apply in_flat_map in Hr. destruct Hr as [a [Ha Hr]]. apply in_map_iff in Hr. destruct Hr as [b [Hb Hin]]. eapply Hall; eassumption.
Qed.

Lemma okres_bin_all fixmul op ta tb g :
  always_bool op = false ->
  (forall a b r, In a (alts ta) -> In b (alts tb) -> bin_basic fixmul op a b = BOk r -> compatb g r = true) ->
  okres g (bin_op_ty fixmul op ta tb).
Proof.
  intros B Hall. destruct (bin_op_ty fixmul op ta tb) as [t| |] eqn:E; simpl; [|exact (bin_op_ty_no_err _ _ _ _ E) | exact I].
  eapply bin_op_ty_all; eassumption.
Qed.

(* scalar results: one pair of alternatives that holds the canonical operands is enough *)
Lemma okres_bin_scalar fixmul op ta tb g wa wb :
  is_scalar_gty g = true -> always_bool op = false -> wf ta -> wf tb ->
  (is_never ta || denote ta wa = true) -> (is_never tb || denote tb wb = true) ->
  (forall a b r, denote a wa = true -> denote b wb = true -> bin_basic fixmul op a b = BOk r -> denote r (wit g) = true) ->
  okres g (bin_op_ty fixmul op ta tb).
Proof.
  intros S B Wa Wb Ca Cb Hp. destruct (bin_op_ty fixmul op ta tb) as [t| |] eqn:E; simpl; [|exact (bin_op_ty_no_err _ _ _ _ E) | exact I].
  rewrite compatb_scalar by exact S.
  destruct (is_never ta) eqn:Na.
  { unfold bin_op_ty in E. rewrite Na, B in E. simpl in E. inversion E; reflexivity. }
  destruct (is_never tb) eqn:Nb.
  { unfold bin_op_ty in E. rewrite Na, Nb, B in E. simpl in E. inversion E; reflexivity. }
  simpl in Ca, Cb.
  destruct (alts_denote _ _ Ca) as [a [Ha Da]]. destruct (alts_denote _ _ Cb) as [b [Hb Db]].
  destruct (bin_op_ty_pair _ _ _ _ _ a b _ _ E B Ca Cb Ha Hb) as (r & Hr & Sub).
  rewrite (Sub _ (Hp a b r Da Db Hr)). apply orb_true_r.
Qed.

Lemma int_int_contains fixmul o op a b r :
  tbop_of o = Some op -> arith_of o = true -> denote a (VInt false) = true -> denote b (VInt false) = true ->
  bin_basic fixmul op a b = BOk r -> denote r (VInt false) = true.
Proof.
  intros Ho Ao Da Db H.
  destruct (den_int _ _ Da) as [->|[->|[ts ->]]]; [inversion H; reflexivity | | discriminate].
  destruct (den_int _ _ Db) as [->|[->|[ts ->]]]; [| | discriminate];
    destruct o; try discriminate; inversion Ho; subst; simpl in H; destruct fixmul; simpl in *; inversion H; reflexivity.
Qed.

Lemma okres_arith fixmul o ta tb :
  arith_of o = true -> wf ta -> wf tb -> compatb GInt ta = true -> compatb GInt tb = true ->
  okres GInt (expr_bin_op fixmul o ta tb).
Proof.
  intros Ao Wa Wb Ca Cb.
  assert (exists op, tbop_of o = Some op /\ always_bool op = false /\ expr_bin_op fixmul o ta tb = bin_op_ty fixmul op ta tb) as (op & Ho & B & ->).
  { destruct o; try discriminate; eexists; repeat split. }
  apply (okres_bin_scalar fixmul op ta tb GInt (VInt false) (VInt false)); auto.
  intros a b r Da Db H. exact (int_int_contains fixmul o op a b r Ho Ao Da Db H).
Qed.

Lemma okres_bool fixmul op ta tb : always_bool op = true -> okres GBool (bin_op_ty fixmul op ta tb).
Proof.
  intro B. destruct (bin_op_ty fixmul op ta tb) as [t| |] eqn:E; simpl; [|exact (bin_op_ty_no_err _ _ _ _ E) | exact I].
  rewrite (bin_op_ty_bool _ _ _ _ _ B E). reflexivity.
Qed.

Lemma okres_eq fixmul o ta tb g :
  eq_op o = true -> wf ta -> wf tb -> compatb g ta = true -> compatb g tb = true -> okres GBool (expr_bin_op fixmul o ta tb).
Proof.
  intros Eo Wa Wb Ca Cb.
  assert (E : expr_bin_op fixmul o ta tb = if inter tb (widen ta) then IOk (if is_never ta || is_never tb then TNever else tbool) else IErr)
    by (destruct o; try discriminate; reflexivity).
  rewrite E, (eq_inter_compat g ta tb Wa Wb Ca Cb). simpl. destruct (is_never ta || is_never tb); reflexivity.
Qed.

Lemma okres_str fixmul op ta tb :
  (op = TAdd \/ op = TMul) -> wf ta -> wf tb -> compatb GStr ta = true -> okres GStr (bin_op_ty fixmul op ta tb).
Proof.
  intros Ho Wa Wb Ca.
  destruct (is_never tb) eqn:Nb.
  { unfold bin_op_ty. rewrite Nb, orb_true_r. destruct Ho as [-> | ->]; apply okres_never. }
  assert (Db : exists wb, denote tb wb = true \/ True) by (exists VNone; right; exact I). clear Db.
  destruct (bin_op_ty fixmul op ta tb) as [t| |] eqn:E; simpl; [|exact (bin_op_ty_no_err _ _ _ _ E) | exact I].
  assert (B : always_bool op = false) by (destruct Ho as [-> | ->]; reflexivity).
  destruct (is_never ta) eqn:Na.
  { unfold bin_op_ty in E. rewrite Na, B in E. simpl in E. inversion E; reflexivity. }
  simpl in Ca. rewrite Na in Ca. simpl in Ca.
  (* every pair whose left alternative holds a string answers Any; the union with anything is then compatible *)
  destruct (alts_denote _ _ Ca) as [a [Ha Da]].
  unfold bin_op_ty in E. rewrite Na, Nb, B in E. simpl in E.
  destruct (existsb is_bunk _) eqn:U; [discriminate|]. destruct (goods _) as [|g0 gs] eqn:G; [discriminate|]. inversion E; subst.
  unfold is_never in Nb. destruct (alts tb) as [|b rb] eqn:Eb; [discriminate|].
  assert (Hin : In (bin_basic fixmul op a b) (flat_map (fun a => map (fun b => bin_basic fixmul op a b) (b :: rb)) (alts ta))).
  { apply in_flat_map. exists a. split; [exact Ha | left; reflexivity]. }
  assert (R : bin_basic fixmul op a b = BOk TAny \/ bin_basic fixmul op a b = BUnk).
  { destruct (den_str _ Da) as [->|[->|[ts ->]]]; [left; reflexivity | | right; reflexivity].
    destruct Ho as [-> | ->]; left; reflexivity. }
  destruct R as [R|R]; rewrite R in Hin.
  - apply goods_in in Hin. rewrite G in Hin. simpl. rewrite (us_in _ _ VStr Hin eq_refl). apply orb_true_r.
  - exfalso. assert (X : existsb is_bunk (flat_map (fun a => map (fun b => bin_basic fixmul op a b) (b :: rb)) (alts ta)) = true)
      by (apply existsb_exists; exists BUnk; split; [exact Hin | reflexivity]). congruence.
Qed.

Lemma list_alt g T a : compatb (GList g) T = true -> is_any T = false -> In a (alts T) -> exists e, a = TList e /\ compatb g e = true.
Proof.
  intros C A Hin. pose proof (compat_alts (GList g) T eq_refl C A) as F. rewrite forallb_forall in F. specialize (F a Hin).
  destruct a; try discriminate F. eauto.
Qed.
Lemma any_alts T : is_any T = true -> alts T = [TAny].
Proof. unfold is_any. destruct (alts T) as [|[] [|? ?]]; intro H; try discriminate; reflexivity. Qed.
Lemma compat_TAny g : compatb g TAny = true.
Proof. apply compat_any. reflexivity. Qed.

(* the alternatives of a type compatible with list[g]: Any, or list[e] with e compatible *)
Lemma list_alt' g T a : compatb (GList g) T = true -> In a (alts T) -> a = TAny \/ exists e, a = TList e /\ compatb g e = true.
Proof.
  intros C Hin. destruct (is_any T) eqn:A.
  - rewrite (any_alts T A) in Hin. destruct Hin as [<-|[]]. left; reflexivity.
  - right. eapply list_alt; eassumption.
Qed.

Lemma okres_list_add fixmul ta tb g :
  compatb (GList g) ta = true -> compatb (GList g) tb = true -> okres (GList g) (bin_op_ty fixmul TAdd ta tb).
Proof.
  intros Ca Cb. apply okres_bin_all; [reflexivity|]. intros a b r Ha Hb H.
  destruct (list_alt' g ta a Ca Ha) as [->|[e [-> Ce]]]; [inversion H; apply compat_TAny|].
  destruct (list_alt' g tb b Cb Hb) as [->|[f [-> Cf]]]; simpl in H; inversion H; subst.
  - apply (compat_alone (GList g) (TList TAny)). simpl. apply compat_TAny.
  - apply (compat_alone (GList g) (TList (u2 e f))). simpl. apply u2_compat; assumption.
Qed.

Lemma okres_list_mul fixmul ta tb g :
  compatb (GList g) ta = true -> okres (GList g) (bin_op_ty fixmul TMul ta tb).
Proof.
  intros Ca. apply okres_bin_all; [reflexivity|]. intros a b r Ha Hb H.
  destruct (list_alt' g ta a Ca Ha) as [->|[e [-> Ce]]]; [inversion H; apply compat_TAny|].
  simpl in H. destruct b as [| |[]| | |?|?|?|? ?|?|?|?|?]; try discriminate; inversion H; subst;
    apply (compat_alone (GList g) (TList e)); exact Ce.
Qed.

Lemma tuple_alt' gs T a : compatb (GTuple gs) T = true -> In a (alts T) -> a = TAny \/ exists ts, a = TTuple ts.
Proof.
  intros C Hin. destruct (is_any T) eqn:A.
  - rewrite (any_alts T A) in Hin. destruct Hin as [<-|[]]. left; reflexivity.
  - right. pose proof (compat_alts (GTuple gs) T eq_refl C A) as F. rewrite forallb_forall in F. specialize (F a Hin).
    destruct a; try discriminate F. eauto.
Qed.
Lemma okres_tuple_add fixmul ta tb gs1 gs :
  compatb (GTuple gs1) ta = true -> okres (GTuple gs) (bin_op_ty fixmul TAdd ta tb).
Proof.
  intros Ca. apply okres_bin_all; [reflexivity|]. intros a b r Ha Hb H.
  destruct (tuple_alt' gs1 ta a Ca Ha) as [->|[ts ->]]; inversion H; apply compat_TAny.
Qed.

(* union_simple on a scalar: the alternative that holds the canonical value must succeed *)
Lemma union_simple_scalar f T g g' :
  is_scalar_gty g = true -> is_scalar_gty g' = true -> wf T -> compatb g T = true ->
  (forall a, is_basic_nonany a = true -> denote a (wit g) = true -> exists x, f a = Some x /\ denote x (wit g') = true) ->
  okres g' (union_simple f T).
Proof.
  intros S S' W C Hf. rewrite compatb_scalar in C by exact S.
  destruct (is_never T) eqn:N.
  { unfold union_simple. rewrite N, orb_true_r. simpl. apply compat_never. exact N. }
  simpl in C.
  destruct (wf_alt_of T _ W C) as [A | [A [a (Hin & Da & Ba & Wa)]]].
  { unfold union_simple. rewrite A. simpl. apply compat_any. exact A. }
  destruct (Hf a Ba Da) as [x [Fa Dx]].
  assert (exists r, union_simple f T = IOk r) as [r E].
  { unfold union_simple. rewrite A, N. cbn [orb].
    assert (Hx : In x (flat_map (fun y => match f y with Some r => [r] | None => [] end) (alts T))).
    { apply in_flat_map. exists a. split; [exact Hin|]. rewrite Fa. left; reflexivity. }
    destruct (alts T) as [|a0 [|a1 rest]] eqn:Ea.
    - destruct Hin.
    - destruct Hin as [->|[]]. cbv beta iota. rewrite Fa. eauto.
    - cbv beta iota. destruct (flat_map _ _); [simpl in Hx; contradiction | eauto]. }
  rewrite E. simpl. rewrite compatb_scalar by exact S'.
  rewrite (union_simple_sound f T r (wit g) (wit g') W C E); [apply orb_true_r|].
  intros a' _ Ba' _ Da'. apply Hf; assumption.
Qed.

(* union_simple on a container: every alternative succeeds *)
Lemma union_simple_total f T g g' :
  compatb g T = true -> is_scalar_gty g = false ->
  (forall a, am g a = true -> exists x, f a = Some x /\ compatb g' x = true) ->
  okres g' (union_simple f T).
Proof.
  intros C S Hf. unfold union_simple.
  destruct (is_any T) eqn:A; [simpl; apply compat_any; exact A|].
  destruct (is_never T) eqn:N; [simpl; apply compat_never; exact N|]. cbn [orb].
  pose proof (compat_alts g T S C A) as F. rewrite forallb_forall in F.
  destruct (alts T) as [|a0 [|a1 rest]] eqn:Ea.
  - unfold is_never in N. rewrite Ea in N. discriminate.
  - destruct (Hf a0 (F a0 (or_introl eq_refl))) as [x [Fx Cx]]. rewrite Fx. exact Cx.
  - destruct (Hf a0 (F a0 (or_introl eq_refl))) as [x [Fx Cx]].
    destruct (flat_map _ _) as [|g0 gs] eqn:E.
    + simpl in E. rewrite Fx in E. discriminate.
    + simpl. apply us_compat. apply forallb_forall. intros y Hy. rewrite <- E in Hy.
      apply in_flat_map in Hy. destruct Hy as [a [Ha Hy]]. destruct (Hf a (F a Ha)) as [x' [Fx' Cx']].
      rewrite Fx' in Hy. destruct Hy as [<-|[]]. exact Cx'.
Qed.

Lemma okres_unary o T : o <> UNot -> wf T -> compatb GInt T = true -> okres GInt (union_simple (un_basic o) T).
Proof.
  intros Ho W C. apply (union_simple_scalar (un_basic o) T GInt GInt); auto.
  intros a Ba Da. destruct (den_int _ _ Da) as [->|[->|[ts ->]]]; try discriminate Ba.
  exists (TBase BInt). split; [destruct o; try reflexivity; congruence | reflexivity].
Qed.

Lemma okres_slice T g : (g = GStr \/ exists g', g = GList g') -> wf T -> compatb g T = true -> okres g (union_simple slice_basic T).
Proof.
  intros [-> | [g' ->]] W C.
  - apply (union_simple_scalar slice_basic T GStr GStr); auto.
    intros a Ba Da. destruct (den_str _ Da) as [->|[->|[ts ->]]]; try discriminate Ba. exists (TBase BStr). split; reflexivity.
  - apply (union_simple_total slice_basic T (GList g')); auto.
    intros a Ha. destruct a; try discriminate Ha. exists (TList a). split; [reflexivity | apply compat_alone; exact Ha].
Qed.

Lemma okres_iter T g : compatb (GList g) T = true -> okres g (iter_item T).
Proof.
  intro C. unfold iter_item. apply (union_simple_total iter_basic T (GList g)); auto.
  intros a Ha. destruct a; try discriminate Ha. exists a. split; [reflexivity | exact Ha].
Qed.

Lemma check_opt_ok (rec : expr -> ires) o :
  (forall e, o = Some e -> (exists T, rec e = IOk T /\ wf T /\ compatb GInt T = true) \/ rec e = IUnk) ->
  check_opt rec o = IOk tint \/ check_opt rec o = IUnk.
Proof.
  intro H. destruct o as [e|]; [|left; reflexivity]. simpl.
  destruct (H e eq_refl) as [[T (E & W & C)] | E]; rewrite E; simpl; [|right; reflexivity].
  unfold inter. rewrite (inter_compat 12 GInt T tint W eq_refl C eq_refl). left; reflexivity.
Qed.

Lemma okres_index ta ti g :
  wf ta -> wf ti -> compatb (GList g) ta = true -> compatb GInt ti = true -> okres g (expr_index ta ti).
Proof.
  intros Wa Wi Ca Ci. unfold expr_index.
  destruct (is_any ta) eqn:A; [simpl; apply compat_any; exact A|].
  destruct (is_never ta) eqn:N; [simpl; apply compat_never; exact N|]. cbn [orb].
  destruct (is_never ti) eqn:Ni; [apply okres_never|].
  simpl in Ci. rewrite Ni in Ci. simpl in Ci.
  destruct (alt_of ti _ Wi Ci) as (i & Hi & Di & _ & Ki).
  unfold is_never in N. destruct (alts ta) as [|a0 ra] eqn:Ea; [discriminate|].
  assert (La : forall a, In a (a0 :: ra) -> exists e, a = TList e /\ compatb g e = true).
  { intros a Ha. apply (list_alt g ta a Ca A). rewrite Ea. exact Ha. }
  destruct (La a0 (or_introl eq_refl)) as [e0 [-> Ce0]].
  assert (Bi : binter i tint = true).
  { destruct (den_int _ _ Di) as [->|[->|[ts ->]]]; try reflexivity. destruct Ki as [X|X]; discriminate X. }
  destruct (flat_map _ _) as [|g0 gs] eqn:E.
  - exfalso. assert (X : In e0 (flat_map (fun a => flat_map (fun i => match index_basic a i with Some r => [r] | None => [] end) (alts ti)) (TList e0 :: ra))).
    { apply in_flat_map. exists (TList e0). split; [left; reflexivity|]. apply in_flat_map. exists i. split; [exact Hi|].
      simpl. rewrite Bi. left; reflexivity. }
    rewrite E in X. destruct X.
  - simpl. apply us_compat. apply forallb_forall. intros y Hy. rewrite <- E in Hy.
    apply in_flat_map in Hy. destruct Hy as [a [Ha Hy]]. apply in_flat_map in Hy. destruct Hy as [j [Hj Hy]].
    destruct (La a Ha) as [e [-> Ce]]. simpl in Hy. destruct (binter j tint); [destruct Hy as [<-|[]]; exact Ce | destruct Hy].
Qed.

(* ------------------------------------------------------------------------------------------------ *)
(* 6. welltyped_no_error *)
Definition builtin_names : list string :=
  ["len"; "str"; "bool"; "int"; "abs"; "any"; "all"; "min"; "max"; "sorted"; "list"; "range"].

Lemma in_names f : existsb (String.eqb f) builtin_names = true -> In f builtin_names.
Proof. intro H. apply existsb_exists in H. destruct H as [x [Hin E]]. apply String.eqb_eq in E. subst. exact Hin. Qed.

Lemma builtin_gty_ret f ta t :
  builtin_gty f [ta] = Some t ->
  In f builtin_names /\ String.eqb f "list" = false /\ exists T, builtin_ret f = IOk T /\ compatb t T = true.
Proof.
  unfold builtin_gty. intro H.
  assert (Fin : forall g T, existsb (String.eqb g) builtin_names = true -> String.eqb g "list" = false -> builtin_ret g = IOk T ->
                            compatb t T = true ->
                            In g builtin_names /\ String.eqb g "list" = false /\ exists T, builtin_ret g = IOk T /\ compatb t T = true).
  { intros g T H1 H2 H3 H4. split; [apply in_names; exact H1|]. split; [exact H2|]. exists T. split; assumption. }
  destruct (String.eqb f "len") eqn:E1.
  { apply String.eqb_eq in E1; subst f. destruct ta; inversion H; subst; apply (Fin "len" tint); reflexivity. }
  destruct (String.eqb f "str") eqn:E2.
  { apply String.eqb_eq in E2; subst f. inversion H; subst; apply (Fin "str" tstr); reflexivity. }
  destruct (String.eqb f "bool") eqn:E3.
  { apply String.eqb_eq in E3; subst f. inversion H; subst; apply (Fin "bool" tbool); reflexivity. }
  destruct (String.eqb f "int") eqn:E4.
  { apply String.eqb_eq in E4; subst f. destruct ta; inversion H; subst; apply (Fin "int" tint); reflexivity. }
  destruct (String.eqb f "abs") eqn:E5.
  { apply String.eqb_eq in E5; subst f. destruct ta; inversion H; subst; apply (Fin "abs" int_or_float); reflexivity. }
  destruct (String.eqb f "any") eqn:E6.
  { apply String.eqb_eq in E6; subst f. destruct ta; inversion H; subst; apply (Fin "any" tbool); reflexivity. }
  destruct (String.eqb f "all") eqn:E7.
  { apply String.eqb_eq in E7; subst f. destruct ta; inversion H; subst; apply (Fin "all" tbool); reflexivity. }
  destruct (String.eqb f "min") eqn:E8.
  { apply String.eqb_eq in E8; subst f. destruct ta as [| | | |[]| |]; inversion H; subst; apply (Fin "min" TAny); reflexivity. }
  destruct (String.eqb f "max") eqn:E9.
  { apply String.eqb_eq in E9; subst f. destruct ta as [| | | |[]| |]; inversion H; subst; apply (Fin "max" TAny); reflexivity. }
  destruct (String.eqb f "sorted") eqn:E10; [|discriminate H].
  apply String.eqb_eq in E10; subst f. destruct ta; inversion H; subst. apply (Fin "sorted" (TList TAny)); try reflexivity.
  apply (compat_alone (GList ta) (TList TAny)). simpl. apply compat_TAny.
Qed.

Section NoError.
  Variable fixmul : bool.
  Variable sigs : sigmap.
  Variable types : tmap.
  Variable G : genv.
  Variable GS : gsigs.
  Local Notation inf := (infer fixmul sigs types).
  Local Notation wt := (wt G GS).
  Hypothesis Hsigs : sigs_wf sigs.
  Hypothesis Hwf : env_wf types.
  (* the checker's environment: no erroneous binding, and a committed type is compatible with the generator's *)
  Hypothesis HG : forall x t, lookup x G = Some t ->
    match lookup x types with Some (IOk T) => compatb t T = true | Some IErr => False | _ => True end.
  (* the builtins are not shadowed *)
  Hypothesis Hbi : forall f, In f builtin_names -> lookup f sigs = None /\ lookup f types = None.
  (* the signature table of the defs agrees with the generator's function types *)
  Hypothesis HGS : forall f ps n r, lookup f GS = Some (ps, n, r) ->
    exists s, lookup f sigs = Some s /\ forall2b compatb ps (fs_params s) = true /\ fs_nreq s = n /\ compatb r (fs_ret s) = true.

  Definition good (e : expr) (t : gty) : Prop := okres t (inf e).
  Definition rng_good (e : expr) : Prop :=
    forall args, e = call1 "range" args -> Forall (fun a => wt a GInt) args -> inf e = IOk (TBase BRange) \/ inf e = IUnk.
  Definition mix_good (e : expr) : Prop :=
    forall a b, e = EAnd a b \/ e = EOr a b -> (exists t1 t2, wt a t1 /\ wt b t2) -> inf e <> IErr.
  Definition PP (e : expr) : Prop := (forall t, wt e t -> good e t) /\ rng_good e /\ mix_good e.

  Lemma iall_uniform {A} (f : A -> ires) l t :
    Forall (fun x => okres t (f x)) l ->
    match iall (map f l) with LOk ts => forallb (compatb t) ts = true | LErr => False | LUnk => True end.
  Proof.
    induction 1 as [|x l Hx _ IH]; simpl; [reflexivity|].
    destruct (f x) as [T| |]; simpl in Hx; [|destruct Hx|exact I].
    destruct (iall (map f l)) as [ts| |]; [|destruct IH|exact I]. simpl. rewrite Hx, IH. reflexivity.
  Qed.
  Lemma iall_pointwise es gs :
    Forall2 (fun e g => okres g (inf e)) es gs ->
    match iall (map inf es) with LOk ts => forall2b compatb gs ts = true | LErr => False | LUnk => True end.
  Proof.
    induction 1 as [|e g es gs Hx _ IH]; simpl; [reflexivity|].
    destruct (inf e) as [T| |]; simpl in Hx; [|destruct Hx|exact I].
    destruct (iall (map inf es)) as [ts| |]; [|destruct IH|exact I]. simpl. rewrite Hx, IH. reflexivity.
  Qed.

  Lemma args_ok_compat : forall used rest params ts,
    forall2b compatb (used ++ rest) params = true -> forall2b compatb used ts = true ->
    Forall wf params -> Forall wf ts -> args_ok params ts = true.
  Proof.
    induction used as [|g used IH]; intros rest params ts Hp Ht Wp Wt.
    - destruct ts; [destruct params; reflexivity | discriminate Ht].
    - destruct ts as [|T ts]; [destruct params; reflexivity|]. destruct params as [|p params]; [discriminate Hp|].
      simpl in Hp, Ht. apply andb_prop in Hp. apply andb_prop in Ht. destruct Hp as [Hp1 Hp2]. destruct Ht as [Ht1 Ht2].
      inversion Wp; inversion Wt; subst. simpl. unfold inter at 1.
      rewrite (inter_compat 12 g T p); auto. simpl. eapply IH; eassumption.
  Qed.

  Lemma forall2b_length {A B} (f : A -> B -> bool) l m : forall2b f l m = true -> length l = length m.
  Proof.
    revert m. induction l as [|a l IH]; intros [|b m] H; simpl in H; try discriminate; [reflexivity|].
    apply andb_prop in H. destruct H. simpl. f_equal. auto.
  Qed.

  Lemma clauses_ok cls :
    Forall (clauseP PP) cls -> Forall (wtc G GS) cls -> check_clauses inf cls = IOk tnone \/ check_clauses inf cls = IUnk.
  Proof.
    induction 1 as [|c cls Hc _ IH]; intro Hw; simpl; [left; reflexivity|].
    inversion Hw as [|? ? Wc Wcls]; subst. specialize (IH Wcls).
    destruct c as [tg e|e]; simpl in Hc |- *.
    - inversion Wc as [tg' e' t' We | tg' args' Fa | ]; subst.
      + destruct Hc as (Pg & _ & _). pose proof (Pg _ We) as Ha. unfold good in Ha.
        destruct (inf e) as [T| |]; simpl in *; [exact IH | destruct Ha | right; reflexivity].
      + destruct Hc as (_ & Pr & _). destruct (Pr args' eq_refl Fa) as [E|E]; rewrite E; simpl; [exact IH | right; reflexivity].
    - inversion Wc as [ | | e' t' We]; subst. destruct Hc as (Pg & _ & _). pose proof (Pg _ We) as Ha. unfold good in Ha.
      destruct (inf e) as [T| |]; simpl in *; [exact IH | destruct Ha | right; reflexivity].
  Qed.

  Ltac sub_expr a Eqn T :=
    unfold good in *;
    match goal with
    | Ha : okres _ (inf a) |- _ => destruct (inf a) as [T| |] eqn:Eqn; simpl in Ha; [ cbn [ibind] | destruct Ha | simpl; exact Logic.I ]
    end.
  Ltac use IH x H := match goal with Wx : wt x _ |- _ => pose proof (IH _ Wx) as H end.

  Theorem wt_good : forall e, PP e.
  Proof.
    induction e using expr_ind'; (split; [|split; [intros rargs E; try discriminate E | intros a0 b0 E; try (destruct E as [E|E]; discriminate E)]]).
    - intros t W. inversion W; subst. reflexivity.
    - intros t W. inversion W; subst. reflexivity.
    - intros t W. inversion W; subst. reflexivity.
    - intros t W. inversion W; subst. reflexivity.
    - (* var *)
      intros t W. inversion W as [ | | | |x' t' L| | | | | | | | | | | | | | | | | | | | | | | | | | | ]; subst. unfold good. simpl. specialize (HG _ _ L).
      destruct (lookup x types) as [[T| |]|]; simpl; auto.
    - (* tuple *)
      intros t W. inversion W as [ | | | | | |es' ts F2| | | | | | | | | | | | | | | | | | | | | | | | | ]; subst. unfold good. simpl.
      assert (F : Forall2 (fun e g => okres g (inf e)) es ts).
      { clear W. induction F2 as [|e g es ts We _ IH2]; constructor.
        - inversion H; subst. apply H2. exact We.
        - apply IH2. inversion H; assumption. }
      apply iall_pointwise in F. destruct (iall (map inf es)) as [Ts| |]; simpl; [|destruct F|exact I].
      apply (compat_alone (GTuple ts) (TTuple Ts)). exact F.
    - (* list *)
      intros t W. inversion W as [ | | | | |es' t0 Fa| | | | | | | | | | | | | | | | | | | | | | | | | | ]; subst. unfold good. simpl.
      assert (F : Forall (fun e => okres t0 (inf e)) es).
      { rewrite Forall_forall in *. intros e He. apply H; auto. }
      apply iall_uniform in F. destruct (iall (map inf es)) as [Ts| |]; simpl; [|destruct F|exact I].
      apply (compat_alone (GList t0) (TList (us Ts))). simpl. apply us_compat. exact F.
    - (* dict *)
      intros t W. inversion W as [ | | | | | | |kvs' k v Fa| | | | | | | | | | | | | | | | | | | | | | | | ]; subst. unfold good. simpl.
      assert (Fk : Forall (fun kv : expr * expr => okres k (let (a, _) := kv in inf a)) kvs).
      { rewrite Forall_forall in *. intros [a b] Hin. destruct (H _ Hin) as [Pa _]. destruct (Fa _ Hin) as [Wa _]. apply Pa. exact Wa. }
      assert (Fv : Forall (fun kv : expr * expr => okres v (let (_, b) := kv in inf b)) kvs).
      { rewrite Forall_forall in *. intros [a b] Hin. destruct (H _ Hin) as [_ Pb]. destruct (Fa _ Hin) as [_ Wb]. apply Pb. exact Wb. }
      apply iall_uniform in Fk. apply iall_uniform in Fv.
      destruct (iall (map (fun kv : expr * expr => let (a, _) := kv in inf a) kvs)) as [Ks| |]; simpl; [|destruct Fk|exact I].
      destruct (iall (map (fun kv : expr * expr => let (_, b) := kv in inf b) kvs)) as [Vs| |]; simpl; [|destruct Fv|exact I].
      apply (compat_alone (GDict k v) (TDict (us Ks) (us Vs))). simpl. rewrite !us_compat; auto.
    - (* unary *)
      destruct IHe as (IH & _ & IHm). intros t W. unfold good.
      inversion W as [ | | | | | | | | | | |a t1 Wa|a b t1 t2 Wa Wb|a b t1 t2 Wa Wb|o' a No Wa| | | | | | | | | | | | | | | | | ]; subst.
      + pose proof (IH _ Wa) as Ha. simpl. sub_expr e Ia Ta. destruct (is_never Ta); exact eq_refl.
      + assert (Ne : inf (EAnd a b) <> IErr) by (apply (IHm a b); [left; reflexivity | exists t1, t2; split; assumption]).
        change (inf (EUn UNot (EAnd a b))) with (ibind (inf (EAnd a b)) (fun t => if is_never t then IOk TNever else IOk tbool)).
        destruct (inf (EAnd a b)) as [T| |]; cbn [ibind]; [destruct (is_never T); exact eq_refl | destruct (Ne eq_refl) | exact I].
      + assert (Ne : inf (EOr a b) <> IErr) by (apply (IHm a b); [right; reflexivity | exists t1, t2; split; assumption]).
        change (inf (EUn UNot (EOr a b))) with (ibind (inf (EOr a b)) (fun t => if is_never t then IOk TNever else IOk tbool)).
        destruct (inf (EOr a b)) as [T| |]; cbn [ibind]; [destruct (is_never T); exact eq_refl | destruct (Ne eq_refl) | exact I].
      + pose proof (IH _ Wa) as Ha.
        assert (E : inf (EUn o e) = ibind (inf e) (fun t => union_simple (un_basic o) t)).
        { destruct o; try reflexivity. exfalso; apply No; reflexivity. }
        rewrite E. sub_expr e Ia Ta.
        pose proof (infer_wf _ _ _ Hsigs Hwf _ _ Ia) as Wa'. apply okres_unary; assumption.
    - (* binary *)
      destruct IHe1 as (IH1 & _ & _). destruct IHe2 as (IH2 & _ & _). intros t W. unfold good.
      inversion W; subst; simpl; use IH1 e1 Ha; use IH2 e2 Hb; sub_expr e1 Ia Ta; sub_expr e2 Ib Tb;
        pose proof (infer_wf _ _ _ Hsigs Hwf _ _ Ia) as Wa'; pose proof (infer_wf _ _ _ Hsigs Hwf _ _ Ib) as Wb'.
      + apply okres_arith; assumption.
      + destruct o; try discriminate; apply okres_bool; reflexivity.
      + eapply okres_eq; eassumption.
      + destruct o; try discriminate; apply okres_bool; reflexivity.
      + apply okres_str; auto.
      + apply okres_str; auto.
      + apply okres_list_add; assumption.
      + apply okres_list_mul; assumption.
      + eapply okres_tuple_add; eassumption.
    - (* and *)
      destruct IHe1 as (IH1 & _ & _). destruct IHe2 as (IH2 & _ & _). intros t W. unfold good. inversion W; subst; simpl.
      use IH1 e1 Ha. use IH2 e2 Hb. sub_expr e1 Ia Ta. sub_expr e2 Ib Tb.
      destruct (is_never Ta); [apply okres_never | apply u2_compat; assumption].
    - (* and, operands of different types *)
      destruct IHe1 as (IH1 & _ & _). destruct IHe2 as (IH2 & _ & _).
      intros (t1 & t2 & W1 & W2). assert (a0 = e1 /\ b0 = e2) as [-> ->] by (destruct E as [E|E]; inversion E; auto).
      simpl. pose proof (IH1 _ W1) as Ha. pose proof (IH2 _ W2) as Hb. unfold good in Ha, Hb.
      destruct (inf e1) as [Ta| |]; simpl in *; [|destruct Ha|discriminate].
      destruct (inf e2) as [Tb| |]; simpl in *; [|destruct Hb|discriminate]. destruct (is_never Ta); discriminate.
    - (* or *)
      destruct IHe1 as (IH1 & _ & _). destruct IHe2 as (IH2 & _ & _). intros t W. unfold good. inversion W; subst; simpl.
      use IH1 e1 Ha. use IH2 e2 Hb. sub_expr e1 Ia Ta. sub_expr e2 Ib Tb.
      destruct (is_never Ta); [apply okres_never | apply u2_compat; assumption].
    - destruct IHe1 as (IH1 & _ & _). destruct IHe2 as (IH2 & _ & _).
      intros (t1 & t2 & W1 & W2). assert (a0 = e1 /\ b0 = e2) as [-> ->] by (destruct E as [E|E]; inversion E; auto).
      simpl. pose proof (IH1 _ W1) as Ha. pose proof (IH2 _ W2) as Hb. unfold good in Ha, Hb.
      destruct (inf e1) as [Ta| |]; simpl in *; [|destruct Ha|discriminate].
      destruct (inf e2) as [Tb| |]; simpl in *; [|destruct Hb|discriminate]. destruct (is_never Ta); discriminate.
    - (* conditional *)
      destruct IHe1 as (IH1 & _ & _). destruct IHe2 as (IH2 & _ & _). destruct IHe3 as (IH3 & _ & _).
      intros t W. unfold good. inversion W; subst; simpl.
      use IH1 e1 Hc. use IH2 e2 Ha. use IH3 e3 Hb.
      sub_expr e1 Ic Tc. sub_expr e2 Ia Ta. sub_expr e3 Ib Tb.
      destruct (is_never Tc); [apply okres_never | apply u2_compat; assumption].
    - (* index *)
      destruct IHe1 as (IH1 & _ & _). destruct IHe2 as (IH2 & _ & _). intros t W. unfold good. inversion W; subst; simpl.
      use IH1 e1 Ha. use IH2 e2 Hb. sub_expr e1 Ia Ta. sub_expr e2 Ib Tb.
      apply okres_index; auto; eapply infer_wf; eassumption.
    - (* slice *)
      destruct IHe as (IH & _ & _). intros t W. unfold good.
      inversion W as [ | | | | | | | | | | | | | | | | | | | | | | | | |a' lo' hi' st' t' Ht Wa Wlo Whi Wst| | | | | | ]; subst; simpl.
      assert (CO : forall o, optP PP o -> wt_opt G GS o -> check_opt inf o = IOk tint \/ check_opt inf o = IUnk).
      { intros o Po Wo. apply check_opt_ok. intros x ->. inversion Wo as [|x' Wx]; subst. simpl in Po. destruct Po as (Pg & _ & _).
        specialize (Pg _ Wx). unfold good in Pg. destruct (inf x) as [T| |] eqn:Ix; simpl in Pg; [left | destruct Pg | right; reflexivity].
        exists T. repeat split; auto. eapply infer_wf; eassumption. }
      destruct (CO lo H Wlo) as [-> | ->]; simpl; [|exact I].
      destruct (CO hi H0 Whi) as [-> | ->]; simpl; [|exact I].
      destruct (CO st H1 Wst) as [-> | ->]; simpl; [|exact I].
      pose proof (IH _ Wa) as Ha. sub_expr e Ia Ta. apply okres_slice; auto. eapply infer_wf; eassumption.
    - (* calls *)
      intros t W. unfold good.
      inversion W as [ | | | | | | | | | | | | | | | | | | | | | | | | | |f a ta t' Bg Wa|a t' Wa|rargs' Fa|f args' ps n r used rest Lf Eps F2 Ln| | ]; subst.
      + (* builtin with one argument *)
        destruct (builtin_gty_ret _ _ _ Bg) as (Hn & NL & T & R & C). destruct (Hbi _ Hn) as [Ls Lt].
        inversion H as [|? ? Pa _]; subst. destruct Pa as (Pg & _ & _). pose proof (Pg _ Wa) as Ha. simpl.
        sub_expr a Ia Ta. rewrite Ls, Lt, NL, R. exact C.
      + (* list(xs) *)
        destruct (Hbi "list") as [Ls Lt]; [apply in_names; reflexivity|].
        inversion H as [|? ? Pa _]; subst. destruct Pa as (Pg & _ & _). pose proof (Pg _ Wa) as Ha. simpl.
        sub_expr a Ia Ta. rewrite Ls, Lt. simpl.
        pose proof (okres_iter Ta t' Ha) as Hi. destruct (iter_item Ta) as [E0| |]; simpl in *; [|destruct Hi|exact I].
        apply (compat_alone (GList t') (TList E0)). exact Hi.
      + (* list(range(..)) *)
        destruct (Hbi "list") as [Ls Lt]; [apply in_names; reflexivity|].
        inversion H as [|? ? Pa _]; subst. destruct Pa as (_ & Pr & _).
        change (okres (GList GInt) (lbind (iall [inf (call1 "range" rargs')])
                  (fun ts => match lookup "list" sigs with
                             | Some s => call_sig s ts
                             | None => match lookup "list" types with
                                       | Some _ => IUnk
                                       | None => match ts with [t] => ibind (iter_item t) (fun e => IOk (TList e)) | _ => IUnk end
                                       end
                             end))).
        destruct (Pr rargs' eq_refl Fa) as [E|E]; rewrite E; simpl; [|exact I].
        rewrite Ls, Lt. reflexivity.
      + (* a def of the module *)
        destruct (HGS _ _ _ _ Lf) as (s & Ls & Cp & Cn & Cr). simpl.
        assert (F : Forall2 (fun e g => okres g (inf e)) args used).
        { clear - H F2. induction F2 as [|e g es gs We _ IH2]; constructor.
          - inversion H; subst. destruct H2 as (Pg & _ & _). apply Pg. exact We.
          - apply IH2. inversion H; assumption. }
        pose proof (iall_pointwise _ _ F) as F'. destruct (iall (map inf args)) as [Ts| |] eqn:Ei; simpl; [|destruct F'|exact I].
        rewrite Ls. unfold call_sig.
        assert (Wt : Forall wf Ts).
        { apply iall_ok_Forall2 in Ei. clear - Ei Hsigs Hwf. induction Ei as [|e T es Ts E _ IH2]; constructor; auto.
          eapply infer_wf; eassumption. }
        rewrite (args_ok_compat used rest (fs_params s) Ts Cp F' (proj2 (Hsigs _ _ Ls)) Wt). simpl.
        assert (L : length Ts = length args).
        { apply iall_ok_Forall2 in Ei. clear - Ei. induction Ei; simpl; congruence. }
        rewrite Cn, L. apply Nat.leb_le in Ln. rewrite Ln. exact Cr.
    - (* range(..) *)
      unfold call1 in E. injection E as -> -> -> -> ->. intro Fa. simpl.
      destruct (Hbi "range") as [Ls Lt]; [apply in_names; reflexivity|].
      assert (F : Forall (fun x => okres GInt (inf x)) rargs).
      { rewrite Forall_forall in *. intros x Hx. destruct (H x Hx) as (Pg & _ & _). apply Pg. apply Fa. exact Hx. }
      apply iall_uniform in F. destruct (iall (map inf rargs)) as [Ts| |]; simpl; [|destruct F|right; reflexivity].
      rewrite Ls, Lt. left; reflexivity.
    - intros t W. inversion W.
    - intros t W. inversion W.
    - (* list comprehension *)
      destruct IHe as (IH & _ & _). intros t W. unfold good.
      inversion W as [ | | | | | | | | | | | | | | | | | | | | | | | | | | | | | |b' cls' t' Fc Wb| ]; subst; simpl.
      destruct (clauses_ok cls H Fc) as [-> | ->]; simpl; [|exact I].
      pose proof (IH _ Wb) as Ha. sub_expr e Ia Ta. apply (compat_alone (GList t') (TList Ta)). exact Ha.
    - (* dict comprehension *)
      destruct IHe1 as (IH1 & _ & _). destruct IHe2 as (IH2 & _ & _). intros t W. unfold good.
      inversion W as [ | | | | | | | | | | | | | | | | | | | | | | | | | | | | | | |k' v' cls' tk tv Fc Wk Wv]; subst; simpl.
      destruct (clauses_ok cls H Fc) as [-> | ->]; simpl; [|exact I].
      pose proof (IH1 _ Wk) as Ha. pose proof (IH2 _ Wv) as Hb. sub_expr e1 Ia Ta. sub_expr e2 Ib Tb.
      apply (compat_alone (GDict tk tv) (TDict Ta Tb)). simpl. rewrite Ha, Hb. reflexivity.
  Qed.

  (* a well-typed expression gets no diagnostic, and a committed type is compatible with the generator's type *)
  Theorem welltyped_no_error e t : wt e t -> inf e <> IErr /\ (forall T, inf e = IOk T -> compatb t T = true).
  Proof.
    intro W. destruct (wt_good e) as (Pg & _ & _). specialize (Pg t W). unfold good in Pg.
    destruct (inf e) as [T| |]; simpl in Pg; [|destruct Pg|]; split; try discriminate; intros T' E; inversion E; subst; exact Pg.
  Qed.
End NoError.
