(* C17: model of the module INTERFACE builder (no proofs in this file).

   The Interface of a module (types of the exported module variables, also the type every def sees for a global) is
   not computed by the solver but by a partial evaluator over the TOP-LEVEL statements:
     starlark/src/typing/fill_types_for_lint.rs   GlobalTypesBuilder::{eval_stmt, eval_stmt_unset, assign_ident_value,
                                                  assign_unset_ident, assign_value, assign_unset, for_stmt_unset,
                                                  top_level_def, expr, expr_ident, GlobalValue::{union2, any}}
   Mirrored here, abstracted to types (the `value` component of GlobalValue only serves type expressions):
     - an expression either gets a definite type (string literal, tuple of known values, True/False/None and the other
       globals, a def, an attribute of a known value, an alias of such a variable) or Any (int/list/dict literals, calls,
       lambdas, operators, ...): `EVal k definite`, `EVar x`;
     - a top-level assignment `x = e` records the type of e, UNIONED with an existing entry (assign_ident_value);
     - a top-level def records a function type the same way (top_level_def);
     - the bodies of top-level `if` / `if-else` / `for` may not run exactly once: every variable assigned anywhere in
       them (also loop variables, unpacking targets, nested defs, augmented targets) is reset to Any
       (eval_stmt_unset / assign_unset_ident: `self.values.insert(slot, GlobalValue::any())`);
     - a tuple-unpacking assignment at top level resets its targets the same way (assign_value, Tuple case);
     - a top-level augmented assignment is ignored (eval_stmt: `StmtP::AssignModify(..) => Ok(())`).
   `keep = true` is the variant of assign_unset_ident that keeps an existing entry ("what we already know about the type
   is still useful") - used only to show that it is unsound. *)
From Coq Require Import List Arith Bool NArith.
Import ListNotations.

Definition var := nat.

(* what a value is at run time, as fine as the evaluator's definite types go *)
Inductive kind := KStr | KTuple | KBool | KNone | KFn | KOther.

Inductive ity := IAny | IKinds (ks : list kind).

Inductive expr :=
| EVal (k : kind) (definite : bool)      (* evaluates to a value of kind k; `definite`: the evaluator commits to that type *)
| EVar (x : var).

Inductive stmt :=
| SSkip                                   (* pass / expression statement *)
| SSeq (a b : stmt)
| SAssign (x : var) (e : expr)            (* x = e *)
| SAug (x : var)                          (* x op= e  (on str / tuple the result has the same kind; on the rest it fails) *)
| SUnpack (xs : list var) (ks : list kind)  (* (x, y, ..) = (.., ..) binding values of kinds ks *)
| SDef (x : var)                          (* def x(..): .. *)
| SIf (b1 b2 : stmt)                      (* if c: b1 else: b2 *)
| SFor (x : var) (k : kind) (body : stmt). (* for x in <values of kind k>: body *)

(* ------------------------------------------------------------------ the partial evaluator *)
Definition ienv := var -> option ity.      (* None: no entry (a name never assigned so far) *)
Definition iempty : ienv := fun _ => None.
Definition iupd (i : ienv) (x : var) (t : ity) : ienv := fun y => if Nat.eqb y x then Some t else i y.

(* GlobalValue::union2 / Ty::union2 (Any absorbs) *)
Definition union2 (a b : ity) : ity :=
  match a, b with IKinds x, IKinds y => IKinds (x ++ y) | _, _ => IAny end.

(* expr / expr_ident / expr_literal / tuple / dot / call *)
Definition ty_of (i : ienv) (e : expr) : ity :=
  match e with
  | EVal k true => IKinds [k]
  | EVal _ false => IAny
  | EVar x => match i x with Some t => t | None => IAny end
  end.

(* assign_ident_value *)
Definition assign_value (i : ienv) (x : var) (t : ity) : ienv :=
  iupd i x (match i x with Some old => union2 t old | None => t end).

(* assign_unset_ident *)
Definition assign_unset (keep : bool) (i : ienv) (x : var) : ienv :=
  if keep then match i x with Some _ => i | None => iupd i x IAny end
  else iupd i x IAny.

(* eval_stmt_unset / for_stmt_unset / assign_unset *)
Fixpoint unset (keep : bool) (i : ienv) (s : stmt) : ienv :=
  match s with
  | SSkip => i
  | SSeq a b => unset keep (unset keep i a) b
  | SAssign x _ | SAug x | SDef x => assign_unset keep i x
  | SUnpack xs _ => fold_left (assign_unset keep) xs i
  | SIf b1 b2 => unset keep (unset keep i b1) b2
  | SFor x _ body => unset keep (assign_unset keep i x) body
  end.

(* eval_stmt on the top-level statements in order *)
Fixpoint abs (keep : bool) (i : ienv) (s : stmt) : ienv :=
  match s with
  | SSkip => i
  | SSeq a b => abs keep (abs keep i a) b
  | SAssign x e => assign_value i x (ty_of i e)
  | SAug _ => i
  | SUnpack xs _ => fold_left (assign_unset keep) xs i
  | SDef x => assign_value i x (IKinds [KFn])
  | SIf b1 b2 => unset keep (unset keep i b1) b2
  | SFor x _ body => unset keep (assign_unset keep i x) body
  end.

Definition interface (s : stmt) : ienv := abs false iempty s.

(* ------------------------------------------------------------------ running the module *)
Definition renv := var -> option kind.     (* the kind of the value a module variable holds; None: unset *)
Definition rempty : renv := fun _ => None.
Definition rupd (r : renv) (x : var) (k : kind) : renv := fun y => if Nat.eqb y x then Some k else r y.

Definition eval (r : renv) (e : expr) : option kind :=
  match e with EVal k _ => Some k | EVar x => r x end.

Fixpoint bind_all (r : renv) (xs : list var) (ks : list kind) : renv :=
  match xs, ks with
  | x :: xs', k :: ks' => bind_all (rupd r x k) xs' ks'
  | _, _ => r
  end.

(* conditions and iteration counts are arbitrary: every branch / every number of iterations is a possible run *)
Inductive exec : renv -> stmt -> renv -> Prop :=
| X_skip : forall r, exec r SSkip r
| X_seq : forall r r1 r2 a b, exec r a r1 -> exec r1 b r2 -> exec r (SSeq a b) r2
| X_assign : forall r x e k, eval r e = Some k -> exec r (SAssign x e) (rupd r x k)
| X_aug : forall r x, exec r (SAug x) r
| X_unpack : forall r xs ks, exec r (SUnpack xs ks) (bind_all r xs ks)
| X_def : forall r x, exec r (SDef x) (rupd r x KFn)
| X_if_then : forall r r' b1 b2, exec r b1 r' -> exec r (SIf b1 b2) r'
| X_if_else : forall r r' b1 b2, exec r b2 r' -> exec r (SIf b1 b2) r'
| X_for_done : forall r x k body, exec r (SFor x k body) r
| X_for_iter : forall r r1 r2 x k body,
    exec (rupd r x k) body r1 -> exec r1 (SFor x k body) r2 -> exec r (SFor x k body) r2.

(* THE PROPERTY for exported bindings: a definite (not Any) interface type contains the kind of the value held *)
Definition iface_sound (i : ienv) (r : renv) : Prop :=
  forall x ks k, i x = Some (IKinds ks) -> r x = Some k -> In k ks.

(* ------------------------------------------------------------------ observation for the tie *)
Definition kind_code (k : kind) : N :=
  match k with KStr => 0 | KTuple => 1 | KBool => 2 | KNone => 3 | KFn => 4 | KOther => 5 end%N.

(* (0, []) no entry; (1, []) Any; (2, codes of the alternatives) *)
Definition iface_obs (s : stmt) (x : var) : N * list N :=
  match interface s x with
  | None => (0%N, [])
  | Some IAny => (1%N, [])
  | Some (IKinds ks) => (2%N, map kind_code ks)
  end.
