(* C17 comparison driver: the model checker run on the programs the implementation was run on.
   tools/props/C17.py writes `Eval vm_compute in (run_case <sigs> <prog>).` lines after importing this file
   (Core.Syntax is imported last there, so `TTuple` is the assignment target and `TyTuple` the tuple type). *)
From Coq Require Import ZArith String List Bool.
From SV Require Import Core.Syntax Ty.Spec Ty.Model Typing.Model.
From SV Require Extracted.TypingC.
Import ListNotations.

(* (types of all bindings of the wrapped program, approximation flag) of the code as it is: the rule for `int * Any` is the one
   the translator finds in values/types/num/typecheck.rs on this run (fixmul = TypingC.int_mul_any_is_any) *)
Definition run_case (sigs : sigmap) (prog : list stmt) : tmap * bool := solve Extracted.TypingC.int_mul_any_is_any sigs prog.

(* the expression oracle used by the search: type of one closed expression *)
Definition run_expr (e : expr) : ires := infer Extracted.TypingC.int_mul_any_is_any [] [] e.
