(* C17 lemmas about the model of the type checker (Typing/Model.v). *)
From Coq Require Import ZArith String List Bool Lia.
From SV Require Import Core.Syntax Ty.Spec Ty.Model Ty.Proofs Extracted.TypingC Typing.Model.
Import ListNotations.
Open Scope string_scope.
Open Scope list_scope.

(* ------------------------------------------------------------------------------------------------ *)
(* 0. the shape of solve_bindings the model assumes, as re-extracted from the source on every run *)
Lemma extracted_shape :
  solve_breaks_when_stable = true /\ solve_flags_nonconvergence = true /\
  solve_starts_from_never = true /\ solve_updates_by_union = true /\ (0 < iterations)%Z.
Proof. repeat split; reflexivity. Qed.

(* ------------------------------------------------------------------------------------------------ *)
(* 1. one pass: if nothing changed the map is returned as it was, and every binding expression is absorbed *)
Definition absorbed (fixmul : bool) (sigs : sigmap) (m : tmap) (x : string) (b : bexpr) : Prop :=
  ires_eqb (join (get m x) (bind_type fixmul sigs m b)) (get m x) = true.

Section Pass.
  Variable fixmul : bool.
  Variable sigs : sigmap.

  Lemma step1_false x acc b m' :
    step1 fixmul sigs x acc b = (m', false) -> snd acc = false /\ m' = fst acc /\ absorbed fixmul sigs (fst acc) x b.
  Proof.
    destruct acc as [m ch]. unfold step1, absorbed. simpl.
    destruct (ires_eqb (join (get m x) (bind_type fixmul sigs m b)) (get m x)) eqn:E; intro H; inversion H; subst; auto.
  Qed.

  Lemma step1_changed_sticky x m b : snd (step1 fixmul sigs x (m, true) b) = true.
  Proof. unfold step1. destruct (ires_eqb _ _); reflexivity. Qed.

  Lemma fold_step1_true x bs m : snd (fold_left (step1 fixmul sigs x) bs (m, true)) = true.
  Proof.
    revert m. induction bs as [|b bs IH]; intro m; cbn [fold_left]; [reflexivity|].
    destruct (step1 fixmul sigs x (m, true) b) as [m1 c1] eqn:E.
    assert (c1 = true) by (pose proof (step1_changed_sticky x m b) as H; rewrite E in H; exact H).
    subst. apply IH.
  Qed.

  Lemma fold_step1_false x bs m m' :
    fold_left (step1 fixmul sigs x) bs (m, false) = (m', false) ->
    m' = m /\ forall b, In b bs -> absorbed fixmul sigs m x b.
  Proof.
    revert m. induction bs as [|b bs IH]; intros m H; cbn [fold_left] in H.
    - inversion H. split; [reflexivity | intros ? []].
    - destruct (step1 fixmul sigs x (m, false) b) as [m1 c1] eqn:E.
      destruct c1.
      + pose proof (fold_step1_true x bs m1) as T. rewrite H in T. discriminate.
      + apply step1_false in E. cbn [fst snd] in E. destruct E as (_ & -> & A).
        apply IH in H. destruct H as [-> Hs]. split; [reflexivity|].
        intros b' [<- | Hin]; auto.
  Qed.

  Lemma step_name_true xb m : snd (step_name fixmul sigs (m, true) xb) = true.
  Proof. unfold step_name. apply fold_step1_true. Qed.

  Lemma fold_step_name_true bs m : snd (fold_left (step_name fixmul sigs) bs (m, true)) = true.
  Proof.
    revert m. induction bs as [|xb bs IH]; intro m; cbn [fold_left]; [reflexivity|].
    destruct (step_name fixmul sigs (m, true) xb) as [m1 c1] eqn:E.
    assert (c1 = true) by (pose proof (step_name_true xb m) as H; rewrite E in H; exact H).
    subst. apply IH.
  Qed.

  Lemma fold_step_name_false bs m m' :
    fold_left (step_name fixmul sigs) bs (m, false) = (m', false) ->
    m' = m /\ forall x es b, In (x, es) bs -> In b es -> absorbed fixmul sigs m x b.
  Proof.
    revert m. induction bs as [|[x es] bs IH]; intros m H; cbn [fold_left] in H.
    - inversion H. split; [reflexivity | intros ? ? ? []].
    - destruct (step_name fixmul sigs (m, false) (x, es)) as [m1 c1] eqn:E.
      destruct c1.
      + pose proof (fold_step_name_true bs m1) as T. rewrite H in T. discriminate.
      + unfold step_name in E. cbn [fst snd] in E. apply fold_step1_false in E. destruct E as [-> A].
        apply IH in H. destruct H as [-> Hs]. split; [reflexivity|].
        intros x' es' b [Heq | Hin] Hb.
        * inversion Heq; subst. apply A; assumption.
        * eapply Hs; eassumption.
  Qed.

  (* a pass that reports "unchanged" returned the map it was given, and the map absorbs every binding expression *)
  Lemma step_stable bs m m' :
    step fixmul sigs bs m = (m', false) ->
    m' = m /\ forall x es b, In (x, es) bs -> In b es -> absorbed fixmul sigs m x b.
  Proof. unfold step. apply fold_step_name_false. Qed.

  (* 2. the loop: structurally bounded by n; an unflagged result either made no pass at all (n = 0) or is stable *)
  Lemma solve_loop_unflagged bs : forall n m c m',
    solve_loop fixmul sigs bs n m c = (m', false) ->
    (n = O /\ c = false /\ m' = m) \/ step fixmul sigs bs m' = (m', false).
  Proof.
    induction n as [|k IH]; intros m c m' H; simpl in H.
    - inversion H; subst. left. auto.
    - destruct (step fixmul sigs bs m) as [m1 ch] eqn:E. destruct ch.
      + apply IH in H. destruct H as [(-> & Hc & _) | H]; [discriminate | right; exact H].
      + inversion H; subst. right.
        pose proof (step_stable _ _ _ E) as [-> _]. exact E.
  Qed.

  (* the number of passes never exceeds the bound: the loop is a structural recursion on n, and with n passes
     exhausted while still changing the flag is raised *)
  Fixpoint passes (bs : list (string * list bexpr)) (n : nat) (m : tmap) : nat :=
    match n with
    | O => O
    | S k => let (m', ch) := step fixmul sigs bs m in if ch then S (passes bs k m') else 1%nat
    end.
  Lemma passes_bounded bs : forall n m, (passes bs n m <= n)%nat.
  Proof.
    induction n as [|k IH]; intro m; simpl; [lia|].
    destruct (step fixmul sigs bs m) as [m' ch]. destruct ch; [specialize (IH m'); lia | lia].
  Qed.
  Lemma exhausted_is_flagged bs : forall n m c m' f,
    solve_loop fixmul sigs bs n m c = (m', f) -> passes bs n m = n -> (0 < n)%nat ->
    f = true \/ step fixmul sigs bs m' = (m', false).
  Proof.
    induction n as [|k IH]; intros m c m' f H P Hn; [lia|]. simpl in H, P.
    destruct (step fixmul sigs bs m) as [m1 ch] eqn:E. destruct ch.
    - destruct k as [|k'].
      + simpl in H. inversion H; subst. left; reflexivity.
      + eapply IH; [exact H | lia | lia].
    - inversion H; subst. right. pose proof (step_stable _ _ _ E) as [-> _]. exact E.
  Qed.
End Pass.

(* ------------------------------------------------------------------------------------------------ *)
(* 3. what absorption means for values: union2 never loses a value of either side *)
Lemma ires_eqb_eq a b : ires_eqb a b = true -> a = b.
Proof.
  destruct a, b; simpl; intro H; try discriminate; try reflexivity.
  apply ty_eqb_eq in H. subst. reflexivity.
Qed.

Lemma u2_right a b v : denote b v = true -> denote (u2 a b) v = true.
Proof.
  intro H. unfold u2, unions_top. apply unions_widen. unfold dalts. simpl. rewrite H. rewrite orb_true_r. reflexivity.
Qed.
Lemma u2_left a b v : denote a v = true -> denote (u2 a b) v = true.
Proof.
  intro H. unfold u2, unions_top. apply unions_widen. unfold dalts. simpl. rewrite H. reflexivity.
Qed.
Lemma us_in ts t v : In t ts -> denote t v = true -> denote (us ts) v = true.
Proof.
  intros Hin H. unfold us, unions_top. apply unions_widen. unfold dalts.
  apply existsb_exists. exists t. split; assumption.
Qed.

Lemma absorbed_denote fixmul sigs m x b t tx v :
  absorbed fixmul sigs m x b -> bind_type fixmul sigs m b = IOk t -> get m x = IOk tx ->
  denote t v = true -> denote tx v = true.
Proof.
  unfold absorbed. intros A Hb Hx Hv. rewrite Hb, Hx in A. simpl in A.
  apply ty_eqb_eq in A. rewrite <- A. apply u2_right. exact Hv.
Qed.

(* ------------------------------------------------------------------------------------------------ *)
(* 4. expression soundness for the pure semantics, with the repaired `int * Any` rule *)
Lemma alts_denote t v : denote t v = true -> exists a, In a (alts t) /\ denote a v = true.
Proof.
  intro H. rewrite denote_alts in H. unfold dalts in H. apply existsb_exists in H. exact H.
Qed.

Lemma is_never_false_of_denote t v : denote t v = true -> is_never t = false.
Proof.
  intro H. destruct (is_never t) eqn:E; [|reflexivity].
  rewrite (is_never_denote t v E) in H. discriminate.
Qed.

(* the fragment of expressions whose evaluation the pure semantics and the proof below cover *)
Inductive frag : expr -> Prop :=
| F_none : frag ENone
| F_bool b : frag (EBool b)
| F_int z : frag (EInt z)
| F_str s : frag (EStr s)
| F_var x : frag (EVar x)
| F_not a : frag a -> frag (EUn UNot a)
| F_and a b : frag a -> frag b -> frag (EAnd a b)
| F_or a b : frag a -> frag b -> frag (EOr a b)
| F_if c t f : frag c -> frag t -> frag f -> frag (EIf c t f).

Theorem infer_expr_sound_frag fixmul sigs types rho e :
  frag e -> env_ok types rho ->
  forall t v, infer fixmul sigs types e = IOk t -> peval rho e = Some v -> denote t (abs v) = true.
Proof.
  intros F Henv. induction F; intros t0 v Hi Hp; simpl in Hi, Hp.
  - inversion Hi; inversion Hp; subst; reflexivity.
  - inversion Hi; inversion Hp; subst; reflexivity.
  - inversion Hi; inversion Hp; subst; reflexivity.
  - inversion Hi; inversion Hp; subst; reflexivity.
  - destruct (lookup x types) as [r|] eqn:L; [|discriminate]. subst r. eapply Henv; eassumption.
  - destruct (infer fixmul sigs types a) as [ta| |] eqn:Ia; simpl in Hi; try discriminate.
    destruct (peval rho a) as [va|] eqn:Pa; simpl in Hp; [|discriminate]. inversion Hp; subst.
    pose proof (IHF ta va eq_refl eq_refl) as D.
    rewrite (is_never_false_of_denote _ _ D) in Hi. inversion Hi; subst. reflexivity.
  - destruct (infer fixmul sigs types a) as [ta| |] eqn:Ia; simpl in Hi; try discriminate.
    destruct (infer fixmul sigs types b) as [tb| |] eqn:Ib; simpl in Hi; try discriminate.
    destruct (peval rho a) as [va|] eqn:Pa; [|discriminate].
    pose proof (IHF1 ta va eq_refl eq_refl) as D.
    rewrite (is_never_false_of_denote _ _ D) in Hi. inversion Hi; subst.
    destruct (truthy va).
    + apply u2_right. eapply IHF2; [reflexivity | exact Hp].
    + inversion Hp; subst. apply u2_left. exact D.
  - destruct (infer fixmul sigs types a) as [ta| |] eqn:Ia; simpl in Hi; try discriminate.
    destruct (infer fixmul sigs types b) as [tb| |] eqn:Ib; simpl in Hi; try discriminate.
    destruct (peval rho a) as [va|] eqn:Pa; [|discriminate].
    pose proof (IHF1 ta va eq_refl eq_refl) as D.
    rewrite (is_never_false_of_denote _ _ D) in Hi. inversion Hi; subst.
    destruct (truthy va).
    + inversion Hp; subst. apply u2_left. exact D.
    + apply u2_right. eapply IHF2; [reflexivity | exact Hp].
  - destruct (infer fixmul sigs types c) as [tc| |] eqn:Ic; simpl in Hi; try discriminate.
    destruct (infer fixmul sigs types t) as [tt| |] eqn:It; simpl in Hi; try discriminate.
    destruct (infer fixmul sigs types f) as [tf| |] eqn:If_; simpl in Hi; try discriminate.
    destruct (peval rho c) as [vc|] eqn:Pc; [|discriminate].
    pose proof (IHF1 tc vc eq_refl eq_refl) as D.
    rewrite (is_never_false_of_denote _ _ D) in Hi. inversion Hi; subst.
    destruct (truthy vc).
    + apply u2_left. eapply IHF2; [reflexivity | exact Hp].
    + apply u2_right. eapply IHF3; [reflexivity | exact Hp].
Qed.

(* the faithful `int * Any` rule (typecheck_num_bin_op: Mul is in the class of Add) is unsound: 3 * s with s = "a" *)
Theorem infer_expr_sound_refuted :
  exists types rho e t v,
    env_ok types rho /\ infer false [] types e = IOk t /\ peval rho e = Some v /\ denote t (abs v) = false.
Proof.
  exists [("s", IOk TAny)], [("s", PStr "a")], (EBin BMul (EInt 3) (EVar "s")), int_or_float, (PStr "aaa").
  split.
  - intros x t v H1 H2. simpl in H1. destruct (String.eqb x "s"); [|discriminate]. inversion H1; subst. reflexivity.
  - split; [vm_compute; reflexivity|]. split; vm_compute; reflexivity.
Qed.

(* with the repaired rule the same expression is typed Any *)
Lemma repaired_witness : infer true [] [("s", IOk TAny)] (EBin BMul (EInt 3) (EVar "s")) = IOk TAny.
Proof. vm_compute. reflexivity. Qed.

(* completeness on the fragment: no diagnostic (IErr) is produced for it when the environment holds none *)
Theorem frag_no_error fixmul sigs types e :
  frag e -> (forall x, lookup x types <> Some IErr) -> infer fixmul sigs types e <> IErr.
Proof.
  intros F Henv. induction F; simpl; try discriminate.
  - destruct (lookup x types) as [r|] eqn:L; [|discriminate]. intro; subst. apply (Henv x). exact L.
  - destruct (infer fixmul sigs types a) as [ta| |]; simpl; try congruence. destruct (is_never ta); discriminate.
  - destruct (infer fixmul sigs types a) as [ta| |]; simpl; try congruence.
    destruct (infer fixmul sigs types b) as [tb| |]; simpl; try congruence. destruct (is_never ta); discriminate.
  - destruct (infer fixmul sigs types a) as [ta| |]; simpl; try congruence.
    destruct (infer fixmul sigs types b) as [tb| |]; simpl; try congruence. destruct (is_never ta); discriminate.
  - destruct (infer fixmul sigs types c) as [tc| |]; simpl; try congruence.
    destruct (infer fixmul sigs types t) as [tt| |]; simpl; try congruence.
    destruct (infer fixmul sigs types f) as [tf| |]; simpl; try congruence. destruct (is_never tc); discriminate.
Qed.

(* ------------------------------------------------------------------------------------------------ *)
(* 5. the statements at the level of `solve` *)
Lemma iterations_pos : exists k, Z.to_nat iterations = S k.
Proof. vm_compute. eexists. reflexivity. Qed.

Theorem solve_unflagged_stable fixmul sigs prog m :
  solve fixmul sigs prog = (m, false) ->
  step fixmul sigs (group (flat_map stmt_binds prog)) m = (m, false).
Proof.
  unfold solve. intro H. apply solve_loop_unflagged in H. destruct H as [(Hn & _) | H]; [|exact H].
  destruct iterations_pos as [k Hk]. rewrite Hk in Hn. discriminate.
Qed.

Theorem solve_post_fixpoint fixmul sigs prog m :
  solve fixmul sigs prog = (m, false) ->
  forall x es b, In (x, es) (group (flat_map stmt_binds prog)) -> In b es -> absorbed fixmul sigs m x b.
Proof.
  intros H. apply solve_unflagged_stable in H. apply step_stable in H. destruct H as [_ H]. exact H.
Qed.
