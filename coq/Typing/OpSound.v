(* C17: soundness of expression typing for the operator fragment (Typing/Model.v `infer` against `peval`).

   1. every type `infer` commits to is well formed (`wf_ty`, the invariant of Ty::unions) when the environment's are;
   2. per-operator soundness lemmas (displays, unary, each family of binary operators, indexing, slicing, builtins);
   3. `infer_expr_sound_ops`: for an expression that satisfies the boolean side condition `sound_ops` (which excludes
      exactly the two rules of the checker that the model REFUTES: `int * Any` (code as it was: fixmul = false) and the
      slice of a union with a typing.Iterable alternative; the slice of a fixed-arity tuple, refuted until the repair
      0f4399a of expr_slice_basic, is now covered), the value belongs to the inferred type;
   4. the three refutation witnesses. *)
From Coq Require Import ZArith String Ascii List Bool Lia.
From SV Require Import Core.Syntax Core.Slice Ty.Spec Ty.Model Ty.Proofs Extracted.TypingC Typing.Model Typing.Proofs.
Import ListNotations.
Open Scope string_scope.
Open Scope list_scope.

(* ------------------------------------------------------------------------------------------------ *)
(* 0. an induction principle for expressions that reaches through displays, slice bounds and arguments *)
Section ExprInd.
  Variable P : expr -> Prop.
  Definition optP (o : option expr) : Prop := match o with Some e => P e | None => True end.
  Hypothesis H_none : P ENone.
  Hypothesis H_bool : forall b, P (EBool b).
  Hypothesis H_int : forall z, P (EInt z).
  Hypothesis H_str : forall s, P (EStr s).
  Hypothesis H_var : forall x, P (EVar x).
  Hypothesis H_tuple : forall es, Forall P es -> P (ETuple es).
  Hypothesis H_list : forall es, Forall P es -> P (EList es).
  Hypothesis H_dict : forall kvs, Forall (fun kv => P (fst kv) /\ P (snd kv)) kvs -> P (EDict kvs).
  Hypothesis H_un : forall o a, P a -> P (EUn o a).
  Hypothesis H_bin : forall o a b, P a -> P b -> P (EBin o a b).
  Hypothesis H_and : forall a b, P a -> P b -> P (EAnd a b).
  Hypothesis H_or : forall a b, P a -> P b -> P (EOr a b).
  Hypothesis H_if : forall c t f, P c -> P t -> P f -> P (EIf c t f).
  Hypothesis H_index : forall a i, P a -> P i -> P (EIndex a i).
  Hypothesis H_slice : forall a lo hi st, P a -> optP lo -> optP hi -> optP st -> P (ESlice a lo hi st).
  Hypothesis H_call : forall f args kw st ds, Forall P args -> P (ECall f args kw st ds).
  Hypothesis H_meth : forall r m args kw, P (EMeth r m args kw).
  Hypothesis H_lambda : forall ps b, P (ELambda ps b).
  Definition clauseP (c : clause) : Prop := match c with CFor _ e => P e | CIf e => P e end.
  Hypothesis H_listcomp : forall e cls, P e -> Forall clauseP cls -> P (EListComp e cls).
  Hypothesis H_dictcomp : forall k v cls, P k -> P v -> Forall clauseP cls -> P (EDictComp k v cls).

  Fixpoint expr_ind' (e : expr) : P e :=
    match e with
    | ENone => H_none
    | EBool b => H_bool b
    | EInt z => H_int z
    | EStr s => H_str s
    | EVar x => H_var x
    | ETuple es => H_tuple es ((fix go (l : list expr) : Forall P l :=
                                 match l with [] => Forall_nil _ | x :: r => Forall_cons x (expr_ind' x) (go r) end) es)
    | EList es => H_list es ((fix go (l : list expr) : Forall P l :=
                                match l with [] => Forall_nil _ | x :: r => Forall_cons x (expr_ind' x) (go r) end) es)
    | EDict kvs => H_dict kvs ((fix go (l : list (expr * expr)) : Forall (fun kv => P (fst kv) /\ P (snd kv)) l :=
                                  match l with
                                  | [] => Forall_nil _
                                  | (k, w) :: r => Forall_cons (k, w) (conj (expr_ind' k) (expr_ind' w)) (go r)
                                  end) kvs)
    | EUn o a => H_un o a (expr_ind' a)
    | EBin o a b => H_bin o a b (expr_ind' a) (expr_ind' b)
    | EAnd a b => H_and a b (expr_ind' a) (expr_ind' b)
    | EOr a b => H_or a b (expr_ind' a) (expr_ind' b)
    | EIf c t f => H_if c t f (expr_ind' c) (expr_ind' t) (expr_ind' f)
    | EIndex a i => H_index a i (expr_ind' a) (expr_ind' i)
    | ESlice a lo hi st =>
        H_slice a lo hi st (expr_ind' a)
          (match lo return optP lo with Some x => expr_ind' x | None => I end)
          (match hi return optP hi with Some x => expr_ind' x | None => I end)
          (match st return optP st with Some x => expr_ind' x | None => I end)
    | ECall f args kw st ds =>
        H_call f args kw st ds ((fix go (l : list expr) : Forall P l :=
                                   match l with [] => Forall_nil _ | x :: r => Forall_cons x (expr_ind' x) (go r) end) args)
    | EMeth r m args kw => H_meth r m args kw
    | ELambda ps b => H_lambda ps b
    | EListComp b cls =>
        H_listcomp b cls (expr_ind' b)
          ((fix go (l : list clause) : Forall clauseP l :=
              match l with
              | [] => Forall_nil _
              | c :: r => Forall_cons c (match c return clauseP c with CFor _ x => expr_ind' x | CIf x => expr_ind' x end) (go r)
              end) cls)
    | EDictComp k v cls =>
        H_dictcomp k v cls (expr_ind' k) (expr_ind' v)
          ((fix go (l : list clause) : Forall clauseP l :=
              match l with
              | [] => Forall_nil _
              | c :: r => Forall_cons c (match c return clauseP c with CFor _ x => expr_ind' x | CIf x => expr_ind' x end) (go r)
              end) cls)
    end.
End ExprInd.

(* ------------------------------------------------------------------------------------------------ *)
(* 1. well-formedness of everything the checker computes *)
Definition wf (t : ty) : Prop := wf_ty t = true.

Lemma us_wf ts : Forall wf ts -> wf (us ts).
Proof. intro H. unfold us, unions_top. apply unions_wf. exact H. Qed.
Lemma u2_wf' a b : wf a -> wf b -> wf (u2 a b).
Proof. intros. unfold u2. apply (us_wf [a; b]). repeat constructor; assumption. Qed.

Lemma wf_alts t a : wf t -> In a (alts t) -> wf a.
Proof.
  intros W Hin. destruct (is_any t) eqn:A.
  - destruct t; simpl in A; try discriminate; simpl in Hin.
    + destruct Hin as [<-|[]]. reflexivity.
    + destruct ts as [|x [|y r]]; try discriminate. simpl in A. destruct x; discriminate.
  - pose proof (alts_ok t W A) as H. rewrite forallb_forall in H. apply H in Hin.
    unfold okalt in Hin. apply andb_prop in Hin. apply Hin.
Qed.
Lemma wf_alts_basic t a : wf t -> is_any t = false -> In a (alts t) -> is_basic_nonany a = true /\ wf a.
Proof.
  intros W A Hin. pose proof (alts_ok t W A) as H. rewrite forallb_forall in H. apply H in Hin.
  unfold okalt in Hin. apply andb_prop in Hin. exact Hin.
Qed.

(* a value of a well-formed type lies in one of its alternatives, which is a plain constructor unless the type is Any *)
Lemma wf_alt_of t v : wf t -> denote t v = true ->
  is_any t = true \/ (is_any t = false /\ exists a, In a (alts t) /\ denote a v = true /\ is_basic_nonany a = true /\ wf a).
Proof.
  intros W D. destruct (is_any t) eqn:A; [left; reflexivity | right; split; [reflexivity|]].
  destruct (alts_denote t v D) as [a [Hin Da]]. exists a. destruct (wf_alts_basic t a W A Hin). auto.
Qed.

Definition env_wf (types : tmap) : Prop := forall x t, lookup x types = Some (IOk t) -> wf t.
Definition sigs_wf (sigs : sigmap) : Prop :=
  forall f s, lookup f sigs = Some s -> wf (fs_ret s) /\ Forall wf (fs_params s).

Lemma iall_ok_Forall2 {A} (f : A -> ires) (l : list A) ts :
  iall (map f l) = LOk ts -> Forall2 (fun x t => f x = IOk t) l ts.
Proof.
  revert ts. induction l as [|x l IH]; intros ts H; simpl in H.
  - inversion H. constructor.
  - destruct (f x) as [t| |] eqn:E; destruct (iall (map f l)) as [ts'| |]; try discriminate.
    inversion H; subst. constructor; [exact E | apply IH; reflexivity].
Qed.

Lemma iall_wf_gen {A} (f : A -> ires) l ts :
  Forall (fun x => forall t, f x = IOk t -> wf t) l -> iall (map f l) = LOk ts -> Forall wf ts.
Proof.
  intros IH H. apply iall_ok_Forall2 in H. induction H as [|e t es ts' E _ IH2]; constructor.
  - inversion IH; subst. auto.
  - apply IH2. inversion IH; assumption.
Qed.

Lemma wf_int_or_float : wf int_or_float. Proof. reflexivity. Qed.

Lemma bin_basic_wf fixmul op a b r : wf a -> wf b -> bin_basic fixmul op a b = BOk r -> wf r.
Proof.
  intros Wa Wb H. unfold wf in *.
  destruct a as [| |[]| | |e|ts|e|k w|?|?|?|?]; simpl in H; try discriminate; try (inversion H; subst; reflexivity).
  - destruct op; try discriminate; inversion H; reflexivity.
  - (* int *)
    destruct b as [| |[]| | |e|ts|e|k w|?|?|?|?]; try discriminate;
      repeat match type of H with
             | (if ?c then _ else _) = _ => destruct c
             | match ?o with TAdd => _ | _ => _ end = _ => destruct o
             end; try discriminate; inversion H; subst; try reflexivity; exact Wb.
  - destruct op; try discriminate; inversion H; reflexivity.
  - (* list *)
    destruct op; try discriminate.
    + destruct b; try discriminate; inversion H; subst; try reflexivity.
      simpl. apply u2_wf'; [exact Wa | exact Wb].
    + destruct b as [| |[]| | |?|?|?|? ?|?|?|?|?]; try discriminate; inversion H; subst; exact Wa.
    + destruct (binter _ _); try discriminate; inversion H; reflexivity.
    + destruct (inter _ _); try discriminate; inversion H; reflexivity.
  - destruct op; try discriminate; inversion H; reflexivity.
  - destruct op; try discriminate; inversion H; reflexivity.
  - (* dict *)
    destruct op; try discriminate.
    + destruct b; try discriminate. inversion H; subst. apply u2_wf'; [exact Wa | exact Wb].
    + destruct (inter _ _); try discriminate; inversion H; reflexivity.
Qed.

Lemma goods_in r rs : In (BOk r) rs -> In r (goods rs).
Proof.
  induction rs as [|x rs IH]; intro H; [destruct H|]. destruct H as [->|H]; simpl.
  - left; reflexivity.
  - destruct x; [right|]; auto.
Qed.
Lemma goods_inv r rs : In r (goods rs) -> In (BOk r) rs.
Proof.
  induction rs as [|x rs IH]; intro H; [destruct H|]. destruct x; simpl in H.
  - destruct H as [->|H]; [left; reflexivity | right; auto].
  - right; auto.
Qed.

Lemma bin_op_ty_wf fixmul op ta tb t : wf ta -> wf tb -> bin_op_ty fixmul op ta tb = IOk t -> wf t.
Proof.
  intros Wa Wb H. unfold bin_op_ty in H.
  destruct (is_never ta || is_never tb).
  { destruct (always_bool op); inversion H; reflexivity. }
  destruct (existsb is_bunk _); [discriminate|].
  destruct (goods _) as [|g0 gs] eqn:G; [discriminate|].
  destruct (always_bool op); inversion H; subst; [reflexivity|].
  apply us_wf. rewrite Forall_forall. intros r Hr. rewrite <- G in Hr. apply goods_inv in Hr.
  apply in_flat_map in Hr. destruct Hr as [a [Ha Hr]]. apply in_map_iff in Hr. destruct Hr as [b [Hb Hin]].
  eapply bin_basic_wf; [apply (wf_alts ta) | apply (wf_alts tb) | exact Hb]; assumption.
Qed.

Lemma expr_bin_op_wf fixmul o ta tb t : wf ta -> wf tb -> expr_bin_op fixmul o ta tb = IOk t -> wf t.
Proof.
  intros Wa Wb H. unfold expr_bin_op in H.
  destruct o; simpl in H;
    try (eapply bin_op_ty_wf; [| | exact H]; assumption);
    destruct (inter _ _); try discriminate; destruct (is_never ta || is_never tb); inversion H; reflexivity.
Qed.

Lemma union_simple_wf f t r :
  wf t -> (forall a x, wf a -> f a = Some x -> wf x) -> union_simple f t = IOk r -> wf r.
Proof.
  intros W Hf H. unfold union_simple in H.
  destruct (is_any t || is_never t); [inversion H; subst; exact W|].
  assert (G : forall g, (forall x, In x g -> exists a, In a (alts t) /\ f a = Some x) -> Forall wf g).
  { intros g Hg. rewrite Forall_forall. intros x Hx. destruct (Hg x Hx) as [a [Ha Fa]].
    eapply Hf; [|exact Fa]. eapply wf_alts; eassumption. }
  assert (FM : forall x, In x (flat_map (fun x => match f x with Some r => [r] | None => [] end) (alts t)) ->
                         exists a, In a (alts t) /\ f a = Some x).
  { intros x Hx. apply in_flat_map in Hx. destruct Hx as [a [Ha Hx]]. exists a. split; [exact Ha|].
    destruct (f a); [destruct Hx as [->|[]]; reflexivity | destruct Hx]. }
  destruct (alts t) as [|a [|b rest]] eqn:E.
  - simpl in H. discriminate.
  - destruct (f a) eqn:Fa; [|discriminate]. inversion H; subst. eapply Hf; [|exact Fa].
    eapply wf_alts; [exact W|]. rewrite E. left; reflexivity.
  - destruct (flat_map _ _) as [|g0 gs] eqn:G0; [discriminate|]. inversion H; subst.
    apply us_wf. apply G. exact FM.
Qed.

Lemma item_ty_wf t : wf t -> wf (item_ty t).
Proof.
  intro W. destruct t; try reflexivity; simpl.
  - apply us_wf. unfold wf in W. simpl in W. rewrite forallb_forall in W. rewrite Forall_forall. exact W.
  - exact W.
Qed.

Lemma iter_basic_wf a x : wf a -> iter_basic a = Some x -> wf x.
Proof.
  intros W H. destruct a as [| |[]| | |e|ts|e|k w|?|?|?|?]; simpl in H; try discriminate; inversion H; subst; try reflexivity;
    try exact W.
  - apply (item_ty_wf (TTuple ts)). exact W.
  - unfold wf in *. simpl in W. apply andb_prop in W. apply W.
Qed.
Lemma iter_item_wf t r : wf t -> iter_item t = IOk r -> wf r.
Proof. intros W H. eapply union_simple_wf; [exact W | | exact H]. intros. eapply iter_basic_wf; eassumption. Qed.

Lemma index_basic_wf a i x : wf a -> index_basic a i = Some x -> wf x.
Proof.
  intros W H. destruct a as [| |[]| | |e|ts|e|k w|?|?|?|?]; simpl in H; try discriminate;
    try (inversion H; subst; reflexivity).
  - destruct (binter _ _); [|discriminate]. inversion H; subst. exact W.
  - destruct (binter _ _); [|discriminate]. inversion H; subst. apply (item_ty_wf (TTuple ts)). exact W.
  - destruct (binter _ _); [|discriminate]. inversion H; subst. exact W.
  - destruct (inter _ _); [|discriminate]. inversion H; subst. unfold wf in *. simpl in W. apply andb_prop in W. apply W.
  - destruct (inter _ _); [|discriminate]. inversion H; subst. exact W.
Qed.

Lemma slice_basic_wf a x : wf a -> slice_basic a = Some x -> wf x.
Proof.
  intros W H. destruct a as [| |[]| | |e|ts|e|k w|?|?|?|?]; simpl in H; try discriminate; inversion H; subst; try exact W.
  - change (wf (item_ty (TTuple ts))). apply item_ty_wf. exact W.
Qed.

Lemma expr_index_wf ta ti t : wf ta -> expr_index ta ti = IOk t -> wf t.
Proof.
  intros W H. unfold expr_index in H.
  destruct (is_any ta || is_never ta); [inversion H; subst; exact W|].
  destruct (is_never ti); [inversion H; reflexivity|].
  destruct (flat_map _ _) as [|g0 gs] eqn:G; [discriminate|]. inversion H; subst.
  apply us_wf. rewrite Forall_forall. intros x Hx. rewrite <- G in Hx.
  apply in_flat_map in Hx. destruct Hx as [a [Ha Hx]]. apply in_flat_map in Hx. destruct Hx as [i [Hi Hx]].
  destruct (index_basic a i) eqn:E; [|destruct Hx]. destruct Hx as [->|[]].
  eapply index_basic_wf; [|exact E]. eapply wf_alts; eassumption.
Qed.

Lemma builtin_ret_wf f t : builtin_ret f = IOk t -> wf t.
Proof.
  unfold builtin_ret. intro H.
  repeat match type of H with (if ?c then _ else _) = _ => destruct c; [inversion H; reflexivity|] end.
  discriminate.
Qed.

Section InferWf.
  Variable fixmul : bool.
  Variable sigs : sigmap.
  Variable types : tmap.
  Hypothesis Hsigs : sigs_wf sigs.
  Hypothesis Henv : env_wf types.
  Local Notation inf := (infer fixmul sigs types).

  Lemma iall_wf es ts : Forall (fun e => forall t, inf e = IOk t -> wf t) es -> iall (map inf es) = LOk ts -> Forall wf ts.
  Proof. apply iall_wf_gen. Qed.

  Theorem infer_wf : forall e t, inf e = IOk t -> wf t.
  Proof.
    induction e using expr_ind'; intros t0 Hi; simpl in Hi.
    - inversion Hi; reflexivity.
    - inversion Hi; reflexivity.
    - inversion Hi; reflexivity.
    - inversion Hi; reflexivity.
    - destruct (lookup x types) as [r|] eqn:L; [|discriminate]. subst r. eapply Henv; exact L.
    - destruct (iall (map inf es)) as [ts| |] eqn:E; try discriminate. simpl in Hi. inversion Hi; subst.
      pose proof (iall_wf _ _ H E) as W. unfold wf. simpl. apply forallb_forall. rewrite Forall_forall in W. exact W.
    - destruct (iall (map inf es)) as [ts| |] eqn:E; try discriminate. simpl in Hi. inversion Hi; subst.
      apply (us_wf ts). eapply iall_wf; eassumption.
    - destruct (iall (map (fun kv => match kv with (k, _) => inf k end) kvs)) as [ks| |] eqn:Ek; try discriminate. simpl in Hi.
      destruct (iall (map (fun kv => match kv with (_, v) => inf v end) kvs)) as [vs| |] eqn:Ev; try discriminate. simpl in Hi.
      inversion Hi; subst. unfold wf. simpl.
      assert (Wk : Forall wf ks).
      { eapply iall_wf_gen; [|exact Ek]. eapply Forall_impl; [|exact H]. intros [k w] [Hk _]. exact Hk. }
      assert (Wv : Forall wf vs).
      { eapply iall_wf_gen; [|exact Ev]. eapply Forall_impl; [|exact H]. intros [k w] [_ Hw]. exact Hw. }
      rewrite (us_wf ks Wk), (us_wf vs Wv). reflexivity.
    - destruct (inf e) as [ta| |] eqn:Ia; destruct o; simpl in Hi; try discriminate;
        try (eapply union_simple_wf; [apply IHe; reflexivity | | exact Hi];
             intros a x Wa Fa; destruct a as [| |[]| | |?|?|?|? ?|?|?|?|?]; simpl in Fa; try discriminate; inversion Fa; reflexivity).
      destruct (is_never ta); inversion Hi; reflexivity.
    - destruct (inf e1) as [ta| |] eqn:Ia; simpl in Hi; try discriminate.
      destruct (inf e2) as [tb| |] eqn:Ib; simpl in Hi; try discriminate.
      eapply expr_bin_op_wf; [apply IHe1; reflexivity | apply IHe2; reflexivity | exact Hi].
    - destruct (inf e1) as [ta| |] eqn:Ia; simpl in Hi; try discriminate.
      destruct (inf e2) as [tb| |] eqn:Ib; simpl in Hi; try discriminate.
      destruct (is_never ta); inversion Hi; subst; [reflexivity|]. apply u2_wf'; auto.
    - destruct (inf e1) as [ta| |] eqn:Ia; simpl in Hi; try discriminate.
      destruct (inf e2) as [tb| |] eqn:Ib; simpl in Hi; try discriminate.
      destruct (is_never ta); inversion Hi; subst; [reflexivity|]. apply u2_wf'; auto.
    - destruct (inf e1) as [tc| |] eqn:Ic; simpl in Hi; try discriminate.
      destruct (inf e2) as [tt| |] eqn:It; simpl in Hi; try discriminate.
      destruct (inf e3) as [tf| |] eqn:If_; simpl in Hi; try discriminate.
      destruct (is_never tc); inversion Hi; subst; [reflexivity|]. apply u2_wf'; auto.
    - destruct (inf e1) as [ta| |] eqn:Ia; simpl in Hi; try discriminate.
      destruct (inf e2) as [ti| |] eqn:Ii; simpl in Hi; try discriminate.
      eapply expr_index_wf; [apply IHe1; reflexivity | exact Hi].
    - destruct (check_opt inf lo); simpl in Hi; try discriminate.
      destruct (check_opt inf hi); simpl in Hi; try discriminate.
      destruct (check_opt inf st); simpl in Hi; try discriminate.
      destruct (inf e) as [ta| |] eqn:Ia; simpl in Hi; try discriminate.
      eapply union_simple_wf; [apply IHe; reflexivity | | exact Hi].
      intros a x Wa Fa. eapply slice_basic_wf; eassumption.
    - destruct e; try discriminate. destruct kw; try discriminate. destruct st; try discriminate. destruct ds; try discriminate.
      destruct (iall (map inf args)) as [ts| |] eqn:E; try discriminate. simpl in Hi.
      destruct (lookup x sigs) as [s|] eqn:Ls.
      + unfold call_sig in Hi. destruct (_ && _); [|discriminate]. inversion Hi; subst. apply (Hsigs _ _ Ls).
      + destruct (lookup x types); [discriminate|].
        destruct (String.eqb x "list").
        * destruct ts as [|t1 [|? ?]]; try discriminate.
          destruct (iter_item t1) as [r| |] eqn:R; simpl in Hi; try discriminate. inversion Hi; subst.
          pose proof (iall_wf _ _ H E) as W. inversion W; subst.
          change (wf r). eapply iter_item_wf; eassumption.
        * eapply builtin_ret_wf; exact Hi.
    - discriminate.
    - discriminate.
    - destruct (check_clauses inf cls); simpl in Hi; try discriminate.
      destruct (inf e) as [tb| |] eqn:Ib; simpl in Hi; try discriminate. inversion Hi; subst.
      change (wf tb). apply IHe. reflexivity.
    - destruct (check_clauses inf cls); simpl in Hi; try discriminate.
      destruct (inf e1) as [tk| |] eqn:Ik; simpl in Hi; try discriminate.
      destruct (inf e2) as [tv| |] eqn:Iv; simpl in Hi; try discriminate. inversion Hi; subst.
      unfold wf. simpl. rewrite (IHe1 _ eq_refl), (IHe2 _ eq_refl). reflexivity.
  Qed.
End InferWf.

(* ------------------------------------------------------------------------------------------------ *)
(* 2. per-operator soundness *)
Arguments u2 : simpl never.
Arguments us : simpl never.
Arguments inter : simpl never.
Arguments binter : simpl never.

Notation den t v := (denote t (abs v) = true).

(* which types contain a value of a given kind *)
Lemma den_int a big : denote a (VInt big) = true -> a = TAny \/ a = TBase BInt \/ exists ts, a = TUnion ts.
Proof. destruct a as [| |[]| | |?|?|?|? ?|?|?|?|?]; simpl; intro H; try discriminate; eauto. Qed.
Lemma den_str a : denote a VStr = true -> a = TAny \/ a = TBase BStr \/ exists ts, a = TUnion ts.
Proof. destruct a as [| |[]| | |?|?|?|? ?|?|?|?|?]; simpl; intro H; try discriminate; eauto. Qed.
Lemma den_list a vs : denote a (VList vs) = true ->
  a = TAny \/ a = TIter \/ (exists e, a = TList e /\ forallb (denote e) vs = true) \/ exists ts, a = TUnion ts.
Proof. destruct a as [| |[]| | |?|?|?|? ?|?|?|?|?]; simpl; intro H; try discriminate; eauto 6. Qed.
Lemma den_tuple a vs : denote a (VTuple vs) = true ->
  a = TAny \/ a = TIter \/ (exists ts, a = TTuple ts /\ forall2b denote ts vs = true)
  \/ (exists e, a = TTupleOf e /\ forallb (denote e) vs = true) \/ exists ts, a = TUnion ts.
Proof. destruct a as [| |[]| | |?|?|?|? ?|?|?|?|?]; simpl; intro H; try discriminate; eauto 7. Qed.
Lemma den_dict a kvs : denote a (VDict kvs) = true ->
  a = TAny \/ a = TIter \/ (exists k w, a = TDict k w /\ forallb (fun kv => denote k (fst kv) && denote w (snd kv)) kvs = true)
  \/ exists ts, a = TUnion ts.
Proof. destruct a as [| |[]| | |?|?|?|? ?|?|?|?|?]; simpl; intro H; try discriminate; eauto 7. Qed.

Lemma basic_alts a : is_basic_nonany a = true -> alts a = [a].
Proof. destruct a; simpl; intro H; try discriminate; reflexivity. Qed.

(* a value of a well-formed type lies in an alternative that is Any or a plain constructor *)
Lemma alt_of t v : wf t -> denote t v = true ->
  exists a, In a (alts t) /\ denote a v = true /\ wf a /\ (a = TAny \/ is_basic_nonany a = true).
Proof.
  intros W D. destruct (wf_alt_of t v W D) as [A | [A [a (Hin & Da & Ba & Wa)]]].
  - exists TAny. unfold is_any in A. destruct (alts t) as [|[] [|? ?]] eqn:E; try discriminate.
    repeat split; auto. left; reflexivity.
  - exists a. auto.
Qed.

(* ---- displays ---- *)
Lemma Forall2_in_r {A B} (R : A -> B -> Prop) l l' y : Forall2 R l l' -> In y l' -> exists x, In x l /\ R x y.
Proof.
  induction 1 as [|x y' l l' Rxy _ IH]; intro Hin; [destruct Hin|].
  destruct Hin as [<-|Hin]; [exists x; split; [left; reflexivity | exact Rxy]|].
  destruct (IH Hin) as [x' [Hx R']]. exists x'. split; [right; exact Hx | exact R'].
Qed.

Lemma tuple_display_sound ts vs : Forall2 (fun t v => den t v) ts vs -> den (TTuple ts) (PTuple vs).
Proof. intro H. simpl. induction H as [|t v ts vs D _ IH]; simpl; [reflexivity|]. rewrite D. exact IH. Qed.

Lemma list_display_sound ts vs : Forall2 (fun t v => den t v) ts vs -> den (TList (us ts)) (PList vs).
Proof.
  intro H. simpl. rewrite forallb_map. apply forallb_forall. intros v Hin.
  destruct (Forall2_in_r _ _ _ _ H Hin) as [t [Ht D]]. eapply us_in; eassumption.
Qed.

Lemma dict_display_sound ks vs (kvs : list (pv * pv)) :
  Forall2 (fun t kv => den t (fst kv)) ks kvs -> Forall2 (fun t kv => den t (snd kv)) vs kvs ->
  den (TDict (us ks) (us vs)) (PDict kvs).
Proof.
  intros Hk Hv. simpl. rewrite forallb_map. apply forallb_forall. intros [k w] Hin. simpl.
  destruct (Forall2_in_r _ _ _ _ Hk Hin) as [tk [Htk Dk]]. destruct (Forall2_in_r _ _ _ _ Hv Hin) as [tv [Htv Dv]].
  simpl in Dk, Dv. rewrite (us_in _ _ _ Htk Dk), (us_in _ _ _ Htv Dv). reflexivity.
Qed.

(* ---- typecheck_union_simple: the alternative that holds the value decides ---- *)
Lemma union_simple_sound f t r v v' :
  wf t -> denote t v = true -> union_simple f t = IOk r ->
  (forall a, In a (alts t) -> is_basic_nonany a = true -> wf a -> denote a v = true ->
             exists x, f a = Some x /\ denote x v' = true) ->
  denote r v' = true.
Proof.
  intros W D H Hf. unfold union_simple in H.
  destruct (wf_alt_of t v W D) as [A | [A [a (Hin & Da & Ba & Wa)]]].
  - rewrite A in H. simpl in H. inversion H; subst. apply is_any_denote. exact A.
  - rewrite A, (is_never_false_of_denote _ _ D) in H. cbn [orb] in H.
    destruct (Hf a Hin Ba Wa Da) as [x [Fa Dx]].
    assert (Hx : In x (flat_map (fun y => match f y with Some r => [r] | None => [] end) (alts t))).
    { apply in_flat_map. exists a. split; [exact Hin|]. rewrite Fa. left; reflexivity. }
    destruct (alts t) as [|a0 [|a1 rest]] eqn:E.
    + destruct Hin.
    + destruct Hin as [->|[]]. cbv beta iota in H. rewrite Fa in H. inversion H; subst. exact Dx.
    + cbv beta iota in H. destruct (flat_map _ _) as [|g0 gs] eqn:G; [simpl in Hx; contradiction|]. inversion H; subst.
      eapply us_in; [exact Hx | exact Dx].
Qed.

(* ---- unary + - ~ on ints ---- *)
Lemma unary_sound o t r z :
  wf t -> den t (PInt z) -> match o with UNot => False | _ => True end ->
  union_simple (un_basic o) t = IOk r -> forall z', den r (PInt z').
Proof.
  intros W D Ho H z'. eapply union_simple_sound; [exact W | exact D | exact H|].
  intros a _ Ba _ Da. simpl in Da. destruct (den_int _ _ Da) as [->|[->|[ts ->]]]; try discriminate.
  exists (TBase BInt). split; [destruct o; try reflexivity; destruct Ho | reflexivity].
Qed.

(* ---- expr_bin_op_ty: the pair of alternatives that holds the operands decides ---- *)
Lemma bin_op_ty_bool fixmul op ta tb t : always_bool op = true -> bin_op_ty fixmul op ta tb = IOk t -> t = tbool.
Proof.
  intros B H. unfold bin_op_ty in H. rewrite B in H.
  destruct (is_never ta || is_never tb); [inversion H; reflexivity|].
  destruct (existsb is_bunk _); [discriminate|]. destruct (goods _); [discriminate|]. inversion H; reflexivity.
Qed.

Lemma bin_op_ty_pair fixmul op ta tb t a b va vb :
  bin_op_ty fixmul op ta tb = IOk t -> always_bool op = false ->
  denote ta va = true -> denote tb vb = true -> In a (alts ta) -> In b (alts tb) ->
  exists r, bin_basic fixmul op a b = BOk r /\ forall w, denote r w = true -> denote t w = true.
Proof.
  intros H B Da Db Ha Hb. unfold bin_op_ty in H.
  rewrite (is_never_false_of_denote _ _ Da), (is_never_false_of_denote _ _ Db), B in H. simpl in H.
  set (rs := flat_map (fun a => map (fun b => bin_basic fixmul op a b) (alts tb)) (alts ta)) in *.
  assert (Hin : In (bin_basic fixmul op a b) rs).
  { apply in_flat_map. exists a. split; [exact Ha|]. apply in_map. exact Hb. }
  destruct (existsb is_bunk rs) eqn:U; [discriminate|].
  destruct (bin_basic fixmul op a b) as [r|] eqn:E.
  - exists r. split; [reflexivity|]. intros w Dw. apply goods_in in Hin.
    destruct (goods rs) as [|g0 gs] eqn:G; [destruct Hin|]. inversion H; subst. eapply us_in; [exact Hin | exact Dw].
  - exfalso. assert (X : existsb is_bunk rs = true) by (apply existsb_exists; exists BUnk; split; [exact Hin | reflexivity]).
    rewrite X in U. discriminate.
Qed.

(* the one numeric rule the model refutes: int * Any through typecheck_num_bin_op *)
Definition mul_bad (fixmul : bool) (op : tbop) (a b : ty) : bool :=
  negb fixmul && is_mul op && (match a with TBase BInt => true | _ => false end) && is_TAny b.

Definition arith_of (o : binop) : bool :=
  match o with BAdd | BSub | BMul | BFloorDiv | BMod | BAnd | BOr | BXor | BShl | BShr => true | _ => false end.

(* int OP int for the ten arithmetic and bitwise operators *)
Lemma int_int_sound fixmul o op a b r x y z :
  tbop_of o = Some op -> arith_of o = true -> mul_bad fixmul op a b = false ->
  den a (PInt x) -> den b (PInt y) -> bin_basic fixmul op a b = BOk r -> den r (PInt z).
Proof.
  intros Ho Ao Mb Da Db H. simpl in Da, Db.
  destruct (den_int _ _ Da) as [->|[->|[ts ->]]]; [inversion H; reflexivity | | discriminate].
  destruct (den_int _ _ Db) as [->|[->|[ts ->]]]; [| | discriminate];
    destruct o; try discriminate; inversion Ho; subst; simpl in H; simpl in Mb;
    destruct fixmul; simpl in *; try discriminate; inversion H; reflexivity.
Qed.

(* str + str, str * int, int * str: the derived bin_op_ty of str answers Any; the rhs fall-back answers Any *)
Lemma str_ops_sound fixmul o op a b r va vb s :
  tbop_of o = Some op -> (o = BAdd \/ o = BMul) -> mul_bad fixmul op a b = false ->
  (exists x, va = PStr x) \/ (exists n x, va = PInt n /\ vb = PStr x /\ o = BMul) ->
  den a va -> den b vb -> bin_basic fixmul op a b = BOk r -> den r (PStr s).
Proof.
  intros Ho Oo Mb Hv Da Db H.
  destruct Hv as [[x ->] | (n & x & -> & -> & ->)]; simpl in Da, Db.
  - destruct (den_str _ Da) as [->|[->|[ts ->]]]; [inversion H; reflexivity | | discriminate].
    destruct Oo as [-> | ->]; inversion Ho; subst; simpl in H; inversion H; reflexivity.
  - inversion Ho; subst.
    destruct (den_int _ _ Da) as [->|[->|[ts ->]]]; [inversion H; reflexivity | | discriminate].
    destruct (den_str _ Db) as [->|[->|[ts ->]]]; [| | discriminate]; simpl in H, Mb.
    + destruct fixmul; simpl in *; [inversion H; reflexivity | discriminate].
    + inversion H; reflexivity.
Qed.

Lemma forallb_app {A} (f : A -> bool) l1 l2 : forallb f (l1 ++ l2) = forallb f l1 && forallb f l2.
Proof. induction l1; simpl; [reflexivity|]. rewrite IHl1, andb_assoc. reflexivity. Qed.
Lemma forallb_repeat_list {A} (f : A -> bool) n l : forallb f l = true -> forallb f (repeat_list n l) = true.
Proof. intro H. induction n; simpl; [reflexivity|]. rewrite forallb_app, H, IHn. reflexivity. Qed.
Lemma forallb_any vs : forallb (denote TAny) vs = true.
Proof. induction vs; simpl; auto. Qed.

(* list + list *)
Lemma list_add_sound fixmul a b r x y :
  den a (PList x) -> den b (PList y) -> bin_basic fixmul TAdd a b = BOk r -> den r (PList (x ++ y)).
Proof.
  intros Da Db H. simpl in Da, Db.
  destruct (den_list _ _ Da) as [->|[->|[[e [-> Fe]]|[ts ->]]]]; try (inversion H; reflexivity).
  destruct (den_list _ _ Db) as [->|[->|[[f [-> Ff]]|[ts ->]]]]; simpl in H; try discriminate; inversion H; subst; simpl.
  - apply forallb_any.
  - rewrite map_app, forallb_app. apply andb_true_intro. split.
    + rewrite forallb_map. rewrite forallb_map in Fe. eapply forallb_impl; [|exact Fe]. intros w Hw. apply u2_left. exact Hw.
    + rewrite forallb_map. rewrite forallb_map in Ff. eapply forallb_impl; [|exact Ff]. intros w Hw. apply u2_right. exact Hw.
Qed.

(* list * int and int * list *)
Lemma den_list_repeat e k x : forallb (denote e) (map abs x) = true -> forallb (denote e) (map abs (repeat_list k x)) = true.
Proof.
  intro H. induction k; simpl; [reflexivity|]. rewrite map_app, forallb_app, H, IHk. reflexivity.
Qed.
Lemma list_mul_sound fixmul a b r x n k :
  mul_bad fixmul TMul a b = false ->
  (den a (PList x) /\ den b (PInt n)) \/ (den a (PInt n) /\ den b (PList x)) ->
  bin_basic fixmul TMul a b = BOk r -> den r (PList (repeat_list k x)).
Proof.
  intros Mb [[Da Db]|[Da Db]] H; simpl in Da, Db.
  - destruct (den_list _ _ Da) as [->|[->|[[e [-> Fe]]|[ts ->]]]]; try (inversion H; reflexivity).
    destruct (den_int _ _ Db) as [->|[->|[ts ->]]]; simpl in H; try discriminate; inversion H; subst; simpl;
      apply den_list_repeat; exact Fe.
  - destruct (den_int _ _ Da) as [->|[->|[ts ->]]]; [inversion H; reflexivity | | discriminate].
    destruct (den_list _ _ Db) as [->|[->|[[e [-> Fe]]|[ts ->]]]]; simpl in H, Mb; try discriminate.
    + destruct fixmul; simpl in *; [inversion H; reflexivity | discriminate].
    + inversion H; subst. simpl. apply den_list_repeat; exact Fe.
Qed.

(* tuple + tuple, tuple * int: Any; int * tuple: tuple[Any, ...] *)
Lemma tuple_ops_sound fixmul o op a b r va vb l :
  tbop_of o = Some op -> mul_bad fixmul op a b = false ->
  (exists x, va = PTuple x /\ (o = BAdd \/ o = BMul)) \/ (exists n x, va = PInt n /\ vb = PTuple x /\ o = BMul) ->
  den a va -> den b vb -> bin_basic fixmul op a b = BOk r -> den r (PTuple l).
Proof.
  intros Ho Mb Hv Da Db H.
  destruct Hv as [(x & -> & Oo) | (n & x & -> & -> & ->)]; simpl in Da, Db.
  - destruct (den_tuple _ _ Da) as [->|[->|[[ts [-> _]]|[[e [-> _]]|[ts ->]]]]]; try (inversion H; reflexivity); try discriminate;
      destruct Oo as [-> | ->]; inversion Ho; subst; simpl in H; inversion H; reflexivity.
  - inversion Ho; subst.
    destruct (den_int _ _ Da) as [->|[->|[ts ->]]]; [inversion H; reflexivity | | discriminate].
    destruct (den_tuple _ _ Db) as [->|[->|[[ts [-> _]]|[[e [-> _]]|[ts ->]]]]]; simpl in H, Mb; try discriminate.
    + destruct fixmul; simpl in *; [inversion H; reflexivity | discriminate].
    + inversion H; subst. simpl. apply forallb_any.
    + inversion H; subst. simpl. apply forallb_any.
Qed.

(* assembly: every arithmetic / bitwise operator on every pair of operand kinds the semantics defines *)
Lemma bin_basic_sound fixmul o op a b r va vb v :
  tbop_of o = Some op -> arith_of o = true -> mul_bad fixmul op a b = false ->
  den a va -> den b vb -> bin_basic fixmul op a b = BOk r -> bin_sem o va vb = Some v -> den r v.
Proof.
  intros Ho Ao Mb Da Db H Hs.
  destruct va as [| |x|x|x|x|x], vb as [| |y|y|y|y|y];
    try (destruct o; simpl in Hs; discriminate).
  - (* int int *)
    assert (exists z, v = PInt z) as [z ->].
    { destruct o; simpl in Hs; try discriminate;
        repeat match type of Hs with context [if ?c then _ else _] => destruct c; simpl in Hs end;
        try discriminate; inversion Hs; eauto. }
    eapply int_int_sound; eassumption.
  - (* int str *)
    destruct o; simpl in Hs; try discriminate. inversion Hs; subst.
    eapply str_ops_sound; try eassumption; eauto 8.
  - (* int list *)
    destruct o; simpl in Hs; try discriminate. inversion Hs; subst. inversion Ho; subst.
    eapply list_mul_sound; try eassumption. right. split; eassumption.
  - (* int tuple *)
    destruct o; simpl in Hs; try discriminate. inversion Hs; subst.
    eapply tuple_ops_sound; try eassumption; eauto 8.
  - (* str int *)
    destruct o; simpl in Hs; try discriminate. inversion Hs; subst.
    eapply str_ops_sound; try eassumption; eauto.
  - (* str str *)
    destruct o; simpl in Hs; try discriminate. inversion Hs; subst.
    eapply str_ops_sound; try eassumption; eauto.
  - (* list int *)
    destruct o; simpl in Hs; try discriminate. inversion Hs; subst. inversion Ho; subst.
    eapply list_mul_sound; try eassumption. left. split; eassumption.
  - (* list list *)
    destruct o; simpl in Hs; try discriminate. inversion Hs; subst. inversion Ho; subst.
    eapply list_add_sound; eassumption.
  - (* tuple int *)
    destruct o; simpl in Hs; try discriminate. inversion Hs; subst.
    eapply tuple_ops_sound; try eassumption; eauto 8.
  - (* tuple tuple *)
    destruct o; simpl in Hs; try discriminate. inversion Hs; subst.
    eapply tuple_ops_sound; try eassumption; eauto 8.
Qed.

(* comparisons, equality and membership always produce a bool *)
Lemma bin_sem_bool o va vb v :
  arith_of o = false -> bin_sem o va vb = Some v -> exists b, v = PBool b.
Proof.
  intros Ao H. destruct o; try discriminate; simpl in H;
    try (destruct (scalar_eqb va vb); simpl in H; try discriminate; inversion H; eauto);
    try (destruct (in_sem va vb); simpl in H; try discriminate; inversion H; eauto);
    destruct va, vb; try discriminate;
    match type of H with option_map _ ?c = _ => destruct c; simpl in H; try discriminate; inversion H; eauto end.
Qed.

(* ---- expr_bin_op: all binary operators ---- *)
Definition has_int (t : ty) : bool := existsb (fun a => match a with TBase BInt => true | _ => false end) (alts t).
(* `int * Any` goes through typecheck_num_bin_op (refuted below); everything else is kept *)
Definition mul_ok (fixmul : bool) (ta tb : ty) : bool := fixmul || negb (has_int ta && is_any tb).

Lemma any_alt_is_any t : wf t -> In TAny (alts t) -> is_any t = true.
Proof.
  intros W Hin. destruct (is_any t) eqn:A; [reflexivity|].
  destruct (wf_alts_basic t TAny W A Hin) as [B _]. discriminate.
Qed.

Lemma expr_bin_op_sound fixmul o ta tb t va vb v :
  wf ta -> wf tb -> (o = BMul -> mul_ok fixmul ta tb = true) ->
  den ta va -> den tb vb -> expr_bin_op fixmul o ta tb = IOk t -> bin_sem o va vb = Some v -> den t v.
Proof.
  intros Wa Wb Hm Da Db H Hs. destruct (arith_of o) eqn:Ao.
  - assert (exists op, tbop_of o = Some op /\ always_bool op = false /\ bin_op_ty fixmul op ta tb = IOk t /\ (is_mul op = true -> o = BMul))
      as (op & Ho & Bo & Hb & Hmul).
    { destruct o; try discriminate; simpl in H; eexists; repeat split; try exact H; try reflexivity; intro X; try discriminate X; reflexivity. }
    destruct (alt_of ta _ Wa Da) as (a & Ha & Daa & Waa & Ka).
    destruct (alt_of tb _ Wb Db) as (b & Hb' & Dbb & Wbb & Kb).
    destruct (bin_op_ty_pair _ _ _ _ _ a b _ _ Hb Bo Da Db Ha Hb') as (r & Hr & Sub).
    apply Sub. apply (bin_basic_sound fixmul o op a b r va vb v Ho Ao); [| exact Daa | exact Dbb | exact Hr | exact Hs].
    unfold mul_bad. destruct (is_mul op) eqn:M; [|rewrite andb_false_r; reflexivity].
    specialize (Hm (Hmul eq_refl)). unfold mul_ok in Hm. destruct fixmul; [reflexivity|]. simpl in Hm. simpl.
    destruct a as [| |[]| | |?|?|?|? ?|?|?|?|?]; try reflexivity.
    destruct b; try reflexivity. simpl.
    assert (X : has_int ta = true) by (apply existsb_exists; exists (TBase BInt); split; [exact Ha | reflexivity]).
    rewrite X, (any_alt_is_any tb Wb Hb') in Hm. discriminate.
  - destruct (bin_sem_bool _ _ _ _ Ao Hs) as [bb ->].
    assert (t = tbool); [|subst; reflexivity].
    unfold expr_bin_op in H. destruct o; try discriminate Ao; simpl in H;
      try (eapply bin_op_ty_bool; [|exact H]; reflexivity).
    + destruct (inter _ _); [|discriminate].
      rewrite (is_never_false_of_denote _ _ Da), (is_never_false_of_denote _ _ Db) in H. inversion H; reflexivity.
    + destruct (inter _ _); [|discriminate].
      rewrite (is_never_false_of_denote _ _ Da), (is_never_false_of_denote _ _ Db) in H. inversion H; reflexivity.
Qed.

(* ---- indexing ---- *)
Definition index_sem (va vi : pv) : option pv :=
  match va, vi with
  | PList l, PInt z | PTuple l, PInt z => seq_index l z
  | PDict kvs, k => dict_find kvs k
  | _, _ => None
  end.
Lemma peval_index rho a i :
  peval rho (EIndex a i) = match peval rho a, peval rho i with Some va, Some vi => index_sem va vi | _, _ => None end.
Proof. simpl. destruct (peval rho a) as [[]|]; destruct (peval rho i) as [[]|]; reflexivity. Qed.

Definition is_scalar (v : pv) : bool := match v with PNone | PBool _ | PInt _ | PStr _ => true | _ => false end.
Lemma scalar_eqb_abs a b : scalar_eqb a b = Some true -> abs a = abs b /\ is_scalar a = true.
Proof. destruct a, b; simpl; intro H; try discriminate; split; reflexivity. Qed.
Lemma dict_find_in kvs k w : dict_find kvs k = Some w -> exists k', In (k', w) kvs /\ scalar_eqb k k' = Some true.
Proof.
  induction kvs as [|[k' w'] r IH]; simpl; intro H; [discriminate|].
  destruct (scalar_eqb k k') as [[]|] eqn:E.
  - inversion H; subst. exists k'. split; [left; reflexivity | exact E].
  - destruct (IH H) as [k2 [Hin E2]]. exists k2. split; [right; exact Hin | exact E2].
  - destruct (IH H) as [k2 [Hin E2]]. exists k2. split; [right; exact Hin | exact E2].
Qed.
Lemma seq_index_in l z v : seq_index l z = Some v -> In v l.
Proof.
  unfold seq_index. intro H. destruct (Z.ltb _ 0); [discriminate|]. eapply nth_error_In; exact H.
Qed.
Lemma scalar_basic a v : is_scalar v = true -> is_basic_nonany a = true -> den a v -> exists b, a = TBase b /\ has_base b (abs v) = true.
Proof.
  intros S B D. destruct a; try discriminate B; destruct v; try discriminate S; simpl in D; try discriminate D; eauto.
Qed.
Lemma has_base_inj b b' v : has_base b v = true -> has_base b' v = true -> b = b'.
Proof.
  unfold has_base. destruct (base_of v) as [c|]; [|discriminate]. intros H1 H2.
  apply base_eqb_eq in H1. apply base_eqb_eq in H2. congruence.
Qed.

Lemma inter_scalar i K v :
  (i = TAny \/ is_basic_nonany i = true) -> wf K -> is_scalar v = true -> den i v -> den K v -> inter i K = true.
Proof.
  intros Hi WK S Di DK. unfold inter. cbn [intersects].
  destruct Hi as [->|Bi]; [reflexivity|].
  destruct (scalar_basic i v S Bi Di) as [b [-> Hb]].
  destruct (wf_alt_of K _ WK DK) as [A | [A [k0 (Hin & Dk0 & Bk0 & Wk0)]]].
  - rewrite A. rewrite orb_true_r. reflexivity.
  - destruct (scalar_basic k0 v S Bk0 Dk0) as [b' [-> Hb']].
    rewrite (has_base_inj _ _ _ Hb' Hb) in Hin.
    match goal with |- (if ?c then _ else _) = true => destruct c; [reflexivity|] end.
    simpl. rewrite orb_false_r. apply existsb_exists. exists (TBase b). split; [exact Hin|].
    unfold basic_inter. destruct b; reflexivity.
Qed.

Lemma forall2b_in (ts : list ty) (vs : list value) w :
  forall2b denote ts vs = true -> In w vs -> exists t, In t ts /\ denote t w = true.
Proof.
  revert vs. induction ts as [|t ts IH]; intros [|v vs] H Hin; simpl in H; try discriminate; [destruct Hin|].
  apply andb_prop in H. destruct H as [H1 H2]. destruct Hin as [<-|Hin].
  - exists t. split; [left; reflexivity | exact H1].
  - destruct (IH vs H2 Hin) as [t' [Ht D]]. exists t'. split; [right; exact Ht | exact D].
Qed.

Lemma int_index_ok i z : (i = TAny \/ is_basic_nonany i = true) -> den i (PInt z) -> binter i tint = true.
Proof.
  intros Hi D. simpl in D. destruct (den_int _ _ D) as [->|[->|[ts ->]]]; try reflexivity.
  destruct Hi as [X|X]; discriminate X.
Qed.

Lemma index_basic_sound a i va vi v :
  is_basic_nonany a = true -> wf a -> (i = TAny \/ is_basic_nonany i = true) ->
  den a va -> den i vi -> index_sem va vi = Some v -> exists x, index_basic a i = Some x /\ den x v.
Proof.
  intros Ba Wa Hi Da Di Hs. destruct va as [| |x|x|l|l|kvs]; try discriminate Hs.
  - destruct vi; try discriminate Hs. simpl in Hs. apply seq_index_in in Hs. simpl in Da.
    destruct (den_list _ _ Da) as [->|[->|[[e [-> Fe]]|[ts ->]]]]; try discriminate Ba.
    + exists TAny. split; reflexivity.
    + exists e. simpl. rewrite (int_index_ok _ _ Hi Di). split; [reflexivity|].
      rewrite forallb_forall in Fe. apply Fe. apply in_map. exact Hs.
  - destruct vi; try discriminate Hs. simpl in Hs. apply seq_index_in in Hs. simpl in Da.
    destruct (den_tuple _ _ Da) as [->|[->|[[ts [-> Fe]]|[[e [-> Fe]]|[ts ->]]]]]; try discriminate Ba.
    + exists TAny. split; reflexivity.
    + exists (us ts). simpl. rewrite (int_index_ok _ _ Hi Di). split; [reflexivity|].
      destruct (forall2b_in _ _ (abs v) Fe (in_map abs _ _ Hs)) as [t [Ht D]]. eapply us_in; eassumption.
    + exists e. simpl. rewrite (int_index_ok _ _ Hi Di). split; [reflexivity|].
      rewrite forallb_forall in Fe. apply Fe. apply in_map. exact Hs.
  - assert (Hf : dict_find kvs vi = Some v) by (destruct vi; exact Hs). clear Hs.
    destruct (dict_find_in _ _ _ Hf) as [k' [Hin E]]. destruct (scalar_eqb_abs _ _ E) as [Eabs Sc]. simpl in Da.
    destruct (den_dict _ _ Da) as [->|[->|[(K & V & -> & F)|[ts ->]]]]; try discriminate Ba.
    + exists TAny. split; reflexivity.
    + rewrite forallb_forall in F.
      specialize (F (abs k', abs v)). simpl in F.
      assert (X : In (abs k', abs v) (map (fun kv : pv * pv => let (k, w) := kv in (abs k, abs w)) kvs)).
      { apply in_map_iff. exists (k', v). split; [reflexivity | exact Hin]. }
      apply F in X. apply andb_prop in X. destruct X as [DK DV].
      exists V. simpl. unfold wf in Wa. simpl in Wa. apply andb_prop in Wa.
      rewrite (inter_scalar i K vi Hi (proj1 Wa) Sc Di); [split; [reflexivity | exact DV]|].
      rewrite Eabs. exact DK.
Qed.

Lemma index_sound ta ti t va vi v :
  wf ta -> wf ti -> den ta va -> den ti vi -> expr_index ta ti = IOk t -> index_sem va vi = Some v -> den t v.
Proof.
  intros Wa Wi Da Di H Hs. unfold expr_index in H.
  destruct (wf_alt_of ta _ Wa Da) as [A | [A [a (Hin & Daa & Ba & Waa)]]].
  - rewrite A in H. simpl in H. inversion H; subst. apply is_any_denote. exact A.
  - rewrite A, (is_never_false_of_denote _ _ Da), (is_never_false_of_denote _ _ Di) in H. cbn [orb] in H.
    destruct (alt_of ti _ Wi Di) as (i & Hi & Dii & Wii & Ki).
    destruct (index_basic_sound a i va vi v Ba Waa Ki Daa Dii Hs) as [x [Ex Dx]].
    assert (Hx : In x (flat_map (fun a => flat_map (fun i => match index_basic a i with Some r => [r] | None => [] end) (alts ti)) (alts ta))).
    { apply in_flat_map. exists a. split; [exact Hin|]. apply in_flat_map. exists i. split; [exact Hi|]. rewrite Ex. left; reflexivity. }
    destruct (flat_map _ _) as [|g0 gs] eqn:G; [simpl in Hx; contradiction|]. inversion H; subst.
    eapply us_in; [exact Hx | exact Dx].
Qed.

(* ---- slicing ---- *)
Definition is_iter (a : ty) : bool := match a with TIter => true | _ => false end.
(* expr_slice_basic has no rule for a typing.Iterable alternative, which typecheck_union_simple then drops (refuted below).
   Tuple types, fixed-arity or homogeneous, are covered: since the repair 0f4399a they slice to tuple[T0 | .. | Tn-1, ...]. *)
Definition slice_ok (t : ty) : bool := negb (existsb is_iter (alts t)).

Lemma walk_incl {A} fuel (xs : list A) i stop step x : In x (walk fuel xs i stop step) -> In x xs.
Proof.
  revert i. induction fuel as [|f IH]; intros i H; simpl in H; [destruct H|].
  destruct (if (0 <? step)%Z then (i <? stop)%Z else (stop <? i)%Z); [|destruct H].
  apply in_app_or in H. destruct H as [H|H]; [|eapply IH; exact H].
  destruct (nth_error xs (Z.to_nat i)) eqn:E; [|destruct H]. destruct H as [<-|[]]. eapply nth_error_In; exact E.
Qed.
Lemma slice_spec_incl {A} (xs r : list A) lo hi st x : slice_spec xs lo hi st = Some r -> In x r -> In x xs.
Proof.
  unfold slice_spec. destruct (convert_slice_indices _ _ _ _) as [[[a b] s]|]; [|discriminate].
  intros H Hin. assert (E : r = walk (S (length xs)) xs a b s) by congruence.
  rewrite E in Hin. eapply walk_incl; exact Hin.
Qed.

Lemma slice_sound ta t va lo hi st v :
  wf ta -> slice_ok ta = true -> den ta va -> union_simple slice_basic ta = IOk t -> slice_sem va lo hi st = Some v -> den t v.
Proof.
  intros W Ok D H Hs. eapply union_simple_sound; [exact W | exact D | exact H|].
  intros a Hin Ba Wa Da.
  assert (Na : is_iter a = false).
  { unfold slice_ok in Ok. apply negb_true_iff in Ok. destruct (is_iter a) eqn:X; [|reflexivity].
    assert (Y : existsb is_iter (alts ta) = true) by (apply existsb_exists; exists a; auto).
    rewrite Y in Ok. discriminate. }
  destruct va as [| |x|s|l|l|kvs]; try discriminate Hs; simpl in Hs, Da.
  - destruct (slice_spec _ lo hi st); [|discriminate]. inversion Hs; subst.
    destruct (den_str _ Da) as [->|[->|[ts ->]]]; try discriminate Ba. exists (TBase BStr). split; reflexivity.
  - destruct (slice_spec l lo hi st) as [l'|] eqn:E; [|discriminate]. inversion Hs; subst.
    destruct (den_list _ _ Da) as [->|[->|[[e [-> Fe]]|[ts ->]]]]; try discriminate Ba; try discriminate Na.
    exists (TList e). split; [reflexivity|]. simpl. rewrite forallb_map. apply forallb_forall. intros w Hw.
    rewrite forallb_forall in Fe. apply Fe. apply in_map. eapply slice_spec_incl; eassumption.
  - destruct (slice_spec l lo hi st) as [l'|] eqn:E; [|discriminate]. inversion Hs; subst.
    destruct (den_tuple _ _ Da) as [->|[->|[[ts [-> Fe]]|[[e [-> Fe]]|[ts ->]]]]]; try discriminate Ba; try discriminate Na.
    + (* fixed arity (T0, .., Tn-1): every element of the slice is an element of the tuple, hence in T0 | .. | Tn-1 *)
      exists (TTupleOf (us ts)). split; [reflexivity|]. simpl. rewrite forallb_map. apply forallb_forall. intros w Hw.
      assert (Hwl : In w l) by (eapply slice_spec_incl; eassumption).
      destruct (forall2b_in _ _ (abs w) Fe (in_map abs _ _ Hwl)) as [t0 [Ht D0]]. eapply us_in; eassumption.
    + exists (TTupleOf e). split; [reflexivity|]. simpl. rewrite forallb_map. apply forallb_forall. intros w Hw.
      rewrite forallb_forall in Fe. apply Fe. apply in_map. eapply slice_spec_incl; eassumption.
Qed.

(* ---- builtins ---- *)
Lemma iter_item_sound t e v l x : wf t -> den t v -> iter_item t = IOk e -> seq_of v = Some l -> In x l -> den e x.
Proof.
  intros W D H Hs Hx. unfold iter_item in H. eapply union_simple_sound; [exact W | exact D | exact H|].
  intros a _ Ba Wa Da. destruct v as [| |z|s|l0|l0|kvs]; try discriminate Hs; simpl in Hs; inversion Hs; subst; simpl in Da.
  - destruct (den_list _ _ Da) as [->|[->|[[e0 [-> Fe]]|[ts ->]]]]; try discriminate Ba.
    + exists TAny. split; reflexivity.
    + exists e0. split; [reflexivity|]. rewrite forallb_forall in Fe. apply Fe. apply in_map. exact Hx.
  - destruct (den_tuple _ _ Da) as [->|[->|[[ts [-> Fe]]|[[e0 [-> Fe]]|[ts ->]]]]]; try discriminate Ba.
    + exists TAny. split; reflexivity.
    + exists (us ts). split; [reflexivity|].
      destruct (forall2b_in _ _ (abs x) Fe (in_map abs _ _ Hx)) as [t0 [Ht D0]]. eapply us_in; eassumption.
    + exists e0. split; [reflexivity|]. rewrite forallb_forall in Fe. apply Fe. apply in_map. exact Hx.
  - destruct (den_dict _ _ Da) as [->|[->|[(K & V & -> & F)|[ts ->]]]]; try discriminate Ba.
    + exists TAny. split; reflexivity.
    + exists K. split; [reflexivity|]. apply in_map_iff in Hx. destruct Hx as [[k w] [<- Hin]].
      rewrite forallb_forall in F. specialize (F (abs k, abs w)). simpl in F.
      assert (X : In (abs k, abs w) (map (fun kv : pv * pv => let (k, w) := kv in (abs k, abs w)) kvs)).
      { apply in_map_iff. exists (k, w). split; [reflexivity | exact Hin]. }
      apply F in X. apply andb_prop in X. apply X.
Qed.

Lemma den_int_list zs : forallb (denote TAny) (map abs (map PInt zs)) = true.
Proof. apply forallb_any. Qed.

Lemma builtin_sound f vs v t :
  String.eqb f "list" = false -> builtin_ret f = IOk t -> builtin_sem f vs = Some v -> den t v.
Proof.
  intros NL R S. unfold builtin_ret in R. unfold builtin_sem in S.
  destruct (String.eqb f "len").
  { inversion R; subst. destruct vs as [|[] [|? ?]]; try discriminate; inversion S; reflexivity. }
  destruct (String.eqb f "str").
  { inversion R; subst. destruct vs as [|[] [|? ?]]; try discriminate; inversion S; reflexivity. }
  destruct (String.eqb f "bool").
  { inversion R; subst. destruct vs as [|? [|? ?]]; try discriminate; inversion S; reflexivity. }
  destruct (String.eqb f "int").
  { inversion R; subst. destruct vs as [|[] [|? ?]]; try discriminate; inversion S; reflexivity. }
  destruct (String.eqb f "any").
  { inversion R; subst. destruct vs as [|v1 [|? ?]]; try discriminate. destruct (seq_of v1); try discriminate; inversion S; reflexivity. }
  destruct (String.eqb f "all").
  { inversion R; subst. destruct vs as [|v1 [|? ?]]; try discriminate. destruct (seq_of v1); try discriminate; inversion S; reflexivity. }
  destruct (String.eqb f "abs").
  { inversion R; subst. destruct vs as [|[] [|? ?]]; try discriminate; inversion S; reflexivity. }
  destruct (String.eqb f "min"); [inversion R; reflexivity|].
  destruct (String.eqb f "max"); [inversion R; reflexivity|].
  destruct (String.eqb f "sorted").
  { inversion R; subst. destruct vs as [|v1 [|? ?]]; try discriminate. destruct (seq_of v1) as [l|]; try discriminate.
    destruct (ints_of l); try discriminate. inversion S; subst. simpl. apply forallb_any. }
  rewrite NL in S. discriminate.
Qed.

(* ------------------------------------------------------------------------------------------------ *)
(* 3. the side condition and the soundness theorem for the operator fragment *)
Section SoundOps.
  Variable fixmul : bool.
  Variable sigs : sigmap.
  Variable types : tmap.
  Local Notation inf := (infer fixmul sigs types).

  Definition mul_ok_e (ra rb : ires) : bool :=
    match ra, rb with IOk ta, IOk tb => mul_ok fixmul ta tb | _, _ => true end.
  Definition slice_ok_e (ra : ires) : bool := match ra with IOk ta => slice_ok ta | _ => true end.
  Definition opt_ok (f : expr -> bool) (o : option expr) : bool := match o with Some e => f e | None => true end.

  (* the expressions of the pure semantics, minus the rules of the checker that the model refutes:
       a * b   where a has an `int` alternative and b is Any        (unless the repaired rule is used)
       a[i:j]  where a has a typing.Iterable alternative
     and a call must be a call of a builtin (the name is not a def of the module) *)
  Fixpoint sound_ops (e : expr) : bool :=
    match e with
    | ENone | EBool _ | EInt _ | EStr _ | EVar _ => true
    | ETuple es | EList es => forallb sound_ops es
    | EDict kvs => forallb (fun kv => match kv with (k, w) => sound_ops k && sound_ops w end) kvs
    | EUn _ a => sound_ops a
    | EBin o a b => sound_ops a && sound_ops b && match o with BMul => mul_ok_e (inf a) (inf b) | _ => true end
    | EAnd a b | EOr a b | EIndex a b => sound_ops a && sound_ops b
    | EIf c t f => sound_ops c && sound_ops t && sound_ops f
    | ESlice a lo hi st =>
        sound_ops a && opt_ok sound_ops lo && opt_ok sound_ops hi && opt_ok sound_ops st && slice_ok_e (inf a)
    | ECall (EVar f) args [] None None =>
        forallb sound_ops args && match lookup f sigs with None => true | Some _ => false end
    | _ => false
    end.

  Variable rho : list (string * pv).
  Hypothesis Hsigs : sigs_wf sigs.
  Hypothesis Hwf : env_wf types.
  Hypothesis Henv : env_ok types rho.

  Definition sound_at (e : expr) : Prop :=
    forall t v, sound_ops e = true -> inf e = IOk t -> peval rho e = Some v -> den t v.

  Lemma mapo_cons {A B} (f : A -> option B) a r :
    mapo f (a :: r) = match f a, mapo f r with Some b, Some br => Some (b :: br) | _, _ => None end.
  Proof. reflexivity. Qed.

  Lemma all_sound es : Forall sound_at es -> forallb sound_ops es = true ->
    forall ts vs, iall (map inf es) = LOk ts -> mapo (peval rho) es = Some vs -> Forall2 (fun t v => den t v) ts vs.
  Proof.
    induction 1 as [|e es He _ IH]; intros So ts vs Hi Hp.
    - simpl in Hi, Hp. inversion Hi; inversion Hp; subst. constructor.
    - simpl in So. apply andb_prop in So. destruct So as [So1 So2].
      rewrite mapo_cons in Hp. simpl in Hi.
      destruct (inf e) as [t| |] eqn:Ie; destruct (iall (map inf es)) as [ts'| |]; try discriminate.
      destruct (peval rho e) as [v|] eqn:Pe; [|discriminate]. destruct (mapo (peval rho) es) as [vs'|]; [|discriminate].
      inversion Hi; inversion Hp; subst. constructor; [apply He; assumption | apply IH; auto].
  Qed.

  Lemma dict_sound kvs :
    Forall (fun kv => sound_at (fst kv) /\ sound_at (snd kv)) kvs ->
    forallb (fun kv => match kv with (k, w) => sound_ops k && sound_ops w end) kvs = true ->
    forall ks vs ps,
      iall (map (fun kv => match kv with (k, _) => inf k end) kvs) = LOk ks ->
      iall (map (fun kv => match kv with (_, w) => inf w end) kvs) = LOk vs ->
      mapo (fun kv => match kv with (k, w) =>
              match peval rho k, peval rho w with Some a, Some b => Some (a, b) | _, _ => None end end) kvs = Some ps ->
      Forall2 (fun t kv => den t (fst kv)) ks ps /\ Forall2 (fun t kv => den t (snd kv)) vs ps.
  Proof.
    induction 1 as [|[k w] kvs [Hk Hw] _ IH]; intros So ks vs ps Hik Hiv Hp.
    - simpl in Hik, Hiv, Hp. inversion Hik; inversion Hiv; inversion Hp; subst. split; constructor.
    - simpl in So. apply andb_prop in So. destruct So as [So1 So2]. apply andb_prop in So1. destruct So1 as [Sk Sw].
      rewrite mapo_cons in Hp. simpl in Hik, Hiv, Hk, Hw.
      destruct (inf k) as [tk| |] eqn:Ik;
        destruct (iall (map (fun kv => match kv with (k, _) => inf k end) kvs)) as [ks'| |]; try discriminate.
      destruct (inf w) as [tw| |] eqn:Iw;
        destruct (iall (map (fun kv => match kv with (_, w) => inf w end) kvs)) as [vs'| |]; try discriminate.
      destruct (peval rho k) as [vk|] eqn:Pk; [|discriminate]. destruct (peval rho w) as [vw|] eqn:Pw; [|discriminate].
      match type of Hp with match ?m with _ => _ end = _ => destruct m as [ps'|] eqn:M; [|discriminate] end.
      inversion Hik; inversion Hiv; inversion Hp; subst.
      destruct (IH So2 ks' vs' ps' eq_refl eq_refl eq_refl) as [A B].
      split.
      + constructor; [simpl; apply Hk; auto | exact A].
      + constructor; [simpl; apply Hw; auto | exact B].
  Qed.

  Theorem infer_expr_sound_ops : forall e, sound_at e.
  Proof.
    induction e using expr_ind'; intros t0 v So Hi Hp; simpl in So, Hi.
    - simpl in Hp. inversion Hi; inversion Hp; subst; reflexivity.
    - simpl in Hp. inversion Hi; inversion Hp; subst; reflexivity.
    - simpl in Hp. inversion Hi; inversion Hp; subst; reflexivity.
    - simpl in Hp. inversion Hi; inversion Hp; subst; reflexivity.
    - simpl in Hp. destruct (lookup x types) as [r|] eqn:L; [|discriminate]. subst r. eapply Henv; eassumption.
    - (* tuple display *)
      simpl in Hp. destruct (iall (map inf es)) as [ts| |] eqn:E; try discriminate. simpl in Hi. inversion Hi; subst.
      destruct (mapo (peval rho) es) as [vs|] eqn:M; [|discriminate]. simpl in Hp. inversion Hp; subst.
      apply tuple_display_sound. eapply all_sound; eassumption.
    - (* list display *)
      simpl in Hp. destruct (iall (map inf es)) as [ts| |] eqn:E; try discriminate. simpl in Hi. inversion Hi; subst.
      destruct (mapo (peval rho) es) as [vs|] eqn:M; [|discriminate]. simpl in Hp. inversion Hp; subst.
      apply list_display_sound. eapply all_sound; eassumption.
    - (* dict display *)
      simpl in Hp.
      destruct (iall (map (fun kv => match kv with (k, _) => inf k end) kvs)) as [ks| |] eqn:Ek; try discriminate. simpl in Hi.
      destruct (iall (map (fun kv => match kv with (_, w) => inf w end) kvs)) as [vs| |] eqn:Ev; try discriminate. simpl in Hi.
      inversion Hi; subst.
      match type of Hp with option_map _ ?m = _ => destruct m as [ps|] eqn:M; [|discriminate] end.
      simpl in Hp. inversion Hp; subst.
      destruct (dict_sound kvs H So ks vs ps Ek Ev M) as [A B]. apply dict_display_sound; assumption.
    - (* unary *)
      destruct (inf e) as [ta| |] eqn:Ia; try (destruct o; discriminate).
      pose proof (infer_wf fixmul sigs types Hsigs Hwf e ta Ia) as Wa.
      destruct o; simpl in Hi, Hp.
      + destruct (peval rho e) as [[]|] eqn:Pa; try discriminate. inversion Hp; subst.
        apply (unary_sound UNeg ta t0 z Wa (IHe ta (PInt z) So Ia Pa) I Hi).
      + destruct (peval rho e) as [[]|] eqn:Pa; try discriminate. inversion Hp; subst.
        apply (unary_sound UPos ta t0 z Wa (IHe ta (PInt z) So Ia Pa) I Hi).
      + destruct (peval rho e) as [[]|] eqn:Pa; try discriminate. inversion Hp; subst.
        apply (unary_sound UInv ta t0 z Wa (IHe ta (PInt z) So Ia Pa) I Hi).
      + destruct (peval rho e) as [va|] eqn:Pa; simpl in Hp; [|discriminate]. inversion Hp; subst.
        pose proof (IHe ta va So Ia Pa) as D.
        rewrite (is_never_false_of_denote _ _ D) in Hi. inversion Hi; subst. reflexivity.
    - (* binary *)
      apply andb_prop in So. destruct So as [So Sm]. apply andb_prop in So. destruct So as [Sa Sb].
      destruct (inf e1) as [ta| |] eqn:Ia; simpl in Hi; try discriminate.
      destruct (inf e2) as [tb| |] eqn:Ib; simpl in Hi; try discriminate.
      simpl in Hp. destruct (peval rho e1) as [va|] eqn:Pa; [|discriminate]. destruct (peval rho e2) as [vb|] eqn:Pb; [|discriminate].
      eapply (expr_bin_op_sound fixmul o ta tb t0 va vb v).
      + eapply infer_wf; eassumption.
      + eapply infer_wf; eassumption.
      + intros ->. exact Sm.
      + apply IHe1; auto.
      + apply IHe2; auto.
      + exact Hi.
      + exact Hp.
    - (* and *)
      apply andb_prop in So. destruct So as [Sa Sb]. simpl in Hp.
      destruct (inf e1) as [ta| |] eqn:Ia; simpl in Hi; try discriminate.
      destruct (inf e2) as [tb| |] eqn:Ib; simpl in Hi; try discriminate.
      destruct (peval rho e1) as [va|] eqn:Pa; [|discriminate].
      pose proof (IHe1 ta va Sa Ia Pa) as D.
      rewrite (is_never_false_of_denote _ _ D) in Hi. inversion Hi; subst.
      destruct (truthy va).
      + apply u2_right. apply IHe2; auto.
      + inversion Hp; subst. apply u2_left. exact D.
    - (* or *)
      apply andb_prop in So. destruct So as [Sa Sb]. simpl in Hp.
      destruct (inf e1) as [ta| |] eqn:Ia; simpl in Hi; try discriminate.
      destruct (inf e2) as [tb| |] eqn:Ib; simpl in Hi; try discriminate.
      destruct (peval rho e1) as [va|] eqn:Pa; [|discriminate].
      pose proof (IHe1 ta va Sa Ia Pa) as D.
      rewrite (is_never_false_of_denote _ _ D) in Hi. inversion Hi; subst.
      destruct (truthy va).
      + inversion Hp; subst. apply u2_left. exact D.
      + apply u2_right. apply IHe2; auto.
    - (* conditional *)
      apply andb_prop in So. destruct So as [So Sf]. apply andb_prop in So. destruct So as [Sc St]. simpl in Hp.
      destruct (inf e1) as [tc| |] eqn:Ic; simpl in Hi; try discriminate.
      destruct (inf e2) as [tt| |] eqn:It; simpl in Hi; try discriminate.
      destruct (inf e3) as [tf| |] eqn:If_; simpl in Hi; try discriminate.
      destruct (peval rho e1) as [vc|] eqn:Pc; [|discriminate].
      pose proof (IHe1 tc vc Sc Ic Pc) as D.
      rewrite (is_never_false_of_denote _ _ D) in Hi. inversion Hi; subst.
      destruct (truthy vc).
      + apply u2_left. apply IHe2; auto.
      + apply u2_right. apply IHe3; auto.
    - (* index *)
      apply andb_prop in So. destruct So as [Sa Sb]. rewrite peval_index in Hp.
      destruct (inf e1) as [ta| |] eqn:Ia; simpl in Hi; try discriminate.
      destruct (inf e2) as [ti| |] eqn:Ii; simpl in Hi; try discriminate.
      destruct (peval rho e1) as [va|] eqn:Pa; [|discriminate]. destruct (peval rho e2) as [vi|] eqn:Pi; [|discriminate].
      eapply (index_sound ta ti t0 va vi v).
      + eapply infer_wf; eassumption.
      + eapply infer_wf; eassumption.
      + apply IHe1; auto.
      + apply IHe2; auto.
      + exact Hi.
      + exact Hp.
    - (* slice *)
      repeat (apply andb_prop in So; let X := fresh "S" in destruct So as [So X]).
      destruct (check_opt inf lo); simpl in Hi; try discriminate.
      destruct (check_opt inf hi); simpl in Hi; try discriminate.
      destruct (check_opt inf st); simpl in Hi; try discriminate.
      destruct (inf e) as [ta| |] eqn:Ia; simpl in Hi; try discriminate.
      simpl in Hp. destruct (peval rho e) as [va|] eqn:Pa; [|discriminate].
      destruct (peval_opt (peval rho) lo) as [l|]; [|discriminate].
      destruct (peval_opt (peval rho) hi) as [h|]; [|discriminate].
      destruct (peval_opt (peval rho) st) as [s|]; [|discriminate].
      eapply (slice_sound ta t0 va l h s v).
      + eapply infer_wf; eassumption.
      + assumption.
      + apply IHe; auto.
      + exact Hi.
      + exact Hp.
    - (* call of a builtin *)
      destruct e; try discriminate So. destruct kw; try discriminate So. destruct st; try discriminate So.
      destruct ds; try discriminate So. apply andb_prop in So. destruct So as [Sa Sf].
      destruct (lookup x sigs) eqn:Ls; [discriminate Sf|].
      destruct (iall (map inf args)) as [ts| |] eqn:E; try discriminate. simpl in Hi.
      destruct (lookup x types); [discriminate|].
      simpl in Hp. destruct (lookup x rho); [discriminate|].
      destruct (mapo (peval rho) args) as [vs|] eqn:M; [|discriminate].
      pose proof (all_sound args H Sa ts vs E M) as F2.
      destruct (String.eqb x "list") eqn:NL.
      + apply String.eqb_eq in NL. subst x.
        destruct ts as [|t1 [|? ?]]; try discriminate.
        destruct (iter_item t1) as [e0| |] eqn:R; simpl in Hi; try discriminate. inversion Hi; subst.
        inversion F2 as [|? v1 ? vs' D1 F2' ]; subst. inversion F2'; subst.
        change (builtin_sem "list" [v1]) with (option_map PList (seq_of v1)) in Hp.
        destruct (seq_of v1) as [l|] eqn:Sq; [|discriminate]. simpl in Hp. inversion Hp; subst.
        assert (W1 : wf t1).
        { apply iall_ok_Forall2 in E. inversion E as [|a ? ? ? E1 ?]; subst.
          eapply infer_wf; eassumption. }
        simpl. rewrite forallb_map. apply forallb_forall. intros w Hw.
        eapply iter_item_sound; eassumption.
      + eapply builtin_sound; eassumption.
    - discriminate So.
    - discriminate So.
    - discriminate So.
    - discriminate So.
  Qed.
End SoundOps.

(* ------------------------------------------------------------------------------------------------ *)
(* 4. the two rules excluded by `sound_ops` are refuted by the faithful model (fixmul = false); the third rule that used to
      be refuted (the slice of a fixed-arity tuple) was repaired in the code by 0f4399a and is now sound in the model *)
Definition refutes (types : tmap) (rho : list (string * pv)) (e : expr) (t : ty) (v : pv) : Prop :=
  env_wf types /\ env_ok types rho /\ infer false [] types e = IOk t /\ peval rho e = Some v /\ denote t (abs v) = false.

Lemma single_env x t v : wf t -> den t v -> env_wf [(x, IOk t)] /\ env_ok [(x, IOk t)] [(x, v)].
Proof.
  intros W D. split.
  - intros y t' H. simpl in H. destruct (String.eqb y x); [|discriminate]. inversion H; subst. exact W.
  - intros y t' v' H1 H2. simpl in H1, H2. destruct (String.eqb y x); [|discriminate]. inversion H1; inversion H2; subst. exact D.
Qed.

(* 3 * s with s: Any is typed float | int; s = "a" gives "aaa" *)
Theorem refuted_int_mul_any :
  refutes [("s", IOk TAny)] [("s", PStr "a")] (EBin BMul (EInt 3) (EVar "s")) int_or_float (PStr "aaa").
Proof.
  destruct (single_env "s" TAny (PStr "a") eq_refl eq_refl) as [A B].
  repeat split; try assumption; vm_compute; reflexivity.
Qed.

(* t[0:1] with t: (int, str): before the repair 0f4399a the slice kept the type (int, str) while t = (1, "a") gives (1,)
   (the former refutation `refuted_tuple_slice`); the repaired rule types it tuple[int | str, ...], which holds (1,) -
   and the old type does not *)
Theorem tuple_slice_sound_example :
  env_wf [("t", IOk (TTuple [tint; tstr]))] /\ env_ok [("t", IOk (TTuple [tint; tstr]))] [("t", PTuple [PInt 1; PStr "a"])] /\
  infer false [] [("t", IOk (TTuple [tint; tstr]))] (ESlice (EVar "t") (Some (EInt 0)) (Some (EInt 1)) None)
    = IOk (TTupleOf (TUnion [tint; tstr])) /\
  peval [("t", PTuple [PInt 1; PStr "a"])] (ESlice (EVar "t") (Some (EInt 0)) (Some (EInt 1)) None) = Some (PTuple [PInt 1]) /\
  denote (TTupleOf (TUnion [tint; tstr])) (abs (PTuple [PInt 1])) = true /\
  denote (TTuple [tint; tstr]) (abs (PTuple [PInt 1])) = false.
Proof.
  destruct (single_env "t" (TTuple [tint; tstr]) (PTuple [PInt 1; PStr "a"]) eq_refl eq_refl) as [A B].
  repeat split; try assumption; vm_compute; reflexivity.
Qed.

(* the slice rule on the tuple types themselves, for all element types: a fixed-arity tuple type slices to the homogeneous
   tuple type of the union of its element types (the empty tuple type to tuple[typing.Never, ...]), a homogeneous one to itself *)
Lemma slice_basic_tuple ts : slice_basic (TTuple ts) = Some (TTupleOf (us ts)).
Proof. reflexivity. Qed.
Lemma slice_basic_tuple_of e : slice_basic (TTupleOf e) = Some (TTupleOf e).
Proof. reflexivity. Qed.
Lemma slice_basic_empty_tuple : slice_basic (TTuple []) = Some (TTupleOf TNever).
Proof. vm_compute. reflexivity. Qed.

(* x[0:1] with x: str | typing.Iterable is typed str (the Iterable alternative has no slice rule and is dropped by
   typecheck_union_simple); x = [1, 2] gives [1] *)
Theorem refuted_iterable_slice :
  refutes [("x", IOk (TUnion [tstr; TIter]))] [("x", PList [PInt 1; PInt 2])]
          (ESlice (EVar "x") (Some (EInt 0)) (Some (EInt 1)) None) tstr (PList [PInt 1]).
Proof.
  destruct (single_env "x" (TUnion [tstr; TIter]) (PList [PInt 1; PInt 2]) eq_refl eq_refl) as [A B].
  repeat split; try assumption; vm_compute; reflexivity.
Qed.

(* the side condition rejects exactly the two remaining witnesses and ACCEPTS the former tuple-slice witness *)
Lemma sound_ops_rejects_witnesses :
  sound_ops false [] [("s", IOk TAny)] (EBin BMul (EInt 3) (EVar "s")) = false /\
  sound_ops false [] [("t", IOk (TTuple [tint; tstr]))] (ESlice (EVar "t") (Some (EInt 0)) (Some (EInt 1)) None) = true /\
  sound_ops false [] [("x", IOk (TUnion [tstr; TIter]))] (ESlice (EVar "x") (Some (EInt 0)) (Some (EInt 1)) None) = false.
Proof. repeat split; vm_compute; reflexivity. Qed.
