(* C14: the monadic primitives of Core/Sem.v (operators, indexing, slicing, builtins, methods) respect renamings. *)
From Coq Require Import ZArith String List Bool Arith Lia.
From SV Require Import Core.Syntax Core.Values Core.Slice Core.Sem Determ.Renaming Determ.RenamingOps.
Import ListNotations.
Local Open Scope nat_scope.

(* ---- `rel`-shaped introduction rules for the hint database -------------------------------------------------- *)
Lemma rv_none r : rel r VNone VNone. Proof. constructor. Qed.
Lemma rv_bool r a b : a = b -> rel r (VBool a) (VBool b). Proof. intros ->. constructor. Qed.
Lemma rv_int r a b : a = b -> rel r (VInt a) (VInt b). Proof. intros ->. constructor. Qed.
Lemma rv_str r a b : a = b -> rel r (VStr a) (VStr b). Proof. intros ->. constructor. Qed.
Lemma rv_tuple r (xs ys : list value) : rel r xs ys -> rel r (VTuple xs) (VTuple ys). Proof. intros. constructor. assumption. Qed.
Lemma rv_list r a b : rl r a b -> rel r (VList a) (VList b). Proof. intros. constructor. assumption. Qed.
Lemma rv_dict r a b : rd r a b -> rel r (VDict a) (VDict b). Proof. intros. constructor. assumption. Qed.
Lemma rv_range r lo hi st : rel r (VRange lo hi st) (VRange lo hi st). Proof. constructor. Qed.
Lemma rv_clo r a b : rc r a b -> rel r (VClo a) (VClo b). Proof. intros. constructor. assumption. Qed.
Lemma rv_builtin r x : rel r (VBuiltin x) (VBuiltin x). Proof. constructor. Qed.
Lemma rel_tt r : rel r tt tt. Proof. exact I. Qed.
Lemma rel_bool_eq r (a b : bool) : a = b -> rel r a b. Proof. intros ->. reflexivity. Qed.
Lemma rel_Z_eq r (a b : Z) : a = b -> rel r a b. Proof. intros ->. reflexivity. Qed.
Lemma rel_string_eq r (a b : string) : a = b -> rel r a b. Proof. intros ->. reflexivity. Qed.
Lemma rel_some {A} {RA : Rel A} r (a b : A) : rel r a b -> rel r (Some a) (Some b). Proof. intros H. exact H. Qed.
Lemma rel_none {A} {RA : Rel A} r : rel r (@None A) None. Proof. exact I. Qed.
Lemma rel_named_cons r x (v w : value) (l1 l2 : list (string * value)) :
  rel r v w -> rel r l1 l2 -> rel r ((x, v) :: l1) ((x, w) :: l2).
Proof. intros. constructor; [split; [reflexivity|assumption]|assumption]. Qed.
Lemma rel_creturn r (v w : value) : rel r v w -> rel r (CReturn v) (CReturn w). Proof. intros H. exact H. Qed.
Lemma rel_cnormal r : rel r CNormal CNormal. Proof. exact I. Qed.
Lemma rel_cbreak r : rel r CBreak CBreak. Proof. exact I. Qed.
Lemma rel_ccontinue r : rel r CContinue CContinue. Proof. exact I. Qed.

Lemma truth_eq r s1 s2 v1 v2 : rel r s1 s2 -> rel r v1 v2 -> truth s1 v1 = truth s2 v2.
Proof. apply truth_rel. Qed.
Lemma memb_eq r s1 s2 x1 x2 (l1 l2 : list value) : rel r s1 s2 -> rel r x1 x2 -> rel r l1 l2 -> memb s1 x1 l1 = memb s2 x2 l2.
Proof. intros. apply (memb_rel r s1 s2); assumption. Qed.
Lemma veq_eq r s1 s2 n a1 a2 b1 b2 : rel r s1 s2 -> rel r a1 a2 -> rel r b1 b2 -> veq n s1 a1 b1 = veq n s2 a2 b2.
Proof. apply veq_rel. Qed.
Lemma negb_eq a b : a = b -> negb a = negb b. Proof. congruence. Qed.
Lemma existsb_truth_eq r s1 s2 (l1 l2 : list value) : rel r s1 s2 -> rel r l1 l2 -> existsb (truth s1) l1 = existsb (truth s2) l2.
Proof. intros Hs H. eapply existsb_rel; [|exact H]. intros x y Hx. apply (truth_rel r); assumption. Qed.
Lemma forallb_truth_eq r s1 s2 (l1 l2 : list value) : rel r s1 s2 -> rel r l1 l2 -> forallb (truth s1) l1 = forallb (truth s2) l2.
Proof. intros Hs H. eapply forallb_rel; [|exact H]. intros x y Hx. apply (truth_rel r); assumption. Qed.
Lemma vcmp_rel' r s1 s2 n a1 a2 b1 b2 : rel r s1 s2 -> rel r a1 a2 -> rel r b1 b2 -> rel r (vcmp n s1 a1 b1) (vcmp n s2 a2 b2).
Proof. intros Hs Ha Hb. rewrite (vcmp_rel r s1 s2 n a1 a2 b1 b2 Hs Ha Hb). destruct (vcmp n s2 a2 b2); [reflexivity|exact I]. Qed.
Lemma length_Z_eq {A} {RA : Rel A} r (l1 l2 : list A) : rel r l1 l2 -> Z.of_nat (length l1) = Z.of_nat (length l2).
Proof. intros H. rewrite (rel_length r _ _ H). reflexivity. Qed.
Lemma obs_of_eq r s1 s2 n v1 v2 : rel r s1 s2 -> rel r v1 v2 -> obs_of n s1 v1 = obs_of n s2 v2.
Proof. apply obs_of_rel. Qed.
Lemma rel_singleton {A} {RA : Rel A} r (a b : A) : rel r a b -> rel r [a] [b].
Proof. intros. constructor; [assumption|constructor]. Qed.

(* ---- the pure string layer: its arguments are observations (address-free), its results address-free data ---------- *)
#[export] Instance Rel_obsl : Rel obsl := fun _ a b => a = b.
#[export] Instance Mono_obsl : RelMono obsl. Proof. intros r r' a b _ H. exact H. Qed.
Lemma obs_list_rel r (vs1 vs2 : list value) : rel r vs1 vs2 -> mrel0 r (obs_list vs1) (obs_list vs2).
Proof.
  intros H s1 s2 Hs. unfold obs_list, bind, get_state, ret. split; [exact Hs|].
  change (map (obs_of depth s1) vs1 = map (obs_of depth s2) vs2).
  induction H as [|x y l1 l2 Hx _ IH]; cbn [map]; [reflexivity|].
  rewrite IH. rewrite (obs_of_eq r s1 s2 depth x y Hs Hx). reflexivity.
Qed.
Lemma rel_map_VStr r (l : list string) : rel r (map VStr l) (map VStr l).
Proof. induction l as [|x t IH]; cbn [map]; constructor; [constructor|exact IH]. Qed.
Lemma rel_snd_named r (l1 l2 : list (string * value)) : rel r l1 l2 -> rel r (map snd l1) (map snd l2).
Proof. intros H. induction H as [|x y t1 t2 [_ Hx] _ IH]; cbn [map]; constructor; assumption. Qed.
Lemma fst_named_eq r (l1 l2 : list (string * value)) : rel r l1 l2 -> map fst l1 = map fst l2.
Proof. intros H. induction H as [|x y t1 t2 [Hx _] _ IH]; cbn [map]; [reflexivity|]. hnf in Hx. rewrite Hx, IH. reflexivity. Qed.

Create HintDb rdb.
#[export] Hint Resolve rv_none rv_bool rv_int rv_str rv_tuple rv_list rv_dict rv_range rv_clo rv_builtin rel_tt
  rel_bool_eq rel_Z_eq rel_string_eq rel_some rel_none rel_named_cons rel_creturn rel_cnormal rel_cbreak rel_ccontinue
  truth_eq memb_eq veq_eq negb_eq existsb_truth_eq forallb_truth_eq vcmp_rel' length_Z_eq rel_singleton
  rel_nil rel_cons rel_app rel_rev rel_nth_error rel_firstn rel_skipn rel_upd rel_list_repeat rel_insert_at rel_remove_at
  rel_tl rel_hd rel_concat rel_apply_slice rel_map_fst rel_map_snd rel_combine rel_pair
  dict_get_rel dict_set_rel dict_del_rel dict_update_rel remove_first_rel index_of_rel sort_values_rel sort_pairs_dir_rel
  extremum_rel range_elems_rel enumerate_from_rel zip_lists_rel kwargs_dict_rel items_rel assoc_str_rel
  lookup_default_rel assoc_remove_rel bind_params_rel erel_app eq_refl : rdb.

(* ---- tactics --------------------------------------------------------------------------------------------------- *)
Ltac fold_rel :=
  repeat match goal with
    | H : Forall2 (vrel ?r) ?a ?b |- _ => change (@rel (list value) (Rel_list value) r a b) in H
    | H : vrel ?r ?a ?b |- _ => change (@rel value Rel_value r a b) in H
    | H : srel ?r ?a ?b |- _ => change (@rel state Rel_state r a b) in H
    | H : crel ?r ?a ?b |- _ => change (@rel closure Rel_closure r a b) in H
    | H : erel ?r ?a ?b |- _ => change (@rel env Rel_env r a b) in H
    | H : Forall2 (@rel ?A ?I ?r) ?a ?b |- _ => change (@rel (list A) (@Rel_list A I) r a b) in H
    end.

(* related variables of a type whose relation is equality become one variable *)
Lemma rel_optZ_eq r (a b : option Z) : rel r a b -> a = b.
Proof. destruct a, b; cbn; try contradiction; auto. intros ->. reflexivity. Qed.
Ltac norm_eq :=
  repeat match goal with
    | H : @rel bool _ _ _ _ |- _ => hnf in H; subst
    | H : @rel Z _ _ _ _ |- _ => hnf in H; subst
    | H : @rel string _ _ _ _ |- _ => hnf in H; subst
    | H : @rel comparison _ _ _ _ |- _ => hnf in H; subst
    | H : @rel obsl _ _ _ _ |- _ => hnf in H; subst
    | H : @rel unit _ _ _ _ |- _ => clear H
    | H : @rel (option Z) _ _ _ _ |- _ => apply rel_optZ_eq in H; subst
    end.

Ltac rw_len :=
  repeat match goal with
    | H : @rel (list _) _ ?r ?l1 ?l2 |- context [length ?l1] =>
        tryif constr_eq l1 l2 then fail else rewrite (rel_length r l1 l2 H)
    end.

(* invert a relation hypothesis between two variables *)
Ltac rinv H :=
  lazymatch type of H with
  | @rel (option _) _ _ ?x ?y => destruct x, y; cbn in H; try contradiction
  | @rel (_ * _) _ _ ?x ?y => destruct x, y, H; cbn [fst snd] in *
  | _ => inversion H; subst; clear H
  end; fold_rel; norm_eq.

Ltac solve_rel :=
  fold_rel; rw_len;
  repeat (lazymatch goal with
          | |- @rel _ _ ?r (match ?x with _ => _ end) (match ?y with _ => _ end) => case_rel r x y
          | |- @rel _ _ ?r (if ?x then _ else _) (if ?y then _ else _) => case_rel r x y
          end; rw_len);
  solve [eauto 7 with rdb nocore]
(* case analysis on two related scrutinees *)
with case_rel r x y :=
  first
    [ constr_eq x y; destruct x
    | is_var x; is_var y;
      match goal with H : @rel _ _ _ x y |- _ => rinv H end
    | let H := fresh "Hc" in
      assert (H : rel r x y) by solve_rel;
      revert H; destruct x, y; intro H;
      lazymatch type of H with
      | @rel (option _) _ _ _ _ => cbn in H; try contradiction
      | @rel bool _ _ _ _ => hnf in H; try discriminate H; clear H
      | @rel (list _) _ _ _ _ => inversion H; subst; clear H
      | @rel value _ _ _ _ => inversion H; subst; clear H
      | @rel (_ * _) _ _ _ _ => destruct H; cbn [fst snd] in *
      | _ => idtac
      end; fold_rel; norm_eq ].

(* ---- small monadic helpers --------------------------------------------------------------------------------- *)
Lemma check_hashable_rel r k1 k2 : rel r k1 k2 -> mrel0 r (check_hashable k1) (check_hashable k2).
Proof.
  intros H. unfold check_hashable. rewrite (hashable_rel r depth k1 k2 H : hashable depth k1 = hashable depth k2).
  destruct (hashable depth k2); [apply mrel0_ret; exact I|apply mrel0_fail].
Qed.
Lemma as_int_rel r v1 v2 : rel r v1 v2 -> mrel0 r (as_int v1) (as_int v2).
Proof. intros H. inversion H; subst; cbn [as_int]; try apply mrel0_fail. apply mrel0_ret. reflexivity. Qed.
Lemma opt_int_rel r (o1 o2 : option value) : rel r o1 o2 -> mrel0 r (opt_int o1) (opt_int o2).
Proof.
  intros H. destruct o1 as [v1|], o2 as [v2|]; cbn in H; try contradiction; cbn [opt_int]; [|apply mrel0_ret; exact I].
  inversion H; subst; try apply mrel0_fail; apply mrel0_ret; reflexivity.
Qed.
Lemma str_of_rel r v1 v2 : rel r v1 v2 -> mrel0 r (str_of v1) (str_of v2).
Proof.
  intros H. unfold str_of. eapply mrel0_bind; [apply obs_list_rel; apply rel_singleton; exact H|].
  intros os1 os2 Ho. hnf in Ho. subst os2.
  destruct (str_obs (hd ONone os1)); [apply mrel0_ret; reflexivity|apply mrel0_fail].
Qed.
Lemma lift_sres_rel r x : mrel r (lift_sres x) (lift_sres x).
Proof.
  destruct x as [e|[x|z|b| |l|l]]; cbn [lift_sres]; try apply mrel_fail;
    try (apply mrel_ret; constructor; fail).
  - apply mrel_ret. constructor. apply rel_map_VStr.
  - apply alloc_list_rel. apply rel_map_VStr.
Qed.
Lemma veqM_rel r a1 a2 b1 b2 : rel r a1 a2 -> rel r b1 b2 -> mrel0 r (veqM a1 b1) (veqM a2 b2).
Proof.
  intros Ha Hb. unfold veqM. eapply mrel0_bind; [apply mrel0_get_state|]. intros s1 s2 Hs.
  apply mrel0_ret. apply veq_rel; assumption.
Qed.
Lemma iter_elems_rel r v1 v2 : rel r v1 v2 -> mrel0 r (iter_elems v1) (iter_elems v2).
Proof.
  intros H. inversion H; subst; cbn [iter_elems]; try apply mrel0_fail.
  - apply mrel0_ret. assumption.
  - apply get_list_rel. assumption.
  - eapply mrel0_bind; [apply get_dict_rel; assumption|]. intros d1 d2 Hd. apply mrel0_ret. apply rel_map_fst. exact Hd.
  - apply mrel0_ret. apply range_elems_rel.
Qed.

Lemma mapM0_rel {A B} {RA : Rel A} {RB : Rel B} r (f1 f2 : A -> M B) (l1 l2 : list A) :
  rel r l1 l2 -> (forall x1 x2, rel r x1 x2 -> mrel0 r (f1 x1) (f2 x2)) -> mrel0 r (mapM f1 l1) (mapM f2 l2).
Proof.
  intros Hl Hf. induction Hl as [|x y l1 l2 Hx _ IH]; cbn [mapM]; [apply mrel0_ret; constructor|].
  eapply mrel0_bind; [apply Hf; exact Hx|]. intros b1 b2 Hb.
  eapply mrel0_bind; [exact IH|]. intros c1 c2 Hc. apply mrel0_ret. constructor; assumption.
Qed.

(* one step of the proof that a primitive respects the relation *)
Ltac pstep :=
  fold_rel; norm_eq; rw_len;
  lazymatch goal with
  | |- mrel0 _ (ret _) (ret _) => apply mrel0_ret; solve_rel
  | |- mrel _ (ret _) (ret _) => apply mrel_ret; solve_rel
  | |- mrel0 _ (fail _) (fail _) => apply mrel0_fail
  | |- mrel _ (fail _) (fail _) => apply mrel_fail
  | |- mrel0 _ (bind _ _) (bind _ _) => eapply mrel0_bind; [|intros ? ? ?]
  | |- mrel _ (bind _ _) (bind _ _) => eapply mrel_bind0; [|intros ? ? ?]
  | |- mrel0 _ get_state get_state => apply mrel0_get_state
  | |- mrel0 _ (get_list _) (get_list _) => apply get_list_rel; assumption
  | |- mrel0 _ (get_dict _) (get_dict _) => apply get_dict_rel; assumption
  | |- mrel0 _ (set_list _ _) (set_list _ _) => apply set_list_rel; [assumption|solve_rel]
  | |- mrel0 _ (set_list_elem _ _) (set_list_elem _ _) => apply set_list_elem_rel; [assumption|solve_rel]
  | |- mrel0 _ (set_dict _ _) (set_dict _ _) => apply set_dict_rel; [assumption|solve_rel]
  | |- mrel0 ?r (emit_obs (obs_of ?n ?s1 ?v1)) (emit_obs (obs_of ?n ?s2 ?v2)) =>
      replace (obs_of n s1 v1) with (obs_of n s2 v2) by (symmetry; eapply obs_of_eq; eassumption); apply emit_obs_rel
  | |- mrel0 _ (emit_obs _) (emit_obs _) => apply emit_obs_rel
  | |- mrel0 _ (check_hashable _) (check_hashable _) => apply check_hashable_rel; solve_rel
  | |- mrel0 _ (as_int _) (as_int _) => apply as_int_rel; solve_rel
  | |- mrel0 _ (opt_int _) (opt_int _) => apply opt_int_rel; solve_rel
  | |- mrel0 _ (str_of _) (str_of _) => apply str_of_rel; solve_rel
  | |- mrel0 _ (obs_list _) (obs_list _) => apply obs_list_rel; solve_rel
  | |- mrel _ (lift_sres ?x) (lift_sres ?x) => apply lift_sres_rel
  | |- mrel0 _ (veqM _ _) (veqM _ _) => apply veqM_rel; solve_rel
  | |- mrel0 _ (iter_elems _) (iter_elems _) => apply iter_elems_rel; solve_rel
  | |- mrel0 _ (mapM _ _) (mapM _ _) => apply mapM0_rel; [solve_rel|intros ? ? ?]
  | |- mrel _ (alloc_list _) (alloc_list _) => apply alloc_list_rel; solve_rel
  | |- mrel _ (alloc_dict _) (alloc_dict _) => apply alloc_dict_rel; solve_rel
  | |- ?J ?r (match ?x with _ => _ end) (match ?y with _ => _ end) => case_rel r x y
  | |- ?J ?r (if ?x then _ else _) (if ?y then _ else _) => case_rel r x y
  | |- ?J _ (let _ := _ in _) _ => cbv zeta
  | |- mrel _ _ _ => apply mrel0_mrel
  end.

Lemma contains_rel r a1 a2 b1 b2 : rel r a1 a2 -> rel r b1 b2 -> mrel0 r (contains a1 b1) (contains a2 b2).
Proof. intros Ha Hb. unfold contains. repeat pstep. Qed.
Lemma unop_eval_rel r o a1 a2 : rel r a1 a2 -> mrel0 r (unop_eval o a1) (unop_eval o a2).
Proof. intros Ha. unfold unop_eval. repeat pstep. Qed.

Ltac pstep2 :=
  lazymatch goal with
  | |- mrel0 _ (contains _ _) (contains _ _) => apply contains_rel; solve_rel
  | |- mrel0 _ (unop_eval _ _) (unop_eval _ _) => apply unop_eval_rel; solve_rel
  | |- mrel0 _ (fun st => match nth_error (dicts st) _ with _ => _ end) _ => apply set_dict_keep_rel; [assumption|solve_rel]
  | _ => pstep
  end.

Lemma binop_eval_rel r o a1 a2 b1 b2 : rel r a1 a2 -> rel r b1 b2 -> mrel r (binop_eval o a1 b1) (binop_eval o a2 b2).
Proof. intros Ha Hb. unfold binop_eval. destruct o; repeat pstep2. Qed.
Lemma index_eval_rel r a1 a2 b1 b2 : rel r a1 a2 -> rel r b1 b2 -> mrel0 r (index_eval a1 b1) (index_eval a2 b2).
Proof. intros Ha Hb. unfold index_eval. repeat pstep2. Qed.
Lemma slice_eval_rel r a1 a2 (lo1 lo2 hi1 hi2 st1 st2 : option value) :
  rel r a1 a2 -> rel r lo1 lo2 -> rel r hi1 hi2 -> rel r st1 st2 -> mrel r (slice_eval a1 lo1 hi1 st1) (slice_eval a2 lo2 hi2 st2).
Proof. intros Ha H1 H2 H3. unfold slice_eval. repeat pstep2. Qed.
Lemma set_index_rel r a1 a2 i1 i2 v1 v2 : rel r a1 a2 -> rel r i1 i2 -> rel r v1 v2 -> mrel0 r (set_index a1 i1 v1) (set_index a2 i2 v2).
Proof. intros Ha Hi Hv. unfold set_index. repeat pstep2. Qed.

Lemma call_builtin_rel r b (args1 args2 : list value) (kw1 kw2 : list (string * value)) :
  rel r args1 args2 -> rel r kw1 kw2 -> mrel r (call_builtin b args1 kw1) (call_builtin b args2 kw2).
Proof.
  intros Ha Hk. unfold call_builtin. pstep2; [|pstep2].
  repeat match goal with
         | |- mrel _ (if ?c then _ else _) _ => lazymatch type of c with bool => destruct c end
         end; try apply mrel_fail.
  all: repeat pstep2.
Qed.

Lemma call_method_rel r m recv1 recv2 (args1 args2 : list value) :
  rel r recv1 recv2 -> rel r args1 args2 -> mrel r (call_method recv1 m args1) (call_method recv2 m args2).
Proof.
  intros Hr Ha. unfold call_method. pstep2; try apply mrel_fail.
  - (* a string receiver: the pure string layer *)
    match goal with |- mrel _ (if ?c then _ else _) _ => destruct c end; repeat pstep2.
  - pstep2; [pstep2|].
    repeat match goal with
           | |- mrel _ (if ?c then _ else _) _ => lazymatch type of c with bool => destruct c end
           end; try apply mrel_fail.
    all: repeat pstep2.
  - pstep2; [pstep2|]. pstep2; [pstep2|].
    repeat match goal with
           | |- mrel _ (if ?c then _ else _) _ => lazymatch type of c with bool => destruct c end
           end; try apply mrel_fail.
    all: repeat pstep2.
Qed.

Lemma call_method_kw_rel r m recv1 recv2 (args1 args2 : list value) (kw1 kw2 : list (string * value)) :
  rel r recv1 recv2 -> rel r args1 args2 -> rel r kw1 kw2 ->
  mrel r (call_method_kw recv1 m args1 kw1) (call_method_kw recv2 m args2 kw2).
Proof.
  intros Hr Ha Hk. unfold call_method_kw.
  inversion Hk as [|p1 p2 t1 t2 Hp Ht]; subst; [apply call_method_rel; assumption|].
  rewrite (fst_named_eq r _ _ Hk). pose proof (rel_snd_named r _ _ Hk) as Hs.
  inversion Hr; subst; try apply mrel_fail.
  eapply mrel_bind0; [apply obs_list_rel; assumption|]. intros os1 os2 Ho. hnf in Ho. subst os2.
  eapply mrel_bind0; [apply obs_list_rel; exact Hs|]. intros ks1 ks2 Hko. hnf in Hko. subst ks2.
  apply lift_sres_rel.
Qed.
