(* C14 model: the mechanisms through which a memory layout, an allocation history or a per-process hash seed
   could become observable, mirrored from the code.  Executable; NO proofs in this file.

   A. hash(str)                 stdlib/funcs/other.rs: hash (ASCII fast path over bytes, else UTF-16 fold, wrapping i32)
   B. ordered containers        dict / set / struct fields / scopes / module bindings are SmallMaps (Map/Model.v) whose
                                hasher is StarlarkHasher; here the hasher takes an arbitrary SEED
      dir()                     values/layout/value.rs: dir_attr = sort (methods.names() ++ dir_attr())
   C. did-you-mean              errors/did_you_mean.rs: did_you_mean; strsim::generic_levenshtein;
                                eval/compiler/scope.rs: current_scope_all_visible_names_for_did_you_mean
   D. address renamings         MiniStar values/stores (Core/Values.v) up to a renaming of store addresses *)
From Coq Require Import ZArith List String Ascii Bool Arith.
From SV Require Import Map.Spec Map.Model Eq.Model Core.Syntax Core.Values.
Import ListNotations.

(* ------------------------------------------------------------------------------------------------------------- *)
(* A. hash()                                                                                                       *)
Open Scope Z_scope.

(* i32 wrapping (wrapping_mul / wrapping_add on i32) *)
Definition wrap32 (z : Z) : Z := (z + 2147483648) mod 4294967296 - 2147483648.

(* UTF-8 encoding of a code point (str::as_bytes) *)
Definition utf8 (c : Z) : list Z :=
  if c <? 128 then [c]
  else if c <? 2048 then [192 + c / 64; 128 + c mod 64]
  else if c <? 65536 then [224 + c / 4096; 128 + (c / 64) mod 64; 128 + c mod 64]
  else [240 + c / 262144; 128 + (c / 4096) mod 64; 128 + (c / 64) mod 64; 128 + c mod 64].

(* the 'ascii loop: None = break 'ascii at a byte > 0x7f *)
Fixpoint ascii_loop (bytes : list Z) (h : Z) : option Z :=
  match bytes with
  | [] => Some h
  | b :: t => if 127 <? b then None else ascii_loop t (wrap32 (wrap32 (h * 31) + b))
  end.

(* a.encode_utf16().fold(0i32, |hash, c| 31i32.wrapping_mul(hash).wrapping_add(c as i32)) *)
Definition utf16_fold (units : list Z) : Z :=
  fold_left (fun h c => wrap32 (wrap32 (31 * h) + c)) units 0.

(* hash(a) for the string whose code points are s *)
Definition hash_builtin (s : list Z) : Z :=
  match ascii_loop (flat_map utf8 s) 0 with
  | Some h => h
  | None => utf16_fold (flat_map utf16 s)
  end.

(* the specification (Starlark spec / java.lang.String.hashCode): s[0]*31^(n-1) + ... + s[n-1] over the UTF-16
   transcoding, as a 32-bit two's complement integer *)
Fixpoint series (u : list Z) : Z :=
  match u with
  | [] => 0
  | c :: t => c * 31 ^ Z.of_nat (List.length t) + series t
  end.
Definition hash_spec (s : list Z) : Z := wrap32 (series (flat_map utf16 s)).

Definition valid_cp (c : Z) : Prop := 0 <= c < 1114112.

Close Scope Z_scope.
Open Scope nat_scope.

(* ------------------------------------------------------------------------------------------------------------- *)
(* B. ordered containers with a seeded hasher, dir()                                                               *)
Section Seeded.
  Context {K V S H : Type}.
  Variable keq : K -> K -> bool.
  Variable heq : H -> H -> bool.
  Variable klt : K -> K -> bool.
  Variable hash : S -> K -> H.       (* the hasher as a function of a seed (RandomState would pick one per process;
                                        StarlarkHasher has a constant one) *)

  (* what iteration over the container yields after the history ops, for a seed / threshold / sort cut-off *)
  Definition container_items (seed : S) (thr mi : nat) (ops : list (op K V)) : list (K * V) :=
    to_list (Model.run keq heq klt (hash seed) thr mi ops).
  Definition container_keys (seed : S) (thr mi : nat) (ops : list (op K V)) : list K :=
    map fst (container_items seed thr mi ops).
End Seeded.

Section Sort.
  Context {A : Type}.
  Variable leb : A -> A -> bool.
  (* Vec::sort (stable); result of a stable sort = insertion sort (Eq/Model.v isort) *)
  Definition dir_model (methods attrs : list A) : list A := isort leb (methods ++ attrs).

  Fixpoint sortedb (l : list A) : bool :=
    match l with
    | [] => true
    | x :: t => match t with [] => true | y :: _ => leb x y && sortedb t end
    end.
End Sort.

(* ------------------------------------------------------------------------------------------------------------- *)
(* C. did-you-mean                                                                                                 *)
Section Lev.
  Context {A : Type}.
  Variable aeq : A -> A -> bool.

  (* the inner loop of strsim::generic_levenshtein over b with the cache row *)
  Fixpoint lev_row (ae : A) (b : list A) (cache : list nat) (result distance_b : nat) : list nat * nat :=
    match b, cache with
    | be :: b', cj :: cache' =>
        let cost := if aeq ae be then 0 else 1 in
        let distance_a := distance_b + cost in
        let result' := Nat.min (result + 1) (Nat.min distance_a (cj + 1)) in
        let (rest, r) := lev_row ae b' cache' result' cj in
        (result' :: rest, r)
    | _, _ => ([], result)
    end.

  Fixpoint lev_rows (a : list A) (i : nat) (b : list A) (cache : list nat) (result : nat) : nat :=
    match a with
    | [] => result
    | ae :: a' => let (cache', r) := lev_row ae b cache (i + 1) i in lev_rows a' (i + 1) b cache' r
    end.

  Definition levenshtein (a b : list A) : nat := lev_rows a 0 b (seq 1 (List.length b)) (List.length b).
End Lev.

Section DidYouMean.
  Context {N : Type}.                 (* names *)
  Variable len : N -> nat.            (* value.len(): bytes *)
  Variable dist : N -> N -> nat.      (* levenshtein(value, v) *)

  Definition max_dist (value : N) : nat := if len value <=? 2 then 1 else 2.

  (* Iterator::min_by_key = reduce(|x, y| if key(x) > key(y) { y } else { x }): the FIRST minimum *)
  Definition min_by_key_first (l : list (N * nat)) : option (N * nat) :=
    match l with
    | [] => None
    | x :: t => Some (fold_left (fun best y => if snd y <? snd best then y else best) t x)
    end.

  Definition did_you_mean (value : N) (variants : list N) : option N :=
    if len value =? 0 then None
    else option_map fst
           (min_by_key_first
              (filter (fun p => snd p <=? max_dist value) (map (fun v => (v, dist value v)) variants))).

  (* specification vocabulary *)
  Definition in_range (value v : N) : bool := dist value v <=? max_dist value.
  Fixpoint list_min (l : list nat) : option nat :=
    match l with
    | [] => None
    | x :: t => match list_min t with None => Some x | Some m => Some (Nat.min x m) end
    end.
  (* the first in-range candidate at distance m *)
  Definition first_at (value : N) (m : nat) (variants : list N) : option N :=
    hd_error (filter (fun v => in_range value v && (dist value v =? m)) variants).
  Definition did_you_mean_spec (value : N) (variants : list N) : option N :=
    if len value =? 0 then None
    else match list_min (map (dist value) (filter (in_range value) variants)) with
         | None => None
         | Some m => first_at value m variants
         end.
End DidYouMean.

(* current_scope_all_visible_names_for_did_you_mean: scopes innermost LAST in `locals`, visited .rev();
   then module bindings, then globals.names() (sorted when the Globals are built) *)
Definition scope_candidates {N} (scopes : list (list N)) (module_bindings globals : list N) : list N :=
  (List.concat (rev scopes) ++ module_bindings ++ globals)%list.

(* names as byte strings (identifiers are ASCII in the tie; for non-ASCII names len is bytes but the distance is
   over chars - not modelled) *)
Definition name_len (s : string) : nat := String.length s.
Definition name_dist (a b : string) : nat :=
  levenshtein Ascii.eqb (list_ascii_of_string a) (list_ascii_of_string b).
Definition dym (value : string) (variants : list string) : option string :=
  did_you_mean name_len name_dist value variants.

(* ------------------------------------------------------------------------------------------------------------- *)
(* D. store-address renamings of MiniStar values and states                                                        *)
Section Renaming.
  Variable fl fd fc : nat -> nat.     (* list / dict / closure addresses *)

  Fixpoint ren_val (v : value) : value :=
    match v with
    | VList a => VList (fl a)
    | VDict a => VDict (fd a)
    | VClo c => VClo (fc c)
    | VTuple vs => VTuple (map ren_val vs)
    | _ => v
    end.

  (* s' holds, at the renamed addresses, the renamed contents of s (s' may hold anything elsewhere: garbage,
     other allocations, a different allocation order) *)
  Definition lists_iso (s s' : state) : Prop :=
    forall a, match nth_error (lists s) a with
              | Some (l, c) => nth_error (lists s') (fl a) = Some (map ren_val l, c)
              | None => nth_error (lists s') (fl a) = None
              end.
  Definition dicts_iso (s s' : state) : Prop :=
    forall a, match nth_error (dicts s) a with
              | Some (d, c) => nth_error (dicts s') (fd a) = Some (map (fun kv => (ren_val (fst kv), ren_val (snd kv))) d, c)
              | None => nth_error (dicts s') (fd a) = None
              end.
  Definition state_iso (s s' : state) : Prop := lists_iso s s' /\ dicts_iso s s'.
End Renaming.

(* all list/dict addresses mentioned by a value are allocated (below the given bounds) *)
Fixpoint val_below (nl nd : nat) (v : value) : bool :=
  match v with
  | VList a => a <? nl
  | VDict a => a <? nd
  | VTuple vs => forallb (val_below nl nd) vs
  | _ => true
  end.
Definition state_closed (s : state) : Prop :=
  (forall a l c, nth_error (lists s) a = Some (l, c) -> forallb (val_below (List.length (lists s)) (List.length (dicts s))) l = true) /\
  (forall a d c, nth_error (dicts s) a = Some (d, c) ->
     forallb (fun kv => val_below (List.length (lists s)) (List.length (dicts s)) (fst kv) &&
                        val_below (List.length (lists s)) (List.length (dicts s)) (snd kv)) d = true).

Definition upd_fun (f : nat -> nat) (a b : nat) : nat -> nat := fun x => if x =? a then b else f x.

(* the composable form: only allocated addresses are constrained (s' may have allocated more, elsewhere, in
   another order); used together with state_closed *)
Section RenamingW.
  Variable fl fd fc : nat -> nat.
  Definition lists_iso_w (s s' : state) : Prop :=
    forall a l c, nth_error (lists s) a = Some (l, c) ->
                  nth_error (lists s') (fl a) = Some (map (ren_val fl fd fc) l, c).
  Definition dicts_iso_w (s s' : state) : Prop :=
    forall a d c, nth_error (dicts s) a = Some (d, c) ->
                  nth_error (dicts s') (fd a) =
                  Some (map (fun kv => (ren_val fl fd fc (fst kv), ren_val fl fd fc (snd kv))) d, c).
  Definition state_iso_w (s s' : state) : Prop := lists_iso_w s s' /\ dicts_iso_w s s' /\ out s = out s'.
End RenamingW.
Definition val_closed (s : state) (v : value) : bool := val_below (List.length (lists s)) (List.length (dicts s)) v.
