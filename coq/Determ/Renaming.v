(* C14: renamings (partial bijections) of store addresses, the induced relations on MiniStar values, closures and
   states, and the invariance of every value-level operation of Core/Values.v and Core/Sem.v under them.
   The invariance of the interpreter itself (eval / call / exec / run_program) is in Determ/RenamingSem.v. *)
From Coq Require Import ZArith String List Bool Arith Lia.
From SV Require Import Core.Syntax Core.Values Core.Slice Core.Sem.
Import ListNotations.
Local Open Scope nat_scope.

(* ---- renamings ------------------------------------------------------------------------------------------- *)
(* one relation per address space: lists, dicts, cells, closures *)
Record ren := { rl : nat -> nat -> Prop; rd : nat -> nat -> Prop; rcl : nat -> nat -> Prop; rc : nat -> nat -> Prop }.

Definition sub (r r' : ren) : Prop :=
  (forall a b, rl r a b -> rl r' a b) /\ (forall a b, rd r a b -> rd r' a b) /\
  (forall a b, rcl r a b -> rcl r' a b) /\ (forall a b, rc r a b -> rc r' a b).
Lemma sub_refl r : sub r r.
Proof. repeat split; auto. Qed.
Lemma sub_trans r1 r2 r3 : sub r1 r2 -> sub r2 r3 -> sub r1 r3.
Proof. intros (A1 & A2 & A3 & A4) (B1 & B2 & B3 & B4). repeat split; auto. Qed.

(* a partial bijection *)
Definition inj (R : nat -> nat -> Prop) : Prop := forall a b a' b', R a b -> R a' b' -> (a = a' <-> b = b').
Definition ext (R : nat -> nat -> Prop) (a b : nat) : nat -> nat -> Prop := fun x y => R x y \/ (x = a /\ y = b).

Lemma inj_ext R n1 n2 : inj R -> (forall a b, R a b -> a < n1 /\ b < n2) -> inj (ext R n1 n2).
Proof.
  intros HI HB a b a' b' [H|[-> ->]] [H'|[-> ->]].
  - apply HI; assumption.
  - destruct (HB _ _ H). split; intros; lia.
  - destruct (HB _ _ H'). split; intros; lia.
  - split; reflexivity.
Qed.

Definition ext_l r a b := {| rl := ext (rl r) a b; rd := rd r; rcl := rcl r; rc := rc r |}.
Definition ext_d r a b := {| rl := rl r; rd := ext (rd r) a b; rcl := rcl r; rc := rc r |}.
Definition ext_cl r a b := {| rl := rl r; rd := rd r; rcl := ext (rcl r) a b; rc := rc r |}.
Definition ext_c r a b := {| rl := rl r; rd := rd r; rcl := rcl r; rc := ext (rc r) a b |}.
Lemma sub_ext_l r a b : sub r (ext_l r a b). Proof. repeat split; cbn; unfold ext; auto. Qed.
Lemma sub_ext_d r a b : sub r (ext_d r a b). Proof. repeat split; cbn; unfold ext; auto. Qed.
Lemma sub_ext_cl r a b : sub r (ext_cl r a b). Proof. repeat split; cbn; unfold ext; auto. Qed.
Lemma sub_ext_c r a b : sub r (ext_c r a b). Proof. repeat split; cbn; unfold ext; auto. Qed.

(* ---- values ----------------------------------------------------------------------------------------------- *)
Inductive vrel (r : ren) : value -> value -> Prop :=
| vr_none : vrel r VNone VNone
| vr_bool b : vrel r (VBool b) (VBool b)
| vr_int z : vrel r (VInt z) (VInt z)
| vr_str x : vrel r (VStr x) (VStr x)
| vr_tuple xs ys : Forall2 (vrel r) xs ys -> vrel r (VTuple xs) (VTuple ys)
| vr_list a b : rl r a b -> vrel r (VList a) (VList b)
| vr_dict a b : rd r a b -> vrel r (VDict a) (VDict b)
| vr_range lo hi st : vrel r (VRange lo hi st) (VRange lo hi st)
| vr_clo a b : rc r a b -> vrel r (VClo a) (VClo b)
| vr_builtin x : vrel r (VBuiltin x) (VBuiltin x).

Section VrelInd.
  Variable r : ren.
  Variable P : value -> value -> Prop.
  Hypothesis Hnone : P VNone VNone.
  Hypothesis Hbool : forall b, P (VBool b) (VBool b).
  Hypothesis Hint : forall z, P (VInt z) (VInt z).
  Hypothesis Hstr : forall x, P (VStr x) (VStr x).
  Hypothesis Htuple : forall xs ys, Forall2 (vrel r) xs ys -> Forall2 P xs ys -> P (VTuple xs) (VTuple ys).
  Hypothesis Hlist : forall a b, rl r a b -> P (VList a) (VList b).
  Hypothesis Hdict : forall a b, rd r a b -> P (VDict a) (VDict b).
  Hypothesis Hrange : forall lo hi st, P (VRange lo hi st) (VRange lo hi st).
  Hypothesis Hclo : forall a b, rc r a b -> P (VClo a) (VClo b).
  Hypothesis Hbuiltin : forall x, P (VBuiltin x) (VBuiltin x).
  Fixpoint vrel_ind' (v1 v2 : value) (H : vrel r v1 v2) {struct H} : P v1 v2 :=
    match H in vrel _ v1 v2 return P v1 v2 with
    | vr_none _ => Hnone
    | vr_bool _ b => Hbool b
    | vr_int _ z => Hint z
    | vr_str _ x => Hstr x
    | vr_tuple _ xs ys F =>
        Htuple xs ys F
          ((fix go (xs ys : list value) (F : Forall2 (vrel r) xs ys) {struct F} : Forall2 P xs ys :=
              match F in Forall2 _ xs ys return Forall2 P xs ys with
              | Forall2_nil _ => Forall2_nil P
              | Forall2_cons x y h t => Forall2_cons x y (vrel_ind' x y h) (go _ _ t)
              end) xs ys F)
    | vr_list _ a b h => Hlist a b h
    | vr_dict _ a b h => Hdict a b h
    | vr_range _ lo hi st => Hrange lo hi st
    | vr_clo _ a b h => Hclo a b h
    | vr_builtin _ x => Hbuiltin x
    end.
End VrelInd.

Lemma Forall2_mono {A B} (R R' : A -> B -> Prop) l1 l2 :
  (forall a b, R a b -> R' a b) -> Forall2 R l1 l2 -> Forall2 R' l1 l2.
Proof. intros H F. induction F; constructor; auto. Qed.

Lemma vrel_mono r r' v1 v2 : sub r r' -> vrel r v1 v2 -> vrel r' v1 v2.
Proof.
  intros (S1 & S2 & S3 & S4) H. induction H using vrel_ind'; constructor; auto.
Qed.

(* ---- the relation attached to each type that occurs as a result of the interpreter -------------------------- *)
Class Rel (A : Type) := rel : ren -> A -> A -> Prop.
Class RelMono (A : Type) {RA : Rel A} := rel_mono : forall r r' (a b : A), sub r r' -> rel r a b -> rel r' a b.

#[export] Instance Rel_value : Rel value := vrel.
#[export] Instance Rel_list (A : Type) {RA : Rel A} : Rel (list A) := fun r => Forall2 (rel r).
#[export] Instance Rel_prod (A B : Type) {RA : Rel A} {RB : Rel B} : Rel (A * B) :=
  fun r p q => rel r (fst p) (fst q) /\ rel r (snd p) (snd q).
#[export] Instance Rel_option (A : Type) {RA : Rel A} : Rel (option A) :=
  fun r o1 o2 => match o1, o2 with None, None => True | Some a, Some b => rel r a b | _, _ => False end.
#[export] Instance Rel_unit : Rel unit := fun _ _ _ => True.
#[export] Instance Rel_bool : Rel bool := fun _ a b => a = b.
#[export] Instance Rel_Z : Rel Z := fun _ a b => a = b.
#[export] Instance Rel_string : Rel string := fun _ a b => a = b.
#[export] Instance Rel_comparison : Rel comparison := fun _ a b => a = b.
(* environments: same names, related cells *)
Definition erel (r : ren) (e1 e2 : env) : Prop := Forall2 (fun p q => fst p = fst q /\ rcl r (snd p) (snd q)) e1 e2.
#[export] Instance Rel_env : Rel env := erel.
Definition ctrl_rel (r : ren) (c1 c2 : ctrl) : Prop :=
  match c1, c2 with
  | CNormal, CNormal | CBreak, CBreak | CContinue, CContinue => True
  | CReturn a, CReturn b => vrel r a b
  | _, _ => False
  end.
#[export] Instance Rel_ctrl : Rel ctrl := ctrl_rel.

#[export] Instance Mono_value : RelMono value := vrel_mono.
#[export] Instance Mono_list A {RA : Rel A} {MA : RelMono A} : RelMono (list A).
Proof. intros r r' a b S H. eapply Forall2_mono; [|exact H]. intros x y. apply rel_mono. exact S. Qed.
#[export] Instance Mono_prod A B {RA : Rel A} {RB : Rel B} {MA : RelMono A} {MB : RelMono B} : RelMono (A * B).
Proof. intros r r' a b S [H1 H2]. split; eapply rel_mono; eassumption. Qed.
#[export] Instance Mono_option A {RA : Rel A} {MA : RelMono A} : RelMono (option A).
Proof. intros r r' [a|] [b|] S H; cbn in *; auto. eapply rel_mono; eassumption. Qed.
#[export] Instance Mono_unit : RelMono unit. Proof. intros r r' a b _ _. exact I. Qed.
#[export] Instance Mono_bool : RelMono bool. Proof. intros r r' a b _ H. exact H. Qed.
#[export] Instance Mono_Z : RelMono Z. Proof. intros r r' a b _ H. exact H. Qed.
#[export] Instance Mono_string : RelMono string. Proof. intros r r' a b _ H. exact H. Qed.
#[export] Instance Mono_comparison : RelMono comparison. Proof. intros r r' a b _ H. exact H. Qed.
#[export] Instance Mono_env : RelMono env.
Proof.
  intros r r' a b (_ & _ & S & _) H. eapply Forall2_mono; [|exact H]. intros x y [E C]. split; auto.
Qed.
#[export] Instance Mono_ctrl : RelMono ctrl.
Proof. intros r r' [| | |a] [| | |b] S H; cbn in *; auto. eapply vrel_mono; eassumption. Qed.

(* closures *)
Definition crel (r : ren) (c1 c2 : closure) : Prop :=
  c_name c1 = c_name c2 /\ c_params c1 = c_params c2 /\ rel r (c_defaults c1) (c_defaults c2) /\
  c_body c1 = c_body c2 /\ rel r (c_env c1) (c_env c2).
#[export] Instance Rel_closure : Rel closure := crel.
#[export] Instance Mono_closure : RelMono closure.
Proof.
  intros r r' a b S (H1 & H2 & H3 & H4 & H5). repeat split; auto; eapply rel_mono; eassumption.
Qed.

(* ---- states ------------------------------------------------------------------------------------------------- *)
Definition comp_rel {X} (R : nat -> nat -> Prop) (RX : X -> X -> Prop) (l1 l2 : list X) : Prop :=
  forall a b, R a b -> exists x1 x2, nth_error l1 a = Some x1 /\ nth_error l2 b = Some x2 /\ RX x1 x2.

(* list / dict entries: related contents, the same iteration-lock count *)
Definition lrel (r : ren) (x1 x2 : list value * nat) : Prop := rel r (fst x1) (fst x2) /\ snd x1 = snd x2.
Definition drel (r : ren) (x1 x2 : list (value * value) * nat) : Prop := rel r (fst x1) (fst x2) /\ snd x1 = snd x2.

Record srel (r : ren) (s1 s2 : state) : Prop := {
  sr_lists : comp_rel (rl r) (lrel r) (lists s1) (lists s2);
  sr_dicts : comp_rel (rd r) (drel r) (dicts s1) (dicts s2);
  sr_cells : comp_rel (rcl r) (@rel (option value) _ r) (cells s1) (cells s2);
  sr_clos : comp_rel (rc r) (crel r) (clos s1) (clos s2);
  sr_out : out s1 = out s2;
  sr_il : inj (rl r); sr_id : inj (rd r); sr_icl : inj (rcl r); sr_ic : inj (rc r)
}.
#[export] Instance Rel_state : Rel state := srel.

Lemma lrel_mono r r' x y : sub r r' -> lrel r x y -> lrel r' x y.
Proof. intros S [H E]. split; [eapply rel_mono; eassumption | exact E]. Qed.
Lemma drel_mono r r' x y : sub r r' -> drel r x y -> drel r' x y.
Proof. intros S [H E]. split; [eapply rel_mono; eassumption | exact E]. Qed.

Lemma comp_rel_bound {X} R RX (l1 l2 : list X) a b : comp_rel R RX l1 l2 -> R a b -> a < length l1 /\ b < length l2.
Proof.
  intros H Hab. destruct (H a b Hab) as (x1 & x2 & E1 & E2 & _). split; apply nth_error_Some; congruence.
Qed.
Lemma comp_rel_impl {X} R (RX RX' : X -> X -> Prop) l1 l2 :
  (forall x y, RX x y -> RX' x y) -> comp_rel R RX l1 l2 -> comp_rel R RX' l1 l2.
Proof. intros HI H a b Hab. destruct (H a b Hab) as (x1 & x2 & E1 & E2 & Hx). eauto 6. Qed.
Lemma comp_rel_ext {X} R (RX RX' : X -> X -> Prop) l1 l2 x1 x2 :
  comp_rel R RX l1 l2 -> (forall x y, RX x y -> RX' x y) -> RX' x1 x2 ->
  comp_rel (ext R (length l1) (length l2)) RX' (l1 ++ [x1]) (l2 ++ [x2]).
Proof.
  intros H HI Hx a b [Hab | [-> ->]].
  - destruct (comp_rel_bound _ _ _ _ _ _ H Hab) as [B1 B2].
    destruct (H a b Hab) as (y1 & y2 & E1 & E2 & Hy). exists y1, y2.
    rewrite !nth_error_app1 by assumption. auto.
  - exists x1, x2. rewrite !nth_error_app2, !Nat.sub_diag by lia. auto.
Qed.

Lemma nth_error_upd_eq {X} (l : list X) a x : a < length l -> nth_error (upd l a x) a = Some x.
Proof. revert a. induction l as [|h t IH]; intros [|a] H; cbn in *; try lia; auto. apply IH. lia. Qed.
Lemma nth_error_upd_neq {X} (l : list X) a a' x : a <> a' -> nth_error (upd l a x) a' = nth_error l a'.
Proof.
  revert a a'. induction l as [|h t IH]; intros [|a] [|a'] H; cbn; auto; try congruence.
Qed.
Lemma comp_rel_upd {X} R (RX : X -> X -> Prop) l1 l2 a b x1 x2 :
  inj R -> comp_rel R RX l1 l2 -> R a b -> RX x1 x2 -> comp_rel R RX (upd l1 a x1) (upd l2 b x2).
Proof.
  intros HI H Hab Hx a' b' Hab'. destruct (comp_rel_bound _ _ _ _ _ _ H Hab) as [B1 B2].
  destruct (Nat.eq_dec a a') as [<-|N].
  - assert (b = b') as <- by (apply (HI a b a b' Hab Hab'); reflexivity).
    exists x1, x2. rewrite !nth_error_upd_eq by assumption. auto.
  - assert (b <> b') as N' by (intros E; apply N, (HI a b a' b' Hab Hab'); exact E).
    rewrite !nth_error_upd_neq by assumption. apply H. exact Hab'.
Qed.

(* rebuilding a state relation after one component changed *)
Lemma srel_lists r s1 s2 L1 L2 : srel r s1 s2 -> comp_rel (rl r) (lrel r) L1 L2 ->
  srel r {| lists := L1; dicts := dicts s1; cells := cells s1; clos := clos s1; out := out s1 |}
         {| lists := L2; dicts := dicts s2; cells := cells s2; clos := clos s2; out := out s2 |}.
Proof. intros [] H. constructor; cbn; assumption. Qed.
Lemma srel_dicts r s1 s2 D1 D2 : srel r s1 s2 -> comp_rel (rd r) (drel r) D1 D2 ->
  srel r {| lists := lists s1; dicts := D1; cells := cells s1; clos := clos s1; out := out s1 |}
         {| lists := lists s2; dicts := D2; cells := cells s2; clos := clos s2; out := out s2 |}.
Proof. intros [] H. constructor; cbn; assumption. Qed.
Lemma srel_cells r s1 s2 C1 C2 : srel r s1 s2 -> comp_rel (rcl r) (@rel (option value) _ r) C1 C2 ->
  srel r {| lists := lists s1; dicts := dicts s1; cells := C1; clos := clos s1; out := out s1 |}
         {| lists := lists s2; dicts := dicts s2; cells := C2; clos := clos s2; out := out s2 |}.
Proof. intros [] H. constructor; cbn; assumption. Qed.
Lemma srel_out r s1 s2 o : srel r s1 s2 ->
  srel r {| lists := lists s1; dicts := dicts s1; cells := cells s1; clos := clos s1; out := o :: out s1 |}
         {| lists := lists s2; dicts := dicts s2; cells := cells s2; clos := clos s2; out := o :: out s2 |}.
Proof. intros []. constructor; cbn; try assumption. congruence. Qed.

(* ---- related results of computations ----------------------------------------------------------------------- *)
(* the renaming may have been extended (allocation) *)
Definition rrel {A} {RA : Rel A} (r : ren) (x1 x2 : res A) : Prop :=
  match x1, x2 with
  | Ok a1 s1, Ok a2 s2 => exists r', sub r r' /\ srel r' s1 s2 /\ rel r' a1 a2
  | Fail e1 l1 s1, Fail e2 l2 s2 => e1 = e2 /\ l1 = l2 /\ exists r', sub r r' /\ srel r' s1 s2
  | OutOfFuel, OutOfFuel => True
  | _, _ => False
  end.
Definition mrel {A} {RA : Rel A} (r : ren) (m1 m2 : M A) : Prop :=
  forall s1 s2, srel r s1 s2 -> rrel r (m1 s1) (m2 s2).
(* the renaming is unchanged (no allocation) *)
Definition rrel0 {A} {RA : Rel A} (r : ren) (x1 x2 : res A) : Prop :=
  match x1, x2 with
  | Ok a1 s1, Ok a2 s2 => srel r s1 s2 /\ rel r a1 a2
  | Fail e1 l1 s1, Fail e2 l2 s2 => e1 = e2 /\ l1 = l2 /\ srel r s1 s2
  | OutOfFuel, OutOfFuel => True
  | _, _ => False
  end.
Definition mrel0 {A} {RA : Rel A} (r : ren) (m1 m2 : M A) : Prop :=
  forall s1 s2, srel r s1 s2 -> rrel0 r (m1 s1) (m2 s2).

Lemma mrel0_mrel {A} {RA : Rel A} r (m1 m2 : M A) : mrel0 r m1 m2 -> mrel r m1 m2.
Proof.
  intros H s1 s2 Hs. specialize (H s1 s2 Hs). unfold rrel, rrel0 in *.
  destruct (m1 s1), (m2 s2); try contradiction; auto.
  - destruct H. exists r. auto using sub_refl.
  - destruct H as (? & ? & ?). split; [assumption|split; [assumption|]]. exists r. auto using sub_refl.
Qed.

Lemma mrel_ret {A} {RA : Rel A} r (a1 a2 : A) : rel r a1 a2 -> mrel r (ret a1) (ret a2).
Proof. intros H s1 s2 Hs. exists r. auto using sub_refl. Qed.
Lemma mrel0_ret {A} {RA : Rel A} r (a1 a2 : A) : rel r a1 a2 -> mrel0 r (ret a1) (ret a2).
Proof. intros H s1 s2 Hs. split; assumption. Qed.
Ltac fail_ok := split; [reflexivity|split; [reflexivity|]].
Lemma mrel_fail {A} {RA : Rel A} r e : mrel r (@fail A e) (@fail A e).
Proof. intros s1 s2 Hs. fail_ok. exists r. auto using sub_refl. Qed.
Lemma mrel0_fail {A} {RA : Rel A} r e : mrel0 r (@fail A e) (@fail A e).
Proof. intros s1 s2 Hs. fail_ok. exact Hs. Qed.

Lemma mrel_bind {A B} {RA : Rel A} {RB : Rel B} r (m1 m2 : M A) (f1 f2 : A -> M B) :
  mrel r m1 m2 -> (forall r' a1 a2, sub r r' -> rel r' a1 a2 -> mrel r' (f1 a1) (f2 a2)) ->
  mrel r (bind m1 f1) (bind m2 f2).
Proof.
  intros Hm Hf s1 s2 Hs. specialize (Hm s1 s2 Hs). unfold bind, rrel in *.
  destruct (m1 s1) as [a1 t1|e1 l1 t1|], (m2 s2) as [a2 t2|e2 l2 t2|]; try contradiction; auto.
  destruct Hm as (r' & S & Ht & Ha). specialize (Hf r' a1 a2 S Ha t1 t2 Ht). unfold rrel in Hf.
  destruct (f1 a1 t1) as [b1 u1|e1 l1 u1|], (f2 a2 t2) as [b2 u2|e2 l2 u2|]; try contradiction; auto.
  - destruct Hf as (r'' & S' & Hu & Hb). exists r''. eauto using sub_trans.
  - destruct Hf as (E1 & E2 & r'' & S' & Hu). split; [assumption|split; [assumption|]]. exists r''. eauto using sub_trans.
Qed.
Lemma mrel_bind0 {A B} {RA : Rel A} {RB : Rel B} r (m1 m2 : M A) (f1 f2 : A -> M B) :
  mrel0 r m1 m2 -> (forall a1 a2, rel r a1 a2 -> mrel r (f1 a1) (f2 a2)) -> mrel r (bind m1 f1) (bind m2 f2).
Proof.
  intros Hm Hf s1 s2 Hs. specialize (Hm s1 s2 Hs). unfold bind, rrel0 in *.
  destruct (m1 s1) as [a1 t1|e1 l1 t1|], (m2 s2) as [a2 t2|e2 l2 t2|]; try contradiction; cbn; auto.
  - destruct Hm as [Ht Ha]. apply Hf; assumption.
  - destruct Hm as (? & ? & ?). split; [assumption|split; [assumption|]]. exists r. auto using sub_refl.
Qed.
Lemma mrel0_bind {A B} {RA : Rel A} {RB : Rel B} r (m1 m2 : M A) (f1 f2 : A -> M B) :
  mrel0 r m1 m2 -> (forall a1 a2, rel r a1 a2 -> mrel0 r (f1 a1) (f2 a2)) -> mrel0 r (bind m1 f1) (bind m2 f2).
Proof.
  intros Hm Hf s1 s2 Hs. specialize (Hm s1 s2 Hs). unfold bind, rrel0 in *.
  destruct (m1 s1) as [a1 t1|e1 l1 t1|], (m2 s2) as [a2 t2|e2 l2 t2|]; try contradiction; cbn; auto.
  destruct Hm as [Ht Ha]. apply Hf; assumption.
Qed.

Lemma mrel0_get_state r : mrel0 r get_state get_state.
Proof. intros s1 s2 Hs. split; exact Hs. Qed.

(* ---- the store primitives ----------------------------------------------------------------------------------- *)
Lemma get_list_rel r a b : rl r a b -> mrel0 r (get_list a) (get_list b).
Proof.
  intros H s1 s2 Hs. destruct (sr_lists _ _ _ Hs a b H) as ([l1 c1] & [l2 c2] & E1 & E2 & F & Ec).
  unfold get_list. rewrite E1, E2. split; assumption.
Qed.
Lemma get_dict_rel r a b : rd r a b -> mrel0 r (get_dict a) (get_dict b).
Proof.
  intros H s1 s2 Hs. destruct (sr_dicts _ _ _ Hs a b H) as ([l1 c1] & [l2 c2] & E1 & E2 & F & Ec).
  unfold get_dict. rewrite E1, E2. split; assumption.
Qed.
Lemma get_clo_rel r a b : rc r a b -> mrel0 r (get_clo a) (get_clo b).
Proof.
  intros H s1 s2 Hs. destruct (sr_clos _ _ _ Hs a b H) as (c1 & c2 & E1 & E2 & F).
  unfold get_clo. rewrite E1, E2. split; assumption.
Qed.
Lemma get_cell_rel r a b : rcl r a b -> mrel0 r (get_cell a) (get_cell b).
Proof.
  intros H s1 s2 Hs. destruct (sr_cells _ _ _ Hs a b H) as (c1 & c2 & E1 & E2 & F).
  unfold get_cell. rewrite E1, E2. destruct c1, c2; cbn in F; try contradiction; [split; assumption|fail_ok; exact Hs].
Qed.
Lemma set_cell_rel r a b v1 v2 : rcl r a b -> rel r v1 v2 -> mrel0 r (set_cell a v1) (set_cell b v2).
Proof.
  intros H Hv s1 s2 Hs. unfold set_cell. split; [|exact I]. apply srel_cells; [exact Hs|].
  apply comp_rel_upd; [apply (sr_icl _ _ _ Hs) | apply (sr_cells _ _ _ Hs) | exact H | exact Hv].
Qed.
Lemma set_list_rel r a b l1 l2 : rl r a b -> rel r l1 l2 -> mrel0 r (set_list a l1) (set_list b l2).
Proof.
  intros H Hl s1 s2 Hs. destruct (sr_lists _ _ _ Hs a b H) as ([x1 c1] & [x2 c2] & E1 & E2 & F & Ec).
  cbn in Ec. subst c2. unfold set_list. rewrite E1, E2. destruct c1; [|fail_ok; exact Hs].
  split; [|exact I]. apply srel_lists; [exact Hs|].
  apply comp_rel_upd; [apply (sr_il _ _ _ Hs) | apply (sr_lists _ _ _ Hs) | exact H | split; [exact Hl|reflexivity]].
Qed.
Lemma set_list_elem_rel r a b l1 l2 : rl r a b -> rel r l1 l2 -> mrel0 r (set_list_elem a l1) (set_list_elem b l2).
Proof.
  intros H Hl s1 s2 Hs. destruct (sr_lists _ _ _ Hs a b H) as ([x1 c1] & [x2 c2] & E1 & E2 & F & Ec).
  cbn in Ec. subst c2. unfold set_list_elem. rewrite E1, E2.
  split; [|exact I]. apply srel_lists; [exact Hs|].
  apply comp_rel_upd; [apply (sr_il _ _ _ Hs) | apply (sr_lists _ _ _ Hs) | exact H | split; [exact Hl|reflexivity]].
Qed.
Lemma set_dict_rel r a b l1 l2 : rd r a b -> rel r l1 l2 -> mrel0 r (set_dict a l1) (set_dict b l2).
Proof.
  intros H Hl s1 s2 Hs. destruct (sr_dicts _ _ _ Hs a b H) as ([x1 c1] & [x2 c2] & E1 & E2 & F & Ec).
  cbn in Ec. subst c2. unfold set_dict. rewrite E1, E2. destruct c1; [|fail_ok; exact Hs].
  split; [|exact I]. apply srel_dicts; [exact Hs|].
  apply comp_rel_upd; [apply (sr_id _ _ _ Hs) | apply (sr_dicts _ _ _ Hs) | exact H | split; [exact Hl|reflexivity]].
Qed.
(* the size-preserving dict store of set_index *)
Lemma set_dict_keep_rel r a b l1 l2 : rd r a b -> rel r l1 l2 ->
  mrel0 r (fun st => match nth_error (dicts st) a with
                     | Some (_, c) => Ok tt {| lists := lists st; dicts := upd (dicts st) a (l1, c);
                                               cells := cells st; clos := clos st; out := out st |}
                     | None => Fail Unsupported None st end)
          (fun st => match nth_error (dicts st) b with
                     | Some (_, c) => Ok tt {| lists := lists st; dicts := upd (dicts st) b (l2, c);
                                               cells := cells st; clos := clos st; out := out st |}
                     | None => Fail Unsupported None st end).
Proof.
  intros H Hl s1 s2 Hs. destruct (sr_dicts _ _ _ Hs a b H) as ([x1 c1] & [x2 c2] & E1 & E2 & F & Ec).
  cbn in Ec. subst c2. rewrite E1, E2.
  split; [|exact I]. apply srel_dicts; [exact Hs|].
  apply comp_rel_upd; [apply (sr_id _ _ _ Hs) | apply (sr_dicts _ _ _ Hs) | exact H | split; [exact Hl|reflexivity]].
Qed.
Lemma emit_obs_rel r o : mrel0 r (emit_obs o) (emit_obs o).
Proof. intros s1 s2 Hs. unfold emit_obs. split; [|exact I]. apply srel_out. exact Hs. Qed.

Lemma iter_lock_rel r v1 v2 d : rel r v1 v2 -> mrel0 r (iter_lock v1 d) (iter_lock v2 d).
Proof.
  intros Hv s1 s2 Hs. inversion Hv; subst; unfold iter_lock; try (split; [exact Hs|exact I]).
  - destruct (sr_lists _ _ _ Hs a b H) as ([x1 c1] & [x2 c2] & E1 & E2 & F & Ec). cbn in Ec, F. subst c2. rewrite E1, E2.
    split; [|exact I]. apply srel_lists; [exact Hs|].
    apply comp_rel_upd; [apply (sr_il _ _ _ Hs) | apply (sr_lists _ _ _ Hs) | exact H | split; [exact F|reflexivity]].
  - destruct (sr_dicts _ _ _ Hs a b H) as ([x1 c1] & [x2 c2] & E1 & E2 & F & Ec). cbn in Ec, F. subst c2. rewrite E1, E2.
    split; [|exact I]. apply srel_dicts; [exact Hs|].
    apply comp_rel_upd; [apply (sr_id _ _ _ Hs) | apply (sr_dicts _ _ _ Hs) | exact H | split; [exact F|reflexivity]].
Qed.

(* allocation: the renaming is extended by the pair of fresh addresses *)
Lemma srel_bounds_l r s1 s2 : srel r s1 s2 -> forall a b, rl r a b -> a < length (lists s1) /\ b < length (lists s2).
Proof. intros Hs a b H. eapply comp_rel_bound; [apply (sr_lists _ _ _ Hs)|exact H]. Qed.
Lemma srel_bounds_d r s1 s2 : srel r s1 s2 -> forall a b, rd r a b -> a < length (dicts s1) /\ b < length (dicts s2).
Proof. intros Hs a b H. eapply comp_rel_bound; [apply (sr_dicts _ _ _ Hs)|exact H]. Qed.
Lemma srel_bounds_cl r s1 s2 : srel r s1 s2 -> forall a b, rcl r a b -> a < length (cells s1) /\ b < length (cells s2).
Proof. intros Hs a b H. eapply comp_rel_bound; [apply (sr_cells _ _ _ Hs)|exact H]. Qed.
Lemma srel_bounds_c r s1 s2 : srel r s1 s2 -> forall a b, rc r a b -> a < length (clos s1) /\ b < length (clos s2).
Proof. intros Hs a b H. eapply comp_rel_bound; [apply (sr_clos _ _ _ Hs)|exact H]. Qed.

Lemma alloc_list_rel r l1 l2 : rel r l1 l2 -> mrel r (alloc_list l1) (alloc_list l2).
Proof.
  intros Hl s1 s2 Hs. unfold alloc_list. set (r' := ext_l r (length (lists s1)) (length (lists s2))).
  assert (S : sub r r') by apply sub_ext_l.
  exists r'. split; [exact S|]. split.
  - constructor; cbn [lists dicts cells clos out rl rd rcl rc r' ext_l].
    + apply comp_rel_ext with (RX := lrel r); [apply (sr_lists _ _ _ Hs) | intros x y; apply lrel_mono; exact S |].
      split; [eapply rel_mono; eassumption | reflexivity].
    + eapply comp_rel_impl; [|apply (sr_dicts _ _ _ Hs)]. intros x y; apply drel_mono; exact S.
    + eapply comp_rel_impl; [|apply (sr_cells _ _ _ Hs)]. intros x y; apply rel_mono; exact S.
    + eapply comp_rel_impl; [|apply (sr_clos _ _ _ Hs)]. intros x y; apply (rel_mono (A := closure)); exact S.
    + apply (sr_out _ _ _ Hs).
    + apply inj_ext; [apply (sr_il _ _ _ Hs) | apply (srel_bounds_l _ _ _ Hs)].
    + apply (sr_id _ _ _ Hs).
    + apply (sr_icl _ _ _ Hs).
    + apply (sr_ic _ _ _ Hs).
  - constructor. cbn. right. auto.
Qed.
Lemma alloc_dict_rel r l1 l2 : rel r l1 l2 -> mrel r (alloc_dict l1) (alloc_dict l2).
Proof.
  intros Hl s1 s2 Hs. unfold alloc_dict. set (r' := ext_d r (length (dicts s1)) (length (dicts s2))).
  assert (S : sub r r') by apply sub_ext_d.
  exists r'. split; [exact S|]. split.
  - constructor; cbn [lists dicts cells clos out rl rd rcl rc r' ext_d].
    + eapply comp_rel_impl; [|apply (sr_lists _ _ _ Hs)]. intros x y; apply lrel_mono; exact S.
    + apply comp_rel_ext with (RX := drel r); [apply (sr_dicts _ _ _ Hs) | intros x y; apply drel_mono; exact S |].
      split; [eapply rel_mono; eassumption | reflexivity].
    + eapply comp_rel_impl; [|apply (sr_cells _ _ _ Hs)]. intros x y; apply rel_mono; exact S.
    + eapply comp_rel_impl; [|apply (sr_clos _ _ _ Hs)]. intros x y; apply (rel_mono (A := closure)); exact S.
    + apply (sr_out _ _ _ Hs).
    + apply (sr_il _ _ _ Hs).
    + apply inj_ext; [apply (sr_id _ _ _ Hs) | apply (srel_bounds_d _ _ _ Hs)].
    + apply (sr_icl _ _ _ Hs).
    + apply (sr_ic _ _ _ Hs).
  - constructor. cbn. right. auto.
Qed.
Lemma alloc_clo_rel r c1 c2 : rel r c1 c2 -> mrel r (alloc_clo c1) (alloc_clo c2).
Proof.
  intros Hl s1 s2 Hs. unfold alloc_clo. set (r' := ext_c r (length (clos s1)) (length (clos s2))).
  assert (S : sub r r') by apply sub_ext_c.
  exists r'. split; [exact S|]. split.
  - constructor; cbn [lists dicts cells clos out rl rd rcl rc r' ext_c].
    + eapply comp_rel_impl; [|apply (sr_lists _ _ _ Hs)]. intros x y; apply lrel_mono; exact S.
    + eapply comp_rel_impl; [|apply (sr_dicts _ _ _ Hs)]. intros x y; apply drel_mono; exact S.
    + eapply comp_rel_impl; [|apply (sr_cells _ _ _ Hs)]. intros x y; apply rel_mono; exact S.
    + apply comp_rel_ext with (RX := crel r); [apply (sr_clos _ _ _ Hs) | intros x y; apply (rel_mono (A := closure)); exact S |].
      eapply (rel_mono (A := closure)); eassumption.
    + apply (sr_out _ _ _ Hs).
    + apply (sr_il _ _ _ Hs).
    + apply (sr_id _ _ _ Hs).
    + apply (sr_icl _ _ _ Hs).
    + apply inj_ext; [apply (sr_ic _ _ _ Hs) | apply (srel_bounds_c _ _ _ Hs)].
  - constructor. cbn. right. auto.
Qed.
(* a fresh cell, and the environment extended by it *)
Lemma alloc_cell_rel r (o1 o2 : option value) s1 s2 : rel r o1 o2 -> srel r s1 s2 ->
  match alloc_cell o1 s1, alloc_cell o2 s2 with
  | Ok a1 t1, Ok a2 t2 => exists r', sub r r' /\ srel r' t1 t2 /\ rcl r' a1 a2
  | _, _ => False
  end.
Proof.
  intros Hl Hs. unfold alloc_cell. set (r' := ext_cl r (length (cells s1)) (length (cells s2))).
  assert (S : sub r r') by apply sub_ext_cl.
  exists r'. split; [exact S|]. split.
  - constructor; cbn [lists dicts cells clos out rl rd rcl rc r' ext_cl].
    + eapply comp_rel_impl; [|apply (sr_lists _ _ _ Hs)]. intros x y; apply lrel_mono; exact S.
    + eapply comp_rel_impl; [|apply (sr_dicts _ _ _ Hs)]. intros x y; apply drel_mono; exact S.
    + apply comp_rel_ext with (RX := @rel (option value) _ r); [apply (sr_cells _ _ _ Hs) | intros x y; apply rel_mono; exact S |].
      eapply rel_mono; eassumption.
    + eapply comp_rel_impl; [|apply (sr_clos _ _ _ Hs)]. intros x y; apply (rel_mono (A := closure)); exact S.
    + apply (sr_out _ _ _ Hs).
    + apply (sr_il _ _ _ Hs).
    + apply (sr_id _ _ _ Hs).
    + apply inj_ext; [apply (sr_icl _ _ _ Hs) | apply (srel_bounds_cl _ _ _ Hs)].
    + apply (sr_ic _ _ _ Hs).
  - cbn. right. auto.
Qed.
Lemma alloc_cells_rel r names : mrel r (alloc_cells names) (alloc_cells names).
Proof.
  revert r. induction names as [|x t IH]; intros r s1 s2 Hs; cbn [alloc_cells].
  - exists r. split; [apply sub_refl|]. split; [exact Hs|constructor].
  - unfold bind at 1 3. pose proof (alloc_cell_rel r None None s1 s2 I Hs) as H.
    destruct (alloc_cell None s1) as [a1 t1| |], (alloc_cell None s2) as [a2 t2| |]; try contradiction.
    destruct H as (r' & S & Ht & Ha). specialize (IH r' t1 t2 Ht). unfold bind, rrel in *.
    destruct (alloc_cells t t1) as [e1 u1|? ? ?|], (alloc_cells t t2) as [e2 u2|? ? ?|]; try contradiction; auto.
    + destruct IH as (r'' & S' & Hu & He). exists r''. split; [eapply sub_trans; eassumption|]. split; [exact Hu|].
      constructor; [|exact He]. split; [reflexivity|]. apply S'. exact Ha.
    + destruct IH as (? & ? & r'' & S' & Hu). split; [assumption|split; [assumption|]]. exists r''. split; [eapply sub_trans; eassumption|exact Hu].
Qed.
