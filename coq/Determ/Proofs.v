(* C14 lemmas: the mechanisms of Determ/Model.v leak neither a seed nor an address. *)
From Coq Require Import ZArith List String Ascii Bool Arith Lia Permutation Sorted.
From SV Require Import Map.Spec Map.Model Map.Proofs Eq.Model Eq.Proofs Core.Syntax Core.Values Core.Sem Core.SemProofs
  Determ.Model.
Import ListNotations.

(* ------------------------------------------------------------------------------------------------------------- *)
(* A. hash(): both code paths compute the specification series                                                     *)
Section HashProofs.
  Open Scope Z_scope.
  Notation M32 := 4294967296.

  Lemma wrap32_mod a : (wrap32 a) mod M32 = a mod M32.
  Proof.
    unfold wrap32. rewrite Zminus_mod_idemp_l. f_equal. lia.
  Qed.

  Lemma wrap32_eqm a b : a mod M32 = b mod M32 -> wrap32 a = wrap32 b.
  Proof.
    intros E. unfold wrap32. rewrite <- (Z.add_mod_idemp_l a), E, Z.add_mod_idemp_l by lia. reflexivity.
  Qed.

  Lemma step_eqm h h' c : h mod M32 = h' mod M32 -> wrap32 (wrap32 (31 * h) + c) = wrap32 (31 * h' + c).
  Proof.
    intros E. apply wrap32_eqm.
    rewrite <- Z.add_mod_idemp_l by lia. rewrite wrap32_mod.
    rewrite <- Z.mul_mod_idemp_r by lia. rewrite E.
    rewrite Z.mul_mod_idemp_r by lia. rewrite Z.add_mod_idemp_l by lia. reflexivity.
  Qed.

  Lemma fold_series u : forall h h', h mod M32 = h' mod M32 ->
    wrap32 (fold_left (fun h c => wrap32 (wrap32 (31 * h) + c)) u h) = wrap32 (h' * 31 ^ Z.of_nat (List.length u) + series u).
  Proof.
    induction u as [|c t IH]; intros h h' E.
    - cbn [fold_left series List.length]. apply wrap32_eqm. rewrite E. f_equal. change (31 ^ Z.of_nat 0) with 1. lia.
    - cbn [fold_left series List.length].
      rewrite (IH _ (31 * h' + c)).
      + f_equal. rewrite Nat2Z.inj_succ, Z.pow_succ_r by lia. ring.
      + rewrite (step_eqm h h' c E). apply wrap32_mod.
  Qed.

  Lemma wrap32_idem a : wrap32 (wrap32 a) = wrap32 a.
  Proof. apply wrap32_eqm, wrap32_mod. Qed.

  Lemma fold_is_wrapped u : forall h, wrap32 h = h ->
    wrap32 (fold_left (fun h c => wrap32 (wrap32 (31 * h) + c)) u h) = fold_left (fun h c => wrap32 (wrap32 (31 * h) + c)) u h.
  Proof.
    induction u as [|c t IH]; intros h E; cbn [fold_left]; [exact E|]. apply IH. apply wrap32_idem.
  Qed.

  Lemma utf16_fold_spec u : utf16_fold u = wrap32 (series u).
  Proof.
    unfold utf16_fold. rewrite <- fold_is_wrapped by reflexivity.
    rewrite (fold_series u 0 0) by reflexivity. f_equal.
  Qed.

  (* the ASCII loop succeeds exactly on strings of code points below 128 and then folds the code points *)
  Lemma ascii_loop_spec s : forall h,
    ascii_loop (flat_map utf8 s) h =
    if forallb (fun c => c <? 128) s then Some (fold_left (fun h c => wrap32 (wrap32 (31 * h) + c)) s h) else None.
  Proof.
    induction s as [|c t IH]; intros h; cbn [flat_map forallb fold_left]; [reflexivity|].
    unfold utf8 at 1.
    destruct (c <? 128) eqn:E1.
    - cbn [app ascii_loop andb]. assert (127 <? c = false) as -> by lia.
      rewrite IH. rewrite (Z.mul_comm h 31). reflexivity.
    - cbn [andb]. destruct (c <? 2048) eqn:E2; [|destruct (c <? 65536) eqn:E3]; cbn [app ascii_loop].
      + assert (127 <? 192 + c / 64 = true) as ->; [|reflexivity].
        apply Z.ltb_lt. assert (0 <= c / 64) by (apply Z.div_pos; lia). lia.
      + assert (127 <? 224 + c / 4096 = true) as ->; [|reflexivity].
        apply Z.ltb_lt. assert (0 <= c / 4096) by (apply Z.div_pos; lia). lia.
      + assert (127 <? 240 + c / 262144 = true) as ->; [|reflexivity].
        apply Z.ltb_lt. assert (0 <= c / 262144) by (apply Z.div_pos; lia). lia.
  Qed.

  Lemma utf16_ascii s : forallb (fun c => c <? 128) s = true -> flat_map utf16 s = s.
  Proof.
    induction s as [|c t IH]; cbn [forallb flat_map]; [reflexivity|].
    intros H. apply andb_true_iff in H. destruct H as [H1 H2]. rewrite (IH H2).
    unfold utf16. assert (c <? 65536 = true) as -> by lia. reflexivity.
  Qed.

  Theorem hash_builtin_spec : forall s : list Z, hash_builtin s = hash_spec s.
  Proof.
    intros s. unfold hash_builtin, hash_spec. rewrite ascii_loop_spec.
    destruct (forallb (fun c => c <? 128) s) eqn:E.
    - rewrite (utf16_ascii s E). apply utf16_fold_spec.
    - apply utf16_fold_spec.
  Qed.

  (* the model of C09 (Eq/Model.v java_hash) is the same function *)
  Lemma to_i32w_wrap32 z : to_i32w z = wrap32 z.
  Proof. reflexivity. Qed.

  Lemma java_fold_eq u : forall h,
    fold_left (fun h c => to_i32w (31 * h + c)) u h = fold_left (fun h c => wrap32 (wrap32 (31 * h) + c)) u h.
  Proof.
    induction u as [|c t IH]; intros h; cbn [fold_left]; [reflexivity|].
    rewrite IH. f_equal. rewrite to_i32w_wrap32.
    apply wrap32_eqm. rewrite <- (Z.add_mod_idemp_l (wrap32 (31 * h))) by lia. rewrite wrap32_mod.
    rewrite Z.add_mod_idemp_l by lia. reflexivity.
  Qed.

  Theorem hash_builtin_java_hash : forall s, hash_builtin s = java_hash s.
  Proof.
    intros s. rewrite hash_builtin_spec. unfold hash_spec, java_hash.
    rewrite <- utf16_fold_spec. unfold utf16_fold. symmetry. apply java_fold_eq.
  Qed.
End HashProofs.

(* ------------------------------------------------------------------------------------------------------------- *)
(* B. iteration order does not depend on the seed; dir() does not depend on the order of its sources               *)
Section SeedProofs.
  Context {K V S H : Type}.
  Variable keq : K -> K -> bool.
  Variable heq : H -> H -> bool.
  Variable klt : K -> K -> bool.
  Variable hash : S -> K -> H.
  Hypothesis keq_spec : forall a b, keq a b = true <-> a = b.
  Hypothesis heq_spec : forall a b, heq a b = true <-> a = b.

  Theorem order_seed_independent : forall (seed1 seed2 : S) (thr1 thr2 mi1 mi2 : nat) (ops : list (op K V)),
    container_items keq heq klt hash seed1 thr1 mi1 ops = container_items keq heq klt hash seed2 thr2 mi2 ops.
  Proof.
    intros. unfold container_items.
    apply (hash_independent keq klt heq heq (hash seed1) (hash seed2) thr1 thr2 mi1 mi2 keq_spec heq_spec heq_spec).
  Qed.

  (* ... and is the association-list semantics of the history: a function of the history alone *)
  Theorem order_is_history_function : forall (seed : S) (thr mi : nat) (ops : list (op K V)),
    container_items keq heq klt hash seed thr mi ops = Spec.run keq klt ops.
  Proof. intros. unfold container_items. apply (refines keq heq klt (hash seed) thr mi keq_spec heq_spec). Qed.
End SeedProofs.

Section SortUnique.
  Context {A : Type}.
  Variable leb : A -> A -> bool.
  Hypothesis leb_total : forall x y, leb x y = true \/ leb y x = true.
  Hypothesis leb_trans : forall x y z, leb x y = true -> leb y z = true -> leb x z = true.
  Hypothesis leb_antisym : forall x y, leb x y = true -> leb y x = true -> x = y.

  Lemma sorted_perm_unique : forall l1 l2 : list A,
    StronglySorted (fun x y => leb x y = true) l1 -> StronglySorted (fun x y => leb x y = true) l2 ->
    Permutation l1 l2 -> l1 = l2.
  Proof.
    induction l1 as [|x l1 IH]; intros l2 S1 S2 P.
    - apply Permutation_nil in P. subst. reflexivity.
    - destruct l2 as [|y l2]; [apply Permutation_sym, Permutation_nil in P; discriminate|].
      inversion S1 as [|? ? S1' F1]; subst. inversion S2 as [|? ? S2' F2]; subst.
      assert (x = y) as ->.
      { assert (In x (y :: l2)) as I1 by (eapply Permutation_in; [exact P|left; reflexivity]).
        assert (In y (x :: l1)) as I2 by (eapply Permutation_in; [apply Permutation_sym; exact P|left; reflexivity]).
        destruct I1 as [->|I1]; [reflexivity|]. destruct I2 as [->|I2]; [reflexivity|].
        rewrite Forall_forall in F1, F2. apply leb_antisym; [apply F1; exact I2|apply F2; exact I1]. }
      f_equal. apply IH; [exact S1'|exact S2'|]. eapply Permutation_cons_inv. exact P.
  Qed.

  (* dir(): whatever order the method table and the value's own attribute list come in, the result is the same *)
  Theorem dir_order_independent : forall m1 m2 a1 a2 : list A,
    Permutation m1 m2 -> Permutation a1 a2 -> dir_model leb m1 a1 = dir_model leb m2 a2.
  Proof.
    intros m1 m2 a1 a2 Pm Pa. unfold dir_model.
    destruct (isort_spec A leb leb_total leb_trans (m1 ++ a1)) as (P1 & S1 & _).
    destruct (isort_spec A leb leb_total leb_trans (m2 ++ a2)) as (P2 & S2 & _).
    apply sorted_perm_unique; [exact S1|exact S2|].
    eapply perm_trans; [exact P1|]. eapply perm_trans; [|apply Permutation_sym; exact P2].
    apply Permutation_app; assumption.
  Qed.
End SortUnique.

(* ------------------------------------------------------------------------------------------------------------- *)
(* C. did-you-mean                                                                                                 *)
Section DymProofs.
  Context {N : Type}.
  Variable len : N -> nat.
  Variable dist : N -> N -> nat.

  Section ArgMin.
    Variable k : N -> nat.
    Let pair (v : N) := (v, k v).
    Let step (best y : N * nat) := if snd y <? snd best then y else best.

    Fixpoint argmin_first (b : N) (t : list N) : N :=
      match t with [] => b | y :: t' => argmin_first (if k y <? k b then y else b) t' end.

    Lemma fold_argmin : forall t b, fold_left step (map pair t) (pair b) = pair (argmin_first b t).
    Proof.
      induction t as [|y t IH]; intros b; cbn [map fold_left argmin_first]; [reflexivity|].
      replace (step (pair b) (pair y)) with (pair (if k y <? k b then y else b)).
      - apply IH.
      - unfold step, pair. cbn [snd]. destruct (k y <? k b); reflexivity.
    Qed.

    (* r is the first element of l with the least key *)
    Definition FirstMin (l : list N) (r : N) : Prop :=
      exists l1 l2, l = l1 ++ r :: l2 /\ (forall w, In w l1 -> k r < k w) /\ (forall w, In w l2 -> k r <= k w).

    Lemma argmin_first_is_first_min : forall t b, FirstMin (b :: t) (argmin_first b t).
    Proof.
      induction t as [|y t IH]; intros b; cbn [argmin_first].
      - exists [], []. repeat split; intros w [].
      - destruct (IH (if k y <? k b then y else b)) as (l1 & l2 & E & H1 & H2).
        remember (argmin_first (if k y <? k b then y else b) t) as r eqn:Hr. clear Hr.
        destruct l1 as [|b' l1].
        + cbn [app] in E. injection E as Er El. subst l2.
          destruct (Nat.ltb_spec (k y) (k b)) as [L|L].
          * exists [b], t. rewrite <- Er. repeat split.
            -- intros w [<-|[]]. exact L.
            -- intros w Iw. rewrite Er. apply H2. exact Iw.
          * exists [], (y :: t). rewrite <- Er. repeat split.
            -- intros w [].
            -- intros w [<-|Iw]; [exact L|]. rewrite Er. apply H2. exact Iw.
        + cbn [app] in E. injection E as Eb Et. subst t.
          assert (Lb : k r < k b').
          { apply H1. left. reflexivity. }
          exists (b :: y :: l1), l2. repeat split.
          * intros w [<-|[<-|Iw]].
            -- rewrite <- Eb in Lb. destruct (Nat.ltb_spec (k y) (k b)); lia.
            -- rewrite <- Eb in Lb. destruct (Nat.ltb_spec (k y) (k b)); lia.
            -- apply H1. right. exact Iw.
          * exact H2.
    Qed.

    Lemma list_min_char : forall (l : list nat) m, In m l -> (forall x, In x l -> m <= x) -> list_min l = Some m.
    Proof.
      induction l as [|x t IH]; intros m I L; [destruct I|]. cbn [list_min].
      destruct t as [|x' t'].
      - cbn [list_min]. destruct I as [->|[]]. reflexivity.
      - destruct I as [<-|I].
        + destruct (list_min (x' :: t')) as [m'|] eqn:E; [|reflexivity].
          f_equal. assert (x <= m'); [|lia].
          assert (In m' (x' :: t')) as Im.
          { clear - E. revert m' E. generalize (x' :: t') as l. induction l as [|a l IHl]; intros m' E; [discriminate|].
            cbn [list_min] in E. destruct (list_min l) as [q|] eqn:Eq.
            - injection E as <-. destruct (Nat.min_spec a q) as [[_ ->]|[_ ->]]; [left; reflexivity|right; apply IHl; reflexivity].
            - injection E as <-. left. reflexivity. }
          apply L. right. exact Im.
        + rewrite (IH m I) by (intros z Iz; apply L; right; exact Iz).
          f_equal. assert (m <= x) by (apply L; left; reflexivity). lia.
    Qed.

    Lemma first_min_char : forall l r, FirstMin l r ->
      list_min (map k l) = Some (k r) /\ hd_error (filter (fun v => k v =? k r) l) = Some r.
    Proof.
      intros l r (l1 & l2 & -> & H1 & H2). split.
      - apply list_min_char.
        + apply in_map. apply in_or_app. right. left. reflexivity.
        + intros x Ix. apply in_map_iff in Ix. destruct Ix as (w & <- & Iw).
          apply in_app_or in Iw. destruct Iw as [Iw|[<-|Iw]]; [apply Nat.lt_le_incl, H1, Iw|lia|apply H2, Iw].
      - rewrite filter_app.
        assert (filter (fun v => k v =? k r) l1 = []) as ->.
        { clear - H1. induction l1 as [|a l1 IH]; [reflexivity|]. cbn [filter].
          assert (k r < k a) by (apply H1; left; reflexivity).
          destruct (Nat.eqb_spec (k a) (k r)); [lia|]. apply IH. intros w Iw. apply H1. right. exact Iw. }
        cbn [app filter]. rewrite Nat.eqb_refl. reflexivity.
    Qed.

    Lemma min_by_key_first_spec : forall l,
      min_by_key_first (map pair l) =
      match list_min (map k l) with
      | None => None
      | Some m => option_map pair (hd_error (filter (fun v => k v =? m) l))
      end.
    Proof.
      intros [|b t]; [reflexivity|].
      unfold min_by_key_first. cbn [map]. fold (pair b).
      change (fun best y : N * nat => if snd y <? snd best then y else best) with step.
      rewrite fold_argmin.
      destruct (first_min_char _ _ (argmin_first_is_first_min t b)) as [E1 E2].
      change (k b :: map k t) with (map k (b :: t)). rewrite E1, E2. reflexivity.
    Qed.
  End ArgMin.

  Lemma filter_map_pair (value : N) (vs : list N) :
    filter (fun p : N * nat => snd p <=? max_dist len value) (map (fun v => (v, dist value v)) vs) =
    map (fun v => (v, dist value v)) (filter (in_range len dist value) vs).
  Proof.
    induction vs as [|v vs IH]; [reflexivity|]. cbn [map filter snd]. unfold in_range at 1.
    destruct (dist value v <=? max_dist len value); cbn [map]; rewrite IH; reflexivity.
  Qed.

  Lemma filter_filter (f g : N -> bool) (l : list N) : filter f (filter g l) = filter (fun v => g v && f v) l.
  Proof.
    induction l as [|a l IH]; [reflexivity|]. cbn [filter]. destruct (g a); cbn [filter andb]; [destruct (f a)|]; rewrite IH; reflexivity.
  Qed.

  (* the suggestion is the FIRST candidate, in list order, among those at the least distance within the cut-off *)
  Theorem did_you_mean_is_spec : forall value variants,
    did_you_mean len dist value variants = did_you_mean_spec len dist value variants.
  Proof.
    intros value vs. unfold did_you_mean, did_you_mean_spec.
    destruct (len value =? 0); [reflexivity|].
    rewrite filter_map_pair. rewrite (min_by_key_first_spec (dist value)).
    destruct (list_min (map (dist value) (filter (in_range len dist value) vs))) as [m|]; [|reflexivity].
    unfold first_at. rewrite filter_filter.
    destruct (hd_error _); reflexivity.
  Qed.

  Lemma list_min_perm : forall l1 l2 : list nat, Permutation l1 l2 -> list_min l1 = list_min l2.
  Proof.
    intros l1 l2 P. destruct (list_min l1) as [m|] eqn:E.
    - symmetry. apply list_min_char.
      + eapply Permutation_in; [exact P|].
        clear - E. revert m E. induction l1 as [|a l IHl]; intros m E; [discriminate|].
        cbn [list_min] in E. destruct (list_min l) as [q|] eqn:Eq.
        * injection E as <-. destruct (Nat.min_spec a q) as [[_ ->]|[_ ->]]; [left; reflexivity|right; apply IHl; reflexivity].
        * injection E as <-. left. reflexivity.
      + intros x Ix. apply Permutation_sym in P. apply (Permutation_in _ P) in Ix.
        clear - E Ix. revert m E. induction l1 as [|a l IHl]; intros m E; [destruct Ix|].
        cbn [list_min] in E. destruct (list_min l) as [q|] eqn:Eq.
        * injection E as <-. destruct Ix as [<-|Ix]; [lia|]. specialize (IHl Ix q eq_refl). lia.
        * injection E as <-. destruct Ix as [<-|Ix]; [lia|]. destruct l; [destruct Ix|]. cbn [list_min] in Eq.
          destruct (list_min l); discriminate.
    - destruct l1 as [|a l1].
      + apply Permutation_nil in P. subst. reflexivity.
      + cbn [list_min] in E. destruct (list_min l1); discriminate.
  Qed.

  (* stability: a reordering of the candidates that keeps, for every distance, which candidate comes first at that
     distance, does not change the suggestion (in particular: any reordering when the closest candidate is unique) *)
  Theorem did_you_mean_stable : forall value vs1 vs2,
    Permutation vs1 vs2 ->
    (forall m, first_at len dist value m vs1 = first_at len dist value m vs2) ->
    did_you_mean len dist value vs1 = did_you_mean len dist value vs2.
  Proof.
    intros value vs1 vs2 P F. rewrite !did_you_mean_is_spec. unfold did_you_mean_spec.
    destruct (len value =? 0); [reflexivity|].
    assert (list_min (map (dist value) (filter (in_range len dist value) vs1)) =
            list_min (map (dist value) (filter (in_range len dist value) vs2))) as ->.
    { apply list_min_perm. apply Permutation_map. clear F.
      induction P as [|x l l' P IH|x y l|l l' l'' P1 IH1 P2 IH2]; cbn [filter].
      - constructor.
      - destruct (in_range len dist value x); [constructor|]; exact IH.
      - destruct (in_range len dist value x), (in_range len dist value y); try apply Permutation_refl. apply perm_swap.
      - eapply perm_trans; eassumption. }
    destruct (list_min _); [apply F|reflexivity].
  Qed.
End DymProofs.

(* candidate lists built from SmallMaps: independent of the hasher of those maps *)
Theorem candidates_seed_independent : forall (K V S H : Type) (keq klt : K -> K -> bool) (heq : H -> H -> bool) (hash : S -> K -> H),
  (forall a b, keq a b = true <-> a = b) -> (forall a b, heq a b = true <-> a = b) ->
  forall (seed1 seed2 : S) (thr1 thr2 mi1 mi2 : nat) (scopes : list (list (op K V))) (modb : list (op K V)) (globals : list K),
    scope_candidates (map (container_keys keq heq klt hash seed1 thr1 mi1) scopes)
                     (container_keys keq heq klt hash seed1 thr1 mi1 modb) globals =
    scope_candidates (map (container_keys keq heq klt hash seed2 thr2 mi2) scopes)
                     (container_keys keq heq klt hash seed2 thr2 mi2 modb) globals.
Proof.
  intros K V S H keq klt heq hash Hk Hh seed1 seed2 thr1 thr2 mi1 mi2 scopes modb globals.
  unfold scope_candidates, container_keys.
  rewrite (order_seed_independent keq heq klt hash Hk Hh seed1 seed2 thr1 thr2 mi1 mi2 modb).
  f_equal. f_equal. f_equal. apply map_ext. intros ops.
  rewrite (order_seed_independent keq heq klt hash Hk Hh seed1 seed2 thr1 thr2 mi1 mi2 ops). reflexivity.
Qed.

(* ------------------------------------------------------------------------------------------------------------- *)
(* D. observations contain no store address                                                                        *)
Section RenProofs.
  Variable fl fd fc : nat -> nat.
  Notation ren := (ren_val fl fd fc).

  Lemma nth_error_Some_lt {A} (l : list A) a : a < List.length l -> exists x, nth_error l a = Some x.
  Proof.
    intros L. destruct (nth_error l a) eqn:E; [eauto|]. apply nth_error_None in E. lia.
  Qed.

  Theorem obs_of_renaming : forall s s', state_iso fl fd fc s s' ->
    forall n v, obs_of n s' (ren v) = obs_of n s v.
  Proof.
    intros s s' [Hl Hd]. induction n as [|n IH]; intros v; [reflexivity|].
    destruct v; cbn [ren_val obs_of]; try reflexivity.
    - f_equal. rewrite map_map. apply map_ext. exact IH.
    - specialize (Hl a). destruct (nth_error (lists s) a) as [[l c]|]; rewrite Hl; [|reflexivity].
      f_equal. rewrite map_map. apply map_ext. exact IH.
    - specialize (Hd a). destruct (nth_error (dicts s) a) as [[d c]|]; rewrite Hd; [|reflexivity].
      f_equal. rewrite map_map. apply map_ext. intros [k v]. cbn [fst snd]. rewrite !IH. reflexivity.
  Qed.

  Theorem truth_renaming : forall s s', state_iso fl fd fc s s' -> forall v, truth s' (ren v) = truth s v.
  Proof.
    intros s s' [Hl Hd] v. destruct v; cbn [ren_val truth]; try reflexivity.
    - destruct vs; reflexivity.
    - specialize (Hl a). destruct (nth_error (lists s) a) as [[l c]|]; rewrite Hl; [|reflexivity]. destruct l; reflexivity.
    - specialize (Hd a). destruct (nth_error (dicts s) a) as [[d c]|]; rewrite Hd; [|reflexivity]. destruct d; reflexivity.
  Qed.

  Theorem type_name_renaming : forall v, type_name (ren v) = type_name v.
  Proof. destruct v; reflexivity. Qed.
End RenProofs.

(* ------------------------------------------------------------------------------------------------------------- *)
(* E. the reference semantics is a function of the program                                                         *)
Theorem run_program_deterministic : forall n m prog tr1 o1 tr2 o2,
  run_program n prog = (tr1, o1) -> run_program m prog = (tr2, o2) -> o1 <> NoFuel -> o2 <> NoFuel ->
  tr1 = tr2 /\ o1 = o2.
Proof.
  intros n m prog tr1 o1 tr2 o2 E1 E2 N1 N2.
  destruct (Nat.le_ge_cases n m) as [L|L].
  - rewrite (run_program_fuel_mono n m prog tr1 o1 L E1 N1) in E2. injection E2 as <- <-. split; reflexivity.
  - rewrite (run_program_fuel_mono m n prog tr2 o2 L E2 N2) in E1. injection E1 as <- <-. split; reflexivity.
Qed.

Theorem exec_deterministic : forall n en st s r1 r2, exec n en st s = r1 -> exec n en st s = r2 -> r1 = r2.
Proof. intros; subst; reflexivity. Qed.

(* ------------------------------------------------------------------------------------------------------------- *)
(* F. allocation-history independence of the store primitives with FUNCTIONAL renamings (alloc_list, emit).
   The full result for the interpreter (eval / call / exec / whole programs, relational renamings that are extended at
   each allocation) is in Determ/Renaming.v, RenamingOps.v, RenamingPrims.v and RenamingSem.v (rel_all, run_from_rel). *)
Lemma nth_error_lt_Some {A} (l : list A) a : a < List.length l -> exists x, nth_error l a = Some x.
Proof.
  intros L. destruct (nth_error l a) eqn:E; [eauto|]. apply nth_error_None in E. lia.
Qed.

Section AllocProofs.
  Variable fl fd fc : nat -> nat.

  Fixpoint ren_val_upd_below (nl nd a b : nat) (v : value) {struct v} :
    val_below nl nd v = true -> nl <= a -> ren_val (upd_fun fl a b) fd fc v = ren_val fl fd fc v.
  Proof.
    destruct v; intros Hb Ha; cbn [ren_val val_below] in *; try reflexivity.
    - f_equal. induction vs as [|x vs IHvs]; [reflexivity|]. cbn [map forallb] in *.
      apply andb_true_iff in Hb. destruct Hb as [Hx Hvs].
      f_equal; [apply (ren_val_upd_below nl nd a b x); assumption|apply IHvs; assumption].
    - unfold upd_fun. apply Nat.ltb_lt in Hb. destruct (Nat.eqb_spec a0 a); [lia|reflexivity].
  Qed.

  Fixpoint val_below_mono (nl nd nl' nd' : nat) (v : value) {struct v} :
    nl <= nl' -> nd <= nd' -> val_below nl nd v = true -> val_below nl' nd' v = true.
  Proof.
    destruct v; intros Hl Hd Hb; cbn [val_below] in *; try reflexivity.
    - induction vs as [|x vs IHvs]; [reflexivity|]. cbn [forallb] in *.
      apply andb_true_iff in Hb. destruct Hb as [Hx Hvs]. apply andb_true_iff. split;
      [apply (val_below_mono nl nd nl' nd' x); assumption|apply IHvs; assumption].
    - apply Nat.ltb_lt in Hb. apply Nat.ltb_lt. lia.
    - apply Nat.ltb_lt in Hb. apply Nat.ltb_lt. lia.
  Qed.

  Lemma map_ren_upd nl nd a b (l : list value) : forallb (val_below nl nd) l = true -> nl <= a ->
    map (ren_val (upd_fun fl a b) fd fc) l = map (ren_val fl fd fc) l.
  Proof.
    intros H L. apply map_ext_in. intros v Iv. rewrite forallb_forall in H. apply (ren_val_upd_below nl nd); [apply H; exact Iv|exact L].
  Qed.

  (* observations of closed values in closed, weakly isomorphic states are equal *)
  Theorem obs_of_renaming_closed : forall s s', state_iso_w fl fd fc s s' -> state_closed s ->
    forall n v, val_closed s v = true -> obs_of n s' (ren_val fl fd fc v) = obs_of n s v.
  Proof.
    intros s s' (Hl & Hd & _) [Cl Cd]. unfold val_closed.
    induction n as [|n IH]; intros v Hv; [reflexivity|].
    destruct v; cbn [ren_val obs_of val_below] in *; try reflexivity.
    - f_equal. rewrite map_map. apply map_ext_in. intros x Ix. apply IH. rewrite forallb_forall in Hv. apply Hv. exact Ix.
    - apply Nat.ltb_lt in Hv. destruct (nth_error_lt_Some (lists s) a Hv) as [[l c] E].
      rewrite E, (Hl a l c E). f_equal. rewrite map_map. apply map_ext_in. intros x Ix. apply IH.
      specialize (Cl a l c E). rewrite forallb_forall in Cl. apply Cl. exact Ix.
    - apply Nat.ltb_lt in Hv. destruct (nth_error_lt_Some (dicts s) a Hv) as [[d c] E].
      rewrite E, (Hd a d c E). f_equal. rewrite map_map. apply map_ext_in. intros [k x] Ix. cbn [fst snd].
      specialize (Cd a d c E). rewrite forallb_forall in Cd. specialize (Cd _ Ix). cbn [fst snd] in Cd.
      apply andb_true_iff in Cd. destruct Cd as [Ck Cx]. rewrite !IH by assumption. reflexivity.
  Qed.

  (* emit(v) appends the same observation to both transcripts *)
  Theorem emit_iso : forall s s' v, state_iso_w fl fd fc s s' -> state_closed s -> val_closed s v = true ->
    match emit_obs (obs_of depth s v) s, emit_obs (obs_of depth s' (ren_val fl fd fc v)) s' with
    | Ok _ s1, Ok _ s1' => state_iso_w fl fd fc s1 s1' /\ state_closed s1
    | _, _ => False
    end.
  Proof.
    intros s s' v I C Hv. unfold emit_obs. rewrite (obs_of_renaming_closed s s' I C depth v Hv).
    destruct I as (Hl & Hd & Ho). split; [|exact C]. split; [exact Hl|split; [exact Hd|]]. cbn [out]. rewrite Ho. reflexivity.
  Qed.

  (* allocating a list in both states - at DIFFERENT fresh addresses - keeps them isomorphic for the extended
     renaming, returns related values, keeps the transcripts equal and the state closed *)
  Theorem alloc_list_iso : forall s s' vs, state_iso_w fl fd fc s s' -> state_closed s ->
    forallb (val_closed s) vs = true ->
    let fl' := upd_fun fl (List.length (lists s)) (List.length (lists s')) in
    match alloc_list vs s, alloc_list (map (ren_val fl fd fc) vs) s' with
    | Ok v s1, Ok v' s1' =>
        v' = ren_val fl' fd fc v /\ state_iso_w fl' fd fc s1 s1' /\ state_closed s1 /\ val_closed s1 v = true
    | _, _ => False
    end.
  Proof.
    intros s s' vs (Hl & Hd & Ho) [Cl Cd] Hvs fl'. unfold alloc_list.
    set (nl := List.length (lists s)) in *. set (nd := List.length (dicts s)) in *.
    assert (Hvs' : forallb (val_below nl nd) vs = true) by exact Hvs.
    split; [|split; [|split]].
    - cbn [ren_val]. unfold fl', upd_fun. rewrite Nat.eqb_refl. reflexivity.
    - unfold state_iso_w, lists_iso_w, dicts_iso_w. cbn [lists dicts out]. split; [|split].
      + intros a l c E. destruct (Nat.lt_trichotomy a nl) as [L|[->|L]].
        * rewrite nth_error_app1 in E by exact L.
          pose proof (Hl a l c E) as E'. unfold fl' at 1, upd_fun at 1. destruct (Nat.eqb_spec a nl); [lia|].
          rewrite nth_error_app1 by (apply nth_error_Some; rewrite E'; discriminate).
          rewrite E'. f_equal. f_equal. symmetry. apply (map_ren_upd nl nd); [exact (Cl a l c E)|lia].
        * rewrite nth_error_app2 in E by lia. rewrite Nat.sub_diag in E. cbn in E. injection E as <- <-.
          unfold fl' at 1, upd_fun at 1. rewrite Nat.eqb_refl. rewrite nth_error_app2 by lia. rewrite Nat.sub_diag. cbn.
          f_equal. f_equal. symmetry. apply (map_ren_upd nl nd); [exact Hvs'|lia].
        * exfalso. assert (nth_error (lists s ++ [(vs, 0)]) a = None) as N.
          { apply nth_error_None. rewrite app_length. cbn. fold nl. lia. }
          rewrite N in E. discriminate.
      + intros a d c E. rewrite (Hd a d c E). f_equal. f_equal. apply map_ext_in. intros [k x] Ix. cbn [fst snd].
        specialize (Cd a d c E). rewrite forallb_forall in Cd. specialize (Cd _ Ix). cbn [fst snd] in Cd.
        apply andb_true_iff in Cd. destruct Cd as [Ck Cx].
        unfold fl'. rewrite (ren_val_upd_below nl nd _ _ k Ck) by lia. rewrite (ren_val_upd_below nl nd _ _ x Cx) by lia.
        reflexivity.
      + exact Ho.
    - split; cbn [lists dicts]; rewrite app_length; cbn [List.length]; fold nl; fold nd.
      + intros a l c E. destruct (Nat.lt_ge_cases a nl) as [L|L].
        * rewrite nth_error_app1 in E by exact L. specialize (Cl a l c E).
          rewrite forallb_forall in *. intros x Ix. apply (val_below_mono nl nd); [lia|lia|apply Cl; exact Ix].
        * rewrite nth_error_app2 in E by exact L. fold nl in E. destruct (a - nl) as [|k] eqn:Ek; cbn in E; [|destruct k; cbn in E; discriminate].
          injection E as <- <-. rewrite forallb_forall in *. intros x Ix. apply (val_below_mono nl nd); [lia|lia|apply Hvs'; exact Ix].
      + intros a d c E. specialize (Cd a d c E). rewrite forallb_forall in *. intros kv Ikv. specialize (Cd kv Ikv).
        apply andb_true_iff in Cd. destruct Cd as [Ck Cx]. apply andb_true_iff.
        split; apply (val_below_mono nl nd); (lia || assumption).
    - unfold val_closed. cbn [lists dicts val_below]. rewrite app_length. cbn [List.length]. apply Nat.ltb_lt. fold nl. lia.
  Qed.
End AllocProofs.
