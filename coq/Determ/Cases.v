(* C14 executable comparison drivers used by the tie (tools/props/C14.py, cases.v route). *)
From Coq Require Import ZArith NArith List String Ascii Bool Arith.
From SV Require Import Eq.Model Determ.Model.
Import ListNotations.

(* hash(): (code points, value printed by the implementation) *)
Definition hash_ok (c : list Z * Z) : bool := Z.eqb (hash_builtin (fst c)) (snd c).

(* did-you-mean over attribute names: (misspelt name, candidates in the order the code builds them, suggestion reported) *)
Definition opt_str_eqb (a b : option string) : bool :=
  match a, b with
  | None, None => true
  | Some x, Some y => String.eqb x y
  | _, _ => false
  end.
Definition dym_ok (c : string * list string * option string) : bool :=
  let '(value, cands, expect) := c in opt_str_eqb (dym value cands) expect.

Fixpoint bad_idx {A} (ok : A -> bool) (i : N) (l : list A) : list N :=
  match l with
  | [] => []
  | x :: t => if ok x then bad_idx ok (N.succ i) t else i :: bad_idx ok (N.succ i) t
  end.
Definition bad_hash (l : list (list Z * Z)) : list N := bad_idx hash_ok 0%N l.
Definition bad_dym (l : list (string * list string * option string)) : list N := bad_idx dym_ok 0%N l.

(* Vec<String>::sort order on ASCII names (bytewise) *)
Definition str_leb (a b : string) : bool :=
  match Core.Values.string_cmp a b with Gt => false | _ => true end.
Definition dir_sorted (methods attrs : list string) : list string := dir_model str_leb methods attrs.
