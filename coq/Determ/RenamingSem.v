(* C14: the MiniStar interpreter (Core/Sem.v) respects renamings of store addresses: running eval / call / exec /
   a whole program from two states related by a partial bijection of list / dict / cell / closure addresses gives
   the same outcome and transcript, related values and related final states. By induction on the fuel. *)
From Coq Require Import ZArith String List Bool Arith Lia.
From SV Require Import Core.Syntax Core.Values Core.Slice Core.Sem Core.SemProofs
  Determ.Renaming Determ.RenamingOps Determ.RenamingPrims.
Import ListNotations.
Local Open Scope nat_scope.

(* program text is related to itself only *)
#[export] Instance Rel_expr : Rel expr := fun _ a b => a = b.
#[export] Instance Mono_expr : RelMono expr. Proof. intros r r' a b _ H. exact H. Qed.
#[export] Instance Rel_param : Rel param := fun _ a b => a = b.
#[export] Instance Mono_param : RelMono param. Proof. intros r r' a b _ H. exact H. Qed.
#[export] Instance Rel_stmt : Rel stmt := fun _ a b => a = b.
#[export] Instance Mono_stmt : RelMono stmt. Proof. intros r r' a b _ H. exact H. Qed.

Lemma rel_list_refl {A} {RA : Rel A} r (l : list A) : (forall x, rel r x x) -> rel r l l.
Proof. intros H. induction l; constructor; auto. Qed.
Lemma rel_exprs_refl r (l : list expr) : rel r l l.
Proof. apply rel_list_refl. reflexivity. Qed.
Lemma rel_params_refl r (l : list param) : rel r l l.
Proof. apply rel_list_refl. reflexivity. Qed.
Lemma rel_kvs_refl r (l : list (expr * expr)) : rel r l l.
Proof. apply rel_list_refl. intros [a b]. split; reflexivity. Qed.
Lemma rel_kwargs_refl r (l : list (string * expr)) : rel r l l.
Proof. apply rel_list_refl. intros [a b]. split; reflexivity. Qed.
#[export] Hint Resolve rel_exprs_refl rel_params_refl rel_kvs_refl rel_kwargs_refl : rdb.

(* upgrade every relation hypothesis along an extension of the renaming *)
Ltac up S :=
  lazymatch type of S with
  | sub ?r ?r' =>
      repeat match goal with
        | H : @rel state _ r _ _ |- _ => clear H
        | H : @rel ?A ?I r ?a ?b |- _ => apply (@rel_mono A I _ r r' a b S) in H
        | H : rl r _ _ |- _ => apply (proj1 S) in H
        | H : rd r _ _ |- _ => apply (proj1 (proj2 S)) in H
        | H : rcl r _ _ |- _ => apply (proj1 (proj2 (proj2 S))) in H
        | H : rc r _ _ |- _ => apply (proj2 (proj2 (proj2 S))) in H
        end
  end.

(* ---- combinators ------------------------------------------------------------------------------------------------ *)
Lemma mapM_rel {A B} {RA : Rel A} {RB : Rel B} {MA : RelMono A} {MB : RelMono B} (f1 f2 : A -> M B) l1 l2 :
  forall r, rel r l1 l2 -> (forall r' x1 x2, sub r r' -> rel r' x1 x2 -> mrel r' (f1 x1) (f2 x2)) ->
  mrel r (mapM f1 l1) (mapM f2 l2).
Proof.
  intros r Hl. revert r Hl. revert l2. induction l1 as [|x l1 IH]; intros l2 r Hl Hf; inversion Hl; subst; cbn [mapM].
  - apply mrel_ret. constructor.
  - eapply mrel_bind; [apply Hf; [apply sub_refl|assumption]|]. intros r' b1 b2 S Hb.
    eapply mrel_bind.
    + apply IH; [eapply rel_mono; eassumption|]. intros r'' x1 x2 S' Hx. apply Hf; [eapply sub_trans; eassumption|exact Hx].
    + intros r'' c1 c2 S' Hc. apply mrel_ret. constructor; [eapply rel_mono; eassumption|exact Hc].
Qed.

Lemma at_line_rel {A} {RA : Rel A} r ln (m1 m2 : M A) : mrel r m1 m2 -> mrel r (at_line ln m1) (at_line ln m2).
Proof.
  intros H s1 s2 Hs. specialize (H s1 s2 Hs). unfold at_line, rrel in *.
  destruct (m1 s1) as [a1 t1|e1 l1 t1|], (m2 s2) as [a2 t2|e2 l2 t2|]; try contradiction; auto.
  destruct H as (-> & -> & H). destruct l2; auto.
Qed.

Lemma with_lock_rel {A} {RA : Rel A} r v1 v2 (m1 m2 : M A) : rel r v1 v2 -> mrel r m1 m2 -> mrel r (with_lock v1 m1) (with_lock v2 m2).
Proof.
  intros Hv Hm s1 s2 Hs. unfold with_lock.
  pose proof (iter_lock_rel r v1 v2 true Hv s1 s2 Hs) as L. unfold rrel0 in L.
  destruct (iter_lock v1 true s1) as [u1 t1|e1 l1 t1|], (iter_lock v2 true s2) as [u2 t2|e2 l2 t2|]; try contradiction; cbn; auto.
  - destruct L as [Ht _]. specialize (Hm t1 t2 Ht). unfold rrel in Hm.
    destruct (m1 t1) as [a1 w1|e1 l1 w1|], (m2 t2) as [a2 w2|e2 l2 w2|]; try contradiction; auto.
    + destruct Hm as (r' & S & Hw & Ha).
      pose proof (iter_lock_rel r' v1 v2 false (rel_mono _ _ _ _ S Hv) w1 w2 Hw) as L2. unfold rrel0 in L2.
      destruct (iter_lock v1 false w1) as [? x1|? ? x1|], (iter_lock v2 false w2) as [? x2|? ? x2|]; try contradiction; cbn.
      * destruct L2 as [Hx _]. exists r'. auto.
      * fail_ok. exists r'. auto.
      * fail_ok. exists r'. auto.
    + destruct Hm as (-> & -> & r' & S & Hw).
      pose proof (iter_lock_rel r' v1 v2 false (rel_mono _ _ _ _ S Hv) w1 w2 Hw) as L2. unfold rrel0 in L2.
      destruct (iter_lock v1 false w1) as [? x1|? ? x1|], (iter_lock v2 false w2) as [? x2|? ? x2|]; try contradiction; cbn.
      * destruct L2 as [Hx _]. fail_ok. exists r'. auto.
      * fail_ok. exists r'. auto.
      * fail_ok. exists r'. auto.
  - destruct L as (-> & -> & Ht). fail_ok. exists r. auto using sub_refl.
Qed.

Lemma run_block_rel (ex1 ex2 : stmt -> M ctrl) ss : forall r,
  (forall r' st, sub r r' -> mrel r' (ex1 st) (ex2 st)) -> mrel r (run_block ex1 ss) (run_block ex2 ss).
Proof.
  induction ss as [|st ss IH]; intros r Hex; cbn [run_block]; [apply mrel_ret; exact I|].
  eapply mrel_bind; [apply Hex, sub_refl|]. intros r' c1 c2 S Hc.
  destruct c1, c2; cbn in Hc; try contradiction; try (apply mrel_ret; exact Hc).
  apply IH. intros r'' st' S'. apply Hex. eapply sub_trans; eassumption.
Qed.

Lemma for_loop_rel (b1 b2 : value -> M ctrl) vs1 vs2 : forall r, rel r vs1 vs2 ->
  (forall r' v1 v2, sub r r' -> rel r' v1 v2 -> mrel r' (b1 v1) (b2 v2)) -> mrel r (for_loop b1 vs1) (for_loop b2 vs2).
Proof.
  revert vs2. induction vs1 as [|v1 vs1 IH]; intros vs2 r Hvs Hb; inversion Hvs; subst; cbn [for_loop]; [apply mrel_ret; exact I|].
  eapply mrel_bind; [apply Hb; [apply sub_refl|assumption]|]. intros r' c1 c2 S Hc.
  assert (K : mrel r' (for_loop b1 vs1) (for_loop b2 l')).
  { apply IH; [eapply rel_mono; eassumption|]. intros r'' x1 x2 S' Hx. apply Hb; [eapply sub_trans; eassumption|exact Hx]. }
  destruct c1, c2; cbn in Hc; try contradiction; try exact K; apply mrel_ret; [exact I|exact Hc].
Qed.

Section Ev.
  Variables ev1 ev2 : env -> expr -> M value.
  Hypothesis Hev : forall r en1 en2 e, rel r en1 en2 -> mrel r (ev1 en1 e) (ev2 en2 e).

  Lemma assign_rel t : forall r en1 en2 v1 v2, rel r en1 en2 -> rel r v1 v2 ->
    mrel r (assign ev1 en1 t v1) (assign ev2 en2 t v2).
  Proof.
    induction t as [x|ts IH|a i] using target_ind'; intros r en1 en2 v1 v2 Hen Hv; cbn [assign].
    - pose proof (lookup_rel r x en1 en2 Hen) as L.
      destruct (lookup x en1), (lookup x en2); cbn in L; try contradiction; [|apply mrel_fail].
      apply mrel0_mrel, set_cell_rel; assumption.
    - eapply (mrel_bind0 (RA := Rel_list value)).
      { inversion Hv; subst; try apply mrel0_fail; [apply mrel0_ret; assumption|apply get_list_rel; assumption]. }
      intros vs1 vs2 Hvs. rewrite (rel_length r _ _ Hvs). destruct (Nat.eqb (length ts) (length vs2)); [|apply mrel_fail].
      clear Hv. revert r en1 en2 vs1 vs2 Hen Hvs. induction IH as [|t ts' Ht Hts IHts]; intros r en1 en2 vs1 vs2 Hen Hvs.
      + apply mrel_ret. exact I.
      + inversion Hvs; subst; [apply mrel_ret; exact I|].
        eapply mrel_bind; [apply Ht; assumption|]. intros r' u1 u2 S _.
        apply IHts; eapply rel_mono; eassumption.
    - eapply mrel_bind; [apply Hev; exact Hen|]. intros r' av1 av2 S Hav.
      eapply mrel_bind; [apply Hev; eapply rel_mono; eassumption|]. intros r'' iv1 iv2 S' Hiv.
      apply mrel0_mrel, set_index_rel; [eapply rel_mono; eassumption|exact Hiv|].
      eapply rel_mono; [|eassumption]. eapply sub_trans; eassumption.
  Qed.

  Lemma comp_clauses_rel cls : forall r en1 en2 (first1 first2 : option (list value)) (k1 k2 : M unit),
    rel r en1 en2 -> rel r first1 first2 -> (forall r', sub r r' -> mrel r' k1 k2) ->
    mrel r (comp_clauses ev1 en1 cls first1 k1) (comp_clauses ev2 en2 cls first2 k2).
  Proof.
    induction cls as [|c cls IH]; intros r en1 en2 first1 first2 k1 k2 Hen Hf Hk; cbn [comp_clauses].
    - apply Hk, sub_refl.
    - destruct c as [t e|c].
      + eapply (mrel_bind (RA := Rel_prod value (list value))).
        { destruct first1 as [vs1|], first2 as [vs2|]; cbn in Hf; try contradiction.
          - apply mrel_ret. split; [constructor|exact Hf].
          - eapply mrel_bind; [apply Hev; exact Hen|]. intros r' it1 it2 S Hit.
            eapply mrel_bind0; [apply iter_elems_rel; exact Hit|]. intros vs1 vs2 Hvs. apply mrel_ret. split; assumption. }
        intros r' [it1 vs1] [it2 vs2] S [Hit Hvs]. cbn [fst snd] in *.
        apply with_lock_rel; [exact Hit|].
        assert (Hen' : rel r' en1 en2) by (eapply rel_mono; eassumption).
        assert (Hk' : forall r'', sub r' r'' -> mrel r'' k1 k2) by (intros r'' S'; apply Hk; eapply sub_trans; eassumption).
        clear Hit Hen Hk Hf S. revert r' Hvs Hen' Hk'. revert vs2.
        induction vs1 as [|v1 vs1 IHv]; intros vs2 r' Hvs Hen' Hk'; inversion Hvs; subst; [apply mrel_ret; exact I|].
        eapply mrel_bind; [apply assign_rel; assumption|]. intros r2 u1 u2 S2 _.
        eapply mrel_bind.
        { apply IH; [eapply rel_mono; eassumption|exact I|]. intros r3 S3. apply Hk'. eapply sub_trans; eassumption. }
        intros r3 w1 w2 S3 _. assert (S23 : sub r' r3) by (eapply sub_trans; eassumption).
        apply IHv; [eapply rel_mono; eassumption|eapply rel_mono; eassumption|].
        intros r4 S4. apply Hk'. eapply sub_trans; eassumption.
      + eapply mrel_bind; [apply Hev; exact Hen|]. intros r' cv1 cv2 S Hcv.
        eapply mrel_bind0; [apply mrel0_get_state|]. intros s1 s2 Hs.
        rewrite (truth_eq r' s1 s2 cv1 cv2 Hs Hcv). destruct (truth s2 cv2); [|apply mrel_ret; exact I].
        apply IH; [eapply rel_mono; eassumption|exact I|]. intros r'' S'. apply Hk. eapply sub_trans; eassumption.
  Qed.
End Ev.

(* ---- the proof step for the interpreter -------------------------------------------------------------------------- *)
(* primitives without allocation, in any position *)
Ltac prim0 :=
  repeat lazymatch goal with
    | |- mrel0 _ (get_cell _) (get_cell _) => apply get_cell_rel; assumption
    | |- mrel0 _ (set_cell _ _) (set_cell _ _) => apply set_cell_rel; [assumption|solve_rel]
    | |- mrel0 _ (index_eval _ _) (index_eval _ _) => apply index_eval_rel; solve_rel
    | |- mrel0 _ (set_index _ _ _) (set_index _ _ _) => apply set_index_rel; solve_rel
    | |- mrel0 _ (get_clo _) (get_clo _) => apply get_clo_rel; assumption
    | _ => pstep2
    end.

Lemma reverse_flag_rel r st1 st2 (n1 n2 : list (string * value)) : rel r st1 st2 -> rel r n1 n2 ->
  rel r (match assoc_str "reverse" n1 with Some r0 => truth st1 r0 | None => false end)
        (match assoc_str "reverse" n2 with Some r0 => truth st2 r0 | None => false end).
Proof.
  intros Hs Hn. pose proof (assoc_str_rel r "reverse" n1 n2 Hn) as H.
  destruct (assoc_str "reverse" n1), (assoc_str "reverse" n2); cbn in H; try contradiction; [|reflexivity].
  apply truth_rel; assumption.
Qed.
#[export] Hint Resolve reverse_flag_rel : rdb.

Ltac cinv :=
  repeat match goal with
    | H : @rel ctrl _ _ ?x ?y |- _ => is_var x; is_var y; destruct x, y; cbn in H; try contradiction
    end; fold_rel.

Ltac norm2 :=
  repeat match goal with
    | H : @rel expr _ _ _ _ |- _ => hnf in H; subst
    | H : @rel param _ _ _ _ |- _ => hnf in H; subst
    | H : @rel stmt _ _ _ _ |- _ => hnf in H; subst
    | H : @rel (_ * _) _ _ ?x ?y |- _ => is_var x; is_var y; destruct x, y, H; cbn [fst snd] in *
    end.

Lemma rel_closure_intro r nm ps (d1 d2 : list (string * value)) b (e1 e2 : env) :
  rel r d1 d2 -> rel r e1 e2 ->
  rel r {| c_name := nm; c_params := ps; c_defaults := d1; c_body := b; c_env := e1 |}
        {| c_name := nm; c_params := ps; c_defaults := d2; c_body := b; c_env := e2 |}.
Proof. intros H1 H2. repeat split; assumption. Qed.

Lemma aug_rel r o a1 a2 b1 b2 : rel r a1 a2 -> rel r b1 b2 ->
  mrel r (match aug_list_inplace o a1 b1 with Some m => m | None => binop_eval o a1 b1 end)
         (match aug_list_inplace o a2 b2 with Some m => m | None => binop_eval o a2 b2 end).
Proof.
  intros Ha Hb. destruct o; try (cbn [aug_list_inplace]; apply binop_eval_rel; assumption).
  inversion Ha; subst; cbn [aug_list_inplace]; try (apply binop_eval_rel; assumption).
  apply mrel0_mrel. repeat pstep2.
Qed.

Ltac istep IHe IHc IHx :=
  fold_rel; norm_eq; norm2; norm_eq; rw_len;
  lazymatch goal with
  | |- mrel _ (eval _ _ _) (eval _ _ _) => apply IHe; solve_rel
  | |- mrel _ (call _ _ _ _) (call _ _ _ _) => apply IHc; solve_rel
  | |- mrel _ (exec _ _ _) (exec _ _ _) => apply IHx; solve_rel
  | |- mrel _ (ret _) (ret _) => apply mrel_ret; solve_rel
  | |- mrel _ (fail _) (fail _) => apply mrel_fail
  | |- mrel _ (bind _ _) (bind _ _) =>
      first [ eapply mrel_bind0; [solve [prim0]|intros ? ? ?]
            | eapply mrel_bind; [|let S := fresh "S" in intros ? ? ? S ?; up S] ]
  | |- mrel _ (mapM _ _) (mapM _ _) => apply mapM_rel; [solve_rel|let S := fresh "S" in intros ? ? ? S ?; up S]
  | |- mrel _ (at_line _ _) (at_line _ _) => apply at_line_rel
  | |- mrel _ (with_lock _ _) (with_lock _ _) => apply with_lock_rel; [solve_rel|]
  | |- mrel _ (assign _ _ _ _) (assign _ _ _ _) => apply assign_rel; [exact IHe|solve_rel|solve_rel]
  | |- mrel _ (comp_clauses _ _ _ _ _) (comp_clauses _ _ _ _ _) =>
      apply comp_clauses_rel; [exact IHe|solve_rel|solve_rel|let S := fresh "S" in intros ? S; up S]
  | |- mrel _ (run_block _ _) (run_block _ _) => apply run_block_rel; let S := fresh "S" in intros ? ? S; up S
  | |- mrel _ (for_loop _ _) (for_loop _ _) => apply for_loop_rel; [solve_rel|let S := fresh "S" in intros ? ? ? S ?; up S]
  | |- mrel _ (binop_eval _ _ _) (binop_eval _ _ _) => apply binop_eval_rel; solve_rel
  | |- mrel _ (slice_eval _ _ _ _) (slice_eval _ _ _ _) => apply slice_eval_rel; solve_rel
  | |- mrel _ (call_builtin _ _ _) (call_builtin _ _ _) => apply call_builtin_rel; solve_rel
  | |- mrel _ (call_method _ _ _) (call_method _ _ _) => apply call_method_rel; solve_rel
  | |- mrel _ (call_method_kw _ _ _ _) (call_method_kw _ _ _ _) => apply call_method_kw_rel; solve_rel
  | |- mrel _ (alloc_list _) (alloc_list _) => apply alloc_list_rel; solve_rel
  | |- mrel _ (alloc_dict _) (alloc_dict _) => apply alloc_dict_rel; solve_rel
  | |- mrel _ (alloc_cells _) (alloc_cells _) => apply alloc_cells_rel
  | |- mrel _ (alloc_clo _) (alloc_clo _) => apply alloc_clo_rel, rel_closure_intro; solve_rel
  | |- mrel _ (match aug_list_inplace _ _ _ with _ => _ end) (match aug_list_inplace _ _ _ with _ => _ end) =>
      apply aug_rel; solve_rel
  | |- mrel ?r (match lookup ?x ?e1 with _ => _ end) (match lookup ?x ?e2 with _ => _ end) =>
      let H := fresh "L" in
      assert (H : orcl r (lookup x e1) (lookup x e2)) by (apply lookup_rel; solve_rel);
      destruct (lookup x e1), (lookup x e2); cbn in H; try contradiction
  | |- mrel ?r (match ?x with _ => _ end) (match ?y with _ => _ end) =>
      lazymatch type of x with
      | ctrl => match goal with H : @rel ctrl _ _ x y |- _ => destruct x, y; cbn in H; try contradiction end
      | _ => case_rel r x y
      end
  | |- mrel ?r (if ?x then _ else _) (if ?y then _ else _) => case_rel r x y
  | |- mrel _ (let _ := _ in _) _ => cbv zeta
  | |- mrel _ _ _ => apply mrel0_mrel; solve [prim0]
  end.

(* ---- the induction on fuel -------------------------------------------------------------------------------------- *)
Theorem rel_all : forall n,
  (forall r en1 en2 e, rel r en1 en2 -> mrel r (eval n en1 e) (eval n en2 e)) /\
  (forall r f1 f2 (pos1 pos2 : list value) (named1 named2 : list (string * value)),
     rel r f1 f2 -> rel r pos1 pos2 -> rel r named1 named2 -> mrel r (call n f1 pos1 named1) (call n f2 pos2 named2)) /\
  (forall r en1 en2 st, rel r en1 en2 -> mrel r (exec n en1 st) (exec n en2 st)).
Proof.
  induction n as [|n [IHe [IHc IHx]]].
  - repeat split; intros; intros s1 s2 _; exact I.
  - split; [|split].
    + intros r en1 en2 e Hen. destruct e; cbn [eval].
      all: repeat (istep IHe IHc IHx).
    + intros r f1 f2 pos1 pos2 named1 named2 Hf Hp Hn. inversion Hf; subst; cbn [call]; try apply mrel_fail.
      * (* a closure *)
        eapply mrel_bind0; [apply get_clo_rel; assumption|]. intros cl1 cl2 Hcl.
        destruct cl1 as [nm1 ps1 df1 bd1 env1], cl2 as [nm2 ps2 df2 bd2 env2].
        destruct Hcl as (E1 & E2 & Hd & E3 & He). cbn [c_name c_params c_defaults c_body c_env] in *. subst nm2 ps2 bd2.
        pose proof (bind_params_rel r ps1 df1 df2 pos1 pos2 named1 named2 false Hd Hp Hn) as Hb.
        destruct (bind_params ps1 df1 pos1 named1 false) as [[[b1 p1] m1]|], (bind_params ps1 df2 pos2 named2 false) as [[[b2 p2] m2]|];
          cbn in Hb; try contradiction; [|apply mrel_fail].
        destruct Hb as [[Hb Hpp] Hm]. cbn [fst snd] in Hb, Hpp, Hm. fold_rel.
        inversion Hpp; subst; [|apply mrel_fail].
        destruct (has_kwargs ps1) as [kw|]; repeat (istep IHe IHc IHx).
      * (* a builtin; sorted(key=, reverse=) calls back into the interpreter *)
        assert (E1 : (match named1 with [] => false | _ => true end) = (match named2 with [] => false | _ => true end)) by (inversion Hn; reflexivity).
        match goal with |- context [forallb ?F named1] =>
          assert (E2 : forallb F named1 = forallb F named2)
            by exact (named_forallb_rel r (fun s => ((s =? "key") || (s =? "reverse"))%string) _ _ Hn) end.
        rewrite E1, E2.
        repeat (istep IHe IHc IHx).
    + intros r en1 en2 st Hen. destruct st; cbn [exec stmt_line]; apply at_line_rel.
      all: repeat (istep IHe IHc IHx).
Qed.

Theorem eval_rel n r en1 en2 e : rel r en1 en2 -> mrel r (eval n en1 e) (eval n en2 e).
Proof. apply (rel_all n). Qed.
Theorem call_rel n r f1 f2 (pos1 pos2 : list value) (named1 named2 : list (string * value)) :
  rel r f1 f2 -> rel r pos1 pos2 -> rel r named1 named2 -> mrel r (call n f1 pos1 named1) (call n f2 pos2 named2).
Proof. apply (rel_all n). Qed.
Theorem exec_rel n r en1 en2 st : rel r en1 en2 -> mrel r (exec n en1 st) (exec n en2 st).
Proof. apply (rel_all n). Qed.

(* ---- whole programs, started from an arbitrary store --------------------------------------------------------------- *)
Definition prog_m (fuel : nat) (prog : list stmt) : M ctrl :=
  globals <- alloc_cells (dedup (body_names prog)) ;; run_block (exec fuel globals) prog.
Definition run_from (s : state) (fuel : nat) (prog : list stmt) : list obs * outcome :=
  match prog_m fuel prog s with
  | Ok _ s => (rev (out s), Done)
  | Fail e l s => (rev (out s), Failed e l)
  | OutOfFuel => ([], NoFuel)
  end.
Lemma run_program_from_empty fuel prog : run_program fuel prog = run_from empty_state fuel prog.
Proof. reflexivity. Qed.

Theorem prog_rel fuel prog r : mrel r (prog_m fuel prog) (prog_m fuel prog).
Proof.
  unfold prog_m. eapply mrel_bind; [apply alloc_cells_rel|]. intros r' g1 g2 S Hg.
  apply run_block_rel. intros r'' st S'. apply exec_rel. eapply rel_mono; eassumption.
Qed.

Theorem run_from_rel r s1 s2 fuel prog : srel r s1 s2 -> run_from s1 fuel prog = run_from s2 fuel prog.
Proof.
  intros Hs. pose proof (prog_rel fuel prog r s1 s2 Hs) as H. unfold run_from, rrel in *.
  destruct (prog_m fuel prog s1) as [c1 t1|e1 l1 t1|], (prog_m fuel prog s2) as [c2 t2|e2 l2 t2|]; try contradiction; auto.
  - destruct H as (r' & _ & Ht & _). rewrite (sr_out _ _ _ Ht). reflexivity.
  - destruct H as (-> & -> & r' & _ & Ht). rewrite (sr_out _ _ _ Ht). reflexivity.
Qed.
