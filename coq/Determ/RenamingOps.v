(* C14: every pure value-level operation used by the MiniStar interpreter respects renamings of store addresses. *)
From Coq Require Import ZArith String List Bool Arith Lia.
From SV Require Import Core.Syntax Core.Values Core.Slice Core.Sem Determ.Renaming.
Import ListNotations.
Local Open Scope nat_scope.

(* ---- lists ----------------------------------------------------------------------------------------------- *)
Lemma Forall2_length {A B} (R : A -> B -> Prop) l1 l2 : Forall2 R l1 l2 -> length l1 = length l2.
Proof. intros H. induction H; cbn; congruence. Qed.

Section ListRel.
  Context {A : Type} {RA : Rel A}.
  Variable r : ren.
  Implicit Types l k : list A.

  Lemma rel_nil : rel r (@nil A) [].
  Proof. constructor. Qed.
  Lemma rel_cons x y l1 l2 : rel r x y -> rel r l1 l2 -> rel r (x :: l1) (y :: l2).
  Proof. intros. constructor; assumption. Qed.
  Lemma rel_app l1 l2 k1 k2 : rel r l1 l2 -> rel r k1 k2 -> rel r (l1 ++ k1) (l2 ++ k2).
  Proof. intros. apply Forall2_app; assumption. Qed.
  Lemma rel_length l1 l2 : rel r l1 l2 -> length l1 = length l2.
  Proof. apply Forall2_length. Qed.
  Lemma rel_rev l1 l2 : rel r l1 l2 -> rel r (rev l1) (rev l2).
  Proof. intros H. induction H; cbn [rev]; [constructor|]. apply rel_app; [assumption|]. constructor; [assumption|constructor]. Qed.
  Lemma rel_nth_error l1 l2 i : rel r l1 l2 -> rel r (nth_error l1 i) (nth_error l2 i).
  Proof. intros H. revert i. induction H; intros [|i]; cbn; auto. Qed.
  Lemma rel_firstn n l1 l2 : rel r l1 l2 -> rel r (firstn n l1) (firstn n l2).
  Proof. intros H. revert n. induction H; intros [|n]; cbn [firstn]; try constructor; auto; apply IHForall2. Qed.
  Lemma rel_skipn n l1 l2 : rel r l1 l2 -> rel r (skipn n l1) (skipn n l2).
  Proof. intros H. revert n. induction H; intros [|n]; cbn [skipn]; try constructor; auto; apply IHForall2. Qed.
  Lemma rel_upd l1 l2 i x y : rel r l1 l2 -> rel r x y -> rel r (upd l1 i x) (upd l2 i y).
  Proof. intros H Hx. revert i. induction H; intros [|i]; cbn [upd]; try constructor; auto; apply IHForall2. Qed.
  Lemma rel_list_repeat n l1 l2 : rel r l1 l2 -> rel r (list_repeat n l1) (list_repeat n l2).
  Proof. intros H. induction n; cbn [list_repeat]; [constructor|]. apply rel_app; assumption. Qed.
  Lemma rel_insert_at l1 l2 i x y : rel r l1 l2 -> rel r x y -> rel r (insert_at l1 i x) (insert_at l2 i y).
  Proof. intros H Hx. unfold insert_at. apply rel_app; [apply rel_firstn; exact H|]. constructor; [exact Hx|apply rel_skipn; exact H]. Qed.
  Lemma rel_remove_at l1 l2 i : rel r l1 l2 -> rel r (remove_at l1 i) (remove_at l2 i).
  Proof. intros H. unfold remove_at. apply rel_app; [apply rel_firstn|apply rel_skipn]; exact H. Qed.
  Lemma rel_tl l1 l2 : rel r l1 l2 -> rel r (tl l1) (tl l2).
  Proof. intros H. destruct H; cbn; [constructor|assumption]. Qed.
  Lemma rel_hd d1 d2 l1 l2 : rel r d1 d2 -> rel r l1 l2 -> rel r (hd d1 l1) (hd d2 l2).
  Proof. intros Hd H. destruct H; cbn; assumption. Qed.
  Lemma rel_concat (l1 l2 : list (list A)) : rel r l1 l2 -> rel r (concat l1) (concat l2).
  Proof. intros H. induction H; cbn [concat]; [constructor|]. apply rel_app; assumption. Qed.

  Lemma rel_sub_range l1 l2 a b : rel r l1 l2 -> rel r (sub_range l1 a b) (sub_range l2 a b).
  Proof. intros H. unfold sub_range. apply rel_firstn, rel_skipn, H. Qed.
  Lemma rel_every_nth_from (m i : nat) l1 l2 : rel r l1 l2 -> rel r (every_nth_from m i l1) (every_nth_from m i l2).
  Proof.
    intros H. revert i. induction H; intros i; cbn [every_nth_from]; [constructor|].
    apply rel_app; [|apply IHForall2]. destruct (Nat.eqb (Nat.modulo i m) 0); constructor; [assumption|constructor].
  Qed.
  Lemma rel_apply_slice l1 l2 lo hi st : rel r l1 l2 -> rel r (apply_slice l1 lo hi st) (apply_slice l2 lo hi st).
  Proof.
    intros H. unfold apply_slice. rewrite (rel_length _ _ H).
    destruct (convert_slice_indices (Z.of_nat (length l2)) lo hi st) as [[[a b] c]|]; [|exact I].
    destruct (c =? 1)%Z.
    { destruct (b <=? a)%Z; [constructor|apply rel_sub_range; exact H]. }
    destruct (c <? 0)%Z.
    - destruct (a + 1 <=? b + 1)%Z; [constructor|].
      destruct (c =? -1)%Z; [apply rel_rev, rel_sub_range, H|].
      apply rel_every_nth_from, rel_rev, rel_sub_range, H.
    - destruct (b <=? a)%Z; [constructor|].
      destruct (c =? -1)%Z; [apply rel_rev, rel_sub_range, H|].
      apply rel_every_nth_from, rel_sub_range, H.
  Qed.
End ListRel.

Lemma rel_map_fst {A B} {RA : Rel A} {RB : Rel B} r (l1 l2 : list (A * B)) : rel r l1 l2 -> rel r (map fst l1) (map fst l2).
Proof. intros H. induction H as [|x y l1 l2 [H1 H2] _ IH]; cbn [map]; constructor; assumption. Qed.
Lemma rel_map_snd {A B} {RA : Rel A} {RB : Rel B} r (l1 l2 : list (A * B)) : rel r l1 l2 -> rel r (map snd l1) (map snd l2).
Proof. intros H. induction H as [|x y l1 l2 [H1 H2] _ IH]; cbn [map]; constructor; assumption. Qed.
Lemma rel_combine {A B} {RA : Rel A} {RB : Rel B} r (l1 l2 : list A) (k1 k2 : list B) :
  rel r l1 l2 -> rel r k1 k2 -> rel r (combine l1 k1) (combine l2 k2).
Proof.
  intros H. revert k1 k2. induction H; intros k1 k2 K; cbn [combine]; [constructor|].
  destruct K; constructor; [split; assumption|]. apply IHForall2. assumption.
Qed.
Lemma rel_pair {A B} {RA : Rel A} {RB : Rel B} r (a1 a2 : A) (b1 b2 : B) : rel r a1 a2 -> rel r b1 b2 -> rel r (a1, b1) (a2, b2).
Proof. intros; split; assumption. Qed.

Lemma forall2b_rel {A} (f g : A -> A -> bool) (R : A -> A -> Prop) xs xs' ys ys' :
  (forall x x' y y', R x x' -> R y y' -> f x y = g x' y') ->
  Forall2 R xs xs' -> Forall2 R ys ys' -> forall2b f xs ys = forall2b g xs' ys'.
Proof.
  intros H F. revert ys ys'. induction F; intros ys ys' G; destruct G; cbn [forall2b]; auto.
  f_equal; auto.
Qed.
Lemma forallb_rel {A} (f g : A -> bool) (R : A -> A -> Prop) l l' :
  (forall x x', R x x' -> f x = g x') -> Forall2 R l l' -> forallb f l = forallb g l'.
Proof. intros H F. induction F; cbn [forallb]; auto. f_equal; auto. Qed.
Lemma existsb_rel {A} (f g : A -> bool) (R : A -> A -> Prop) l l' :
  (forall x x', R x x' -> f x = g x') -> Forall2 R l l' -> existsb f l = existsb g l'.
Proof. intros H F. induction F; cbn [existsb]; auto. f_equal; auto. Qed.
Lemma lex_cmp_rel {A} (f g : A -> A -> option comparison) (R : A -> A -> Prop) xs xs' ys ys' :
  (forall x x' y y', R x x' -> R y y' -> f x y = g x' y') ->
  Forall2 R xs xs' -> Forall2 R ys ys' -> lex_cmp f xs ys = lex_cmp g xs' ys'.
Proof.
  intros H F. revert ys ys'. induction F; intros ys ys' G; destruct G; cbn [lex_cmp]; auto.
  rewrite (H _ _ _ _ H0 H1). destruct (g y y0) as [[| |]|]; auto.
Qed.

(* ---- truth, hashable, observation, equality, order ---------------------------------------------------------- *)
Lemma truth_rel r s1 s2 v1 v2 : rel r s1 s2 -> rel r v1 v2 -> rel r (truth s1 v1) (truth s2 v2).
Proof.
  intros Hs Hv. hnf. destruct Hv as [ | b | z | x | xs ys F | a b H | a b H | lo hi st | a b H | x]; cbn [truth]; try reflexivity.
  - destruct F; reflexivity.
  - destruct (sr_lists _ _ _ Hs a b H) as ([l1 c1] & [l2 c2] & E1 & E2 & F & _). rewrite E1, E2. cbn [fst] in F. destruct F; reflexivity.
  - destruct (sr_dicts _ _ _ Hs a b H) as ([l1 c1] & [l2 c2] & E1 & E2 & F & _). rewrite E1, E2. cbn [fst] in F. destruct F; reflexivity.
Qed.

Lemma hashable_rel r n v1 v2 : rel r v1 v2 -> rel r (hashable n v1) (hashable n v2).
Proof.
  hnf. revert v1 v2. induction n as [|n IH]; intros v1 v2 Hv; [reflexivity|].
  destruct Hv as [ | b | z | x | xs ys F | a b H | a b H | lo hi st | a b H | x]; cbn [hashable]; try reflexivity.
  eapply forallb_rel; [|exact F]. exact IH.
Qed.

Lemma map_rel_eq {A B} (f g : A -> B) (R : A -> A -> Prop) l l' :
  (forall x y, R x y -> f x = g y) -> Forall2 R l l' -> map f l = map g l'.
Proof. intros H F. induction F; cbn [map]; [reflexivity|]. f_equal; auto. Qed.

Lemma obs_of_rel r s1 s2 n v1 v2 : rel r s1 s2 -> rel r v1 v2 -> obs_of n s1 v1 = obs_of n s2 v2.
Proof.
  intros Hs. revert v1 v2. induction n as [|n IH]; intros v1 v2 Hv; [reflexivity|].
  destruct Hv as [ | b | z | x | xs ys F | a b H | a b H | lo hi st | a b H | x]; cbn [obs_of]; try reflexivity.
  - f_equal. eapply map_rel_eq; [|exact F]. exact IH.
  - destruct (sr_lists _ _ _ Hs a b H) as ([l1 c1] & [l2 c2] & E1 & E2 & F & _). rewrite E1, E2. cbn [fst] in F.
    f_equal. eapply map_rel_eq; [|exact F]. exact IH.
  - destruct (sr_dicts _ _ _ Hs a b H) as ([l1 c1] & [l2 c2] & E1 & E2 & F & _). rewrite E1, E2. cbn [fst] in F.
    f_equal. eapply map_rel_eq; [|exact F]. intros p q [Hk Hv]. f_equal; apply IH; assumption.
Qed.

Lemma eqb_inj R a b a' b' : inj R -> R a b -> R a' b' -> Nat.eqb a a' = Nat.eqb b b'.
Proof.
  intros HI H H'. destruct (HI a b a' b' H H') as [I1 I2].
  destruct (Nat.eqb_spec a a'), (Nat.eqb_spec b b'); auto; exfalso; auto.
Qed.

Lemma veq_rel r s1 s2 n a1 a2 b1 b2 : rel r s1 s2 -> rel r a1 a2 -> rel r b1 b2 -> rel r (veq n s1 a1 b1) (veq n s2 a2 b2).
Proof.
  intros Hs. hnf. revert a1 a2 b1 b2. induction n as [|n IH]; intros a1 a2 b1 b2 Ha Hb; [reflexivity|].
  destruct Ha as [ | b | z | x | xs ys F | a a' H | a a' H | lo hi st | a a' H | x];
  destruct Hb as [ | b0 | z0 | x0 | xs0 ys0 F0 | a0 a0' H0 | a0 a0' H0 | lo0 hi0 st0 | a0 a0' H0 | x0]; cbn [veq]; try reflexivity.
  - eapply forall2b_rel; [|exact F|exact F0]. exact IH.
  - rewrite (eqb_inj _ _ _ _ _ (sr_il _ _ _ Hs) H H0). destruct (Nat.eqb a' a0'); [reflexivity|].
    destruct (sr_lists _ _ _ Hs _ _ H) as ([l1 c1] & [l2 c2] & E1 & E2 & G & _).
    destruct (sr_lists _ _ _ Hs _ _ H0) as ([l1' c1'] & [l2' c2'] & E1' & E2' & G' & _).
    rewrite E1, E2, E1', E2'. eapply forall2b_rel; [|exact G|exact G']. exact IH.
  - rewrite (eqb_inj _ _ _ _ _ (sr_id _ _ _ Hs) H H0). destruct (Nat.eqb a' a0'); [reflexivity|].
    destruct (sr_dicts _ _ _ Hs _ _ H) as ([l1 c1] & [l2 c2] & E1 & E2 & G & _).
    destruct (sr_dicts _ _ _ Hs _ _ H0) as ([l1' c1'] & [l2' c2'] & E1' & E2' & G' & _).
    rewrite E1, E2, E1', E2'. cbn [fst] in G, G'.
    rewrite (rel_length r _ _ G), (rel_length r _ _ G'). apply f_equal.
    eapply forallb_rel; [|exact G]. intros p p' [Hk Hv].
    eapply existsb_rel; [|exact G']. intros q q' [Hk' Hv']. f_equal; apply IH; assumption.
  - apply (eqb_inj _ _ _ _ _ (sr_ic _ _ _ Hs) H H0).
Qed.

Lemma vcmp_rel r s1 s2 n a1 a2 b1 b2 : rel r s1 s2 -> rel r a1 a2 -> rel r b1 b2 -> vcmp n s1 a1 b1 = vcmp n s2 a2 b2.
Proof.
  intros Hs. revert a1 a2 b1 b2. induction n as [|n IH]; intros a1 a2 b1 b2 Ha Hb; [reflexivity|].
  destruct Ha as [ | b | z | x | xs ys F | a a' H | a a' H | lo hi st | a a' H | x];
  destruct Hb as [ | b0 | z0 | x0 | xs0 ys0 F0 | a0 a0' H0 | a0 a0' H0 | lo0 hi0 st0 | a0 a0' H0 | x0]; cbn [vcmp]; try reflexivity.
  - eapply lex_cmp_rel; [|exact F|exact F0]. exact IH.
  - destruct (sr_lists _ _ _ Hs _ _ H) as ([l1 c1] & [l2 c2] & E1 & E2 & G & _).
    destruct (sr_lists _ _ _ Hs _ _ H0) as ([l1' c1'] & [l2' c2'] & E1' & E2' & G' & _).
    rewrite E1, E2, E1', E2'. eapply lex_cmp_rel; [|exact G|exact G']. exact IH.
Qed.

(* ---- association-list dictionaries --------------------------------------------------------------------------- *)
Section Dict.
  Variable r : ren.
  Variables s1 s2 : state.
  Hypothesis Hs : rel r s1 s2.
  Implicit Types d : list (value * value).

  Lemma dict_get_rel d1 d2 k1 k2 : rel r d1 d2 -> rel r k1 k2 -> rel r (dict_get s1 d1 k1) (dict_get s2 d2 k2).
  Proof.
    intros Hd Hk. induction Hd as [|[k v] [k' v'] d1 d2 [Hkk Hvv] Hd IH]; cbn [dict_get]; [exact I|]. cbn [fst snd] in *.
    rewrite (veq_rel r s1 s2 depth k1 k2 k k' Hs Hk Hkk). destruct (veq depth s2 k2 k'); [exact Hvv|exact IH].
  Qed.
  Lemma dict_set_rel d1 d2 k1 k2 v1 v2 : rel r d1 d2 -> rel r k1 k2 -> rel r v1 v2 -> rel r (dict_set s1 d1 k1 v1) (dict_set s2 d2 k2 v2).
  Proof.
    intros Hd Hk Hv. induction Hd as [|[k v] [k' v'] d1 d2 [Hkk Hvv] Hd IH]; cbn [dict_set].
    - constructor; [split; assumption|constructor].
    - cbn [fst snd] in *. rewrite (veq_rel r s1 s2 depth k1 k2 k k' Hs Hk Hkk). destruct (veq depth s2 k2 k').
      + constructor; [split; assumption|exact Hd].
      + constructor; [split; assumption|exact IH].
  Qed.
  Lemma dict_del_rel d1 d2 k1 k2 : rel r d1 d2 -> rel r k1 k2 -> rel r (dict_del s1 d1 k1) (dict_del s2 d2 k2).
  Proof.
    intros Hd Hk. induction Hd as [|[k v] [k' v'] d1 d2 [Hkk Hvv] Hd IH]; cbn [dict_del]; [constructor|]. cbn [fst snd] in *.
    rewrite (veq_rel r s1 s2 depth k1 k2 k k' Hs Hk Hkk). destruct (veq depth s2 k2 k'); [exact Hd|].
    constructor; [split; assumption|exact IH].
  Qed.
  Lemma dict_update_rel d1 d2 kvs1 kvs2 : rel r d1 d2 -> rel r kvs1 kvs2 -> rel r (dict_update s1 d1 kvs1) (dict_update s2 d2 kvs2).
  Proof.
    intros Hd Hk. revert d1 d2 Hd. induction Hk as [|[k v] [k' v'] l1 l2 [Hkk Hvv] Hk IH]; intros d1 d2 Hd; cbn [dict_update]; [exact Hd|].
    apply IH. apply dict_set_rel; assumption.
  Qed.

  Lemma memb_rel x1 x2 (l1 l2 : list value) : rel r x1 x2 -> rel r l1 l2 -> rel r (memb s1 x1 l1) (memb s2 x2 l2).
  Proof.
    intros Hx Hl. hnf. induction Hl as [|y y' l1 l2 Hy Hl IH]; cbn [memb]; [reflexivity|].
    rewrite (veq_rel r s1 s2 depth x1 x2 y y' Hs Hx Hy), IH. reflexivity.
  Qed.
  Lemma remove_first_rel x1 x2 (l1 l2 : list value) : rel r x1 x2 -> rel r l1 l2 -> rel r (remove_first s1 x1 l1) (remove_first s2 x2 l2).
  Proof.
    intros Hx Hl. induction Hl as [|y y' l1 l2 Hy Hl IH]; cbn [remove_first]; [exact I|].
    rewrite (veq_rel r s1 s2 depth x1 x2 y y' Hs Hx Hy). destruct (veq depth s2 x2 y'); [exact Hl|].
    destruct (remove_first s1 x1 l1), (remove_first s2 x2 l2); cbn in IH; try contradiction; [|exact I].
    constructor; assumption.
  Qed.
  Lemma index_of_rel x1 x2 (l1 l2 : list value) i : rel r x1 x2 -> rel r l1 l2 -> rel r (index_of s1 x1 l1 i) (index_of s2 x2 l2 i).
  Proof.
    intros Hx Hl. revert i. induction Hl as [|y y' l1 l2 Hy Hl IH]; intros i; cbn [index_of]; [exact I|].
    rewrite (veq_rel r s1 s2 depth x1 x2 y y' Hs Hx Hy). destruct (veq depth s2 x2 y'); [reflexivity|apply IH].
  Qed.

  (* sorting *)
  Lemma insert_sorted_rel x1 x2 (l1 l2 : list value) : rel r x1 x2 -> rel r l1 l2 -> rel r (insert_sorted s1 x1 l1) (insert_sorted s2 x2 l2).
  Proof.
    intros Hx Hl. induction Hl as [|y y' l1 l2 Hy Hl IH]; cbn [insert_sorted].
    - constructor; [assumption|constructor].
    - rewrite (vcmp_rel r s1 s2 depth x1 x2 y y' Hs Hx Hy). destruct (vcmp depth s2 x2 y') as [[| |]|]; try exact I;
        try (constructor; [assumption|constructor; assumption]).
      destruct (insert_sorted s1 x1 l1), (insert_sorted s2 x2 l2); cbn in IH; try contradiction; [|exact I].
      constructor; assumption.
  Qed.
  Lemma sort_values_rel (l1 l2 : list value) : rel r l1 l2 -> rel r (sort_values s1 l1) (sort_values s2 l2).
  Proof.
    intros Hl. induction Hl as [|y y' l1 l2 Hy Hl IH]; cbn [sort_values]; [constructor|].
    destruct (sort_values s1 l1), (sort_values s2 l2); cbn in IH; try contradiction; [|exact I].
    apply insert_sorted_rel; assumption.
  Qed.
  Lemma insert_pair_rel (p1 p2 : value * value) l1 l2 : rel r p1 p2 -> rel r l1 l2 -> rel r (insert_pair s1 p1 l1) (insert_pair s2 p2 l2).
  Proof.
    intros Hx Hl. induction Hl as [|y y' l1 l2 Hy Hl IH]; cbn [insert_pair].
    - constructor; [assumption|constructor].
    - rewrite (vcmp_rel r s1 s2 depth (fst p1) (fst p2) (fst y) (fst y') Hs (proj1 Hx) (proj1 Hy)).
      destruct (vcmp depth s2 (fst p2) (fst y')) as [[| |]|]; try exact I;
        try (constructor; [assumption|constructor; assumption]).
      destruct (insert_pair s1 p1 l1), (insert_pair s2 p2 l2); cbn in IH; try contradiction; [|exact I].
      constructor; assumption.
  Qed.
  Lemma sort_pairs_rel (l1 l2 : list (value * value)) : rel r l1 l2 -> rel r (sort_pairs s1 l1) (sort_pairs s2 l2).
  Proof.
    intros Hl. induction Hl as [|y y' l1 l2 Hy Hl IH]; cbn [sort_pairs]; [constructor|].
    destruct (sort_pairs s1 l1), (sort_pairs s2 l2); cbn in IH; try contradiction; [|exact I].
    apply insert_pair_rel; assumption.
  Qed.
  Lemma sort_pairs_dir_rel b1 b2 (l1 l2 : list (value * value)) : rel r b1 b2 -> rel r l1 l2 ->
    rel r (sort_pairs_dir s1 b1 l1) (sort_pairs_dir s2 b2 l2).
  Proof.
    intros Hb Hl. hnf in Hb. subst b2. unfold sort_pairs_dir. destruct b1; [|apply sort_pairs_rel; exact Hl].
    pose proof (sort_pairs_rel _ _ (rel_rev r _ _ Hl)) as H.
    destruct (sort_pairs s1 (rev l1)), (sort_pairs s2 (rev l2)); cbn in H |- *; try contradiction; [|exact I].
    apply rel_rev. exact H.
  Qed.
  Lemma extremum_rel want b1 b2 (l1 l2 : list value) : rel r b1 b2 -> rel r l1 l2 -> rel r (extremum s1 want b1 l1) (extremum s2 want b2 l2).
  Proof.
    intros Hb Hl. revert b1 b2 Hb. induction Hl as [|y y' l1 l2 Hy Hl IH]; intros b1 b2 Hb; cbn [extremum]; [exact Hb|].
    rewrite (vcmp_rel r s1 s2 depth y y' b1 b2 Hs Hy Hb). destruct (vcmp depth s2 y' b2) as [c|]; [|exact I].
    apply IH. destruct (match c, want with Lt, Lt | Gt, Gt => true | _, _ => false end); assumption.
  Qed.
End Dict.

(* ---- builders of values ---------------------------------------------------------------------------------------- *)
Lemma range_elems_rel r n lo hi st : rel r (range_elems n lo hi st) (range_elems n lo hi st).
Proof.
  revert lo. induction n as [|n IH]; intros lo; cbn [range_elems]; [constructor|].
  destruct (if (0 <? st)%Z then (lo <? hi)%Z else (hi <? lo)%Z); constructor; [constructor|apply IH].
Qed.
Lemma enumerate_from_rel r i (l1 l2 : list value) : rel r l1 l2 -> rel r (enumerate_from i l1) (enumerate_from i l2).
Proof.
  intros H. revert i. induction H; intros i; cbn [enumerate_from]; constructor; [|apply IHForall2].
  constructor. constructor; [constructor|]. constructor; [assumption|constructor].
Qed.
Lemma zip_lists_rel r (ls1 ls2 : list (list value)) n : rel r ls1 ls2 -> rel r (zip_lists ls1 n) (zip_lists ls2 n).
Proof.
  revert ls1 ls2. induction n as [|n IH]; intros ls1 ls2 H; cbn [zip_lists]; [constructor|].
  assert (E : forallb (fun l : list value => match l with [] => false | _ => true end) ls1 =
              forallb (fun l : list value => match l with [] => false | _ => true end) ls2).
  { eapply forallb_rel; [|exact H]. intros x x' Hx. destruct Hx; reflexivity. }
  rewrite E. destruct (forallb _ ls2); [|constructor]. constructor.
  - constructor. clear E. induction H; cbn [map]; constructor; [|assumption]. apply rel_hd; [constructor|assumption].
  - apply IH. clear E. induction H; cbn [map]; constructor; [|assumption]. apply rel_tl. assumption.
Qed.
Lemma kwargs_dict_rel r (n1 n2 : list (string * value)) : rel r n1 n2 ->
  rel r (map (fun kv => (VStr (fst kv), snd kv)) n1) (map (fun kv => (VStr (fst kv), snd kv)) n2).
Proof.
  intros H. induction H as [|[x v] [y w] l1 l2 [E Hv] _ IH]; cbn [map]; constructor; [|exact IH].
  cbn [fst snd] in *. hnf in E. subst y. split; [constructor|exact Hv].
Qed.
Lemma items_rel r (d1 d2 : list (value * value)) : rel r d1 d2 ->
  rel r (map (fun kv => VTuple [fst kv; snd kv]) d1) (map (fun kv => VTuple [fst kv; snd kv]) d2).
Proof.
  intros H. induction H as [|p q l1 l2 [Hk Hv] _ IH]; cbn [map]; constructor; [|exact IH].
  constructor. constructor; [exact Hk|]. constructor; [exact Hv|constructor].
Qed.

(* ---- name-indexed lists ----------------------------------------------------------------------------------------- *)
Lemma assoc_str_rel r x (l1 l2 : list (string * value)) : rel r l1 l2 -> rel r (assoc_str x l1) (assoc_str x l2).
Proof.
  intros H. induction H as [|[y v] [y' v'] l1 l2 [E Hv] _ IH]; cbn [assoc_str]; [exact I|].
  cbn [fst snd] in *. hnf in E. subst y'. destruct (String.eqb x y); [exact Hv|exact IH].
Qed.
Lemma lookup_default_rel r x (l1 l2 : list (string * value)) : rel r l1 l2 -> rel r (lookup_default x l1) (lookup_default x l2).
Proof.
  intros H. induction H as [|[y v] [y' v'] l1 l2 [E Hv] _ IH]; cbn [lookup_default]; [exact I|].
  cbn [fst snd] in *. hnf in E. subst y'. destruct (String.eqb x y); [exact Hv|exact IH].
Qed.
Lemma assoc_remove_rel r x (l1 l2 : list (string * value)) : rel r l1 l2 -> rel r (assoc_remove x l1) (assoc_remove x l2).
Proof.
  intros H. induction H as [|[y v] [y' v'] l1 l2 [E Hv] Hl IH]; cbn [assoc_remove]; [exact I|].
  cbn [fst snd] in *. hnf in E. subst y'. destruct (String.eqb x y); [split; assumption|].
  destruct (assoc_remove x l1) as [[a1 t1]|], (assoc_remove x l2) as [[a2 t2]|]; cbn in IH; try contradiction; [|exact I].
  destruct IH as [Ha Ht]. split; [exact Ha|]. constructor; [split; [reflexivity|exact Hv]|exact Ht].
Qed.
Lemma named_forallb_rel r (f : string -> bool) (l1 l2 : list (string * value)) : rel r l1 l2 ->
  forallb (fun kv => f (fst kv)) l1 = forallb (fun kv => f (fst kv)) l2.
Proof. intros H. eapply forallb_rel; [|exact H]. intros [x v] [y w] [E _]. cbn in *. hnf in E. subst. reflexivity. Qed.

Lemma bind_params_rel r ps : forall d1 d2 pos1 pos2 n1 n2 seen,
  rel r d1 d2 -> rel r pos1 pos2 -> rel r n1 n2 ->
  rel r (bind_params ps d1 pos1 n1 seen) (bind_params ps d2 pos2 n2 seen).
Proof.
  induction ps as [|p ps IH]; intros d1 d2 pos1 pos2 n1 n2 seen Hd Hp Hn; cbn [bind_params].
  - split; [split; [constructor|exact Hp]|exact Hn].
  - destruct p as [x dflt|x|x].
    + assert (Hpos : rel r (if seen then [] else pos1) (if seen then [] else pos2)) by (destruct seen; [constructor|exact Hp]).
      pose proof (assoc_remove_rel r x n1 n2 Hn) as Hrm.
      destruct Hpos as [|v v' q q' Hv Hq];
        destruct (assoc_remove x n1) as [[a1 t1]|], (assoc_remove x n2) as [[a2 t2]|]; cbn in Hrm; try contradiction; try exact I.
      * destruct Hrm as [Ha Ht]. specialize (IH d1 d2 pos1 pos2 t1 t2 seen Hd Hp Ht).
        destruct (bind_params ps d1 pos1 t1 seen) as [[[b1 p1] m1]|], (bind_params ps d2 pos2 t2 seen) as [[[b2 p2] m2]|]; cbn in IH; try contradiction; [|exact I].
        destruct IH as [[Hb Hpp] Hm]. split; [split; [constructor; [split; [reflexivity|exact Ha]|exact Hb]|exact Hpp]|exact Hm].
      * pose proof (lookup_default_rel r x d1 d2 Hd) as Hld.
        destruct (lookup_default x d1) as [v1|], (lookup_default x d2) as [v2|]; cbn in Hld; try contradiction; [|exact I].
        specialize (IH d1 d2 pos1 pos2 n1 n2 seen Hd Hp Hn).
        destruct (bind_params ps d1 pos1 n1 seen) as [[[b1 p1] m1]|], (bind_params ps d2 pos2 n2 seen) as [[[b2 p2] m2]|]; cbn in IH; try contradiction; [|exact I].
        destruct IH as [[Hb Hpp] Hm]. split; [split; [constructor; [split; [reflexivity|exact Hld]|exact Hb]|exact Hpp]|exact Hm].
      * specialize (IH d1 d2 q q' n1 n2 seen Hd Hq Hn).
        destruct (bind_params ps d1 q n1 seen) as [[[b1 p1] m1]|], (bind_params ps d2 q' n2 seen) as [[[b2 p2] m2]|]; cbn in IH; try contradiction; [|exact I].
        destruct IH as [[Hb Hpp] Hm]. split; [split; [constructor; [split; [reflexivity|exact Hv]|exact Hb]|exact Hpp]|exact Hm].
    + specialize (IH d1 d2 [] [] n1 n2 true Hd (rel_nil r) Hn).
      destruct (bind_params ps d1 [] n1 true) as [[[b1 p1] m1]|], (bind_params ps d2 [] n2 true) as [[[b2 p2] m2]|]; cbn in IH; try contradiction; [|exact I].
      destruct IH as [[Hb Hpp] Hm]. split; [split; [|constructor]|exact Hm].
      constructor; [split; [reflexivity|constructor; exact Hp]|exact Hb].
    + specialize (IH d1 d2 pos1 pos2 [] [] seen Hd Hp (rel_nil r)).
      destruct (bind_params ps d1 pos1 [] seen) as [[[b1 p1] m1]|], (bind_params ps d2 pos2 [] seen) as [[[b2 p2] m2]|]; cbn in IH; try contradiction; [|exact I].
      destruct IH as [[Hb Hpp] Hm]. split; [split; [exact Hb|exact Hpp]|exact Hn].
Qed.

(* environments *)
Definition orcl (r : ren) (o1 o2 : option nat) : Prop :=
  match o1, o2 with Some a, Some b => rcl r a b | None, None => True | _, _ => False end.
Lemma lookup_rel r x (e1 e2 : env) : rel r e1 e2 -> orcl r (lookup x e1) (lookup x e2).
Proof.
  intros H. induction H as [|[y a] [y' a'] l1 l2 [E Ha] _ IH]; cbn [lookup]; [exact I|].
  cbn [fst snd] in *. subst y'. destruct (String.eqb x y); [exact Ha|exact IH].
Qed.
Lemma erel_app r (a1 a2 b1 b2 : env) : rel r a1 a2 -> rel r b1 b2 -> rel r (a1 ++ b1) (a2 ++ b2).
Proof. intros. apply Forall2_app; assumption. Qed.
