(* C06 - the reference: "the tree the grammar prescribes".
   The expression grammar of the Starlark specification (= the part of Python's grammar Starlark keeps),
   written as a *stratified* recursive-descent parser: one nonterminal per precedence level of the
   specification's table, no binding powers anywhere.

       Test       = 'lambda' [Params] ':' Test | OrTest ['if' OrTest 'else' Test]
       OrTest     = AndTest  {'or' AndTest}                                   (left associative)
       AndTest    = NotTest  {'and' NotTest}
       NotTest    = 'not' NotTest | Comparison
       Comparison = BitOr [CmpOp BitOr]       CmpOp = == != < > <= >= in 'not' 'in'   (NOT associative:
                                                            a second CmpOp after the right operand is an error)
       BitOr      = BitXor   {'|' BitXor}
       BitXor     = BitAnd   {'^' BitAnd}
       BitAnd     = Shift    {'&' Shift}
       Shift      = Arith    {('<<' | '>>') Arith}
       Arith      = Term     {('+' | '-') Term}
       Term       = Unary    {('*' | '/' | '//' | '%') Unary}
       Unary      = ('+' | '-' | '~') Unary | Primary
       Argument   = identifier '=' Test | '*' Test | '**' Test | Test
       LoopVariables / assignment targets = BitOr {',' BitOr}

   Brackets, displays, comprehensions, suffixes, lambda parameters and argument lists are LL(1) and are
   taken from Model.Body, instantiated with this operator layer (`strat_impl`) and without the
   identifier re-entry of `parse_argument` (an argument that is not `identifier = ...` is a Test).
   The reference reads nothing from the translator's tables: its `cfg` is the constant `ref_cfg`
   (start set and prefix operators as in the specification; the numeric fields are unused). *)
From Coq Require Import ZArith NArith List String Bool.
From SV Require Import Parse.Tokens Parse.Ast Parse.Model.
Import ListNotations.
Open Scope string_scope.

(* operators of each level *)
Definition or_ops (t : token) : option binop := match t with TOr => Some Or | _ => None end.
Definition and_ops (t : token) : option binop := match t with TAnd => Some And | _ => None end.
Definition bitor_ops (t : token) : option binop := match t with TPipe => Some BitOr | _ => None end.
Definition bitxor_ops (t : token) : option binop := match t with TCaret => Some BitXor | _ => None end.
Definition bitand_ops (t : token) : option binop := match t with TAmpersand => Some BitAnd | _ => None end.
Definition shift_ops (t : token) : option binop :=
  match t with TLessLess => Some LeftShift | TGreaterGreater => Some RightShift | _ => None end.
Definition arith_ops (t : token) : option binop :=
  match t with TPlus => Some Add | TMinus => Some Subtract | _ => None end.
Definition term_ops (t : token) : option binop :=
  match t with
  | TStar => Some Multiply | TSlash => Some Divide | TSlashSlash => Some FloorDivide | TPercent => Some Percent
  | _ => None
  end.
(* single-token comparison operators; `not in` is recognised separately *)
Definition cmp_ops (t : token) : option binop :=
  match t with
  | TEqualEqual => Some Equal | TBangEqual => Some NotEqual | TLessThan => Some Less | TGreaterThan => Some Greater
  | TLessEqual => Some LessOrEqual | TGreaterEqual => Some GreaterOrEqual | TIn => Some In
  | _ => None
  end.
(* does a comparison operator start here? *)
Definition cmp_start (ts : toks) : bool :=
  match ts with
  | t :: _ => tok_is_not t || match cmp_ops t with Some _ => true | None => false end
  | [] => false
  end.

Section Strat.
  Variable P : toks -> pres.        (* Unary *)

  (* X {op X} : left associative *)
  Fixpoint lloop (n : nat) (ops : token -> option binop) (next : toks -> pres) (lhs : expr) (ts : toks) : pres :=
    match n with
    | O => Oof
    | S n' =>
      match ts with
      | t :: rest =>
        match ops t with
        | Some op => '(rhs, r) <- next rest ;; lloop n' ops next (EOp lhs op rhs) r
        | None => Ok (lhs, ts)
        end
      | [] => Ok (lhs, ts)
      end
    end.
  Definition left_level (ops : token -> option binop) (next : toks -> pres) (ts : toks) : pres :=
    '(x, r) <- next ts ;; lloop (S (List.length r)) ops next x r.

  Definition g_term := left_level term_ops P.
  Definition g_arith := left_level arith_ops g_term.
  Definition g_shift := left_level shift_ops g_arith.
  Definition g_bitand := left_level bitand_ops g_shift.
  Definition g_bitxor := left_level bitxor_ops g_bitand.
  Definition g_bitor := left_level bitor_ops g_bitxor.

  (* Comparison = BitOr [CmpOp BitOr], not associative *)
  Definition g_cmp_tail (x : expr) (ts : toks) : pres :=
    match ts with
    | t :: rest =>
      if tok_is_not t then
        match rest with
        | t2 :: rest' =>
          if tok_is_in t2 then '(y, r) <- g_bitor rest' ;; if cmp_start r then Err 2 else Ok (EOp x NotIn y, r)
          else Err 1        (* after an operand `not` can only start `not in` *)
        | [] => Err 1
        end
      else
        match cmp_ops t with
        | Some op => '(y, r) <- g_bitor rest ;; if cmp_start r then Err 2 else Ok (EOp x op y, r)
        | None => Ok (x, ts)
        end
    | [] => Ok (x, ts)
    end.
  Definition g_comparison (ts : toks) : pres := '(x, r) <- g_bitor ts ;; g_cmp_tail x r.

  (* NotTest = 'not' NotTest | Comparison *)
  Fixpoint g_not_loop (n : nat) (ts : toks) : pres :=
    match n with
    | O => Oof
    | S n' =>
      match ts with
      | t :: rest => if tok_is_not t then '(e, r) <- g_not_loop n' rest ;; Ok (ENot e, r) else g_comparison ts
      | [] => g_comparison ts
      end
    end.
  Definition g_not_test (ts : toks) : pres := g_not_loop (S (List.length ts)) ts.
  Definition g_and_test := left_level and_ops g_not_test.
  Definition g_or_test := left_level or_ops g_and_test.
End Strat.

Definition strat_impl : impl :=
  {| i_test := g_or_test; i_ortest := g_or_test; i_bitor := g_bitor; i_reentry := None |}.

(* start set of an expression and the prefix operators, per the specification *)
Definition ref_start : list string :=
  ["Identifier"; "Int"; "Float"; "String"; "OpeningRound"; "OpeningSquare"; "OpeningCurly";
   "Plus"; "Minus"; "Tilde"; "Not"].
Definition ref_unary : list (string * string) := [("Plus", "Plus"); ("Minus", "Minus"); ("Tilde", "BitNot")].

Definition ref_cfg : cfg :=
  {| c_tbl := []; c_cmp := []; c_not_max := 0; c_not_rbp := 0; c_ni_l := 0; c_ni_r := 0; c_nic_l := 0; c_nic_r := 0;
     c_bitor := 0; c_arg := 0; c_ortest := 0; c_test := 0; c_start := ref_start; c_unary := ref_unary |}.

Definition parse_test_g (fuel : nat) : toks -> pres := r_test (go ref_cfg strat_impl fuel).
(* the grammar of the specification: ExprStmt = Expression = Test {',' Test} *)
Definition parse (fuel : nat) (ts : toks) : res stmt := parse_top ref_cfg strat_impl (go ref_cfg strat_impl fuel) false ts.
(* the same minus unparenthesised tuples as expression statements (the implementation's restriction) *)
Definition parse_strict (fuel : nat) (ts : toks) : res stmt := parse_top ref_cfg strat_impl (go ref_cfg strat_impl fuel) true ts.
