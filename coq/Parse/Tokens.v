(* C06 - token alphabet of the expression grammar (variant names of lexer.rs: enum Token), the binary
   operators (ast.rs: enum BinOp), and the resolution of the translator's string tables
   (coq/Extracted/ParserC.v, regenerated from parser_rd.rs on every run) into typed tables.
   No proofs here. *)
From Coq Require Import ZArith NArith List String Bool.
Import ListNotations.
Open Scope string_scope.

Inductive binop :=
| Or | And | Equal | NotEqual | Less | Greater | LessOrEqual | GreaterOrEqual | In | NotIn
| Subtract | Add | Multiply | Percent | Divide | FloorDivide | BitAnd | BitOr | BitXor | LeftShift | RightShift.

Definition binop_eqb (a b : binop) : bool :=
  match a, b with
  | Or, Or | And, And | Equal, Equal | NotEqual, NotEqual | Less, Less | Greater, Greater
  | LessOrEqual, LessOrEqual | GreaterOrEqual, GreaterOrEqual | In, In | NotIn, NotIn
  | Subtract, Subtract | Add, Add | Multiply, Multiply | Percent, Percent | Divide, Divide
  | FloorDivide, FloorDivide | BitAnd, BitAnd | BitOr, BitOr | BitXor, BitXor
  | LeftShift, LeftShift | RightShift, RightShift => true
  | _, _ => false
  end.

Definition all_binops : list binop :=
  [Or; And; Equal; NotEqual; Less; Greater; LessOrEqual; GreaterOrEqual; In; NotIn; Subtract; Add; Multiply;
   Percent; Divide; FloorDivide; BitAnd; BitOr; BitXor; LeftShift; RightShift].

Definition binop_name (o : binop) : string :=
  match o with
  | Or => "Or" | And => "And" | Equal => "Equal" | NotEqual => "NotEqual" | Less => "Less" | Greater => "Greater"
  | LessOrEqual => "LessOrEqual" | GreaterOrEqual => "GreaterOrEqual" | In => "In" | NotIn => "NotIn"
  | Subtract => "Subtract" | Add => "Add" | Multiply => "Multiply" | Percent => "Percent" | Divide => "Divide"
  | FloorDivide => "FloorDivide" | BitAnd => "BitAnd" | BitOr => "BitOr" | BitXor => "BitXor"
  | LeftShift => "LeftShift" | RightShift => "RightShift"
  end.

Definition binop_of_name (s : string) : option binop :=
  find (fun o => String.eqb (binop_name o) s) all_binops.

(* Tokens.  Payload-carrying tokens hold an opaque number (the driver interns the spelling). *)
Inductive token :=
| TIdentifier (n : N) | TInt (n : N) | TFloat (n : N) | TString (n : N)
| TOr | TAnd | TNot | TIn | TIf | TElse | TLambda | TFor
| TEqualEqual | TBangEqual | TLessThan | TGreaterThan | TLessEqual | TGreaterEqual
| TPipe | TCaret | TAmpersand | TLessLess | TGreaterGreater | TPlus | TMinus | TStar | TPercent | TSlash | TSlashSlash
| TTilde | TStarStar | TEqual | TDot | TComma | TColon
| TOpeningRound | TClosingRound | TOpeningSquare | TClosingSquare | TOpeningCurly | TClosingCurly
| TOther (n : N).   (* any token outside the expression alphabet (never accepted inside an expression) *)

Definition token_eqb (a b : token) : bool :=
  match a, b with
  | TIdentifier x, TIdentifier y | TInt x, TInt y | TFloat x, TFloat y | TString x, TString y | TOther x, TOther y => N.eqb x y
  | TOr, TOr | TAnd, TAnd | TNot, TNot | TIn, TIn | TIf, TIf | TElse, TElse | TLambda, TLambda | TFor, TFor
  | TEqualEqual, TEqualEqual | TBangEqual, TBangEqual | TLessThan, TLessThan | TGreaterThan, TGreaterThan
  | TLessEqual, TLessEqual | TGreaterEqual, TGreaterEqual | TPipe, TPipe | TCaret, TCaret | TAmpersand, TAmpersand
  | TLessLess, TLessLess | TGreaterGreater, TGreaterGreater | TPlus, TPlus | TMinus, TMinus | TStar, TStar
  | TPercent, TPercent | TSlash, TSlash | TSlashSlash, TSlashSlash | TTilde, TTilde | TStarStar, TStarStar
  | TEqual, TEqual | TDot, TDot | TComma, TComma | TColon, TColon | TOpeningRound, TOpeningRound
  | TClosingRound, TClosingRound | TOpeningSquare, TOpeningSquare | TClosingSquare, TClosingSquare
  | TOpeningCurly, TOpeningCurly | TClosingCurly, TClosingCurly => true
  | _, _ => false
  end.

Definition tok_is_not (t : token) : bool := match t with TNot => true | _ => false end.
Definition tok_is_in (t : token) : bool := match t with TIn => true | _ => false end.

(* the kind of a token = its variant with the payload erased *)
Definition kind (t : token) : token :=
  match t with
  | TIdentifier _ => TIdentifier 0 | TInt _ => TInt 0 | TFloat _ => TFloat 0 | TString _ => TString 0 | TOther _ => TOther 0
  | t => t
  end.

(* every payload-free token, and the payload kinds at payload 0 *)
Definition all_kinds : list token :=
  [TIdentifier 0; TInt 0; TFloat 0; TString 0; TOr; TAnd; TNot; TIn; TIf; TElse; TLambda; TFor;
   TEqualEqual; TBangEqual; TLessThan; TGreaterThan; TLessEqual; TGreaterEqual; TPipe; TCaret; TAmpersand;
   TLessLess; TGreaterGreater; TPlus; TMinus; TStar; TPercent; TSlash; TSlashSlash; TTilde; TStarStar; TEqual;
   TDot; TComma; TColon; TOpeningRound; TClosingRound; TOpeningSquare; TClosingSquare; TOpeningCurly;
   TClosingCurly; TOther 0].

Definition token_name (t : token) : string :=
  match t with
  | TIdentifier _ => "Identifier" | TInt _ => "Int" | TFloat _ => "Float" | TString _ => "String"
  | TOr => "Or" | TAnd => "And" | TNot => "Not" | TIn => "In" | TIf => "If" | TElse => "Else" | TLambda => "Lambda"
  | TFor => "For" | TEqualEqual => "EqualEqual" | TBangEqual => "BangEqual" | TLessThan => "LessThan"
  | TGreaterThan => "GreaterThan" | TLessEqual => "LessEqual" | TGreaterEqual => "GreaterEqual" | TPipe => "Pipe"
  | TCaret => "Caret" | TAmpersand => "Ampersand" | TLessLess => "LessLess" | TGreaterGreater => "GreaterGreater"
  | TPlus => "Plus" | TMinus => "Minus" | TStar => "Star" | TPercent => "Percent" | TSlash => "Slash"
  | TSlashSlash => "SlashSlash" | TTilde => "Tilde" | TStarStar => "StarStar" | TEqual => "Equal" | TDot => "Dot"
  | TComma => "Comma" | TColon => "Colon" | TOpeningRound => "OpeningRound" | TClosingRound => "ClosingRound"
  | TOpeningSquare => "OpeningSquare" | TClosingSquare => "ClosingSquare" | TOpeningCurly => "OpeningCurly"
  | TClosingCurly => "ClosingCurly" | TOther _ => "Other"
  end.

Definition token_of_name (s : string) : option token :=
  find (fun t => String.eqb (token_name t) s) all_kinds.

(* ---- typed tables ------------------------------------------------------------------------- *)

(* infix_binding_power: token kind -> (operator, left bp, right bp) *)
Definition bptable := list (token * (binop * Z * Z)).

Fixpoint resolve_table (l : list (string * string * Z * Z)) : option bptable :=
  match l with
  | [] => Some []
  | (t, o, lb, rb) :: r =>
    match token_of_name t, binop_of_name o, resolve_table r with
    | Some t', Some o', Some r' => Some ((t', (o', lb, rb)) :: r')
    | _, _, _ => None
    end
  end.

Fixpoint lookup (tbl : bptable) (t : token) : option (binop * Z * Z) :=
  match tbl with
  | [] => None
  | (k, v) :: r => if token_eqb k (kind t) then Some v else lookup r t
  end.

Fixpoint resolve_ops (l : list string) : option (list binop) :=
  match l with
  | [] => Some []
  | s :: r => match binop_of_name s, resolve_ops r with Some o, Some r' => Some (o :: r') | _, _ => None end
  end.

(* names of tokens outside the model's alphabet are kept as such: membership is by name *)
Definition name_in (l : list string) (t : token) : bool := existsb (String.eqb (token_name t)) l.

(* everything the parser model reads from the source-derived tables *)
Record cfg := {
  c_tbl : bptable;              (* infix_binding_power *)
  c_cmp : list binop;           (* is_comparison *)
  c_not_max : Z;                (* parse_expr: prefix `not` when min_bp <= c_not_max *)
  c_not_rbp : Z;                (* parse_expr: operand of prefix `not` is parse_expr(c_not_rbp) *)
  c_ni_l : Z; c_ni_r : Z;       (* parse_expr loop: powers of `not in` *)
  c_nic_l : Z; c_nic_r : Z;     (* continue_infix loop: powers of `not in` *)
  c_bitor : Z;                  (* parse_bitor_expr: continue_infix(lhs, c_bitor) *)
  c_arg : Z;                    (* parse_argument: continue_infix(expr, c_arg) *)
  c_ortest : Z;                 (* parse_or_test: parse_expr(c_ortest) *)
  c_test : Z;                   (* parse_test: parse_expr(c_test) *)
  c_start : list string;        (* is_expr_start *)
  c_unary : list (string * string)   (* parse_unary arms: token name, Expr constructor name *)
}.

Definition is_cmp (c : cfg) (o : binop) : bool := existsb (binop_eqb o) (c_cmp c).
