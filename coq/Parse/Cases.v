(* C06 - entry points of the tie: the model configured from the translator's tables
   (coq/Extracted/ParserC.v), the reference grammar, the printer.  Run through extraction
   (Extract/ParseX.v, ocaml/parse_driver.ml) on the implementation's token streams. *)
From Coq Require Import ZArith NArith List String Bool.
From SV Require Import Extracted.ParserC Parse.Tokens Parse.Ast Parse.Model Parse.Grammar Parse.Print.
Import ListNotations.

Definition ext_cfg : option cfg :=
  match resolve_table bp_table, resolve_ops comparison_ops with
  | Some t, Some cm =>
    Some {| c_tbl := t; c_cmp := cm; c_not_max := not_prefix_max; c_not_rbp := not_prefix_rbp;
            c_ni_l := notin_expr_l; c_ni_r := notin_expr_r; c_nic_l := notin_cont_l; c_nic_r := notin_cont_r;
            c_bitor := bitor_min_bp; c_arg := argument_min_bp; c_ortest := or_test_min_bp; c_test := test_min_bp;
            c_start := expr_start; c_unary := unary_ops |}
  | _, _ => None
  end.

Definition fuel_for (ts : toks) : nat := S (S (List.length ts)).

Definition run_model (ts : toks) : res stmt :=
  match ext_cfg with
  | Some c => Model.parse c (fuel_for ts) ts
  | None => Unmodelled
  end.
Definition run_grammar (ts : toks) : res stmt := Grammar.parse (fuel_for ts) ts.
Definition run_grammar_strict (ts : toks) : res stmt := Grammar.parse_strict (fuel_for ts) ts.
Definition run_print (s : stmt) : toks := print_stmt s.
