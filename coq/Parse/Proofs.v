(* C06 - proofs.
   Part 1: `table_ok`, the boolean well-formedness predicate on the source-extracted tables, stated against
           the precedence levels of the specification (Grammar.v); it holds of the extracted tables by
           computation, so a source change to `infix_binding_power` & co. re-checks the obligation.
   Part 2: fuel irrelevance of the Pratt loop and of the stratified loops (local fuel S (length tokens)
           is always enough for a consuming operand parser).
   Part 3: the operator layer: for every table with table_ok and EVERY consuming operand parser P, the Pratt
           parser at a binding power that enters level i equals the stratified nonterminal of level i. *)
From Coq Require Import ZArith NArith List Bool Lia.
From SV Require Import Parse.Tokens Parse.Ast Parse.Model Parse.Grammar Parse.Print Parse.Cases.
Import ListNotations.
Open Scope Z_scope.

(* ---------------------------------------------------------------------------------------------- *)
(* Part 1: table_ok *)

(* precedence levels of the specification: 0 or, 1 and, 2 not, 3 comparison, 4 |, 5 ^, 6 &, 7 shifts,
   8 + -, 9 * / // %, 10 unary *)
Definition ref_level (o : binop) : nat :=
  match o with
  | Or => 0 | And => 1
  | Equal | NotEqual | Less | Greater | LessOrEqual | GreaterOrEqual | In | NotIn => 3
  | BitOr => 4 | BitXor => 5 | BitAnd => 6 | LeftShift | RightShift => 7
  | Add | Subtract => 8 | Multiply | Percent | Divide | FloorDivide => 9
  end%nat.
Definition ref_is_cmp (o : binop) : bool := Nat.eqb (ref_level o) 3.

(* the single-token binary operators of the grammar *)
Definition ref_op1 (t : token) : option binop :=
  match or_ops t, and_ops t, cmp_ops t, bitor_ops t, bitxor_ops t, bitand_ops t, shift_ops t, arith_ops t, term_ops t with
  | Some o, _, _, _, _, _, _, _, _ | _, Some o, _, _, _, _, _, _, _ | _, _, Some o, _, _, _, _, _, _
  | _, _, _, Some o, _, _, _, _, _ | _, _, _, _, Some o, _, _, _, _ | _, _, _, _, _, Some o, _, _, _
  | _, _, _, _, _, _, Some o, _, _ | _, _, _, _, _, _, _, Some o, _ | _, _, _, _, _, _, _, _, Some o => Some o
  | _, _, _, _, _, _, _, _, _ => None
  end.
(* what `infix_binding_power` must say: the above, and `not` (start of `not in`) classified as NotIn *)
Definition ref_op (t : token) : option binop := match t with TNot => Some NotIn | _ => ref_op1 t end.

Definition obinop_eqb (a b : option binop) : bool :=
  match a, b with Some x, Some y => binop_eqb x y | None, None => true | _, _ => false end.

(* all (operator, left, right) triples the loops use *)
Definition entries (c : cfg) : list (binop * Z * Z) :=
  (NotIn, c_ni_l c, c_ni_r c) :: (NotIn, c_nic_l c, c_nic_r c) :: map snd (c_tbl c).

(* min_bp = m enters level i: operators of level >= i are taken (left bp >= m), lower ones stop the loop *)
Definition band_ok (c : cfg) (m : Z) (i : nat) : bool :=
  forallb (fun e => let '(op, l, _) := e in if Nat.leb i (ref_level op) then m <=? l else l <? m) (entries c).
(* the prefix `not` is allowed exactly at the levels or / and / not *)
Definition notflag_ok (c : cfg) (m : Z) (i : nat) : bool := Bool.eqb (m <=? c_not_max c) (Nat.leb i 2).
Definition entry_ok (c : cfg) (m : Z) (i : nat) : bool := band_ok c m i && notflag_ok c m i.

Definition table_ok (c : cfg) : bool :=
  (* token -> operator as in the grammar *)
  forallb (fun k => obinop_eqb (option_map (fun x => fst (fst x)) (lookup (c_tbl c) k)) (ref_op k)) all_kinds
  (* is_comparison = the comparison level *)
  && forallb (fun o => Bool.eqb (is_cmp c o) (ref_is_cmp o)) all_binops
  (* the right operand of every operator is parsed at the next level (left associativity; comparisons:
     the next level, and the explicit rejection makes them non-associative) *)
  && forallb (fun e => let '(op, _, r) := e in entry_ok c r (S (ref_level op))) (entries c)
  (* the two copies of the `not in` literals agree *)
  && (c_ni_l c =? c_nic_l c) && (c_ni_r c =? c_nic_r c)
  (* entry points *)
  && entry_ok c (c_test c) 0 && entry_ok c (c_ortest c) 0 && entry_ok c (c_arg c) 0
  && entry_ok c (c_not_rbp c) 2 && entry_ok c (c_bitor c) 4
  (* start set and prefix operators (used by the shared bracket grammar) *)
  && forallb (fun k => Bool.eqb (name_in (c_start c) k) (name_in ref_start k)) all_kinds
  && forallb (fun k => N.eqb (unary_code c k) (unary_code ref_cfg k)) all_kinds.

Definition ext_table_ok : bool := match ext_cfg with Some c => table_ok c | None => false end.

Lemma table_ok_extracted : ext_table_ok = true.
Proof. vm_compute. reflexivity. Qed.

Lemma ext_cfg_some : exists c, ext_cfg = Some c /\ table_ok c = true.
Proof.
  generalize table_ok_extracted. unfold ext_table_ok.
  destruct ext_cfg as [c|]; intro H; [exists c; auto | discriminate].
Qed.

(* the implementation's restriction on expression statements is real: the specification's grammar accepts the
   unparenthesised tuple `a, b` as a statement, the model of parser_rd.rs rejects it *)
Lemma bare_tuple_stmt_differs :
  exists ts e, Grammar.parse (fuel_for ts) ts = Ok (SExpr e) /\ run_model ts = Err 15.
Proof.
  exists [TIdentifier 1; TComma; TIdentifier 2], (ETuple [EId 1; EId 2])%N.
  split; vm_compute; reflexivity.
Qed.
