(* C06 - proofs.
   Part 1: `table_ok`, the boolean well-formedness predicate on the source-extracted tables, stated against
           the precedence levels of the specification (Grammar.v); it holds of the extracted tables by
           computation, so a source change to `infix_binding_power` & co. re-checks the obligation.
   Part 2: fuel irrelevance of the Pratt loop and of the stratified loops (local fuel S (length tokens)
           is always enough for a consuming operand parser).
   Part 3: the operator layer: for every table with table_ok and EVERY consuming operand parser P, the Pratt
           parser at a binding power that enters level i equals the stratified nonterminal of level i. *)
From Coq Require Import ZArith NArith List Bool Lia.
From SV Require Import Parse.Tokens Parse.Ast Parse.Model Parse.Grammar Parse.Print Parse.Cases.
Import ListNotations.
Open Scope Z_scope.

(* ---------------------------------------------------------------------------------------------- *)
(* Part 1: table_ok *)

(* precedence levels of the specification: 0 or, 1 and, 2 not, 3 comparison, 4 |, 5 ^, 6 &, 7 shifts,
   8 + -, 9 * / // %, 10 unary *)
Definition ref_level (o : binop) : nat :=
  match o with
  | Or => 0 | And => 1
  | Equal | NotEqual | Less | Greater | LessOrEqual | GreaterOrEqual | In | NotIn => 3
  | BitOr => 4 | BitXor => 5 | BitAnd => 6 | LeftShift | RightShift => 7
  | Add | Subtract => 8 | Multiply | Percent | Divide | FloorDivide => 9
  end%nat.
Definition ref_is_cmp (o : binop) : bool := Nat.eqb (ref_level o) 3.

(* the single-token binary operators of the grammar *)
Definition ref_op1 (t : token) : option binop :=
  match or_ops t, and_ops t, cmp_ops t, bitor_ops t, bitxor_ops t, bitand_ops t, shift_ops t, arith_ops t, term_ops t with
  | Some o, _, _, _, _, _, _, _, _ | _, Some o, _, _, _, _, _, _, _ | _, _, Some o, _, _, _, _, _, _
  | _, _, _, Some o, _, _, _, _, _ | _, _, _, _, Some o, _, _, _, _ | _, _, _, _, _, Some o, _, _, _
  | _, _, _, _, _, _, Some o, _, _ | _, _, _, _, _, _, _, Some o, _ | _, _, _, _, _, _, _, _, Some o => Some o
  | _, _, _, _, _, _, _, _, _ => None
  end.
(* what `infix_binding_power` must say: the above, and `not` (start of `not in`) classified as NotIn *)
Definition ref_op (t : token) : option binop := match t with TNot => Some NotIn | _ => ref_op1 t end.

Definition obinop_eqb (a b : option binop) : bool :=
  match a, b with Some x, Some y => binop_eqb x y | None, None => true | _, _ => false end.

(* all (operator, left, right) triples the loops use *)
Definition entries (c : cfg) : list (binop * Z * Z) :=
  (NotIn, c_ni_l c, c_ni_r c) :: (NotIn, c_nic_l c, c_nic_r c) :: map snd (c_tbl c).

(* min_bp = m enters level i: operators of level >= i are taken (left bp >= m), lower ones stop the loop *)
Definition band_ok (c : cfg) (m : Z) (i : nat) : bool :=
  forallb (fun e => let '(op, l, _) := e in if Nat.leb i (ref_level op) then m <=? l else l <? m) (entries c).
(* the prefix `not` is allowed exactly at the levels or / and / not *)
Definition notflag_ok (c : cfg) (m : Z) (i : nat) : bool := Bool.eqb (m <=? c_not_max c) (Nat.leb i 2).
Definition entry_ok (c : cfg) (m : Z) (i : nat) : bool := band_ok c m i && notflag_ok c m i.

Definition table_ok (c : cfg) : bool :=
  (* token -> operator as in the grammar *)
  forallb (fun k => obinop_eqb (option_map (fun x => fst (fst x)) (lookup (c_tbl c) k)) (ref_op k)) all_kinds
  (* is_comparison = the comparison level *)
  && forallb (fun o => Bool.eqb (is_cmp c o) (ref_is_cmp o)) all_binops
  (* the right operand of every operator is parsed at the next level (left associativity; comparisons:
     the next level, and the explicit rejection makes them non-associative) *)
  && forallb (fun e => let '(op, _, r) := e in entry_ok c r (S (ref_level op))) (entries c)
  (* the two copies of the `not in` literals agree *)
  && (c_ni_l c =? c_nic_l c) && (c_ni_r c =? c_nic_r c)
  (* entry points *)
  && entry_ok c (c_test c) 0 && entry_ok c (c_ortest c) 0 && entry_ok c (c_arg c) 0
  && entry_ok c (c_not_rbp c) 2 && entry_ok c (c_bitor c) 4
  (* start set and prefix operators (used by the shared bracket grammar) *)
  && forallb (fun k => Bool.eqb (name_in (c_start c) k) (name_in ref_start k)) all_kinds
  && forallb (fun k => N.eqb (unary_code c k) (unary_code ref_cfg k)) all_kinds.

Definition ext_table_ok : bool := match ext_cfg with Some c => table_ok c | None => false end.

Lemma table_ok_extracted : ext_table_ok = true.
Proof. vm_compute. reflexivity. Qed.

Lemma ext_cfg_some : exists c, ext_cfg = Some c /\ table_ok c = true.
Proof.
  generalize table_ok_extracted. unfold ext_table_ok.
  destruct ext_cfg as [c|]; intro H; [exists c; auto | discriminate].
Qed.

(* the implementation's restriction on expression statements is real: the specification's grammar accepts the
   unparenthesised tuple `a, b` as a statement, the model of parser_rd.rs rejects it *)
Lemma bare_tuple_stmt_differs :
  exists ts e, Grammar.parse (fuel_for ts) ts = Ok (SExpr e) /\ run_model ts = Err 15.
Proof.
  exists [TIdentifier 1; TComma; TIdentifier 2], (ETuple [EId 1; EId 2])%N.
  split; vm_compute; reflexivity.
Qed.

(* ---------------------------------------------------------------------------------------------- *)
(* Part 2: fuel irrelevance of the Pratt loop; fuel-free unfolding equations; where the loop stops;
           splitting the loop at a higher binding power *)

Definition consuming (P : toks -> pres) : Prop :=
  forall ts e r, P ts = Ok (e, r) -> (List.length r < List.length ts)%nat.

Lemma bind_ok : forall {A B} (r : res A) (f : A -> res B) b, bind r f = Ok b -> exists a, r = Ok a /\ f a = Ok b.
Proof. intros A B r f b H. destruct r; simpl in H; try discriminate. eauto. Qed.

Section Fuel.
  Variable c : cfg.
  Variable P : toks -> pres.
  Hypothesis HP : consuming P.

  Definition prefix (j : nat) (m : Z) (ts : toks) : pres :=
    match ts with
    | t :: rest => if tok_is_not t && (m <=? c_not_max c)
                   then '(e, r) <- parse_expr c P j (c_not_rbp c) rest ;; Ok (ENot e, r) else P ts
    | [] => P ts
    end.
  Lemma parse_expr_S : forall n m ts,
    parse_expr c P (S n) m ts = '(lhs, r0) <- prefix n m ts ;; infix_loop c P n (c_ni_l c) (c_ni_r c) m lhs r0.
  Proof. reflexivity. Qed.

  Definition loop_body (j : nat) (nl nr m : Z) (lhs : expr) (ts : toks) : pres :=
    match ts with
    | [] => Ok (lhs, ts)
    | t :: rest =>
      if tok_is_not t then
        if nl <? m then Ok (lhs, ts)
        else match rest with
             | t2 :: rest' =>
               if tok_is_in t2 then
                 '(rhs, r) <- parse_expr c P j nr rest' ;;
                 if reject_chained c r then Err 2 else infix_loop c P j nl nr m (EOp lhs NotIn rhs) r
               else Err 1
             | [] => Err 1
             end
      else
        match lookup (c_tbl c) t with
        | None => Ok (lhs, ts)
        | Some (op, lb, rb) =>
          if lb <? m then Ok (lhs, ts)
          else '(rhs, r) <- parse_expr c P j rb rest ;;
               if is_cmp c op && reject_chained c r then Err 2 else infix_loop c P j nl nr m (EOp lhs op rhs) r
        end
    end.
  Lemma infix_loop_S : forall n nl nr m lhs ts,
    infix_loop c P (S n) nl nr m lhs ts = loop_body n nl nr m lhs ts.
  Proof. reflexivity. Qed.

  Lemma fuel_pratt : forall n,
    (forall m ts, (List.length ts < n)%nat ->
       (forall n', (List.length ts < n')%nat -> parse_expr c P n' m ts = parse_expr c P n m ts) /\
       (forall e r, parse_expr c P n m ts = Ok (e, r) -> (List.length r < List.length ts)%nat)) /\
    (forall nl nr m lhs ts, (List.length ts < n)%nat ->
       (forall n', (List.length ts < n')%nat -> infix_loop c P n' nl nr m lhs ts = infix_loop c P n nl nr m lhs ts) /\
       (forall e r, infix_loop c P n nl nr m lhs ts = Ok (e, r) -> (List.length r <= List.length ts)%nat)).
  Proof.
    induction n as [|k [IH1 IH2]].
    - split; intros; lia.
    - split.
      + intros m ts Hlen.
        assert (Hpre : forall j, (List.length ts <= j)%nat -> prefix j m ts = prefix k m ts).
        { intros j Hj. unfold prefix. destruct ts as [|t rest]; auto.
          destruct (tok_is_not t && (m <=? c_not_max c)); auto.
          simpl in Hlen, Hj. destruct (IH1 (c_not_rbp c) rest ltac:(lia)) as [E _]. rewrite (E j) by lia. reflexivity. }
        assert (Hb : forall e r, prefix k m ts = Ok (e, r) -> (List.length r < List.length ts)%nat).
        { intros e r H. unfold prefix in H. destruct ts as [|t rest]; [eapply HP; eauto|].
          destruct (tok_is_not t && (m <=? c_not_max c)); [|eapply HP; eauto].
          apply bind_ok in H. destruct H as [[e0 r0] [H1 H2]]. simpl in H2. inversion H2; subst.
          destruct (IH1 (c_not_rbp c) rest ltac:(simpl in Hlen; lia)) as [_ B]. apply B in H1. simpl. lia. }
        split.
        * intros n' Hn'. destruct n' as [|k']; [lia|].
          rewrite !parse_expr_S. rewrite (Hpre k') by lia.
          destruct (prefix k m ts) as [[e r]| | |] eqn:E; simpl; auto.
          specialize (Hb e r eq_refl). destruct (IH2 (c_ni_l c) (c_ni_r c) m e r ltac:(lia)) as [E2 _]. apply E2. lia.
        * intros e r H. rewrite parse_expr_S in H.
          apply bind_ok in H. destruct H as [[e0 r0] [H1 H2]]. simpl in H2.
          apply Hb in H1. destruct (IH2 (c_ni_l c) (c_ni_r c) m e0 r0 ltac:(lia)) as [_ B]. apply B in H2. lia.
      + intros nl nr m lhs ts Hlen. split.
        * intros n' Hn'. destruct n' as [|k']; [lia|]. rewrite !infix_loop_S. unfold loop_body.
          destruct ts as [|t rest]; auto. simpl in Hlen, Hn'.
          destruct (tok_is_not t).
          -- destruct (nl <? m); auto. destruct rest as [|t2 rest']; auto. destruct (tok_is_in t2); auto.
             simpl in Hlen, Hn'.
             destruct (IH1 nr rest' ltac:(lia)) as [E B]. rewrite (E k') by lia.
             destruct (parse_expr c P k nr rest') as [[rhs r]| | |] eqn:E1; cbn [bind]; auto.
             destruct (reject_chained c r); auto.
             specialize (B rhs r eq_refl). destruct (IH2 nl nr m (EOp lhs NotIn rhs) r ltac:(lia)) as [E2 _]. apply E2. lia.
          -- destruct (lookup (c_tbl c) t) as [[[op lb] rb]|]; auto. destruct (lb <? m); auto.
             destruct (IH1 rb rest ltac:(lia)) as [E B]. rewrite (E k') by lia.
             destruct (parse_expr c P k rb rest) as [[rhs r]| | |] eqn:E1; cbn [bind]; auto.
             destruct (is_cmp c op && reject_chained c r); auto.
             specialize (B rhs r eq_refl). destruct (IH2 nl nr m (EOp lhs op rhs) r ltac:(lia)) as [E2 _]. apply E2. lia.
        * intros e r H. rewrite infix_loop_S in H. unfold loop_body in H.
          destruct ts as [|t rest]; [inversion H; subst; simpl; lia|]. simpl in Hlen.
          destruct (tok_is_not t).
          -- destruct (nl <? m); [inversion H; subst; simpl; lia|].
             destruct rest as [|t2 rest']; [discriminate|]. destruct (tok_is_in t2); [|discriminate].
             simpl in Hlen.
             apply bind_ok in H. destruct H as [[rhs r1] [H1 H2]]. simpl in H2.
             destruct (reject_chained c r1); [discriminate|].
             destruct (IH1 nr rest' ltac:(lia)) as [_ B]. apply B in H1.
             destruct (IH2 nl nr m (EOp lhs NotIn rhs) r1 ltac:(lia)) as [_ B2]. apply B2 in H2. simpl. lia.
          -- destruct (lookup (c_tbl c) t) as [[[op lb] rb]|]; [|inversion H; subst; simpl; lia].
             destruct (lb <? m); [inversion H; subst; simpl; lia|].
             apply bind_ok in H. destruct H as [[rhs r1] [H1 H2]]. simpl in H2.
             destruct (is_cmp c op && reject_chained c r1); [discriminate|].
             destruct (IH1 rb rest ltac:(lia)) as [_ B]. apply B in H1.
             destruct (IH2 nl nr m (EOp lhs op rhs) r1 ltac:(lia)) as [_ B2]. apply B2 in H2. simpl. lia.
  Qed.

  (* fuel-free top-level functions and their unfolding equations *)
  Definition pe (m : Z) (ts : toks) : pres := parse_expr_top c P m ts.
  Definition lp (nl nr m : Z) (lhs : expr) (ts : toks) : pres := infix_loop c P (S (List.length ts)) nl nr m lhs ts.

  Arguments pe : simpl never.
  Arguments lp : simpl never.

  Definition prefixT (m : Z) (ts : toks) : pres :=
    match ts with
    | t :: rest => if tok_is_not t && (m <=? c_not_max c)
                   then '(e, r) <- pe (c_not_rbp c) rest ;; Ok (ENot e, r) else P ts
    | [] => P ts
    end.
  Definition loop_bodyT (nl nr m : Z) (lhs : expr) (ts : toks) : pres :=
    match ts with
    | [] => Ok (lhs, ts)
    | t :: rest =>
      if tok_is_not t then
        if nl <? m then Ok (lhs, ts)
        else match rest with
             | t2 :: rest' =>
               if tok_is_in t2 then
                 '(rhs, r) <- pe nr rest' ;;
                 if reject_chained c r then Err 2 else lp nl nr m (EOp lhs NotIn rhs) r
               else Err 1
             | [] => Err 1
             end
      else
        match lookup (c_tbl c) t with
        | None => Ok (lhs, ts)
        | Some (op, lb, rb) =>
          if lb <? m then Ok (lhs, ts)
          else '(rhs, r) <- pe rb rest ;;
               if is_cmp c op && reject_chained c r then Err 2 else lp nl nr m (EOp lhs op rhs) r
        end
    end.

  Lemma pe_fuel : forall n m ts, (List.length ts < n)%nat -> parse_expr c P n m ts = pe m ts.
  Proof.
    intros n m ts H. unfold pe, parse_expr_top.
    destruct (fuel_pratt (S (List.length ts))) as [A _]. destruct (A m ts ltac:(lia)) as [E _]. apply E. lia.
  Qed.
  Lemma lp_fuel : forall n nl nr m lhs ts, (List.length ts < n)%nat -> infix_loop c P n nl nr m lhs ts = lp nl nr m lhs ts.
  Proof.
    intros n nl nr m lhs ts H. unfold lp.
    destruct (fuel_pratt (S (List.length ts))) as [_ A]. destruct (A nl nr m lhs ts ltac:(lia)) as [E _]. apply E. lia.
  Qed.
  Lemma pe_bound : forall m ts e r, pe m ts = Ok (e, r) -> (List.length r < List.length ts)%nat.
  Proof.
    intros m ts e r H. unfold pe, parse_expr_top in H.
    destruct (fuel_pratt (S (List.length ts))) as [A _]. destruct (A m ts ltac:(lia)) as [_ B]. eapply B; eauto.
  Qed.
  Lemma lp_bound : forall nl nr m lhs ts e r, lp nl nr m lhs ts = Ok (e, r) -> (List.length r <= List.length ts)%nat.
  Proof.
    intros nl nr m lhs ts e r H. unfold lp in H.
    destruct (fuel_pratt (S (List.length ts))) as [_ A]. destruct (A nl nr m lhs ts ltac:(lia)) as [_ B]. eapply B; eauto.
  Qed.

  Lemma prefixT_bound : forall m ts e r, prefixT m ts = Ok (e, r) -> (List.length r < List.length ts)%nat.
  Proof.
    intros m ts e r H. unfold prefixT in H. destruct ts as [|t rest]; [eapply HP; eauto|].
    destruct (tok_is_not t && (m <=? c_not_max c)); [|eapply HP; eauto].
    apply bind_ok in H. destruct H as [[e0 r0] [H1 H2]]. simpl in H2. inversion H2; subst.
    apply pe_bound in H1. simpl. lia.
  Qed.

  Lemma pe_eq : forall m ts, pe m ts = '(lhs, r0) <- prefixT m ts ;; lp (c_ni_l c) (c_ni_r c) m lhs r0.
  Proof.
    intros m ts. unfold pe at 1, parse_expr_top. rewrite parse_expr_S.
    assert (E : prefix (List.length ts) m ts = prefixT m ts).
    { unfold prefix, prefixT. destruct ts as [|t rest]; auto. }
    rewrite E. destruct (prefixT m ts) as [[e r]| | |] eqn:E1; cbn [bind]; auto.
    apply prefixT_bound in E1. apply lp_fuel. lia.
  Qed.

  Lemma lp_eq : forall nl nr m lhs ts, lp nl nr m lhs ts = loop_bodyT nl nr m lhs ts.
  Proof.
    intros. unfold lp. rewrite infix_loop_S. unfold loop_body, loop_bodyT.
    destruct ts as [|t rest]; auto.
    destruct (tok_is_not t).
    - destruct (nl <? m); auto. destruct rest as [|t2 rest']; auto. destruct (tok_is_in t2); auto.
      rewrite pe_fuel by (simpl; lia).
      destruct (pe nr rest') as [[rhs r]| | |] eqn:E1; cbn [bind]; auto.
      destruct (reject_chained c r); auto. apply pe_bound in E1. apply lp_fuel. simpl. lia.
    - destruct (lookup (c_tbl c) t) as [[[op lb] rb]|]; auto. destruct (lb <? m); auto.
      rewrite pe_fuel by (simpl; lia).
      destruct (pe rb rest) as [[rhs r]| | |] eqn:E1; cbn [bind]; auto.
      destruct (is_cmp c op && reject_chained c r); auto. apply pe_bound in E1. apply lp_fuel. simpl. lia.
  Qed.

  (* where the loop stops *)
  Definition stopped (nl m : Z) (ts : toks) : Prop :=
    match ts with
    | [] => True
    | t :: _ => if tok_is_not t then nl <? m = true
                else match lookup (c_tbl c) t with None => True | Some (_, lb, _) => lb <? m = true end
    end.

  Lemma lp_stop : forall n nl nr m lhs ts e r, (List.length ts < n)%nat ->
    lp nl nr m lhs ts = Ok (e, r) -> stopped nl m r.
  Proof.
    induction n as [|k IH]; intros nl nr m lhs ts e r Hlen H; [lia|].
    rewrite lp_eq in H. unfold loop_bodyT in H.
    destruct ts as [|t rest]; [inversion H; subst; exact I|]. simpl in Hlen.
    destruct (tok_is_not t) eqn:Et.
    - destruct (nl <? m) eqn:El; [inversion H; subst; simpl; rewrite Et; auto|].
      destruct rest as [|t2 rest']; [discriminate|]. destruct (tok_is_in t2); [|discriminate].
      apply bind_ok in H. destruct H as [[rhs r1] [H1 H2]]. simpl in H2.
      destruct (reject_chained c r1); [discriminate|].
      apply pe_bound in H1. simpl in Hlen. eapply IH; [|exact H2]. lia.
    - destruct (lookup (c_tbl c) t) as [[[op lb] rb]|] eqn:El; [|inversion H; subst; simpl; rewrite Et, El; auto].
      destruct (lb <? m) eqn:Eb; [inversion H; subst; simpl; rewrite Et, El; auto|].
      apply bind_ok in H. destruct H as [[rhs r1] [H1 H2]]. simpl in H2.
      destruct (is_cmp c op && reject_chained c r1); [discriminate|].
      apply pe_bound in H1. eapply IH; [|exact H2]. lia.
  Qed.

  Lemma pe_stop : forall m ts e r, pe m ts = Ok (e, r) -> stopped (c_ni_l c) m r.
  Proof.
    intros m ts e r H. rewrite pe_eq in H. apply bind_ok in H. destruct H as [[e0 r0] [_ H2]]. simpl in H2.
    eapply lp_stop; [|exact H2]. apply Nat.lt_succ_diag_r.
  Qed.

  (* taking the tighter operators first and then continuing is the same as one pass *)
  Lemma lp_split : forall n nl nr m m' lhs ts, (List.length ts < n)%nat -> m <= m' ->
    lp nl nr m lhs ts = '(x, r) <- lp nl nr m' lhs ts ;; lp nl nr m x r.
  Proof.
    induction n as [|k IH]; intros nl nr m m' lhs ts Hlen Hm; [lia|].
    rewrite (lp_eq nl nr m' lhs ts). unfold loop_bodyT.
    destruct ts as [|t rest]; [simpl; reflexivity|]. simpl in Hlen.
    destruct (tok_is_not t) eqn:Et.
    - destruct (nl <? m') eqn:El'; [simpl; reflexivity|].
      rewrite (lp_eq nl nr m lhs (t :: rest)). unfold loop_bodyT. rewrite Et.
      assert (El : nl <? m = false) by (apply Z.ltb_ge; apply Z.ltb_ge in El'; lia). rewrite El.
      destruct rest as [|t2 rest']; [reflexivity|]. destruct (tok_is_in t2); [|reflexivity].
      destruct (pe nr rest') as [[rhs r]| | |] eqn:E1; cbn [bind]; auto.
      destruct (reject_chained c r); [reflexivity|].
      apply pe_bound in E1. simpl in Hlen. apply IH; lia.
    - destruct (lookup (c_tbl c) t) as [[[op lb] rb]|] eqn:Elk; [|simpl; reflexivity].
      destruct (lb <? m') eqn:Eb'; [simpl; reflexivity|].
      rewrite (lp_eq nl nr m lhs (t :: rest)). unfold loop_bodyT. rewrite Et, Elk.
      assert (Eb : lb <? m = false) by (apply Z.ltb_ge; apply Z.ltb_ge in Eb'; lia). rewrite Eb.
      destruct (pe rb rest) as [[rhs r]| | |] eqn:E1; cbn [bind]; auto.
      destruct (is_cmp c op && reject_chained c r); [reflexivity|].
      apply pe_bound in E1. apply IH; lia.
  Qed.
End Fuel.

(* ---------------------------------------------------------------------------------------------- *)
(* Part 2b: the same for the stratified loops *)

Section StratFuel.
  Variable next : toks -> pres.
  Hypothesis Hn : consuming next.
  Variable ops : token -> option binop.

  Lemma lloop_fuel : forall n lhs ts, (List.length ts < n)%nat ->
    (forall n', (List.length ts < n')%nat -> lloop n' ops next lhs ts = lloop n ops next lhs ts) /\
    (forall e r, lloop n ops next lhs ts = Ok (e, r) -> (List.length r <= List.length ts)%nat).
  Proof.
    induction n as [|k IH]; intros lhs ts Hlen; [lia|]. split.
    - intros n' Hn'. destruct n' as [|k']; [lia|]. simpl.
      destruct ts as [|t rest]; auto. destruct (ops t); auto.
      destruct (next rest) as [[rhs r]| | |] eqn:E1; cbn [bind]; auto.
      apply Hn in E1. simpl in Hlen, Hn'. destruct (IH (EOp lhs b rhs) r ltac:(lia)) as [E _]. apply E. lia.
    - intros e r H. simpl in H. destruct ts as [|t rest]; [inversion H; subst; simpl; lia|].
      destruct (ops t); [|inversion H; subst; simpl; lia].
      apply bind_ok in H. destruct H as [[rhs r1] [H1 H2]]. cbn beta iota in H2.
      apply Hn in H1. simpl in Hlen. destruct (IH (EOp lhs b rhs) r1 ltac:(lia)) as [_ B]. apply B in H2. simpl. lia.
  Qed.

  Lemma lloop_S : forall n lhs ts,
    lloop (S n) ops next lhs ts =
    match ts with
    | t :: rest => match ops t with
                   | Some op => '(rhs, r) <- next rest ;; lloop n ops next (EOp lhs op rhs) r
                   | None => Ok (lhs, ts)
                   end
    | [] => Ok (lhs, ts)
    end.
  Proof. reflexivity. Qed.

  Definition ll (lhs : expr) (ts : toks) : pres := lloop (S (List.length ts)) ops next lhs ts.
  Arguments ll : simpl never.

  Lemma ll_eq : forall lhs ts,
    ll lhs ts = match ts with
                | t :: rest => match ops t with
                               | Some op => '(rhs, r) <- next rest ;; ll (EOp lhs op rhs) r
                               | None => Ok (lhs, ts)
                               end
                | [] => Ok (lhs, ts)
                end.
  Proof.
    intros lhs ts. unfold ll. rewrite lloop_S. destruct ts as [|t rest]; [reflexivity|].
    destruct (ops t); auto.
    destruct (next rest) as [[rhs r]| | |] eqn:E1; cbn [bind]; auto.
    apply Hn in E1. destruct (lloop_fuel (List.length (t :: rest)) (EOp lhs b rhs) r ltac:(simpl; lia)) as [E _].
    symmetry. apply E. lia.
  Qed.

  Lemma ll_bound : forall lhs ts e r, ll lhs ts = Ok (e, r) -> (List.length r <= List.length ts)%nat.
  Proof.
    intros lhs ts e r H. unfold ll in H.
    destruct (lloop_fuel (S (List.length ts)) lhs ts ltac:(lia)) as [_ B]. eapply B; eauto.
  Qed.

  Lemma left_level_eq : forall ts, left_level ops next ts = '(x, r) <- next ts ;; ll x r.
  Proof. reflexivity. Qed.

  Lemma left_level_consuming : consuming (left_level ops next).
  Proof.
    intros ts e r H. rewrite left_level_eq in H. apply bind_ok in H. destruct H as [[x r1] [H1 H2]].
    cbn beta iota in H2. apply Hn in H1. apply ll_bound in H2. lia.
  Qed.
End StratFuel.

Section NotFuel.
  Variable P : toks -> pres.
  Hypothesis HP : consuming P.

  Lemma g_term_consuming : consuming (g_term P). Proof. apply left_level_consuming; auto. Qed.
  Lemma g_arith_consuming : consuming (g_arith P). Proof. apply left_level_consuming, g_term_consuming. Qed.
  Lemma g_shift_consuming : consuming (g_shift P). Proof. apply left_level_consuming, g_arith_consuming. Qed.
  Lemma g_bitand_consuming : consuming (g_bitand P). Proof. apply left_level_consuming, g_shift_consuming. Qed.
  Lemma g_bitxor_consuming : consuming (g_bitxor P). Proof. apply left_level_consuming, g_bitand_consuming. Qed.
  Lemma g_bitor_consuming : consuming (g_bitor P). Proof. apply left_level_consuming, g_bitxor_consuming. Qed.

  Lemma g_cmp_tail_bound : forall x ts e r, g_cmp_tail P x ts = Ok (e, r) -> (List.length r <= List.length ts)%nat.
  Proof.
    intros x ts e r H. unfold g_cmp_tail in H.
    destruct ts as [|t rest]; [inversion H; subst; simpl; lia|].
    destruct (tok_is_not t).
    - destruct rest as [|t2 rest']; [discriminate|]. destruct (tok_is_in t2); [|discriminate].
      apply bind_ok in H. destruct H as [[y r1] [H1 H2]]. cbn beta iota in H2.
      destruct (cmp_start r1); [discriminate|]. inversion H2; subst.
      apply g_bitor_consuming in H1. simpl. lia.
    - destruct (cmp_ops t); [|inversion H; subst; simpl; lia].
      apply bind_ok in H. destruct H as [[y r1] [H1 H2]]. cbn beta iota in H2.
      destruct (cmp_start r1); [discriminate|]. inversion H2; subst.
      apply g_bitor_consuming in H1. simpl. lia.
  Qed.

  Lemma g_comparison_consuming : consuming (g_comparison P).
  Proof.
    intros ts e r H. unfold g_comparison in H. apply bind_ok in H. destruct H as [[x r1] [H1 H2]].
    cbn beta iota in H2. apply g_bitor_consuming in H1. apply g_cmp_tail_bound in H2. lia.
  Qed.

  Definition not_body (ts : toks) : pres :=
    match ts with
    | t :: rest => if tok_is_not t then '(e, r) <- g_not_test P rest ;; Ok (ENot e, r) else g_comparison P ts
    | [] => g_comparison P ts
    end.

  Lemma g_not_fuel : forall n ts, (List.length ts < n)%nat -> g_not_loop P n ts = g_not_test P ts.
  Proof.
    induction n as [|k IH]; intros ts Hlen; [lia|].
    unfold g_not_test. cbn [g_not_loop]. destruct ts as [|t rest]; auto.
    destruct (tok_is_not t); auto. simpl in Hlen.
    rewrite (IH rest) by lia. reflexivity.
  Qed.

  Lemma g_not_eq : forall ts, g_not_test P ts = not_body ts.
  Proof.
    intros ts. unfold g_not_test at 1, not_body. cbn [g_not_loop]. destruct ts as [|t rest]; auto.
  Qed.

  Lemma g_not_consuming : consuming (g_not_test P).
  Proof.
    intros ts. remember (List.length ts) as n eqn:En. revert ts En.
    induction n as [n IH] using lt_wf_ind. intros ts En e r H. rewrite g_not_eq in H. unfold not_body in H.
    destruct ts as [|t rest]; [apply g_comparison_consuming in H; lia|].
    destruct (tok_is_not t); [|apply g_comparison_consuming in H; lia].
    apply bind_ok in H. destruct H as [[e0 r0] [H1 H2]]. cbn beta iota in H2. inversion H2; subst.
    eapply (IH (List.length rest)) in H1; [|simpl; lia|reflexivity]. simpl. lia.
  Qed.
  Lemma g_and_consuming : consuming (g_and_test P). Proof. apply left_level_consuming, g_not_consuming. Qed.
End NotFuel.

(* ---------------------------------------------------------------------------------------------- *)
(* Part 3: Pratt at a binding power entering level i = the stratified nonterminal of level i *)

Lemma kind_in : forall t, List.In (kind t) all_kinds.
Proof. destruct t; simpl; tauto. Qed.
Lemma ref_op_kind : forall t, ref_op (kind t) = ref_op t.
Proof. destruct t; reflexivity. Qed.
Lemma lookup_kind : forall tbl t, lookup tbl (kind t) = lookup tbl t.
Proof.
  assert (KK : forall t, kind (kind t) = kind t) by (destruct t; reflexivity).
  induction tbl as [|[k v] r IH]; intros t; simpl; auto. rewrite KK, IH. reflexivity.
Qed.
Lemma binop_eqb_eq : forall a b, binop_eqb a b = true -> a = b.
Proof. destruct a, b; simpl; intros; congruence. Qed.
Lemma all_binops_in : forall o, List.In o all_binops.
Proof. destruct o; simpl; tauto. Qed.
Lemma tok_is_not_eq : forall t, tok_is_not t = true -> t = TNot.
Proof. destruct t; simpl; congruence. Qed.
Lemma lookup_in : forall tbl t v, lookup tbl t = Some v -> List.In v (map snd tbl).
Proof.
  induction tbl as [|[k v0] r IH]; intros t v H; simpl in *; [discriminate|].
  destruct (token_eqb k (kind t)); [inversion H; auto|eauto].
Qed.

Section Main.
  Variable c : cfg.
  Variable P : toks -> pres.
  Hypothesis HP : consuming P.
  Hypothesis Hok : table_ok c = true.

  Local Notation pe := (pe c P) (only parsing).
  Local Notation lp := (lp c P) (only parsing).

  (* the facts packed in table_ok *)
  Lemma T_all : 
    (forall t, option_map (fun x => fst (fst x)) (lookup (c_tbl c) t) = ref_op t) /\
    (forall o, is_cmp c o = ref_is_cmp o) /\
    (forall op l r, List.In (op, l, r) (entries c) -> entry_ok c r (S (ref_level op)) = true) /\
    c_ni_l c = c_nic_l c /\ c_ni_r c = c_nic_r c /\
    entry_ok c (c_test c) 0 = true /\ entry_ok c (c_ortest c) 0 = true /\ entry_ok c (c_arg c) 0 = true /\
    entry_ok c (c_not_rbp c) 2 = true /\ entry_ok c (c_bitor c) 4 = true.
  Proof.
    unfold table_ok in Hok. repeat rewrite andb_true_iff in Hok.
    destruct Hok as [[[[[[[[[[[H1 H2] H3] H4] H5] H6] H7] H8] H9] H10] _] _].
    rewrite forallb_forall in H1, H2, H3.
    repeat split; auto.
    - intros t. specialize (H1 (kind t) (kind_in t)). rewrite lookup_kind, ref_op_kind in H1.
      destruct (option_map _ (lookup (c_tbl c) t)), (ref_op t); simpl in H1; try discriminate; auto.
      apply binop_eqb_eq in H1. congruence.
    - intros o. specialize (H2 o (all_binops_in o)). apply eqb_prop in H2. exact H2.
    - intros op l r Hin. exact (H3 (op, l, r) Hin).
    - apply Z.eqb_eq; auto.
    - apply Z.eqb_eq; auto.
  Qed.

  Lemma T_lookup : forall t, option_map (fun x => fst (fst x)) (lookup (c_tbl c) t) = ref_op t.
  Proof. apply T_all. Qed.
  Lemma T_cmp : forall o, is_cmp c o = ref_is_cmp o.
  Proof. apply T_all. Qed.
  Lemma T_rhs : forall op l r, List.In (op, l, r) (entries c) -> entry_ok c r (S (ref_level op)) = true.
  Proof. apply T_all. Qed.

  Lemma lookup_entries : forall t op l r, lookup (c_tbl c) t = Some (op, l, r) -> List.In (op, l, r) (entries c).
  Proof. intros. unfold entries. right. right. eapply lookup_in; eauto. Qed.
  Lemma ni_entries : List.In (NotIn, c_ni_l c, c_ni_r c) (entries c).
  Proof. unfold entries. left. reflexivity. Qed.

  (* band facts *)
  Lemma band_ge : forall m i op l r, entry_ok c m i = true -> List.In (op, l, r) (entries c) ->
    (i <= ref_level op)%nat -> m <= l.
  Proof.
    intros m i op l r H Hin Hle. unfold entry_ok in H. apply andb_true_iff in H. destruct H as [H _].
    unfold band_ok in H. rewrite forallb_forall in H. specialize (H _ Hin). cbn beta iota in H.
    apply Nat.leb_le in Hle. rewrite Hle in H. apply Z.leb_le. exact H.
  Qed.
  Lemma band_lt : forall m i op l r, entry_ok c m i = true -> List.In (op, l, r) (entries c) ->
    (ref_level op < i)%nat -> l < m.
  Proof.
    intros m i op l r H Hin Hlt. unfold entry_ok in H. apply andb_true_iff in H. destruct H as [H _].
    unfold band_ok in H. rewrite forallb_forall in H. specialize (H _ Hin). cbn beta iota in H.
    apply Nat.leb_gt in Hlt. rewrite Hlt in H. apply Z.ltb_lt. exact H.
  Qed.
  Lemma notflag : forall m i, entry_ok c m i = true -> (m <=? c_not_max c) = Nat.leb i 2.
  Proof.
    intros m i H. unfold entry_ok in H. apply andb_true_iff in H. destruct H as [_ H].
    unfold notflag_ok in H. apply eqb_prop in H. exact H.
  Qed.

  Definition stopped_lvl (j : nat) (ts : toks) : Prop :=
    match ts with
    | [] => True
    | t :: _ => match ref_op t with Some op => (ref_level op < j)%nat | None => True end
    end.

  Lemma stop_lvl : forall m j r, entry_ok c m j = true -> stopped c (c_ni_l c) m r -> stopped_lvl j r.
  Proof.
    intros m j r He Hs. destruct r as [|t rest]; simpl; auto. simpl in Hs.
    destruct (tok_is_not t) eqn:Et.
    - apply tok_is_not_eq in Et. subst t. simpl.
      destruct (Nat.le_gt_cases j 3) as [Hle|Hgt]; [|lia].
      pose proof (band_ge m j NotIn _ _ He ni_entries Hle). apply Z.ltb_lt in Hs. lia.
    - pose proof (T_lookup t) as HT.
      destruct (lookup (c_tbl c) t) as [[[op l] r]|] eqn:El; simpl in HT; rewrite <- HT; auto.
      destruct (Nat.le_gt_cases j (ref_level op)) as [Hle|Hgt]; [|lia].
      pose proof (band_ge m j op l r He (lookup_entries _ _ _ _ El) Hle). apply Z.ltb_lt in Hs. lia.
  Qed.

  Lemma pe_stop_lvl : forall m j ts e r, entry_ok c m j = true -> pe m ts = Ok (e, r) -> stopped_lvl j r.
  Proof. intros. eapply stop_lvl; eauto. eapply pe_stop; eauto. Qed.

  Lemma reject_chained_eq : forall r, reject_chained c r = cmp_start r.
  Proof.
    intros [|t rest]; simpl; auto. pose proof (T_lookup t) as HT.
    destruct (tok_is_not t) eqn:Et.
    - apply tok_is_not_eq in Et. subst t. simpl in HT.
      destruct (lookup (c_tbl c) TNot) as [[[op l] r]|]; simpl in HT; [|discriminate].
      inversion HT; subst. rewrite T_cmp. reflexivity.
    - simpl. destruct (lookup (c_tbl c) t) as [[[op l] r]|]; simpl in HT.
      + rewrite T_cmp. revert HT. destruct t; simpl; try discriminate; intros HT; inversion HT; subst; reflexivity.
      + revert HT. destruct t; simpl; try discriminate; auto.
  Qed.

  (* level 10: a binding power above every operator parses one operand *)
  Lemma level10 : forall m ts, entry_ok c m 10 = true -> pe m ts = P ts.
  Proof.
    intros m ts He. rewrite (pe_eq c P HP). unfold prefixT.
    assert (Hn : (m <=? c_not_max c) = false) by (rewrite (notflag m 10 He); reflexivity).
    assert (E : match ts with
                | t :: rest => if tok_is_not t && (m <=? c_not_max c)
                               then '(e, r) <- pe (c_not_rbp c) rest ;; Ok (ENot e, r) else P ts
                | [] => P ts end = P ts).
    { destruct ts; auto. rewrite Hn, andb_false_r. reflexivity. }
    rewrite E. destruct (P ts) as [[e r]| | |]; cbn [bind]; auto.
    rewrite (lp_eq c P HP). unfold loop_bodyT. destruct r as [|t rest]; auto.
    destruct (tok_is_not t).
    - assert (c_ni_l c <? m = true) as ->; auto.
      apply Z.ltb_lt. eapply band_lt; [exact He|exact ni_entries|simpl; lia].
    - destruct (lookup (c_tbl c) t) as [[[op l] r]|] eqn:El; auto.
      assert (l <? m = true) as ->; auto.
      apply Z.ltb_lt. eapply band_lt; [exact He|eapply lookup_entries; eauto|destruct op; simpl; lia].
  Qed.

  Definition gen_ops (i : nat) (t : token) : option binop :=
    match ref_op1 t with Some op => if Nat.eqb (ref_level op) i then Some op else None | None => None end.

  Lemma ref_op_not1 : forall t, tok_is_not t = false -> ref_op t = ref_op1 t.
  Proof. destruct t; simpl; intros; try reflexivity; discriminate. Qed.

  Section Left.
    Variable i : nat.
    Variable ops : token -> option binop.
    Variable next : toks -> pres.
    Hypothesis Hnext : consuming next.
    Hypothesis Hops : forall t, ops t = gen_ops i t.
    Hypothesis Hi2 : i <> 2%nat.
    Hypothesis Hi3 : i <> 3%nat.
    Variable ts : toks.
    Hypothesis Hshort : forall ts' m', (List.length ts' < List.length ts)%nat -> entry_ok c m' (S i) = true ->
                                       pe m' ts' = next ts'.
    Variable m : Z.
    Hypothesis Hm : entry_ok c m i = true.

    Lemma band_loop : forall n x r, (List.length r < n)%nat -> (List.length r <= List.length ts)%nat ->
      stopped_lvl (S i) r -> lp (c_ni_l c) (c_ni_r c) m x r = ll next ops x r.
    Proof.
      induction n as [|k IH]; intros x r Hn Hle Hs; [lia|].
      rewrite (lp_eq c P HP), (ll_eq next Hnext ops). unfold loop_bodyT.
      destruct r as [|t rest]; auto. simpl in Hs, Hn, Hle.
      destruct (tok_is_not t) eqn:Et.
      - apply tok_is_not_eq in Et. subst t. simpl in Hs. rewrite Hops. unfold gen_ops. simpl.
        assert (c_ni_l c <? m = true) as ->; auto.
        apply Z.ltb_lt. eapply band_lt; [exact Hm|exact ni_entries|simpl; lia].
      - pose proof (T_lookup t) as HT. pose proof (ref_op_not1 t Et) as H1.
        rewrite Hops. unfold gen_ops. rewrite <- H1, <- HT. rewrite <- HT in Hs.
        destruct (lookup (c_tbl c) t) as [[[op l] rb]|] eqn:El; simpl in Hs |- *; auto.
        destruct (Nat.eqb (ref_level op) i) eqn:Ei.
        + apply Nat.eqb_eq in Ei.
          assert (l <? m = false) as ->.
          { apply Z.ltb_ge. eapply band_ge; [exact Hm|eapply lookup_entries; eauto|lia]. }
          assert (Hrb : entry_ok c rb (S i) = true).
          { rewrite <- Ei. eapply T_rhs. eapply lookup_entries; eauto. }
          pose proof (Hshort rest rb ltac:(lia) Hrb) as Hpe. rewrite Hpe.
          destruct (next rest) as [[rhs r1]| | |] eqn:En; cbn [bind]; auto.
          assert (is_cmp c op = false) as ->.
          { rewrite T_cmp. unfold ref_is_cmp. apply Nat.eqb_neq. lia. }
          cbn [andb]. apply IH.
          * apply Hnext in En. lia.
          * apply Hnext in En. lia.
          * eapply pe_stop_lvl; [exact Hrb|]. exact Hpe.
        + apply Nat.eqb_neq in Ei.
          assert (l <? m = true) as ->; auto.
          apply Z.ltb_lt. eapply band_lt; [exact Hm|eapply lookup_entries; eauto|lia].
    Qed.

    Hypothesis Hex : exists op l r, List.In (op, l, r) (entries c) /\ ref_level op = i.
    Hypothesis Hsame : forall m', entry_ok c m' (S i) = true -> pe m' ts = next ts.

    Lemma left_step : pe m ts = left_level ops next ts.
    Proof.
      destruct Hex as (op0 & l0 & r0 & Hin0 & Hl0).
      assert (He' : entry_ok c r0 (S i) = true) by (rewrite <- Hl0; eapply T_rhs; eauto).
      assert (Hmm : m <= r0).
      { pose proof (band_ge m i op0 l0 r0 Hm Hin0 ltac:(lia)).
        pose proof (band_lt r0 (S i) op0 l0 r0 He' Hin0 ltac:(lia)). lia. }
      assert (Hpre : prefixT c P m ts = prefixT c P r0 ts).
      { unfold prefixT. destruct ts as [|t rest]; auto.
        rewrite (notflag m i Hm), (notflag r0 (S i) He').
        assert (Nat.leb i 2 = Nat.leb (S i) 2) as ->; auto.
        destruct i as [|[|[|k]]]; simpl; auto; lia. }
      rewrite left_level_eq. rewrite <- (Hsame r0 He').
      rewrite (pe_eq c P HP m ts), (pe_eq c P HP r0 ts). rewrite Hpre.
      destruct (prefixT c P r0 ts) as [[lhs r1]| | |] eqn:Ep; cbn [bind]; auto.
      rewrite (lp_split c P HP (S (List.length r1)) (c_ni_l c) (c_ni_r c) m r0 lhs r1) by lia.
      destruct (lp (c_ni_l c) (c_ni_r c) r0 lhs r1) as [[x r]| | |] eqn:El; cbn [bind]; auto.
      apply (band_loop (S (List.length r))); [lia| |].
      - apply (prefixT_bound c P HP) in Ep. apply (lp_bound c P HP) in El. lia.
      - eapply stop_lvl; [exact He'|]. eapply (lp_stop c P HP); [|exact El]. apply Nat.lt_succ_diag_r.
    Qed.
  End Left.

  Lemma lp_stops_gen : forall j m x r, entry_ok c m j = true -> stopped_lvl j r ->
    lp (c_ni_l c) (c_ni_r c) m x r = Ok (x, r).
  Proof.
    intros j m x r He Hs. rewrite (lp_eq c P HP). unfold loop_bodyT. destruct r as [|t rest]; auto.
    simpl in Hs. destruct (tok_is_not t) eqn:Et.
    - apply tok_is_not_eq in Et. subst t. simpl in Hs.
      assert (c_ni_l c <? m = true) as ->; auto.
      apply Z.ltb_lt. eapply band_lt; [exact He|exact ni_entries|simpl; lia].
    - pose proof (T_lookup t) as HT. rewrite <- HT in Hs.
      destruct (lookup (c_tbl c) t) as [[[op l] rb]|] eqn:El; simpl in Hs; auto.
      assert (l <? m = true) as ->; auto.
      apply Z.ltb_lt. eapply band_lt; [exact He|eapply lookup_entries; eauto|lia].
  Qed.

  Lemma cmp_level3 : forall t op, ref_op1 t = Some op -> ref_level op = 3%nat -> cmp_ops t = Some op.
  Proof. destruct t; simpl; intros op H; inversion H; subst; simpl; intros; try discriminate; reflexivity. Qed.
  Lemma cmp_other : forall t op, ref_op1 t = Some op -> ref_level op <> 3%nat -> cmp_ops t = None.
  Proof. destruct t; simpl; intros op H; inversion H; subst; simpl; intros; try reflexivity; congruence. Qed.
  Lemma cmp_none : forall t, ref_op1 t = None -> cmp_ops t = None.
  Proof. destruct t; simpl; intros; try reflexivity; discriminate. Qed.
  Lemma no_level2 : forall op, ref_level op <> 2%nat.
  Proof. destruct op; simpl; lia. Qed.

  Lemma not_cmp_start : forall r, cmp_start r = false -> stopped_lvl 4 r -> stopped_lvl 2 r.
  Proof.
    intros [|t rest] Hc Hs; simpl in *; auto.
    apply orb_false_iff in Hc. destruct Hc as [Et Hc]. rewrite (ref_op_not1 t Et) in *.
    destruct (ref_op1 t) as [op|] eqn:E; auto.
    destruct (Nat.eq_dec (ref_level op) 3) as [E3|E3].
    - rewrite (cmp_level3 t op E E3) in Hc. discriminate.
    - pose proof (no_level2 op). lia.
  Qed.

  Section NotLevel.
    Variable ts : toks.
    Hypothesis Hshort2 : forall ts' m', (List.length ts' < List.length ts)%nat -> entry_ok c m' 2 = true ->
                                        pe m' ts' = g_not_test P ts'.
    Hypothesis Hshort4 : forall ts' m', (List.length ts' < List.length ts)%nat -> entry_ok c m' 4 = true ->
                                        pe m' ts' = g_bitor P ts'.
    Hypothesis Hsame4 : forall m', entry_ok c m' 4 = true -> pe m' ts = g_bitor P ts.
    Variable m : Z.
    Hypothesis Hm : entry_ok c m 2 = true.

    Lemma cmp_tail_eq : forall x r, (List.length r < List.length ts)%nat -> stopped_lvl 4 r ->
      lp (c_ni_l c) (c_ni_r c) m x r = g_cmp_tail P x r.
    Proof.
      intros x r Hlen Hs. rewrite (lp_eq c P HP). unfold loop_bodyT, g_cmp_tail.
      destruct r as [|t rest]; auto. simpl in Hs, Hlen.
      destruct (tok_is_not t) eqn:Et.
      - assert (c_ni_l c <? m = false) as ->.
        { apply Z.ltb_ge. eapply band_ge; [exact Hm|exact ni_entries|simpl; lia]. }
        destruct rest as [|t2 rest']; auto. destruct (tok_is_in t2); auto. simpl in Hlen.
        assert (Hr : entry_ok c (c_ni_r c) 4 = true) by (apply (T_rhs NotIn (c_ni_l c) (c_ni_r c) ni_entries)).
        pose proof (Hshort4 rest' (c_ni_r c) ltac:(lia) Hr) as Hpe. rewrite Hpe.
        destruct (g_bitor P rest') as [[y r2]| | |] eqn:En; cbn [bind]; auto.
        rewrite reject_chained_eq. destruct (cmp_start r2) eqn:Ec; auto.
        eapply lp_stops_gen; [exact Hm|]. apply not_cmp_start; auto. eapply pe_stop_lvl; [exact Hr|exact Hpe].
      - pose proof (T_lookup t) as HT. pose proof (ref_op_not1 t Et) as H1. rewrite H1 in *.
        destruct (lookup (c_tbl c) t) as [[[op l] rb]|] eqn:El; simpl in HT.
        + rewrite <- HT in Hs.
          destruct (Nat.eq_dec (ref_level op) 3) as [E3|E3].
          * rewrite (cmp_level3 t op (eq_sym HT) E3).
            assert (l <? m = false) as ->.
            { apply Z.ltb_ge. eapply band_ge; [exact Hm|eapply lookup_entries; eauto|lia]. }
            assert (Hr : entry_ok c rb 4 = true).
            { change 4%nat with (S 3). rewrite <- E3. eapply T_rhs. eapply lookup_entries; eauto. }
            pose proof (Hshort4 rest rb ltac:(lia) Hr) as Hpe. rewrite Hpe.
            destruct (g_bitor P rest) as [[y r2]| | |] eqn:En; cbn [bind]; auto.
            assert (is_cmp c op = true) as ->.
            { rewrite T_cmp. unfold ref_is_cmp. rewrite E3. reflexivity. }
            cbn [andb]. rewrite reject_chained_eq. destruct (cmp_start r2) eqn:Ec; auto.
            eapply lp_stops_gen; [exact Hm|]. apply not_cmp_start; auto. eapply pe_stop_lvl; [exact Hr|exact Hpe].
          * rewrite (cmp_other t op (eq_sym HT) E3).
            assert (l <? m = true) as ->; auto.
            apply Z.ltb_lt. eapply band_lt; [exact Hm|eapply lookup_entries; eauto|].
            pose proof (no_level2 op). lia.
        + rewrite (cmp_none t (eq_sym HT)). reflexivity.
    Qed.

    Lemma cmp_part : (match ts with t :: _ => tok_is_not t = false | [] => True end) -> pe m ts = g_comparison P ts.
    Proof.
      intros Hhd.
      assert (He4 : entry_ok c (c_bitor c) 4 = true) by apply T_all.
      set (m4 := c_bitor c) in *.
      assert (Hmm : m <= m4).
      { pose proof (band_ge m 2 NotIn _ _ Hm ni_entries ltac:(simpl; lia)).
        pose proof (band_lt m4 4 NotIn _ _ He4 ni_entries ltac:(simpl; lia)). lia. }
      assert (Hpre : forall mm, prefixT c P mm ts = P ts).
      { intros mm. unfold prefixT. destruct ts as [|t rest]; auto. rewrite Hhd. reflexivity. }
      unfold g_comparison. rewrite <- (Hsame4 m4 He4).
      rewrite (pe_eq c P HP m ts), (pe_eq c P HP m4 ts). rewrite !Hpre.
      destruct (P ts) as [[lhs r1]| | |] eqn:Ep; cbn [bind]; auto.
      rewrite (lp_split c P HP (S (List.length r1)) (c_ni_l c) (c_ni_r c) m m4 lhs r1) by lia.
      destruct (lp (c_ni_l c) (c_ni_r c) m4 lhs r1) as [[x r]| | |] eqn:El; cbn [bind]; auto.
      apply cmp_tail_eq.
      - apply HP in Ep. apply (lp_bound c P HP) in El. lia.
      - eapply stop_lvl; [exact He4|]. eapply (lp_stop c P HP); [|exact El]. apply Nat.lt_succ_diag_r.
    Qed.

    Lemma not_step : pe m ts = g_not_test P ts.
    Proof.
      destruct (match ts with t :: _ => tok_is_not t | [] => false end) eqn:Eh.
      2:{ rewrite g_not_eq. unfold not_body.
          assert (Hc : g_comparison P ts = match ts with
                                           | t :: rest => if tok_is_not t then '(e, r) <- g_not_test P rest ;; Ok (ENot e, r)
                                                          else g_comparison P ts
                                           | [] => g_comparison P ts end).
          { destruct ts as [|t rest]; auto. rewrite Eh. reflexivity. }
          rewrite <- Hc. apply cmp_part. destruct ts; [exact I|exact Eh]. }
      rewrite g_not_eq. unfold not_body.
      destruct ts as [|t rest]; [discriminate|]. rename Eh into Et.
      rewrite (pe_eq c P HP). unfold prefixT. rewrite Et, (notflag m 2 Hm). cbn [andb Nat.leb].
      assert (Hr : entry_ok c (c_not_rbp c) 2 = true) by apply T_all.
      pose proof (Hshort2 rest (c_not_rbp c) ltac:(simpl; lia) Hr) as Hpe. rewrite Hpe.
      destruct (g_not_test P rest) as [[e r]| | |] eqn:En; cbn [bind]; auto.
      eapply lp_stops_gen; [exact Hm|]. eapply pe_stop_lvl; [exact Hr|exact Hpe].
    Qed.
  End NotLevel.

  Lemma ex_entry : forall t op, ref_op t = Some op -> exists op' l r, List.In (op', l, r) (entries c) /\ ref_level op' = ref_level op.
  Proof.
    intros t op H. pose proof (T_lookup t) as HT. rewrite H in HT.
    destruct (lookup (c_tbl c) t) as [[[op' l] r]|] eqn:El; simpl in HT; [|discriminate].
    inversion HT; subst. exists op, l, r. split; auto. eapply lookup_entries; eauto.
  Qed.

  Definition G (i : nat) : toks -> pres :=
    match i with
    | 0 => g_or_test P | 1 => g_and_test P | 2 => g_not_test P | 4 => g_bitor P | 5 => g_bitxor P
    | 6 => g_bitand P | 7 => g_shift P | 8 => g_arith P | 9 => g_term P | _ => P
    end%nat.
  Definition valid_level (i : nat) : Prop := (i <= 10)%nat /\ i <> 3%nat.

  Theorem pratt_level : forall n ts, (List.length ts < n)%nat ->
    forall i m, valid_level i -> entry_ok c m i = true -> pe m ts = G i ts.
  Proof.
    induction n as [|k IH]; intros ts Hlen; [lia|].
    assert (SH : forall i, valid_level i -> forall ts' m', (List.length ts' < List.length ts)%nat ->
                 entry_ok c m' i = true -> pe m' ts' = G i ts').
    { intros i Hv ts' m' Hl He. apply IH; auto. lia. }
    assert (V : forall i, (i <= 10)%nat -> i <> 3%nat -> valid_level i) by (intros; split; auto).
    assert (A10 : forall m, entry_ok c m 10 = true -> pe m ts = P ts) by (intros; apply level10; auto).
    assert (A9 : forall m, entry_ok c m 9 = true -> pe m ts = g_term P ts).
    { intros m Hm. apply (left_step 9 term_ops P HP); auto; try lia.
      - destruct t; reflexivity.
      - apply (SH 10%nat); apply V; lia.
      - apply (ex_entry TStar Multiply); reflexivity. }
    assert (A8 : forall m, entry_ok c m 8 = true -> pe m ts = g_arith P ts).
    { intros m Hm. apply (left_step 8 arith_ops (g_term P) (g_term_consuming P HP)); auto; try lia.
      - destruct t; reflexivity.
      - apply (SH 9%nat); apply V; lia.
      - apply (ex_entry TPlus Add); reflexivity. }
    assert (A7 : forall m, entry_ok c m 7 = true -> pe m ts = g_shift P ts).
    { intros m Hm. apply (left_step 7 shift_ops (g_arith P) (g_arith_consuming P HP)); auto; try lia.
      - destruct t; reflexivity.
      - apply (SH 8%nat); apply V; lia.
      - apply (ex_entry TLessLess LeftShift); reflexivity. }
    assert (A6 : forall m, entry_ok c m 6 = true -> pe m ts = g_bitand P ts).
    { intros m Hm. apply (left_step 6 bitand_ops (g_shift P) (g_shift_consuming P HP)); auto; try lia.
      - destruct t; reflexivity.
      - apply (SH 7%nat); apply V; lia.
      - apply (ex_entry TAmpersand BitAnd); reflexivity. }
    assert (A5 : forall m, entry_ok c m 5 = true -> pe m ts = g_bitxor P ts).
    { intros m Hm. apply (left_step 5 bitxor_ops (g_bitand P) (g_bitand_consuming P HP)); auto; try lia.
      - destruct t; reflexivity.
      - apply (SH 6%nat); apply V; lia.
      - apply (ex_entry TCaret BitXor); reflexivity. }
    assert (A4 : forall m, entry_ok c m 4 = true -> pe m ts = g_bitor P ts).
    { intros m Hm. apply (left_step 4 bitor_ops (g_bitxor P) (g_bitxor_consuming P HP)); auto; try lia.
      - destruct t; reflexivity.
      - apply (SH 5%nat); apply V; lia.
      - apply (ex_entry TPipe BitOr); reflexivity. }
    assert (A2 : forall m, entry_ok c m 2 = true -> pe m ts = g_not_test P ts).
    { intros m Hm. apply not_step; auto.
      - apply (SH 2%nat); apply V; lia.
      - apply (SH 4%nat); apply V; lia. }
    assert (A1 : forall m, entry_ok c m 1 = true -> pe m ts = g_and_test P ts).
    { intros m Hm. apply (left_step 1 and_ops (g_not_test P) (g_not_consuming P HP)); auto; try lia.
      - destruct t; reflexivity.
      - apply (SH 2%nat); apply V; lia.
      - apply (ex_entry TAnd And); reflexivity. }
    assert (A0 : forall m, entry_ok c m 0 = true -> pe m ts = g_or_test P ts).
    { intros m Hm. apply (left_step 0 or_ops (g_and_test P) (g_and_consuming P HP)); auto; try lia.
      - destruct t; reflexivity.
      - apply (SH 1%nat); apply V; lia.
      - apply (ex_entry TOr Or); reflexivity. }
    intros i m [Hle Hne] He.
    do 11 (destruct i as [|i]; [first [exfalso; apply Hne; reflexivity|apply A0; exact He|apply A1; exact He|apply A2; exact He|apply A4; exact He|apply A5; exact He|apply A6; exact He|apply A7; exact He|apply A8; exact He|apply A9; exact He|apply A10; exact He]|]).
    lia.
  Qed.

  Corollary pratt_or_test : forall m ts, entry_ok c m 0 = true -> parse_expr_top c P m ts = g_or_test P ts.
  Proof. intros. apply (pratt_level (S (List.length ts)) ts ltac:(lia) 0%nat m); auto. split; lia. Qed.
End Main.

(* ---------------------------------------------------------------------------------------------- *)
(* Part 4: closed statements *)

Lemma parse_unary_consuming : forall c R, consuming (parse_unary c R).
Proof.
  intros c R ts e r H. unfold parse_unary, guard in H.
  destruct (unary_loop c R (S (List.length ts)) ts) as [[e0 r0]| | |]; try discriminate.
  destruct (Nat.ltb (List.length r0) (List.length ts)) eqn:E; [|discriminate].
  inversion H; subst. apply Nat.ltb_lt. exact E.
Qed.

(* the operator layer: every level, every consuming operand parser, every table with table_ok *)
Theorem pratt_eq_grammar_oplayer : forall c, table_ok c = true -> forall P, consuming P ->
  forall i m, valid_level i -> entry_ok c m i = true ->
  forall ts, parse_expr_top c P m ts = G P i ts.
Proof.
  intros c Hok P HP i m Hv He ts.
  exact (pratt_level c P HP Hok (S (List.length ts)) ts (Nat.lt_succ_diag_r _) i m Hv He).
Qed.

(* the entry points the parser actually uses, over the model's own parse_unary *)
Theorem pratt_entry_points : forall c, table_ok c = true -> forall R ts,
  let P := parse_unary c R in
  parse_expr_top c P (c_test c) ts = g_or_test P ts /\
  parse_expr_top c P (c_ortest c) ts = g_or_test P ts /\
  parse_expr_top c P (c_arg c) ts = g_or_test P ts /\
  parse_expr_top c P (c_not_rbp c) ts = g_not_test P ts /\
  parse_expr_top c P (c_bitor c) ts = g_bitor P ts.
Proof.
  intros c Hok R ts P.
  pose proof (parse_unary_consuming c R) as HP.
  destruct (T_all c Hok) as (_ & _ & _ & _ & _ & E1 & E2 & E3 & E4 & E5).
  repeat split.
  - apply (pratt_eq_grammar_oplayer c Hok P HP 0%nat); auto. split; lia.
  - apply (pratt_eq_grammar_oplayer c Hok P HP 0%nat); auto. split; lia.
  - apply (pratt_eq_grammar_oplayer c Hok P HP 0%nat); auto. split; lia.
  - apply (pratt_eq_grammar_oplayer c Hok P HP 2%nat); auto. split; lia.
  - apply (pratt_eq_grammar_oplayer c Hok P HP 4%nat); auto. split; lia.
Qed.

(* right operands: the operand of an operator of level i is parsed as the nonterminal of level i+1
   (left associativity; for comparisons: BitOr, and the explicit rejection makes them non-associative) *)
Theorem pratt_right_operand : forall c, table_ok c = true -> forall P, consuming P ->
  forall t op l r, lookup (c_tbl c) t = Some (op, l, r) ->
  forall ts, parse_expr_top c P r ts = G P (S (ref_level op)) ts.
Proof.
  intros c Hok P HP t op l r Hl ts.
  apply (pratt_eq_grammar_oplayer c Hok P HP); [destruct op; split; simpl; lia|].
  eapply T_rhs; eauto. eapply lookup_entries; eauto.
Qed.
