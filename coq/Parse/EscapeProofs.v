(* C06 - literal payloads survive print + re-lex: for every escape table with esc_table_ok (the table extracted from
   ast.rs fmt_string_literal satisfies it by computation), the lexer model reads the printed text of every string value
   back as that value; the same for the bytes printer. *)
From Coq Require Import NArith List Bool Lia Arith.
From SV Require Import Extracted.ParserC Parse.Escape Parse.EscapeCases.
Import ListNotations.
Open Scope N_scope.

(* ---- digits ---- *)

Lemma to_digit_bound : forall radix c d, to_digit radix c = Some d -> d < radix.
Proof.
  intros radix c d. unfold to_digit.
  destruct ((48 <=? c) && (c <=? 57)).
  { destruct (c - 48 <? radix) eqn:E; [|discriminate]. intros H; inversion H; subst. now apply N.ltb_lt. }
  destruct ((97 <=? c) && (c <=? 122)).
  { destruct (c - 87 <? radix) eqn:E; [|discriminate]. intros H; inversion H; subst. now apply N.ltb_lt. }
  destruct ((65 <=? c) && (c <=? 90)).
  { destruct (c - 55 <? radix) eqn:E; [|discriminate]. intros H; inversion H; subst. now apply N.ltb_lt. }
  discriminate.
Qed.

Lemma from_u32_small : forall v, v < 55296 -> from_u32 v = Some v.
Proof. intros v H. unfold from_u32. apply N.ltb_lt in H. now rewrite H. Qed.

(* \xHH reads exactly two hex digits, whatever follows *)
Lemma escape_code_hex2 : forall h1 h2 a d r, to_digit 16 h1 = Some a -> to_digit 16 h2 = Some d ->
  escape_code 16 2 2 (h1 :: h2 :: r) = Some (a * 16 + d, r).
Proof.
  intros h1 h2 a d r H1 H2. unfold escape_code. cbn [escape_num]. rewrite H1. cbn [escape_num]. rewrite H2.
  apply to_digit_bound in H1. apply to_digit_bound in H2.
  replace (0 * 16 + a) with a by lia.
  rewrite from_u32_small by lia. reflexivity.
Qed.

(* ---- escape: the letters that need no look-ahead ---- *)

Lemma lex_escape_simple : forall k r, simple_key k = true -> lex_escape (k :: r) = Some (simple_push k, r).
Proof.
  intros k r H. unfold simple_key in H. rewrite negb_true_iff in H.
  repeat (apply orb_false_iff in H; let H' := fresh "Hk" in destruct H as [H H']).
  unfold lex_escape, simple_push.
  destruct (k =? 110); [reflexivity|]. destruct (k =? 114); [reflexivity|]. destruct (k =? 116); [reflexivity|].
  destruct (k =? 97); [reflexivity|]. destruct (k =? 98); [reflexivity|]. destruct (k =? 102); [reflexivity|].
  destruct (k =? 118); [reflexivity|].
  rewrite H, Hk3, Hk2, Hk1, Hk0, Hk.
  destruct ((k =? 34) || (k =? 39) || (k =? 92)); reflexivity.
Qed.

Lemma is_single_eq : forall l c, is_single l c = true -> l = [c].
Proof.
  intros [|x [|y l]] c H; cbn in H; try discriminate. apply N.eqb_eq in H. now subst.
Qed.

(* ---- one arm of the table, read back by the string loop ---- *)

Lemma body_entry : forall c e, esc_entry_ok c e = true -> forall f r,
  lex_string_body (S f) (e ++ r) =
  match lex_string_body f r with Some (v, rest) => Some (c :: v, rest) | None => None end.
Proof.
  intros c e H f r. unfold esc_entry_ok in H.
  destruct e as [|b [|k [|h1 [|h2 [|x e]]]]]; try discriminate.
  - (* backslash + simple letter *)
    apply andb_true_iff in H. destruct H as [H Hs]. apply andb_true_iff in H. destruct H as [Hb Hk].
    apply N.eqb_eq in Hb. subst b. apply is_single_eq in Hs.
    cbn [app lex_string_body]. change (92 =? 34) with false. change (92 =? 10) with false. change (92 =? 13) with false.
    change (92 =? 92) with true. cbv iota.
    rewrite (lex_escape_simple k r Hk), Hs. reflexivity.
  - (* backslash x h1 h2: here k = x, h1 h2 the digits *)
    apply andb_true_iff in H. destruct H as [H Hv]. apply andb_true_iff in H. destruct H as [Hb Hx].
    apply N.eqb_eq in Hb. apply N.eqb_eq in Hx. subst b k.
    destruct (to_digit 16 h1) as [a|] eqn:H1; [|discriminate]. destruct (to_digit 16 h2) as [d|] eqn:H2; [|discriminate].
    apply N.eqb_eq in Hv.
    cbn [app lex_string_body]. change (92 =? 34) with false. change (92 =? 10) with false. change (92 =? 13) with false.
    change (92 =? 92) with true. cbv iota.
    assert (E : lex_escape (120 :: h1 :: h2 :: r) = Some ([c], r)).
    { unfold lex_escape. change (120 =? 110) with false. change (120 =? 114) with false. change (120 =? 116) with false.
      change (120 =? 97) with false. change (120 =? 98) with false. change (120 =? 102) with false.
      change (120 =? 118) with false. change (120 =? 10) with false. change (120 =? 13) with false.
      change (120 =? 120) with true. cbv iota.
      rewrite (escape_code_hex2 h1 h2 a d r H1 H2), Hv. reflexivity. }
    rewrite E. reflexivity.
Qed.

(* ---- a char without an arm ---- *)

Lemma has_arm_none : forall t c k, esc_lookup t c = None -> has_arm t k = true -> c <> k.
Proof. intros t c k Hn Ha E. subst. unfold has_arm in Ha. rewrite Hn in Ha. discriminate. Qed.

Lemma body_plain : forall c, c <> 34 -> c <> 92 -> c <> 10 -> c <> 13 -> forall f r,
  lex_string_body (S f) (c :: r) =
  match lex_string_body f r with Some (v, rest) => Some (c :: v, rest) | None => None end.
Proof.
  intros c H1 H2 H3 H4 f r. cbn [lex_string_body].
  apply N.eqb_neq in H1, H2, H3, H4. rewrite H1, H3, H4, H2. reflexivity.
Qed.

Lemma esc_lookup_in : forall t c e, esc_lookup t c = Some e -> In (c, e) t.
Proof.
  induction t as [|[k x] t IH]; intros c e H; [discriminate|]. cbn in H.
  destruct (k =? c) eqn:E.
  - apply N.eqb_eq in E. inversion H; subst. now left.
  - right. now apply IH.
Qed.

(* ---- the round trip of a string value ---- *)

Lemma table_ok_parts : forall t, esc_table_ok t = true ->
  has_arm t 34 = true /\ has_arm t 92 = true /\ has_arm t 10 = true /\ has_arm t 13 = true /\
  (forall c e, esc_lookup t c = Some e -> esc_entry_ok c e = true).
Proof.
  intros t H. unfold esc_table_ok in H. repeat (apply andb_true_iff in H; let H' := fresh "Ha" in destruct H as [H H']).
  repeat split; try assumption.
  intros c e Hl. apply esc_lookup_in in Hl. rewrite forallb_forall in Ha. exact (Ha (c, e) Hl).
Qed.

Lemma string_body_roundtrip : forall t, esc_table_ok t = true -> forall s rest f, (List.length s < f)%nat ->
  lex_string_body f (escape_body t s ++ 34 :: rest) = Some (s, rest).
Proof.
  intros t Hok. destruct (table_ok_parts t Hok) as (Hq & Hb & Hn & Hr & Hent).
  induction s as [|c s IH]; intros rest f Hf.
  - destruct f as [|f]; [inversion Hf|]. reflexivity.
  - destruct f as [|f]; [inversion Hf|]. cbn [List.length] in Hf. apply Nat.succ_lt_mono in Hf.
    cbn [escape_body]. rewrite <- app_assoc. unfold escape_char.
    destruct (esc_lookup t c) as [e|] eqn:El.
    + rewrite (body_entry c e (Hent c e El)). rewrite (IH rest f Hf). reflexivity.
    + cbn [app]. rewrite body_plain; eauto using has_arm_none.
      rewrite (IH rest f Hf). reflexivity.
Qed.

Theorem string_literal_roundtrip : forall t, esc_table_ok t = true -> forall s rest fuel, (List.length s < fuel)%nat ->
  lex_string fuel (print_string t s ++ rest) = Some (s, rest).
Proof.
  intros t Hok s rest fuel Hf. unfold print_string, lex_string. cbn [app]. change (34 =? 34) with true. cbv iota.
  rewrite <- app_assoc. cbn [app]. now apply string_body_roundtrip.
Qed.

(* printed text is a fixed point: print (lex (print s)) = print s *)
Theorem string_literal_fixpoint : forall t, esc_table_ok t = true -> forall s fuel, (List.length s < fuel)%nat ->
  exists v, lex_string fuel (print_string t s) = Some (v, []) /\ print_string t v = print_string t s.
Proof.
  intros t Hok s fuel Hf. exists s. split; [|reflexivity].
  rewrite <- (app_nil_r (print_string t s)). now apply string_literal_roundtrip.
Qed.

(* two values that print the same are the same *)
Theorem print_string_injective : forall t, esc_table_ok t = true -> forall s1 s2, print_string t s1 = print_string t s2 -> s1 = s2.
Proof.
  intros t Hok s1 s2 E.
  pose proof (string_literal_roundtrip t Hok s1 [] (S (List.length s1) + S (List.length s2)) ltac:(lia)) as R1.
  pose proof (string_literal_roundtrip t Hok s2 [] (S (List.length s1) + S (List.length s2)) ltac:(lia)) as R2.
  rewrite E in R1. rewrite R1 in R2. now inversion R2.
Qed.

(* the table of this run *)
Lemma ext_escapes_ok : esc_table_ok ext_escapes = true.
Proof. vm_compute. reflexivity. Qed.

Lemma entry_nonempty : forall c e, esc_entry_ok c e = true -> (1 <= List.length e)%nat.
Proof. intros c [|b e] H; [discriminate|]. cbn. lia. Qed.

Lemma escape_body_length : forall t, esc_table_ok t = true -> forall s, (List.length s <= List.length (escape_body t s))%nat.
Proof.
  intros t Hok. destruct (table_ok_parts t Hok) as (_ & _ & _ & _ & Hent).
  induction s as [|c s IH]; [cbn; lia|]. cbn [escape_body List.length]. rewrite app_length. unfold escape_char.
  destruct (esc_lookup t c) as [e|] eqn:El.
  - pose proof (entry_nonempty c e (Hent c e El)). lia.
  - cbn. lia.
Qed.

(* with the fuel the tie uses (the length of the text) *)
Theorem run_string_roundtrip : forall s, run_lex_string (run_print_string s) = Some (s, []).
Proof.
  intros s. unfold run_lex_string, run_print_string.
  rewrite <- (app_nil_r (print_string ext_escapes s)) at 2.
  apply string_literal_roundtrip; [exact ext_escapes_ok|].
  unfold print_string. cbn [List.length]. rewrite app_length. cbn [List.length].
  pose proof (escape_body_length ext_escapes ext_escapes_ok s). lia.
Qed.

(* without the CR arm the table is refused, and the value is indeed lost: a CR between the quotes is dropped *)
Definition escapes_without_cr : esc_table := filter (fun ce => negb (fst ce =? 13)) ext_escapes.

Lemma cr_arm_needed :
  esc_table_ok escapes_without_cr = false /\
  lex_string 10 (print_string escapes_without_cr [97; 13; 98]) = Some ([97; 98], []).
Proof. vm_compute. split; reflexivity. Qed.

(* ---- bytes ---- *)

Lemma hex_digit_to_digit : forall d, d < 16 -> to_digit 16 (hex_digit d) = Some d.
Proof.
  intros d H.
  assert (C : d = 0 \/ d = 1 \/ d = 2 \/ d = 3 \/ d = 4 \/ d = 5 \/ d = 6 \/ d = 7 \/ d = 8 \/ d = 9 \/ d = 10 \/
              d = 11 \/ d = 12 \/ d = 13 \/ d = 14 \/ d = 15) by lia.
  repeat (destruct C as [C|C]; [subst d; reflexivity|]). subst d; reflexivity.
Qed.

Lemma utf8_ascii : forall c, c < 128 -> utf8 c = [c].
Proof. intros c H. unfold utf8. apply N.ltb_lt in H. now rewrite H. Qed.

Lemma lex_bytes_backslash : forall f r,
  lex_bytes_body (S f) (92 :: r) =
  match lex_escape_bytes r with
  | Some (p, r') => match lex_bytes_body f r' with Some (v, rest) => Some (p ++ v, rest) | None => None end
  | None => None
  end.
Proof. reflexivity. Qed.

Lemma bytes_entry : forall b, b < 256 -> forall f r,
  lex_bytes_body (S f) (escape_byte b ++ r) =
  match lex_bytes_body f r with Some (v, rest) => Some (b :: v, rest) | None => None end.
Proof.
  intros b Hb f r. unfold escape_byte.
  destruct (b =? 34) eqn:E1; [apply N.eqb_eq in E1; subst; reflexivity|].
  destruct (b =? 92) eqn:E2; [apply N.eqb_eq in E2; subst; reflexivity|].
  destruct (b =? 10) eqn:E3; [apply N.eqb_eq in E3; subst; reflexivity|].
  destruct (b =? 13) eqn:E4; [apply N.eqb_eq in E4; subst; reflexivity|].
  destruct (b =? 9) eqn:E5; [apply N.eqb_eq in E5; subst; reflexivity|].
  destruct ((32 <=? b) && (b <=? 126)) eqn:E6.
  - apply andb_true_iff in E6. destruct E6 as [L1 L2]. apply N.leb_le in L1, L2.
    cbn [app lex_bytes_body]. rewrite E1, E3, E4, E2. rewrite utf8_ascii by lia. reflexivity.
  - cbn [app]. rewrite lex_bytes_backslash.
    assert (E : lex_escape_bytes (120 :: hex_digit (b / 16) :: hex_digit (b mod 16) :: r) = Some ([b], r)).
    { unfold lex_escape_bytes. change (120 =? 110) with false. change (120 =? 114) with false. change (120 =? 116) with false.
      change (120 =? 97) with false. change (120 =? 98) with false. change (120 =? 102) with false.
      change (120 =? 118) with false. change (120 =? 10) with false. change (120 =? 13) with false.
      change (120 =? 120) with true. cbv iota.
      assert (D1 : b / 16 < 16) by (apply N.div_lt_upper_bound; lia).
      assert (D2 : b mod 16 < 16) by (apply N.mod_lt; lia).
      rewrite (escape_code_hex2 _ _ _ _ r (hex_digit_to_digit _ D1) (hex_digit_to_digit _ D2)).
      assert (Eb : b / 16 * 16 + b mod 16 = b) by (rewrite (N.div_mod b 16) at 3; lia).
      rewrite Eb. rewrite N.mod_small by lia. reflexivity. }
    rewrite E. reflexivity.
Qed.

Lemma bytes_body_roundtrip : forall bs, Forall (fun b => b < 256) bs -> forall rest f, (List.length bs < f)%nat ->
  lex_bytes_body f (escape_bytes_body bs ++ 34 :: rest) = Some (bs, rest).
Proof.
  induction bs as [|b bs IH]; intros Hall rest f Hf.
  - destruct f as [|f]; [inversion Hf|]. reflexivity.
  - destruct f as [|f]; [inversion Hf|]. cbn [List.length] in Hf. apply Nat.succ_lt_mono in Hf.
    inversion Hall as [|? ? Hb Hall']; subst.
    cbn [escape_bytes_body]. rewrite <- app_assoc. rewrite (bytes_entry b Hb). rewrite (IH Hall' rest f Hf). reflexivity.
Qed.

Theorem bytes_literal_roundtrip : forall bs, Forall (fun b => b < 256) bs -> forall rest fuel, (List.length bs < fuel)%nat ->
  lex_bytes fuel (print_bytes bs ++ rest) = Some (bs, rest).
Proof.
  intros bs Hall rest fuel Hf. unfold print_bytes, lex_bytes. cbn [app].
  change ((98 =? 98) && (34 =? 34)) with true. cbv iota.
  rewrite <- app_assoc. cbn [app]. now apply bytes_body_roundtrip.
Qed.

Lemma escape_byte_nonempty : forall b, (1 <= List.length (escape_byte b))%nat.
Proof.
  intros b. unfold escape_byte.
  repeat match goal with |- context [if ?c then _ else _] => destruct c end; cbn; lia.
Qed.

Lemma escape_bytes_body_length : forall bs, (List.length bs <= List.length (escape_bytes_body bs))%nat.
Proof.
  induction bs as [|b bs IH]; [cbn; lia|]. cbn [escape_bytes_body List.length]. rewrite app_length.
  pose proof (escape_byte_nonempty b). lia.
Qed.

Theorem run_bytes_roundtrip : forall bs, Forall (fun b => b < 256) bs -> run_lex_bytes (print_bytes bs) = Some (bs, []).
Proof.
  intros bs Hall. unfold run_lex_bytes.
  rewrite <- (app_nil_r (print_bytes bs)) at 2.
  apply bytes_literal_roundtrip; [exact Hall|].
  unfold print_bytes. cbn [List.length]. rewrite app_length. cbn [List.length].
  pose proof (escape_bytes_body_length bs). lia.
Qed.
