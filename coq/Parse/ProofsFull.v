(* C06 - proofs, continued: lifting the operator-layer theorem of Proofs.v to WHOLE expressions and statements.

   Part 5: every function of Model.Body (and of Grammar.Strat) respects any relation on results that is
           reflexive and compatible with `bind` and `guard`, when the sub-parsers of the next lower level are
           related pointwise.  Instantiated twice:
             rel = eq      -> the congruence lemmas (no functional extensionality is used anywhere);
             rel = le_ok   -> fuel monotonicity (a successful parse stays the same parse with more fuel).
   Part 6: at one nesting level, over the SAME sub-parsers, the Pratt operator layer equals the stratified one:
           parse_test / parse_or_test / parse_expr_list (= parse_bitor_expr), and parse_argument's re-entry after a
           consumed identifier (continue_primary ; continue_infix(c_arg) ; continue_ternary) equals parse_test on
           the un-consumed stream (`argument_reentry_eq`).
   Part 7: induction on the nesting fuel: Model.parse c fuel ts = Grammar.parse_strict fuel ts for every table with
           table_ok, every fuel and every token list (`pratt_eq_grammar`). *)
From Coq Require Import ZArith NArith List Bool Lia.
From SV Require Import Parse.Tokens Parse.Ast Parse.Model Parse.Grammar Parse.Print Parse.Cases Parse.Proofs.
Import ListNotations.
Local Open Scope Z_scope.

(* ---------------------------------------------------------------------------------------------- *)
(* Part 5: relational parametricity of the shared grammar code *)

Definition le_ok {A} (r1 r2 : res A) : Prop := forall v, r1 = Ok v -> r2 = Ok v.

Lemma eq_bind : forall A B (r1 r2 : res A) (f1 f2 : A -> res B),
  r1 = r2 -> (forall a, f1 a = f2 a) -> bind r1 f1 = bind r2 f2.
Proof. intros A B r1 r2 f1 f2 H Hf. subst r2. destruct r1; simpl; auto. Qed.
Lemma eq_guard : forall ts (r1 r2 : pres), r1 = r2 -> guard ts r1 = guard ts r2.
Proof. intros; subst; reflexivity. Qed.

Lemma le_ok_refl : forall A (r : res A), le_ok r r.
Proof. intros A r v H. exact H. Qed.
Lemma le_ok_bind : forall A B (r1 r2 : res A) (f1 f2 : A -> res B),
  le_ok r1 r2 -> (forall a, le_ok (f1 a) (f2 a)) -> le_ok (bind r1 f1) (bind r2 f2).
Proof.
  intros A B r1 r2 f1 f2 H Hf v Hv. apply bind_ok in Hv. destruct Hv as [a [Ha Hfa]].
  rewrite (H a Ha). simpl. apply Hf. exact Hfa.
Qed.
Lemma le_ok_guard : forall ts (r1 r2 : pres), le_ok r1 r2 -> le_ok (guard ts r1) (guard ts r2).
Proof.
  intros ts r1 r2 H v Hv. destruct r1 as [[e rest]| | |]; simpl in Hv; try discriminate.
  rewrite (H (e, rest) eq_refl). simpl. exact Hv.
Qed.

Definition recs_rel (rel : forall A, res A -> res A -> Prop) (R1 R2 : recs) : Prop :=
  (forall ts, rel _ (r_test R1 ts) (r_test R2 ts)) /\
  (forall ts, rel _ (r_ortest R1 ts) (r_ortest R2 ts)) /\
  (forall ts, rel _ (r_exprlist R1 ts) (r_exprlist R2 ts)) /\
  (forall ts, rel _ (r_args R1 ts) (r_args R2 ts)).

(* an operator layer respects rel: related operand parsers give related results *)
Definition impl_rel (rel : forall A, res A -> res A -> Prop) (I : impl) : Prop :=
  (forall P1 P2, (forall ts, rel _ (P1 ts) (P2 ts)) -> forall ts, rel _ (i_test I P1 ts) (i_test I P2 ts)) /\
  (forall P1 P2, (forall ts, rel _ (P1 ts) (P2 ts)) -> forall ts, rel _ (i_ortest I P1 ts) (i_ortest I P2 ts)) /\
  (forall P1 P2, (forall ts, rel _ (P1 ts) (P2 ts)) -> forall ts, rel _ (i_bitor I P1 ts) (i_bitor I P2 ts)).

Section Rel.
  Variable rel : forall A, res A -> res A -> Prop.
  Hypothesis rel_refl : forall A (r : res A), rel A r r.
  Hypothesis rel_bind : forall A B (r1 r2 : res A) (f1 f2 : A -> res B),
    rel A r1 r2 -> (forall a, rel B (f1 a) (f2 a)) -> rel B (bind r1 f1) (bind r2 f2).
  Hypothesis rel_guard : forall ts (r1 r2 : pres), rel _ r1 r2 -> rel _ (guard ts r1) (guard ts r2).

  Local Notation "a ~~ b" := (rel _ a b) (at level 70).

  (* one structural step: identical sides, a bind, or a match on a shared scrutinee *)
  Ltac rstep :=
    lazymatch goal with
    | |- rel _ ?x ?x => apply rel_refl
    | |- rel _ (bind _ _) (bind _ _) => apply rel_bind; [ | intro ]
    | |- rel _ (match ?x with _ => _ end) (match ?x with _ => _ end) => destruct x
    end.
  Ltac rgo := repeat first [ rstep | solve [ auto ] ].

  (* ---- the stratified operator layer ---- *)
  Section StratRel.
    Variables P1 P2 : toks -> pres.
    Hypothesis HP : forall ts, P1 ts ~~ P2 ts.

    Lemma lloop_rel : forall ops next1 next2, (forall ts, next1 ts ~~ next2 ts) ->
      forall n lhs ts, lloop n ops next1 lhs ts ~~ lloop n ops next2 lhs ts.
    Proof.
      intros ops next1 next2 Hn. induction n as [|k IH]; intros lhs ts; cbn [lloop]; rgo.
    Qed.
    Lemma left_level_rel : forall ops next1 next2, (forall ts, next1 ts ~~ next2 ts) ->
      forall ts, left_level ops next1 ts ~~ left_level ops next2 ts.
    Proof. intros ops next1 next2 Hn ts. unfold left_level. rgo. apply lloop_rel; auto. Qed.

    Lemma g_term_rel : forall ts, g_term P1 ts ~~ g_term P2 ts.
    Proof. apply left_level_rel, HP. Qed.
    Lemma g_arith_rel : forall ts, g_arith P1 ts ~~ g_arith P2 ts.
    Proof. apply left_level_rel, g_term_rel. Qed.
    Lemma g_shift_rel : forall ts, g_shift P1 ts ~~ g_shift P2 ts.
    Proof. apply left_level_rel, g_arith_rel. Qed.
    Lemma g_bitand_rel : forall ts, g_bitand P1 ts ~~ g_bitand P2 ts.
    Proof. apply left_level_rel, g_shift_rel. Qed.
    Lemma g_bitxor_rel : forall ts, g_bitxor P1 ts ~~ g_bitxor P2 ts.
    Proof. apply left_level_rel, g_bitand_rel. Qed.
    Lemma g_bitor_rel : forall ts, g_bitor P1 ts ~~ g_bitor P2 ts.
    Proof. apply left_level_rel, g_bitxor_rel. Qed.
    Lemma g_cmp_tail_rel : forall x ts, g_cmp_tail P1 x ts ~~ g_cmp_tail P2 x ts.
    Proof. intros x ts. pose proof g_bitor_rel. unfold g_cmp_tail. rgo. Qed.
    Lemma g_comparison_rel : forall ts, g_comparison P1 ts ~~ g_comparison P2 ts.
    Proof. intros ts. pose proof g_bitor_rel. pose proof g_cmp_tail_rel. unfold g_comparison. rgo. Qed.
    Lemma g_not_loop_rel : forall n ts, g_not_loop P1 n ts ~~ g_not_loop P2 n ts.
    Proof.
      pose proof g_comparison_rel. induction n as [|k IH]; intros ts; cbn [g_not_loop]; rgo.
    Qed.
    Lemma g_not_test_rel : forall ts, g_not_test P1 ts ~~ g_not_test P2 ts.
    Proof. intros ts. apply g_not_loop_rel. Qed.
    Lemma g_and_test_rel : forall ts, g_and_test P1 ts ~~ g_and_test P2 ts.
    Proof. apply left_level_rel, g_not_test_rel. Qed.
    Lemma g_or_test_rel : forall ts, g_or_test P1 ts ~~ g_or_test P2 ts.
    Proof. apply left_level_rel, g_and_test_rel. Qed.
  End StratRel.

  Lemma strat_impl_rel : impl_rel rel strat_impl.
  Proof.
    repeat split; cbn [strat_impl i_test i_ortest i_bitor]; intros P1 P2 H ts.
    - apply g_or_test_rel; auto.
    - apply g_or_test_rel; auto.
    - apply g_bitor_rel; auto.
  Qed.

  (* ---- the bracket / suffix / argument-list grammar ---- *)
  Section BodyRel.
    Variables c1 c2 : cfg.
    Hypothesis Hstart : forall t, is_expr_start c1 t = is_expr_start c2 t.
    Hypothesis Hunary : forall t, unary_code c1 t = unary_code c2 t.
    Variable I : impl.
    Hypothesis HI : impl_rel rel I.
    Hypothesis HIre : i_reentry I = None.
    Variables R1 R2 : recs.
    Hypothesis HR : recs_rel rel R1 R2.

    Let HRtest : forall ts, r_test R1 ts ~~ r_test R2 ts. Proof. apply HR. Qed.
    Let HRortest : forall ts, r_ortest R1 ts ~~ r_ortest R2 ts. Proof. apply HR. Qed.
    Let HRexprlist : forall ts, r_exprlist R1 ts ~~ r_exprlist R2 ts. Proof. apply HR. Qed.
    Let HRargs : forall ts, r_args R1 ts ~~ r_args R2 ts. Proof. apply HR. Qed.

    Lemma is_test_start_eq : forall t, is_test_start c1 t = is_test_start c2 t.
    Proof. intros t. unfold is_test_start. rewrite Hstart. reflexivity. Qed.

    Lemma comma_loop_rel : forall T1 T2 s1 s2, (forall ts, T1 ts ~~ T2 ts) -> (forall t, s1 t = s2 t) ->
      forall n acc ts, comma_loop n T1 s1 acc ts ~~ comma_loop n T2 s2 acc ts.
    Proof.
      intros T1 T2 s1 s2 HT Hs. induction n as [|k IH]; intros acc ts; cbn [comma_loop]; [rgo|].
      destruct ts as [|t r]; [rgo|]. destruct t; try solve [rgo].
      destruct r as [|t r']; [rgo|]. rewrite (Hs t). rgo.
    Qed.

    Lemma test_list_tail_rel : forall T1 T2, (forall ts, T1 ts ~~ T2 ts) ->
      forall allow first ts, test_list_tail c1 T1 allow first ts ~~ test_list_tail c2 T2 allow first ts.
    Proof.
      intros T1 T2 HT allow first ts. unfold test_list_tail.
      apply rel_bind; [apply comma_loop_rel; [exact HT|exact is_test_start_eq]|]. intro a. rgo.
    Qed.

    Lemma test_list_rel : forall T1 T2, (forall ts, T1 ts ~~ T2 ts) ->
      forall allow ts, test_list c1 T1 allow ts ~~ test_list c2 T2 allow ts.
    Proof.
      intros T1 T2 HT allow ts. pose proof (test_list_tail_rel T1 T2 HT). unfold test_list. rgo.
    Qed.

    Lemma slice_rest_rel : forall e start ts, slice_rest R1 e start ts ~~ slice_rest R2 e start ts.
    Proof. intros e start ts. unfold slice_rest. rgo. Qed.

    Lemma index_or_slice_rel : forall e ts, index_or_slice R1 e ts ~~ index_or_slice R2 e ts.
    Proof. intros e ts. pose proof slice_rest_rel. unfold index_or_slice. rgo. Qed.

    Lemma suffix_loop_rel : forall n lhs ts, suffix_loop R1 n lhs ts ~~ suffix_loop R2 n lhs ts.
    Proof.
      pose proof index_or_slice_rel.
      induction n as [|k IH]; intros lhs ts; cbn [suffix_loop]; rgo.
    Qed.
    Lemma continue_primary_rel : forall lhs ts, continue_primary R1 lhs ts ~~ continue_primary R2 lhs ts.
    Proof. intros. apply suffix_loop_rel. Qed.

    Lemma for_clause_rel : forall ts, for_clause R1 ts ~~ for_clause R2 ts.
    Proof. intros ts. unfold for_clause. rgo. Qed.
    Lemma clause_loop_rel : forall n acc ts, clause_loop R1 n acc ts ~~ clause_loop R2 n acc ts.
    Proof.
      pose proof for_clause_rel.
      induction n as [|k IH]; intros acc ts; cbn [clause_loop]; rgo.
    Qed.
    Lemma comp_clauses_rel : forall ts, comp_clauses R1 ts ~~ comp_clauses R2 ts.
    Proof. intros ts. pose proof for_clause_rel. pose proof clause_loop_rel. unfold comp_clauses. rgo. Qed.

    Lemma items_loop_rel : forall A (item1 item2 : toks -> res (A * toks)), (forall ts, item1 ts ~~ item2 ts) ->
      forall close n acc ts, items_loop n item1 close acc ts ~~ items_loop n item2 close acc ts.
    Proof.
      intros A item1 item2 Hi close. induction n as [|k IH]; intros acc ts; cbn [items_loop]; rgo.
    Qed.

    Lemma list_or_comp_rel : forall ts, list_or_comp R1 ts ~~ list_or_comp R2 ts.
    Proof.
      intros ts. pose proof comp_clauses_rel. pose proof (items_loop_rel _ _ _ HRtest). unfold list_or_comp. rgo.
    Qed.
    Lemma dict_entry_rel : forall ts, dict_entry R1 ts ~~ dict_entry R2 ts.
    Proof. intros ts. unfold dict_entry. rgo. Qed.
    Lemma dict_or_comp_rel : forall ts, dict_or_comp R1 ts ~~ dict_or_comp R2 ts.
    Proof.
      intros ts. pose proof comp_clauses_rel. pose proof dict_entry_rel. pose proof (items_loop_rel _ _ _ dict_entry_rel).
      unfold dict_or_comp. rgo.
    Qed.

    Lemma parse_atom_rel : forall ts, parse_atom c1 R1 ts ~~ parse_atom c2 R2 ts.
    Proof.
      intros ts. pose proof list_or_comp_rel. pose proof dict_or_comp_rel. pose proof (test_list_rel _ _ HRtest).
      unfold parse_atom. rgo.
    Qed.
    Lemma parse_primary_rel : forall ts, parse_primary c1 R1 ts ~~ parse_primary c2 R2 ts.
    Proof. intros ts. pose proof parse_atom_rel. pose proof continue_primary_rel. unfold parse_primary. rgo. Qed.

    Lemma unary_ctor_eq : forall t, unary_ctor c1 t = unary_ctor c2 t.
    Proof. intros t. unfold unary_ctor. rewrite Hunary. reflexivity. Qed.
    Lemma unary_loop_rel : forall n ts, unary_loop c1 R1 n ts ~~ unary_loop c2 R2 n ts.
    Proof.
      pose proof parse_primary_rel.
      induction n as [|k IH]; intros ts; cbn [unary_loop]; [rgo|].
      destruct ts as [|t r]; [rgo|]. rewrite unary_ctor_eq. rgo.
    Qed.
    Lemma parse_unary_rel : forall ts, parse_unary c1 R1 ts ~~ parse_unary c2 R2 ts.
    Proof. intros ts. unfold parse_unary. apply rel_guard. apply unary_loop_rel. Qed.

    Lemma continue_ternary_rel : forall e ts, continue_ternary R1 e ts ~~ continue_ternary R2 e ts.
    Proof. intros e ts. unfold continue_ternary. rgo. Qed.

    Lemma lambda_param_rel : forall ts, lambda_param R1 ts ~~ lambda_param R2 ts.
    Proof. intros ts. unfold lambda_param. rgo. Qed.
    Lemma params_loop_rel : forall n acc ts, params_loop R1 n acc ts ~~ params_loop R2 n acc ts.
    Proof.
      pose proof lambda_param_rel.
      induction n as [|k IH]; intros acc ts; cbn [params_loop]; rgo.
    Qed.
    Lemma lambda_params_rel : forall ts, lambda_params R1 ts ~~ lambda_params R2 ts.
    Proof. intros ts. pose proof params_loop_rel. unfold lambda_params. rgo. Qed.
    Lemma parse_lambda_rel : forall ts, parse_lambda R1 ts ~~ parse_lambda R2 ts.
    Proof. intros ts. pose proof lambda_params_rel. unfold parse_lambda. rgo. Qed.

    Lemma parse_test_rel : forall ts, parse_test c1 I R1 ts ~~ parse_test c2 I R2 ts.
    Proof.
      intros ts. pose proof parse_lambda_rel. pose proof continue_ternary_rel.
      destruct HI as [H1 _]. pose proof (H1 _ _ parse_unary_rel).
      unfold parse_test. rgo.
    Qed.
    Lemma parse_or_test_rel : forall ts, parse_or_test c1 I R1 ts ~~ parse_or_test c2 I R2 ts.
    Proof. intros ts. destruct HI as [_ [H2 _]]. unfold parse_or_test. apply H2. exact parse_unary_rel. Qed.

    Lemma parse_expr_list_rel : forall ts, parse_expr_list c1 I R1 ts ~~ parse_expr_list c2 I R2 ts.
    Proof.
      intros ts. destruct HI as [_ [_ H3]]. pose proof (H3 _ _ parse_unary_rel) as Hb.
      pose proof (comma_loop_rel _ _ _ _ Hb Hstart).
      unfold parse_expr_list. rgo.
    Qed.

    Lemma parse_argument_rel : forall ts, parse_argument c1 I R1 ts ~~ parse_argument c2 I R2 ts.
    Proof.
      intros ts. pose proof parse_test_rel. unfold parse_argument. rewrite HIre. rgo.
    Qed.
    Lemma args_loop_rel : forall n acc ts, args_loop c1 I R1 n acc ts ~~ args_loop c2 I R2 n acc ts.
    Proof.
      pose proof parse_argument_rel.
      induction n as [|k IH]; intros acc ts; cbn [args_loop]; rgo.
    Qed.
    Lemma parse_args_rel : forall ts, parse_args c1 I R1 ts ~~ parse_args c2 I R2 ts.
    Proof. intros ts. pose proof args_loop_rel. unfold parse_args. rgo. Qed.

    Lemma parse_top_rel : forall strict ts, parse_top c1 I R1 strict ts ~~ parse_top c2 I R2 strict ts.
    Proof.
      intros strict ts. pose proof parse_test_rel as Ht.
      pose proof (test_list_tail_rel _ _ Ht). pose proof (test_list_rel _ _ Ht).
      unfold parse_top. rgo.
    Qed.

    Lemma level_rel : recs_rel rel (level c1 I R1) (level c2 I R2).
    Proof.
      repeat split; cbn [level r_test r_ortest r_exprlist r_args].
      - exact parse_test_rel.
      - exact parse_or_test_rel.
      - exact parse_expr_list_rel.
      - exact parse_args_rel.
    Qed.
  End BodyRel.
End Rel.

(* ---- the two instances ---- *)
Definition eqr : forall A, res A -> res A -> Prop := fun A r1 r2 => r1 = r2.
Lemma eqr_refl : forall A (r : res A), eqr A r r. Proof. intros; reflexivity. Qed.
Lemma eqr_bind : forall A B (r1 r2 : res A) (f1 f2 : A -> res B),
  eqr A r1 r2 -> (forall a, eqr B (f1 a) (f2 a)) -> eqr B (bind r1 f1) (bind r2 f2).
Proof. exact eq_bind. Qed.
Lemma eqr_guard : forall ts (r1 r2 : pres), eqr _ r1 r2 -> eqr _ (guard ts r1) (guard ts r2).
Proof. exact eq_guard. Qed.

(* a definitive answer (a tree, a rejection, `Unmodelled`) - anything but out-of-fuel - is kept *)
Definition defr : forall A, res A -> res A -> Prop := fun A r1 r2 => r1 <> Oof -> r2 = r1.
Lemma defr_refl : forall A (r : res A), defr A r r. Proof. intros A r _. reflexivity. Qed.
Lemma defr_bind : forall A B (r1 r2 : res A) (f1 f2 : A -> res B),
  defr A r1 r2 -> (forall a, defr B (f1 a) (f2 a)) -> defr B (bind r1 f1) (bind r2 f2).
Proof.
  intros A B r1 r2 f1 f2 H Hf Hn.
  assert (H1 : r1 <> Oof) by (intro E; apply Hn; rewrite E; reflexivity).
  rewrite (H H1). destruct r1 as [a| | |]; simpl in *; auto.
  apply Hf. exact Hn.
Qed.
Lemma defr_guard : forall ts (r1 r2 : pres), defr _ r1 r2 -> defr _ (guard ts r1) (guard ts r2).
Proof.
  intros ts r1 r2 H Hn.
  assert (H1 : r1 <> Oof) by (intro E; apply Hn; rewrite E; reflexivity).
  rewrite (H H1). reflexivity.
Qed.

Ltac estep :=
  lazymatch goal with
  | |- ?x = ?x => reflexivity
  | |- bind _ _ = bind _ _ => apply eq_bind; [ | intro ]
  | |- match ?x with _ => _ end = match ?x with _ => _ end => destruct x
  end.
Ltac ego := repeat first [ estep | solve [ auto ] ].

(* ---------------------------------------------------------------------------------------------- *)
(* Part 6: one nesting level, same sub-parsers: the Pratt operator layer = the stratified one *)

Lemma token_name_kind : forall t, token_name (kind t) = token_name t.
Proof. destruct t; reflexivity. Qed.

Section OneLevel.
  Variable c : cfg.
  Hypothesis Hok : table_ok c = true.
  Variable R : recs.

  Local Notation P := (parse_unary c R).
  Let HP : consuming P := parse_unary_consuming c R.

  Lemma T_start : forall t, is_expr_start c t = is_expr_start ref_cfg t.
  Proof.
    intros t. unfold table_ok in Hok. apply andb_true_iff in Hok. destruct Hok as [H0 _].
    apply andb_true_iff in H0. destruct H0 as [_ H]. rewrite forallb_forall in H.
    specialize (H (kind t) (kind_in t)). apply eqb_prop in H.
    unfold is_expr_start, name_in in *. rewrite token_name_kind in H. exact H.
  Qed.
  Lemma T_unary : forall t, unary_code c t = unary_code ref_cfg t.
  Proof.
    intros t. unfold table_ok in Hok. apply andb_true_iff in Hok. destruct Hok as [_ H].
    rewrite forallb_forall in H. specialize (H (kind t) (kind_in t)). apply N.eqb_eq in H.
    unfold unary_code in *. rewrite token_name_kind in H. exact H.
  Qed.

  Lemma oplayer_test : forall ts, parse_expr_top c P (c_test c) ts = g_or_test P ts.
  Proof. intros. apply (pratt_or_test c P HP Hok). apply (T_all c Hok). Qed.
  Lemma oplayer_ortest : forall ts, parse_expr_top c P (c_ortest c) ts = g_or_test P ts.
  Proof. intros. apply (pratt_or_test c P HP Hok). apply (T_all c Hok). Qed.
  Lemma oplayer_arg : forall ts, parse_expr_top c P (c_arg c) ts = g_or_test P ts.
  Proof. intros. apply (pratt_or_test c P HP Hok). apply (T_all c Hok). Qed.

  (* parse_bitor_expr = operand ; continue_infix(c_bitor) is parse_expr(c_bitor): the prefix `not` is off there *)
  Lemma bitor_expr_eq : forall ts, parse_bitor_expr c P ts = g_bitor P ts.
  Proof.
    intros ts.
    destruct (T_all c Hok) as (_ & _ & _ & El & Er & _ & _ & _ & _ & E5).
    pose proof (pratt_eq_grammar_oplayer c Hok P HP 4%nat (c_bitor c) ltac:(split; lia) E5 ts) as E4.
    cbn [G] in E4. rewrite <- E4. clear E4.
    change (parse_expr_top c P (c_bitor c) ts) with (pe c P (c_bitor c) ts).
    rewrite (pe_eq c P HP).
    assert (Hpre : prefixT c P (c_bitor c) ts = P ts).
    { unfold prefixT. destruct ts as [|t rest]; auto.
      rewrite (notflag c (c_bitor c) 4 E5). cbn [Nat.leb]. rewrite andb_false_r. reflexivity. }
    rewrite Hpre. unfold parse_bitor_expr, continue_infix, lp. rewrite <- El, <- Er. reflexivity.
  Qed.

  Lemma parse_test_level : forall ts, parse_test c (pratt_impl c) R ts = parse_test c strat_impl R ts.
  Proof.
    intros ts. unfold parse_test. cbn [pratt_impl strat_impl i_test]. rewrite oplayer_test. reflexivity.
  Qed.
  Lemma parse_or_test_level : forall ts, parse_or_test c (pratt_impl c) R ts = parse_or_test c strat_impl R ts.
  Proof. intros ts. unfold parse_or_test. cbn [pratt_impl strat_impl i_ortest]. apply oplayer_ortest. Qed.

  Lemma parse_expr_list_level : forall ts, parse_expr_list c (pratt_impl c) R ts = parse_expr_list c strat_impl R ts.
  Proof.
    intros ts. unfold parse_expr_list. cbn [pratt_impl strat_impl i_bitor].
    pose proof bitor_expr_eq as Hb.
    pose proof (comma_loop_rel eqr eqr_refl eqr_bind _ _ _ _ Hb (fun t => eq_refl (is_expr_start c t))) as Hc.
    unfold eqr in Hc. ego.
  Qed.

  Lemma unary_ctor_ident : forall k, unary_ctor c (TIdentifier k) = None.
  Proof. intros k. unfold unary_ctor. rewrite T_unary. reflexivity. Qed.

  (* parse_unary on a stream that starts with an identifier: the atom is the identifier, then the suffix loop *)
  Lemma parse_unary_ident : forall k r,
    P (TIdentifier k :: r) =
    '(e1, r1) <- continue_primary R (EId k) r ;;
    if Nat.leb (List.length r1) (List.length r) then Ok (e1, r1) else Err 99.
  Proof.
    intros k r. unfold parse_unary. cbn [unary_loop List.length]. rewrite unary_ctor_ident.
    unfold parse_primary. cbn [parse_atom bind].
    destruct (continue_primary R (EId k) r) as [[e1 r1]| | |]; cbn [bind guard]; auto.
  Qed.

  (* parse_argument: after the identifier has been consumed, continue_primary ; continue_infix(c_arg) ;
     continue_ternary builds what parse_test builds on the stream that still has the identifier *)
  Lemma argument_reentry_eq : forall k r,
    ('(e1, r1) <- continue_primary R (EId k) r ;;
     if Nat.leb (List.length r1) (List.length r) then
       '(e2, r2) <- continue_infix c P (c_arg c) e1 r1 ;;
       '(e3, r3) <- continue_ternary R e2 r2 ;;
       Ok (APos e3, r3)
     else Err 99)
    = '(e, r') <- parse_test c (pratt_impl c) R (TIdentifier k :: r) ;; Ok (APos e, r').
  Proof.
    intros k r.
    destruct (T_all c Hok) as (_ & _ & _ & El & Er & _ & _ & _ & _ & _).
    unfold parse_test. cbn [pratt_impl i_test].
    rewrite oplayer_test, <- oplayer_arg.
    change (parse_expr_top c P (c_arg c) (TIdentifier k :: r)) with (pe c P (c_arg c) (TIdentifier k :: r)).
    rewrite (pe_eq c P HP). unfold prefixT. cbn [tok_is_not andb].
    rewrite parse_unary_ident.
    destruct (continue_primary R (EId k) r) as [[e1 r1]| | |]; cbn [bind]; auto.
    destruct (Nat.leb (List.length r1) (List.length r)); cbn [bind]; auto.
    unfold continue_infix. rewrite <- El, <- Er. unfold lp.
    destruct (infix_loop c P (S (List.length r1)) (c_ni_l c) (c_ni_r c) (c_arg c) e1 r1) as [[e2 r2]| | |]; cbn [bind]; auto.
  Qed.

  Lemma parse_argument_level : forall ts, parse_argument c (pratt_impl c) R ts = parse_argument c strat_impl R ts.
  Proof.
    intros ts. unfold parse_argument. cbn [pratt_impl strat_impl i_reentry].
    destruct ts as [|t r]; [rewrite parse_test_level; reflexivity|].
    destruct t; try (rewrite parse_test_level; reflexivity).
    destruct r as [|t2 r']; [rewrite argument_reentry_eq, parse_test_level; reflexivity|].
    destruct t2; try (rewrite parse_test_level; reflexivity);
      rewrite argument_reentry_eq, parse_test_level; reflexivity.
  Qed.

  Lemma args_loop_level : forall n acc ts, args_loop c (pratt_impl c) R n acc ts = args_loop c strat_impl R n acc ts.
  Proof.
    pose proof parse_argument_level.
    induction n as [|k IH]; intros acc ts; cbn [args_loop]; ego.
  Qed.
  Lemma parse_args_level : forall ts, parse_args c (pratt_impl c) R ts = parse_args c strat_impl R ts.
  Proof. intros ts. pose proof args_loop_level. unfold parse_args. ego. Qed.

  Lemma parse_top_level : forall strict ts, parse_top c (pratt_impl c) R strict ts = parse_top c strat_impl R strict ts.
  Proof.
    intros strict ts. pose proof parse_test_level as Ht.
    pose proof (test_list_tail_rel eqr eqr_refl eqr_bind c c (fun t => eq_refl) _ _ Ht) as H1.
    pose proof (test_list_rel eqr eqr_refl eqr_bind c c (fun t => eq_refl) _ _ Ht) as H2.
    unfold eqr in H1, H2. unfold parse_top. ego.
  Qed.

  Lemma level_level : recs_rel eqr (level c (pratt_impl c) R) (level c strat_impl R).
  Proof.
    repeat split; cbn [level r_test r_ortest r_exprlist r_args]; unfold eqr.
    - exact parse_test_level.
    - exact parse_or_test_level.
    - exact parse_expr_list_level.
    - exact parse_args_level.
  Qed.
End OneLevel.

(* ---------------------------------------------------------------------------------------------- *)
(* Part 7: all nesting levels *)

Lemma go_eq : forall c, table_ok c = true -> forall fuel,
  recs_rel eqr (go c (pratt_impl c) fuel) (go ref_cfg strat_impl fuel).
Proof.
  intros c Hok. induction fuel as [|f IH].
  - repeat split.
  - cbn [go].
    pose proof (level_level c Hok (go c (pratt_impl c) f)) as A.
    pose proof (level_rel eqr eqr_refl eqr_bind eqr_guard c ref_cfg (T_start c Hok) (T_unary c Hok) strat_impl
                  (strat_impl_rel eqr eqr_refl eqr_bind) eq_refl _ _ IH) as B.
    destruct A as (A1 & A2 & A3 & A4). destruct B as (B1 & B2 & B3 & B4). unfold eqr in *.
    repeat split; intros ts; [rewrite A1; apply B1|rewrite A2; apply B2|rewrite A3; apply B3|rewrite A4; apply B4].
Qed.

(* the full statement: the model of parser_rd.rs and the stratified reference grammar agree on every token
   list - same tree, same rejection, same out-of-fuel - for every binding-power table with table_ok *)
Theorem pratt_eq_grammar : forall c, table_ok c = true -> forall fuel ts,
  Model.parse c fuel ts = Grammar.parse_strict fuel ts.
Proof.
  intros c Hok fuel ts. unfold Model.parse, Grammar.parse_strict.
  rewrite (parse_top_level c Hok).
  exact (parse_top_rel eqr eqr_refl eqr_bind eqr_guard c ref_cfg (T_start c Hok) (T_unary c Hok) strat_impl
           (strat_impl_rel eqr eqr_refl eqr_bind) _ _ (go_eq c Hok fuel) true ts).
Qed.

Theorem pratt_eq_grammar_test : forall c, table_ok c = true -> forall fuel ts,
  parse_test_m c fuel ts = parse_test_g fuel ts.
Proof. intros c Hok fuel ts. apply (go_eq c Hok fuel). Qed.

(* the same at the extracted tables, as run by the tie *)
Corollary run_model_eq_grammar : forall ts, run_model ts = run_grammar_strict ts.
Proof.
  intros ts. unfold run_model, run_grammar_strict. destruct ext_cfg_some as [c [E Hok]]. rewrite E.
  apply pratt_eq_grammar. exact Hok.
Qed.

(* fuel monotonicity: a definitive answer does not change with more nesting fuel *)
Lemma go_mono_step : forall c I, impl_rel defr I -> i_reentry I = None -> forall f,
  recs_rel defr (go c I f) (go c I (S f)).
Proof.
  intros c I HI Hre. induction f as [|f IH].
  - repeat split; intros ts H; exfalso; apply H; reflexivity.
  - change (go c I (S (S f))) with (level c I (go c I (S f))). change (go c I (S f)) with (level c I (go c I f)) at 1.
    apply (level_rel defr defr_refl defr_bind defr_guard c c (fun t => eq_refl) (fun t => eq_refl) I HI Hre _ _ IH).
Qed.

Lemma grammar_fuel_mono_step : forall strict f ts,
  parse_top ref_cfg strat_impl (go ref_cfg strat_impl f) strict ts <> Oof ->
  parse_top ref_cfg strat_impl (go ref_cfg strat_impl (S f)) strict ts =
  parse_top ref_cfg strat_impl (go ref_cfg strat_impl f) strict ts.
Proof.
  intros strict f ts.
  exact (parse_top_rel defr defr_refl defr_bind defr_guard ref_cfg ref_cfg (fun t => eq_refl) (fun t => eq_refl) strat_impl
           (strat_impl_rel defr defr_refl defr_bind) _ _
           (go_mono_step ref_cfg strat_impl (strat_impl_rel defr defr_refl defr_bind) eq_refl f) strict ts).
Qed.

Theorem grammar_fuel_mono : forall f f' ts, (f <= f')%nat ->
  Grammar.parse_strict f ts <> Oof -> Grammar.parse_strict f' ts = Grammar.parse_strict f ts.
Proof.
  intros f f' ts Hle. induction Hle as [|m Hle IH]; intros H; [reflexivity|].
  unfold Grammar.parse_strict in *. rewrite grammar_fuel_mono_step; [apply IH; exact H|].
  rewrite (IH H). exact H.
Qed.

Theorem grammar_fuel_mono_lax : forall f f' ts, (f <= f')%nat ->
  Grammar.parse f ts <> Oof -> Grammar.parse f' ts = Grammar.parse f ts.
Proof.
  intros f f' ts Hle. induction Hle as [|m Hle IH]; intros H; [reflexivity|].
  unfold Grammar.parse in *. rewrite grammar_fuel_mono_step; [apply IH; exact H|].
  rewrite (IH H). exact H.
Qed.

Theorem model_fuel_mono : forall c, table_ok c = true -> forall f f' ts, (f <= f')%nat ->
  Model.parse c f ts <> Oof -> Model.parse c f' ts = Model.parse c f ts.
Proof.
  intros c Hok f f' ts Hle H. rewrite !(pratt_eq_grammar c Hok) in *. apply grammar_fuel_mono; auto.
Qed.

(* the full statement, read "for all sufficiently large fuel": whenever either side gives a definitive answer at
   some fuel, both give that answer at every larger fuel *)
Corollary pratt_eq_grammar_large_fuel : forall c, table_ok c = true -> forall f ts,
  Grammar.parse_strict f ts <> Oof ->
  forall f', (f <= f')%nat -> Model.parse c f' ts = Grammar.parse_strict f ts /\ Grammar.parse_strict f' ts = Grammar.parse_strict f ts.
Proof.
  intros c Hok f ts H f' Hle. rewrite (pratt_eq_grammar c Hok). split; apply grammar_fuel_mono; auto.
Qed.
