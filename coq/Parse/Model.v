(* C06 - executable model of starlark_syntax/src/syntax/parser_rd.rs (expression level).
   NO proofs in this file.

   Layout
   * Section Pratt   : `parse_expr` / the operator loop shared by `parse_expr` and `continue_infix`
                       (`infix_binding_power`, prefix `not`, two-token `not in`, `reject_chained_comparison`),
                       over an arbitrary operand parser P (= `parse_unary`).
   * Section Body    : everything else of the expression grammar: `parse_unary`, `parse_primary` /
                       `continue_primary`, `parse_index_or_slice`, `parse_atom`, list/dict displays and
                       comprehensions, `parse_test_list(_tail)`, `parse_expr_list`, `parse_lambda`,
                       `continue_ternary`, `parse_comma_separated_args` / `parse_argument`, and the checks the
                       parser applies to what it built (`check_assign`, call.rs: CallArgsUnpack::unpack,
                       def.rs: DefParams::unpack for lambda parameters).
                       The section is parametric in the implementation `I` of the operator layer, so that
                       Grammar.v can instantiate the same bracket/argument-list grammar with the stratified
                       reference instead of binding powers (Model := Body pratt_impl).
   * Fuel            : `go fuel` bounds the nesting depth (every sub-expression inside brackets, argument
                       lists, lambda bodies and conditional branches goes through the record `recs` of the
                       next lower level); loops use a local fuel `S (List.length tokens)`.
                       `Oof` is never produced on the drivers' inputs (fuel = number of tokens + 2).
   * Guard           : the real `parse_unary` consumes at least one token whenever it succeeds; the model
                       states this explicitly (`guard`), which is what makes the local loop fuel sufficient
                       for every operand parser. *)
From Coq Require Import ZArith NArith List String Bool.
From SV Require Import Parse.Tokens Parse.Ast.
Import ListNotations.
Open Scope Z_scope.

Definition guard (ts : toks) (r : pres) : pres :=
  match r with
  | Ok (e, rest) => if Nat.ltb (List.length rest) (List.length ts) then Ok (e, rest) else Err 99
  | r => r
  end.

(* ------------------------------------------------------------------------------------------- *)
Section Pratt.
  Variable c : cfg.
  Variable P : toks -> pres.          (* parse_unary *)

  (* reject_chained_comparison: true = the next token is a comparison operator (-> error) *)
  Definition reject_chained (ts : toks) : bool :=
    match ts with
    | t :: _ => match lookup (c_tbl c) t with Some (op, _, _) => is_cmp c op | None => false end
    | [] => false
    end.

  (* parse_expr(min_bp), and the `while let Some(tok) = self.peek()` loop.  The loop text occurs twice in
     parser_rd.rs (in parse_expr and in continue_infix) with its own `not in` literals: nl / nr. *)
  Fixpoint parse_expr (n : nat) (min_bp : Z) (ts : toks) : pres :=
    match n with
    | O => Oof
    | S n' =>
      '(lhs, r0) <- (match ts with
                     | t :: rest =>
                       if tok_is_not t && (min_bp <=? c_not_max c)
                       then '(e, r) <- parse_expr n' (c_not_rbp c) rest ;; Ok (ENot e, r)
                       else P ts
                     | [] => P ts
                     end) ;;
      infix_loop n' (c_ni_l c) (c_ni_r c) min_bp lhs r0
    end
  with infix_loop (n : nat) (nl nr : Z) (min_bp : Z) (lhs : expr) (ts : toks) : pres :=
    match n with
    | O => Oof
    | S n' =>
      match ts with
      | [] => Ok (lhs, ts)
      | t :: rest =>
        if tok_is_not t then
          (* the two-token operator `not in` *)
          if nl <? min_bp then Ok (lhs, ts)
          else match rest with
               | t2 :: rest' =>
                 if tok_is_in t2 then
                   '(rhs, r) <- parse_expr n' nr rest' ;;
                   if reject_chained r then Err 2
                   else infix_loop n' nl nr min_bp (EOp lhs NotIn rhs) r
                 else Err 1                                 (* expected 'in' after 'not' *)
               | [] => Err 1
               end
        else
          match lookup (c_tbl c) t with
          | None => Ok (lhs, ts)
          | Some (op, lb, rb) =>
            if lb <? min_bp then Ok (lhs, ts)
            else '(rhs, r) <- parse_expr n' rb rest ;;
                 if is_cmp c op && reject_chained r then Err 2
                 else infix_loop n' nl nr min_bp (EOp lhs op rhs) r
          end
      end
    end.

  Definition parse_expr_top (min_bp : Z) (ts : toks) : pres := parse_expr (S (List.length ts)) min_bp ts.
  (* continue_infix(lhs, min_bp) *)
  Definition continue_infix (min_bp : Z) (lhs : expr) (ts : toks) : pres :=
    infix_loop (S (List.length ts)) (c_nic_l c) (c_nic_r c) min_bp lhs ts.
  (* parse_bitor_expr *)
  Definition parse_bitor_expr (ts : toks) : pres :=
    '(lhs, r) <- P ts ;; continue_infix (c_bitor c) lhs r.
End Pratt.

(* ------------------------------------------------------------------------------------------- *)
(* the sub-parsers of the next lower nesting level *)
Record recs := {
  r_test : toks -> pres;                       (* parse_test *)
  r_ortest : toks -> pres;                     (* parse_or_test *)
  r_exprlist : toks -> pres;                   (* parse_expr_list *)
  r_args : toks -> res (list arg * toks)       (* parse_comma_separated_args *)
}.

(* implementation of the operator layer over the operand parser *)
Record impl := {
  i_test : (toks -> pres) -> toks -> pres;     (* parse_expr(c_test)   in parse_test *)
  i_ortest : (toks -> pres) -> toks -> pres;   (* parse_expr(c_ortest) in parse_or_test *)
  i_bitor : (toks -> pres) -> toks -> pres;    (* parse_bitor_expr *)
  i_reentry : option (Z * ((toks -> pres) -> Z -> expr -> toks -> pres))
       (* parse_argument: Some (c_arg, continue_infix) = re-enter after a consumed identifier;
          None = an argument that does not start `ident =` is a Test *)
}.

Definition pratt_impl (c : cfg) : impl :=
  {| i_test := fun P => parse_expr_top c P (c_test c);
     i_ortest := fun P => parse_expr_top c P (c_ortest c);
     i_bitor := parse_bitor_expr c;
     i_reentry := Some (c_arg c, continue_infix c) |}.

(* grammar_util.rs: check_assign *)
Fixpoint check_assign (e : expr) : bool :=
  match e with
  | ETuple l | EList l => forallb check_assign l
  | EDot _ _ | EIndex _ _ | EId _ => true
  | _ => false
  end.

(* check_assign also turns the expression into an AssignTarget, in which list and tuple patterns are the same
   constructor (AssignTarget::Tuple): the model keeps `expr` and normalises the pattern part *)
Fixpoint norm_target (e : expr) : expr :=
  match e with
  | ETuple l | EList l => ETuple (map norm_target l)
  | e => e
  end.

(* call.rs: CallArgsUnpack::unpack; stage Positional=0 < Named=1 < Args=2 < Kwargs=3 *)
Fixpoint check_args (stage : nat) (seen : list N) (l : list arg) : bool :=
  match l with
  | [] => true
  | APos _ :: r => if Nat.eqb stage 0 then check_args 0 seen r else false
  | ANamed n _ :: r =>
    if Nat.ltb 1 stage then false
    else if existsb (N.eqb n) seen then false else check_args 1 (n :: seen) r
  | AArgs _ :: r => if Nat.ltb 1 stage then false else check_args 2 seen r
  | AKwArgs _ :: r => if Nat.eqb stage 3 then false else check_args 3 seen r
  end.

(* def.rs: DefParams::unpack; state Normal=0 < SeenSlash=1 < SeenStar=2 < SeenStarStar=3 *)
Definition param_name (p : param) : option N :=
  match p with PNormal n _ | PArgs n | PKwArgs n => Some n | _ => None end.
Definition is_slash (p : param) : bool := match p with PSlash => true | _ => false end.
Fixpoint slash_pos (l : list param) : option nat :=
  match l with
  | [] => None
  | p :: r => if is_slash p then Some O else option_map S (slash_pos r)
  end.
Fixpoint check_params_loop (state : nat) (seen_opt : bool) (seen : list N) (l : list param) : bool :=
  match l with
  | [] => true
  | p :: r =>
    let dup := match param_name p with Some n => existsb (N.eqb n) seen | None => false end in
    let seen' := match param_name p with Some n => n :: seen | None => seen end in
    if dup then false else
    match p with
    | PNormal _ d =>
      if Nat.leb 3 state then false
      else match d with
           | None => if seen_opt && Nat.ltb state 2 then false else check_params_loop state seen_opt seen' r
           | Some _ => check_params_loop state true seen' r
           end
    | PNoArgs =>
      if Nat.leb 2 state then false
      else match r with                       (* `*` must be followed by a named parameter *)
           | PNormal _ _ :: _ => check_params_loop 2 seen_opt seen' r
           | _ => false
           end
    | PSlash => if Nat.leb 1 state then false else check_params_loop 1 seen_opt seen' r
    | PArgs _ => if Nat.leb 2 state then false else check_params_loop 2 seen_opt seen' r
    | PKwArgs _ => if Nat.leb 3 state then false else check_params_loop 3 seen_opt seen' r
    end
  end.
Definition check_params (l : list param) : bool :=
  match slash_pos l with
  | Some O => false                                   (* `/` cannot be first parameter *)
  | Some _ => check_params_loop 0 false [] l
  | None => check_params_loop 1 false [] l
  end.

(* ------------------------------------------------------------------------------------------- *)
Section Body.
  Variable c : cfg.
  Variable I : impl.
  Variable R : recs.

  Definition is_expr_start (t : token) : bool := name_in (c_start c) t.
  Definition is_test_start (t : token) : bool :=
    is_expr_start t || match t with TLambda => true | _ => false end.

  Definition expect (t : token) (ts : toks) : res toks :=
    match ts with
    | t' :: r => if token_eqb t t' then Ok r else Err 3
    | [] => Err 3
    end.

  (* the `while self.eat(&Token::Comma)` loop of parse_test_list_tail / parse_expr_list:
     returns the items, whether a trailing comma was seen, and the rest *)
  Fixpoint comma_loop (n : nat) (T : toks -> pres) (start : token -> bool) (acc : list expr) (ts : toks)
    : res (list expr * bool * toks) :=
    match n with
    | O => Oof
    | S n' =>
      match ts with
      | TComma :: r =>
        match r with
        | t :: _ => if start t then '(e, r') <- T r ;; comma_loop n' T start (e :: acc) r'
                    else Ok (rev acc, true, r)
        | [] => Ok (rev acc, true, r)
        end
      | _ => Ok (rev acc, false, ts)
      end
    end.

  (* parse_test_list_tail(first, allow_trailing_comma); ts starts at the comma *)
  Definition test_list_tail (T : toks -> pres) (allow : bool) (first : expr) (ts : toks) : pres :=
    '(it, r) <- comma_loop (S (List.length ts)) T is_test_start [first] ts ;;
    let '(items, trailing) := it in
    match items, trailing with
    | [x], false => Ok (x, r)
    | _, _ => if trailing && negb allow then Err 4     (* unparenthesized tuple with trailing comma *)
              else Ok (ETuple items, r)
    end.

  (* parse_test_list(allow_trailing_comma) *)
  Definition test_list (T : toks -> pres) (allow : bool) (ts : toks) : pres :=
    '(first, r) <- T ts ;;
    match r with
    | TComma :: _ => test_list_tail T allow first r
    | _ => Ok (first, r)
    end.

  (* parse_index_or_slice; ts is what follows `[` *)
  Definition slice_rest (e : expr) (start : option expr) (ts : toks) : pres :=
    (* after the first `:` *)
    '(stop, r1) <- (match ts with
                    | TClosingSquare :: _ | TColon :: _ => Ok (None, ts)
                    | _ => '(x, r) <- r_test R ts ;; Ok (Some x, r)
                    end) ;;
    '(step, r2) <- (match r1 with
                    | TColon :: r =>
                      match r with
                      | TClosingSquare :: _ => Ok (None, r)
                      | _ => '(x, r') <- r_test R r ;; Ok (Some x, r')
                      end
                    | _ => Ok (None, r1)
                    end) ;;
    r3 <- expect TClosingSquare r2 ;;
    Ok (ESlice e start stop step, r3).

  Definition index_or_slice (e : expr) (ts : toks) : pres :=
    match ts with
    | TColon :: r => slice_rest e None r
    | _ =>
      '(first, r) <- r_test R ts ;;
      match r with
      | TColon :: r' => slice_rest e (Some first) r'
      | TComma :: r' =>
        '(second, r1) <- r_test R r' ;;
        r2 <- expect TClosingSquare r1 ;; Ok (EIndex2 e first second, r2)
      | _ => r1 <- expect TClosingSquare r ;; Ok (EIndex e first, r1)
      end
    end.

  (* the suffix loop of parse_primary = continue_primary *)
  Fixpoint suffix_loop (n : nat) (lhs : expr) (ts : toks) : pres :=
    match n with
    | O => Oof
    | S n' =>
      match ts with
      | TDot :: r =>
        match r with
        | TIdentifier k :: r' => suffix_loop n' (EDot lhs k) r'
        | _ => Err 5
        end
      | TOpeningRound :: r =>
        '(args, r1) <- r_args R r ;;
        r2 <- expect TClosingRound r1 ;;
        if check_args 0 [] args then suffix_loop n' (ECall lhs args) r2 else Err 6   (* Expr::check_call *)
      | TOpeningSquare :: r =>
        '(e, r1) <- index_or_slice lhs r ;; suffix_loop n' e r1
      | _ => Ok (lhs, ts)
      end
    end.
  Definition continue_primary (lhs : expr) (ts : toks) : pres := suffix_loop (S (List.length ts)) lhs ts.

  (* parse_for_clause / parse_comp_clauses; ts starts at `for` *)
  Definition for_clause (ts : toks) : res (clause * toks) :=
    r0 <- expect TFor ts ;;
    '(var, r1) <- r_exprlist R r0 ;;
    r2 <- expect TIn r1 ;;
    '(over, r3) <- r_ortest R r2 ;;
    if check_assign var then Ok (CFor (norm_target var) over, r3) else Err 7.

  Fixpoint clause_loop (n : nat) (acc : list clause) (ts : toks) : res (list clause * toks) :=
    match n with
    | O => Oof
    | S n' =>
      match ts with
      | TFor :: _ => '(cl, r) <- for_clause ts ;; clause_loop n' (cl :: acc) r
      | TIf :: r => '(e, r') <- r_ortest R r ;; clause_loop n' (CIf e :: acc) r'
      | _ => Ok (rev acc, ts)
      end
    end.
  Definition comp_clauses (ts : toks) : res (list clause * toks) :=
    '(f, r) <- for_clause ts ;; clause_loop (S (List.length r)) [f] r.

  (* `while self.eat(&Token::Comma) { if self.peek() == close { break } ... }` of list / dict displays *)
  Fixpoint items_loop {A} (n : nat) (item : toks -> res (A * toks)) (close : token) (acc : list A) (ts : toks)
    : res (list A * toks) :=
    match n with
    | O => Oof
    | S n' =>
      match ts with
      | TComma :: r =>
        match r with
        | t :: _ => if token_eqb t close then Ok (rev acc, r)
                    else '(x, r') <- item r ;; items_loop n' item close (x :: acc) r'
        | [] => '(x, r') <- item r ;; items_loop n' item close (x :: acc) r'
        end
      | _ => Ok (rev acc, ts)
      end
    end.

  (* parse_list_or_comprehension; ts follows `[` *)
  Definition list_or_comp (ts : toks) : pres :=
    match ts with
    | TClosingSquare :: r => Ok (EList [], r)
    | _ =>
      '(first, r) <- r_test R ts ;;
      match r with
      | TFor :: _ =>
        '(cs, r1) <- comp_clauses r ;; r2 <- expect TClosingSquare r1 ;; Ok (EListComp first cs, r2)
      | _ =>
        '(items, r1) <- items_loop (S (List.length r)) (r_test R) TClosingSquare [first] r ;;
        r2 <- expect TClosingSquare r1 ;; Ok (EList items, r2)
      end
    end.

  Definition dict_entry (ts : toks) : res (expr * expr * toks) :=
    '(k, r) <- r_test R ts ;; r1 <- expect TColon r ;; '(v, r2) <- r_test R r1 ;; Ok (k, v, r2).

  (* parse_dict_or_comprehension; ts follows `{` *)
  Definition dict_or_comp (ts : toks) : pres :=
    match ts with
    | TClosingCurly :: r => Ok (EDict [], r)
    | _ =>
      '(kv, r) <- dict_entry ts ;;
      match r with
      | TFor :: _ =>
        '(cs, r1) <- comp_clauses r ;; r2 <- expect TClosingCurly r1 ;; Ok (EDictComp (fst kv) (snd kv) cs, r2)
      | _ =>
        '(items, r1) <- items_loop (S (List.length r)) dict_entry TClosingCurly [kv] r ;;
        r2 <- expect TClosingCurly r1 ;; Ok (EDict items, r2)
      end
    end.

  (* parse_atom (bytes, f-strings and `...` are outside the model's alphabet) *)
  Definition parse_atom (ts : toks) : pres :=
    match ts with
    | TIdentifier n :: r => Ok (EId n, r)
    | TInt n :: r => Ok (EInt n, r)
    | TFloat n :: r => Ok (EFloat n, r)
    | TString n :: r => Ok (EStr n, r)
    | TOpeningRound :: r =>
      match r with
      | TClosingRound :: r' => Ok (ETuple [], r')
      | _ => '(e, r1) <- test_list (r_test R) true r ;; r2 <- expect TClosingRound r1 ;; Ok (e, r2)
      end
    | TOpeningSquare :: r => list_or_comp r
    | TOpeningCurly :: r => dict_or_comp r
    | _ => Err 10
    end.

  (* parse_primary *)
  Definition parse_primary (ts : toks) : pres :=
    '(a, r) <- parse_atom ts ;; continue_primary a r.

  (* parse_unary: the prefix arms come from the source (c_unary) *)
  Definition unary_code (t : token) : N :=
    match find (fun p => String.eqb (fst p) (token_name t)) (c_unary c) with
    | Some (_, k) =>
      if String.eqb k "Plus" then 1%N
      else if String.eqb k "Minus" then 2%N
      else if String.eqb k "BitNot" then 3%N
      else if String.eqb k "Not" then 4%N
      else 0%N
    | None => 0%N
    end.
  Definition ctor_of_code (k : N) : option (expr -> expr) :=
    match k with
    | 1%N => Some EPlus | 2%N => Some EMinus | 3%N => Some EBitNot | 4%N => Some ENot | _ => None
    end.
  Definition unary_ctor (t : token) : option (expr -> expr) := ctor_of_code (unary_code t).
  Fixpoint unary_loop (n : nat) (ts : toks) : pres :=
    match n with
    | O => Oof
    | S n' =>
      match ts with
      | t :: r =>
        match unary_ctor t with
        | Some k => '(e, r') <- unary_loop n' r ;; Ok (k e, r')
        | None => parse_primary ts
        end
      | [] => parse_primary ts
      end
    end.
  Definition parse_unary (ts : toks) : pres := guard ts (unary_loop (S (List.length ts)) ts).

  (* continue_ternary *)
  Definition continue_ternary (e : expr) (ts : toks) : pres :=
    match ts with
    | TIf :: r =>
      '(cond, r1) <- r_ortest R r ;;
      r2 <- expect TElse r1 ;;
      '(f, r3) <- r_test R r2 ;;
      Ok (EIf cond e f, r3)
    | _ => Ok (e, ts)
    end.

  (* parse_lambda_param / parse_comma_separated_lambda_params *)
  Definition lambda_param (ts : toks) : res (param * toks) :=
    match ts with
    | TSlash :: r => Ok (PSlash, r)
    | TStarStar :: r => match r with TIdentifier n :: r' => Ok (PKwArgs n, r') | _ => Err 11 end
    | TStar :: r => match r with TIdentifier n :: r' => Ok (PArgs n, r') | _ => Ok (PNoArgs, r) end
    | TIdentifier n :: r =>
      match r with
      | TEqual :: r' => '(d, r'') <- r_test R r' ;; Ok (PNormal n (Some d), r'')
      | _ => Ok (PNormal n None, r)
      end
    | _ => Err 11
    end.
  Fixpoint params_loop (n : nat) (acc : list param) (ts : toks) : res (list param * toks) :=
    match n with
    | O => Oof
    | S n' =>
      '(p, r) <- lambda_param ts ;;
      match r with
      | TComma :: r' =>
        match r' with
        | TColon :: _ => Ok (rev (p :: acc), r')
        | _ => params_loop n' (p :: acc) r'
        end
      | _ => Ok (rev (p :: acc), r)
      end
    end.
  Definition lambda_params (ts : toks) : res (list param * toks) :=
    match ts with
    | TColon :: _ => Ok ([], ts)
    | _ => params_loop (S (List.length ts)) [] ts
    end.
  (* parse_lambda; ts follows `lambda`; validate.rs checks the parameters (DefParams::unpack) *)
  Definition parse_lambda (ts : toks) : pres :=
    '(ps, r) <- lambda_params ts ;;
    r1 <- expect TColon r ;;
    '(body, r2) <- r_test R r1 ;;
    if check_params ps then Ok (ELambda ps body, r2) else Err 12.

  (* parse_test / parse_or_test *)
  Definition parse_test (ts : toks) : pres :=
    match ts with
    | TLambda :: r => parse_lambda r
    | _ => '(e, r) <- i_test I parse_unary ts ;; continue_ternary e r
    end.
  Definition parse_or_test (ts : toks) : pres := i_ortest I parse_unary ts.

  (* parse_expr_list *)
  Definition parse_expr_list (ts : toks) : pres :=
    '(first, r) <- i_bitor I parse_unary ts ;;
    match r with
    | TComma :: _ =>
      '(it, r1) <- comma_loop (S (List.length r)) (i_bitor I parse_unary) is_expr_start [first] r ;;
      let '(items, trailing) := it in
      match items, trailing with
      | [x], false => Ok (x, r1)
      | _, _ => if trailing then Err 4 else Ok (ETuple items, r1)
      end
    | _ => Ok (first, r)
    end.

  (* parse_argument *)
  Definition parse_argument (ts : toks) : res (arg * toks) :=
    match ts with
    | TStarStar :: r => '(e, r') <- parse_test r ;; Ok (AKwArgs e, r')
    | TStar :: r => '(e, r') <- parse_test r ;; Ok (AArgs e, r')
    | TIdentifier k :: r =>
      match r with
      | TEqual :: r' => '(e, r'') <- parse_test r' ;; Ok (ANamed k e, r'')
      | _ =>
        match i_reentry I with
        | Some (min_bp, cont) =>
          (* the identifier is already consumed: continue_primary, continue_infix(0), continue_ternary *)
          '(e1, r1) <- continue_primary (EId k) r ;;
          if Nat.leb (List.length r1) (List.length r) then
            '(e2, r2) <- cont parse_unary min_bp e1 r1 ;;
            '(e3, r3) <- continue_ternary e2 r2 ;;
            Ok (APos e3, r3)
          else Err 99
        | None => '(e, r') <- parse_test ts ;; Ok (APos e, r')
        end
      end
    | _ => '(e, r') <- parse_test ts ;; Ok (APos e, r')
    end.

  (* parse_comma_separated_args *)
  Fixpoint args_loop (n : nat) (acc : list arg) (ts : toks) : res (list arg * toks) :=
    match n with
    | O => Oof
    | S n' =>
      '(a, r) <- parse_argument ts ;;
      match r with
      | TComma :: r' =>
        match r' with
        | TClosingRound :: _ => Ok (rev (a :: acc), r')
        | _ => args_loop n' (a :: acc) r'
        end
      | _ => Ok (rev (a :: acc), r)
      end
    end.
  Definition parse_args (ts : toks) : res (list arg * toks) :=
    match ts with
    | TClosingRound :: _ => Ok ([], ts)
    | _ => args_loop (S (List.length ts)) [] ts
    end.

  (* parse_assign_or_expr_stmt on a one-line module (the final Newline stripped):
     `test_list` | `test_list = test_list`; annotations and augmented assignments are not modelled.
     `strict` = the implementation's rule that an unparenthesised tuple is not an expression statement
     (`lhs_is_expr_list` without an assignment operator is an error). *)
  Definition parse_top (strict : bool) (ts : toks) : res stmt :=
    '(first, r0) <- parse_test ts ;;
    let is_list := match r0 with TComma :: _ => true | _ => false end in
    '(lhs, r) <- (if is_list then test_list_tail parse_test false first r0 else Ok (first, r0)) ;;
    match r with
    | [] => if is_list && strict then Err 15        (* `a, b` alone: "expected assignment operator" *)
            else Ok (SExpr lhs)
    | TColon :: _ => Unmodelled
    | TOther _ :: _ => Unmodelled
    | TEqual :: r' =>
      '(rhs, r'') <- test_list parse_test false r' ;;
      match r'' with
      | [] => if check_assign lhs then Ok (SAssign (norm_target lhs) rhs) else Err 13
      | _ => Err 14
      end
    | _ => Err 14
    end.

  Definition level : recs :=
    {| r_test := parse_test; r_ortest := parse_or_test; r_exprlist := parse_expr_list; r_args := parse_args |}.
End Body.

Definition oof_recs : recs :=
  {| r_test := fun _ => Oof; r_ortest := fun _ => Oof; r_exprlist := fun _ => Oof; r_args := fun _ => Oof |}.

Fixpoint go (c : cfg) (I : impl) (fuel : nat) : recs :=
  match fuel with
  | O => oof_recs
  | S f => level c I (go c I f)
  end.

(* the model of the real parser *)
Definition parse_test_m (c : cfg) (fuel : nat) : toks -> pres := r_test (go c (pratt_impl c) fuel).
Definition parse (c : cfg) (fuel : nat) (ts : toks) : res stmt := parse_top c (pratt_impl c) (go c (pratt_impl c) fuel) true ts.
