(* C06 - literal payloads: what the printer writes for a string / bytes value and what the lexer reads back.

   Printer  : ast.rs `fmt_string_literal` (string literals, load() module and symbol names, the desugared f-string
              format) as a table char -> escape text (the table is re-extracted from the match arms of the source on
              every run: Extracted.ParserC.str_escapes) + `every other char is written as itself`;
              ast.rs `impl Display for AstLiteral`, arm `Bytes`.
   Lexer    : lexer.rs `string(triple = false, raw = false, stop = the double quote)`, `escape`, `escape_char`,
              `bytes_string(false, false, ..)`, `escape_bytes` - the functions that read the text the printer writes.
              Only the character-by-character loop is modelled: the fast path in front of it returns the slice up to
              the closing quote when no `\`, CR or (non-triple) LF occurs, which is what the loop accumulates as well.
   A string value is a list of code points, a bytes value a list of numbers below 256, a text a list of code points.
   No proofs here. *)
From Coq Require Import NArith List Bool.
Import ListNotations.
Open Scope N_scope.

(* ---- printer: fmt_string_literal ---------------------------------------------------------- *)

Definition esc_table := list (N * list N).     (* match arms in source order: char, text written *)

Fixpoint esc_lookup (t : esc_table) (c : N) : option (list N) :=
  match t with
  | [] => None
  | (k, e) :: r => if k =? c then Some e else esc_lookup r c
  end.

(* `x => f.write_str(&x.to_string())` for every char without an arm *)
Definition escape_char (t : esc_table) (c : N) : list N :=
  match esc_lookup t c with Some e => e | None => [c] end.

Fixpoint escape_body (t : esc_table) (s : list N) : list N :=
  match s with
  | [] => []
  | c :: r => escape_char t c ++ escape_body t r
  end.

Definition print_string (t : esc_table) (s : list N) : list N := 34 :: escape_body t s ++ [34].

(* ---- printer: Display for AstLiteral::Bytes ----------------------------------------------- *)

Definition hex_digit (d : N) : N := if d <? 10 then 48 + d else 87 + d.   (* {:02x}: lower case *)

Definition escape_byte (b : N) : list N :=
  if b =? 34 then [92; 34]
  else if b =? 92 then [92; 92]
  else if b =? 10 then [92; 110]
  else if b =? 13 then [92; 114]
  else if b =? 9 then [92; 116]
  else if (32 <=? b) && (b <=? 126) then [b]
  else [92; 120; hex_digit (b / 16); hex_digit (b mod 16)].

Fixpoint escape_bytes_body (bs : list N) : list N :=
  match bs with
  | [] => []
  | b :: r => escape_byte b ++ escape_bytes_body r
  end.

Definition print_bytes (bs : list N) : list N := 98 :: 34 :: escape_bytes_body bs ++ [34].

(* ---- lexer: escape_char(it, min, max, radix) ---------------------------------------------- *)

(* char::to_digit *)
Definition to_digit (radix c : N) : option N :=
  let v := if (48 <=? c) && (c <=? 57) then Some (c - 48)
           else if (97 <=? c) && (c <=? 122) then Some (c - 87)
           else if (65 <=? c) && (c <=? 90) then Some (c - 55)
           else None in
  match v with
  | Some d => if d <? radix then Some d else None
  | None => None
  end.

(* the loop `while count < max`: `left` = max - count *)
Fixpoint escape_num (radix : N) (min left count : nat) (value : N) (s : list N) : option (N * list N) :=
  match left with
  | O => Some (value, s)
  | S left' =>
    match s with
    | [] => if Nat.leb min count then Some (value, s) else None
    | c :: r =>
      match to_digit radix c with
      | None => if Nat.leb min count then Some (value, s) else None
      | Some v => escape_num radix min left' (S count) (value * radix + v) r
      end
    end
  end.

(* char::from_u32: a Unicode scalar value *)
Definition from_u32 (v : N) : option N :=
  if (v <? 55296) || ((57344 <=? v) && (v <=? 1114111)) then Some v else None.

Definition escape_code (radix : N) (min max : nat) (s : list N) : option (N * list N) :=
  match escape_num radix min max 0 0 s with
  | Some (v, r) => match from_u32 v with Some c => Some (c, r) | None => None end
  | None => None
  end.

Definition push_code (x : option (N * list N)) : option (list N * list N) :=
  match x with Some (c, r) => Some ([c], r) | None => None end.

(* ---- lexer: escape (after a `\` inside a string) ------------------------------------------- *)

Definition lex_escape (s : list N) : option (list N * list N) :=
  match s with
  | [] => None
  | k :: r =>
    if k =? 110 then Some ([10], r)            (* n *)
    else if k =? 114 then Some ([13], r)       (* r *)
    else if k =? 116 then Some ([9], r)        (* t *)
    else if k =? 97 then Some ([7], r)         (* a *)
    else if k =? 98 then Some ([8], r)         (* b *)
    else if k =? 102 then Some ([12], r)       (* f *)
    else if k =? 118 then Some ([11], r)       (* v *)
    else if k =? 10 then Some ([], r)          (* backslash newline *)
    else if k =? 13 then                       (* backslash CR LF *)
      match r with
      | n :: r' => if n =? 10 then Some ([], r') else None
      | [] => None
      end
    else if k =? 120 then push_code (escape_code 16 2 2 r)     (* x *)
    else if k =? 117 then push_code (escape_code 16 4 4 r)     (* u *)
    else if k =? 85 then push_code (escape_code 16 8 8 r)      (* U *)
    else if (48 <=? k) && (k <=? 55) then push_code (escape_code 8 1 3 (k :: r))
    else if (k =? 34) || (k =? 39) || (k =? 92) then Some ([k], r)
    else Some ([92; k], r)
  end.

(* ---- lexer: string(triple = false, raw = false, stop = double quote), after the opening quote ------- *)
(* one unit of fuel per iteration of `while let Some(c) = it.next()`; result: value, text after the closing quote *)
Fixpoint lex_string_body (fuel : nat) (s : list N) : option (list N * list N) :=
  match fuel with
  | O => None
  | S f =>
    match s with
    | [] => None                                            (* UnfinishedStringLiteral *)
    | c :: r =>
      if c =? 34 then Some ([], r)                          (* stop(c) *)
      else if c =? 10 then None                             (* '\n' if !triple *)
      else if c =? 13 then lex_string_body f r              (* CR: ignored in all modes *)
      else if c =? 92 then
        match lex_escape r with
        | Some (p, r') =>
          match lex_string_body f r' with Some (v, rest) => Some (p ++ v, rest) | None => None end
        | None => None                                      (* Empty / InvalidEscapeSequence *)
        end
      else match lex_string_body f r with Some (v, rest) => Some (c :: v, rest) | None => None end
    end
  end.

Definition lex_string (fuel : nat) (s : list N) : option (list N * list N) :=
  match s with
  | q :: r => if q =? 34 then lex_string_body fuel r else None
  | [] => None
  end.

(* ---- lexer: bytes_string(false, false, double quote) and escape_bytes ------------------------------- *)

(* char::encode_utf8 *)
Definition utf8 (c : N) : list N :=
  if c <? 128 then [c]
  else if c <? 2048 then [192 + c / 64; 128 + c mod 64]
  else if c <? 65536 then [224 + c / 4096; 128 + (c / 64) mod 64; 128 + c mod 64]
  else [240 + c / 262144; 128 + (c / 4096) mod 64; 128 + (c / 64) mod 64; 128 + c mod 64].

Definition push_utf8 (x : option (N * list N)) : option (list N * list N) :=
  match x with Some (c, r) => Some (utf8 c, r) | None => None end.

Definition lex_escape_bytes (s : list N) : option (list N * list N) :=
  match s with
  | [] => None
  | k :: r =>
    if k =? 110 then Some ([10], r)
    else if k =? 114 then Some ([13], r)
    else if k =? 116 then Some ([9], r)
    else if k =? 97 then Some ([7], r)
    else if k =? 98 then Some ([8], r)
    else if k =? 102 then Some ([12], r)
    else if k =? 118 then Some ([11], r)
    else if k =? 10 then Some ([], r)
    else if k =? 13 then
      match r with
      | n :: r' => if n =? 10 then Some ([], r') else None
      | [] => None
      end
    else if k =? 120 then                                      (* \xHH: `c as u32 as u8` *)
      match escape_code 16 2 2 r with Some (c, r') => Some ([c mod 256], r') | None => None end
    else if k =? 117 then push_utf8 (escape_code 16 4 4 r)
    else if k =? 85 then push_utf8 (escape_code 16 8 8 r)
    else if (48 <=? k) && (k <=? 55) then
      match escape_code 8 1 3 (k :: r) with
      | Some (c, r') => if 255 <? c then None else Some ([c], r')
      | None => None
      end
    else if (k =? 34) || (k =? 39) || (k =? 92) then Some ([k], r)
    else Some (92 :: utf8 k, r)
  end.

Fixpoint lex_bytes_body (fuel : nat) (s : list N) : option (list N * list N) :=
  match fuel with
  | O => None
  | S f =>
    match s with
    | [] => None
    | c :: r =>
      if c =? 34 then Some ([], r)
      else if c =? 10 then None
      else if c =? 13 then lex_bytes_body f r
      else if c =? 92 then
        match lex_escape_bytes r with
        | Some (p, r') =>
          match lex_bytes_body f r' with Some (v, rest) => Some (p ++ v, rest) | None => None end
        | None => None
        end
      else match lex_bytes_body f r with Some (v, rest) => Some (utf8 c ++ v, rest) | None => None end
    end
  end.

Definition lex_bytes (fuel : nat) (s : list N) : option (list N * list N) :=
  match s with
  | b :: q :: r => if (b =? 98) && (q =? 34) then lex_bytes_body fuel r else None
  | _ => None
  end.

(* ---- when is an escape table safe?  (boolean, checked by computation on the extracted table) ---- *)

(* escape letters that `escape` decodes without looking further ahead *)
Definition simple_key (k : N) : bool :=
  negb ((k =? 10) || (k =? 13) || (k =? 120) || (k =? 117) || (k =? 85) || ((48 <=? k) && (k <=? 55))).

Definition simple_push (k : N) : list N :=
  if k =? 110 then [10]
  else if k =? 114 then [13]
  else if k =? 116 then [9]
  else if k =? 97 then [7]
  else if k =? 98 then [8]
  else if k =? 102 then [12]
  else if k =? 118 then [11]
  else if (k =? 34) || (k =? 39) || (k =? 92) then [k]
  else [92; k].

Definition is_single (l : list N) (c : N) : bool :=
  match l with [x] => x =? c | _ => false end.

(* an arm `c => write e`: e is backslash + a letter that decodes to c alone, or \xHH with value c *)
Definition esc_entry_ok (c : N) (e : list N) : bool :=
  match e with
  | [b; k] => (b =? 92) && simple_key k && is_single (simple_push k) c
  | [b; x; h1; h2] =>
    (b =? 92) && (x =? 120) &&
    match to_digit 16 h1, to_digit 16 h2 with
    | Some a, Some d => a * 16 + d =? c
    | _, _ => false
    end
  | _ => false
  end.

Definition has_arm (t : esc_table) (c : N) : bool :=
  match esc_lookup t c with Some _ => true | None => false end.

(* the four characters the lexer's loop does not take literally - closing quote, backslash, LF (error), CR (dropped) -
   have an arm, and every arm's text decodes to exactly its character *)
Definition esc_table_ok (t : esc_table) : bool :=
  has_arm t 34 && has_arm t 92 && has_arm t 10 && has_arm t 13 &&
  forallb (fun ce => esc_entry_ok (fst ce) (snd ce)) t.
