(* C06 - the expression AST (ast.rs: ExprP / ArgumentP / ParameterP / ClauseP with spans and payloads
   erased) and the parser result type.  Names and literals are opaque numbers (interned spellings). *)
From Coq Require Import ZArith NArith List String Bool.
From SV Require Import Parse.Tokens.
Import ListNotations.

Inductive expr :=
| EId (n : N) | EInt (n : N) | EFloat (n : N) | EStr (n : N)
| ETuple (l : list expr)
| EList (l : list expr)
| EDict (l : list (expr * expr))
| EDot (e : expr) (name : N)
| ECall (f : expr) (args : list arg)
| EIndex (e i : expr)
| EIndex2 (e i j : expr)
| ESlice (e : expr) (a b c : option expr)
| ELambda (ps : list param) (body : expr)
| ENot (e : expr) | EMinus (e : expr) | EPlus (e : expr) | EBitNot (e : expr)
| EOp (l : expr) (op : binop) (r : expr)
| EIf (c t f : expr)                       (* t if c else f *)
| EListComp (e : expr) (cs : list clause)  (* first clause is a CFor *)
| EDictComp (k v : expr) (cs : list clause)
with arg := APos (e : expr) | ANamed (n : N) (e : expr) | AArgs (e : expr) | AKwArgs (e : expr)
with param := PNormal (n : N) (d : option expr) | PNoArgs | PSlash | PArgs (n : N) | PKwArgs (n : N)
with clause := CFor (target over : expr) | CIf (e : expr).

(* statement forms of the one-line module the model accepts: `test_list` or `target = test_list` *)
Inductive stmt := SExpr (e : expr) | SAssign (lhs rhs : expr).

Inductive res (A : Type) :=
| Ok (a : A)
| Err (code : N)      (* a parse error (code = site, informational) *)
| Oof                 (* ran out of fuel (never on the drivers' inputs) *)
| Unmodelled.         (* syntax outside the model (type annotations, augmented assignment, ...) *)
Arguments Ok {A} a. Arguments Err {A} code. Arguments Oof {A}. Arguments Unmodelled {A}.

Definition bind {A B} (r : res A) (f : A -> res B) : res B :=
  match r with Ok a => f a | Err c => Err c | Oof => Oof | Unmodelled => Unmodelled end.
Notation "x <- r ;; k" := (bind r (fun x => k)) (at level 61, r at next level, right associativity).
Notation "' p <- r ;; k" := (bind r (fun x => let p := x in k)) (at level 61, p pattern, r at next level, right associativity).

Definition toks := list token.
Definition pres := res (expr * toks).
