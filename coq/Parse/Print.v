(* C06 - the printer: ast.rs `impl Display for Expr / Argument / Parameter / Clause / ForClause / AssignTarget`
   as a token list (the tokens of the text Display writes).  Every `Op`, `Not`, `If`, `Lambda` and tuple is
   parenthesised; the prefix operators + - ~ are not, but `fmt_postfix_receiver` parenthesises them when
   they are the receiver of `.name`, a call, an index or a slice, and an integer literal before `.name`.
   No proofs here. *)
From Coq Require Import ZArith NArith List Bool.
From SV Require Import Parse.Tokens Parse.Ast.
Import ListNotations.

Fixpoint sep_by (sep : toks) (l : list toks) : toks :=
  match l with
  | [] => []
  | [x] => x
  | x :: r => x ++ sep ++ sep_by sep r
  end.

Definition op_tokens (o : binop) : toks :=
  match o with
  | Or => [TOr] | And => [TAnd] | Equal => [TEqualEqual] | NotEqual => [TBangEqual] | Less => [TLessThan]
  | Greater => [TGreaterThan] | LessOrEqual => [TLessEqual] | GreaterOrEqual => [TGreaterEqual] | In => [TIn]
  | NotIn => [TNot; TIn] | Subtract => [TMinus] | Add => [TPlus] | Multiply => [TStar] | Percent => [TPercent]
  | Divide => [TSlash] | FloorDivide => [TSlashSlash] | BitAnd => [TAmpersand] | BitOr => [TPipe] | BitXor => [TCaret]
  | LeftShift => [TLessLess] | RightShift => [TGreaterGreater]
  end.

Definition is_prefix_op (e : expr) : bool :=
  match e with EMinus _ | EPlus _ | EBitNot _ => true | _ => false end.
Definition is_int (e : expr) : bool := match e with EInt _ => true | _ => false end.
Definition paren (t : toks) : toks := TOpeningRound :: t ++ [TClosingRound].
(* fmt_postfix_receiver *)
Definition recv (e : expr) (pe : toks) : toks := if is_prefix_op e then paren pe else pe.

Fixpoint print (e : expr) : toks :=
  match e with
  | EId n => [TIdentifier n]
  | EInt n => [TInt n]
  | EFloat n => [TFloat n]
  | EStr n => [TString n]
  | ETuple l =>
    paren (sep_by [TComma] (map print l) ++ match l with [_] => [TComma] | _ => [] end)
  | EList l => TOpeningSquare :: sep_by [TComma] (map print l) ++ [TClosingSquare]
  | EDict l =>
    TOpeningCurly :: sep_by [TComma] (map (fun kv => print (fst kv) ++ TColon :: print (snd kv)) l) ++ [TClosingCurly]
  | EDot e n =>
    (if is_int e then paren (print e) else recv e (print e)) ++ [TDot; TIdentifier n]
  | ECall f args =>
    recv f (print f) ++ TOpeningRound :: sep_by [TComma] (map print_arg args) ++ [TClosingRound]
  | EIndex e i => recv e (print e) ++ TOpeningSquare :: print i ++ [TClosingSquare]
  | EIndex2 e i j => recv e (print e) ++ TOpeningSquare :: print i ++ TComma :: print j ++ [TClosingSquare]
  | ESlice e a b c =>
    recv e (print e) ++ TOpeningSquare ::
      match a with Some x => print x ++ [TColon] | None => [TColon] end ++
      match b with Some x => print x | None => [] end ++
      match c with Some x => TColon :: print x | None => [] end ++ [TClosingSquare]
  | ELambda ps body =>
    paren (TLambda :: sep_by [TComma] (map print_param ps) ++ TColon :: print body)
  | ENot e => paren (TNot :: print e)
  | EMinus e => TMinus :: print e
  | EPlus e => TPlus :: print e
  | EBitNot e => TTilde :: print e
  | EOp l op r => paren (print l ++ op_tokens op ++ print r)
  | EIf c t f => paren (print t ++ TIf :: print c ++ TElse :: print f)
  | EListComp e cs => TOpeningSquare :: print e ++ concat (map print_clause cs) ++ [TClosingSquare]
  | EDictComp k v cs =>
    TOpeningCurly :: print k ++ TColon :: print v ++ concat (map print_clause cs) ++ [TClosingCurly]
  end
with print_arg (a : arg) : toks :=
  match a with
  | APos e => print e
  | ANamed n e => TIdentifier n :: TEqual :: print e
  | AArgs e => TStar :: print e
  | AKwArgs e => TStarStar :: print e
  end
with print_param (p : param) : toks :=
  match p with
  | PNormal n None => [TIdentifier n]
  | PNormal n (Some d) => TIdentifier n :: TEqual :: print d
  | PNoArgs => [TStar]
  | PSlash => [TSlash]
  | PArgs n => [TStar; TIdentifier n]
  | PKwArgs n => [TStarStar; TIdentifier n]
  end
with print_clause (c : clause) : toks :=
  match c with
  | CFor t o => TFor :: print t ++ TIn :: print o
  | CIf e => TIf :: print e
  end.

Definition print_stmt (s : stmt) : toks :=
  match s with
  | SExpr e => print e
  | SAssign l r => print l ++ TEqual :: print r
  end.
