(* C06 - proofs about the printer (Print.v = ast.rs Display as a token list): parsing the printed tokens gives the
   tree back.  The round trip is proved against the stratified reference grammar (Grammar.v) and transferred to
   the model of parser_rd.rs by ProofsFull.pratt_eq_grammar.

   Part P1: size, `printable` (what the parser can produce: valid call arguments, valid lambda parameters,
            comprehensions that start with `for`, normalised assignable loop targets), first/second token of a
            printed expression.
   Part P2: the stratified operator layer on fully parenthesised operands (generic operand parser).
   Part P3: the loops of the bracket grammar on printed separated lists.
   Part P4: the round trip by induction on the size, one lemma per constructor.
   Part P5: closed statements. *)
From Coq Require Import ZArith NArith List Bool Lia.
From SV Require Import Parse.Tokens Parse.Ast Parse.Model Parse.Grammar Parse.Print Parse.Cases Parse.Proofs Parse.ProofsFull.
Import ListNotations.
Local Open Scope nat_scope.

(* ---------------------------------------------------------------------------------------------- *)
(* Part P1 *)

Definition osize (f : expr -> nat) (o : option expr) : nat := match o with Some x => f x | None => O end.

Fixpoint esize (e : expr) : nat :=
  S match e with
    | EId _ | EInt _ | EFloat _ | EStr _ => O
    | ETuple l | EList l => list_sum (map esize l)
    | EDict l => list_sum (map (fun kv => esize (fst kv) + esize (snd kv)) l)
    | EDot e _ => esize e
    | ECall f args => esize f + list_sum (map asize args)
    | EIndex e i => esize e + esize i
    | EIndex2 e i j => esize e + esize i + esize j
    | ESlice e a b c => esize e + osize esize a + osize esize b + osize esize c
    | ELambda ps body => S (list_sum (map psize ps) + esize body)   (* two nesting levels: ( ... ) and the body *)
    | ENot e | EMinus e | EPlus e | EBitNot e => esize e
    | EOp l _ r => esize l + esize r
    | EIf c t f => S (esize c + esize t + esize f)
    | EListComp e cs => esize e + list_sum (map csize cs)
    | EDictComp k v cs => esize k + esize v + list_sum (map csize cs)
    end
with asize (a : arg) : nat :=
  match a with APos e | ANamed _ e | AArgs e | AKwArgs e => esize e end
with psize (p : param) : nat :=
  match p with PNormal _ (Some d) => esize d | _ => O end
with csize (c : clause) : nat :=
  match c with CFor t o => esize t + esize o | CIf e => esize e end.

(* a loop target as check_assign accepts it and as norm_target leaves it *)
Fixpoint target_ok (e : expr) : bool :=
  match e with
  | ETuple l => forallb target_ok l
  | EDot _ _ | EIndex _ _ | EId _ => true
  | _ => false
  end.

Definition oall (f : expr -> bool) (o : option expr) : bool := match o with Some x => f x | None => true end.
Definition clauses_ok (cs : list clause) : bool := match cs with CFor _ _ :: _ => true | _ => false end.

Fixpoint printable (e : expr) : bool :=
  match e with
  | EId _ | EInt _ | EFloat _ | EStr _ => true
  | ETuple l | EList l => forallb printable l
  | EDict l => forallb (fun kv => printable (fst kv) && printable (snd kv)) l
  | EDot e _ => printable e
  | ECall f args => printable f && forallb printable_arg args && check_args 0 [] args
  | EIndex e i => printable e && printable i
  | EIndex2 e i j => printable e && printable i && printable j
  | ESlice e a b c => printable e && oall printable a && oall printable b && oall printable c
  | ELambda ps body => forallb printable_param ps && check_params ps && printable body
  | ENot e | EMinus e | EPlus e | EBitNot e => printable e
  | EOp l _ r => printable l && printable r
  | EIf c t f => printable c && printable t && printable f
  | EListComp e cs => printable e && clauses_ok cs && forallb printable_clause cs
  | EDictComp k v cs => printable k && printable v && clauses_ok cs && forallb printable_clause cs
  end
with printable_arg (a : arg) : bool :=
  match a with APos e | ANamed _ e | AArgs e | AKwArgs e => printable e end
with printable_param (p : param) : bool :=
  match p with PNormal _ (Some d) => printable d | _ => true end
with printable_clause (c : clause) : bool :=
  match c with CFor t o => printable t && target_ok t && printable o | CIf e => printable e end.

Lemma esize_pos : forall e, (1 <= esize e)%nat.
Proof. destruct e; simpl; lia. Qed.

Lemma list_sum_in : forall A (f : A -> nat) l x, List.In x l -> (f x <= list_sum (map f l))%nat.
Proof.
  induction l as [|y l IH]; intros x H; simpl in *; [contradiction|].
  destruct H as [H|H]; [subst; lia|]. specialize (IH x H). lia.
Qed.

(* tokens *)
Definition suffix_start (t : token) : bool :=
  match t with TDot | TOpeningRound | TOpeningSquare => true | _ => false end.
Definition atom_start (t : token) : bool :=
  match t with
  | TIdentifier _ | TInt _ | TFloat _ | TString _ | TOpeningRound | TOpeningSquare | TOpeningCurly => true
  | _ => false
  end.
Definition prefix_tok (t : token) : bool := match t with TMinus | TPlus | TTilde => true | _ => false end.
Definition hd_ok (f : token -> bool) (ts : toks) : bool := match ts with [] => true | t :: _ => f t end.

(* the first token of a printed expression *)
Lemma print_head : forall e, exists t r, print e = t :: r /\
  (if is_prefix_op e then prefix_tok t = true else atom_start t = true).
Proof.
  assert (R : forall e tail, (exists t r, print e = t :: r /\ (if is_prefix_op e then prefix_tok t = true else atom_start t = true)) ->
              exists t r, recv e (print e) ++ tail = t :: r /\ atom_start t = true).
  { intros e tail (t & r & E & H). unfold recv. destruct (is_prefix_op e).
    - eexists _, _. split; [reflexivity|reflexivity].
    - rewrite E. eexists _, _. split; [reflexivity|exact H]. }
  induction e; cbn [print is_prefix_op paren]; try (eexists _, _; split; [reflexivity|reflexivity]).
  - destruct (is_int e); [eexists _, _; split; [reflexivity|reflexivity]|]. apply (R e _ IHe).
  - apply (R e _ IHe).
  - apply (R e1 _ IHe1).
  - apply (R e1 _ IHe1).
  - apply (R e _ IHe).
Qed.

Lemma print_nonempty : forall e, (1 <= List.length (print e))%nat.
Proof. intros e. destruct (print_head e) as (t & r & E & _). rewrite E. simpl. lia. Qed.

(* a printed expression that starts with an identifier continues, if at all, with a suffix *)
Lemma print_ident_second : forall e k r, print e = TIdentifier k :: r -> hd_ok suffix_start r = true.
Proof.
  assert (R : forall e k r tail t0, hd_ok suffix_start (t0 :: tail) = true ->
              (forall k r, print e = TIdentifier k :: r -> hd_ok suffix_start r = true) ->
              recv e (print e) ++ t0 :: tail = TIdentifier k :: r -> hd_ok suffix_start r = true).
  { intros e k r tail t0 H0 IH E. unfold recv in E. destruct (is_prefix_op e); [discriminate E|].
    destruct (print e) as [|t1 r1] eqn:Ep.
    - pose proof (print_nonempty e) as Hn. rewrite Ep in Hn. simpl in Hn. lia.
    - cbn [app] in E. inversion E; subst. specialize (IH k r1 eq_refl).
      destruct r1; [exact H0|exact IH]. }
  induction e; intros k r E; cbn [print paren] in E; try discriminate E.
  - inversion E; subst. reflexivity.
  - destruct (is_int e); [discriminate E|]. eapply (R e); [|exact IHe|exact E]. reflexivity.
  - eapply (R e); [|exact IHe|exact E]. reflexivity.
  - eapply (R e1); [|exact IHe1|exact E]. reflexivity.
  - eapply (R e1); [|exact IHe1|exact E]. reflexivity.
  - eapply (R e); [|exact IHe|exact E]. reflexivity.
Qed.

(* ---------------------------------------------------------------------------------------------- *)
(* Part P2: the stratified operator layer when every operand is a single unary-level phrase *)

Definition hd_none (ops : token -> option binop) (ts : toks) : Prop :=
  match ts with [] => True | t :: _ => ops t = None end.
(* the next token is no binary operator (and not the `not` of `not in`) *)
Definition quiet (ts : toks) : Prop := match ts with [] => True | t :: _ => ref_op t = None end.
Definition not_not (ts : toks) : Prop := hd_ok (fun t => negb (tok_is_not t)) ts = true.

Lemma quiet_none : forall ops rest, (forall t, ref_op t = None -> ops t = None) -> quiet rest -> hd_none ops rest.
Proof. intros ops [|t r] H Hq; simpl in *; auto. Qed.
Lemma quiet_cmp_start : forall rest, quiet rest -> cmp_start rest = false.
Proof. intros [|t r] Hq; [reflexivity|]. destruct t; simpl in Hq; try discriminate Hq; reflexivity. Qed.

Section Lift.
  Variable P : toks -> pres.

  Lemma left_level_stop : forall ops next ts e rest,
    next ts = Ok (e, rest) -> hd_none ops rest -> left_level ops next ts = Ok (e, rest).
  Proof.
    intros ops next ts e rest H Hq. unfold left_level. rewrite H. cbn [bind].
    destruct rest as [|t r]; cbn [lloop List.length]; [reflexivity|]. simpl in Hq. rewrite Hq. reflexivity.
  Qed.

  Lemma left_level_one : forall ops next t op ts1 ts2 l r rest,
    next ts1 = Ok (l, t :: ts2) -> ops t = Some op -> next ts2 = Ok (r, rest) -> hd_none ops rest ->
    left_level ops next ts1 = Ok (EOp l op r, rest).
  Proof.
    intros ops next t op ts1 ts2 l r rest H1 Ho H2 Hq. unfold left_level. rewrite H1. cbn [bind List.length lloop].
    rewrite Ho, H2. cbn [bind].
    destruct rest as [|t' r']; cbn [lloop]; [reflexivity|]. simpl in Hq. rewrite Hq. reflexivity.
  Qed.

  Lemma cmp_tail_stop : forall e rest, cmp_start rest = false -> g_cmp_tail P e rest = Ok (e, rest).
  Proof. intros e [|t r] Hq; [reflexivity|]. destruct t; simpl in Hq; try discriminate Hq; reflexivity. Qed.

  Lemma comparison_stop : forall ts e rest, g_bitor P ts = Ok (e, rest) -> cmp_start rest = false -> g_comparison P ts = Ok (e, rest).
  Proof. intros ts e rest H Hq. unfold g_comparison. rewrite H. cbn [bind]. apply cmp_tail_stop, Hq. Qed.

  Lemma comparison_one : forall t op ts1 ts2 l r rest,
    g_bitor P ts1 = Ok (l, t :: ts2) -> cmp_ops t = Some op -> g_bitor P ts2 = Ok (r, rest) -> cmp_start rest = false ->
    g_comparison P ts1 = Ok (EOp l op r, rest).
  Proof.
    intros t op ts1 ts2 l r rest H1 Ho H2 Hq. unfold g_comparison. rewrite H1. cbn [bind]. unfold g_cmp_tail.
    assert (tok_is_not t = false) as -> by (destruct t; simpl in Ho; try discriminate Ho; reflexivity).
    rewrite Ho, H2. cbn [bind]. rewrite Hq. reflexivity.
  Qed.

  Lemma comparison_notin : forall ts1 ts2 l r rest,
    g_bitor P ts1 = Ok (l, TNot :: TIn :: ts2) -> g_bitor P ts2 = Ok (r, rest) -> cmp_start rest = false ->
    g_comparison P ts1 = Ok (EOp l NotIn r, rest).
  Proof.
    intros ts1 ts2 l r rest H1 H2 Hq. unfold g_comparison. rewrite H1. cbn [bind]. unfold g_cmp_tail.
    cbn [tok_is_not tok_is_in]. rewrite H2. cbn [bind]. rewrite Hq. reflexivity.
  Qed.

  Lemma not_test_skip : forall ts, not_not ts -> g_not_test P ts = g_comparison P ts.
  Proof.
    intros [|t r] H; unfold g_not_test; cbn [g_not_loop List.length]; [reflexivity|].
    unfold not_not in H. simpl in H. destruct (tok_is_not t); [discriminate H|reflexivity].
  Qed.

  Ltac side :=
    first [ exact I | assumption | cbn; reflexivity | apply quiet_cmp_start; assumption
          | apply quiet_none; [ let t := fresh in let H := fresh in intros t H; destruct t; solve [ reflexivity | discriminate H ] | assumption ] ].

  (* climb the levels; `t` is the operator token to be taken at its own level (TOther 0: none) *)
  Ltac ladder tk :=
    lazymatch goal with
    | |- P _ = _ => eassumption
    | |- g_or_test _ _ = _ => unfold g_or_test; ladder tk
    | |- g_and_test _ _ = _ => unfold g_and_test; ladder tk
    | |- g_not_test _ _ = _ => rewrite not_test_skip by side; ladder tk
    | |- g_comparison _ _ = _ =>
        lazymatch eval cbv in (cmp_ops tk) with
        | Some _ => eapply comparison_one with (t := tk); [ ladder (TOther 0) | reflexivity | ladder (TOther 0) | side ]
        | None => apply comparison_stop; [ ladder tk | side ]
        end
    | |- g_bitor _ _ = _ => unfold g_bitor; ladder tk
    | |- g_bitxor _ _ = _ => unfold g_bitxor; ladder tk
    | |- g_bitand _ _ = _ => unfold g_bitand; ladder tk
    | |- g_shift _ _ = _ => unfold g_shift; ladder tk
    | |- g_arith _ _ = _ => unfold g_arith; ladder tk
    | |- g_term _ _ = _ => unfold g_term; ladder tk
    | |- left_level ?ops ?next _ = _ =>
        lazymatch eval cbv in (ops tk) with
        | Some _ => eapply left_level_one with (t := tk); [ ladder (TOther 0) | reflexivity | ladder (TOther 0) | side ]
        | None => apply left_level_stop; [ ladder tk | side ]
        end
    end.

  (* a single operand at every level *)
  Lemma or_test_of_unary : forall ts e rest, P ts = Ok (e, rest) -> not_not ts -> quiet rest ->
    g_or_test P ts = Ok (e, rest).
  Proof. intros ts e rest H Hn Hq. ladder (TOther 0). Qed.

  (* BitOr level: the next token may be a comparison operator (the `in` of a for clause) *)
  Lemma bitor_of_unary : forall ts e rest, P ts = Ok (e, rest) ->
    hd_none bitor_ops rest -> hd_none bitxor_ops rest -> hd_none bitand_ops rest -> hd_none shift_ops rest ->
    hd_none arith_ops rest -> hd_none term_ops rest ->
    g_bitor P ts = Ok (e, rest).
  Proof. intros ts e rest H H1 H2 H3 H4 H5 H6. ladder (TOther 0). Qed.

  (* one binary operator between two operands *)
  Lemma binop_parse : forall op ts1 ts2 l r rest,
    P ts1 = Ok (l, op_tokens op ++ ts2) -> P ts2 = Ok (r, rest) -> not_not ts1 -> not_not ts2 -> quiet rest ->
    g_or_test P ts1 = Ok (EOp l op r, rest).
  Proof.
    intros op ts1 ts2 l r rest H1 H2 Hn1 Hn2 Hq.
    destruct op; cbn [op_tokens app] in H1.
    - ladder TOr.
    - ladder TAnd.
    - ladder TEqualEqual.
    - ladder TBangEqual.
    - ladder TLessThan.
    - ladder TGreaterThan.
    - ladder TLessEqual.
    - ladder TGreaterEqual.
    - ladder TIn.
    - unfold g_or_test. apply left_level_stop; [|side]. unfold g_and_test. apply left_level_stop; [|side].
      rewrite not_test_skip by side.
      eapply comparison_notin; [ladder (TOther 0)|ladder (TOther 0)|side].
    - ladder TMinus.
    - ladder TPlus.
    - ladder TStar.
    - ladder TPercent.
    - ladder TSlash.
    - ladder TSlashSlash.
    - ladder TAmpersand.
    - ladder TPipe.
    - ladder TCaret.
    - ladder TLessLess.
    - ladder TGreaterGreater.
  Qed.
  Lemma not_test_not : forall ts, g_not_test P (TNot :: ts) = '(e, r) <- g_not_test P ts ;; Ok (ENot e, r).
  Proof. intros ts. reflexivity. Qed.

  (* `not x` *)
  Lemma notop_parse : forall ts x rest, P ts = Ok (x, rest) -> not_not ts -> quiet rest ->
    g_or_test P (TNot :: ts) = Ok (ENot x, rest).
  Proof.
    intros ts x rest H Hn Hq.
    assert (H2 : g_not_test P ts = Ok (x, rest)) by ladder (TOther 0).
    unfold g_or_test. apply left_level_stop; [|side]. unfold g_and_test. apply left_level_stop; [|side].
    rewrite not_test_not, H2. reflexivity.
  Qed.
End Lift.

(* ---------------------------------------------------------------------------------------------- *)
(* Part P3: the loops of the bracket grammar on printed separated lists *)

(* what may follow a printed Test / OrTest inside the printed text *)
Definition stop_test (t : token) : bool :=
  match t with
  | TClosingRound | TClosingSquare | TClosingCurly | TComma | TColon | TElse | TFor => true
  | _ => false
  end.
Definition stop_or (t : token) : bool := stop_test t || match t with TIf => true | _ => false end.
Definition folt (ts : toks) : Prop := hd_ok stop_test ts = true.
Definition folo (ts : toks) : Prop := hd_ok stop_or ts = true.
Definition nosuffix (ts : toks) : Prop := hd_ok (fun t => negb (suffix_start t)) ts = true.
Definition starts (f : token -> bool) (ts : toks) : Prop := exists t r, ts = t :: r /\ f t = true.

Lemma folt_folo : forall ts, folt ts -> folo ts.
Proof. intros [|t r] H; [reflexivity|]. unfold folt, folo, stop_or in *. simpl in *. rewrite H. reflexivity. Qed.
Lemma folo_quiet : forall ts, folo ts -> quiet ts.
Proof. intros [|t r] H; [exact I|]. unfold folo in H. destruct t; simpl in H; try discriminate H; reflexivity. Qed.
Lemma folo_nosuffix : forall ts, folo ts -> nosuffix ts.
Proof. intros [|t r] H; [reflexivity|]. unfold folo in H. destruct t; simpl in H; try discriminate H; reflexivity. Qed.
Lemma starts_app : forall f ts more, starts f ts -> starts f (ts ++ more).
Proof. intros f ts more (t & r & -> & H). exists t, (r ++ more). split; [reflexivity|exact H]. Qed.

Definition tail_of {A} (pr : A -> toks) (l : list A) : toks := concat (map (fun y => TComma :: pr y) l).

Lemma sep_by_cons : forall sep x l, sep_by sep (x :: l) = x ++ concat (map (fun y => sep ++ y) l).
Proof.
  intros sep x l. revert x. induction l as [|y l IH]; intros x.
  - simpl. rewrite app_nil_r. reflexivity.
  - change (sep_by sep (x :: y :: l)) with (x ++ sep ++ sep_by sep (y :: l)). rewrite IH.
    cbn [map concat]. rewrite <- !app_assoc. reflexivity.
Qed.
Lemma sep_comma_cons : forall A (pr : A -> toks) x l,
  sep_by [TComma] (map pr (x :: l)) = pr x ++ tail_of pr l.
Proof.
  intros A pr x l. cbn [map]. rewrite sep_by_cons. unfold tail_of. rewrite map_map. reflexivity.
Qed.
Lemma tail_of_cons : forall A (pr : A -> toks) x l rest,
  tail_of pr (x :: l) ++ rest = TComma :: pr x ++ tail_of pr l ++ rest.
Proof. intros. unfold tail_of. cbn [map concat app]. rewrite <- app_assoc. reflexivity. Qed.
Lemma tail_follow : forall A (pr : A -> toks) l rest, folt rest -> folt (tail_of pr l ++ rest).
Proof. intros A pr [|x l] rest H; [exact H|reflexivity]. Qed.

Lemma rev_step : forall A (x : A) acc l, rev (x :: acc) ++ l = rev acc ++ x :: l.
Proof. intros. cbn [rev]. rewrite <- app_assoc. reflexivity. Qed.

(* comma_loop over `, x1, x2 ... ` *)
Lemma comma_loop_print : forall (T : toks -> pres) start l n acc rest,
  (forall x, List.In x l -> forall rest', folt rest' -> T (print x ++ rest') = Ok (x, rest')) ->
  (forall x, List.In x l -> starts start (print x)) ->
  List.length l < n -> folt rest -> hd_ok (fun t => negb (token_eqb t TComma)) rest = true ->
  comma_loop n T start acc (tail_of print l ++ rest) = Ok (rev acc ++ l, false, rest).
Proof.
  intros T start. induction l as [|x l IH]; intros n acc rest HT Hs Hn Hf Hc.
  - destruct n as [|n]; [simpl in Hn; lia|]. cbn [tail_of map concat app comma_loop]. rewrite app_nil_r.
    destruct rest as [|t r]; [reflexivity|]. destruct t; try reflexivity. discriminate Hc.
  - destruct n as [|n]; [simpl in Hn; lia|]. rewrite tail_of_cons. cbn [comma_loop].
    destruct (Hs x (or_introl eq_refl)) as (t & r & E & Ht).
    assert (Hhead : print x ++ tail_of print l ++ rest = t :: (r ++ tail_of print l ++ rest)) by (rewrite E; reflexivity).
    rewrite Hhead, Ht, <- Hhead.
    rewrite (HT x (or_introl eq_refl)) by (apply tail_follow; exact Hf). cbn [bind].
    rewrite IH; [rewrite rev_step; reflexivity| | |simpl in Hn; lia|exact Hf|exact Hc].
    + intros y Hy. apply HT. right. exact Hy.
    + intros y Hy. apply Hs. right. exact Hy.
Qed.

(* items_loop (list and dict displays) over `, x1, x2 ...` followed by the closing bracket *)
Lemma items_loop_print : forall A (pr : A -> toks) (item : toks -> res (A * toks)) close l n acc rest,
  (forall x, List.In x l -> forall rest', folt rest' -> item (pr x ++ rest') = Ok (x, rest')) ->
  (forall x, List.In x l -> starts (fun t => negb (token_eqb t close)) (pr x)) ->
  List.length l < n -> folt rest -> hd_ok (fun t => negb (token_eqb t TComma)) rest = true ->
  items_loop n item close acc (tail_of pr l ++ rest) = Ok (rev acc ++ l, rest).
Proof.
  intros A pr item close. induction l as [|x l IH]; intros n acc rest HT Hs Hn Hf Hc.
  - destruct n as [|n]; [simpl in Hn; lia|]. cbn [tail_of map concat app items_loop]. rewrite app_nil_r.
    destruct rest as [|t r]; [reflexivity|]. destruct t; try reflexivity. discriminate Hc.
  - destruct n as [|n]; [simpl in Hn; lia|]. rewrite tail_of_cons. cbn [items_loop].
    destruct (Hs x (or_introl eq_refl)) as (t & r & E & Ht).
    assert (Hhead : pr x ++ tail_of pr l ++ rest = t :: (r ++ tail_of pr l ++ rest)) by (rewrite E; reflexivity).
    rewrite Hhead. apply negb_true_iff in Ht. rewrite Ht, <- Hhead.
    rewrite (HT x (or_introl eq_refl)) by (apply tail_follow; exact Hf). cbn [bind].
    rewrite IH; [rewrite rev_step; reflexivity| | |simpl in Hn; lia|exact Hf|exact Hc].
    + intros y Hy. apply HT. right. exact Hy.
    + intros y Hy. apply Hs. right. exact Hy.
Qed.

Lemma tail_length : forall A (pr : A -> toks) l, List.length l <= List.length (tail_of pr l).
Proof.
  intros A pr. induction l as [|x l IH]; [simpl; lia|].
  unfold tail_of in *. cbn [map concat List.length app]. rewrite app_length. lia.
Qed.

Section Loops.
  Variable R : recs.
  Local Notation c0 := ref_cfg.
  Local Notation I0 := strat_impl.

  (* parse_comma_separated_args over `a1, a2, ... )` *)
  Lemma args_loop_print : forall l a n acc rest0,
    (forall x, List.In x (a :: l) -> forall rest', folt rest' ->
       parse_argument c0 I0 R (print_arg x ++ rest') = Ok (x, rest')) ->
    (forall x, List.In x l -> starts (fun t => negb (token_eqb t TClosingRound)) (print_arg x)) ->
    List.length l < n ->
    args_loop c0 I0 R n acc (print_arg a ++ tail_of print_arg l ++ TClosingRound :: rest0)
    = Ok (rev acc ++ a :: l, TClosingRound :: rest0).
  Proof.
    induction l as [|b l IH]; intros a n acc rest0 HT Hs Hn.
    - destruct n as [|n]; [simpl in Hn; lia|]. cbn [tail_of map concat app args_loop].
      rewrite (HT a (or_introl eq_refl)) by reflexivity. cbn [bind]. reflexivity.
    - destruct n as [|n]; [simpl in Hn; lia|]. rewrite tail_of_cons. cbn [args_loop].
      rewrite (HT a (or_introl eq_refl)) by reflexivity. cbn [bind].
      destruct (Hs b (or_introl eq_refl)) as (t & r & E & Ht).
      assert (Hhead : print_arg b ++ tail_of print_arg l ++ TClosingRound :: rest0
                      = t :: (r ++ tail_of print_arg l ++ TClosingRound :: rest0)) by (rewrite E; reflexivity).
      assert (Hm : forall X Y : res (list arg * toks),
                 match print_arg b ++ tail_of print_arg l ++ TClosingRound :: rest0 with
                 | TClosingRound :: _ => X | _ => Y end = Y).
      { intros X Y. rewrite Hhead. destruct t; try reflexivity. discriminate Ht. }
      rewrite Hm. rewrite IH; [rewrite rev_step; reflexivity| | |simpl in Hn; lia].
      + intros y Hy. apply HT. right. exact Hy.
      + intros y Hy. apply Hs. right. exact Hy.
  Qed.

  (* parse_comma_separated_lambda_params over `p1, p2, ... :` *)
  Lemma params_loop_print : forall l p n acc rest0,
    (forall x, List.In x (p :: l) -> forall rest', folt rest' ->
       lambda_param R (print_param x ++ rest') = Ok (x, rest')) ->
    (forall x, List.In x l -> starts (fun t => negb (token_eqb t TColon)) (print_param x)) ->
    List.length l < n ->
    params_loop R n acc (print_param p ++ tail_of print_param l ++ TColon :: rest0)
    = Ok (rev acc ++ p :: l, TColon :: rest0).
  Proof.
    induction l as [|b l IH]; intros p n acc rest0 HT Hs Hn.
    - destruct n as [|n]; [simpl in Hn; lia|]. cbn [tail_of map concat app params_loop].
      rewrite (HT p (or_introl eq_refl)) by reflexivity. cbn [bind]. reflexivity.
    - destruct n as [|n]; [simpl in Hn; lia|]. rewrite tail_of_cons. cbn [params_loop].
      rewrite (HT p (or_introl eq_refl)) by reflexivity. cbn [bind].
      destruct (Hs b (or_introl eq_refl)) as (t & r & E & Ht).
      assert (Hhead : print_param b ++ tail_of print_param l ++ TColon :: rest0
                      = t :: (r ++ tail_of print_param l ++ TColon :: rest0)) by (rewrite E; reflexivity).
      assert (Hm : forall X Y : res (list param * toks),
                 match print_param b ++ tail_of print_param l ++ TColon :: rest0 with
                 | TColon :: _ => X | _ => Y end = Y).
      { intros X Y. rewrite Hhead. destruct t; try reflexivity. discriminate Ht. }
      rewrite Hm. rewrite IH; [rewrite rev_step; reflexivity| | |simpl in Hn; lia].
      + intros y Hy. apply HT. right. exact Hy.
      + intros y Hy. apply Hs. right. exact Hy.
  Qed.

  (* one printed clause parses back *)
  Definition clause_parses (cl : clause) : Prop :=
    forall rest', folo rest' ->
    match cl with
    | CFor _ _ => for_clause R (print_clause cl ++ rest') = Ok (cl, rest')
    | CIf e => r_ortest R (print e ++ rest') = Ok (e, rest')
    end.

  Lemma clauses_follow : forall cs rest, folo rest -> folo (concat (map print_clause cs) ++ rest).
  Proof. intros [|[t o|e] cs] rest H; [exact H|reflexivity|reflexivity]. Qed.

  Lemma clause_loop_print : forall cs n acc rest,
    (forall cl, List.In cl cs -> clause_parses cl) ->
    List.length cs < n -> folo rest ->
    hd_ok (fun t => match t with TFor | TIf => false | _ => true end) rest = true ->
    clause_loop R n acc (concat (map print_clause cs) ++ rest) = Ok (rev acc ++ cs, rest).
  Proof.
    induction cs as [|cl cs IH]; intros n acc rest HT Hn Hf Hc.
    - destruct n as [|n]; [simpl in Hn; lia|]. cbn [map concat app clause_loop]. rewrite app_nil_r.
      destruct rest as [|t r]; [reflexivity|]. destruct t; try reflexivity; discriminate Hc.
    - destruct n as [|n]; [simpl in Hn; lia|]. cbn [map concat]. rewrite <- app_assoc.
      pose proof (HT cl (or_introl eq_refl) _ (clauses_follow cs rest Hf)) as Hcl.
      assert (IH' : forall acc', clause_loop R n acc' (concat (map print_clause cs) ++ rest) = Ok (rev acc' ++ cs, rest)).
      { intros acc'. apply IH; [|simpl in Hn; lia|exact Hf|exact Hc]. intros y Hy. apply HT. right. exact Hy. }
      destruct cl as [t o|e].
      + change (print_clause (CFor t o) ++ concat (map print_clause cs) ++ rest)
          with (TFor :: (print t ++ TIn :: print o) ++ concat (map print_clause cs) ++ rest) in *.
        cbn [clause_loop]. rewrite Hcl. cbn [bind]. rewrite IH', rev_step. reflexivity.
      + cbn [print_clause app clause_loop]. rewrite Hcl. cbn [bind]. rewrite IH', rev_step. reflexivity.
  Qed.

  Lemma clauses_length : forall cs, List.length cs <= List.length (concat (map print_clause cs)).
  Proof.
    induction cs as [|cl cs IH]; [simpl; lia|]. cbn [map concat]. rewrite app_length.
    destruct cl; cbn [print_clause List.length]; simpl; lia.
  Qed.

  (* the suffix loop stops on a non-suffix token *)
  Lemma suffix_loop_stop : forall n e rest, nosuffix rest -> suffix_loop R (S n) e rest = Ok (e, rest).
  Proof.
    intros n e [|t r] H; [reflexivity|]. unfold nosuffix in H. destruct t; simpl in H; try discriminate H; reflexivity.
  Qed.
End Loops.

(* ---------------------------------------------------------------------------------------------- *)
(* Part P4: the round trip, by induction on the size *)

Definition GR : nat -> recs := go ref_cfg strat_impl.
Local Notation c0 := ref_cfg.
Local Notation I0 := strat_impl.
Local Notation PU R := (parse_unary ref_cfg R).

Definition expr_start_tok (t : token) : bool := prefix_tok t || atom_start t.

Lemma print_head' : forall e, starts expr_start_tok (print e).
Proof.
  intros e. destruct (print_head e) as (t & r & E & H). exists t, r. split; [exact E|].
  unfold expr_start_tok. destruct (is_prefix_op e); rewrite H; [reflexivity|apply orb_true_r].
Qed.
Lemma starts_print : forall (f : token -> bool) e, (forall t, expr_start_tok t = true -> f t = true) -> starts f (print e).
Proof. intros f e H. destruct (print_head' e) as (t & r & E & Ht). exists t, r. split; [exact E|apply H, Ht]. Qed.
Lemma starts_hd : forall f ts, starts f ts -> hd_ok f ts = true.
Proof. intros f ts (t & r & -> & H). exact H. Qed.

Ltac tokcases := let t := fresh "t" in let H := fresh "H" in intros t H; destruct t; solve [ reflexivity | discriminate H ].

(* the printed phrase `w` of a primary expression `e`: its atom, and the suffix loop catching up with e *)
Definition atom_spec (R : recs) (w : toks) (e : expr) : Prop :=
  forall rest, exists a r0 d,
    parse_atom c0 R (w ++ rest) = Ok (a, r0) /\
    (forall k, suffix_loop R (k + d) a r0 = suffix_loop R k e rest) /\
    d + List.length rest <= List.length r0.

Definition Stm (e : expr) (f : nat) : Prop :=
  (forall rest, nosuffix rest -> forall n, List.length (print e) <= n ->
     unary_loop c0 (GR f) n (print e ++ rest) = Ok (e, rest)) /\
  (is_prefix_op e = false -> atom_spec (GR f) (print e) e).

Section Level.
  Variable R : recs.

  Lemma unary_loop_atom : forall n ts, starts atom_start ts -> unary_loop c0 R (S n) ts = parse_primary c0 R ts.
  Proof. intros n ts (t & r & -> & Ht). cbn [unary_loop]. destruct t; try discriminate Ht; reflexivity. Qed.

  Lemma primary_of_atom : forall w e rest, atom_spec R w e -> nosuffix rest -> parse_primary c0 R (w ++ rest) = Ok (e, rest).
  Proof.
    intros w e rest H Hn. destruct (H rest) as (a & r0 & d & Ha & Hs & Hl).
    unfold parse_primary. rewrite Ha. cbn [bind]. unfold continue_primary.
    replace (S (List.length r0)) with ((S (List.length r0) - d) + d) by lia. rewrite Hs.
    destruct (S (List.length r0) - d) as [|m] eqn:E; [lia|]. apply suffix_loop_stop, Hn.
  Qed.

  (* a parenthesised Test is an atom *)
  Lemma paren_atom : forall inner e rest,
    r_test R (inner ++ TClosingRound :: rest) = Ok (e, TClosingRound :: rest) ->
    starts (fun t => negb (token_eqb t TClosingRound)) inner ->
    parse_atom c0 R (paren inner ++ rest) = Ok (e, rest).
  Proof.
    intros inner e rest H (t & r & E & Ht). unfold paren. cbn [app]. rewrite <- app_assoc. cbn [app parse_atom].
    assert (Hm : forall (X : toks -> pres) (Y : pres), match inner ++ TClosingRound :: rest with TClosingRound :: r' => X r' | _ => Y end = Y).
    { intros X Y. rewrite E. cbn [app]. destruct t; try reflexivity. discriminate Ht. }
    rewrite (Hm (fun r' => Ok (ETuple [], r'))). unfold test_list. rewrite H. cbn [bind expect token_eqb]. reflexivity.
  Qed.
  Lemma paren_atom_spec : forall inner e,
    (forall rest, r_test R (inner ++ TClosingRound :: rest) = Ok (e, TClosingRound :: rest)) ->
    starts (fun t => negb (token_eqb t TClosingRound)) inner ->
    atom_spec R (paren inner) e.
  Proof.
    intros inner e H Hs rest. exists e, rest, 0. split; [apply paren_atom; auto|]. split; [|lia].
    intros k. rewrite Nat.add_0_r. reflexivity.
  Qed.

  (* one more suffix *)
  Lemma suffix_spec : forall w x stoks e,
    atom_spec R w x -> 1 <= List.length stoks ->
    (forall k rest, suffix_loop R (S k) x (stoks ++ rest) = suffix_loop R k e rest) ->
    atom_spec R (w ++ stoks) e.
  Proof.
    intros w x stoks e Hx Hl Hstep rest. destruct (Hx (stoks ++ rest)) as (a & r0 & d & Ha & Hs & Hd).
    exists a, r0, (S d). rewrite <- app_assoc. split; [exact Ha|]. split.
    - intros k. rewrite Nat.add_succ_r, <- Nat.add_succ_l, Hs. apply Hstep.
    - rewrite app_length in Hd. lia.
  Qed.

  Lemma parse_test_nolambda : forall ts, hd_ok (fun t => match t with TLambda => false | _ => true end) ts = true ->
    parse_test c0 I0 R ts = '(e, r) <- g_or_test (PU R) ts ;; continue_ternary R e r.
  Proof. intros [|t r] H; [reflexivity|]. destruct t; try reflexivity. discriminate H. Qed.

  Lemma continue_ternary_stop : forall e rest, folt rest -> continue_ternary R e rest = Ok (e, rest).
  Proof. intros e [|t r] H; [reflexivity|]. unfold folt in H. destruct t; simpl in H; try discriminate H; reflexivity. Qed.
End Level.

Lemma not_not_print : forall e rest, not_not (print e ++ rest).
Proof.
  intros e rest. unfold not_not. apply starts_hd, starts_app, starts_print. tokcases.
Qed.

(* what Stm gives at its level *)
Section StmUse.
  Variables (e : expr) (f : nat).
  Hypothesis H : Stm e f.

  Lemma stm_unary : forall rest, nosuffix rest -> PU (GR f) (print e ++ rest) = Ok (e, rest).
  Proof.
    intros rest Hn. unfold parse_unary. destruct H as [HU _].
    rewrite (HU rest Hn) by (rewrite app_length; lia). cbn [guard].
    assert (Nat.ltb (List.length rest) (List.length (print e ++ rest)) = true) as ->; [|reflexivity].
    apply Nat.ltb_lt. rewrite app_length. pose proof (print_nonempty e). lia.
  Qed.

  Lemma stm_or_test : forall rest, folo rest -> g_or_test (PU (GR f)) (print e ++ rest) = Ok (e, rest).
  Proof.
    intros rest Hf. apply or_test_of_unary; [apply stm_unary, folo_nosuffix, Hf|apply not_not_print|apply folo_quiet, Hf].
  Qed.

  Lemma stm_test : forall rest, folt rest -> r_test (GR (S f)) (print e ++ rest) = Ok (e, rest).
  Proof.
    intros rest Hf. change (r_test (GR (S f))) with (parse_test c0 I0 (GR f)).
    rewrite parse_test_nolambda by (apply starts_hd, starts_app, starts_print; tokcases).
    rewrite (stm_or_test rest (folt_folo _ Hf)). cbn [bind]. apply continue_ternary_stop, Hf.
  Qed.

  Lemma stm_ortest : forall rest, folo rest -> r_ortest (GR (S f)) (print e ++ rest) = Ok (e, rest).
  Proof. intros rest Hf. change (r_ortest (GR (S f))) with (g_or_test (PU (GR f))). apply stm_or_test, Hf. Qed.

  Lemma stm_exprlist : forall rest, r_exprlist (GR (S f)) (print e ++ TIn :: rest) = Ok (e, TIn :: rest).
  Proof.
    intros rest. change (r_exprlist (GR (S f))) with (parse_expr_list c0 I0 (GR f)).
    unfold parse_expr_list. cbn [strat_impl i_bitor].
    rewrite (bitor_of_unary (PU (GR f)) _ e (TIn :: rest)); try exact I; try reflexivity.
    apply stm_unary. reflexivity.
  Qed.
End StmUse.

(* non-prefix expressions: the atom specification gives the unary loop *)
Lemma stm_of_atom : forall e f, is_prefix_op e = false -> atom_spec (GR f) (print e) e -> Stm e f.
Proof.
  intros e f Hp Ha. split; [|intros _; exact Ha].
  intros rest Hn n Hlen. destruct n as [|n]; [pose proof (print_nonempty e); lia|].
  rewrite unary_loop_atom.
  - apply primary_of_atom; assumption.
  - apply starts_app. destruct (print_head e) as (t & r & E & Ht). rewrite Hp in Ht. exists t, r. auto.
Qed.

(* prefix operators: one step of the unary loop *)
Lemma stm_prefix : forall (k : expr -> expr) t x f,
  unary_ctor c0 t = Some k -> print (k x) = t :: print x -> is_prefix_op (k x) = true -> Stm x f -> Stm (k x) f.
Proof.
  intros k t x f Hk Hp Hpre [HU _]. split; [|rewrite Hpre; discriminate].
  intros rest Hn n Hlen. rewrite Hp in *. cbn [List.length] in Hlen. destruct n as [|n]; [lia|].
  cbn [app unary_loop]. rewrite Hk. rewrite HU; [reflexivity|exact Hn|lia].
Qed.


Lemma target_ok_spec : forall n t, esize t <= n -> target_ok t = true -> check_assign t = true /\ norm_target t = t.
Proof.
  induction n as [|n IH]; intros t Hs Ht; [pose proof (esize_pos t); lia|].
  destruct t; simpl in Ht; try discriminate Ht; try (split; reflexivity).
  cbn [check_assign norm_target]. cbn [esize] in Hs.
  assert (H : forallb check_assign l = true /\ map norm_target l = l).
  { assert (Hl : forall x, List.In x l -> esize x <= n).
    { intros x Hx. pose proof (list_sum_in _ esize l x Hx). lia. }
    clear Hs. induction l as [|x l IHl]; [split; reflexivity|].
    cbn [forallb map] in *. apply andb_true_iff in Ht. destruct Ht as [Hx Hr].
    destruct (IH x (Hl x (or_introl eq_refl)) Hx) as [A B].
    destruct (IHl Hr (fun y Hy => Hl y (or_intror Hy))) as [C D].
    rewrite A, B, C, D. split; reflexivity. }
  destruct H as [A B]. rewrite A, B. split; reflexivity.
Qed.

(* split a scrutinised token list on its first token (constrained by H : starts f ts), then restore it *)
Ltac dispatch H :=
  match type of H with
  | starts _ ?ts =>
    let t := fresh "t" in let r := fresh "r" in let E := fresh "E" in let Ht := fresh "Ht" in
    destruct H as (t & r & E & Ht); rewrite E; destruct t; simpl in Ht; try discriminate Ht;
    cbv iota; try rewrite <- E; clear E Ht
  end.

Lemma match_not_for : forall A (ts : toks) (X Y : A),
  hd_ok (fun t => match t with TFor => false | _ => true end) ts = true ->
  match ts with TFor :: _ => X | _ => Y end = Y.
Proof. intros A [|t r] X Y H; [reflexivity|]. destruct t; try reflexivity. discriminate H. Qed.

Lemma match_for : forall A (ts : toks) (X Y : A),
  starts (fun t => match t with TFor => true | _ => false end) ts ->
  match ts with TFor :: _ => X | _ => Y end = X.
Proof. intros A ts X Y (t & r & -> & H). destruct t; try discriminate H. reflexivity. Qed.

Section Step.
  Variable N : nat.
  Hypothesis IH : forall x, esize x <= N -> printable x = true -> forall f, esize x <= S f -> Stm x f.

  Lemma child_test : forall x f rest, esize x <= N -> esize x <= f -> printable x = true -> folt rest ->
    r_test (GR f) (print x ++ rest) = Ok (x, rest).
  Proof.
    intros x f rest H1 H2 Hp Hf. destruct f as [|f]; [pose proof (esize_pos x); lia|]. apply stm_test; auto.
  Qed.
  Lemma child_ortest : forall x f rest, esize x <= N -> esize x <= f -> printable x = true -> folo rest ->
    r_ortest (GR f) (print x ++ rest) = Ok (x, rest).
  Proof.
    intros x f rest H1 H2 Hp Hf. destruct f as [|f]; [pose proof (esize_pos x); lia|]. apply stm_ortest; auto.
  Qed.
  Lemma child_exprlist : forall x f rest, esize x <= N -> esize x <= f -> printable x = true ->
    r_exprlist (GR f) (print x ++ TIn :: rest) = Ok (x, TIn :: rest).
  Proof.
    intros x f rest H1 H2 Hp. destruct f as [|f]; [pose proof (esize_pos x); lia|]. apply stm_exprlist; auto.
  Qed.

  Lemma starts_noclose : forall x, starts (fun t => negb (token_eqb t TClosingRound)) (print x).
  Proof. intros x. apply starts_print. tokcases. Qed.

  (* ---- literals and names ---- *)
  Lemma stm_atom : forall e f t, print e = [t] -> is_prefix_op e = false ->
    (forall rest, parse_atom c0 (GR f) (t :: rest) = Ok (e, rest)) -> Stm e f.
  Proof.
    intros e f t Hp Hpre Ha. apply stm_of_atom; [exact Hpre|]. intros rest. exists e, rest, 0.
    rewrite Hp. cbn [app]. split; [apply Ha|]. split; [|lia]. intros k. rewrite Nat.add_0_r. reflexivity.
  Qed.

  (* ---- prefix operators + - ~ ---- *)
  Lemma stm_unop : forall (k : expr -> expr) t x f,
    unary_ctor c0 t = Some k -> print (k x) = t :: print x -> is_prefix_op (k x) = true ->
    esize x <= N -> esize x <= S f -> printable x = true -> Stm (k x) f.
  Proof. intros k t x f H1 H2 H3 Hs Hf Hp. eapply stm_prefix; eauto. Qed.

  (* ---- parenthesised operator forms ---- *)
  Lemma stm_not : forall x f, esize x <= N -> S (esize x) <= S f -> printable x = true -> Stm (ENot x) f.
  Proof.
    intros x f Hs Hf Hp. apply stm_of_atom; [reflexivity|]. cbn [print].
    apply paren_atom_spec; [|eexists _, _; split; [reflexivity|reflexivity]].
    intros rest. destruct f as [|f']; [pose proof (esize_pos x); lia|].
    change (r_test (GR (S f'))) with (parse_test c0 I0 (GR f')). cbn [app].
    rewrite parse_test_nolambda by reflexivity.
    rewrite (notop_parse (PU (GR f')) (print x ++ TClosingRound :: rest) x (TClosingRound :: rest)).
    - cbn [bind]. apply continue_ternary_stop. reflexivity.
    - apply stm_unary; [apply IH; auto; lia|reflexivity].
    - apply not_not_print.
    - reflexivity.
  Qed.

  Lemma stm_op : forall l op r f, esize l <= N -> esize r <= N -> S (esize l + esize r) <= S f ->
    printable l = true -> printable r = true -> Stm (EOp l op r) f.
  Proof.
    intros l op r f Hsl Hsr Hf Hpl Hpr. apply stm_of_atom; [reflexivity|]. cbn [print].
    apply paren_atom_spec; [|apply starts_app, starts_noclose].
    intros rest. destruct f as [|f']; [pose proof (esize_pos l); pose proof (esize_pos r); lia|].
    change (r_test (GR (S f'))) with (parse_test c0 I0 (GR f')). rewrite <- !app_assoc.
    rewrite parse_test_nolambda by (apply starts_hd, starts_app, starts_print; tokcases).
    rewrite (binop_parse (PU (GR f')) op _ (print r ++ TClosingRound :: rest) l r (TClosingRound :: rest)).
    - cbn [bind]. apply continue_ternary_stop. reflexivity.
    - apply stm_unary; [apply IH; auto; lia|]. destruct op; reflexivity.
    - apply stm_unary; [apply IH; auto; lia|reflexivity].
    - apply not_not_print.
    - apply not_not_print.
    - reflexivity.
  Qed.
  (* ---- receivers of suffixes ---- *)
  Lemma recv_spec : forall x f, esize x <= N -> esize x <= f -> printable x = true ->
    atom_spec (GR f) (recv x (print x)) x /\ atom_spec (GR f) (paren (print x)) x.
  Proof.
    intros x f Hs Hf Hp.
    assert (Hpar : atom_spec (GR f) (paren (print x)) x).
    { apply paren_atom_spec; [|apply starts_noclose]. intros rest. apply child_test; auto. reflexivity. }
    split; [|exact Hpar]. unfold recv. destruct (is_prefix_op x) eqn:E; [exact Hpar|].
    apply (IH x Hs Hp f ltac:(lia)). exact E.
  Qed.

  Lemma stm_dot : forall x n f, esize x <= N -> esize x <= f -> printable x = true -> Stm (EDot x n) f.
  Proof.
    intros x n f Hs Hf Hp. apply stm_of_atom; [reflexivity|]. cbn [print].
    destruct (recv_spec x f Hs Hf Hp) as [A B].
    apply (suffix_spec (GR f) _ x); [destruct (is_int x); assumption|simpl; lia|].
    intros k rest. reflexivity.
  Qed.

  Lemma index_print : forall x i f rest, esize i <= N -> esize i <= f -> printable i = true ->
    index_or_slice (GR f) x (print i ++ TClosingSquare :: rest) = Ok (EIndex x i, rest).
  Proof.
    intros x i f rest Hs Hf Hp. unfold index_or_slice.
    assert (Hh : starts (fun t => negb (token_eqb t TColon)) (print i ++ TClosingSquare :: rest))
        by (apply starts_app, starts_print; tokcases).
    dispatch Hh; (rewrite child_test by (auto; reflexivity)); reflexivity.
  Qed.

  Lemma stm_index : forall x i f, esize x <= N -> esize i <= N -> esize x + esize i <= f ->
    printable x = true -> printable i = true -> Stm (EIndex x i) f.
  Proof.
    intros x i f Hsx Hsi Hf Hpx Hpi. apply stm_of_atom; [reflexivity|]. cbn [print].
    destruct (recv_spec x f Hsx ltac:(lia) Hpx) as [A _].
    apply (suffix_spec (GR f) _ x); [exact A|simpl; lia|].
    intros k rest. cbn [app suffix_loop]. rewrite <- app_assoc. cbn [app].
    rewrite index_print by (auto; lia). reflexivity.
  Qed.

  Lemma index2_print : forall x i j f rest, esize i <= N -> esize i <= f -> printable i = true ->
    esize j <= N -> esize j <= f -> printable j = true ->
    index_or_slice (GR f) x (print i ++ TComma :: print j ++ TClosingSquare :: rest) = Ok (EIndex2 x i j, rest).
  Proof.
    intros x i j f rest Hs Hf Hp Hsj Hfj Hpj. unfold index_or_slice.
    assert (Hh : starts (fun t => negb (token_eqb t TColon)) (print i ++ TComma :: print j ++ TClosingSquare :: rest))
        by (apply starts_app, starts_print; tokcases).
    dispatch Hh; (rewrite child_test by (auto; reflexivity)); cbn [bind];
      (rewrite child_test by (auto; reflexivity)); reflexivity.
  Qed.

  Lemma stm_index2 : forall x i j f, esize x <= N -> esize i <= N -> esize j <= N -> esize x + esize i + esize j <= f ->
    printable x = true -> printable i = true -> printable j = true -> Stm (EIndex2 x i j) f.
  Proof.
    intros x i j f Hsx Hsi Hsj Hf Hpx Hpi Hpj. apply stm_of_atom; [reflexivity|]. cbn [print].
    destruct (recv_spec x f Hsx ltac:(lia) Hpx) as [A _].
    apply (suffix_spec (GR f) _ x); [exact A|simpl; lia|].
    intros k rest. cbn [app suffix_loop]. rewrite <- !app_assoc. cbn [app]. rewrite <- app_assoc. cbn [app].
    rewrite index2_print by (auto; lia). reflexivity.
  Qed.
  (* ---- slices ---- *)
  Definition slice_b (b : option expr) : toks := match b with Some x => print x | None => [] end.
  Definition slice_c (c : option expr) : toks := match c with Some x => TColon :: print x | None => [] end.
  Arguments slice_b : simpl never.
  Arguments slice_c : simpl never.

  Definition slice_stop (R : recs) (ts : toks) : res (option expr * toks) :=
    match ts with
    | TClosingSquare :: _ | TColon :: _ => Ok (None, ts)
    | _ => '(x, r) <- r_test R ts ;; Ok (Some x, r)
    end.
  Definition slice_step (R : recs) (r1 : toks) : res (option expr * toks) :=
    match r1 with
    | TColon :: r =>
      match r with
      | TClosingSquare :: _ => Ok (None, r)
      | _ => '(x, r') <- r_test R r ;; Ok (Some x, r')
      end
    | _ => Ok (None, r1)
    end.
  Lemma slice_rest_eq : forall R e start ts,
    slice_rest R e start ts =
    '(stop, r1) <- slice_stop R ts ;; '(step, r2) <- slice_step R r1 ;;
    r3 <- expect TClosingSquare r2 ;; Ok (ESlice e start stop step, r3).
  Proof. reflexivity. Qed.

  Lemma slice_step_print : forall c f rest,
    (forall y, c = Some y -> esize y <= N /\ esize y <= f /\ printable y = true) ->
    slice_step (GR f) (slice_c c ++ TClosingSquare :: rest) = Ok (c, TClosingSquare :: rest).
  Proof.
    intros c f rest Hc. destruct c as [z|]; unfold slice_c, slice_step; cbn [app]; [|reflexivity].
    destruct (Hc z eq_refl) as (H1 & H2 & H3).
    assert (Hh : starts (fun t => negb (token_eqb t TClosingSquare)) (print z ++ TClosingSquare :: rest))
        by (apply starts_app, starts_print; tokcases).
    dispatch Hh; (rewrite child_test by (auto; reflexivity)); reflexivity.
  Qed.

  Lemma slice_stop_print : forall b c f rest,
    (forall y, b = Some y -> esize y <= N /\ esize y <= f /\ printable y = true) ->
    slice_stop (GR f) (slice_b b ++ slice_c c ++ TClosingSquare :: rest) = Ok (b, slice_c c ++ TClosingSquare :: rest).
  Proof.
    intros b c f rest Hb. unfold slice_stop. destruct b as [y|]; unfold slice_b; cbn [app].
    - destruct (Hb y eq_refl) as (H1 & H2 & H3).
      assert (Hh : starts (fun t => negb (token_eqb t TClosingSquare) && negb (token_eqb t TColon)) (print y ++ slice_c c ++ TClosingSquare :: rest))
        by (apply starts_app, starts_print; tokcases).
      assert (Hf : folt (slice_c c ++ TClosingSquare :: rest)) by (destruct c; reflexivity).
      dispatch Hh; (rewrite child_test by auto); reflexivity.
    - destruct c; reflexivity.
  Qed.

  Lemma slice_rest_print : forall x start b c f rest,
    (forall y, b = Some y -> esize y <= N /\ esize y <= f /\ printable y = true) ->
    (forall y, c = Some y -> esize y <= N /\ esize y <= f /\ printable y = true) ->
    slice_rest (GR f) x start (slice_b b ++ slice_c c ++ TClosingSquare :: rest) = Ok (ESlice x start b c, rest).
  Proof.
    intros x start b c f rest Hb Hc. rewrite slice_rest_eq, slice_stop_print by exact Hb. cbn [bind].
    rewrite slice_step_print by exact Hc. reflexivity.
  Qed.

  Definition slice_a (a : option expr) : toks := match a with Some x => print x ++ [TColon] | None => [TColon] end.
  Lemma print_slice : forall x a b c,
    print (ESlice x a b c) = recv x (print x) ++ (TOpeningSquare :: slice_a a ++ slice_b b ++ slice_c c ++ [TClosingSquare]).
  Proof. reflexivity. Qed.

  Lemma ios_slice_print : forall x a b c f rest,
    (forall o y, (o = a \/ o = b \/ o = c) -> o = Some y -> esize y <= N /\ esize y <= f /\ printable y = true) ->
    index_or_slice (GR f) x (slice_a a ++ slice_b b ++ slice_c c ++ TClosingSquare :: rest) = Ok (ESlice x a b c, rest).
  Proof.
    intros x a b c f rest Ho. unfold index_or_slice. destruct a as [y|]; unfold slice_a.
    - destruct (Ho (Some y) y (or_introl eq_refl) eq_refl) as (H1 & H2 & H3). rewrite <- app_assoc.
      change ([TColon] ++ slice_b b ++ slice_c c ++ TClosingSquare :: rest)
        with (TColon :: slice_b b ++ slice_c c ++ TClosingSquare :: rest).
      assert (Hh : starts (fun t => negb (token_eqb t TColon)) (print y ++ TColon :: slice_b b ++ slice_c c ++ TClosingSquare :: rest))
        by (apply starts_app, starts_print; tokcases).
      dispatch Hh; (rewrite child_test by (auto; reflexivity)); cbn [bind];
        (apply slice_rest_print; [intros z Hz; apply (Ho b z (or_intror (or_introl eq_refl)) Hz)|intros z Hz; apply (Ho c z (or_intror (or_intror eq_refl)) Hz)]).
    - change ([TColon] ++ slice_b b ++ slice_c c ++ TClosingSquare :: rest)
        with (TColon :: slice_b b ++ slice_c c ++ TClosingSquare :: rest).
      apply slice_rest_print; [intros z Hz; apply (Ho b z (or_intror (or_introl eq_refl)) Hz)|intros z Hz; apply (Ho c z (or_intror (or_intror eq_refl)) Hz)].
  Qed.

  Lemma stm_slice : forall x a b c f, esize x <= N -> esize x <= f -> printable x = true ->
    (forall o y, (o = a \/ o = b \/ o = c) -> o = Some y -> esize y <= N /\ esize y <= f /\ printable y = true) ->
    Stm (ESlice x a b c) f.
  Proof.
    intros x a b c f Hsx Hf Hpx Ho. apply stm_of_atom; [reflexivity|]. rewrite print_slice.
    destruct (recv_spec x f Hsx Hf Hpx) as [A _].
    apply (suffix_spec (GR f) _ x); [exact A|simpl; lia|].
    intros k rest.
    replace ((TOpeningSquare :: slice_a a ++ slice_b b ++ slice_c c ++ [TClosingSquare]) ++ rest)
      with (TOpeningSquare :: slice_a a ++ slice_b b ++ slice_c c ++ TClosingSquare :: rest)
      by (cbn [app]; rewrite <- !app_assoc; reflexivity).
    cbn [suffix_loop]. rewrite ios_slice_print by exact Ho. reflexivity.
  Qed.
  (* ---- calls ---- *)
  Lemma stm_ptest : forall e f rest, Stm e f -> folt rest -> parse_test c0 I0 (GR f) (print e ++ rest) = Ok (e, rest).
  Proof. intros e f rest H Hf. exact (stm_test e f H rest Hf). Qed.

  Lemma arg_ident_shape : forall e rest k l0, folt rest -> print e ++ rest = TIdentifier k :: l0 ->
    hd_ok (fun t => negb (token_eqb t TEqual)) l0 = true.
  Proof.
    intros e rest k l0 Hf H. destruct (print e) as [|t1 r1] eqn:Ep.
    - pose proof (print_nonempty e) as Hn. rewrite Ep in Hn. simpl in Hn. lia.
    - cbn [app] in H. inversion H; subst. pose proof (print_ident_second e k r1 Ep) as H2.
      destruct r1 as [|t2 r2]; cbn [app].
      + destruct rest as [|t r]; [reflexivity|]. unfold folt in Hf. destruct t; simpl in Hf; try discriminate Hf; reflexivity.
      + simpl in H2. destruct t2; try discriminate H2; reflexivity.
  Qed.

  Lemma pos_arg_parse : forall e f rest, Stm e f -> folt rest ->
    parse_argument c0 I0 (GR f) (print e ++ rest) = Ok (APos e, rest).
  Proof.
    intros e f rest H Hf. pose proof (stm_ptest e f rest H Hf) as Hpt.
    pose proof (arg_ident_shape e rest) as Hsh.
    assert (Hst : starts expr_start_tok (print e ++ rest)) by (apply starts_app, print_head').
    remember (print e ++ rest) as ts eqn:E. clear E. unfold parse_argument.
    destruct Hst as (t & l0 & -> & Ht).
    destruct t; simpl in Ht; try discriminate Ht; cbv iota; try (rewrite Hpt; reflexivity).
    specialize (Hsh n l0 Hf eq_refl).
    destruct l0 as [|t2 l1]; [cbn [strat_impl i_reentry]; rewrite Hpt; reflexivity|].
    destruct t2; simpl in Hsh; try discriminate Hsh; cbv iota; cbn [strat_impl i_reentry]; rewrite Hpt; reflexivity.
  Qed.

  Lemma arg_parse : forall a f rest, asize a <= N -> asize a <= S f -> printable_arg a = true -> folt rest ->
    parse_argument c0 I0 (GR f) (print_arg a ++ rest) = Ok (a, rest).
  Proof.
    intros a f rest Hs Hf Hp Hr. destruct a as [e|n e|e|e]; cbn [print_arg asize printable_arg] in *.
    - apply pos_arg_parse; auto.
    - cbn [app parse_argument]. rewrite stm_ptest by auto. reflexivity.
    - cbn [app parse_argument]. rewrite stm_ptest by auto. reflexivity.
    - cbn [app parse_argument]. rewrite stm_ptest by auto. reflexivity.
  Qed.

  Lemma starts_print_arg : forall a, starts (fun t => negb (token_eqb t TClosingRound)) (print_arg a).
  Proof.
    destruct a; cbn [print_arg]; [apply starts_noclose| | |]; eexists _, _; (split; [reflexivity|reflexivity]).
  Qed.

  Lemma args_print : forall args f rest,
    (forall a, List.In a args -> asize a <= N /\ asize a <= f /\ printable_arg a = true) -> 1 <= f ->
    r_args (GR f) (sep_by [TComma] (map print_arg args) ++ TClosingRound :: rest) = Ok (args, TClosingRound :: rest).
  Proof.
    intros args f rest Ha Hf. destruct f as [|f']; [lia|].
    change (r_args (GR (S f'))) with (parse_args c0 I0 (GR f')).
    destruct args as [|a l]; [reflexivity|].
    rewrite sep_comma_cons, <- app_assoc. unfold parse_args.
    assert (Hh : starts (fun t => negb (token_eqb t TClosingRound)) (print_arg a ++ tail_of print_arg l ++ TClosingRound :: rest))
      by (apply starts_app, starts_print_arg).
    assert (Hlen : List.length l < S (List.length (print_arg a ++ tail_of print_arg l ++ TClosingRound :: rest))).
    { rewrite !app_length. pose proof (tail_length _ print_arg l). lia. }
    assert (Hloop : forall n, List.length l < n ->
              args_loop c0 I0 (GR f') n [] (print_arg a ++ tail_of print_arg l ++ TClosingRound :: rest)
              = Ok (a :: l, TClosingRound :: rest)).
    { intros n Hn. rewrite args_loop_print; [reflexivity| | |exact Hn].
      - intros x Hx rest' Hr. destruct (Ha x Hx) as (H1 & H2 & H3). apply arg_parse; auto.
      - intros x Hx. apply starts_print_arg. }
    dispatch Hh; apply Hloop; exact Hlen.
  Qed.

  Lemma bracket_app : forall (o cl : token) (S0 rest : toks), (o :: S0 ++ [cl]) ++ rest = o :: S0 ++ cl :: rest.
  Proof. intros. cbn [app]. rewrite <- app_assoc. reflexivity. Qed.

  Lemma stm_call : forall x args f, esize x <= N -> esize x <= f -> printable x = true ->
    (forall a, List.In a args -> asize a <= N /\ asize a <= f /\ printable_arg a = true) -> 1 <= f ->
    check_args 0 [] args = true -> Stm (ECall x args) f.
  Proof.
    intros x args f Hsx Hf Hpx Ha H1 Hchk. apply stm_of_atom; [reflexivity|]. cbn [print].
    destruct (recv_spec x f Hsx Hf Hpx) as [A _].
    apply (suffix_spec (GR f) _ x); [exact A|simpl; lia|].
    intros k rest. rewrite bracket_app. cbn [suffix_loop]. rewrite args_print by auto.
    cbn [bind expect token_eqb]. rewrite Hchk. reflexivity.
  Qed.
  (* ---- tuples, list and dict displays ---- *)
  Lemma atom_spec_direct : forall f w e, (forall rest, parse_atom c0 (GR f) (w ++ rest) = Ok (e, rest)) -> atom_spec (GR f) w e.
  Proof.
    intros f w e H rest. exists e, rest, 0. split; [apply H|]. split; [|lia]. intros k. rewrite Nat.add_0_r. reflexivity.
  Qed.

  Lemma starts_test_start : forall x, starts (is_test_start c0) (print x).
  Proof. intros x. apply starts_print. tokcases. Qed.

  Definition tuple_extra (l' : list expr) : toks := match l' with [] => [TComma] | _ => [] end.
  Lemma print_tuple_cons : forall x l' rest,
    print (ETuple (x :: l')) ++ rest =
    TOpeningRound :: print x ++ tail_of print l' ++ tuple_extra l' ++ TClosingRound :: rest.
  Proof.
    intros x l' rest. cbn [print]. rewrite sep_comma_cons. unfold paren.
    change (match x :: l' with [_] => [TComma] | _ => [] end) with (tuple_extra l').
    cbn [app]. rewrite <- !app_assoc. reflexivity.
  Qed.

  Lemma stm_tuple : forall l f,
    (forall x, List.In x l -> esize x <= N /\ esize x <= f /\ printable x = true) -> Stm (ETuple l) f.
  Proof.
    intros l f Hl. apply stm_of_atom; [reflexivity|]. apply atom_spec_direct. intros rest.
    destruct l as [|x l']; [reflexivity|]. rewrite print_tuple_cons.
    destruct (Hl x (or_introl eq_refl)) as (H1 & H2 & H3).
    assert (Hfol : folt (tail_of print l' ++ tuple_extra l' ++ TClosingRound :: rest)) by (destruct l'; reflexivity).
    cbn [parse_atom].
    assert (Hh : starts (fun t => negb (token_eqb t TClosingRound))
                   (print x ++ tail_of print l' ++ tuple_extra l' ++ TClosingRound :: rest))
      by (apply starts_app, starts_noclose).
    assert (Htl : test_list c0 (r_test (GR f)) true (print x ++ tail_of print l' ++ tuple_extra l' ++ TClosingRound :: rest)
                  = Ok (ETuple (x :: l'), TClosingRound :: rest)).
    { unfold test_list. rewrite child_test by auto. cbn [bind].
      destruct l' as [|y l''].
      - reflexivity.
      - unfold tuple_extra. cbn [app]. rewrite tail_of_cons. unfold test_list_tail.
        rewrite <- tail_of_cons.
        rewrite comma_loop_print; [reflexivity| | | |reflexivity|reflexivity].
        + intros z Hz rest' Hr. destruct (Hl z (or_intror Hz)) as (A & B & C). apply child_test; auto.
        + intros z Hz. apply starts_test_start.
        + pose proof (tail_length _ print (y :: l'')). rewrite app_length. lia. }
    dispatch Hh; rewrite Htl; reflexivity.
  Qed.

  Lemma stm_list : forall l f,
    (forall x, List.In x l -> esize x <= N /\ esize x <= f /\ printable x = true) -> Stm (EList l) f.
  Proof.
    intros l f Hl. apply stm_of_atom; [reflexivity|]. apply atom_spec_direct. intros rest.
    destruct l as [|x l']; [reflexivity|]. cbn [print]. rewrite sep_comma_cons, bracket_app, <- app_assoc.
    destruct (Hl x (or_introl eq_refl)) as (H1 & H2 & H3).
    cbn [parse_atom]. unfold list_or_comp.
    assert (Hfol : folt (tail_of print l' ++ TClosingSquare :: rest)) by (destruct l'; reflexivity).
    assert (Hh : starts (fun t => negb (token_eqb t TClosingSquare)) (print x ++ tail_of print l' ++ TClosingSquare :: rest))
      by (apply starts_app, starts_print; tokcases).
    assert (Hit : forall n, List.length l' < n ->
              items_loop n (r_test (GR f)) TClosingSquare [x] (tail_of print l' ++ TClosingSquare :: rest)
              = Ok (x :: l', TClosingSquare :: rest)).
    { intros n Hn. rewrite items_loop_print; [reflexivity| | |exact Hn|reflexivity|reflexivity].
      - intros z Hz rest' Hr. destruct (Hl z (or_intror Hz)) as (A & B & C). apply child_test; auto.
      - intros z Hz. apply starts_print. tokcases. }
    assert (Hnf : hd_ok (fun t => match t with TFor => false | _ => true end) (tail_of print l' ++ TClosingSquare :: rest) = true)
      by (destruct l'; reflexivity).
    dispatch Hh; (rewrite child_test by auto); cbn [bind]; rewrite match_not_for by exact Hnf;
      rewrite Hit by (pose proof (tail_length _ print l'); rewrite app_length; lia); reflexivity.
  Qed.

  Definition print_kv (kv : expr * expr) : toks := print (fst kv) ++ TColon :: print (snd kv).

  Lemma dict_entry_print : forall kv f rest,
    esize (fst kv) <= N -> esize (fst kv) <= f -> printable (fst kv) = true ->
    esize (snd kv) <= N -> esize (snd kv) <= f -> printable (snd kv) = true -> folt rest ->
    dict_entry (GR f) (print_kv kv ++ rest) = Ok (kv, rest).
  Proof.
    intros [k v] f rest A1 A2 A3 B1 B2 B3 Hr. cbn [fst snd] in *. unfold print_kv, dict_entry. cbn [fst snd].
    rewrite <- app_assoc. cbn [app]. rewrite child_test by (auto; reflexivity). cbn [bind expect token_eqb].
    rewrite child_test by auto. reflexivity.
  Qed.

  Lemma stm_dict : forall l f,
    (forall kv, List.In kv l -> (esize (fst kv) <= N /\ esize (fst kv) <= f /\ printable (fst kv) = true) /\
                                (esize (snd kv) <= N /\ esize (snd kv) <= f /\ printable (snd kv) = true)) ->
    Stm (EDict l) f.
  Proof.
    intros l f Hl. apply stm_of_atom; [reflexivity|]. apply atom_spec_direct. intros rest.
    destruct l as [|kv l']; [reflexivity|]. cbn [print].
    change (fun kv0 : expr * expr => print (fst kv0) ++ TColon :: print (snd kv0)) with print_kv.
    rewrite sep_comma_cons, bracket_app, <- app_assoc.
    cbn [parse_atom]. unfold dict_or_comp.
    assert (Hfol : folt (tail_of print_kv l' ++ TClosingCurly :: rest)) by (destruct l'; reflexivity).
    assert (Hkv : forall z, starts (fun t => negb (token_eqb t TClosingCurly)) (print_kv z)).
    { intros z. unfold print_kv. apply starts_app, starts_print. tokcases. }
    assert (Hh : starts (fun t => negb (token_eqb t TClosingCurly)) (print_kv kv ++ tail_of print_kv l' ++ TClosingCurly :: rest))
      by (apply starts_app, Hkv).
    assert (Hent : forall z, List.In z (kv :: l') -> forall rest', folt rest' -> dict_entry (GR f) (print_kv z ++ rest') = Ok (z, rest')).
    { intros z Hz rest' Hr. destruct (Hl z Hz) as ((A1 & A2 & A3) & (B1 & B2 & B3)). apply dict_entry_print; auto. }
    assert (Hit : forall n, List.length l' < n ->
              items_loop n (dict_entry (GR f)) TClosingCurly [kv] (tail_of print_kv l' ++ TClosingCurly :: rest)
              = Ok (kv :: l', TClosingCurly :: rest)).
    { intros n Hn. rewrite items_loop_print; [reflexivity| | |exact Hn|reflexivity|reflexivity].
      - intros z Hz. apply Hent. right. exact Hz.
      - intros z Hz. apply Hkv. }
    assert (Hnf : hd_ok (fun t => match t with TFor => false | _ => true end) (tail_of print_kv l' ++ TClosingCurly :: rest) = true)
      by (destruct l'; reflexivity).
    dispatch Hh; (rewrite (Hent kv (or_introl eq_refl)) by exact Hfol); cbn [bind]; rewrite match_not_for by exact Hnf;
      rewrite Hit by (pose proof (tail_length _ print_kv l'); rewrite app_length; lia); reflexivity.
  Qed.
  (* ---- conditional expression ---- *)
  Lemma stm_if : forall c t e f, esize c <= N -> esize t <= N -> esize e <= N -> S (esize c + esize t + esize e) <= f ->
    printable c = true -> printable t = true -> printable e = true -> Stm (EIf c t e) f.
  Proof.
    intros c t e f Hc Ht He Hf Pc Pt Pe. apply stm_of_atom; [reflexivity|]. cbn [print].
    apply paren_atom_spec; [|apply starts_app, starts_noclose].
    intros rest. destruct f as [|f']; [lia|]. change (r_test (GR (S f'))) with (parse_test c0 I0 (GR f')).
    replace ((print t ++ TIf :: print c ++ TElse :: print e) ++ TClosingRound :: rest)
      with (print t ++ TIf :: print c ++ TElse :: print e ++ TClosingRound :: rest)
      by (rewrite <- app_assoc; cbn [app]; rewrite <- app_assoc; reflexivity).
    rewrite parse_test_nolambda by (apply starts_hd, starts_app, starts_print; tokcases).
    rewrite (stm_or_test t f' (IH t Ht Pt f' ltac:(lia))) by reflexivity. cbn [bind continue_ternary].
    rewrite child_ortest by (auto; try lia; reflexivity). cbn [bind expect token_eqb].
    rewrite child_test by (auto; try lia; reflexivity). reflexivity.
  Qed.

  (* ---- lambda ---- *)
  Lemma param_parse : forall p f rest, psize p <= N -> psize p <= f -> printable_param p = true -> folt rest ->
    lambda_param (GR f) (print_param p ++ rest) = Ok (p, rest).
  Proof.
    intros p f rest Hs Hf Hp Hr. destruct p as [n [d|]| | |n|n]; cbn [print_param psize printable_param app lambda_param] in *.
    - rewrite child_test by auto. reflexivity.
    - destruct rest as [|t r]; [reflexivity|]. unfold folt in Hr. destruct t; simpl in Hr; try discriminate Hr; reflexivity.
    - destruct rest as [|t r]; [reflexivity|]. unfold folt in Hr. destruct t; simpl in Hr; try discriminate Hr; reflexivity.
    - reflexivity.
    - reflexivity.
    - reflexivity.
  Qed.

  Lemma starts_print_param : forall p, starts (fun t => negb (token_eqb t TColon)) (print_param p).
  Proof. destruct p as [n [d|]| | |n|n]; eexists _, _; (split; [reflexivity|reflexivity]). Qed.

  Lemma params_print : forall ps f rest,
    (forall p, List.In p ps -> psize p <= N /\ psize p <= f /\ printable_param p = true) ->
    lambda_params (GR f) (sep_by [TComma] (map print_param ps) ++ TColon :: rest) = Ok (ps, TColon :: rest).
  Proof.
    intros ps f rest Hps. destruct ps as [|p l]; [reflexivity|].
    rewrite sep_comma_cons, <- app_assoc. unfold lambda_params.
    assert (Hh : starts (fun t => negb (token_eqb t TColon)) (print_param p ++ tail_of print_param l ++ TColon :: rest))
      by (apply starts_app, starts_print_param).
    assert (Hlen : List.length l < S (List.length (print_param p ++ tail_of print_param l ++ TColon :: rest))).
    { rewrite !app_length. pose proof (tail_length _ print_param l). lia. }
    assert (Hloop : forall n, List.length l < n ->
              params_loop (GR f) n [] (print_param p ++ tail_of print_param l ++ TColon :: rest) = Ok (p :: l, TColon :: rest)).
    { intros n Hn. rewrite params_loop_print; [reflexivity| | |exact Hn].
      - intros x Hx rest' Hr. destruct (Hps x Hx) as (H1 & H2 & H3). apply param_parse; auto.
      - intros x Hx. apply starts_print_param. }
    dispatch Hh; apply Hloop; exact Hlen.
  Qed.

  Lemma stm_lambda : forall ps body f, esize body <= N ->
    (forall p, List.In p ps -> psize p <= N) -> S (list_sum (map psize ps) + esize body) <= f ->
    forallb printable_param ps = true -> printable body = true -> check_params ps = true -> Stm (ELambda ps body) f.
  Proof.
    intros ps body f Hb Hps Hf Pps Pb Hchk. apply stm_of_atom; [reflexivity|]. cbn [print].
    apply paren_atom_spec; [|eexists _, _; split; [reflexivity|reflexivity]].
    intros rest. destruct f as [|f']; [lia|]. change (r_test (GR (S f'))) with (parse_test c0 I0 (GR f')).
    replace ((TLambda :: sep_by [TComma] (map print_param ps) ++ TColon :: print body) ++ TClosingRound :: rest)
      with (TLambda :: sep_by [TComma] (map print_param ps) ++ TColon :: print body ++ TClosingRound :: rest)
      by (cbn [app]; rewrite <- app_assoc; reflexivity).
    cbn [parse_test]. unfold parse_lambda. rewrite params_print.
    - cbn [bind expect token_eqb]. rewrite child_test by (auto; try lia; reflexivity). cbn [bind]. rewrite Hchk. reflexivity.
    - intros p Hp. split; [apply Hps, Hp|]. split.
      + pose proof (list_sum_in _ psize ps p Hp). lia.
      + rewrite forallb_forall in Pps. apply Pps, Hp.
  Qed.

  (* ---- comprehensions ---- *)
  Lemma for_clause_print : forall t o f rest, esize t <= N -> esize t <= f -> printable t = true -> target_ok t = true ->
    esize o <= N -> esize o <= f -> printable o = true -> folo rest ->
    for_clause (GR f) (TFor :: print t ++ TIn :: print o ++ rest) = Ok (CFor t o, rest).
  Proof.
    intros t o f rest A1 A2 A3 A4 B1 B2 B3 Hr. unfold for_clause. cbn [expect token_eqb bind].
    rewrite child_exprlist by auto. cbn [bind expect token_eqb]. rewrite child_ortest by auto. cbn [bind].
    destruct (target_ok_spec _ t (le_n _) A4) as [C D]. rewrite C, D. reflexivity.
  Qed.

  Lemma clause_parses_of : forall cl f, csize cl <= N -> csize cl <= f -> printable_clause cl = true -> clause_parses (GR f) cl.
  Proof.
    intros cl f Hs Hf Hp rest' Hr. destruct cl as [t o|e]; cbn [csize printable_clause] in *.
    - apply andb_true_iff in Hp. destruct Hp as [Hp Po]. apply andb_true_iff in Hp. destruct Hp as [Pt Tt].
      pose proof (esize_pos t). pose proof (esize_pos o).
      cbn [print_clause app]. rewrite <- app_assoc. cbn [app]. apply for_clause_print; auto; lia.
    - apply child_ortest; auto.
  Qed.

  Lemma comp_clauses_print : forall cs f rest1,
    clauses_ok cs = true ->
    (forall cl, List.In cl cs -> csize cl <= N /\ csize cl <= f /\ printable_clause cl = true) ->
    folo rest1 -> hd_ok (fun t => match t with TFor | TIf => false | _ => true end) rest1 = true ->
    comp_clauses (GR f) (concat (map print_clause cs) ++ rest1) = Ok (cs, rest1).
  Proof.
    intros cs f rest1 Hok Hcs Hr Hh. destruct cs as [|cl cs']; [discriminate Hok|].
    destruct cl as [t o|e]; [|discriminate Hok].
    unfold comp_clauses. cbn [map concat]. rewrite <- app_assoc.
    destruct (Hcs (CFor t o) (or_introl eq_refl)) as (A & B & C).
    pose proof (clause_parses_of (CFor t o) f A B C _ (clauses_follow cs' rest1 Hr)) as Hfc. cbn beta iota in Hfc.
    rewrite Hfc. cbn [bind].
    rewrite clause_loop_print; [reflexivity| | |exact Hr|exact Hh].
    - intros cl Hcl. destruct (Hcs cl (or_intror Hcl)) as (A' & B' & C'). apply clause_parses_of; auto.
    - rewrite app_length. pose proof (clauses_length cs'). lia.
  Qed.

  Lemma clauses_start_for : forall cs more, clauses_ok cs = true ->
    starts (fun t => match t with TFor => true | _ => false end) (concat (map print_clause cs) ++ more).
  Proof.
    intros [|[t o|e] cs] more H; try discriminate H. eexists _, _. split; [reflexivity|reflexivity].
  Qed.

  Lemma stm_listcomp : forall e cs f, esize e <= N -> esize e <= f -> printable e = true -> clauses_ok cs = true ->
    (forall cl, List.In cl cs -> csize cl <= N /\ csize cl <= f /\ printable_clause cl = true) ->
    Stm (EListComp e cs) f.
  Proof.
    intros e cs f He Hf Pe Hok Hcs. apply stm_of_atom; [reflexivity|]. apply atom_spec_direct. intros rest.
    cbn [print].
    replace ((TOpeningSquare :: print e ++ concat (map print_clause cs) ++ [TClosingSquare]) ++ rest)
      with (TOpeningSquare :: print e ++ concat (map print_clause cs) ++ TClosingSquare :: rest)
      by (cbn [app]; rewrite <- !app_assoc; reflexivity).
    cbn [parse_atom]. unfold list_or_comp.
    pose proof (clauses_start_for cs (TClosingSquare :: rest) Hok) as Hfor.
    assert (Hfol : folt (concat (map print_clause cs) ++ TClosingSquare :: rest)).
    { destruct Hfor as (t & r & -> & Ht). destruct t; try discriminate Ht. reflexivity. }
    assert (Hh : starts (fun t => negb (token_eqb t TClosingSquare))
                   (print e ++ concat (map print_clause cs) ++ TClosingSquare :: rest))
      by (apply starts_app, starts_print; tokcases).
    dispatch Hh; (rewrite child_test by auto); cbn [bind]; rewrite match_for by exact Hfor;
      (rewrite comp_clauses_print by (auto; reflexivity)); reflexivity.
  Qed.

  Lemma stm_dictcomp : forall k v cs f, esize k <= N -> esize k <= f -> printable k = true ->
    esize v <= N -> esize v <= f -> printable v = true -> clauses_ok cs = true ->
    (forall cl, List.In cl cs -> csize cl <= N /\ csize cl <= f /\ printable_clause cl = true) ->
    Stm (EDictComp k v cs) f.
  Proof.
    intros k v cs f Hk Hfk Pk Hv Hfv Pv Hok Hcs. apply stm_of_atom; [reflexivity|]. apply atom_spec_direct. intros rest.
    cbn [print].
    replace ((TOpeningCurly :: print k ++ TColon :: print v ++ concat (map print_clause cs) ++ [TClosingCurly]) ++ rest)
      with (TOpeningCurly :: print_kv (k, v) ++ concat (map print_clause cs) ++ TClosingCurly :: rest)
      by (unfold print_kv; cbn [app fst snd]; rewrite <- !app_assoc; cbn [app]; rewrite <- !app_assoc; reflexivity).
    cbn [parse_atom]. unfold dict_or_comp.
    pose proof (clauses_start_for cs (TClosingCurly :: rest) Hok) as Hfor.
    assert (Hfol : folt (concat (map print_clause cs) ++ TClosingCurly :: rest)).
    { destruct Hfor as (t & r & -> & Ht). destruct t; try discriminate Ht. reflexivity. }
    assert (Hh : starts (fun t => negb (token_eqb t TClosingCurly))
                   (print_kv (k, v) ++ concat (map print_clause cs) ++ TClosingCurly :: rest))
      by (unfold print_kv; apply starts_app, starts_app, starts_print; tokcases).
    dispatch Hh; (rewrite dict_entry_print by auto); cbn [bind]; rewrite match_for by exact Hfor;
      (rewrite comp_clauses_print by (auto; reflexivity)); reflexivity.
  Qed.
End Step.

Ltac split_and :=
  repeat match goal with H : _ && _ = true |- _ => apply andb_true_iff in H; destruct H end.

Theorem stm_all : forall N e, esize e <= N -> printable e = true -> forall f, esize e <= S f -> Stm e f.
Proof.
  induction N as [|N IH]; intros e Hs Hp f Hf; [pose proof (esize_pos e); lia|].
  destruct e; cbn [esize printable] in Hs, Hp, Hf; split_and.
  - (* EId *) apply (stm_atom (EId n) f (TIdentifier n)); [reflexivity|reflexivity|intros; reflexivity].
  - apply (stm_atom (EInt n) f (TInt n)); [reflexivity|reflexivity|intros; reflexivity].
  - apply (stm_atom (EFloat n) f (TFloat n)); [reflexivity|reflexivity|intros; reflexivity].
  - apply (stm_atom (EStr n) f (TString n)); [reflexivity|reflexivity|intros; reflexivity].
  - (* ETuple *) apply (stm_tuple N IH). intros x Hx. pose proof (list_sum_in _ esize l x Hx).
    rewrite forallb_forall in Hp. repeat split; [lia|lia|apply Hp, Hx].
  - (* EList *) apply (stm_list N IH). intros x Hx. pose proof (list_sum_in _ esize l x Hx).
    rewrite forallb_forall in Hp. repeat split; [lia|lia|apply Hp, Hx].
  - (* EDict *) apply (stm_dict N IH). intros kv Hkv.
    pose proof (list_sum_in _ (fun kv => esize (fst kv) + esize (snd kv)) l kv Hkv) as Hle. cbn beta in Hle.
    rewrite forallb_forall in Hp. specialize (Hp kv Hkv). apply andb_true_iff in Hp. destruct Hp as [P1 P2].
    pose proof (esize_pos (fst kv)). pose proof (esize_pos (snd kv)).
    repeat split; try assumption; lia.
  - (* EDot *) apply (stm_dot N IH); [lia|lia|assumption].
  - (* ECall *) pose proof (esize_pos e).
    apply (stm_call N IH); [lia|lia|assumption| |lia|assumption].
    intros a Ha. pose proof (list_sum_in _ asize args a Ha).
    match goal with H : forallb printable_arg args = true |- _ => rewrite forallb_forall in H; specialize (H a Ha) end.
    repeat split; [lia|lia|assumption].
  - (* EIndex *) pose proof (esize_pos e1). pose proof (esize_pos e2). apply (stm_index N IH); try assumption; lia.
  - (* EIndex2 *) pose proof (esize_pos e1). pose proof (esize_pos e2). pose proof (esize_pos e3).
    apply (stm_index2 N IH); try assumption; lia.
  - (* ESlice *) pose proof (esize_pos e).
    apply (stm_slice N IH); [lia|lia|assumption|].
    intros o y [ -> | [ -> | -> ] ] -> ; cbn [osize oall] in *; (repeat split; [lia|lia|assumption]).
  - (* ELambda *) pose proof (esize_pos e).
    apply (stm_lambda N IH); try assumption; try lia.
    intros p Hpin. pose proof (list_sum_in _ psize ps p Hpin). lia.
  - (* ENot *) apply (stm_not N IH); [lia|lia|assumption].
  - apply (stm_unop N IH EMinus TMinus); [reflexivity|reflexivity|reflexivity|lia|lia|assumption].
  - apply (stm_unop N IH EPlus TPlus); [reflexivity|reflexivity|reflexivity|lia|lia|assumption].
  - apply (stm_unop N IH EBitNot TTilde); [reflexivity|reflexivity|reflexivity|lia|lia|assumption].
  - (* EOp *) pose proof (esize_pos e1). pose proof (esize_pos e2). apply (stm_op N IH); try assumption; lia.
  - (* EIf *) pose proof (esize_pos e1). pose proof (esize_pos e2). pose proof (esize_pos e3).
    apply (stm_if N IH); try assumption; lia.
  - (* EListComp *) pose proof (esize_pos e).
    apply (stm_listcomp N IH); try assumption; try lia.
    intros cl Hcl. pose proof (list_sum_in _ csize cs cl Hcl).
    match goal with H : forallb printable_clause cs = true |- _ => rewrite forallb_forall in H; specialize (H cl Hcl) end.
    repeat split; [lia|lia|assumption].
  - (* EDictComp *) pose proof (esize_pos e1). pose proof (esize_pos e2).
    apply (stm_dictcomp N IH); try assumption; try lia.
    intros cl Hcl. pose proof (list_sum_in _ csize cs cl Hcl).
    match goal with H : forallb printable_clause cs = true |- _ => rewrite forallb_forall in H; specialize (H cl Hcl) end.
    repeat split; [lia|lia|assumption].
Qed.

(* ---------------------------------------------------------------------------------------------- *)
(* Part P5: closed statements *)

(* inside any context that continues with a closing bracket, comma, colon, `else` or `for` (or ends) *)
Theorem roundtrip_test_grammar : forall e, printable e = true -> forall fuel, esize e <= fuel ->
  forall rest, folt rest -> parse_test_g fuel (print e ++ rest) = Ok (e, rest).
Proof.
  intros e Hp fuel Hf rest Hr. destruct fuel as [|f]; [pose proof (esize_pos e); lia|].
  unfold parse_test_g. apply (stm_test e f); [|exact Hr]. apply (stm_all (esize e)); auto.
Qed.

Theorem roundtrip_grammar : forall e, printable e = true -> forall fuel, esize e <= S fuel ->
  Grammar.parse_strict fuel (print e) = Ok (SExpr e) /\ Grammar.parse fuel (print e) = Ok (SExpr e).
Proof.
  intros e Hp fuel Hf.
  pose proof (stm_ptest e fuel [] (stm_all (esize e) e (le_n _) Hp fuel Hf) eq_refl) as H. rewrite app_nil_r in H.
  unfold Grammar.parse_strict, Grammar.parse, parse_top. fold GR. rewrite H. split; reflexivity.
Qed.

(* the printer round trip on the model of parser_rd.rs: parsing the Display tokens of a printable expression gives
   the expression back, for every nesting fuel from its size on *)
Theorem print_parse_roundtrip : forall c, table_ok c = true -> forall e, printable e = true ->
  forall fuel, esize e <= S fuel -> Model.parse c fuel (print_stmt (SExpr e)) = Ok (SExpr e).
Proof.
  intros c Hok e Hp fuel Hf. rewrite (pratt_eq_grammar c Hok). apply roundtrip_grammar; auto.
Qed.

Corollary print_parse_roundtrip_large_fuel : forall c, table_ok c = true -> forall e, printable e = true ->
  exists f0, forall fuel, f0 <= fuel -> Model.parse c fuel (print_stmt (SExpr e)) = Ok (SExpr e).
Proof. intros c Hok e Hp. exists (esize e). intros fuel Hf. apply print_parse_roundtrip; auto. Qed.

(* printed text is a fixed point of parse-then-print *)
Corollary print_fixpoint : forall c, table_ok c = true -> forall e, printable e = true ->
  forall fuel, esize e <= S fuel ->
  exists s, Model.parse c fuel (print e) = Ok s /\ print_stmt s = print e.
Proof.
  intros c Hok e Hp fuel Hf. exists (SExpr e). split; [apply (print_parse_roundtrip c Hok e Hp fuel Hf)|reflexivity].
Qed.

(* structurally different printable trees print differently *)
Corollary print_injective : forall e1 e2, printable e1 = true -> printable e2 = true -> print e1 = print e2 -> e1 = e2.
Proof.
  intros e1 e2 H1 H2 E.
  destruct (roundtrip_grammar e1 H1 (esize e1 + esize e2) ltac:(lia)) as [A _].
  destruct (roundtrip_grammar e2 H2 (esize e1 + esize e2) ltac:(lia)) as [B _].
  rewrite E in A. rewrite A in B. inversion B. reflexivity.
Qed.

(* the same through the extracted tables *)
Corollary print_parse_roundtrip_extracted : forall e, printable e = true -> forall fuel, esize e <= S fuel ->
  exists c, ext_cfg = Some c /\ Model.parse c fuel (print e) = Ok (SExpr e).
Proof.
  intros e Hp fuel Hf. destruct ext_cfg_some as [c [E Hok]]. exists c. split; [exact E|].
  apply (print_parse_roundtrip c Hok e Hp fuel Hf).
Qed.

(* ---------------------------------------------------------------------------------------------- *)
(* Part P6: the size is at most the number of printed tokens, so the fuel the tie uses (fuel_for) is enough *)

Lemma concat_length_ge : forall A (f : A -> nat) (g : A -> toks) l,
  (forall x, List.In x l -> f x <= List.length (g x)) -> list_sum (map f l) <= List.length (concat (map g l)).
Proof.
  intros A f g. induction l as [|x l IH]; intros H; [simpl; lia|].
  cbn [map concat]. rewrite app_length.
  pose proof (H x (or_introl eq_refl)). pose proof (IH (fun y Hy => H y (or_intror Hy))).
  unfold list_sum in *. cbn [fold_right]. lia.
Qed.
Lemma sep_by_length_ge : forall A (f : A -> nat) (pr : A -> toks) sep l,
  (forall x, List.In x l -> f x <= List.length (pr x)) -> list_sum (map f l) <= List.length (sep_by sep (map pr l)).
Proof.
  intros A f pr sep [|x l] H; [simpl; lia|]. cbn [map]. rewrite sep_by_cons, app_length, map_map.
  pose proof (H x (or_introl eq_refl)).
  pose proof (concat_length_ge A f (fun y => sep ++ pr y) l) as Hc.
  assert (forall y, List.In y l -> f y <= List.length (sep ++ pr y)).
  { intros y Hy. rewrite app_length. pose proof (H y (or_intror Hy)). lia. }
  specialize (Hc H1). unfold list_sum in *. cbn [fold_right]. apply Nat.add_le_mono; [exact H0|exact Hc].
Qed.
Lemma recv_length : forall e p, List.length p <= List.length (recv e p).
Proof. intros e p. unfold recv, paren. destruct (is_prefix_op e); [|lia]. cbn [List.length]. rewrite app_length. lia. Qed.

Lemma size_le_print : forall N e, esize e <= N -> esize e <= List.length (print e).
Proof.
  induction N as [|N IH]; intros e Hs; [pose proof (esize_pos e); lia|].
  assert (IHa : forall a, asize a <= N -> asize a <= List.length (print_arg a)).
  { intros [x|n x|x|x] H; cbn [asize print_arg List.length] in *; specialize (IH x H); lia. }
  assert (IHp : forall p, psize p <= N -> psize p <= List.length (print_param p)).
  { intros [n [d|]| | |n|n] H; cbn [psize print_param List.length] in *; try lia. specialize (IH d H). lia. }
  assert (IHc : forall cl, csize cl <= N -> csize cl <= List.length (print_clause cl)).
  { intros [t o|x] H; cbn [csize print_clause List.length] in *.
    - pose proof (esize_pos t). pose proof (esize_pos o). pose proof (IH t ltac:(lia)). pose proof (IH o ltac:(lia)).
      rewrite app_length. cbn [List.length]. lia.
    - specialize (IH x H). lia. }
  assert (IHo : forall o, osize esize o <= N -> osize esize o <= List.length (match o with Some x => print x | None => [] end)).
  { intros [x|] H; cbn [osize] in *; [apply IH, H|simpl; lia]. }
  destruct e; cbn [esize] in Hs; cbn [print esize]; unfold paren;
    repeat (rewrite app_length || cbn [List.length]).
  - lia.
  - lia.
  - lia.
  - lia.
  - pose proof (sep_by_length_ge _ esize print [TComma] l) as H.
    assert (forall x, List.In x l -> esize x <= List.length (print x)).
    { intros x Hx. apply IH. pose proof (list_sum_in _ esize l x Hx). lia. }
    specialize (H H0). lia.
  - pose proof (sep_by_length_ge _ esize print [TComma] l) as H.
    assert (forall x, List.In x l -> esize x <= List.length (print x)).
    { intros x Hx. apply IH. pose proof (list_sum_in _ esize l x Hx). lia. }
    specialize (H H0). lia.
  - pose proof (sep_by_length_ge _ (fun kv => esize (fst kv) + esize (snd kv)) print_kv [TComma] l) as H.
    assert (forall kv, List.In kv l -> esize (fst kv) + esize (snd kv) <= List.length (print_kv kv)).
    { intros kv Hkv. pose proof (list_sum_in _ (fun kv => esize (fst kv) + esize (snd kv)) l kv Hkv) as Hle. cbn beta in Hle.
      pose proof (esize_pos (fst kv)). pose proof (esize_pos (snd kv)).
      unfold print_kv. rewrite app_length. cbn [List.length].
      pose proof (IH (fst kv) ltac:(lia)). pose proof (IH (snd kv) ltac:(lia)). lia. }
    specialize (H H0).
    match goal with |- S ?X <= S (List.length ?Y + 1) => enough (X <= List.length Y) by lia end. exact H.
  - pose proof (IH e ltac:(lia)). pose proof (recv_length e (print e)).
    destruct (is_int e); unfold paren; repeat (rewrite app_length || cbn [List.length]); lia.
  - pose proof (esize_pos e). pose proof (IH e ltac:(lia)). pose proof (recv_length e (print e)).
    pose proof (sep_by_length_ge _ asize print_arg [TComma] args) as H2.
    assert (forall a, List.In a args -> asize a <= List.length (print_arg a)).
    { intros a Ha. apply IHa. pose proof (list_sum_in _ asize args a Ha). lia. }
    specialize (H2 H3). lia.
  - pose proof (esize_pos e1). pose proof (esize_pos e2). pose proof (IH e1 ltac:(lia)). pose proof (IH e2 ltac:(lia)).
    pose proof (recv_length e1 (print e1)). lia.
  - pose proof (esize_pos e1). pose proof (esize_pos e2). pose proof (esize_pos e3).
    pose proof (IH e1 ltac:(lia)). pose proof (IH e2 ltac:(lia)). pose proof (IH e3 ltac:(lia)).
    pose proof (recv_length e1 (print e1)). lia.
  - pose proof (esize_pos e). pose proof (IH e ltac:(lia)). pose proof (recv_length e (print e)).
    pose proof (IHo a ltac:(lia)). pose proof (IHo b ltac:(lia)). pose proof (IHo c ltac:(lia)).
    destruct a, b, c; repeat (rewrite app_length || cbn [List.length osize] in * ); lia.
  - pose proof (esize_pos e). pose proof (IH e ltac:(lia)).
    pose proof (sep_by_length_ge _ psize print_param [TComma] ps) as H2.
    assert (forall p, List.In p ps -> psize p <= List.length (print_param p)).
    { intros p Hp. apply IHp. pose proof (list_sum_in _ psize ps p Hp). lia. }
    specialize (H2 H1). lia.
  - pose proof (IH e ltac:(lia)). lia.
  - pose proof (IH e ltac:(lia)). lia.
  - pose proof (IH e ltac:(lia)). lia.
  - pose proof (IH e ltac:(lia)). lia.
  - pose proof (esize_pos e1). pose proof (esize_pos e2). pose proof (IH e1 ltac:(lia)). pose proof (IH e2 ltac:(lia)). lia.
  - pose proof (esize_pos e1). pose proof (esize_pos e2). pose proof (esize_pos e3).
    pose proof (IH e1 ltac:(lia)). pose proof (IH e2 ltac:(lia)). pose proof (IH e3 ltac:(lia)). lia.
  - pose proof (esize_pos e). pose proof (IH e ltac:(lia)).
    pose proof (concat_length_ge _ csize print_clause cs) as H2.
    assert (forall cl, List.In cl cs -> csize cl <= List.length (print_clause cl)).
    { intros cl Hcl. apply IHc. pose proof (list_sum_in _ csize cs cl Hcl). lia. }
    specialize (H2 H1). lia.
  - pose proof (esize_pos e1). pose proof (esize_pos e2). pose proof (IH e1 ltac:(lia)). pose proof (IH e2 ltac:(lia)).
    pose proof (concat_length_ge _ csize print_clause cs) as H3.
    assert (forall cl, List.In cl cs -> csize cl <= List.length (print_clause cl)).
    { intros cl Hcl. apply IHc. pose proof (list_sum_in _ csize cs cl Hcl). lia. }
    specialize (H3 H4). lia.
Qed.

(* with the tables extracted on this run and the fuel the tie gives the model (fuel_for): the round trip holds *)
Theorem run_model_print_roundtrip : forall e, printable e = true -> run_model (print e) = Ok (SExpr e).
Proof.
  intros e Hp. unfold run_model. destruct ext_cfg_some as [c [E Hok]]. rewrite E.
  apply (print_parse_roundtrip c Hok e Hp). pose proof (size_le_print (esize e) e (le_n _)). unfold fuel_for. lia.
Qed.

(* ---------------------------------------------------------------------------------------------- *)
(* Part P7: the one-line statements of the model: expression statement and assignment *)

Definition printable_stmt (s : stmt) : bool :=
  match s with
  | SExpr e => printable e
  | SAssign l r => printable l && target_ok l && printable r
  end.
Definition ssize (s : stmt) : nat := match s with SExpr e => esize e | SAssign l r => esize l + esize r end.

Lemma roundtrip_grammar_stmt : forall s, printable_stmt s = true -> forall fuel, ssize s <= S fuel ->
  Grammar.parse_strict fuel (print_stmt s) = Ok s.
Proof.
  intros [e|l r] Hp fuel Hf; cbn [printable_stmt ssize print_stmt] in *.
  - apply roundtrip_grammar; auto.
  - apply andb_true_iff in Hp. destruct Hp as [Hp Pr]. apply andb_true_iff in Hp. destruct Hp as [Pl Tl].
    pose proof (esize_pos l). pose proof (esize_pos r).
    pose proof (stm_all (esize l) l (le_n _) Pl fuel ltac:(lia)) as Sl.
    pose proof (stm_all (esize r) r (le_n _) Pr fuel ltac:(lia)) as Sr.
    assert (Hl : parse_test c0 I0 (GR fuel) (print l ++ TEqual :: print r) = Ok (l, TEqual :: print r)).
    { rewrite parse_test_nolambda by (apply starts_hd, starts_app, starts_print; tokcases).
      rewrite (or_test_of_unary (PU (GR fuel)) _ l (TEqual :: print r)); [reflexivity| | |reflexivity].
      - apply stm_unary; [exact Sl|reflexivity].
      - apply not_not_print. }
    pose proof (stm_ptest r fuel [] Sr eq_refl) as Hr. rewrite app_nil_r in Hr.
    destruct (target_ok_spec _ l (le_n _) Tl) as [A B].
    unfold Grammar.parse_strict, parse_top. fold GR. rewrite Hl. cbn [bind]. unfold test_list. rewrite Hr. cbn [bind].
    rewrite A, B. reflexivity.
Qed.

Theorem print_parse_roundtrip_stmt : forall c, table_ok c = true -> forall s, printable_stmt s = true ->
  forall fuel, ssize s <= S fuel -> Model.parse c fuel (print_stmt s) = Ok s.
Proof. intros c Hok s Hp fuel Hf. rewrite (pratt_eq_grammar c Hok). apply roundtrip_grammar_stmt; auto. Qed.
