(* C06 - entry points of the literal tie: the escape table re-extracted from ast.rs fmt_string_literal on this run
   (coq/Extracted/ParserC.v: str_escapes), the printer and lexer models at that table, and the comparison of rows
   observed on the implementation (run inside Coq by the check, tools/props/C06.py).  No proofs here. *)
From Coq Require Import ZArith NArith List Bool.
From SV Require Import Extracted.ParserC Parse.Escape.
Import ListNotations.
Open Scope N_scope.

Definition ext_escapes : esc_table := map (fun ce => (Z.to_N (fst ce), map Z.to_N (snd ce))) str_escapes.

Definition run_print_string (s : list N) : list N := print_string ext_escapes s.
Definition run_lex_string (txt : list N) : option (list N * list N) := lex_string (List.length txt) txt.
Definition run_lex_bytes (txt : list N) : option (list N * list N) := lex_bytes (List.length txt) txt.

Fixpoint list_eqb (a b : list N) : bool :=
  match a, b with
  | [], [] => true
  | x :: a', y :: b' => (x =? y) && list_eqb a' b'
  | _, _ => false
  end.

Definition res_eqb (r : option (list N * list N)) (v : option (list N)) : bool :=
  match r, v with
  | Some (x, rest), Some y => list_eqb x y && match rest with [] => true | _ => false end
  | None, None => true
  | _, _ => false
  end.

(* one observation on the implementation *)
Inductive lcase :=
| LPrint (value printed : list N)            (* Display wrote `printed` for a string literal with this value *)
| LPrintB (value printed : list N)           (* the same for a bytes literal *)
| LLex (text : list N) (value : option (list N))    (* the lexer read this double-quoted text as this value / rejected it *)
| LLexB (text : list N) (value : option (list N)).  (* the same for a b-prefixed literal *)

Definition lcase_ok (c : lcase) : bool :=
  match c with
  | LPrint v p => list_eqb (run_print_string v) p && res_eqb (run_lex_string p) (Some v)
  | LPrintB v p => list_eqb (print_bytes v) p && res_eqb (run_lex_bytes p) (Some v)
  | LLex t v => res_eqb (run_lex_string t) v
  | LLexB t v => res_eqb (run_lex_bytes t) v
  end.

(* indices (from i) of the rows on which model and implementation differ *)
Fixpoint bad_from (i : N) (l : list lcase) : list N :=
  match l with
  | [] => []
  | c :: r => if lcase_ok c then bad_from (i + 1) r else i :: bad_from (i + 1) r
  end.

(* ---- rows as text ----
   Elaborating thousands of nested list literals is slow; the check hands the rows over as one string instead:
     row  ::= K SP hex SP hex ... [, SP hex ...] ;      numbers in lower-case hex, each followed by a space
     K    ::= p (LPrint value , printed)   q (LPrintB value , printed)   l (LLex text , Some value)
              m (LLexB text , Some value)  r (LLex text None)            s (LLexB text None)            *)
From Coq Require Import String Ascii.

Record rstate := { r_kind : N; r_num : option N; r_cur : list N; r_first : list N; r_rows : list lcase }.

Definition r_flush (st : rstate) : rstate :=
  match r_num st with
  | Some n => {| r_kind := r_kind st; r_num := None; r_cur := n :: r_cur st; r_first := r_first st; r_rows := r_rows st |}
  | None => st
  end.

Definition r_row (k : N) (first cur : list N) : lcase :=
  if k =? 112 then LPrint first cur
  else if k =? 113 then LPrintB first cur
  else if k =? 108 then LLex first (Some cur)
  else if k =? 109 then LLexB first (Some cur)
  else if k =? 114 then LLex cur None
  else LLexB cur None.

Definition r_step (st : rstate) (c : N) : rstate :=
  if ((48 <=? c) && (c <=? 57)) || ((97 <=? c) && (c <=? 102)) then
    let d := if c <=? 57 then c - 48 else c - 87 in
    {| r_kind := r_kind st; r_num := Some (match r_num st with Some n => n * 16 + d | None => d end);
       r_cur := r_cur st; r_first := r_first st; r_rows := r_rows st |}
  else if c =? 32 then r_flush st
  else if c =? 44 then
    let st := r_flush st in
    {| r_kind := r_kind st; r_num := None; r_cur := []; r_first := rev (r_cur st); r_rows := r_rows st |}
  else if c =? 59 then
    let st := r_flush st in
    {| r_kind := 0; r_num := None; r_cur := []; r_first := [];
       r_rows := r_row (r_kind st) (r_first st) (rev (r_cur st)) :: r_rows st |}
  else if c =? 10 then st
  else {| r_kind := c; r_num := None; r_cur := r_cur st; r_first := r_first st; r_rows := r_rows st |}.

Fixpoint r_parse (s : string) (st : rstate) : rstate :=
  match s with
  | EmptyString => st
  | String a s' => r_parse s' (r_step st (N_of_ascii a))
  end.

Definition rows_of_text (s : string) : list lcase :=
  rev (r_rows (r_parse s {| r_kind := 0; r_num := None; r_cur := []; r_first := []; r_rows := [] |})).

Definition bad_rows (s : string) : list N := bad_from 0 (rows_of_text s).
