(* C15: proofs about the limits model (coq/Limits/Model.v). *)
From Coq Require Import Arith List Bool ZArith Lia.
From SV Require Import Extracted.LimitsC Limits.Model.
Import ListNotations.
Open Scope nat_scope.

(* ---------------------------------------------------------------------------------------------- *)
(* The extracted constants / comparison shapes the proofs rely on.                                 *)

Lemma extracted_shape :
  tick_limit_strict = true /\ progress_shape = true /\ push_ge = true /\
  0 < tick_period_nat /\ 0 < default_stack_nat.
Proof. repeat split; try reflexivity; vm_compute; lia. Qed.

Lemma exceeds_spec : forall l cur, exceeds l cur = (l <? cur).
Proof. intros; unfold exceeds. destruct extracted_shape as [-> _]. reflexivity. Qed.
Lemma due_spec : forall per c, due per c = (per <=? c).
Proof. intros; unfold due. destruct extracted_shape as [_ [-> _]]. reflexivity. Qed.
Lemma full_spec : forall sz d, full sz d = (sz <=? d).
Proof. intros; unfold full. destruct extracted_shape as [_ [_ [-> _]]]. reflexivity. Qed.

Ltac dleb :=
  match goal with
  | |- context [?a <=? ?b] => let E := fresh "E" in destruct (Nat.leb_spec a b) as [E|E]
  | |- context [?a <? ?b] => let E := fresh "E" in destruct (Nat.ltb_spec a b) as [E|E]
  | H : context [?a <=? ?b] |- _ => let E := fresh "E" in destruct (Nat.leb_spec a b) as [E|E]
  | H : context [?a <? ?b] |- _ => let E := fresh "E" in destruct (Nat.ltb_spec a b) as [E|E]
  end.

Section Facts.
  Variable cancelled : nat -> bool.
  Variable c : cfg.

  Notation tick := (tick cancelled c).
  Notation run_checks := (run_checks cancelled c).
  Notation exec := (exec cancelled c).
  Notation eval_module := (eval_module cancelled c).
  Notation run_ticks := (run_ticks cancelled c).
  Notation tick_st := (tick_st cancelled c).

  (* ------------------------------------------------------------------------------------------ *)
  (* 1. Facts that hold whatever the limits and the cancellation oracle do.                       *)

  Lemma run_checks_pos : forall k, pos (snd (run_checks k)) = pos k.
  Proof.
    intros k. unfold run_checks. destruct (cancelled (nchk k)); [reflexivity|].
    destruct (limit c); [destruct (exceeds _ _)|]; reflexivity.
  Qed.

  Lemma run_checks_fields : forall k, total (snd (run_checks k)) = total k /\ counter (snd (run_checks k)) = counter k
                                      /\ nchk (snd (run_checks k)) = S (nchk k).
  Proof.
    intros k. unfold run_checks. destruct (cancelled (nchk k)); [auto|].
    destruct (limit c); [destruct (exceeds _ _)|]; auto.
  Qed.

  (* a tick is never lost: the position advances by exactly one, whether or not a check ran or failed *)
  Lemma tick_pos : forall k, pos (snd (tick k)) = pos k + 1.
  Proof.
    intros k. unfold tick. destruct (due _ _); [|unfold pos; simpl; lia].
    destruct (run_checks _) as [[e|] k2] eqn:E.
    - simpl. pose proof (run_checks_pos (mktk (total k) (S (counter k)) (nchk k))) as H. rewrite E in H. simpl in H.
      rewrite H. unfold pos; simpl; lia.
    - simpl. pose proof (run_checks_pos (mktk (total k) (S (counter k)) (nchk k))) as H. rewrite E in H. simpl in H.
      unfold pos in *; simpl in *. lia.
  Qed.

  Lemma ticks_regardless_pos : forall n k, pos (ticks_regardless cancelled c n k) = pos k + n.
  Proof.
    induction n as [|n IH]; intros k; unfold ticks_regardless in *; simpl.
    - lia.
    - rewrite tick_pos. rewrite IH. lia.
  Qed.

  Lemma tick_st_frame : forall s, depth (snd (tick_st s)) = depth s /\ trace (snd (tick_st s)) = trace s
                                  /\ spos (snd (tick_st s)) = spos s + 1.
  Proof.
    intros s. unfold tick_st. pose proof (tick_pos (tks s)) as H. destruct (tick (tks s)) as [r k].
    simpl in *. unfold spos; simpl. auto.
  Qed.

  Lemma tick_st_eq : forall s, tick_st s = (fst (tick (tks s)), set_tks s (snd (tick (tks s)))).
  Proof. intros s. unfold tick_st. destruct (tick (tks s)); reflexivity. Qed.

  (* exec: the depth is restored on every path (with_call_stack pops regardless); the position advances by at
     most ticks p, and by exactly ticks p when the program completes; the transcript of a completed program is
     emits p. *)
  Lemma exec_frame : forall p s,
    depth (snd (exec p s)) = depth s /\
    spos s <= spos (snd (exec p s)) <= spos s + ticks p /\
    (exists tr, trace (snd (exec p s)) = trace s ++ tr) /\
    (fst (exec p s) = Ok -> spos (snd (exec p s)) = spos s + ticks p /\ trace (snd (exec p s)) = trace s ++ emits p).
  Proof.
    induction p as [|k|a IHa b IHb|n body IH|t body IH]; intros s.
    - simpl. repeat split; try lia. exists []. now rewrite app_nil_r. now rewrite app_nil_r.
    - simpl. unfold spos; simpl. repeat split; try lia. eexists; reflexivity.
    - simpl. specialize (IHa s). destruct (exec a s) as [[|e] s1]; simpl in *.
      + specialize (IHb s1). destruct (exec b s1) as [rb s2]; simpl in *.
        destruct IHa as (Da & Pa & [tra Ta] & Oa). destruct IHb as (Db & Pb & [trb Tb] & Ob).
        destruct (Oa eq_refl) as [Pa' Ta'].
        repeat split; try lia.
        * exists (tra ++ trb). rewrite Tb, Ta. now rewrite app_assoc.
        * destruct (Ob H) as [Pb' _]. lia.
        * destruct (Ob H) as [_ Tb']. rewrite Tb', Ta'. now rewrite app_assoc.
      + destruct IHa as (Da & Pa & Ta & Oa). repeat split; try lia; try assumption. discriminate. discriminate.
    - simpl. revert s. induction n as [|n IHn]; intros s.
      + simpl. repeat split; try lia. exists []. now rewrite app_nil_r. now rewrite app_nil_r.
      + specialize (IH s). destruct (exec body s) as [[|e] s1]; simpl in IH |- *.
        * destruct IH as (D1 & P1 & [tr1 T1] & O1). destruct (O1 eq_refl) as [P1' T1'].
          pose proof (tick_st_frame s1) as (D2 & T2 & P2).
          destruct (tick_st s1) as [[|e] s2]; simpl in *.
          -- specialize (IHn s2).
             match goal with |- context [(fix loop (n0 : nat) (s0 : st) {struct n0} : res * st := _) n s2] =>
               set (R := (fix loop (n0 : nat) (s0 : st) {struct n0} : res * st := _) n s2) in * end.
             destruct IHn as (D3 & P3 & [tr3 T3] & O3).
             repeat split; try lia.
             ++ exists (tr1 ++ tr3). rewrite T3, T2, T1. now rewrite app_assoc.
             ++ destruct (O3 H) as [P3' _]. lia.
             ++ destruct (O3 H) as [_ T3']. rewrite T3', T2, T1'. now rewrite app_assoc.
          -- repeat split; try lia; try discriminate. exists tr1. now rewrite T2.
        * destruct IH as (D1 & P1 & T1 & O1). repeat split; try lia; try assumption; discriminate.
    - simpl.
      assert (Ht : forall s1 r1, (if t then tick_st s else (Ok, s)) = (r1, s1) ->
                 depth s1 = depth s /\ trace s1 = trace s /\ spos s <= spos s1 <= spos s + (if t then 1 else 0)
                 /\ (r1 = Ok -> spos s1 = spos s + (if t then 1 else 0))).
      { intros s1 r1 E. destruct t.
        - pose proof (tick_st_frame s) as (D & T & P). rewrite E in *. simpl in *. repeat split; try lia; auto.
        - inversion E; subst. repeat split; try lia; auto. }
      destruct (if t then tick_st s else (Ok, s)) as [r1 s1] eqn:E1.
      destruct (Ht s1 r1 eq_refl) as (D1 & T1 & P1 & O1).
      destruct r1 as [|e].
      + specialize (O1 eq_refl). unfold push. destruct (full _ _).
        * simpl. repeat split; try lia; try discriminate. exists []. now rewrite app_nil_r.
        * specialize (IH (mkst (tks s1) (S (depth s1)) (trace s1))).
          destruct (exec body _) as [rb s3]; simpl in *. unfold spos in *; simpl in *.
          destruct IH as (D3 & P3 & [tr3 T3] & O3).
          repeat split; try lia.
          -- exists tr3. now rewrite T3, T1.
          -- destruct (O3 H) as [P3' _]. lia.
          -- destruct (O3 H) as [_ T3']. now rewrite T3', T1.
      + simpl. repeat split; try lia; try discriminate. exists []. now rewrite app_nil_r.
  Qed.

  Lemma eval_module_frame : forall p s, depth s = 0 ->
    depth (snd (eval_module p s)) = 0 /\
    spos s <= spos (snd (eval_module p s)) <= spos s + ticks p /\
    (fst (eval_module p s) = Ok -> spos (snd (eval_module p s)) = spos s + ticks p
                                    /\ trace (snd (eval_module p s)) = trace s ++ emits p).
  Proof.
    intros p s D0. unfold eval_module, push. destruct (full _ _).
    - simpl. repeat split; try lia; discriminate.
    - pose proof (exec_frame p (mkst (tks s) (S (depth s)) (trace s))) as (D & P & T & O).
      destruct (exec p _) as [r s2]; simpl in *.
      pose proof (run_checks_pos (tks s2)) as RP.
      destruct (run_checks (tks s2)) as [[e|] k]; simpl in *; unfold spos in *; simpl in *.
      + repeat split; try lia. discriminate. discriminate.
      + repeat split; try lia.
        * destruct (O H) as [P' _]. lia.
        * destruct (O H) as [_ T']. exact T'.
  Qed.

  (* ------------------------------------------------------------------------------------------ *)
  (* 2. Inside a sufficient stack, exec is a function of the tick machine alone.                  *)

  Lemma run_ticks_add : forall a b k,
    run_ticks (a + b) k = match run_ticks a k with (Ok, k1) => run_ticks b k1 | r => r end.
  Proof.
    induction a as [|a IH]; intros b k; simpl.
    - reflexivity.
    - destruct (tick k) as [[|e] k1]; [apply IH|reflexivity].
  Qed.

  Lemma run_ticks_one : forall k, run_ticks 1 k = tick k.
  Proof. intros k. simpl. destruct (tick k) as [[|e] k1]; reflexivity. Qed.

  Lemma exec_ticks : forall p s, depth s + max_depth p <= size c ->
    (fst (exec p s), tks (snd (exec p s))) = run_ticks (ticks p) (tks s).
  Proof.
    induction p as [|k|a IHa b IHb|n body IH|t body IH]; intros s Hd.
    - reflexivity.
    - reflexivity.
    - simpl in *. rewrite run_ticks_add.
      specialize (IHa s ltac:(lia)). pose proof (exec_frame a s) as (Da & _).
      destruct (exec a s) as [ra s1]; simpl in *. rewrite <- IHa.
      destruct ra as [|e]; [|reflexivity].
      apply IHb. lia.
    - simpl ticks. revert s Hd. induction n as [|n IHn]; intros s Hd.
      + reflexivity.
      + simpl in Hd.
        replace (S n * (ticks body + 1)) with (ticks body + (1 + n * (ticks body + 1))) by lia.
        rewrite run_ticks_add. simpl exec.
        specialize (IH s Hd). pose proof (exec_frame body s) as (D1 & _).
        destruct (exec body s) as [r1 s1]; simpl in *. rewrite <- IH.
        destruct r1 as [|e]; [|reflexivity].
        rewrite tick_st_eq. destruct (tick (tks s1)) as [[|e] k2] eqn:Et; simpl.
        * match goal with |- context [(fix loop (n0 : nat) (s0 : st) {struct n0} : res * st := _) n ?S2] =>
            specialize (IHn S2) end.
          simpl in IHn. apply IHn. destruct n; simpl; lia.
        * reflexivity.
    - simpl in *. destruct t.
      + replace (1 + ticks body) with (1 + ticks body) by lia. rewrite run_ticks_add, run_ticks_one.
        rewrite tick_st_eq. destruct (tick (tks s)) as [[|e] k1]; simpl; [|reflexivity].
        unfold push. simpl. rewrite full_spec. dleb; [lia|].
        specialize (IH (mkst k1 (S (depth s)) (trace s)) ltac:(simpl; lia)).
        destruct (exec body _) as [rb s3]; simpl in *. exact IH.
      + unfold push. rewrite full_spec. dleb; [lia|].
        specialize (IH (mkst (tks s) (S (depth s)) (trace s)) ltac:(simpl; lia)).
        destruct (exec body _) as [rb s3]; simpl in *. exact IH.
  Qed.

  (* ------------------------------------------------------------------------------------------ *)
  (* 3. The tick machine                                                                         *)

  Hypothesis period_pos : 0 < period c.

  (* 3a. no tick limit, never cancelled: ticks always succeed *)
  Lemma run_ticks_free : limit c = None -> (forall j, cancelled j = false) ->
    forall n k, exists k', run_ticks n k = (Ok, k') /\ pos k' = pos k + n.
  Proof.
    intros HL HC. induction n as [|n IH]; intros k.
    - exists k. simpl. split; [reflexivity|lia].
    - simpl. pose proof (tick_pos k) as TP.
      assert (fst (tick k) = Ok) as TO.
      { unfold tick. destruct (due _ _); [|reflexivity]. unfold Model.run_checks. rewrite HC, HL. reflexivity. }
      destruct (tick k) as [r k1]; simpl in *; subst r.
      destruct (IH k1) as (k' & E & P). exists k'. split; [exact E|lia].
  Qed.

  (* 3b. tick limit l, never cancelled *)
  Definition clean (k : tk) : Prop := counter k < period c.

  Lemma tick_limit_step : forall l k, limit c = Some l -> (forall j, cancelled j = false) -> clean k ->
    (total k + period c <= l \/ counter k + 1 < period c ->
       exists k', tick k = (Ok, k') /\ clean k' /\ pos k' = pos k + 1 /\
                  (total k' = total k \/ (total k' = total k + period c /\ counter k' = 0))) /\
    (l < total k + period c -> counter k + 1 = period c ->
       exists k', tick k = (Err (TickLimit l), k') /\ pos k' = total k + period c /\ total k' = total k).
  Proof.
    intros l k HL HC Hc. unfold clean in *. unfold tick. rewrite due_spec. simpl.
    unfold Model.run_checks. simpl. rewrite HC, HL. rewrite exceeds_spec. unfold pos. simpl.
    split.
    - intros H. dleb.
      + dleb.
        * exfalso. lia.
        * eexists. split; [reflexivity|]. simpl. unfold clean; simpl. repeat split; try lia.
      + eexists. split; [reflexivity|]. unfold clean; simpl. repeat split; try lia.
    - intros H1 H2. dleb; [|lia]. dleb; [|lia].
      eexists. split; [reflexivity|]. simpl. lia.
  Qed.

  (* invariant of an evaluation that has not yet failed a check *)
  Definition inv (l : nat) (k : tk) : Prop := clean k /\ total k <= l /\ Nat.divide (period c) (total k).

  Lemma run_ticks_limit : forall l, limit c = Some l -> (forall j, cancelled j = false) ->
    forall n k, inv l k ->
      (exists k', run_ticks n k = (Ok, k') /\ inv l k' /\ pos k' = pos k + n) \/
      (exists k', run_ticks n k = (Err (TickLimit l), k') /\ l < pos k' <= l + period c /\ pos k' <= pos k + n
                  /\ Nat.divide (period c) (pos k')).
  Proof.
    intros l HL HC. induction n as [|n IH]; intros k (Hc & Ht & Hd).
    - left. exists k. simpl. repeat split; auto; lia.
    - simpl. destruct (tick_limit_step l k HL HC Hc) as [S1 S2].
      destruct (Nat.lt_ge_cases (counter k + 1) (period c)) as [A|A].
      + destruct (S1 (or_intror A)) as (k1 & E & C1 & P1 & T1). rewrite E.
        assert (inv l k1) as I1.
        { repeat split; auto.
          - destruct T1 as [T1|[T1 Z]]; [lia|]. unfold clean, pos in *. lia.
          - destruct T1 as [T1|[T1 Z]]; [now rewrite T1|]. unfold clean, pos in *. lia. }
        destruct (IH k1 I1) as [(k' & E' & I' & P')|(k' & E' & B' & P' & M')].
        * left. exists k'. repeat split; try apply I'; auto. lia.
        * right. exists k'. repeat split; auto; lia.
      + unfold clean in Hc. assert (counter k + 1 = period c) as A' by lia.
        destruct (Nat.le_gt_cases (total k + period c) l) as [B|B].
        * destruct (S1 (or_introl B)) as (k1 & E & C1 & P1 & T1). rewrite E.
          assert (total k1 = total k + period c) as T1'.
          { destruct T1 as [T1|[T1 _]]; [|exact T1]. unfold pos, clean in *. lia. }
          assert (inv l k1) as I1.
          { split; [exact C1|]. split; [lia|]. rewrite T1'. apply Nat.divide_add_r; [exact Hd|apply Nat.divide_refl]. }
          destruct (IH k1 I1) as [(k' & E' & I' & P')|(k' & E' & B' & P' & M')].
          -- left. exists k'. repeat split; try apply I'; auto. lia.
          -- right. exists k'. repeat split; auto; lia.
        * destruct (S2 B A') as (k1 & E & P1 & T1). rewrite E.
          right. exists k1. repeat split; try lia.
          -- unfold pos in *. lia.
          -- rewrite P1. apply Nat.divide_add_r; [exact Hd|apply Nat.divide_refl].
  Qed.

  Lemma run_ticks_within : forall l, limit c = Some l -> (forall j, cancelled j = false) ->
    forall n k, clean k -> pos k + n <= l ->
      exists k', run_ticks n k = (Ok, k') /\ clean k' /\ pos k' = pos k + n.
  Proof.
    intros l HL HC. induction n as [|n IH]; intros k Hc Hp.
    - exists k. simpl. repeat split; auto; lia.
    - simpl. destruct (tick_limit_step l k HL HC Hc) as [S1 _].
      assert (total k + period c <= l \/ counter k + 1 < period c) as A.
      { unfold pos, clean in *. destruct (Nat.lt_ge_cases (counter k + 1) (period c)); [right; lia|left; lia]. }
      destruct (S1 A) as (k1 & E & C1 & P1 & _). rewrite E.
      destruct (IH k1 C1 ltac:(lia)) as (k' & E' & C' & P'). exists k'. repeat split; auto; lia.
  Qed.

  (* 3c. no tick limit, cancellation answering false before its k-th invocation and true at the k-th *)
  Definition cinv (k0 : nat) (k : tk) : Prop := clean k /\ total k = nchk k * period c /\ nchk k <= k0.

  Lemma run_ticks_cancel : forall k0, limit c = None ->
    (forall j, j < k0 -> cancelled j = false) -> cancelled k0 = true ->
    forall n k, cinv k0 k ->
      (exists k', run_ticks n k = (Ok, k') /\ cinv k0 k' /\ pos k' = pos k + n) \/
      (exists k', run_ticks n k = (Err Cancelled, k') /\ pos k' = (k0 + 1) * period c /\ pos k' <= pos k + n
                  /\ nchk k' = S k0).
  Proof.
    intros k0 HL HF HT. induction n as [|n IH]; intros k (Hc & Ht & Hn).
    - left. exists k. simpl. repeat split; auto; lia.
    - simpl. unfold clean in Hc.
      destruct (tick k) as [r1 k1] eqn:Et.
      unfold Model.tick in Et. rewrite due_spec in Et. simpl in Et.
      destruct (Nat.leb_spec (period c) (S (counter k))) as [E|E].
      + (* a check is due *)
        unfold Model.run_checks in Et. simpl in Et. rewrite HL in Et.
        destruct (Nat.eq_dec (nchk k) k0) as [Q|Q].
        * rewrite Q, HT in Et. inversion Et; subst r1 k1. right. eexists. split; [reflexivity|]. unfold pos; simpl.
          repeat split; try lia.
        * rewrite (HF (nchk k)) in Et by lia. inversion Et; subst r1 k1.
          match goal with |- context [run_ticks n ?K1] => destruct (IH K1) as [(k' & E' & I' & P')|(k' & E' & P' & B' & N')] end.
          { unfold cinv, clean; simpl. repeat split; try lia. }
          -- left. exists k'. repeat split; try apply I'; auto. rewrite P'. unfold pos; simpl. lia.
          -- right. exists k'. repeat split; auto. unfold pos in *; simpl in *. lia.
      + inversion Et; subst r1 k1.
        match goal with |- context [run_ticks n ?K1] => destruct (IH K1) as [(k' & E' & I' & P')|(k' & E' & P' & B' & N')] end.
        { unfold cinv, clean; simpl. repeat split; try lia. }
        * left. exists k'. repeat split; try apply I'; auto. rewrite P'. unfold pos; simpl. lia.
        * right. exists k'. repeat split; auto. unfold pos in *; simpl in *. lia.
  Qed.

  (* ------------------------------------------------------------------------------------------ *)
  (* 4. Depth                                                                                    *)

  Lemma exec_fits_free : limit c = None -> (forall j, cancelled j = false) ->
    forall p s, depth s + max_depth p <= size c -> fst (exec p s) = Ok.
  Proof.
    intros HL HC p s Hd. pose proof (exec_ticks p s Hd) as E.
    destruct (run_ticks_free HL HC (ticks p) (tks s)) as (k' & R & _). rewrite R in E.
    now inversion E.
  Qed.

  Lemma tick_st_free : limit c = None -> (forall j, cancelled j = false) -> forall s, fst (tick_st s) = Ok.
  Proof.
    intros HL HC s. rewrite tick_st_eq. simpl.
    destruct (run_ticks_free HL HC 1 (tks s)) as (k' & R & _). rewrite run_ticks_one in R. now rewrite R.
  Qed.

  Lemma exec_overflow : limit c = None -> (forall j, cancelled j = false) ->
    forall p s, depth s <= size c -> size c < depth s + max_depth p -> fst (exec p s) = Err StackOverflow.
  Proof.
    intros HL HC. induction p as [|k|a IHa b IHb|n body IH|t body IH]; intros s Hs Hd; simpl in Hd.
    - lia.
    - lia.
    - simpl. destruct (Nat.le_gt_cases (depth s + max_depth a) (size c)) as [A|A].
      + pose proof (exec_fits_free HL HC a s A) as Oa. pose proof (exec_frame a s) as (Da & _).
        destruct (exec a s) as [ra s1]; simpl in *. subst ra. apply IHb; lia.
      + specialize (IHa s Hs A). destruct (exec a s) as [ra s1]; simpl in *. now subst ra.
    - destruct n as [|n]; [lia|]. simpl.
      specialize (IH s Hs Hd). destruct (exec body s) as [r1 s1]; simpl in *. now subst r1.
    - simpl.
      assert (exists s1, (if t then tick_st s else (Ok, s)) = (Ok, s1) /\ depth s1 = depth s) as (s1 & E1 & D1).
      { destruct t.
        - pose proof (tick_st_free HL HC s) as F. pose proof (tick_st_frame s) as (D & _).
          destruct (tick_st s) as [r s1]; simpl in *; subst r. now exists s1.
        - now exists s. }
      rewrite E1. unfold push. rewrite full_spec. dleb; [reflexivity|].
      specialize (IH (mkst (tks s1) (S (depth s1)) (trace s1)) ltac:(simpl; lia) ltac:(simpl; lia)).
      destruct (exec body _) as [rb s3]; simpl in *. exact IH.
  Qed.

End Facts.

(* ---------------------------------------------------------------------------------------------- *)
(* 5. Whole evaluations (eval_module on a fresh or re-used evaluator)                              *)

Section Eval.
  Variable cancelled : nat -> bool.
  Variable c : cfg.
  Hypothesis period_pos : 0 < period c.
  Hypothesis size_pos : 0 < size c.

  Notation eval_module := (eval_module cancelled c).

  Lemma push0 : forall s, depth s = 0 -> push c s = (Ok, mkst (tks s) 1 (trace s)).
  Proof. intros s D0. unfold push. rewrite full_spec, D0. dleb; [lia|reflexivity]. Qed.

  (* depth limit, no other limit: exact *)
  Theorem depth_exact : limit c = None -> (forall j, cancelled j = false) ->
    forall p s, depth s = 0 ->
      (max_depth p < size c ->
         fst (eval_module p s) = Ok /\ depth (snd (eval_module p s)) = 0 /\
         spos (snd (eval_module p s)) = spos s + ticks p /\ trace (snd (eval_module p s)) = trace s ++ emits p) /\
      (size c <= max_depth p ->
         fst (eval_module p s) = Err StackOverflow /\ depth (snd (eval_module p s)) = 0).
  Proof.
    intros HL HC p s D0.
    pose proof (eval_module_frame cancelled c p s D0) as (DE & PE & OE).
    split; intros H.
    - assert (fst (eval_module p s) = Ok) as O.
      { unfold Model.eval_module. rewrite (push0 s D0).
        pose proof (exec_fits_free cancelled c period_pos HL HC p (mkst (tks s) 1 (trace s)) ltac:(simpl; lia)) as F.
        destruct (exec _ _ p _) as [r s2]; simpl in *. subst r.
        unfold run_checks. rewrite HC, HL. reflexivity. }
      destruct (OE O). auto.
    - split; [|exact DE].
      unfold Model.eval_module. rewrite (push0 s D0).
      pose proof (exec_overflow cancelled c period_pos HL HC p (mkst (tks s) 1 (trace s)) ltac:(simpl; lia) ltac:(simpl; lia)) as F.
      destruct (exec _ _ p _) as [r s2]; simpl in *. subst r.
      unfold run_checks. rewrite HC, HL. reflexivity.
  Qed.

  (* tick limit: within budget -> unaffected *)
  Theorem tick_limit_unaffected : forall l, limit c = Some l -> (forall j, cancelled j = false) ->
    forall p s, depth s = 0 -> max_depth p < size c -> counter (tks s) < period c -> spos s + ticks p <= l ->
      fst (eval_module p s) = Ok /\ depth (snd (eval_module p s)) = 0 /\
      spos (snd (eval_module p s)) = spos s + ticks p /\ trace (snd (eval_module p s)) = trace s ++ emits p /\
      counter (tks (snd (eval_module p s))) < period c.
  Proof.
    intros l HL HC p s D0 Hd Hc Hp.
    pose proof (eval_module_frame cancelled c p s D0) as (DE & PE & OE).
    unfold Model.eval_module in *. rewrite (push0 s D0) in *.
    pose proof (exec_ticks cancelled c p (mkst (tks s) 1 (trace s)) ltac:(simpl; lia)) as ET.
    destruct (run_ticks_within cancelled c period_pos l HL HC (ticks p) (tks s) Hc Hp) as (k' & R & C' & P').
    simpl in ET. rewrite R in ET.
    destruct (exec _ _ p _) as [r s2]; simpl in *. inversion ET; subst r.
    unfold run_checks in *. rewrite HC, HL in *. rewrite exceeds_spec in *. unfold spos in *.
    simpl in *. rewrite H1 in *. dleb; [lia|]. simpl in *.
    destruct (OE eq_refl) as [A B]. repeat split; auto.
  Qed.

  (* tick limit: over budget -> TickLimit, no later than one period after the budget is exceeded, raised at a
     check position (a multiple of the period) or by the end-of-evaluation check *)
  Theorem tick_limit_bound : forall l, limit c = Some l -> (forall j, cancelled j = false) ->
    forall p, max_depth p < size c -> l < ticks p ->
      let r := eval_module p st0 in
      fst r = Err (TickLimit l) /\ depth (snd r) = 0 /\
      l < spos (snd r) <= l + period c /\ spos (snd r) <= ticks p /\
      (spos (snd r) = ticks p \/ Nat.divide (period c) (spos (snd r))).
  Proof.
    intros l HL HC p Hd Hp. cbv zeta.
    pose proof (eval_module_frame cancelled c p st0 eq_refl) as (DE & PE & OE).
    unfold Model.eval_module in *. rewrite (push0 st0 eq_refl) in *.
    pose proof (exec_ticks cancelled c p (mkst (tks st0) 1 (trace st0)) ltac:(simpl; lia)) as ET.
    assert (inv c l tk0) as I0.
    { unfold inv, clean; simpl. repeat split; try lia. apply Nat.divide_0_r. }
    simpl in ET.
    destruct (run_ticks_limit cancelled c period_pos l HL HC (ticks p) tk0 I0)
      as [(k' & R & I' & P')|(k' & R & B' & P' & M')]; rewrite R in ET;
      destruct (exec _ _ p _) as [r s2]; simpl in *; inversion ET; subst r;
      unfold run_checks in *; rewrite HC, HL in *; rewrite exceeds_spec in *; unfold spos in *; simpl in *;
      rewrite H1 in *.
    - (* the program ran to its end; the end-of-evaluation check fires *)
      destruct I' as (C' & T' & _). unfold clean, pos in *. simpl in *.
      dleb; [|lia]. simpl. repeat split; auto; try lia.
    - dleb; [|lia]. simpl. unfold pos in *; simpl in *. repeat split; auto; try lia.
  Qed.

  (* ... and exactly where: at the first multiple of the period above the budget, or at the end of the program if
     that comes first *)
  Theorem tick_limit_position : forall l, limit c = Some l -> (forall j, cancelled j = false) ->
    forall p, max_depth p < size c -> l < ticks p ->
      spos (snd (eval_module p st0)) = Nat.min (ticks p) (period c * (l / period c + 1)).
  Proof.
    intros l HL HC p Hd Hp.
    unfold Model.eval_module in *. rewrite (push0 st0 eq_refl) in *.
    pose proof (exec_ticks cancelled c p (mkst (tks st0) 1 (trace st0)) ltac:(simpl; lia)) as ET.
    assert (inv c l tk0) as I0.
    { unfold inv, clean; simpl. repeat split; try lia. apply Nat.divide_0_r. }
    simpl in ET.
    pose proof (Nat.div_mod l (period c) ltac:(lia)) as DM.
    pose proof (Nat.mod_upper_bound l (period c) ltac:(lia)) as MU.
    destruct (run_ticks_limit cancelled c period_pos l HL HC (ticks p) tk0 I0)
      as [(k' & R & I' & P')|(k' & R & B' & P' & M')]; rewrite R in ET;
      destruct (exec _ _ p _) as [r s2]; simpl in *; inversion ET; subst r;
      pose proof (run_checks_pos cancelled c (tks s2)) as RP;
      destruct (run_checks cancelled c (tks s2)) as [[e|] k2]; simpl in *; unfold spos; simpl;
      rewrite RP, H1.
    - destruct I' as (C' & T' & [z Z]). unfold clean, pos in *. simpl in *.
      assert (z <= l / period c) as ZQ by (apply Nat.div_le_lower_bound; nia).
      rewrite Nat.min_l; nia.
    - destruct I' as (C' & T' & [z Z]). unfold clean, pos in *. simpl in *.
      assert (z <= l / period c) as ZQ by (apply Nat.div_le_lower_bound; nia).
      rewrite Nat.min_l; nia.
    - destruct M' as [z Z]. unfold pos in *. simpl in *.
      assert (z = l / period c + 1) as ZQ by nia.
      rewrite Nat.min_r; nia.
    - destruct M' as [z Z]. unfold pos in *. simpl in *.
      assert (z = l / period c + 1) as ZQ by nia.
      rewrite Nat.min_r; nia.
  Qed.

  (* a tick budget belongs to the evaluator: once exceeded, every later evaluation on it fails the same way *)
  Theorem tick_limit_sticky : forall l, limit c = Some l -> (forall j, cancelled j = false) ->
    forall q s, depth s = 0 -> l < spos s -> fst (eval_module q s) = Err (TickLimit l).
  Proof.
    intros l HL HC q s D0 Hp. unfold Model.eval_module. rewrite (push0 s D0).
    pose proof (exec_frame cancelled c q (mkst (tks s) 1 (trace s))) as (_ & P & _).
    destruct (exec _ _ q _) as [r s2]; simpl in *.
    unfold run_checks. rewrite HC, HL, exceeds_spec. unfold spos in *; simpl in *. dleb; [reflexivity|lia].
  Qed.

  (* cancellation: answered false for its first k invocations and true at the k-th (0-based) *)
  Theorem cancel_within_period : forall k0, limit c = None ->
    (forall j, j < k0 -> cancelled j = false) -> (forall j, k0 <= j -> cancelled j = true) ->
    forall p, max_depth p < size c ->
      let r := eval_module p st0 in
      (k0 <= ticks p / period c ->
         fst r = Err Cancelled /\ depth (snd r) = 0 /\ spos (snd r) = Nat.min (ticks p) ((k0 + 1) * period c)
         /\ k0 * period c <= spos (snd r) <= (k0 + 1) * period c) /\
      (ticks p / period c < k0 ->
         fst r = Ok /\ depth (snd r) = 0 /\ spos (snd r) = ticks p /\ trace (snd r) = emits p).
  Proof.
    intros k0 HL HF HT p Hd. cbv zeta.
    pose proof (eval_module_frame cancelled c p st0 eq_refl) as (DE & PE & OE).
    unfold Model.eval_module in *. rewrite (push0 st0 eq_refl) in *.
    pose proof (exec_ticks cancelled c p (mkst (tks st0) 1 (trace st0)) ltac:(simpl; lia)) as ET.
    assert (cinv c k0 tk0) as I0.
    { unfold cinv, clean; simpl. repeat split; lia. }
    simpl in ET.
    destruct (run_ticks_cancel cancelled c period_pos k0 HL HF (HT k0 (Nat.le_refl _)) (ticks p) tk0 I0)
      as [(k' & R & I' & P')|(k' & R & P' & B' & N')]; rewrite R in ET;
      destruct (exec _ _ p _) as [r s2]; simpl in *; inversion ET; subst r;
      unfold run_checks in *; rewrite HL in *; unfold spos in *; simpl in *; rewrite H1 in *.
    - (* ran to its end: the end-of-evaluation check is invocation number nchk k' = ticks p / period *)
      destruct I' as (C' & T' & N'). unfold clean, pos in *. simpl in *.
      assert (nchk k' = ticks p / period c) as Q.
      { apply (Nat.div_unique (ticks p) (period c) (nchk k') (counter k')); lia. }
      split; intros H.
      + assert (nchk k' = k0) as Q' by lia. rewrite Q', (HT k0) in * by lia. simpl in *.
        repeat split; auto; try lia.
      + rewrite (HF (nchk k')) in * by lia. simpl in *. destruct (OE eq_refl) as [A B].
        repeat split; auto.
    - (* cancelled at an in-loop check *)
      assert (k0 <= ticks p / period c) as G.
      { apply Nat.div_le_lower_bound; [lia|]. unfold pos in *; simpl in *. nia. }
      split; intros H; [|lia].
      rewrite N', (HT (S k0)) in * by lia. simpl in *. unfold pos in *; simpl in *.
      repeat split; auto; try lia.
  Qed.

  (* re-use after any outcome: the stack is empty again and the tick total continues from the reported value *)
  Theorem reusable_after_limit : forall p s, depth s = 0 ->
    depth (snd (eval_module p s)) = 0 /\
    spos s <= spos (snd (eval_module p s)) <= spos s + ticks p /\
    (fst (eval_module p s) = Ok -> spos (snd (eval_module p s)) = spos s + ticks p
                                   /\ trace (snd (eval_module p s)) = trace s ++ emits p).
  Proof. intros p s D0. exact (eval_module_frame cancelled c p s D0). Qed.

End Eval.
