(* C15: executable comparison driver used by the tie: the model run on the implementation's inputs.
   One case = one evaluator configuration (max_callstack_size D, max_tick_count L, cancellation answering true
   from its K-th invocation on; each optional) and a list of programs evaluated one after the other on the
   SAME evaluator (eval.rs: "src" then "then"). Per step: outcome, get_total_tick_count(), call_stack_count()
   afterwards and the transcript of that step. *)
From Coq Require Import Arith List Bool.
From SV Require Import Limits.Model.
Import ListNotations.
Open Scope nat_scope.

Record obs : Type := mkobs {
  o_res : res;
  o_ticks : nat;
  o_depth : nat;
  o_trace : list nat
}.

Fixpoint run_steps (cancelled : nat -> bool) (c : cfg) (ps : list prog) (s : st) : list obs :=
  match ps with
  | [] => []
  | p :: rest =>
      let (r, s') := eval_module cancelled c p (mkst (tks s) (depth s) []) in
      mkobs r (spos s') (depth s') (trace s') :: run_steps cancelled c rest s'
  end.

Definition run_case (D L K : option nat) (ps : list prog) : list obs :=
  run_steps (match K with Some k => from_check k | None => never end) (real_cfg D L) ps st0.

(* what the specification functions say about a program (sent along for the Python-side triage) *)
Definition facts (p : prog) : nat * nat * list nat := (ticks p, max_depth p, emits p).
