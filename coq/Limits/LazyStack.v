(* C15: a call stack whose frame array is allocated lazily (grown in steps up to the configured maximum) must enforce
   exactly the configured maximum.  Model of eval/runtime/cheap_call_stack.rs `push`/`pop` generalised with a growth
   policy: `alloc` = frames allocated, `count` = frames in use, `max` = max_callstack_size.  The stack as written
   today allocates `max` frames up front (grow never runs); a growth policy is exact iff it never allocates beyond
   `max`, and the doubling policy without the clamp is refuted by a run. *)
From Coq Require Import Arith Lia List Bool.
Import ListNotations.

Record st := { alloc : nat; count : nat }.

Section Policy.
  Variable max : nat.
  Variable grow : nat -> nat.            (* new allocation from the old one, called only when alloc < max *)

  Definition push (s : st) : option st :=
    if count s <? alloc s then Some {| alloc := alloc s; count := S (count s) |}
    else if max <=? alloc s then None                                   (* StackOverflow *)
    else Some {| alloc := grow (alloc s); count := S (count s) |}.
  Definition pop (s : st) : st := {| alloc := alloc s; count := pred (count s) |}.

  Inductive op := Push | Pop.
  (* a failed push leaves the stack as it was (the evaluation then unwinds with pops) *)
  Definition step (s : st) (o : op) : st :=
    match o with Push => match push s with Some s' => s' | None => s end | Pop => pop s end.

  Definition Inv (s : st) : Prop := count s <= alloc s /\ alloc s <= max.

  (* a policy that grows strictly and never beyond max *)
  Hypothesis grow_ok : forall a, a < max -> a < grow a <= max.

  Lemma push_exact s : Inv s -> (push s = None <-> count s = max).
  Proof.
    unfold Inv, push. intros [H1 H2].
    destruct (Nat.ltb_spec (count s) (alloc s)); [split; [discriminate|lia]|].
    destruct (Nat.leb_spec max (alloc s)); split; intros E; try discriminate E; try reflexivity; lia.
  Qed.

  Lemma step_inv s o : Inv s -> Inv (step s o).
  Proof.
    unfold Inv, step, push, pop. intros [H1 H2]. destruct o.
    - destruct (Nat.ltb_spec (count s) (alloc s)); cbn [alloc count]; [lia|].
      destruct (Nat.leb_spec max (alloc s)); cbn [alloc count]; [lia|].
      pose proof (grow_ok (alloc s) H0). lia.
    - cbn [alloc count]. lia.
  Qed.

  Theorem lazy_stack_exact init ops :
    Inv init -> let s := fold_left step ops init in Inv s /\ (push s = None <-> count s = max).
  Proof.
    intros Hi. cbv zeta.
    assert (H : Inv (fold_left step ops init)).
    { revert init Hi. induction ops as [|o ops IH]; intros init Hi; cbn [fold_left]; [exact Hi|].
      apply IH. apply step_inv. exact Hi. }
    split; [exact H|apply push_exact; exact H].
  Qed.
End Policy.

(* the clamped doubling policy is exact for every configured maximum ... *)
Definition grow_clamped (max a : nat) : nat := Nat.min max (2 * Nat.max a 1).
Lemma grow_clamped_ok max a : a < max -> a < grow_clamped max a <= max.
Proof. unfold grow_clamped. intros H. lia. Qed.

Theorem lazy_stack_clamped_exact max init ops :
  Inv max init ->
  let s := fold_left (step max (grow_clamped max)) ops init in
  Inv max s /\ (push max (grow_clamped max) s = None <-> count s = max).
Proof. intros H. apply lazy_stack_exact; [apply grow_clamped_ok|exact H]. Qed.

(* ... the unclamped one is not: with max = 60 and 50 frames allocated at first, the 61st nested call is admitted *)
Definition grow_unclamped (a : nat) : nat := 2 * a.
Theorem lazy_stack_unclamped_refuted :
  let s := fold_left (step 60 grow_unclamped) (repeat Push 60) {| alloc := 50; count := 0 |} in
  count s = 60 /\ push 60 grow_unclamped s <> None.
Proof. vm_compute. split; [reflexivity|discriminate]. Qed.

Example lazy_stack_nonvacuous :
  Inv 60 {| alloc := 50; count := 0 |} /\
  push 60 (grow_clamped 60) (fold_left (step 60 (grow_clamped 60)) (repeat Push 60) {| alloc := 50; count := 0 |}) = None.
Proof. split; [unfold Inv; cbn; lia|vm_compute; reflexivity]. Qed.
