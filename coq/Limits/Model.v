(* C15  Call-depth, tick and cancellation limits: executable model (no proofs in this file).

   Mirrors, branch by branch:
     starlark/src/eval/runtime/evaluator.rs    report_forward_progress, run_infrequent_instr_checks,
                                               check_tick_count_limit, get_total_tick_count, with_call_stack
     starlark/src/eval/runtime/cheap_call_stack.rs   push / pop
     starlark/src/eval.rs                      eval_module (hidden frame, end-of-evaluation check)
     starlark/src/eval/bc/instr_impl.rs        where ticks happen: InstrContinue (loop back-edge) and the call
                                               instruction families (InstrCall*, InstrCallFrozen*, InstrCallFrozenDef*,
                                               call_method_common); NOT in call_maybe_known_method_common's fast path,
                                               NOT in Value::invoke (native code calling back), NOT for inlined calls.
   Constants and comparison operators come from coq/Extracted/LimitsC.v (regenerated from the sources on every run).

   The heap-size limit (second check of run_infrequent_instr_checks) is not modelled: no heap limit is configured. *)
From Coq Require Import Arith List Bool ZArith.
From SV Require Import Extracted.LimitsC.
Import ListNotations.
Open Scope nat_scope.

(* ---------------------------------------------------------------------------------------------- *)
(* The cost language: what a Starlark program does as far as the three limits can see.            *)

Inductive prog : Type :=
| Skip                                   (* anything that neither calls nor loops *)
| Emit (k : nat)                         (* observable effect (the harness' transcript); costs nothing itself *)
| Seq (a b : prog)
| Loop (n : nat) (body : prog)           (* `for` statement / comprehension clause over n items:
                                            InstrIter (no tick), then after every body InstrContinue = one tick,
                                            including the one that finds the iterator exhausted *)
| Frame (ticking : bool) (body : prog).  (* something that pushes a call-stack frame around `body`:
                                            ticking = true : reached through a call instruction
                                                             (def, lambda, frozen def, native function, method found by
                                                             name): report_forward_progress, THEN with_call_stack
                                            ticking = false: reached through Value::invoke from native code (callbacks
                                                             of map/filter/sorted(key=)/partial) or through the
                                                             known-method fast path: with_call_stack only.
                                            An inlined call is its body, without Frame. *)

Fixpoint ticks (p : prog) : nat :=
  match p with
  | Skip | Emit _ => 0
  | Seq a b => ticks a + ticks b
  | Loop n b => n * (ticks b + 1)
  | Frame t b => (if t then 1 else 0) + ticks b
  end.

Fixpoint max_depth (p : prog) : nat :=
  match p with
  | Skip | Emit _ => 0
  | Seq a b => Nat.max (max_depth a) (max_depth b)
  | Loop n b => match n with 0 => 0 | S _ => max_depth b end
  | Frame _ b => S (max_depth b)
  end.

Fixpoint repeat_app {A} (n : nat) (l : list A) : list A :=
  match n with 0 => [] | S m => l ++ repeat_app m l end.

Fixpoint emits (p : prog) : list nat :=
  match p with
  | Skip => []
  | Emit k => [k]
  | Seq a b => emits a ++ emits b
  | Loop n b => repeat_app n (emits b)
  | Frame _ b => emits b
  end.

(* ---------------------------------------------------------------------------------------------- *)
(* Evaluator state                                                                                *)

Inductive err : Type := StackOverflow | TickLimit (l : nat) | Cancelled.
Inductive res : Type := Ok | Err (e : err).

(* the tick accounting fields of Evaluator *)
Record tk : Type := mktk {
  total : nat;      (* total_tick_count_at_last_infrequent_check *)
  counter : nat;    (* infrequent_instr_check_counter *)
  nchk : nat        (* how many times is_cancelled has been invoked so far (index into the oracle) *)
}.

Record st : Type := mkst {
  tks : tk;
  depth : nat;            (* call_stack.count *)
  trace : list nat        (* transcript of Emit *)
}.

Definition pos (k : tk) : nat := total k + counter k.     (* get_total_tick_count *)
Definition spos (s : st) : nat := pos (tks s).

Definition tk0 : tk := mktk 0 0 0.
Definition st0 : st := mkst tk0 0 [].

Record cfg : Type := mkcfg {
  period : nat;           (* INFREQUENT_INSTRUCTION_CHECK_PERIOD *)
  size : nat;             (* call_stack.stack.len(): max_callstack_size or DEFAULT_STACK_SIZE *)
  limit : option nat      (* max_tick_count *)
}.

Definition tick_period_nat : nat := Z.to_nat tick_period.
Definition default_stack_nat : nat := Z.to_nat default_stack_size.

(* The configuration of a real evaluator: set_max_callstack_size(D) / set_max_tick_count(L), both optional. *)
Definition real_cfg (D : option nat) (L : option nat) : cfg :=
  mkcfg tick_period_nat (match D with Some d => d | None => default_stack_nat end) L.

(* check_tick_count_limit: `current > limit` *)
Definition exceeds (l cur : nat) : bool := if tick_limit_strict then l <? cur else l <=? cur.
(* report_forward_progress: `counter >= PERIOD` *)
Definition due (per c : nat) : bool := if progress_shape then per <=? c else per <? c.
(* CheapCallStack::push: `count >= stack.len()` *)
Definition full (sz d : nat) : bool := if push_ge then sz <=? d else sz <? d.

Section Exec.
  Variable cancelled : nat -> bool.      (* the host's is_cancelled callback: answer of its n-th invocation *)
  Variable c : cfg.

  (* run_infrequent_instr_checks: cancellation, (heap), tick limit *)
  Definition run_checks (k : tk) : option err * tk :=
    let k' := mktk (total k) (counter k) (S (nchk k)) in
    if cancelled (nchk k) then (Some Cancelled, k')
    else match limit c with
         | Some l => if exceeds l (pos k) then (Some (TickLimit l), k') else (None, k')
         | None => (None, k')
         end.

  (* report_forward_progress: a failing check returns early, BEFORE the counter is folded into the total and
     reset, so the counter stays >= period and the checks run again on the very next tick. *)
  Definition tick (k : tk) : res * tk :=
    let k1 := mktk (total k) (S (counter k)) (nchk k) in
    if due (period c) (counter k1) then
      match run_checks k1 with
      | (Some e, k2) => (Err e, k2)
      | (None, k2) => (Ok, mktk (total k2 + counter k2) 0 (nchk k2))
      end
    else (Ok, k1).

  Definition set_tks (s : st) (k : tk) : st := mkst k (depth s) (trace s).

  Definition tick_st (s : st) : res * st := let (r, k) := tick (tks s) in (r, set_tks s k).

  (* CheapCallStack::push / pop *)
  Definition push (s : st) : res * st :=
    if full (size c) (depth s) then (Err StackOverflow, s) else (Ok, mkst (tks s) (S (depth s)) (trace s)).
  Definition pop (s : st) : st := mkst (tks s) (Nat.pred (depth s)) (trace s).

  Definition emit (k : nat) (s : st) : st := mkst (tks s) (depth s) (trace s ++ [k]).

  Fixpoint exec (p : prog) (s : st) : res * st :=
    match p with
    | Skip => (Ok, s)
    | Emit k => (Ok, emit k s)
    | Seq a b => match exec a s with
                 | (Ok, s1) => exec b s1
                 | r => r
                 end
    | Loop n body =>
        (fix loop (n : nat) (s : st) : res * st :=
           match n with
           | 0 => (Ok, s)
           | S m => match exec body s with
                    | (Ok, s1) => match tick_st s1 with        (* InstrContinue *)
                                  | (Ok, s2) => loop m s2
                                  | r => r
                                  end
                    | r => r
                    end
           end) n s
    | Frame t body =>
        match (if t then tick_st s else (Ok, s)) with          (* call instruction: report_forward_progress()? *)
        | (Ok, s1) => match push s1 with                       (* with_call_stack: push()? *)
                      | (Ok, s2) => let (r, s3) := exec body s2 in (r, pop s3)   (* pop regardless of the result *)
                      | r => r
                      end
        | r => r
        end
    end.

  (* Evaluator::eval_module: push the hidden frame, run, pop, then the end-of-evaluation checks, whose error
     (if any) replaces the result of the evaluation. *)
  Definition eval_module (p : prog) (s : st) : res * st :=
    match push s with
    | (Ok, s1) =>
        let (r, s2) := exec p s1 in
        let s3 := pop s2 in
        match run_checks (tks s3) with
        | (Some e, k) => (Err e, set_tks s3 k)
        | (None, k) => (r, set_tks s3 k)
        end
    | r => r        (* cannot happen at depth 0 with size > 0; the code unwraps *)
    end.

  (* n ticks in a row, stopping at the first failing check (what a program does between other effects) *)
  Fixpoint run_ticks (n : nat) (k : tk) : res * tk :=
    match n with
    | 0 => (Ok, k)
    | S m => match tick k with
             | (Ok, k1) => run_ticks m k1
             | r => r
             end
    end.

  (* n ticks, continuing after failed checks (an evaluator that is used again after errors) *)
  Definition ticks_regardless (n : nat) (k : tk) : tk := Nat.iter n (fun k => snd (tick k)) k.

End Exec.

Definition never : nat -> bool := fun _ => false.
Definition from_check (k : nat) : nat -> bool := fun j => k <=? j.
