(* C19 - executable comparison drivers used by the tie (tools/props/C19.py, cases.v route). *)
From Coq Require Import NArith String List.
From SV Require Import Lsp.Bind Lsp.Pos.
Import ListNotations.
Open Scope N_scope.

(* (found, scope id, binding occurrence id, run-time kind 0 none / 1 builtin / 2 scope, run-time scope id) *)
Definition def_row (p : stmts) (use : N) : N * N * N * N * N :=
  let '(f, sid, d) := match lsp_definition p use with
                      | Some df => (1, d_scope df, d_binding df)
                      | None => (0, 0, 0)
                      end in
  let '(k, rs) := match scope_read_at_runtime p use with
                  | NotHere => (0, 0)
                  | Global _ => (1, 0)
                  | InScope s _ => (2, s)
                  end in
  (f, sid, d, k, rs).

Definition def_rows (p : stmts) (uses : list N) : list (N * N * N * N * N) := map (def_row p) uses.

(* (find_line, line of find_line_col, scalar column, UTF-16 column, specification line) per byte offset *)
Definition pos_row (s : text) (off : N) : N * N * N * N * N :=
  (N.of_nat (find_line s off), N.of_nat (fst (find_line_col s off)), snd (find_line_col s off), col16 s off,
   N.of_nat (line_of s (clamp_pos s off))).

Definition pos_rows (s : text) (offs : list N) : list (N * N * N * N * N) := map (pos_row s) offs.
