(* C19 - position arithmetic of starlark_syntax/src/codemap.rs next to the protocol's UTF-16 columns.

   A text is a list of Unicode scalar values (code points).  Offsets (`Pos`) are BYTE offsets into the UTF-8
   encoding, as in the implementation: a code point c occupies w8 c bytes and w16 c UTF-16 code units.
   NO proofs in this file. *)
From Coq Require Import NArith List Bool Arith.
Import ListNotations.
Open Scope N_scope.

Definition text := list N.

Definition w8 (c : N) : N := if c <? 128 then 1 else if c <? 2048 then 2 else if c <? 65536 then 3 else 4.
Definition w16 (c : N) : N := if c <? 65536 then 1 else 2.
Definition NL : N := 10.

Fixpoint blen (s : text) : N := match s with [] => 0 | c :: r => w8 c + blen r end.      (* source.len() *)
Fixpoint len16 (s : text) : N := match s with [] => 0 | c :: r => w16 c + len16 r end.
Definition nlen (s : text) : N := N.of_nat (length s).                                  (* fast_string::len *)

(* CodeMap::new: lines = [Pos(0)] ++ [p + 1 | p <- match_indices('\n')] *)
Fixpoint line_starts (o : N) (s : text) : list N :=
  match s with
  | [] => []
  | c :: r => let o' := o + w8 c in if c =? NL then o' :: line_starts o' r else line_starts o' r
  end.
Definition lines (s : text) : list N := 0 :: line_starts 0 s.

(* slice::binary_search on the (strictly increasing) line table *)
Inductive bres := BOk (i : nat) | BErr (i : nat).
Fixpoint bsearch (fuel : nat) (v : list N) (lo hi : nat) (x : N) : bres :=
  match fuel with
  | O => BErr lo
  | S f =>
      if (hi <=? lo)%nat then BErr lo
      else let mid := (lo + (hi - lo) / 2)%nat in
           let y := nth mid v 0 in
           if y =? x then BOk mid
           else if y <? x then bsearch f v (S mid) hi x
           else bsearch f v lo mid x
  end.
Definition binary_search (v : list N) (x : N) : bres := bsearch (S (length v)) v 0 (length v) x.

(* clamp_pos: a position past the end of the file resolves to the end *)
Definition clamp_pos (s : text) (off : N) : N := if blen s <? off then blen s else off.

(* CodeMap::find_line: Ok(i) => i, Err(i) => i - 1 *)
Definition find_line (s : text) (off : N) : nat :=
  match binary_search (lines s) (clamp_pos s off) with
  | BOk i => i
  | BErr i => (i - 1)%nat
  end.

(* byte slicing of the source; offsets handed to these are character boundaries *)
Fixpoint skipb (n : N) (s : text) : text :=          (* &source[n..] *)
  match s with
  | [] => []
  | c :: r => if n =? 0 then s else skipb (n - w8 c) r
  end.
Fixpoint prefixb (n : N) (s : text) : text :=        (* &s[..floor_char_boundary(n)] : the code points lying
                                                        entirely inside the first n bytes *)
  match s with
  | [] => []
  | c :: r => if n <? w8 c then [] else c :: prefixb (n - w8 c) r
  end.

(* line_span_opt(line): begin = lines[line], end = lines.get(line+1).unwrap_or(full_span.end) *)
Definition line_begin (s : text) (l : nat) : N := nth l (lines s) 0.
Definition line_end (s : text) (l : nat) : N := nth (S l) (lines s) (blen s).

(* find_line_col up to the text it counts:
     line = find_line(pos); line_text = source_span(line_span(line));
     byte_col = pos - line_span.begin; &line_text[..floor_char_boundary(byte_col)] *)
Definition line_col_prefix (s : text) (off : N) : nat * text :=
  let off := clamp_pos s off in
  let l := find_line s off in
  let b := line_begin s l in
  let e := line_end s l in
  let line_text := prefixb (e - b) (skipb b s) in
  (l, prefixb (off - b) line_text).

(* ResolvedPos { line, column }: column = fast_string::len(..) = number of scalar values *)
Definition find_line_col (s : text) (off : N) : nat * N :=
  let (l, pre) := line_col_prefix s off in (l, nlen pre).
Definition colscalar (s : text) (off : N) : N := snd (find_line_col s off).

(* what the protocol requires: the number of UTF-16 code units of the same text *)
Definition col16 (s : text) (off : N) : N := len16 (snd (line_col_prefix s off)).

(* From<ResolvedSpan> for lsp_types::Range copies line and column verbatim *)
Definition lsp_position (s : text) (off : N) : N * N :=
  let (l, c) := find_line_col s off in (N.of_nat l, c).

(* ---- specification side ------------------------------------------------------------------------- *)

(* one pass over the text: the line containing byte offset off and the characters of that line before off *)
Fixpoint lp (s : text) (off : N) (line : nat) (acc : text) : nat * text :=
  match s with
  | [] => (line, acc)
  | c :: r =>
      if off <? w8 c then (line, acc)
      else if c =? NL then lp r (off - w8 c) (S line) []
      else lp r (off - w8 c) line (acc ++ [c])
  end.
Definition line_prefix (s : text) (off : N) : nat * text := lp s off 0%nat [].
Definition line_of (s : text) (off : N) : nat := fst (line_prefix s off).
Definition chars_before_on_line (s : text) (off : N) : text := snd (line_prefix s off).

Definition astral (c : N) : bool := 65536 <=? c.

(* off is a character boundary of s *)
Definition boundary (s : text) (off : N) : Prop := exists k, off = blen (firstn k s).

(* inverse of find_line_col: byte offset of (line, column counted in scalar values) *)
Definition offset_of (s : text) (lc : nat * N) : N :=
  let b := line_begin s (fst lc) in
  b + blen (firstn (N.to_nat (snd lc)) (skipb b s)).

(* the lines of a document as the protocol sees them (terminated by \n; a preceding \r belongs to the
   terminator): number of lines and the UTF-16 length of line l without its \n *)
Fixpoint split_lines (s : text) (cur : text) : list text :=
  match s with
  | [] => [cur]
  | c :: r => if c =? NL then cur :: split_lines r [] else split_lines r (cur ++ [c])
  end.
Definition doc_lines (s : text) : list text := split_lines s [].
Definition valid_position (s : text) (p : N * N) : Prop :=
  exists lt, nth_error (doc_lines s) (N.to_nat (fst p)) = Some lt /\ snd p <= nlen lt.
Definition valid_position16 (s : text) (p : N * N) : Prop :=
  exists lt, nth_error (doc_lines s) (N.to_nat (fst p)) = Some lt /\ snd p <= len16 lt.

(* a (line, scalar column) pair denotes a position of the document: the line exists, the line has at least
   that many characters left, and the position lies inside the line's span (terminator included) *)
Definition in_document (s : text) (p : nat * N) : Prop :=
  (fst p < length (lines s))%nat /\
  (N.to_nat (snd p) <= length (skipb (line_begin s (fst p)) s))%nat /\
  line_begin s (fst p) <= offset_of s p <= line_end s (fst p).

