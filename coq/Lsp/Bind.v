(* C19 - the language server's scope analysis (starlark_lsp/src/bind.rs, definition.rs) next to the
   declarative run-time scoping rule, on a scoping view of MiniStar.

   Syntax: MiniStar (coq/Core/Syntax.v) with everything irrelevant to scoping collapsed:
   literals -> ELit; unary/binary operators, calls, tuples, lists, dicts, indexing, slices, conditional
   expressions, method calls `recv.m(args)` -> left-to-right chains of EBin (the order in which bind.rs visits
   sub-expressions); dotted access `x.y.z` -> its root variable (Bind::GetDotted resolves the root exactly like
   Bind::Get).  Every identifier occurrence carries an occurrence id (its source span in the implementation),
   every scope-introducing construct (def, lambda, comprehension) a scope id; the module is scope 0.
   Lists are encoded as chains inside the mutual inductive family so that Coq derives the mutual induction scheme.

   NO proofs in this file. *)
From Coq Require Import NArith String List Bool.
Import ListNotations.
Open Scope N_scope.

Definition name := string.

Inductive expr :=
| ELit
| EVar (x : name) (id : N)
| EBin (a b : expr)
| ELambda (sid : N) (ps : params) (body : expr)
| EComp (sid : N) (body : expr) (t : target) (over : expr) (cls : clauses)   (* [body for t in over cls...] *)
with params :=
| PNil
| PCons (x : name) (id : N) (default : expr) (rest : params)      (* no default / *args / **kw: default = ELit *)
with clauses :=
| CNil
| CFor (t : target) (over : expr) (rest : clauses)
| CIf (c : expr) (rest : clauses)
with target :=
| TVar (x : name) (id : N)
| TPair (a b : target)
| TIndex (a i : expr).                                             (* a[i] = ..., a.f = ... : no binding *)

Inductive stmt :=
| SExpr (e : expr)
| SAssign (t : target) (e : expr)
| SAug (t : target) (e : expr)
| SIf (c : expr) (th el : stmts)
| SFor (t : target) (over : expr) (body : stmts)
| SReturn (e : expr)
| SPass                                                            (* pass / break / continue *)
| SDef (x : name) (id : N) (sid : N) (ps : params) (body : stmts)
| SLoad (x : name) (id : N)                                        (* load("m", x = "their") *)
with stmts :=
| SNil
| SCons (s : stmt) (rest : stmts).

(* ================================================================================================ *)
(* bind.rs                                                                                          *)

Inductive bind :=
| BSet (x : name) (id : N)            (* Bind::Set(_, ident) *)
| BGet (x : name) (id : N)            (* Bind::Get(ident) / Bind::GetDotted(root ident, ..) *)
| BFlow                               (* Bind::Flow *)
| BScope (sid : N) (inner : list bind). (* Bind::Scope(Scope::new(inner)); sid is a ghost label *)

(* expr_lvalue: `x.visit_expr(expr)` then `x.visit_lvalue(Set)` *)
Fixpoint expr_b (e : expr) : list bind :=
  match e with
  | ELit => []
  | EVar x id => [BGet x id]
  | EBin a b => expr_b a ++ expr_b b
  | ELambda sid ps body =>
      (* parameters(params, res, &mut inner); expr(body, &mut inner); res.push(Scope) *)
      params_outer ps ++ [BScope sid (params_inner ps ++ expr_b body)]
  | EComp sid body t over cls =>
      (* comprehension: expr(&for_.over, res); inner: expr_lvalue(var); clauses; end(inner) *)
      expr_b over ++ [BScope sid (target_exprs t ++ target_sets t ++ clauses_b cls ++ expr_b body)]
  end
with params_outer (ps : params) : list bind :=      (* defaults and annotations go to the ENCLOSING scope *)
  match ps with
  | PNil => []
  | PCons _ _ d rest => expr_b d ++ params_outer rest
  end
with params_inner (ps : params) : list bind :=      (* Bind::Set(Assigner::Argument, name) in the new scope *)
  match ps with
  | PNil => []
  | PCons x id _ rest => BSet x id :: params_inner rest
  end
with clauses_b (cs : clauses) : list bind :=
  match cs with
  | CNil => []
  | CFor t over rest => expr_b over ++ (target_exprs t ++ target_sets t) ++ clauses_b rest
  | CIf c rest => expr_b c ++ clauses_b rest
  end
with target_exprs (t : target) : list bind :=
  match t with
  | TVar _ _ => []
  | TPair a b => target_exprs a ++ target_exprs b
  | TIndex a i => expr_b a ++ expr_b i
  end
with target_sets (t : target) : list bind :=
  match t with
  | TVar x id => [BSet x id]
  | TPair a b => target_sets a ++ target_sets b
  | TIndex _ _ => []
  end.

(* AssignModify: the assigned identifiers are first read (Bind::Get with the same span) *)
Fixpoint target_gets (t : target) : list bind :=
  match t with
  | TVar x id => [BGet x id]
  | TPair a b => target_gets a ++ target_gets b
  | TIndex _ _ => []
  end.

Definition target_b (t : target) : list bind := target_exprs t ++ target_sets t.

Fixpoint stmt_b (s : stmt) : list bind :=
  match s with
  | SExpr e => expr_b e
  | SAssign t e => expr_b e ++ target_b t
  | SAug t e => target_exprs t ++ target_gets t ++ expr_b e ++ target_b t
  | SIf c th el => expr_b c ++ [BFlow] ++ stmts_b th ++ [BFlow] ++ stmts_b el ++ [BFlow]
  | SFor t over body => expr_b over ++ target_b t ++ [BFlow] ++ stmts_b body ++ [BFlow]
  | SReturn e => expr_b e ++ [BFlow]
  | SPass => []
  | SDef x id sid ps body =>
      params_outer ps ++ [BSet x id] ++ [BScope sid (params_inner ps ++ stmts_b body)]
  | SLoad x id => [BSet x id]
  end
with stmts_b (ss : stmts) : list bind :=
  match ss with
  | SNil => []
  | SCons s rest => stmt_b s ++ stmts_b rest
  end.

(* Scope::new: `bound.entry(name).or_insert(..)` - the FIRST Set of a name among the direct children wins *)
Fixpoint lookup_bound (inner : list bind) (x : name) : option N :=
  match inner with
  | [] => None
  | BSet y id :: r => if String.eqb y x then Some id else lookup_bound r x
  | _ :: r => lookup_bound r x
  end.

(* ================================================================================================ *)
(* definition.rs: find_definition_in_scope                                                          *)

Inductive tmp :=
| TNotFound
| TName (x : name)                    (* TempIdentifierDefinition::Name: not bound here, try outer scopes *)
| TLoc (sid : N) (d : N) (x : name).  (* Location / LoadedLocation: binding occurrence d, found in scope sid *)

(* resolve_get_in_scope *)
Definition resolve_in (sid : N) (inner : list bind) (x : name) : tmp :=
  match lookup_bound inner x with
  | Some d => TLoc sid d x
  | None => TName x
  end.

(* `for bind in &scope.inner`: the first Get containing the position, or the first inner scope that knows
   the position.  A Get found directly in a scope, and a Name bubbling up from an inner scope, are both
   resolved against the `bound` map of the current scope (resolve_get_in_scope) and returned at once;
   here this is done when the scan of the scope's children returns. *)
Fixpoint scan_b (b : bind) (use : N) : tmp :=
  match b with
  | BGet x id => if id =? use then TName x else TNotFound
  | BScope sid inner =>
      match (fix go (bs : list bind) : tmp :=
               match bs with
               | [] => TNotFound
               | b' :: r => match scan_b b' use with TNotFound => go r | t => t end
               end) inner with
      | TName x => resolve_in sid inner x
      | t => t
      end
  | _ => TNotFound
  end.

Fixpoint scan (bs : list bind) (use : N) : tmp :=
  match bs with
  | [] => TNotFound
  | b :: r => match scan_b b use with TNotFound => scan r use | t => t end
  end.

Definition find_scope (sid : N) (inner : list bind) (use : N) : tmp :=
  match scan inner use with
  | TName x => resolve_in sid inner x
  | t => t
  end.

Record definition := mkdef { d_scope : N; d_binding : N; d_name : name }.

(* find_definition_at_location + get_definition_location (module scope = 0); None = Unresolved / NotFound *)
Definition lsp_definition (p : stmts) (use : N) : option definition :=
  match find_scope 0 (stmts_b p) use with
  | TLoc sid d x => Some (mkdef sid d x)
  | _ => None
  end.

(* ================================================================================================ *)
(* The declarative run-time rule: a name assigned anywhere in a function body (or a parameter) is local
   to the function; comprehension variables are local to the comprehension, whose FIRST iterable is
   evaluated outside; parameter defaults are evaluated outside; otherwise the enclosing function;
   otherwise the module; otherwise a builtin. *)

Fixpoint tnames (t : target) : list name :=
  match t with
  | TVar x _ => [x]
  | TPair a b => tnames a ++ tnames b
  | TIndex _ _ => []
  end.

Fixpoint pnames (ps : params) : list name :=
  match ps with PNil => [] | PCons x _ _ r => x :: pnames r end.

Fixpoint cnames (cs : clauses) : list name :=
  match cs with CNil => [] | CFor t _ r => tnames t ++ cnames r | CIf _ r => cnames r end.

Fixpoint snames (s : stmt) : list name :=
  match s with
  | SAssign t _ | SAug t _ => tnames t
  | SIf _ th el => ssnames th ++ ssnames el
  | SFor t _ body => tnames t ++ ssnames body
  | SDef x _ _ _ _ => [x]
  | SLoad x _ => [x]
  | _ => []
  end
with ssnames (ss : stmts) : list name :=
  match ss with SNil => [] | SCons s r => snames s ++ ssnames r end.

Definition env := list (N * list name).            (* innermost scope first *)

Inductive rt :=
| NotHere                                          (* the occurrence is not in this piece of syntax *)
| Global (x : name)                                (* read from the builtins *)
| InScope (sid : N) (x : name).                    (* read from scope sid *)

Fixpoint mem (x : name) (ns : list name) : bool :=
  match ns with [] => false | y :: r => String.eqb y x || mem x r end.

Fixpoint lookup (en : env) (x : name) : rt :=
  match en with
  | [] => Global x
  | (sid, ns) :: r => if mem x ns then InScope sid x else lookup r x
  end.

Definition orelse (a b : rt) : rt := match a with NotHere => b | _ => a end.

Fixpoint rt_e (en : env) (e : expr) (use : N) : rt :=
  match e with
  | ELit => NotHere
  | EVar x id => if id =? use then lookup en x else NotHere
  | EBin a b => orelse (rt_e en a use) (rt_e en b use)
  | ELambda sid ps body => orelse (rt_ps en ps use) (rt_e ((sid, pnames ps) :: en) body use)
  | EComp sid body t over cls =>
      orelse (rt_e en over use)
        (let en' := (sid, tnames t ++ cnames cls) :: en in
         orelse (rt_t en' t use) (orelse (rt_cs en' cls use) (rt_e en' body use)))
  end
with rt_ps (en : env) (ps : params) (use : N) : rt :=
  match ps with
  | PNil => NotHere
  | PCons _ _ d r => orelse (rt_e en d use) (rt_ps en r use)
  end
with rt_cs (en : env) (cs : clauses) (use : N) : rt :=
  match cs with
  | CNil => NotHere
  | CFor t over r => orelse (rt_e en over use) (orelse (rt_t en t use) (rt_cs en r use))
  | CIf c r => orelse (rt_e en c use) (rt_cs en r use)
  end
with rt_t (en : env) (t : target) (use : N) : rt :=        (* expressions inside targets: a[i] = ... *)
  match t with
  | TVar _ _ => NotHere
  | TPair a b => orelse (rt_t en a use) (rt_t en b use)
  | TIndex a i => orelse (rt_e en a use) (rt_e en i use)
  end.

Fixpoint rt_taug (en : env) (t : target) (use : N) : rt :=  (* x += e reads x *)
  match t with
  | TVar x id => if id =? use then lookup en x else NotHere
  | TPair a b => orelse (rt_taug en a use) (rt_taug en b use)
  | TIndex _ _ => NotHere
  end.

Fixpoint rt_s (en : env) (s : stmt) (use : N) : rt :=
  match s with
  | SExpr e => rt_e en e use
  | SAssign t e => orelse (rt_e en e use) (rt_t en t use)
  | SAug t e => orelse (rt_t en t use) (orelse (rt_taug en t use) (orelse (rt_e en e use) (rt_t en t use)))
  | SIf c th el => orelse (rt_e en c use) (orelse (rt_ss en th use) (rt_ss en el use))
  | SFor t over body => orelse (rt_e en over use) (orelse (rt_t en t use) (rt_ss en body use))
  | SReturn e => rt_e en e use
  | SPass => NotHere
  | SDef _ _ sid ps body => orelse (rt_ps en ps use) (rt_ss ((sid, pnames ps ++ ssnames body) :: en) body use)
  | SLoad _ _ => NotHere
  end
with rt_ss (en : env) (ss : stmts) (use : N) : rt :=
  match ss with
  | SNil => NotHere
  | SCons s r => orelse (rt_s en s use) (rt_ss en r use)
  end.

(* which scope does the running program read occurrence `use` from? *)
Definition scope_read_at_runtime (p : stmts) (use : N) : rt := rt_ss [(0, ssnames p)] p use.

(* the binding occurrences (name, id) that belong directly to scope sid of the bind tree *)
Fixpoint direct_sets (bs : list bind) : list (name * N) :=
  match bs with
  | [] => []
  | BSet x id :: r => (x, id) :: direct_sets r
  | _ :: r => direct_sets r
  end.

Fixpoint sets_b (sid : N) (b : bind) : list (name * N) :=
  match b with
  | BScope s inner =>
      (if s =? sid then direct_sets inner else []) ++
      (fix go (l : list bind) : list (name * N) :=
         match l with [] => [] | b' :: r => sets_b sid b' ++ go r end) inner
  | _ => []
  end.

(* binding occurrences of scope sid of program p *)
Definition bindings_of_scope (p : stmts) (sid : N) : list (name * N) := sets_b sid (BScope 0 (stmts_b p)).
