(* C19 - proofs about the language server's scope analysis (Lsp/Bind.v) and position arithmetic (Lsp/Pos.v). *)
From Coq Require Import NArith String List Bool Lia Arith.
From SV Require Import Lsp.Bind Lsp.Pos.
Import ListNotations.
Open Scope N_scope.

(* ================================================================================================ *)
(* Part 1: name resolution                                                                           *)

Scheme expr_mind := Induction for expr Sort Prop
  with params_mind := Induction for params Sort Prop
  with clauses_mind := Induction for clauses Sort Prop
  with target_mind := Induction for target Sort Prop.
Combined Scheme syntax_mind from expr_mind, params_mind, clauses_mind, target_mind.

Scheme stmt_mind := Induction for stmt Sort Prop
  with stmts_mind := Induction for stmts Sort Prop.
Combined Scheme stmts_mutind from stmt_mind, stmts_mind.

Definition close (en : env) (t : tmp) : rt :=
  match t with
  | TNotFound => NotHere
  | TName x => lookup en x
  | TLoc sid _ x => InScope sid x
  end.

Definition tor (a b : tmp) : tmp := match a with TNotFound => b | _ => a end.

Lemma scan_app : forall a b use, scan (a ++ b) use = tor (scan a use) (scan b use).
Proof.
  induction a as [|x a IH]; intros b use; cbn [app scan tor]; [reflexivity|].
  destruct (scan_b x use); cbn [tor]; auto.
Qed.

Lemma lookup_not_nothere : forall en x, lookup en x <> NotHere.
Proof.
  induction en as [|[sid ns] en IH]; intros x; cbn [lookup]; [discriminate|].
  destruct (mem x ns); [discriminate|apply IH].
Qed.

Lemma close_tor : forall en a b, close en (tor a b) = orelse (close en a) (close en b).
Proof.
  intros en [|x|sid d x] b; cbn [tor close orelse]; auto.
  destruct (lookup en x) eqn:E; auto. exfalso; eapply lookup_not_nothere; eauto.
Qed.

Lemma scan_b_scope : forall sid inner use, scan_b (BScope sid inner) use = find_scope sid inner use.
Proof.
  intros. unfold find_scope. cbn [scan_b].
  assert (H : forall bs,
             (fix go (bs : list bind) : tmp :=
                match bs with
                | [] => TNotFound
                | b' :: r => match scan_b b' use with TNotFound => go r | t => t end
                end) bs = scan bs use).
  { induction bs as [|b bs IH]; cbn [scan]; [reflexivity|]. rewrite IH. reflexivity. }
  rewrite H. reflexivity.
Qed.

Lemma scan_scope1 : forall sid inner use, scan [BScope sid inner] use = find_scope sid inner use.
Proof.
  intros. cbn [scan]. rewrite scan_b_scope. destruct (find_scope sid inner use); reflexivity.
Qed.

(* names bound directly in a list of binds *)
Definition bnames (bs : list bind) : list name := map fst (direct_sets bs).

Lemma direct_sets_app : forall a b, direct_sets (a ++ b) = direct_sets a ++ direct_sets b.
Proof.
  induction a as [|x a IH]; intros b; cbn [app direct_sets]; [reflexivity|].
  destruct x; cbn [app]; rewrite ?IH; reflexivity.
Qed.

Lemma bnames_app : forall a b, bnames (a ++ b) = bnames a ++ bnames b.
Proof. intros. unfold bnames. rewrite direct_sets_app, map_app. reflexivity. Qed.

Definition is_some {A} (o : option A) : bool := match o with Some _ => true | None => false end.

Lemma lookup_bound_mem : forall bs x, is_some (lookup_bound bs x) = mem x (bnames bs).
Proof.
  induction bs as [|b bs IH]; intros x; [reflexivity|].
  destruct b; cbn [lookup_bound]; unfold bnames in *; cbn [direct_sets map fst mem]; auto.
  destruct (String.eqb x0 x); cbn [orb is_some]; auto.
Qed.

Lemma lookup_bound_In : forall bs x d, lookup_bound bs x = Some d -> In (x, d) (direct_sets bs).
Proof.
  induction bs as [|b bs IH]; intros x d H; [discriminate|].
  destruct b; cbn [lookup_bound direct_sets] in *; auto.
  destruct (String.eqb x0 x) eqn:E.
  - apply String.eqb_eq in E. inversion H; subst. left; reflexivity.
  - right; auto.
Qed.

(* the names bound by each piece of syntax are the names of the declarative rule *)
Lemma bnames_syntax :
  (forall e, bnames (expr_b e) = []) /\
  (forall ps, bnames (params_outer ps) = [] /\ bnames (params_inner ps) = pnames ps) /\
  (forall cs, bnames (clauses_b cs) = cnames cs) /\
  (forall t, bnames (target_exprs t) = [] /\ bnames (target_sets t) = tnames t).
Proof.
  apply syntax_mind; intros; cbn [expr_b params_outer params_inner clauses_b target_exprs target_sets
                                 pnames cnames tnames];
    repeat rewrite bnames_app;
    repeat match goal with
           | H : _ /\ _ |- _ => destruct H
           | H : bnames _ = _ |- _ => rewrite H; clear H
           end; cbn [app]; auto.
  split; [reflexivity|]. unfold bnames in *. cbn [direct_sets map fst]. f_equal. assumption.
Qed.

Lemma bnames_target_gets : forall t, bnames (target_gets t) = [].
Proof.
  induction t; cbn [target_gets]; rewrite ?bnames_app, ?IHt1, ?IHt2; reflexivity.
Qed.

Lemma bnames_stmts :
  (forall s, bnames (stmt_b s) = snames s) /\ (forall ss, bnames (stmts_b ss) = ssnames ss).
Proof.
  destruct bnames_syntax as (He & Hp & Hc & Ht).
  apply stmts_mutind; intros; cbn [stmt_b stmts_b snames ssnames]; unfold target_b;
    repeat rewrite bnames_app; rewrite ?He, ?bnames_target_gets;
    repeat match goal with
           | |- context [bnames (target_exprs ?t)] => rewrite (proj1 (Ht t))
           | |- context [bnames (target_sets ?t)] => rewrite (proj2 (Ht t))
           | |- context [bnames (params_outer ?t)] => rewrite (proj1 (Hp t))
           | H : bnames _ = _ |- _ => rewrite H; clear H
           end; cbn [app]; rewrite ?app_nil_r; auto.
Qed.

(* pieces that contain no use *)
Lemma scan_params_inner : forall ps use, scan (params_inner ps) use = TNotFound.
Proof. induction ps; intros; cbn [params_inner scan scan_b]; auto. Qed.

Lemma scan_target_sets : forall t use, scan (target_sets t) use = TNotFound.
Proof.
  induction t; intros; cbn [target_sets scan scan_b]; auto.
  rewrite scan_app, IHt1, IHt2. reflexivity.
Qed.

(* a scope whose directly bound names are ns: looking the result up from outside = extending the environment *)
Lemma scope_close : forall en sid inner ns use,
  bnames inner = ns ->
  close en (find_scope sid inner use) = close ((sid, ns) :: en) (scan inner use).
Proof.
  intros en sid inner ns use Hn. unfold find_scope.
  destruct (scan inner use) as [|x|s d x]; cbn [close]; auto.
  unfold resolve_in. cbn [lookup]. rewrite <- Hn, <- lookup_bound_mem.
  destruct (lookup_bound inner x); cbn [is_some close]; reflexivity.
Qed.

Lemma agree_syntax :
  (forall e en use, rt_e en e use = close en (scan (expr_b e) use)) /\
  (forall ps en use, rt_ps en ps use = close en (scan (params_outer ps) use)) /\
  (forall cs en use, rt_cs en cs use = close en (scan (clauses_b cs) use)) /\
  (forall t en use, rt_t en t use = close en (scan (target_exprs t) use)).
Proof.
  destruct bnames_syntax as (He & Hp & Hc & Ht).
  apply syntax_mind.
  - intros en use. reflexivity.
  - intros x id en use. cbn [expr_b rt_e scan scan_b]. destruct (id =? use); reflexivity.
  - intros a IHa b IHb en use. cbn [expr_b rt_e]. rewrite scan_app, close_tor, IHa, IHb. reflexivity.
  - (* lambda *)
    intros sid ps IHps body IHbody en use. cbn [expr_b rt_e].
    rewrite scan_app, close_tor, scan_scope1, IHps. f_equal.
    rewrite (scope_close en sid _ (pnames ps)).
    + rewrite scan_app, scan_params_inner. cbn [tor]. apply IHbody.
    + rewrite bnames_app, (proj2 (Hp ps)), He, app_nil_r. reflexivity.
  - (* comprehension *)
    intros sid body IHbody t IHt over IHover cls IHcls en use. cbn [expr_b rt_e].
    rewrite scan_app, close_tor, scan_scope1, IHover. f_equal.
    rewrite (scope_close en sid _ (tnames t ++ cnames cls)).
    + rewrite !scan_app, !close_tor, scan_target_sets. cbn [close orelse].
      rewrite IHt, IHcls, IHbody. reflexivity.
    + rewrite !bnames_app, (proj1 (Ht t)), (proj2 (Ht t)), Hc, He, app_nil_r. reflexivity.
  - intros en use. reflexivity.
  - intros x id d IHd rest IHrest en use. cbn [params_outer rt_ps].
    rewrite scan_app, close_tor, IHd, IHrest. reflexivity.
  - intros en use. reflexivity.
  - intros t IHt over IHover rest IHrest en use. cbn [clauses_b rt_cs].
    rewrite !scan_app, !close_tor, scan_target_sets, IHover, IHt, IHrest. cbn [close orelse].
    destruct (close en (scan (target_exprs t) use)); reflexivity.
  - intros c IHc rest IHrest en use. cbn [clauses_b rt_cs].
    rewrite scan_app, close_tor, IHc, IHrest. reflexivity.
  - intros x id en use. reflexivity.
  - intros a IHa b IHb en use. cbn [target_exprs rt_t]. rewrite scan_app, close_tor, IHa, IHb. reflexivity.
  - intros a IHa i IHi en use. cbn [target_exprs rt_t]. rewrite scan_app, close_tor, IHa, IHi. reflexivity.
Qed.

Lemma agree_taug : forall t en use, rt_taug en t use = close en (scan (target_gets t) use).
Proof.
  induction t; intros; cbn [rt_taug target_gets].
  - cbn [scan scan_b]. destruct (id =? use); reflexivity.
  - rewrite scan_app, close_tor, IHt1, IHt2. reflexivity.
  - reflexivity.
Qed.

Lemma close_nf : forall en, close en TNotFound = NotHere.
Proof. reflexivity. Qed.

Lemma orelse_nh_r : forall a, orelse a NotHere = a.
Proof. destruct a; reflexivity. Qed.

Lemma agree_stmts :
  (forall s en use, rt_s en s use = close en (scan (stmt_b s) use)) /\
  (forall ss en use, rt_ss en ss use = close en (scan (stmts_b ss) use)).
Proof.
  destruct agree_syntax as (Ae & Ap & Ac & At).
  destruct bnames_syntax as (He & Hp & Hc & Ht).
  destruct bnames_stmts as (Hs & Hss).
  apply stmts_mutind.
  - intros e en use. apply Ae.
  - intros t e en use. cbn [stmt_b rt_s]; unfold target_b.
    rewrite !scan_app, !close_tor, scan_target_sets, Ae, At. cbn [close]. rewrite orelse_nh_r. reflexivity.
  - intros t e en use. cbn [stmt_b rt_s]; unfold target_b.
    rewrite !scan_app, !close_tor, scan_target_sets, Ae, At, agree_taug. cbn [close].
    rewrite orelse_nh_r. reflexivity.
  - intros c th IHth el IHel en use. cbn [stmt_b rt_s].
    rewrite !scan_app, !close_tor, Ae, IHth, IHel. cbn [scan scan_b close orelse].
    rewrite orelse_nh_r. reflexivity.
  - intros t over body IHbody en use. cbn [stmt_b rt_s]; unfold target_b.
    rewrite !scan_app, !close_tor, scan_target_sets, Ae, At, IHbody. cbn [scan scan_b close orelse].
    rewrite !orelse_nh_r. reflexivity.
  - intros e en use. cbn [stmt_b rt_s].
    rewrite scan_app, close_tor, Ae. cbn [scan scan_b close]. rewrite orelse_nh_r. reflexivity.
  - intros en use. reflexivity.
  - (* def *)
    intros x id sid ps body IHbody en use. cbn [stmt_b rt_s].
    rewrite !scan_app, !close_tor, Ap, scan_scope1. cbn [scan scan_b close orelse]. f_equal.
    rewrite (scope_close en sid _ (pnames ps ++ ssnames body)).
    + rewrite scan_app, scan_params_inner. cbn [tor]. apply IHbody.
    + rewrite bnames_app, (proj2 (Hp ps)), Hss. reflexivity.
  - intros x id en use. reflexivity.
  - intros en use. reflexivity.
  - intros s IHs rest IHrest en use. cbn [stmts_b rt_ss]. rewrite scan_app, close_tor, IHs, IHrest. reflexivity.
Qed.

Theorem lsp_resolution_agrees : forall p use d,
  lsp_definition p use = Some d ->
  scope_read_at_runtime p use = InScope (d_scope d) (d_name d).
Proof.
  intros p use d H. unfold lsp_definition in H. unfold scope_read_at_runtime.
  rewrite (proj2 agree_stmts).
  rewrite <- (scope_close [] 0 (stmts_b p) (ssnames p) use (proj2 bnames_stmts p)).
  destruct (find_scope 0 (stmts_b p) use); inversion H; subst. reflexivity.
Qed.

Theorem lsp_no_definition_means_builtin_or_no_use : forall p use,
  lsp_definition p use = None ->
  scope_read_at_runtime p use = NotHere \/ exists x, scope_read_at_runtime p use = Global x.
Proof.
  intros p use H. unfold lsp_definition in H. unfold scope_read_at_runtime.
  rewrite (proj2 agree_stmts).
  rewrite <- (scope_close [] 0 (stmts_b p) (ssnames p) use (proj2 bnames_stmts p)).
  destruct (find_scope 0 (stmts_b p) use); try discriminate; cbn [close lookup]; eauto.
Qed.

(* the target is a binding occurrence of that name that belongs to that scope *)
Section BindInd.
  Variable P : bind -> Prop.
  Hypothesis HSet : forall x id, P (BSet x id).
  Hypothesis HGet : forall x id, P (BGet x id).
  Hypothesis HFlow : P BFlow.
  Hypothesis HScope : forall sid inner, Forall P inner -> P (BScope sid inner).
  Fixpoint bind_ind' (b : bind) : P b :=
    match b with
    | BSet x id => HSet x id
    | BGet x id => HGet x id
    | BFlow => HFlow
    | BScope sid inner =>
        HScope sid inner
          ((fix go (l : list bind) : Forall P l :=
              match l with
              | [] => Forall_nil P
              | x :: r => Forall_cons x (bind_ind' x) (go r)
              end) inner)
    end.
End BindInd.

Lemma sets_b_scope : forall sid s inner,
  sets_b sid (BScope s inner) =
  (if s =? sid then direct_sets inner else []) ++ flat_map (sets_b sid) inner.
Proof.
  intros. reflexivity.
Qed.

Lemma scan_loc_in : forall use sid d x b,
  scan_b b use = TLoc sid d x -> In (x, d) (sets_b sid b).
Proof.
  intros use sid d x b. revert b.
  apply (bind_ind' (fun b => scan_b b use = TLoc sid d x -> In (x, d) (sets_b sid b))).
  - intros; discriminate.
  - intros y id H. cbn [scan_b] in H. destruct (id =? use); discriminate.
  - intros; discriminate.
  - intros s inner IH H. rewrite scan_b_scope in H. rewrite sets_b_scope. apply in_or_app.
    unfold find_scope in H.
    destruct (scan inner use) as [|y|s' d' y] eqn:E.
    + discriminate.
    + left. unfold resolve_in in H. destruct (lookup_bound inner y) eqn:L; inversion H; subst.
      rewrite N.eqb_refl. apply lookup_bound_In; assumption.
    + right. inversion H; subst. clear H.
      induction inner as [|b r IHr]; cbn [scan] in E; [discriminate|].
      inversion IH; subst. cbn [flat_map]. apply in_or_app.
      destruct (scan_b b use) eqn:Eb.
      * right. apply IHr; assumption.
      * discriminate.
      * left. inversion E; subst. auto.
Qed.

Theorem lsp_target_is_binding_of_scope : forall p use d,
  lsp_definition p use = Some d ->
  In (d_name d, d_binding d) (bindings_of_scope p (d_scope d)).
Proof.
  intros p use d H. unfold lsp_definition in H. unfold bindings_of_scope.
  apply (scan_loc_in use). rewrite scan_b_scope.
  destruct (find_scope 0 (stmts_b p) use); inversion H; subst. reflexivity.
Qed.

(* ================================================================================================ *)
(* Part 2: positions                                                                                 *)

Lemma w8_pos : forall c, 1 <= w8 c.
Proof. intros c. unfold w8. repeat destruct (_ <? _); lia. Qed.

Lemma w16_pos : forall c, 1 <= w16 c.
Proof. intros c. unfold w16. destruct (_ <? _); lia. Qed.

(* ---- the line table is strictly increasing and stays inside the file ---- *)
Inductive incr : list N -> Prop :=
| incr_nil : incr []
| incr_one : forall x, incr [x]
| incr_cons : forall x y r, x < y -> incr (y :: r) -> incr (x :: y :: r).

Lemma line_starts_lb : forall s o x, In x (line_starts o s) -> o < x /\ x <= o + blen s.
Proof.
  induction s as [|c r IH]; intros o x H; cbn [line_starts blen] in *; [contradiction|].
  pose proof (w8_pos c).
  destruct (c =? NL).
  - destruct H as [H|H]; [subst; lia|]. apply IH in H. lia.
  - apply IH in H. lia.
Qed.

Lemma incr_cons_lb : forall x l, incr l -> (forall y, In y l -> x < y) -> incr (x :: l).
Proof.
  intros x [|y r] Hl Hlb; [constructor|]. constructor; auto. apply Hlb; left; reflexivity.
Qed.

Lemma line_starts_incr : forall s o, incr (line_starts o s).
Proof.
  induction s as [|c r IH]; intros o; cbn [line_starts]; [constructor|].
  destruct (c =? NL); [|apply IH].
  apply incr_cons_lb; [apply IH|]. intros y Hy. apply line_starts_lb in Hy. lia.
Qed.

Lemma lines_incr : forall s, incr (lines s).
Proof.
  intros s. unfold lines. apply incr_cons_lb; [apply line_starts_incr|].
  intros y Hy. apply line_starts_lb in Hy. lia.
Qed.

Lemma incr_nth_lt : forall l, incr l -> forall i j, (i < j)%nat -> (j < length l)%nat -> nth i l 0 < nth j l 0.
Proof.
  induction 1 as [| x | x y r Hxy Hr IH]; intros i j Hij Hj; cbn [length] in *; try lia.
  destruct j as [|j]; [lia|]. destruct i as [|i].
  - cbn [nth]. destruct j as [|j]; [exact Hxy|].
    assert (H1 : nth 0 (y :: r) 0 < nth (S j) (y :: r) 0) by (apply IH; cbn [length]; lia).
    cbn [nth] in H1 |- *. lia.
  - change (nth i (y :: r) 0 < nth j (y :: r) 0). apply IH; cbn [length]; lia.
Qed.

(* ---- binary search ---- *)
Lemma mid_bounds : forall lo hi, (lo < hi)%nat -> (lo <= lo + (hi - lo) / 2 < hi)%nat.
Proof.
  intros lo hi H. split; [lia|].
  assert ((hi - lo) / 2 < hi - lo)%nat by (apply Nat.div_lt; lia). lia.
Qed.

Lemma bsearch_spec : forall v x, incr v -> forall fuel lo hi,
  (lo <= hi <= length v)%nat -> (hi - lo < fuel)%nat ->
  (forall i, (i < lo)%nat -> nth i v 0 < x) ->
  (forall i, (hi <= i < length v)%nat -> x < nth i v 0) ->
  match bsearch fuel v lo hi x with
  | BOk i => (i < length v)%nat /\ nth i v 0 = x
  | BErr i => (i <= length v)%nat /\ (forall j, (j < i)%nat -> nth j v 0 < x) /\
              (forall j, (i <= j < length v)%nat -> x < nth j v 0)
  end.
Proof.
  intros v x Hv. induction fuel as [|f IH]; intros lo hi Hb Hf Hlo Hhi; [lia|].
  cbn [bsearch]. destruct (hi <=? lo)%nat eqn:E.
  - apply Nat.leb_le in E. assert (lo = hi) by lia. subst. repeat split; auto; lia.
  - apply Nat.leb_gt in E. pose proof (mid_bounds lo hi E) as Hm.
    set (mid := (lo + (hi - lo) / 2)%nat) in *.
    destruct (nth mid v 0 =? x) eqn:E1.
    + apply N.eqb_eq in E1. split; [lia|assumption].
    + apply N.eqb_neq in E1. destruct (nth mid v 0 <? x) eqn:E2.
      * apply N.ltb_lt in E2. apply IH; try lia.
        -- intros i Hi. destruct (Nat.eq_dec i mid) as [->|Hne]; [assumption|].
           destruct (Nat.lt_ge_cases i lo) as [Hl|Hl]; [apply Hlo; assumption|].
           assert (nth i v 0 < nth mid v 0) by (apply incr_nth_lt; auto; lia). lia.
        -- assumption.
      * apply N.ltb_ge in E2. apply IH; try lia.
        -- assumption.
        -- intros i Hi. destruct (Nat.eq_dec i mid) as [->|Hne]; [lia|].
           destruct (Nat.lt_ge_cases i hi) as [Hl|Hl]; [|apply Hhi; lia].
           assert (nth mid v 0 < nth i v 0) by (apply incr_nth_lt; auto; lia). lia.
Qed.

(* find_line returns THE line whose span contains the offset: its start is at or before the offset and every
   later line starts after it (for every offset, also inside a multi-byte character or past the end: clamped) *)
Theorem find_line_correct : forall s off,
  let o := clamp_pos s off in
  let l := find_line s off in
  (l < length (lines s))%nat /\
  line_begin s l <= o /\
  (forall j, (l < j < length (lines s))%nat -> o < nth j (lines s) 0) /\
  o <= line_end s l.
Proof.
  intros s off o l. subst l. unfold find_line, binary_search. fold o.
  pose proof (lines_incr s) as Hi.
  pose proof (bsearch_spec (lines s) o Hi (S (length (lines s))) 0 (length (lines s))) as H.
  assert (Hlen : (0 < length (lines s))%nat) by (unfold lines; cbn [length]; lia).
  assert (Ho : o <= blen s) by (unfold o, clamp_pos; destruct (blen s <? off) eqn:E; [lia|apply N.ltb_ge in E; lia]).
  specialize (H ltac:(lia) ltac:(lia) ltac:(intros; lia) ltac:(intros; lia)).
  assert (Hend : forall l, o <= line_end s l \/ (S l < length (lines s))%nat /\ line_end s l = nth (S l) (lines s) 0).
  { intros l. unfold line_end. destruct (Nat.lt_ge_cases (S l) (length (lines s))) as [Hl|Hl].
    - right. split; [assumption|]. apply nth_indep; assumption.
    - left. rewrite nth_overflow; [assumption|lia]. }
  destruct (bsearch _ _ _ _ _) as [i|i].
  - destruct H as (H1 & H2). unfold line_begin. repeat split; try lia.
    + intros j Hj. rewrite <- H2. apply incr_nth_lt; auto; lia.
    + destruct (Hend i) as [?|(Hl & ->)]; [assumption|].
      assert (nth i (lines s) 0 < nth (S i) (lines s) 0) by (apply incr_nth_lt; auto; lia). lia.
  - destruct H as (H1 & H2 & H3).
    assert (Hi0 : (i <> 0)%nat).
    { intros ->. specialize (H3 0%nat ltac:(lia)). unfold lines in H3. cbn [nth] in H3. lia. }
    unfold line_begin. repeat split; try lia.
    + assert (nth (i - 1) (lines s) 0 < o) by (apply H2; lia). lia.
    + intros j Hj. apply H3. lia.
    + destruct (Hend (i - 1)%nat) as [?|(Hl & ->)]; [assumption|].
      replace (S (i - 1)) with i by lia. assert (o < nth i (lines s) 0) by (apply H3; lia). lia.
Qed.

(* the line found is the number of line terminators that end at or before the offset *)
Fixpoint count_le (v : list N) (x : N) : nat :=
  match v with [] => O | y :: r => ((if N.leb y x then 1%nat else 0%nat) + count_le r x)%nat end.

Lemma incr_tail : forall x l, incr (x :: l) -> incr l.
Proof. intros x l H. inversion H; subst; [constructor|assumption]. Qed.

Lemma incr_head_lt : forall x l, incr (x :: l) -> forall y, In y l -> x < y.
Proof.
  intros x l. revert x. induction l as [|z r IH]; intros x H y Hy; [contradiction|].
  inversion H; subst. destruct Hy as [->|Hy]; [assumption|].
  assert (z < y) by (apply IH; assumption). lia.
Qed.

Lemma count_le_char : forall v x, incr v -> forall i,
  (i <= length v)%nat -> (forall j, (j < i)%nat -> nth j v 0 <= x) -> (forall j, (i <= j < length v)%nat -> x < nth j v 0) ->
  count_le v x = i.
Proof.
  induction v as [|y r IH]; intros x Hv i Hi Hlo Hhi; cbn [length count_le] in *.
  - lia.
  - destruct i as [|i].
    + specialize (Hhi 0%nat ltac:(lia)). cbn [nth] in Hhi.
      destruct (y <=? x) eqn:E; [apply N.leb_le in E; lia|].
      rewrite (IH x (incr_tail _ _ Hv) 0%nat); try lia.
      intros j Hj. pose proof (incr_head_lt _ _ Hv (nth j r 0) ltac:(apply nth_In; lia)). lia.
    + pose proof (Hlo 0%nat ltac:(lia)) as H0. cbn [nth] in H0.
      destruct (y <=? x) eqn:E; [|apply N.leb_gt in E; lia].
      rewrite (IH x (incr_tail _ _ Hv) i); try lia.
      * intros j Hj. apply (Hlo (S j)). lia.
      * intros j Hj. apply (Hhi (S j)). lia.
Qed.

Theorem find_line_counts_newlines : forall s off,
  S (find_line s off) = count_le (lines s) (clamp_pos s off).
Proof.
  intros s off. destruct (find_line_correct s off) as (H1 & H2 & H3 & _).
  symmetry. apply count_le_char; [apply lines_incr|lia| |].
  - intros j Hj. unfold line_begin in H2.
    destruct (Nat.eq_dec j (find_line s off)) as [->|Hne]; [assumption|].
    assert (nth j (lines s) 0 < nth (find_line s off) (lines s) 0) by (apply incr_nth_lt; [apply lines_incr|lia|lia]). lia.
  - intros j Hj. apply H3. lia.
Qed.

(* ---- UTF-16 ---- *)
Definition bmp_only (l : text) : bool := forallb (fun c => negb (astral c)) l.

Lemma len16_nlen : forall l, nlen l <= len16 l.
Proof.
  unfold nlen. induction l as [|c r IH]; cbn [len16 length]; [lia|]. pose proof (w16_pos c). lia.
Qed.

Lemma len16_eq_iff : forall l, len16 l = nlen l <-> bmp_only l = true.
Proof.
  unfold nlen, bmp_only. induction l as [|c r IH]; cbn [len16 length forallb]; [tauto|].
  pose proof (len16_nlen r) as Hr. unfold nlen in Hr.
  unfold astral, w16 in *. destruct (c <? 65536) eqn:E.
  - apply N.ltb_lt in E. assert (E' : (65536 <=? c) = false) by (apply N.leb_gt; lia). rewrite E'. cbn [negb andb].
    rewrite <- IH. lia.
  - apply N.ltb_ge in E. assert (E' : (65536 <=? c) = true) by (apply N.leb_le; lia). rewrite E'. cbn [negb andb].
    split; [lia|discriminate].
Qed.

(* the text whose characters find_line_col counts *)
Definition counted_prefix (s : text) (off : N) : text := snd (line_col_prefix s off).

Theorem col_utf16_eq_scalar_iff_bmp : forall s off,
  col16 s off = colscalar s off <-> bmp_only (counted_prefix s off) = true.
Proof.
  intros s off. unfold col16, colscalar, find_line_col, counted_prefix.
  destruct (line_col_prefix s off) as [l pre]. cbn [snd]. apply len16_eq_iff.
Qed.

Theorem col_scalar_le_utf16 : forall s off, colscalar s off <= col16 s off.
Proof.
  intros s off. unfold col16, colscalar, find_line_col.
  destruct (line_col_prefix s off) as [l pre]. cbn [snd]. apply len16_nlen.
Qed.

(* ---- line/column round trip, positions inside the document ---- *)
Lemma blen_app : forall a b, blen (a ++ b) = blen a + blen b.
Proof. induction a as [|c a IH]; intros b; cbn [app blen]; [reflexivity|]. rewrite IH. lia. Qed.

Lemma blen_firstn_mono : forall s i j, (i <= j)%nat -> blen (firstn i s) <= blen (firstn j s).
Proof.
  induction s as [|c r IH]; intros i j Hij; [rewrite !firstn_nil; lia|].
  destruct i as [|i]; [cbn [firstn blen]; lia|]. destruct j as [|j]; [lia|].
  cbn [firstn blen]. specialize (IH i j ltac:(lia)). lia.
Qed.

Lemma blen_firstn_le : forall s k, blen (firstn k s) <= blen s.
Proof.
  intros s k. rewrite <- (firstn_skipn k s) at 2. rewrite blen_app. lia.
Qed.

(* strictly monotone below the length *)
Lemma blen_firstn_lt : forall s i j, (i < j)%nat -> (j <= length s)%nat -> blen (firstn i s) < blen (firstn j s).
Proof.
  induction s as [|c r IH]; intros i j Hij Hj; cbn [length] in Hj; [lia|].
  destruct j as [|j]; [lia|]. pose proof (w8_pos c). destruct i as [|i].
  - cbn [firstn blen]. lia.
  - cbn [firstn blen]. specialize (IH i j ltac:(lia) ltac:(lia)). lia.
Qed.

(* slicing at a boundary *)
Lemma prefixb_boundary : forall s k, prefixb (blen (firstn k s)) s = firstn k s.
Proof.
  induction s as [|c r IH]; intros k; [rewrite firstn_nil; reflexivity|].
  destruct k as [|k]; cbn [firstn blen prefixb].
  - pose proof (w8_pos c). destruct (0 <? w8 c) eqn:E; [reflexivity|apply N.ltb_ge in E; lia].
  - destruct (w8 c + blen (firstn k r) <? w8 c) eqn:E; [apply N.ltb_lt in E; lia|].
    replace (w8 c + blen (firstn k r) - w8 c) with (blen (firstn k r)) by lia. rewrite IH. reflexivity.
Qed.

Lemma skipb_boundary : forall s k, (k <= length s)%nat -> skipb (blen (firstn k s)) s = skipn k s.
Proof.
  induction s as [|c r IH]; intros k Hk; [destruct k; reflexivity|].
  destruct k as [|k]; cbn [firstn blen skipb skipn]; [reflexivity|].
  pose proof (w8_pos c). destruct (w8 c + blen (firstn k r) =? 0) eqn:E; [apply N.eqb_eq in E; lia|].
  replace (w8 c + blen (firstn k r) - w8 c) with (blen (firstn k r)) by lia. apply IH. cbn [length] in Hk. lia.
Qed.

Lemma prefixb_prefixb : forall s m n, m <= n -> prefixb m (prefixb n s) = prefixb m s.
Proof.
  induction s as [|c r IH]; intros m n Hmn; [reflexivity|]. cbn [prefixb].
  destruct (n <? w8 c) eqn:En.
  - apply N.ltb_lt in En. destruct (m <? w8 c) eqn:Em; [reflexivity|apply N.ltb_ge in Em; lia].
  - apply N.ltb_ge in En. cbn [prefixb]. destruct (m <? w8 c) eqn:Em; [reflexivity|].
    apply N.ltb_ge in Em. rewrite IH by lia. reflexivity.
Qed.

(* every entry of the line table is a character boundary (the end of a prefix of the text) *)
Lemma line_starts_boundary : forall s o x, In x (line_starts o s) ->
  exists k, (k <= length s)%nat /\ x = o + blen (firstn k s).
Proof.
  induction s as [|c r IH]; intros o x H; cbn [line_starts] in H; [contradiction|].
  assert (Hr : In x (line_starts (o + w8 c) r) -> exists k, (k <= length (c :: r))%nat /\ x = o + blen (firstn k (c :: r))).
  { intros H1. apply IH in H1. destruct H1 as (k & Hk & ->). exists (S k). cbn [length firstn blen]. split; lia. }
  destruct (c =? NL); [|auto]. destruct H as [<-|H]; [|auto].
  exists 1%nat. cbn [length firstn blen]. split; lia.
Qed.

Lemma lines_boundary : forall s l, (l < length (lines s))%nat ->
  exists k, (k <= length s)%nat /\ nth l (lines s) 0 = blen (firstn k s).
Proof.
  intros s l Hl. assert (H : In (nth l (lines s) 0) (lines s)) by (apply nth_In; assumption).
  unfold lines in H at 2. destruct H as [H|H].
  - exists 0%nat. cbn [firstn blen]. split; [lia|]. symmetry; exact H.
  - apply line_starts_boundary in H. destruct H as (k & Hk & H). exists k. split; [assumption|]. rewrite H. lia.
Qed.

Lemma firstn_plus : forall (l : list N) a b, firstn (a + b) l = firstn a l ++ firstn b (skipn a l).
Proof.
  induction l as [|x l IH]; intros a b.
  - rewrite !firstn_nil, skipn_nil, firstn_nil. reflexivity.
  - destruct a as [|a]; [reflexivity|]. cbn [Nat.add firstn skipn app]. rewrite IH. reflexivity.
Qed.

Lemma firstn_skipn_blen : forall s kb k, (kb <= k)%nat ->
  blen (firstn (k - kb) (skipn kb s)) = blen (firstn k s) - blen (firstn kb s).
Proof.
  intros s kb k H. replace k with (kb + (k - kb))%nat at 2 by lia.
  rewrite firstn_plus, blen_app. lia.
Qed.

(* the text counted by find_line_col, for an offset on a character boundary *)
Lemma counted_prefix_boundary : forall s k, (k <= length s)%nat ->
  let off := blen (firstn k s) in
  exists kb, (kb <= k)%nat /\ line_begin s (find_line s off) = blen (firstn kb s) /\
             snd (line_col_prefix s off) = firstn (k - kb) (skipn kb s).
Proof.
  intros s k Hk off.
  assert (Hoff : off <= blen s) by apply blen_firstn_le.
  assert (Hc : clamp_pos s off = off).
  { unfold clamp_pos. destruct (blen s <? off) eqn:E; [apply N.ltb_lt in E; lia|reflexivity]. }
  destruct (find_line_correct s off) as (H1 & H2 & H3 & H4). rewrite Hc in *.
  destruct (lines_boundary s _ H1) as (kb & Hkb & Hb). fold (line_begin s (find_line s off)) in Hb.
  assert (Hle : (kb <= k)%nat).
  { destruct (Nat.le_gt_cases kb k) as [?|Hgt]; [assumption|].
    pose proof (blen_firstn_lt s k kb Hgt Hkb). unfold off in *. lia. }
  exists kb. repeat split; try assumption.
  unfold line_col_prefix. rewrite Hc. cbn [snd]. fold off. rewrite Hb.
  rewrite (skipb_boundary s kb Hkb).
  rewrite prefixb_prefixb by lia.
  unfold off. rewrite <- firstn_skipn_blen by assumption. apply prefixb_boundary.
Qed.

Theorem line_col_roundtrip : forall s off, boundary s off -> offset_of s (find_line_col s off) = off.
Proof.
  intros s off (k0 & Hk0).
  (* normalise the witness below the length *)
  set (k := Nat.min k0 (length s)).
  assert (Hk : (k <= length s)%nat) by (unfold k; lia).
  assert (Hoff : off = blen (firstn k s)).
  { subst off. unfold k. destruct (Nat.le_gt_cases k0 (length s)) as [?|?].
    - rewrite Nat.min_l by lia. reflexivity.
    - rewrite Nat.min_r by lia. rewrite !firstn_all2 by lia. reflexivity. }
  clear Hk0. subst off.
  destruct (counted_prefix_boundary s k Hk) as (kb & Hle & Hb & Hp). cbn zeta in *.
  unfold offset_of, find_line_col.
  destruct (line_col_prefix s (blen (firstn k s))) as [l pre] eqn:E. cbn [fst snd] in *.
  assert (Hl : l = find_line s (blen (firstn k s))).
  { unfold line_col_prefix in E. inversion E.
    assert (Hc : clamp_pos s (blen (firstn k s)) = blen (firstn k s)).
    { unfold clamp_pos. pose proof (blen_firstn_le s k).
      destruct (blen s <? blen (firstn k s)) eqn:E2; [apply N.ltb_lt in E2; lia|reflexivity]. }
    rewrite Hc. reflexivity. }
  subst l. rewrite Hb. rewrite (skipb_boundary s kb ltac:(lia)).
  unfold nlen. rewrite Nnat.Nat2N.id. subst pre.
  rewrite firstn_length. rewrite skipn_length.
  replace (Nat.min (k - kb) (length s - kb)) with (k - kb)%nat by lia.
  rewrite firstn_skipn_blen by assumption.
  pose proof (blen_firstn_mono s kb k Hle). lia.
Qed.

Lemma clamp_boundary : forall s off, boundary s off -> clamp_pos s off = off.
Proof.
  intros s off (k & ->). unfold clamp_pos. pose proof (blen_firstn_le s k).
  destruct (blen s <? blen (firstn k s)) eqn:E; [apply N.ltb_lt in E; lia|reflexivity].
Qed.

Lemma boundary_norm : forall s off, boundary s off -> exists k, (k <= length s)%nat /\ off = blen (firstn k s).
Proof.
  intros s off (k0 & ->). exists (Nat.min k0 (length s)). split; [lia|].
  destruct (Nat.le_gt_cases k0 (length s)) as [?|?].
  - rewrite Nat.min_l by lia. reflexivity.
  - rewrite Nat.min_r by lia. rewrite !firstn_all2 by lia. reflexivity.
Qed.

Lemma fst_find_line_col : forall s off, fst (find_line_col s off) = find_line s off.
Proof.
  intros s off. unfold find_line_col, line_col_prefix. cbn [fst].
  unfold find_line. f_equal. f_equal.
  unfold clamp_pos. destruct (blen s <? off) eqn:E; [|rewrite E; reflexivity].
  rewrite N.ltb_irrefl. reflexivity.
Qed.

Theorem positions_in_document : forall s off, boundary s off -> in_document s (find_line_col s off).
Proof.
  intros s off Hb. pose proof (line_col_roundtrip s off Hb) as Hrt.
  pose proof (clamp_boundary s off Hb) as Hc.
  destruct (boundary_norm s off Hb) as (k & Hk & ->).
  destruct (find_line_correct s (blen (firstn k s))) as (H1 & H2 & H3 & H4). rewrite Hc in *.
  destruct (counted_prefix_boundary s k Hk) as (kb & Hle & Hbeg & Hp). cbn zeta in *.
  unfold in_document. rewrite fst_find_line_col, Hrt. repeat split; try assumption.
  unfold find_line_col. destruct (line_col_prefix s (blen (firstn k s))) as [l pre] eqn:E. cbn [snd] in *.
  subst pre. rewrite Hbeg, (skipb_boundary s kb ltac:(lia)).
  unfold nlen. rewrite Nnat.Nat2N.id, firstn_length, !skipn_length. lia.
Qed.

(* a position past the end of the file is resolved like the end of the file, which is a boundary *)
Theorem positions_past_end : forall s off, blen s <= off ->
  find_line_col s off = find_line_col s (blen s) /\ boundary s (blen s).
Proof.
  intros s off H. split.
  - unfold find_line_col, line_col_prefix, find_line.
    assert (E : clamp_pos s off = clamp_pos s (blen s)).
    { unfold clamp_pos. rewrite N.ltb_irrefl. destruct (blen s <? off) eqn:E; [reflexivity|apply N.ltb_ge in E; lia]. }
    rewrite E. reflexivity.
  - exists (length s). rewrite firstn_all. reflexivity.
Qed.

(* what find_line_col counts is exactly the text between the start of the line containing the offset
   (find_line_correct) and the offset *)
Theorem counted_prefix_is_line_segment : forall s off, boundary s off ->
  exists kb k, (kb <= k <= length s)%nat /\ off = blen (firstn k s) /\
    line_begin s (find_line s off) = blen (firstn kb s) /\
    counted_prefix s off = firstn (k - kb) (skipn kb s).
Proof.
  intros s off Hb. destruct (boundary_norm s off Hb) as (k & Hk & ->).
  destruct (counted_prefix_boundary s k Hk) as (kb & Hle & Hbeg & Hp).
  exists kb, k. repeat split; try assumption; lia.
Qed.
