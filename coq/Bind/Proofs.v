(* C08 proofs: the slot-array binder of starlark-rust (Bind.Model) computes exactly the call rule (Bind.Spec). *)
From Coq Require Import List Arith Bool PeanoNat Lia.
From SV Require Import Bind.Model Bind.Spec.
Import ListNotations.

Section Proofs.
Variable V : Type.
Notation param := (param V).
Notation sig := (sig V).
Notation slots := (slots V).
Notation call := (call V).

(* ---------- generic list facts ---------- *)
Lemma length_upd : forall (A : Type) (l : list A) i x, length (upd l i x) = length l.
Proof. induction l as [|h t IH]; intros [|i] x; simpl; auto. Qed.

Lemma get_upd : forall (s : slots) i j x, i < length s ->
  get (upd s i x) j = if j =? i then x else get s j.
Proof.
  unfold get. induction s as [|h t IH]; intros i j x Hi; simpl in *; [lia|].
  destruct i as [|i]; destruct j as [|j]; simpl; auto.
  apply IH. lia.
Qed.

Lemma upd_oob : forall (A : Type) (l : list A) i x, length l <= i -> upd l i x = l.
Proof. induction l as [|h t IH]; intros [|i] x Hi; simpl in *; auto; try lia. f_equal. apply IH. lia. Qed.

Lemma get_upd_gen : forall (s : slots) i j x, j <> i -> get (upd s i x) j = get s j.
Proof.
  intros s i j x Hne. destruct (Nat.lt_ge_cases i (length s)) as [Hl|Hl].
  - rewrite get_upd by assumption. apply Nat.eqb_neq in Hne. now rewrite Hne.
  - now rewrite upd_oob.
Qed.

Lemma get_repeat_none : forall n i, get (repeat (@None (slotval V)) n) i = None.
Proof. unfold get. induction n as [|n IH]; intros [|i]; simpl; auto. Qed.

Lemma get_oob : forall (s : slots) i, length s <= i -> get s i = None.
Proof. unfold get. intros. now apply nth_overflow. Qed.

Lemma assoc_app : forall (B : Type) n (l1 l2 : list (name * B)),
  assoc n (l1 ++ l2) = match assoc n l1 with Some v => Some v | None => assoc n l2 end.
Proof.
  induction l1 as [|[k v] t IH]; intros l2; simpl; auto.
  destruct (n =? k); auto.
Qed.

Lemma assoc_in : forall (B : Type) n (l : list (name * B)) v, assoc n l = Some v -> In (n, v) l.
Proof.
  induction l as [|[k w] t IH]; simpl; intros v H; [discriminate|].
  destruct (n =? k) eqn:E.
  - apply Nat.eqb_eq in E. inversion H. subst. now left.
  - right. now apply IH.
Qed.

Lemma assoc_none_notin : forall (B : Type) n (l : list (name * B)), assoc n l = None -> ~ In n (map fst l).
Proof.
  induction l as [|[k w] t IH]; simpl; intros H; [tauto|].
  destruct (n =? k) eqn:E; [discriminate|].
  apply Nat.eqb_neq in E. intros [H1|H1]; [congruence|]. now apply IH.
Qed.

Lemma notin_assoc_none : forall (B : Type) n (l : list (name * B)), ~ In n (map fst l) -> assoc n l = None.
Proof.
  induction l as [|[k w] t IH]; simpl; intros H; auto.
  destruct (n =? k) eqn:E.
  - apply Nat.eqb_eq in E. subst. tauto.
  - apply IH. tauto.
Qed.

Lemma nodupb_NoDup : forall l, nodupb l = true -> NoDup l.
Proof.
  induction l as [|x r IH]; simpl; intros H; [constructor|].
  apply andb_prop in H. destruct H as [H1 H2]. constructor; auto.
  intros Hin. apply negb_true_iff in H1.
  assert (existsb (Nat.eqb x) r = true) as Hc.
  { apply existsb_exists. exists x. split; auto. apply Nat.eqb_refl. }
  congruence.
Qed.

(* assoc over combine *)
Lemma assoc_combine_nth : forall (ks : list name) (vs : list V) i k v,
  NoDup ks -> nth_error ks i = Some k -> nth_error vs i = Some v -> assoc k (combine ks vs) = Some v.
Proof.
  induction ks as [|k0 ks IH]; intros vs i k v Hnd Hk Hv.
  - destruct i; discriminate.
  - destruct vs as [|v0 vs]; [destruct i; discriminate|].
    inversion Hnd as [|? ? Hnotin Hnd']; subst.
    destruct i as [|i]; simpl in *.
    + inversion Hk; inversion Hv; subst. now rewrite Nat.eqb_refl.
    + destruct (k =? k0) eqn:E.
      * apply Nat.eqb_eq in E. subst. exfalso. apply Hnotin. eapply nth_error_In; eauto.
      * eapply IH; eauto.
Qed.

Lemma assoc_combine_some : forall (ks : list name) (vs : list V) k v,
  assoc k (combine ks vs) = Some v -> exists i, nth_error ks i = Some k /\ nth_error vs i = Some v.
Proof.
  induction ks as [|k0 ks IH]; intros vs k v H; simpl in H; [discriminate|].
  destruct vs as [|v0 vs]; simpl in H; [discriminate|].
  destruct (k =? k0) eqn:E.
  - apply Nat.eqb_eq in E. inversion H. subst. exists 0. auto.
  - destruct (IH _ _ _ H) as [i [H1 H2]]. exists (S i). auto.
Qed.

(* ---------- structure of a well-formed signature ---------- *)
Lemma order_ok_ge : forall ks st, order_ok st ks = true -> Forall (fun k => st <= stage k) ks.
Proof.
  induction ks as [|k r IH]; intros st H; simpl in H; constructor.
  - apply andb_prop in H. destruct H as [H _]. now apply Nat.leb_le in H.
  - apply andb_prop in H. destruct H as [H1 H2]. apply Nat.leb_le in H1.
    apply IH in H2. eapply Forall_impl; [|exact H2]. intros a Ha. simpl in Ha.
    destruct k; simpl in *; lia.
Qed.

Lemma order_ok_mono : forall ks st st', st' <= st -> order_ok st ks = true -> order_ok st' ks = true.
Proof.
  destruct ks as [|k r]; intros st st' Hle H; simpl in *; auto.
  apply andb_prop in H. destruct H as [H1 H2]. apply Nat.leb_le in H1.
  apply andb_true_intro. split; auto. apply Nat.leb_le. lia.
Qed.

Definition nonpos (p : param) := is_positional p = false.

Lemma wf_prefix : forall (s : sig) st, order_ok st (map (@pkd V) s) = true ->
  exists a b, s = a ++ b /\ Forall (fun p => is_positional p = true) a /\ Forall nonpos b.
Proof.
  induction s as [|p r IH]; intros st H.
  - exists [], []. repeat split; constructor.
  - simpl in H. apply andb_prop in H. destruct H as [H1 H2].
    destruct (is_positional p) eqn:Ep.
    + destruct (IH _ H2) as [a [b [E [Fa Fb]]]]. exists (p :: a), b. subst. repeat split; auto.
    + exists [], (p :: r). repeat split; auto. constructor; auto.
      apply order_ok_ge in H2. clear IH H1.
      induction r as [|q r IHr]; constructor.
      * inversion H2; subst. unfold nonpos, is_positional in *. destruct (pkd p); try discriminate; destruct (pkd q); simpl in *; auto; lia.
      * inversion H2; subst. auto.
Qed.

Lemma filter_all : forall (A : Type) (f : A -> bool) l, Forall (fun x => f x = true) l -> filter f l = l.
Proof. induction l as [|x r IH]; intros H; simpl; auto. inversion H; subst. rewrite H2. f_equal. auto. Qed.

Lemma filter_none : forall (A : Type) (f : A -> bool) l, Forall (fun x => f x = false) l -> filter f l = [].
Proof. induction l as [|x r IH]; intros H; simpl; auto. inversion H; subst. rewrite H2. auto. Qed.

(* uniqueness of *args / **kwargs parameters *)
Lemma order_unique : forall (s : sig) st k i j p q, (k = VarArgs \/ k = VarKw) ->
  order_ok st (map (@pkd V) s) = true ->
  nth_error s i = Some p -> nth_error s j = Some q -> pkd p = k -> pkd q = k -> i = j.
Proof.
  induction s as [|x r IH]; intros st k i j p q Hk H Hi Hj Hp Hq.
  - destruct i; discriminate.
  - simpl in H. apply andb_prop in H. destruct H as [H1 H2].
    destruct i as [|i]; destruct j as [|j]; simpl in *; auto.
    + inversion Hi; subst x. apply order_ok_ge in H2.
      apply nth_error_In in Hj. rewrite Forall_forall in H2.
      specialize (H2 (pkd q)). assert (In (pkd q) (map (@pkd V) r)) as Hin by (now apply in_map).
      apply H2 in Hin. destruct Hk as [Hk|Hk]; subst k; rewrite Hq, Hp in Hin; simpl in Hin; lia.
    + inversion Hj; subst x. apply order_ok_ge in H2.
      apply nth_error_In in Hi. rewrite Forall_forall in H2.
      specialize (H2 (pkd p)). assert (In (pkd p) (map (@pkd V) r)) as Hin by (now apply in_map).
      apply H2 in Hin. destruct Hk as [Hk|Hk]; subst k; rewrite Hq, Hp in Hin; simpl in Hin; lia.
    + f_equal. eapply IH; eauto.
Qed.


Ltac bdestr := repeat match goal with
  | |- context [?a <=? ?b] => destruct (Nat.leb_spec a b)
  | |- context [?a <? ?b] => destruct (Nat.ltb_spec a b)
  | |- context [?a =? ?b] => destruct (Nat.eqb_spec a b)
  end; simpl; try lia; auto.

Lemma pkind_eqb_eq : forall a b, pkind_eqb a b = true <-> a = b.
Proof. destruct a, b; simpl; split; intros; try discriminate; auto. Qed.

(* ---------- the name map and the *args / **kwargs indices of build_spec ---------- *)
Lemma names_from_some : forall (s : sig) k n i, assoc n (names_from k s) = Some i ->
  exists p, k <= i /\ nth_error s (i - k) = Some p /\ kwable p = true /\ pname p = n.
Proof.
  induction s as [|a s IH]; intros k n i H; simpl in H; [discriminate|].
  rewrite assoc_app in H.
  destruct (kwable a) eqn:Ek; simpl in H.
  - destruct (n =? pname a) eqn:En.
    + apply Nat.eqb_eq in En. inversion H; subst. exists a. rewrite Nat.sub_diag. auto.
    + apply IH in H. destruct H as [p [H1 [H2 [H3 H4]]]]. exists p. repeat split; auto; try lia.
      replace (i - k) with (S (i - S k)) by lia. exact H2.
  - apply IH in H. destruct H as [p [H1 [H2 [H3 H4]]]]. exists p. repeat split; auto; try lia.
    replace (i - k) with (S (i - S k)) by lia. exact H2.
Qed.

Lemma names_from_nth : forall (s : sig) k i p, NoDup (map (@pname V) s) ->
  nth_error s i = Some p -> kwable p = true -> assoc (pname p) (names_from k s) = Some (k + i).
Proof.
  induction s as [|a s IH]; intros k i p Hnd Hi Hk; [destruct i; discriminate|].
  simpl. rewrite assoc_app. simpl in Hnd. inversion Hnd as [|? ? Hnotin Hnd']; subst.
  destruct i as [|i]; simpl in Hi.
  - inversion Hi; subst a. rewrite Hk. simpl. rewrite Nat.eqb_refl. f_equal. lia.
  - assert (pname p <> pname a) as Hne.
    { intros E. apply Hnotin. rewrite <- E. apply in_map. eapply nth_error_In; eauto. }
    apply Nat.eqb_neq in Hne.
    destruct (kwable a); simpl; try rewrite Hne; rewrite (IH (S k) i p); auto; f_equal; lia.
Qed.

Lemma is_kw_name_assoc : forall (s : sig) k n, is_kw_name s n = is_some (assoc n (names_from k s)).
Proof.
  induction s as [|a s IH]; intros k n; simpl; auto.
  rewrite assoc_app. unfold is_kw_name in *. simpl.
  destruct (kwable a); simpl.
  - rewrite (Nat.eqb_sym (pname a) n). destruct (n =? pname a); simpl; auto.
  - auto.
Qed.

Lemma find_kind_some : forall (s : sig) kd k i, find_kind kd k s = Some i ->
  exists p, k <= i /\ nth_error s (i - k) = Some p /\ pkd p = kd.
Proof.
  induction s as [|a s IH]; intros kd k i H; simpl in H; [discriminate|].
  destruct (pkind_eqb (pkd a) kd) eqn:E.
  - inversion H; subst. exists a. rewrite Nat.sub_diag. apply pkind_eqb_eq in E. auto.
  - apply IH in H. destruct H as [p [H1 [H2 H3]]]. exists p. repeat split; auto; try lia.
    replace (i - k) with (S (i - S k)) by lia. exact H2.
Qed.

Lemma has_kind_find : forall (s : sig) kd k, has_kind kd s = is_some (find_kind kd k s).
Proof.
  induction s as [|a s IH]; intros kd k; simpl; auto.
  unfold has_kind in *. simpl. destruct (pkind_eqb (pkd a) kd); simpl; auto.
Qed.

Lemma find_kind_none : forall (s : sig) kd k, find_kind kd k s = None -> forall p, In p s -> pkd p <> kd.
Proof.
  induction s as [|a s IH]; intros kd k H p Hin; simpl in *; [tauto|].
  destruct (pkind_eqb (pkd a) kd) eqn:E; [discriminate|].
  destruct Hin as [Hin|Hin].
  - subst. intros Hc. apply pkind_eqb_eq in Hc. congruence.
  - eapply IH; eauto.
Qed.

Lemma nodup_index : forall (s : sig) i j p q, NoDup (map (@pname V) s) ->
  nth_error s i = Some p -> nth_error s j = Some q -> pname p = pname q -> i = j.
Proof.
  intros s i j p q Hnd Hi Hj E.
  rewrite NoDup_nth_error in Hnd. apply Hnd.
  - rewrite map_length. apply nth_error_Some. congruence.
  - rewrite !nth_error_map, Hi, Hj. simpl. congruence.
Qed.

(* ---------- positional filling ---------- *)
Lemma fill_pos_spec : forall npos vs (s : slots) next star s' next' star',
  fill_pos npos vs s next star = (s', next', star') -> next <= npos -> npos <= length s ->
  next' = Nat.min (next + length vs) npos /\ star' = star ++ skipn (npos - next) vs /\
  length s' = length s /\
  forall i, get s' i = if (next <=? i) && (i <? next') then option_map SVal (nth_error vs (i - next))
                       else get s i.
Proof.
  induction vs as [|a vs IH]; intros s next star s' next' star' H Hn Hl; simpl in H.
  - inversion H; subst. repeat split.
    + simpl. lia.
    + rewrite skipn_nil. now rewrite app_nil_r.
    + intros i. bdestr.
  - destruct (next <? npos) eqn:E.
    + apply Nat.ltb_lt in E. apply IH in H; [|lia|rewrite length_upd; lia].
      destruct H as (H1 & H2 & H3 & H4). repeat split.
      * rewrite H1. simpl length. lia.
      * rewrite H2. replace (npos - next) with (S (npos - S next)) by lia. reflexivity.
      * rewrite H3. apply length_upd.
      * intros i. rewrite H4. assert (S next <= next') as Hge by (rewrite H1; lia).
        destruct (Nat.eq_dec i next) as [->|Hne].
        -- rewrite get_upd by lia. rewrite Nat.sub_diag. bdestr.
        -- rewrite get_upd_gen by assumption.
           bdestr. replace (i - next) with (S (i - S next)) by lia. reflexivity.
    + apply Nat.ltb_ge in E. assert (next = npos) by lia. subst next.
      apply IH in H; [|lia|lia]. destruct H as (H1 & H2 & H3 & H4). repeat split; auto.
      * rewrite H1. simpl. lia.
      * rewrite H2. rewrite Nat.sub_diag. simpl. now rewrite <- app_assoc.
      * intros i. rewrite H4. assert (next' = npos) as -> by (rewrite H1; lia). bdestr.
Qed.

Lemma zip_fill_spec : forall vs (s : slots),
  length (zip_fill vs s) = length s /\
  forall i, get (zip_fill vs s) i = if i <? Nat.min (length vs) (length s) then option_map SVal (nth_error vs i)
                                    else get s i.
Proof.
  induction vs as [|a vs IH]; intros s.
  - simpl. split; auto.
  - destruct s as [|x s]; simpl.
    + split; auto; intros i; rewrite ?Nat.min_0_r; reflexivity.
    + destruct (IH s) as [H1 H2]. split; [now rewrite H1|].
      intros [|i]; [reflexivity|]. unfold get in *. simpl. rewrite H2.
      destruct (i <? Nat.min (length vs) (length s)) eqn:E1; destruct (S i <? S (Nat.min (length vs) (length s))) eqn:E2; auto;
      [apply Nat.ltb_lt in E1; apply Nat.ltb_ge in E2; lia | apply Nat.ltb_ge in E1; apply Nat.ltb_lt in E2; lia].
Qed.


(* ---------- the loop over explicit named arguments ---------- *)
Section WithPs.
Variable ps : pspec V.

Definition hit (named : list (name * V)) (i : nat) : Prop :=
  exists n v, In (n, v) named /\ assoc n (ps_map ps) = Some i.
Definition notkw (nv : name * V) : bool := negb (is_some (assoc (fst nv) (ps_map ps))).

Lemma min_low_some : forall low i, exists m, min_low low i = Some m /\ m <= i /\
  (forall l0, low = Some l0 -> m <= l0) /\ (m = i \/ low = Some m).
Proof.
  intros [x|] i; simpl.
  - exists (Nat.min x i). repeat split; try lia.
    + intros l0 H. inversion H. lia.
    + destruct (Nat.min_dec x i) as [E|E]; rewrite E; auto.
  - exists i. repeat split; auto. intros l0 H. discriminate.
Qed.

Lemma do_named_spec : forall named (s : slots) kw low s' kw' low',
  do_named ps named s kw low = (s', kw', low') ->
  length s' = length s /\
  (forall i, ~ hit named i -> get s' i = get s i) /\
  kw_list kw' = kw_list kw ++ filter notkw named /\
  (kw' = Some [] -> kw = Some []) /\
  (forall l, low' = Some l -> low = Some l \/ hit named l) /\
  (forall i, hit named i -> exists l, low' = Some l /\ l <= i) /\
  (forall l0, low = Some l0 -> exists l, low' = Some l /\ l <= l0) /\
  (NoDup (map fst named) ->
   (forall n n' i, assoc n (ps_map ps) = Some i -> assoc n' (ps_map ps) = Some i -> n = n') ->
   forall n v i, In (n, v) named -> assoc n (ps_map ps) = Some i -> i < length s -> get s' i = Some (SVal v)).
Proof.
  induction named as [|[n0 v0] r IH]; intros s kw low s' kw' low' H; simpl in H.
  - inversion H; subst. repeat split; auto.
    + simpl. now rewrite app_nil_r.
    + intros i [n [v [[] _]]].
    + intros l0 Hl. eauto.
    + intros _ _ n v i [].
  - destruct (assoc n0 (ps_map ps)) as [i0|] eqn:E.
    + apply IH in H. destruct H as (A1 & A2 & A3 & A4 & L1 & L2 & L3 & G).
      destruct (min_low_some low i0) as (m & Hm & Hmle & Hmlow & Hmor).
      split; [|split; [|split; [|split; [|split; [|split; [|split]]]]]].
      * rewrite A1. apply length_upd.
      * intros i Hnh. rewrite A2.
        -- apply get_upd_gen. intros ->. apply Hnh. exists n0, v0. split; [now left|auto].
        -- intros [n [v [Hin Ha]]]. apply Hnh. exists n, v. split; [now right|auto].
      * rewrite A3. simpl. unfold notkw at 2. simpl. rewrite E. reflexivity.
      * exact A4.
      * intros l Hl. apply L1 in Hl. destruct Hl as [Hl|[n [v [Hin Ha]]]].
        -- rewrite Hm in Hl. inversion Hl; subst m. destruct Hmor as [->|Hlow]; auto.
           right. exists n0, v0. split; [now left|auto].
        -- right. exists n, v. split; [now right|auto].
      * intros i [n [v [[Hin|Hin] Ha]]].
        -- inversion Hin; subst. rewrite E in Ha. inversion Ha; subst.
           destruct (L3 m Hm) as (l & Hl & Hll). exists l. split; auto. lia.
        -- apply L2. exists n, v. auto.
      * intros l0 Hl0. destruct (L3 m Hm) as (l & Hl & Hll). exists l. split; auto.
        specialize (Hmlow l0 Hl0). lia.
      * intros Hnd Hinj n v i [Hin|Hin] Ha Hlen.
        -- inversion Hin; subst n0 v0. rewrite E in Ha. inversion Ha; subst i0.
           rewrite A2.
           ++ rewrite get_upd by auto. now rewrite Nat.eqb_refl.
           ++ intros [n' [v' [Hin' Ha']]]. assert (n' = n) by (eapply Hinj; eauto). subst n'.
              simpl in Hnd. inversion Hnd as [|? ? Hnotin _]; subst. apply Hnotin.
              apply (in_map fst) in Hin'. exact Hin'.
        -- assert (NoDup (map fst r)) as Hnd' by (simpl in Hnd; now inversion Hnd).
           apply (G Hnd' Hinj n v i); auto. now rewrite length_upd.
    + apply IH in H. destruct H as (A1 & A2 & A3 & A4 & L1 & L2 & L3 & G).
      split; [|split; [|split; [|split; [|split; [|split; [|split]]]]]]; auto.
      * intros i Hnh. apply A2. intros [n [v [Hin Ha]]]. apply Hnh. exists n, v. split; [now right|auto].
      * rewrite A3. simpl filter. unfold notkw at 2. simpl. rewrite E. simpl.
        destruct kw; simpl; rewrite <- ?app_assoc; reflexivity.
      * intros Hk. apply A4 in Hk. destruct kw as [m|]; simpl in Hk; inversion Hk.
        destruct m; discriminate.
      * intros l Hl. destruct (L1 l Hl) as [|[n [v [Hin Ha]]]]; auto.
        right. exists n, v. split; [now right|auto].
      * intros i [n [v [[Hin|Hin] Ha]]].
        -- inversion Hin; subst. congruence.
        -- apply L2. exists n, v. auto.
      * intros Hnd Hinj n v i [Hin|Hin] Ha Hlen.
        -- inversion Hin; subst. congruence.
        -- assert (NoDup (map fst r)) as Hnd' by (simpl in Hnd; now inversion Hnd).
           apply (G Hnd' Hinj n v i); auto.
Qed.

End WithPs.


(* ---------- rule 2 of the specification over the explicit named arguments ---------- *)
Definition lift (named : list (name * V)) : list (key * V) := map (fun nv => (KStr (fst nv), snd nv)) named.

Lemma bound_app : forall n (l1 l2 : list (name * V)), bound n (l1 ++ l2) = bound n l1 || bound n l2.
Proof. intros. unfold bound. rewrite assoc_app. destruct (assoc n l1); auto. Qed.

Lemma bk_named : forall (s : sig) named env extras rest, NoDup (map fst named) ->
  (forall n v, In (n, v) named -> is_kw_name s n = true -> bound n env = false) ->
  (forall n v, In (n, v) named -> is_kw_name s n = false -> bound n extras = false) ->
  bind_keywords s (lift named ++ rest) env extras =
  bind_keywords s rest (env ++ filter (fun nv => is_kw_name s (fst nv)) named)
                       (extras ++ filter (fun nv => negb (is_kw_name s (fst nv))) named).
Proof.
  induction named as [|[n v] r IH]; intros env extras rest Hnd H1 H2; simpl.
  - now rewrite !app_nil_r.
  - simpl in Hnd. inversion Hnd as [|? ? Hnotin Hnd']; subst.
    assert (forall n' v', In (n', v') r -> n' <> n) as Hne.
    { intros n' v' Hin ->. apply Hnotin. apply (in_map fst) in Hin. exact Hin. }
    destruct (is_kw_name s n) eqn:E; simpl.
    + rewrite (H1 n v) by (auto; now left). rewrite IH; auto.
      * now rewrite <- app_assoc.
      * intros n' v' Hin Hk. rewrite bound_app. rewrite (H1 n' v') by (auto; now right).
        unfold bound. simpl. specialize (Hne _ _ Hin). apply Nat.eqb_neq in Hne. now rewrite Hne.
      * intros n' v' Hin Hk. apply (H2 n' v'); auto. now right.
    + rewrite (H2 n v) by (auto; now left). rewrite IH; auto.
      * now rewrite <- app_assoc.
      * intros n' v' Hin Hk. apply (H1 n' v'); auto. now right.
      * intros n' v' Hin Hk. rewrite bound_app. rewrite (H2 n' v') by (auto; now right).
        unfold bound. simpl. specialize (Hne _ _ Hin). apply Nat.eqb_neq in Hne. now rewrite Hne.
Qed.

Lemma bk_clash : forall (s : sig) named env extras rest,
  (exists n v, In (n, v) named /\ is_kw_name s n = true /\ bound n env = true) ->
  bind_keywords s (lift named ++ rest) env extras = None.
Proof.
  induction named as [|[n0 v0] r IH]; intros env extras rest [n [v [Hin [Hk Hb]]]]; [destruct Hin|].
  simpl. destruct Hin as [Hin|Hin].
  - inversion Hin; subst. now rewrite Hk, Hb.
  - destruct (is_kw_name s n0); [destruct (bound n0 env); auto | destruct (bound n0 extras); auto];
      apply IH; exists n, v; repeat split; auto.
    rewrite bound_app, Hb. reflexivity.
Qed.

(* ---------- the simulation relation between slot arrays and name environments ---------- *)
Section WithSig.
Variable s : sig.
Hypothesis Hnd : NoDup (map (@pname V) s).

Definition Rel (sl : slots) (env : list (name * V)) : Prop :=
  length sl = length s /\
  forall i p, nth_error s i = Some p -> is_variadic p = false ->
              get sl i = option_map SVal (assoc (pname p) env).
Definition kw_rel (kw : lazy_kwargs V) (extras : list (name * V)) : Prop :=
  kw_list kw = extras /\ kw <> Some [].

Lemma kwable_not_variadic : forall p : param, kwable p = true -> is_variadic p = false.
Proof. intros p. unfold kwable, is_variadic. destruct (pkd p); auto; discriminate. Qed.

Lemma km_sim : forall m sl kw env extras, Rel sl env -> kw_rel kw extras ->
  match do_kwmap (build_spec s) m sl kw, bind_keywords s m env extras with
  | Err _, None => True
  | Ok (sl', kw'), Some (env', extras') => Rel sl' env' /\ kw_rel kw' extras'
  | _, _ => False
  end.
Proof.
  induction m as [|[[n|] v] r IH]; intros sl kw env extras HR HK; simpl; auto.
  rewrite (is_kw_name_assoc s 0 n).
  destruct (assoc n (names_from 0 s)) as [i|] eqn:E; simpl.
  - destruct (names_from_some _ _ _ _ E) as (p & _ & Hp & Hkw & Hname). rewrite Nat.sub_0_r in Hp.
    destruct HR as [HL HR]. pose proof (kwable_not_variadic _ Hkw) as Hv.
    rewrite (HR i p Hp Hv). rewrite Hname. unfold bound. destruct (assoc n env) eqn:Ea; simpl; auto.
    apply IH; auto. split; [now rewrite length_upd|].
    assert (i < length sl) as Hil. { rewrite HL. apply nth_error_Some. congruence. }
    intros j q Hq Hvq. destruct (Nat.eq_dec j i) as [->|Hne].
    + rewrite get_upd by auto. rewrite Nat.eqb_refl. assert (q = p) by congruence. subst q.
      rewrite Hname, assoc_app, Ea. simpl. now rewrite Nat.eqb_refl.
    + rewrite get_upd_gen by auto. rewrite (HR j q Hq Hvq). rewrite assoc_app.
      destruct (assoc (pname q) env); auto. simpl.
      assert (pname q <> n) as Hnn. { intros Eq. apply Hne. eapply nodup_index; eauto. congruence. }
      apply Nat.eqb_neq in Hnn. now rewrite Hnn.
  - destruct HK as [HK1 HK2]. unfold kw_insert. destruct kw as [mm|]; simpl in *.
    + subst extras. unfold bound. destruct (assoc n mm); simpl; auto. apply IH; auto.
      split; simpl; auto. intros Hc. inversion Hc. destruct mm; discriminate.
    + subst extras. simpl. apply IH; auto. split; simpl; auto. discriminate.
Qed.

End WithSig.

(* ---------- defaults / missing parameters ---------- *)
Definition dflt (ps : pspec V) (i : nat) : option (slotval V) :=
  match nth i (ps_kinds ps) Args with Defaulted x => Some (SVal x) | _ => None end.

Definition filled (ps : pspec V) (sl : slots) (i : nat) : option (slotval V) :=
  match get sl i with Some x => Some x | None => dflt ps i end.

Lemma fill_defaults_spec : forall ps k index (sl : slots), index + k <= length sl ->
  match fill_defaults ps k index sl with
  | Ok sl' => length sl' = length sl /\
      (forall i, get sl' i = if (index <=? i) && (i <? index + k) then filled ps sl i else get sl i) /\
      (forall i, index <= i < index + k -> get sl i = None -> nth i (ps_kinds ps) Args <> Required)
  | Err _ => exists i, index <= i < index + k /\ get sl i = None /\ nth i (ps_kinds ps) Args = Required
  end.
Proof.
  induction k as [|k IH]; intros index sl Hl; simpl.
  - repeat split; auto.
    + intros i. bdestr.
    + intros; lia.
  - destruct (get sl index) eqn:Eg.
    + specialize (IH (S index) sl). destruct (fill_defaults ps k (S index) sl).
      * destruct IH as (A & B & C); [lia|]. repeat split; auto.
        -- intros i. rewrite B. destruct (Nat.eq_dec i index) as [->|Hne].
           ++ unfold filled. rewrite Eg. bdestr.
           ++ bdestr.
        -- intros i Hi Hn. destruct (Nat.eq_dec i index) as [->|Hne]; [congruence|]. apply C; auto. lia.
      * destruct IH as (i & Hi & Hn & Hr); [lia|]. exists i. repeat split; auto; lia.
    + destruct (nth index (ps_kinds ps) Args) eqn:Ek.
      * exists index. repeat split; auto; lia.
      * specialize (IH (S index) (upd sl index (Some (SVal v)))). rewrite length_upd in IH.
        destruct (fill_defaults ps k (S index) (upd sl index (Some (SVal v)))).
        -- destruct IH as (A & B & C); [lia|]. repeat split.
           ++ exact A.
           ++ intros i. rewrite B. destruct (Nat.eq_dec i index) as [->|Hne].
              ** rewrite get_upd by lia. rewrite Nat.eqb_refl. unfold filled, dflt. rewrite Eg, Ek. bdestr.
              ** unfold filled. rewrite get_upd_gen by auto. bdestr.
           ++ intros i Hi Hn. destruct (Nat.eq_dec i index) as [->|Hne]; [rewrite Ek; discriminate|].
              apply C; [lia|]. now rewrite get_upd_gen.
        -- destruct IH as (i & Hi & Hn & Hr); [lia|]. exists i. assert (i <> index) by lia.
           rewrite get_upd_gen in Hn by auto. repeat split; auto; lia.
      * specialize (IH (S index) sl). destruct (fill_defaults ps k (S index) sl).
        -- destruct IH as (A & B & C); [lia|]. repeat split; auto.
           ++ intros i. rewrite B. destruct (Nat.eq_dec i index) as [->|Hne].
              ** unfold filled, dflt. rewrite Eg, Ek. bdestr.
              ** bdestr.
           ++ intros i Hi Hn. destruct (Nat.eq_dec i index) as [->|Hne]; [rewrite Ek; discriminate|]. apply C; auto. lia.
        -- destruct IH as (i & Hi & Hn & Hr); [lia|]. exists i. repeat split; auto; lia.
      * specialize (IH (S index) sl). destruct (fill_defaults ps k (S index) sl).
        -- destruct IH as (A & B & C); [lia|]. repeat split; auto.
           ++ intros i. rewrite B. destruct (Nat.eq_dec i index) as [->|Hne].
              ** unfold filled, dflt. rewrite Eg, Ek. bdestr.
              ** bdestr.
           ++ intros i Hi Hn. destruct (Nat.eq_dec i index) as [->|Hne]; [rewrite Ek; discriminate|]. apply C; auto. lia.
        -- destruct IH as (i & Hi & Hn & Hr); [lia|]. exists i. repeat split; auto; lia.
      * specialize (IH (S index) sl). destruct (fill_defaults ps k (S index) sl).
        -- destruct IH as (A & B & C); [lia|]. repeat split; auto.
           ++ intros i. rewrite B. destruct (Nat.eq_dec i index) as [->|Hne].
              ** unfold filled, dflt. rewrite Eg, Ek. bdestr.
              ** bdestr.
           ++ intros i Hi Hn. destruct (Nat.eq_dec i index) as [->|Hne]; [rewrite Ek; discriminate|]. apply C; auto. lia.
        -- destruct IH as (i & Hi & Hn & Hr); [lia|]. exists i. repeat split; auto; lia.
Qed.


(* ---------- small helpers for the final assembly ---------- *)
Lemma do_kwmap_mono : forall ps m (sl : slots) kw sl' kw', do_kwmap ps m sl kw = Ok (sl', kw') ->
  forall i, get sl i <> None -> get sl' i = get sl i.
Proof.
  induction m as [|[[n|] v] r IH]; intros sl kw sl' kw' H i Hi; simpl in H.
  - now inversion H.
  - destruct (assoc n (ps_map ps)) as [i0|].
    + destruct (is_some (get sl i0)) eqn:Es; [discriminate|].
      assert (i <> i0) as Hne. { intros ->. destruct (get sl i0); [discriminate|congruence]. }
      rewrite (IH _ _ _ _ H i).
      * now apply get_upd_gen.
      * now rewrite get_upd_gen.
    + destruct (kw_insert kw n v) as [dup kw'']. destruct dup; [discriminate|]. eapply IH; eauto.
  - discriminate.
Qed.

Lemma all_some_none : forall (A : Type) (l : list (option A)), In None l -> all_some l = None.
Proof.
  induction l as [|[x|] r IH]; simpl; intros H.
  - destruct H.
  - destruct H as [H|H]; [discriminate|]. now rewrite IH.
  - reflexivity.
Qed.

Lemma all_some_some : forall (A : Type) (l : list (option A)), ~ In None l ->
  exists vs, all_some l = Some vs /\ map Some vs = l.
Proof.
  induction l as [|[x|] r IH]; simpl; intros H.
  - exists []. auto.
  - destruct IH as [vs [H1 H2]]; [tauto|]. exists (x :: vs). rewrite H1. simpl. now rewrite H2.
  - tauto.
Qed.

Lemma nth_map_error : forall (A B : Type) (f : A -> B) (l : list A) i x d,
  nth_error l i = Some x -> nth i (map f l) d = f x.
Proof.
  induction l as [|a l IH]; intros [|i] x d H; simpl in *; try discriminate.
  - now inversion H.
  - now apply IH.
Qed.

Lemma assoc_filter_in : forall (f : name * V -> bool) (l : list (name * V)) n v,
  NoDup (map fst l) -> In (n, v) l -> f (n, v) = true -> assoc n (filter f l) = Some v.
Proof.
  induction l as [|[k w] r IH]; intros n v Hnd Hin Hf; [destruct Hin|].
  simpl in Hnd. inversion Hnd as [|? ? Hnotin Hnd']; subst.
  destruct Hin as [Hin|Hin].
  - inversion Hin; subst. simpl. rewrite Hf. simpl. now rewrite Nat.eqb_refl.
  - simpl. assert (n <> k) as Hne. { intros ->. apply Hnotin. apply (in_map fst) in Hin. exact Hin. }
    apply Nat.eqb_neq in Hne.
    destruct (f (k, w)); simpl; try rewrite Hne; apply IH; auto.
Qed.

Lemma nodup_app_l : forall (A : Type) (l1 l2 : list A), NoDup (l1 ++ l2) -> NoDup l1.
Proof.
  induction l1 as [|x l1 IH]; intros l2 H; [constructor|].
  simpl in H. inversion H as [|? ? Hn Hd]; subst. constructor.
  - intros Hin. apply Hn. apply in_or_app. now left.
  - eapply IH; eauto.
Qed.

Lemma filter_len_le : forall (A : Type) (f : A -> bool) l, length (filter f l) <= length l.
Proof. induction l as [|a l IH]; simpl; auto. destruct (f a); simpl; lia. Qed.

Lemma filter_len_all : forall (A : Type) (f : A -> bool) l, length (filter f l) = length l ->
  forall x, In x l -> f x = true.
Proof.
  induction l as [|a l IH]; simpl; intros H x Hin; [tauto|].
  destruct (f a) eqn:E; simpl in H.
  - destruct Hin as [<-|Hin]; auto.
  - pose proof (filter_len_le _ f l). lia.
Qed.


(* ====================== the main theorem ====================== *)
Section Main.
Variable s : sig.
Hypothesis Hwf : wf_sig s = true.

Lemma wf_parts : NoDup (map (@pname V) s) /\ order_ok 0 (map (@pkd V) s) = true.
Proof.
  unfold wf_sig in Hwf. apply andb_prop in Hwf. destruct Hwf as [H1 H2]. split; auto. now apply nodupb_NoDup.
Qed.

Lemma wf_split : exists a b, s = a ++ b /\ Forall (fun p : param => is_positional p = true) a /\
  Forall (fun p : param => is_positional p = false) b /\ filter (@is_positional V) s = a.
Proof.
  destruct wf_parts as [_ Ho]. destruct (wf_prefix _ _ Ho) as (a & b & E & Fa & Fb).
  unfold nonpos in Fb. exists a, b. repeat split; auto. subst.
  rewrite filter_app, (filter_all _ (@is_positional V) a Fa), (filter_none _ (@is_positional V) b Fb), app_nil_r. reflexivity.
Qed.

Theorem collect_slow_eq_spec : forall c, NoDup (map fst (c_named c)) ->
  outcome_of (collect_slow (build_spec s) c) = outcome_of_spec (bind s c).
Proof.
  intros c Hndn.
  destruct wf_parts as [Hnd Hord].
  destruct wf_split as (a & b & Es & Fa & Fb & Ef).
  set (np := length a).
  set (len := length s).
  set (pos := c_pos c). set (named := c_named c).
  set (seq := match c_star c with Some v => v | None => [] end).
  set (rest := match c_kw c with Some m => m | None => [] end).
  set (pargs := pos ++ seq).
  assert (Hnp : np <= len). { unfold np, len. rewrite Es, app_length. lia. }
  assert (Hnda : NoDup (map (@pname V) a)). { rewrite Es, map_app in Hnd. eapply nodup_app_l; eauto. }
  assert (Hpa : forall i, i < np -> nth_error s i = nth_error a i). { intros. rewrite Es. apply nth_error_app1. auto. }
  unfold collect_slow. cbv zeta.
  replace (ps_npos (build_spec s)) with np by (simpl; rewrite Ef; reflexivity).
  replace (length (ps_kinds (build_spec s))) with len by (simpl; now rewrite map_length).
  fold pos. fold named.
  (* phase 1: explicit positional arguments *)
  destruct (if length pos <=? np then (zip_fill pos (repeat None len), length pos, [])
            else fill_pos np pos (repeat None len) 0 []) as [[s1 next1] star1] eqn:E1.
  assert (F1 : next1 = Nat.min (length pos) np /\ star1 = skipn np pos /\ length s1 = len /\
               forall i, get s1 i = if i <? next1 then option_map SVal (nth_error pos i) else None).
  { destruct (length pos <=? np) eqn:El.
    - apply Nat.leb_le in El. inversion E1; subst s1 next1 star1.
      destruct (zip_fill_spec pos (repeat None len)) as [Z1 Z2]. rewrite repeat_length in *.
      split; [|split; [|split]].
      + lia.
      + symmetry. apply skipn_all2. lia.
      + exact Z1.
      + intros i. rewrite Z2. replace (Nat.min (length pos) len) with (length pos) by lia.
        destruct (i <? length pos); auto. apply get_repeat_none.
    - apply Nat.leb_gt in El. apply fill_pos_spec in E1; [|lia|rewrite repeat_length; lia].
      destruct E1 as (P1 & P2 & P3 & P4). rewrite repeat_length in P3.
      split; [|split; [|split]].
      + rewrite P1. lia.
      + rewrite P2. simpl. now rewrite Nat.sub_0_r.
      + exact P3.
      + intros i. rewrite P4. simpl. rewrite Nat.sub_0_r. now rewrite get_repeat_none. }
  clear E1. destruct F1 as (F1a & F1b & F1c & F1d).
  (* phase 2: explicit named arguments *)
  destruct (do_named (build_spec s) named s1 None None) as [[s2 kw2] low] eqn:E2.
  apply do_named_spec in E2.
  destruct E2 as (A1 & A2 & A3 & A4 & L1 & L2 & _ & G).
  specialize (G Hndn).
  assert (Hinj : forall n n' i, assoc n (ps_map (build_spec s)) = Some i ->
                                assoc n' (ps_map (build_spec s)) = Some i -> n = n').
  { simpl. intros n n' i H1 H2. apply names_from_some in H1. apply names_from_some in H2.
    destruct H1 as (p1 & _ & Q1 & _ & Q2). destruct H2 as (p2 & _ & Q3 & _ & Q4). congruence. }
  specialize (G Hinj). simpl in A3.
  (* phase 3: the elements of *seq *)
  assert (E3 : (match c_star c with Some vs => fill_pos np vs s2 next1 star1 | None => (s2, next1, star1) end)
               = fill_pos np seq s2 next1 star1).
  { unfold seq. destruct (c_star c); reflexivity. }
  rewrite E3. clear E3.
  destruct (fill_pos np seq s2 next1 star1) as [[s3 next3] star3] eqn:E3.
  apply fill_pos_spec in E3; [|lia|lia].
  destruct E3 as (P1 & P2 & P3 & P4).
  assert (Hn3 : next3 = Nat.min (length pargs) np).
  { unfold pargs. rewrite app_length. lia. }
  assert (Hs3 : star3 = skipn np pargs).
  { rewrite P2, F1b. unfold pargs. rewrite skipn_app. f_equal. f_equal. lia. }
  assert (Hl3 : length s3 = len) by lia.
  (* the specification side *)
  set (env0 := combine (map (@pname V) a) pargs).
  assert (EN1 : forall i p, i < next3 -> nth_error s i = Some p ->
                exists x, nth_error pargs i = Some x /\ assoc (pname p) env0 = Some x).
  { intros i p Hi Hp. destruct (nth_error pargs i) as [x|] eqn:Ex.
    - exists x. split; auto. unfold env0. eapply assoc_combine_nth; eauto.
      rewrite nth_error_map, <- Hpa, Hp by lia. reflexivity.
    - apply nth_error_None in Ex. lia. }
  assert (EN2 : forall n x, assoc n env0 = Some x ->
                exists i p, i < next3 /\ nth_error s i = Some p /\ pname p = n).
  { intros n x Hx. unfold env0 in Hx. apply assoc_combine_some in Hx. destruct Hx as (i & H1 & H2).
    assert (i < np). { unfold np. rewrite <- (map_length (@pname V) a). apply nth_error_Some. congruence. }
    assert (i < length pargs). { apply nth_error_Some. congruence. }
    rewrite nth_error_map in H1. destruct (nth_error a i) as [p|] eqn:Ea; simpl in H1; [|discriminate].
    exists i, p. repeat split; try lia.
    - rewrite Hpa by lia. exact Ea.
    - congruence. }
  assert (Hbind : bind s c =
    match bind_keywords s (lift named ++ rest) env0 [] with
    | None => None
    | Some (env, extras) =>
        if nonempty star3 && negb (is_some (ps_args (build_spec s))) then None
        else if nonempty extras && negb (is_some (ps_kwargs (build_spec s))) then None
        else all_some (map (value_of env star3 extras) s)
    end).
  { unfold bind, positional_args, keyword_args, positional_params. cbv zeta. rewrite Ef.
    fold pos. fold named. fold seq. fold rest. fold pargs. fold np. rewrite <- Hs3.
    rewrite (has_kind_find s VarArgs 0), (has_kind_find s VarKw 0). reflexivity. }
  rewrite Hbind. clear Hbind.
  destruct (clash low next3) as [l|] eqn:Ec.
  - (* a named argument clashes with a positional one *)
    unfold clash in Ec. destruct low as [l0|]; [|discriminate].
    destruct (l0 <? next3) eqn:El; [|discriminate]. inversion Ec; subst l0. apply Nat.ltb_lt in El.
    destruct (L1 l eq_refl) as [Hc|[n [v [Hin Ha]]]]; [discriminate|].
    rewrite bk_clash; [reflexivity|]. exists n, v. split; auto. simpl in Ha. split.
    + rewrite (is_kw_name_assoc s 0 n), Ha. reflexivity.
    + apply names_from_some in Ha. destruct Ha as (p & _ & Hp & _ & Hname). rewrite Nat.sub_0_r in Hp.
      destruct (EN1 l p El Hp) as (x & _ & Hx). unfold bound. rewrite <- Hname, Hx. reflexivity.
  - (* no clash *)
    assert (Hnc : forall i, hit (build_spec s) named i -> next3 <= i).
    { intros i Hh. destruct (L2 i Hh) as (l & Hl & Hle). subst low. unfold clash in Ec.
      destruct (l <? next3) eqn:E; [discriminate|]. apply Nat.ltb_ge in E. lia. }
    rewrite bk_named; auto.
    2: { intros n v Hin Hk. destruct (bound n env0) eqn:Eb; auto. exfalso.
         unfold bound in Eb. destruct (assoc n env0) as [x|] eqn:Ex; [|discriminate].
         destruct (EN2 n x Ex) as (j & q & Hj & Hq & Hqn).
         rewrite (is_kw_name_assoc s 0 n) in Hk.
         destruct (assoc n (names_from 0 s)) as [i|] eqn:Ei; [|discriminate].
         pose proof Ei as Ei'. apply names_from_some in Ei'.
         destruct Ei' as (p & _ & Hp & _ & Hpn). rewrite Nat.sub_0_r in Hp.
         assert (i = j) by (apply (nodup_index s i j p q Hnd Hp Hq); congruence). subst j.
         assert (next3 <= i). { apply Hnc. exists n, v. split; auto. }
         lia. }
    simpl app.
    set (env1 := env0 ++ filter (fun nv => is_kw_name s (fst nv)) named).
    set (extras1 := filter (fun nv => negb (is_kw_name s (fst nv))) named).
    assert (HR : Rel s s3 env1).
    { split; [exact Hl3|]. intros i p Hp Hv.
      assert (Hil : i < len). { unfold len. apply nth_error_Some. congruence. }
      rewrite P4. unfold env1. rewrite assoc_app.
      destruct (Nat.lt_ge_cases i next3) as [Hlt|Hge].
      - destruct (EN1 i p Hlt Hp) as (x & Hx & Hax). rewrite Hax. simpl.
        destruct (Nat.le_gt_cases next1 i) as [Hle|Hgt].
        + replace ((next1 <=? i) && (i <? next3)) with true
            by (symmetry; apply andb_true_intro; split; [apply Nat.leb_le|apply Nat.ltb_lt]; lia).
          assert (next1 = length pos) by lia.
          unfold pargs in Hx. rewrite nth_error_app2 in Hx by lia.
          replace (i - next1) with (i - length pos) by lia. rewrite Hx. reflexivity.
        + replace ((next1 <=? i) && (i <? next3)) with false
            by (symmetry; apply andb_false_intro1; apply Nat.leb_gt; lia).
          rewrite A2.
          * rewrite F1d. replace (i <? next1) with true by (symmetry; apply Nat.ltb_lt; lia).
            unfold pargs in Hx. rewrite nth_error_app1 in Hx by lia. rewrite Hx. reflexivity.
          * intros Hh. apply Hnc in Hh. lia.
      - replace ((next1 <=? i) && (i <? next3)) with false
          by (symmetry; apply andb_false_intro2; apply Nat.ltb_ge; lia).
        destruct (assoc (pname p) env0) as [x|] eqn:Ex.
        { exfalso. destruct (EN2 _ _ Ex) as (j & q & Hj & Hq & Hqn).
          assert (j = i) by (apply (nodup_index s j i q p Hnd Hq Hp); congruence). lia. }
        destruct (assoc (pname p) (filter (fun nv => is_kw_name s (fst nv)) named)) as [v|] eqn:Ef2.
        + apply assoc_in in Ef2. apply filter_In in Ef2. destruct Ef2 as [Hin Hk]. simpl in Hk.
          rewrite (is_kw_name_assoc s 0) in Hk.
          destruct (assoc (pname p) (names_from 0 s)) as [i'|] eqn:Ei; [|discriminate].
          pose proof Ei as Ei'. apply names_from_some in Ei'.
          destruct Ei' as (q & _ & Hq & _ & Hqn). rewrite Nat.sub_0_r in Hq.
          assert (i' = i) by (apply (nodup_index s i' i q p Hnd Hq Hp); congruence). subst i'.
          simpl. apply (G (pname p) v i); auto. lia.
        + simpl. rewrite A2.
          * rewrite F1d. replace (i <? next1) with false by (symmetry; apply Nat.ltb_ge; lia). reflexivity.
          * intros (n & v & Hin & Ha). simpl in Ha. pose proof Ha as Ha'. apply names_from_some in Ha'.
            destruct Ha' as (q & _ & Hq & Hqk & Hqn). rewrite Nat.sub_0_r in Hq.
            assert (q = p) by congruence. subst q. subst n.
            rewrite (assoc_filter_in (fun nv => is_kw_name s (fst nv)) named (pname p) v) in Ef2;
              [discriminate|auto|auto|].
            simpl. rewrite (is_kw_name_assoc s 0), Ha. reflexivity. }
    assert (HK : kw_rel kw2 extras1).
    { split.
      - rewrite A3. unfold extras1. apply filter_ext. intros [n v]. unfold notkw. simpl.
        now rewrite (is_kw_name_assoc s 0 n).
      - intros Hc. apply A4 in Hc. discriminate. }
    assert (E5 : (match c_kw c with Some m => do_kwmap (build_spec s) m s3 kw2 | None => Ok (s3, kw2) end)
                 = do_kwmap (build_spec s) rest s3 kw2).
    { unfold rest. destruct (c_kw c); reflexivity. }
    rewrite E5. clear E5.
    pose proof (km_sim s Hnd rest s3 kw2 env1 extras1 HR HK) as KM.
    destruct (do_kwmap (build_spec s) rest s3 kw2) as [[s5 kw5]|e] eqn:E5;
      destruct (bind_keywords s rest env1 extras1) as [[env extras]|] eqn:Eb; try contradiction; [|reflexivity].
    destruct KM as [HR5 HK5].
    pose proof (do_kwmap_mono _ _ _ _ _ _ E5) as M5.
    destruct HR5 as [HL5 HR5]. destruct HK5 as [HK5a HK5b].
    assert (HKD : forall i p, nth_error s i = Some p -> nth i (ps_kinds (build_spec s)) Args = kind_of p).
    { intros i p Hp. simpl. now apply nth_map_error. }
    assert (Hpos5 : forall i, i < next3 -> get s5 i <> None).
    { intros i Hi. destruct (nth_error s i) as [p|] eqn:Hp; [|apply nth_error_None in Hp; unfold len in *; lia].
      assert (is_variadic p = false) as Hv.
      { rewrite Hpa in Hp by lia. apply nth_error_In in Hp. rewrite Forall_forall in Fa. apply Fa in Hp.
        unfold is_positional, is_variadic in *. destruct (pkd p); auto; discriminate. }
      assert (get s3 i <> None) as H3.
      { destruct HR as [_ HR]. rewrite (HR i p Hp Hv). unfold env1. rewrite assoc_app.
        destruct (EN1 i p Hi Hp) as (x & _ & Hx). rewrite Hx. discriminate. }
      rewrite M5; auto. }
    assert (HVA : forall i p, nth_error s i = Some p -> pkd p = VarArgs -> ps_args (build_spec s) = Some i).
    { intros i p Hp Hk. simpl. destruct (find_kind VarArgs 0 s) as [ai|] eqn:E.
      - apply find_kind_some in E. destruct E as (q & _ & Hq & Hqk). rewrite Nat.sub_0_r in Hq. f_equal.
        apply (order_unique s 0 VarArgs ai i q p (or_introl eq_refl) Hord Hq Hp Hqk Hk).
      - exfalso. eapply find_kind_none; eauto. eapply nth_error_In; eauto. }
    assert (HVK : forall i p, nth_error s i = Some p -> pkd p = VarKw -> ps_kwargs (build_spec s) = Some i).
    { intros i p Hp Hk. simpl. destruct (find_kind VarKw 0 s) as [ai|] eqn:E.
      - apply find_kind_some in E. destruct E as (q & _ & Hq & Hqk). rewrite Nat.sub_0_r in Hq. f_equal.
        apply (order_unique s 0 VarKw ai i q p (or_intror eq_refl) Hord Hq Hp Hqk Hk).
      - exfalso. eapply find_kind_none; eauto. eapply nth_error_In; eauto. }
    assert (HVA' : forall ai, ps_args (build_spec s) = Some ai -> exists q, nth_error s ai = Some q /\ pkd q = VarArgs).
    { intros ai E. simpl in E. apply find_kind_some in E. destruct E as (q & _ & Hq & Hqk).
      rewrite Nat.sub_0_r in Hq. eauto. }
    assert (HVK' : forall ki, ps_kwargs (build_spec s) = Some ki -> exists q, nth_error s ki = Some q /\ pkd q = VarKw).
    { intros ki E. simpl in E. apply find_kind_some in E. destruct E as (q & _ & Hq & Hqk).
      rewrite Nat.sub_0_r in Hq. eauto. }
    pose proof (fill_defaults_spec (build_spec s) (len - next3) next3 s5) as FD.
    destruct (fill_defaults (build_spec s) (len - next3) next3 s5) as [s6|e] eqn:E6.
    2: { (* a required parameter is missing *)
      destruct FD as (i & Hi & Hg & Hr); [lia|].
      destruct (nth_error s i) as [p|] eqn:Hp; [|apply nth_error_None in Hp; unfold len in *; lia].
      rewrite (HKD i p Hp) in Hr.
      assert (value_of env star3 extras p = None) as Hv.
      { unfold kind_of in Hr. unfold value_of.
        destruct (pkd p) eqn:Ek; try discriminate; destruct (pdef p); try discriminate;
          (rewrite (HR5 i p Hp) in Hg by (unfold is_variadic; now rewrite Ek));
          destruct (assoc (pname p) env); simpl in Hg; [discriminate|reflexivity|discriminate|reflexivity|discriminate|reflexivity]. }
      rewrite (all_some_none _ (map (value_of env star3 extras) s)).
      - destruct (nonempty star3 && negb (is_some (ps_args (build_spec s))));
          destruct (nonempty extras && negb (is_some (ps_kwargs (build_spec s)))); reflexivity.
      - rewrite <- Hv. apply in_map. eapply nth_error_In; eauto. }
    destruct FD as (A6 & B6 & C6); [lia|].
    assert (Hs6 : forall i p, nth_error s i = Some p -> is_variadic p = false ->
                  get s6 i = value_of env star3 extras p /\ value_of env star3 extras p <> None).
    { intros i p Hp Hv.
      assert (Hil : i < len). { unfold len. apply nth_error_Some. congruence. }
      assert (get s6 i = filled (build_spec s) s5 i) as ->.
      { rewrite B6. destruct (Nat.lt_ge_cases i next3) as [Hlt|Hge].
        - replace ((next3 <=? i) && (i <? next3 + (len - next3))) with false
            by (symmetry; apply andb_false_intro1; apply Nat.leb_gt; lia).
          unfold filled. specialize (Hpos5 i Hlt). destruct (get s5 i); congruence.
        - replace ((next3 <=? i) && (i <? next3 + (len - next3))) with true
            by (symmetry; apply andb_true_intro; split; [apply Nat.leb_le|apply Nat.ltb_lt]; lia).
          reflexivity. }
      unfold filled, dflt. rewrite (HKD i p Hp).
      pose proof (HR5 i p Hp Hv) as Hg. rewrite Hg.
      unfold value_of, kind_of. unfold is_variadic in Hv.
      destruct (assoc (pname p) env) as [x|] eqn:Ea; simpl.
      - destruct (pkd p); try discriminate; split; auto; discriminate.
      - assert (nth i (ps_kinds (build_spec s)) Args <> Required) as Hnr.
        { apply C6; [|now rewrite Hg].
          destruct (Nat.lt_ge_cases i next3) as [Hlt|Hge]; [|lia].
          exfalso. apply (Hpos5 i Hlt). now rewrite Hg. }
        rewrite (HKD i p Hp) in Hnr. unfold kind_of in Hnr.
        destruct (pkd p); try discriminate; destruct (pdef p); try (exfalso; apply Hnr; reflexivity);
          split; auto; discriminate. }
    assert (Hall : exists vs, all_some (map (value_of env star3 extras) s) = Some vs /\
                              map Some vs = map (value_of env star3 extras) s).
    { apply all_some_some. intros Hin. apply in_map_iff in Hin. destruct Hin as (p & Hv & Hin).
      apply In_nth_error in Hin. destruct Hin as (i & Hp).
      destruct (is_variadic p) eqn:Evar.
      - unfold value_of, is_variadic in *. destruct (pkd p); discriminate.
      - destruct (Hs6 i p Hp Evar) as [_ Hne]. congruence. }
    destruct Hall as (vs & Hall & Hvs). rewrite Hall.
    assert (Hl6 : length s6 = len) by (unfold len; congruence).
    assert (Hs8 :
      match ps_kwargs (build_spec s) with
      | Some ki => upd (match ps_args (build_spec s) with
                        | Some ai => upd s6 ai (Some (STuple star3)) | None => s6 end) ki (Some (SDict extras))
      | None => match ps_args (build_spec s) with
                | Some ai => upd s6 ai (Some (STuple star3)) | None => s6 end
      end = map (value_of env star3 extras) s).
    { set (s7 := match ps_args (build_spec s) with
                 | Some ai => upd s6 ai (Some (STuple star3)) | None => s6 end).
      assert (Hl7 : length s7 = len). { unfold s7. destruct (ps_args (build_spec s)); rewrite ?length_upd; exact Hl6. }
      apply nth_ext with (d := None) (d' := None).
      - rewrite map_length. destruct (ps_kwargs (build_spec s)); rewrite ?length_upd; exact Hl7.
      - intros i Hi.
        assert (Hil : i < len). { destruct (ps_kwargs (build_spec s)); rewrite ?length_upd in Hi; lia. }
        clear Hi.
        destruct (nth_error s i) as [p|] eqn:Hp; [|apply nth_error_None in Hp; unfold len in *; lia].
        rewrite (nth_map_error _ _ (value_of env star3 extras) s i p None Hp).
        match goal with |- nth i ?X None = _ => change (get X i = value_of env star3 extras p) end.
        destruct (is_variadic p) eqn:Evar.
        + unfold is_variadic in Evar. destruct (pkd p) eqn:Ek; try discriminate.
          * (* *args *)
            pose proof (HVA i p Hp Ek) as Ea. unfold value_of. rewrite Ek.
            assert (get s7 i = Some (STuple star3)) as H7.
            { unfold s7. rewrite Ea. rewrite get_upd by lia. now rewrite Nat.eqb_refl. }
            destruct (ps_kwargs (build_spec s)) as [ki|] eqn:Ekk; auto.
            rewrite get_upd_gen; auto. intros ->. destruct (HVK' _ eq_refl) as (q & Hq & Hqk). congruence.
          * (* **kwargs *)
            pose proof (HVK i p Hp Ek) as Ekk. unfold value_of. rewrite Ek, Ekk.
            rewrite get_upd by lia. now rewrite Nat.eqb_refl.
        + destruct (Hs6 i p Hp Evar) as [H6 _]. rewrite <- H6.
          assert (get s7 i = get s6 i) as H7.
          { unfold s7. destruct (ps_args (build_spec s)) as [ai|] eqn:Ea; auto.
            apply get_upd_gen. intros ->. destruct (HVA' _ eq_refl) as (q & Hq & Hqk).
            assert (q = p) by congruence. subst q. unfold is_variadic in Evar. rewrite Hqk in Evar. discriminate. }
          destruct (ps_kwargs (build_spec s)) as [ki|] eqn:Ekk; auto.
          rewrite get_upd_gen; auto. intros ->. destruct (HVK' _ eq_refl) as (q & Hq & Hqk).
          assert (q = p) by congruence. subst q. unfold is_variadic in Evar. rewrite Hqk in Evar. discriminate. }
    rewrite HK5a.
    destruct (ps_args (build_spec s)) as [ai|] eqn:Ea; destruct (ps_kwargs (build_spec s)) as [ki|] eqn:Ekk;
      simpl is_some; simpl negb; rewrite ?andb_false_r, ?andb_true_r.
    + simpl. rewrite Hvs, <- Hs8. reflexivity.
    + destruct kw5 as [m|]; simpl in HK5a; subst extras.
      * destruct m; [congruence|]. reflexivity.
      * simpl. rewrite Hvs, <- Hs8. reflexivity.
    + destruct star3; simpl; [|reflexivity]. rewrite Hvs, <- Hs8. reflexivity.
    + destruct star3; simpl; [|reflexivity].
      destruct kw5 as [m|]; simpl in HK5a; subst extras.
      * destruct m; [congruence|]. reflexivity.
      * simpl. rewrite Hvs, <- Hs8. reflexivity.
Qed.
End Main.

(* ---------- the fast path of collect_inline ---------- *)
Lemma find_kind_all_pos : forall (s : sig) kd k, (kd = VarArgs \/ kd = VarKw) ->
  (forall p, In p s -> is_positional p = true) -> find_kind kd k s = None.
Proof.
  induction s as [|a s IH]; intros kd k Hk H; simpl; auto.
  assert (is_positional a = true) as Ha by (apply H; now left).
  assert (pkind_eqb (pkd a) kd = false) as ->.
  { unfold is_positional in Ha. destruct Hk; subst kd; destruct (pkd a); auto; discriminate. }
  apply IH; auto. intros p Hp. apply H. now right.
Qed.

Theorem fast_path_eq : forall (s : sig) (c : call), fast_guard (build_spec s) c = true ->
  collect_inline (build_spec s) c = collect_slow (build_spec s) c.
Proof.
  intros s c H. unfold collect_inline. rewrite H. unfold fast_guard in H.
  repeat (apply andb_prop in H; destruct H as [H ?]).
  destruct c as [pos named star kw]. simpl in *.
  destruct named; [|discriminate]. destruct star; [discriminate|]. destruct kw; [discriminate|].
  apply Nat.eqb_eq in H. apply Nat.eqb_eq in H3. rewrite map_length in H3.
  assert (forall p, In p s -> is_positional p = true) as Hall.
  { apply filter_len_all. congruence. }
  unfold collect_slow, collect_fast. simpl.
  rewrite (find_kind_all_pos s VarArgs 0 (or_introl eq_refl) Hall), (find_kind_all_pos s VarKw 0 (or_intror eq_refl) Hall).
  rewrite <- H, Nat.leb_refl. rewrite map_length, <- H3, Nat.sub_diag. simpl. reflexivity.
Qed.

Theorem collect_eq_spec : forall (s : sig) (c : call), wf_sig s = true -> NoDup (map fst (c_named c)) ->
  outcome_of (collect s c) = outcome_of_spec (bind s c).
Proof.
  intros s c Hwf Hnd. unfold collect.
  destruct (fast_guard (build_spec s) c) eqn:E.
  - rewrite (fast_path_eq s c E). now apply collect_slow_eq_spec.
  - unfold collect_inline. rewrite E. now apply collect_slow_eq_spec.
Qed.

(* the single comparison `next_position > lowest_name` detects exactly the positional / named double assignments *)
Theorem lowest_name_correct : forall ps named (sl sl' : slots) kw' low next,
  do_named ps named sl None None = (sl', kw', low) ->
  (clash low next <> None <-> exists i, hit ps named i /\ i < next).
Proof.
  intros ps named sl sl' kw' low next H. apply do_named_spec in H.
  destruct H as (_ & _ & _ & _ & L1 & L2 & _). unfold clash. split.
  - destruct low as [l|]; [|congruence]. destruct (l <? next) eqn:E; [|congruence]. intros _.
    apply Nat.ltb_lt in E. destruct (L1 l eq_refl) as [Hc|Hh]; [discriminate|]. eauto.
  - intros (i & Hh & Hi). destruct (L2 i Hh) as (l & -> & Hl).
    assert (l <? next = true) as -> by (apply Nat.ltb_lt; lia). discriminate.
Qed.

(* when binding succeeds every parameter has a value *)
Theorem bound_complete : forall (s : sig) (c : call) sl, wf_sig s = true -> NoDup (map fst (c_named c)) ->
  collect s c = Ok sl -> length sl = length s /\ Forall (fun o => o <> None) sl.
Proof.
  intros s c sl Hwf Hnd H. pose proof (collect_eq_spec s c Hwf Hnd) as E. rewrite H in E. simpl in E.
  unfold bind in E.
  destruct (bind_keywords s (keyword_args c) _ []) as [[env extras]|]; [|discriminate].
  destruct (nonempty _ && _); [discriminate|]. destruct (nonempty _ && _); [discriminate|].
  destruct (all_some _) as [vs|] eqn:Ea; [|discriminate]. simpl in E. inversion E; subst sl.
  split.
  - rewrite map_length.
    assert (forall (l : list (option (slotval V))) vs, all_some l = Some vs -> length vs = length l) as Hlen.
    { induction l as [|[x|] r IH]; simpl; intros vs0 Hv; try discriminate.
      - now inversion Hv.
      - destruct (all_some r); [|discriminate]. inversion Hv. simpl. f_equal. now apply IH. }
    rewrite (Hlen _ _ Ea). apply map_length.
  - apply Forall_forall. intros o Ho. apply in_map_iff in Ho. destruct Ho as (x & <- & _). discriminate.
Qed.


(* ====================== static checks: the hypotheses hold for every parsed program ====================== *)
(* starlark_syntax/src/syntax/def.rs  DefParams::unpack : the parameter list of a `def` as written (with the markers
   `/` and `*`), the State machine Normal(0) < SeenSlash(1) < SeenStar(2) < SeenStarStar(3), check_param_name
   (duplicated parameter name), "positional parameter after non positional".  The two purely rejecting checks
   ("`/` cannot be first parameter", "`*` parameter must not be last / must be followed by a normal parameter") can only
   remove accepted lists and are left out: the theorem holds a fortiori with them. *)
Inductive aparam := ANormal (n : name) (d : option V) | ANoArgs | ASlash | AArgs (n : name) | AKwArgs (n : name).

Definition aparam_name (p : aparam) : option name :=
  match p with ANormal n _ | AArgs n | AKwArgs n => Some n | _ => None end.

Fixpoint unpack_loop (ps : list aparam) (state : nat) (seen_opt : bool) (argset : list name) : option sig :=
  match ps with
  | [] => Some []
  | p :: r =>
    match (match aparam_name p with
           | Some n => if existsb (Nat.eqb n) argset then None else Some (n :: argset)
           | None => Some argset end) with
    | None => None
    | Some argset' =>
      match p with
      | ANormal n d =>
          if 3 <=? state then None
          else if (match d with None => seen_opt && (state <? 2) | Some _ => false end) then None
          else let mode := if state <? 1 then PosOnly else if state <? 2 then PosOrKw else KwOnly in
               option_map (cons (mkParam n mode d)) (unpack_loop r state (seen_opt || is_some d) argset')
      | ANoArgs => if 2 <=? state then None else unpack_loop r 2 seen_opt argset'
      | ASlash => if 1 <=? state then None else unpack_loop r 1 seen_opt argset'
      | AArgs n => if 2 <=? state then None
                   else option_map (cons (mkParam n VarArgs None)) (unpack_loop r 2 seen_opt argset')
      | AKwArgs n => if 3 <=? state then None
                     else option_map (cons (mkParam n VarKw None)) (unpack_loop r 3 seen_opt argset')
      end
    end
  end.

(* `let mut state = if num_positional_only == 0 { SeenSlash } else { Normal }` *)
Definition def_unpack (ps : list aparam) : option sig :=
  unpack_loop ps (if existsb (fun p => match p with ASlash => true | _ => false end) ps then 0 else 1) false [].

Definition state_stage (st : nat) : nat := match st with 0 => 0 | 1 => 1 | 2 => 3 | _ => 5 end.

Lemma existsb_notin : forall n l, ~ In n l -> existsb (Nat.eqb n) l = false.
Proof.
  induction l as [|x l IH]; simpl; intros H; auto.
  destruct (n =? x) eqn:E; simpl.
  - apply Nat.eqb_eq in E. subst. tauto.
  - apply IH. tauto.
Qed.

Lemma unpack_loop_wf : forall ps st so argset s, unpack_loop ps st so argset = Some s ->
  order_ok (state_stage st) (map (@pkd V) s) = true /\ nodupb (map (@pname V) s) = true /\
  (forall n, In n argset -> ~ In n (map (@pname V) s)).
Proof.
  induction ps as [|p r IH]; intros st so argset s H; cbn -[Nat.leb Nat.ltb] in H.
  - inversion H; subst. simpl. repeat split; auto.
  - destruct p as [n d| | |n|n]; cbn -[Nat.leb Nat.ltb] in H.
    + destruct (existsb (Nat.eqb n) argset) eqn:Ex; [discriminate|].
      destruct (3 <=? st) eqn:E3; [discriminate|]. apply Nat.leb_gt in E3.
      destruct (match d with None => so && (st <? 2) | Some _ => false end); [discriminate|].
      destruct (unpack_loop r st (so || is_some d) (n :: argset)) as [s'|] eqn:Er; [|discriminate].
      simpl in H. inversion H; subst s. clear H.
      destruct (IH _ _ _ _ Er) as (O & N & D). simpl. repeat split.
      * destruct st as [|[|[|st]]]; simpl in *; auto; lia.
      * rewrite N. rewrite existsb_notin; auto. apply D. now left.
      * intros m Hm [Hc|Hc].
        -- subst m. assert (existsb (Nat.eqb n) argset = true) as Hc.
           { apply existsb_exists. exists n. split; auto. apply Nat.eqb_refl. }
           congruence.
        -- apply (D m); auto. now right.
    + destruct (2 <=? st) eqn:E2; [discriminate|]. apply Nat.leb_gt in E2.
      destruct (IH _ _ _ _ H) as (O & N & D). repeat split; auto.
      eapply order_ok_mono; [|exact O]. destruct st as [|[|st]]; simpl; lia.
    + destruct (1 <=? st) eqn:E1; [discriminate|]. apply Nat.leb_gt in E1.
      destruct (IH _ _ _ _ H) as (O & N & D). repeat split; auto.
      eapply order_ok_mono; [|exact O]. destruct st; simpl; lia.
    + destruct (existsb (Nat.eqb n) argset) eqn:Ex; [discriminate|].
      destruct (2 <=? st) eqn:E2; [discriminate|]. apply Nat.leb_gt in E2.
      destruct (unpack_loop r 2 so (n :: argset)) as [s'|] eqn:Er; [|discriminate].
      simpl in H. inversion H; subst s. clear H.
      destruct (IH _ _ _ _ Er) as (O & N & D). simpl. repeat split.
      * simpl in O. rewrite O. destruct st as [|[|st]]; simpl; auto; lia.
      * rewrite N. rewrite existsb_notin; auto. apply D. now left.
      * intros m Hm [Hc|Hc].
        -- subst m. assert (existsb (Nat.eqb n) argset = true) as Hc.
           { apply existsb_exists. exists n. split; auto. apply Nat.eqb_refl. }
           congruence.
        -- apply (D m); auto. now right.
    + destruct (existsb (Nat.eqb n) argset) eqn:Ex; [discriminate|].
      destruct (3 <=? st) eqn:E3; [discriminate|]. apply Nat.leb_gt in E3.
      destruct (unpack_loop r 3 so (n :: argset)) as [s'|] eqn:Er; [|discriminate].
      simpl in H. inversion H; subst s. clear H.
      destruct (IH _ _ _ _ Er) as (O & N & D). simpl. repeat split.
      * simpl in O. rewrite O. destruct st as [|[|[|st]]]; simpl; auto; lia.
      * rewrite N. rewrite existsb_notin; auto. apply D. now left.
      * intros m Hm [Hc|Hc].
        -- subst m. assert (existsb (Nat.eqb n) argset = true) as Hc.
           { apply existsb_exists. exists n. split; auto. apply Nat.eqb_refl. }
           congruence.
        -- apply (D m); auto. now right.
Qed.

Theorem def_unpack_wf : forall ps s, def_unpack ps = Some s -> wf_sig s = true.
Proof.
  intros ps s H. unfold def_unpack in H. apply unpack_loop_wf in H. destruct H as (O & N & _).
  unfold wf_sig. rewrite N, andb_true_r.
  eapply order_ok_mono; [|exact O]. lia.
Qed.

(* starlark_syntax/src/syntax/call.rs  CallArgsUnpack::unpack : `named_args.insert(&n.node)` must succeed for every
   named argument ("repeated named argument"); arguments.rs ArgNames::new_check_unique does the same for the host API *)
Fixpoint names_unique (seen : list name) (l : list name) : bool :=
  match l with
  | [] => true
  | n :: r => if existsb (Nat.eqb n) seen then false else names_unique (n :: seen) r
  end.

Theorem call_unpack_nodup : forall l seen, names_unique seen l = true ->
  NoDup l /\ forall n, In n seen -> ~ In n l.
Proof.
  induction l as [|n r IH]; intros seen H; simpl in H.
  - split; [constructor|]. intros n _ [].
  - destruct (existsb (Nat.eqb n) seen) eqn:E; [discriminate|].
    destruct (IH _ H) as [Hn Hd]. split.
    + constructor; auto. apply Hd. now left.
    + intros m Hm [Hc|Hc].
      * subst m. assert (existsb (Nat.eqb n) seen = true) as Hc.
        { apply existsb_exists. exists n. split; auto. apply Nat.eqb_refl. }
        congruence.
      * apply (Hd m); auto. now right.
Qed.

Theorem call_unpack_nodup0 : forall l, names_unique [] l = true -> NoDup l.
Proof. intros l H. exact (proj1 (call_unpack_nodup l [] H)). Qed.

(* for every def the parser accepts and every call whose named arguments pass the duplicate check *)
Theorem parsed_collect_eq_spec : forall ps (s : sig) (c : call),
  def_unpack ps = Some s -> names_unique [] (map fst (c_named c)) = true ->
  outcome_of (collect s c) = outcome_of_spec (bind s c).
Proof.
  intros ps s c Hd Hn. apply collect_eq_spec.
  - eapply def_unpack_wf; eauto.
  - now apply call_unpack_nodup0.
Qed.


(* ====================== ParametersSpecBuilder: the builder computes build_spec ====================== *)

(* ====================== ParametersSpecBuilder ====================== *)
Definition stage_of_style (st : style) : nat :=
  match st with SPosOnly => 0 | SPosOrNamed => 1 | SNamedOnly => 3 | SNoMore => 5 end.
Definition pent (p : param) : name * pkindI V := (pname p, kind_of p).

Lemma order_no_posonly : forall (r : sig) st, 1 <= st -> order_ok st (map (@pkd V) r) = true ->
  filter (@is_posonly V) r = [].
Proof.
  intros r st Hst H. apply filter_none. apply order_ok_ge in H. rewrite Forall_forall in *.
  intros p Hin. specialize (H (pkd p) (in_map _ _ _ Hin)). unfold is_posonly.
  destruct (pkd p); simpl in *; auto; lia.
Qed.
Lemma order_no_positional : forall (r : sig) st, 2 <= st -> order_ok st (map (@pkd V) r) = true ->
  filter (@is_positional V) r = [].
Proof.
  intros r st Hst H. apply filter_none. apply order_ok_ge in H. rewrite Forall_forall in *.
  intros p Hin. specialize (H (pkd p) (in_map _ _ _ Hin)). unfold is_positional.
  destruct (pkd p); simpl in *; auto; lia.
Qed.
Lemma order_nil : forall (r : sig), order_ok 5 (map (@pkd V) r) = true -> r = [].
Proof. destruct r as [|p r]; auto. simpl. destruct (pkd p); simpl; discriminate. Qed.

Definition binv (npo np : nat) (b : bstate V) (r : sig) : Prop :=
  let i := length (b_params b) in
  order_ok (stage_of_style (b_style b)) (map (@pkd V) r) = true /\
  (forall p, In p r -> assoc_nat (pname p) (b_names b) = None) /\
  match b_style b with
  | SPosOnly => b_npos_only b = i /\ b_npos b = i /\ npo = i + length (filter (@is_posonly V) r) /\
                np = i + length (filter (@is_positional V) r) /\ b_args b = None /\ b_kwargs b = None
  | SPosOrNamed => b_npos_only b = npo /\ b_npos b = i /\ npo < i /\
                   np = i + length (filter (@is_positional V) r) /\ b_args b = None /\ b_kwargs b = None
  | SNamedOnly => b_npos_only b = npo /\ b_npos b = np /\ npo < i /\ np < i /\ b_kwargs b = None
  | SNoMore => b_npos_only b = npo /\ b_npos b = np
  end.

Definition param_steps (npo np i : nat) (p : param) : list (bstep V) :=
  (if (i =? npo) && negb (is_variadic p) then [BNoMorePosOnly] else [])
  ++ (if (i =? np) && negb (is_variadic p) then [BNoMorePos] else [])
  ++ [step_of_param p].
Lemma steps_from_cons : forall npo np i p (r : sig),
  steps_from npo np i (p :: r) = param_steps npo np i p ++ steps_from npo np (S i) r.
Proof. intros. unfold param_steps. simpl. rewrite <- !app_assoc. reflexivity. Qed.

Definition opt_or (o : option nat) (x : option nat) : option nat := match o with Some a => Some a | None => x end.

Lemma assoc_nat_app : forall n (l1 l2 : list (name * nat)),
  assoc_nat n (l1 ++ l2) = match assoc_nat n l1 with Some v => Some v | None => assoc_nat n l2 end.
Proof. induction l1 as [|[k v] l IH]; intros; simpl; auto. destruct (n =? k); auto. Qed.

Lemma bstep_param : forall npo np b p (r : sig),
  binv npo np b (p :: r) -> ~ In (pname p) (map (@pname V) r) ->
  exists b1, fold_left (@builder_step V) (param_steps npo np (length (b_params b)) p) (Some b) = Some b1 /\
    binv npo np b1 r /\ b_params b1 = b_params b ++ [pent p] /\
    b_names b1 = b_names b ++ (if kwable p then [(pname p, length (b_params b))] else []) /\
    b_args b1 = opt_or (b_args b) (if pkind_eqb (pkd p) VarArgs then Some (length (b_params b)) else None) /\
    b_kwargs b1 = opt_or (b_kwargs b) (if pkind_eqb (pkd p) VarKw then Some (length (b_params b)) else None).
Proof.
  intros npo np [params names po pos sty args kwargs] [n k d] r (Hord & Hnames & Hsty) Hnd.
  cbn [b_params b_names b_npos_only b_npos b_style b_args b_kwargs] in *.
  assert (Hn : assoc_nat n names = None). { apply (Hnames (mkParam n k d)). apply in_eq. }
  assert (Hnames' : forall p, In p r -> assoc_nat (pname p) (names ++ [(n, length params)]) = None).
  { intros q Hq. rewrite assoc_nat_app, (Hnames q (or_intror Hq)). simpl.
    destruct (pname q =? n) eqn:E; auto. apply Nat.eqb_eq in E. exfalso. apply Hnd. simpl. rewrite <- E. apply in_map. exact Hq. }
  assert (Hnames0 : forall p, In p r -> assoc_nat (pname p) names = None) by (intros q Hq; apply Hnames; now right).
  destruct sty; destruct k; cbn [stage_of_style map pkd order_ok stage] in Hord;
    try (simpl in Hord; discriminate Hord).
  all: simpl in Hord.
  all: match type of Hord with order_ok ?X _ = true =>
         try (assert (Fpo : filter (@is_posonly V) r = []) by (apply (order_no_posonly r X); [lia | exact Hord]));
         try (assert (Fpos : filter (@is_positional V) r = []) by (apply (order_no_positional r X); [lia | exact Hord]))
       end.
  all: cbn [filter is_posonly is_positional pkd] in Hsty; rewrite ?Fpo, ?Fpos in Hsty; cbn [length] in Hsty.
  all: decompose [and] Hsty; clear Hsty; subst.
  all: unfold param_steps; cbn [is_variadic pkd negb andb].
  all: repeat match goal with |- context [?a =? ?b] => destruct (Nat.eqb_spec a b); try (exfalso; lia) end.
  all: destruct d as [dv|]; cbn [andb app fold_left step_of_param pkd pdef pname].
  all: unfold builder_step, b_add; cbn [b_params b_names b_npos_only b_npos b_style b_args b_kwargs style_rank
         is_some_nat negb andb Nat.ltb Nat.leb Nat.eqb pname]; rewrite ?Hn.
  all: eexists; split; [reflexivity|].
  all: unfold binv, pent, kind_of, kwable, opt_or; cbn [b_params b_names b_npos_only b_npos b_style b_args b_kwargs pname pkd pdef
         stage_of_style pkind_eqb]; rewrite ?app_length; cbn [length].
  all: rewrite ?app_nil_r.
  all: repeat split; auto; try lia.
  all: try (rewrite ?Fpo, ?Fpos; simpl; lia).
  all: destruct args; reflexivity.
Qed.

Lemma opt_or_none : forall o, opt_or o None = o.
Proof. destruct o; reflexivity. Qed.

Lemma builder_suffix : forall (r : sig) npo np b,
  binv npo np b r -> NoDup (map (@pname V) r) ->
  exists b', fold_left (@builder_step V) (steps_from npo np (length (b_params b)) r) (Some b) = Some b' /\
    b_params b' = b_params b ++ map pent r /\
    b_names b' = b_names b ++ names_from (length (b_params b)) r /\
    b_npos_only b' = npo /\ b_npos b' = np /\
    b_args b' = opt_or (b_args b) (find_kind VarArgs (length (b_params b)) r) /\
    b_kwargs b' = opt_or (b_kwargs b) (find_kind VarKw (length (b_params b)) r).
Proof.
  induction r as [|p r IH]; intros npo np b Hinv Hnd.
  - exists b. simpl. rewrite !app_nil_r, !opt_or_none. repeat split; auto.
    + destruct Hinv as (_ & _ & H). destruct (b_style b); simpl in H; lia.
    + destruct Hinv as (_ & _ & H). destruct (b_style b); simpl in H; lia.
  - simpl in Hnd. inversion Hnd as [|? ? Hnotin Hnd']; subst.
    destruct (bstep_param npo np b p r Hinv Hnotin) as (b1 & F1 & I1 & P1 & N1 & A1 & K1).
    assert (L1 : length (b_params b1) = S (length (b_params b))) by (rewrite P1, app_length; simpl; lia).
    destruct (IH npo np b1 I1 Hnd') as (b' & F' & P' & N' & O' & Q' & A' & K').
    exists b'. rewrite steps_from_cons, fold_left_app, F1, <- L1. split; [exact F'|].
    rewrite L1 in N', A', K'. rewrite P', N', A', K', P1, N1, A1, K1. cbn [map names_from find_kind]. rewrite <- !app_assoc.
    repeat split; auto.
    + destruct (b_args b); simpl; auto. destruct (pkind_eqb (pkd p) VarArgs); reflexivity.
    + destruct (b_kwargs b); simpl; auto. destruct (pkind_eqb (pkd p) VarKw); reflexivity.
Qed.

Lemma filter_len_impl : forall (A : Type) (f g : A -> bool) l, (forall x, f x = true -> g x = true) ->
  length (filter f l) <= length (filter g l).
Proof.
  induction l as [|x l IH]; intros H; simpl; auto. specialize (IH H).
  destruct (f x) eqn:Ef; [rewrite (H _ Ef); simpl; lia|]. destruct (g x); simpl; lia.
Qed.

(* finish() after the method calls InstrDefImpl makes for a well-formed parameter list is build_spec *)
Theorem builder_builds_spec : forall sg : sig, wf_sig sg = true -> run_builder (steps_of sg) = Some (build_spec sg).
Proof.
  intros sg Hwf. unfold wf_sig in Hwf. apply andb_prop in Hwf. destruct Hwf as [Ho Hn]. apply nodupb_NoDup in Hn.
  unfold run_builder, steps_of.
  set (npo := length (filter (@is_posonly V) sg)). set (np := length (filter (@is_positional V) sg)).
  assert (Hinv : binv npo np (@b_init V) sg).
  { unfold binv, b_init. simpl. repeat split; auto. }
  destruct (builder_suffix sg npo np _ Hinv Hn) as (b' & F & P & N & O & Q & A & K). simpl in F, P, N, A, K.
  change (length (b_params (@b_init V))) with 0 in F. rewrite F. unfold b_finish. rewrite O, Q.
  assert (Hle : npo <=? np = true).
  { apply Nat.leb_le. apply filter_len_impl. intros x. unfold is_posonly, is_positional. destruct (pkd x); auto. }
  rewrite Hle, P, N, A, K. unfold build_spec. f_equal. f_equal; rewrite map_map; reflexivity.
Qed.

(* ---- the asserts of the builder = the four-phase order automaton + distinct names ---- *)
Lemma fold_builder_none : forall l, fold_left (@builder_step V) l None = None.
Proof. induction l; simpl; auto. Qed.
Lemma assoc_nat_existsb : forall n (l : list (name * nat)),
  is_some_nat (assoc_nat n l) = existsb (Nat.eqb n) (map fst l).
Proof. induction l as [|[k v] l IH]; simpl; auto. destruct (n =? k); simpl; auto. Qed.

Definition bwf (b : bstate V) : Prop :=
  (is_some_nat (b_kwargs b) = true <-> b_style b = SNoMore) /\
  (is_some_nat (b_args b) = true -> 2 <= style_rank (b_style b)).

Theorem builder_order_checked_gen : forall l b, bwf b ->
  (fold_left (@builder_step V) l (Some b) <> None <->
   steps_ok (style_rank (b_style b)) (map fst (b_names b)) l = true).
Proof.
  induction l as [|st l IH]; intros b Hwf.
  - simpl. split; auto. discriminate.
  - destruct b as [params names po pos sty args kwargs]. destruct Hwf as [[W1 W2] W3]. simpl in W1, W2, W3.
    cbn [fold_left].
    destruct sty, args as [a|], kwargs as [k|]; simpl in W1, W2, W3;
      try (specialize (W1 eq_refl); discriminate W1); try (specialize (W2 eq_refl); discriminate W2);
      try (specialize (W3 eq_refl); lia).
    all: clear W1 W2 W3.
    all: destruct st as [n|n|n v|n|n| |]; unfold builder_step, b_add;
         cbn [b_params b_names b_npos_only b_npos b_style b_args b_kwargs style_rank is_some_nat negb andb
              Nat.ltb Nat.leb Nat.eqb steps_ok].
    all: try (rewrite <- assoc_nat_existsb; destruct (assoc_nat n names) eqn:E; cbn [is_some_nat negb andb]).
    all: try (rewrite fold_builder_none; split; [intro H; exfalso; apply H; reflexivity | discriminate]).
    all: (eapply iff_trans;
          [apply IH; unfold bwf; cbn [b_style b_args b_kwargs is_some_nat style_rank]; split; [split|];
           intro X; try discriminate X; try reflexivity; try lia|]).
    all: cbn [b_style b_names style_rank]; rewrite ?map_app; cbn [map fst]; reflexivity.
Qed.

(* from the initial state: the builder panics on exactly the call sequences the order automaton rejects *)
Theorem builder_order_checked : forall l : list (bstep V),
  fold_left (@builder_step V) l (Some (@b_init V)) <> None <-> steps_ok 0 [] l = true.
Proof.
  intro l. apply (builder_order_checked_gen l (@b_init V)). unfold bwf, b_init. simpl.
  split; [split|]; intro X; discriminate X.
Qed.
(* finish() adds nothing: its assert never fires on a state the methods can produce *)
Lemma builder_pos_le : forall l b b', b_npos_only b <= b_npos b <= length (b_params b) ->
  fold_left (@builder_step V) l (Some b) = Some b' -> b_npos_only b' <= b_npos b' <= length (b_params b').
Proof.
  induction l as [|st l IH]; intros b b' Hle H; cbn [fold_left] in H.
  - inversion H; subst; auto.
  - destruct (builder_step (Some b) st) as [b1|] eqn:E; [|rewrite fold_builder_none in H; discriminate].
    apply (IH b1 b'); auto. clear H IH.
    destruct b as [params names po pos sty args kwargs]. simpl in Hle.
    destruct sty, args as [a|], kwargs as [k|]; destruct st as [n|n|n v|n|n| |]; unfold builder_step, b_add in E;
      cbn [b_params b_names b_npos_only b_npos b_style b_args b_kwargs style_rank is_some_nat negb andb
           Nat.ltb Nat.leb Nat.eqb] in E;
      try discriminate E;
      try (destruct (assoc_nat n names); try discriminate E);
      inversion E; subst; cbn [b_npos_only b_npos b_params]; rewrite ?app_length; cbn [length]; lia.
Qed.
Theorem run_builder_order_checked : forall l : list (bstep V),
  run_builder l <> None <-> steps_ok 0 [] l = true.
Proof.
  intro l. rewrite <- builder_order_checked. unfold run_builder, b_finish.
  destruct (fold_left (@builder_step V) l (Some (@b_init V))) as [b'|] eqn:E; [|tauto].
  assert (H : b_npos_only b' <= b_npos b' <= length (b_params b')) by (apply (builder_pos_le l (@b_init V) b'); simpl; auto).
  destruct H as [H _]. apply Nat.leb_le in H. rewrite H. split; intros _; discriminate.
Qed.
(* the calls a well-formed def makes are in order *)
Corollary steps_of_ok : forall sg : sig, wf_sig sg = true -> steps_ok 0 [] (steps_of sg) = true.
Proof. intros sg H. apply run_builder_order_checked. rewrite (builder_builds_spec sg H). discriminate. Qed.

(* ====================== completeness of the static checks ====================== *)

(* ---- completeness of the static checks ---- *)
(* the two conditions of DefParams::unpack that wf_sig does not contain: no required positional parameter after a
   defaulted one ("positional parameter after non positional"), and *args / **kwargs carry no default *)
Fixpoint dflt_ok (so : bool) (s : sig) : bool :=
  match s with
  | [] => true
  | p :: r =>
      match pkd p with
      | PosOnly | PosOrKw => (match pdef p with None => negb so | Some _ => true end) && dflt_ok (so || is_some (pdef p)) r
      | KwOnly => dflt_ok (so || is_some (pdef p)) r
      | VarArgs | VarKw => negb (is_some (pdef p)) && dflt_ok so r
      end
  end.

(* a well-formed signature written back as a parameter list: `/` after the last positional-only parameter, a bare `*`
   before the first keyword-only parameter when there is no *args *)
Definition slash_if (st : nat) : list aparam := if st <? 1 then [ASlash] else [].
Definition star_if (st : nat) : list aparam := if st <? 2 then [ANoArgs] else [].
Fixpoint render (st : nat) (s : sig) : list aparam :=
  match s with
  | [] => slash_if st
  | p :: r =>
      match pkd p with
      | PosOnly => ANormal (pname p) (pdef p) :: render st r
      | PosOrKw => slash_if st ++ ANormal (pname p) (pdef p) :: render 1 r
      | VarArgs => slash_if st ++ AArgs (pname p) :: render 2 r
      | KwOnly => slash_if st ++ star_if st ++ ANormal (pname p) (pdef p) :: render 2 r
      | VarKw => slash_if st ++ AKwArgs (pname p) :: render 3 r
      end
  end.
Definition render_sig (s : sig) : list aparam := render (if existsb (@is_posonly V) s then 0 else 1) s.

Definition is_slash (p : aparam) : bool := match p with ASlash => true | _ => false end.
Lemma render_slash : forall s st, existsb is_slash (render st s) = (st <? 1).
Proof.
  induction s as [|p r IH]; intros st; simpl.
  - unfold slash_if. destruct (st <? 1); reflexivity.
  - destruct (pkd p); simpl; rewrite ?existsb_app; unfold slash_if, star_if;
      destruct (st <? 1) eqn:E1; destruct (st <? 2) eqn:E2; simpl; rewrite ?IH; simpl; auto.
Qed.

Lemma existsb_false_notin : forall n l, existsb (Nat.eqb n) l = false -> ~ In n l.
Proof.
  induction l as [|x l IH]; simpl; intros H; [tauto|]. apply orb_false_elim in H. destruct H as [H1 H2].
  apply Nat.eqb_neq in H1. intros [Hc|Hc]; [congruence | apply IH; auto].
Qed.

Lemma render_unpack : forall (s : sig) st so argset,
  order_ok (state_stage st) (map (@pkd V) s) = true -> nodupb (map (@pname V) s) = true ->
  (forall n, In n argset -> ~ In n (map (@pname V) s)) -> dflt_ok so s = true -> st <= 3 ->
  unpack_loop (render st s) st so argset = Some s.
Proof.
  induction s as [|[n k d] r IH]; intros st so argset Ho Hn Ha Hd Hst.
  - simpl. unfold slash_if. destruct st as [|st]; reflexivity.
  - simpl in Hn. apply andb_prop in Hn. destruct Hn as [Hn1 Hn2]. apply negb_true_iff in Hn1.
    assert (Hnot : existsb (Nat.eqb n) argset = false).
    { apply existsb_notin. intros Hc. apply (Ha n Hc). now left. }
    assert (Ha' : forall m, In m (n :: argset) -> ~ In m (map (@pname V) r)).
    { intros m [<-|Hm]; [now apply existsb_false_notin|]. intros Hc. apply (Ha m Hm). now right. }
    destruct st as [|[|[|[|st]]]]; try lia; destruct k; simpl in Ho; try discriminate Ho.
    all: simpl in Hd; destruct d as [dv|]; destruct so; simpl in Hd; try discriminate Hd.
    all: simpl; rewrite ?Hnot; simpl.
    all: rewrite IH; auto; try lia.
Qed.

Theorem def_unpack_complete : forall sg : sig, wf_sig sg = true -> dflt_ok false sg = true ->
  def_unpack (render_sig sg) = Some sg.
Proof.
  intros sg Hwf Hd. unfold wf_sig in Hwf. apply andb_prop in Hwf. destruct Hwf as [Ho Hn].
  unfold def_unpack, render_sig.
  change (fun p : aparam => match p with ASlash => true | _ => false end) with is_slash.
  rewrite render_slash.
  destruct (existsb (@is_posonly V) sg) eqn:E; simpl.
  - apply render_unpack; auto.
  - apply render_unpack; auto. simpl.
    assert (F : Forall (fun k => 1 <= stage k) (map (@pkd V) sg)).
    { rewrite Forall_forall. intros k Hin. apply in_map_iff in Hin. destruct Hin as (p & <- & Hp).
      destruct (pkd p) eqn:Ek; simpl; try lia. exfalso.
      assert (existsb (@is_posonly V) sg = true); [|congruence].
      apply existsb_exists. exists p. split; auto. unfold is_posonly. now rewrite Ek. }
    clear -Ho F. destruct sg as [|p r]; auto. simpl in *. inversion F; subst.
    rewrite Ho, andb_true_r. destruct (stage (pkd p)); [lia | reflexivity].
Qed.

(* conversely every accepted parameter list satisfies the default-order condition: the image of DefParams::unpack
   is exactly { sg | wf_sig sg /\ dflt_ok false sg } *)
Lemma unpack_loop_dflt : forall ps st so argset (s : sig), unpack_loop ps st so argset = Some s ->
  (2 <= st -> Forall (fun p => is_positional p = false) s) /\ dflt_ok so s = true.
Proof.
  induction ps as [|p r IH]; intros st so argset s H; cbn -[Nat.leb Nat.ltb] in H.
  - inversion H; subst. split; auto.
  - destruct p as [n d| | |n|n]; cbn -[Nat.leb Nat.ltb] in H.
    + destruct (existsb (Nat.eqb n) argset); [discriminate|].
      destruct (3 <=? st) eqn:E3; [discriminate|]. apply Nat.leb_gt in E3.
      destruct (match d with None => so && (st <? 2) | Some _ => false end) eqn:Ed; [discriminate|].
      destruct (unpack_loop r st (so || is_some d) (n :: argset)) as [s'|] eqn:Er; [|discriminate].
      simpl in H. inversion H; subst s. clear H. destruct (IH _ _ _ _ Er) as [P D]. split.
      * intros H2. constructor; auto. unfold is_positional. simpl.
        destruct (st <? 1) eqn:E1; [apply Nat.ltb_lt in E1; lia|]. destruct (st <? 2) eqn:E2'; [apply Nat.ltb_lt in E2'; lia|]. reflexivity.
      * simpl. destruct (st <? 1) eqn:E1; [|destruct (st <? 2) eqn:E2]; simpl; rewrite ?D, ?andb_true_r; auto.
        all: destruct d; auto; destruct so; auto; simpl in Ed.
        all: try congruence.
        all: apply Nat.ltb_lt in E1; apply Nat.ltb_ge in Ed; lia.
    + destruct (2 <=? st) eqn:E2; [discriminate|]. destruct (IH _ _ _ _ H) as [P D]. split; auto.
    + destruct (1 <=? st) eqn:E1; [discriminate|]. destruct (IH _ _ _ _ H) as [P D]. split; auto.
      intros H2. apply Nat.leb_gt in E1. lia.
    + destruct (existsb (Nat.eqb n) argset); [discriminate|].
      destruct (2 <=? st) eqn:E2; [discriminate|].
      destruct (unpack_loop r 2 so (n :: argset)) as [s'|] eqn:Er; [|discriminate].
      simpl in H. inversion H; subst s. destruct (IH _ _ _ _ Er) as [P D]. split.
      * intros H2. apply Nat.leb_gt in E2. lia.
      * simpl. exact D.
    + destruct (existsb (Nat.eqb n) argset); [discriminate|].
      destruct (3 <=? st) eqn:E3; [discriminate|].
      destruct (unpack_loop r 3 so (n :: argset)) as [s'|] eqn:Er; [|discriminate].
      simpl in H. inversion H; subst s. destruct (IH _ _ _ _ Er) as [P D]. split.
      * intros H2. constructor; auto.
      * simpl. exact D.
Qed.
Theorem def_unpack_dflt_ok : forall ps (sg : sig), def_unpack ps = Some sg -> dflt_ok false sg = true.
Proof. intros ps sg H. unfold def_unpack in H. apply unpack_loop_dflt in H. apply H. Qed.
Theorem def_unpack_image : forall sg : sig,
  (exists ps, def_unpack ps = Some sg) <-> (wf_sig sg = true /\ dflt_ok false sg = true).
Proof.
  intro sg. split.
  - intros [ps H]. split; [eapply def_unpack_wf; eauto | eapply def_unpack_dflt_ok; eauto].
  - intros [W D]. exists (render_sig sg). now apply def_unpack_complete.
Qed.

(* the duplicate check of the named arguments accepts every duplicate-free list *)
Lemma names_unique_complete_gen : forall l seen, NoDup l -> (forall n, In n seen -> ~ In n l) ->
  names_unique seen l = true.
Proof.
  induction l as [|n r IH]; intros seen Hnd Hs; simpl; auto.
  inversion Hnd as [|? ? Hnotin Hnd']; subst.
  rewrite existsb_notin by (intros Hc; apply (Hs n Hc); now left).
  apply IH; auto. intros m [<-|Hm]; auto. intros Hc. apply (Hs m Hm). now right.
Qed.
Theorem names_unique_complete : forall l, NoDup l -> names_unique [] l = true.
Proof. intros l H. apply names_unique_complete_gen; auto. Qed.
Theorem names_unique_iff : forall l, names_unique [] l = true <-> NoDup l.
Proof. intro l. split; [apply call_unpack_nodup0 | apply names_unique_complete]. Qed.

(* ====================== ill-typed *seq / **map ====================== *)

(* ---- calls whose *seq / **map operands may be ill-typed ---- *)
Lemma collect_slow_x_typed : forall (ps : pspec V) (c : xcall V), x_typed c = true ->
  collect_slow_x ps c = lift_x (collect_slow ps (call_of_x c)).
Proof.
  intros ps [pos named star kw] T. unfold collect_slow_x, collect_slow, call_of_x, x_typed in *.
  cbn [x_pos x_named x_star x_kw c_pos c_named c_star c_kw] in *.
  destruct (if length pos <=? ps_npos ps
            then (zip_fill pos (repeat None (length (ps_kinds ps))), length pos, [])
            else fill_pos (ps_npos ps) pos (repeat None (length (ps_kinds ps))) 0 []) as [[s1 next1] star1].
  destruct (do_named ps named s1 None None) as [[s2 kw2] low].
  destruct star as [[vs|]|]; try discriminate T.
  - destruct (fill_pos (ps_npos ps) vs s2 next1 star1) as [[s3 next3] star3].
    destruct (clash low next3); [reflexivity|].
    destruct kw as [[m|]|]; try discriminate T.
    + destruct (do_kwmap ps m s3 kw2) as [[s5 kw5]|e]; reflexivity.
    + reflexivity.
  - destruct (clash low next1); [reflexivity|].
    destruct kw as [[m|]|]; try discriminate T.
    + destruct (do_kwmap ps m s2 kw2) as [[s5 kw5]|e]; reflexivity.
    + reflexivity.
Qed.

Lemma collect_slow_x_illtyped : forall (ps : pspec V) (c : xcall V), x_typed c = false ->
  exists e, collect_slow_x ps c = XFail e.
Proof.
  intros ps [pos named star kw] T. unfold collect_slow_x, x_typed in *.
  cbn [x_pos x_named x_star x_kw] in *.
  destruct (if length pos <=? ps_npos ps
            then (zip_fill pos (repeat None (length (ps_kinds ps))), length pos, [])
            else fill_pos (ps_npos ps) pos (repeat None (length (ps_kinds ps))) 0 []) as [[s1 next1] star1].
  destruct (do_named ps named s1 None None) as [[s2 kw2] low].
  destruct star as [[vs|]|].
  - destruct (fill_pos (ps_npos ps) vs s2 next1 star1) as [[s3 next3] star3].
    destruct (clash low next3); [eexists; reflexivity|].
    destruct kw as [[m|]|]; try discriminate T. eexists; reflexivity.
  - eexists; reflexivity.
  - destruct (clash low next1); [eexists; reflexivity|].
    destruct kw as [[m|]|]; try discriminate T. eexists; reflexivity.
Qed.

Lemma fast_guard_x_typed : forall (ps : pspec V) (c : xcall V), x_typed c = true ->
  fast_guard_x ps c = fast_guard ps (call_of_x c).
Proof.
  intros ps [pos named star kw] T. unfold fast_guard_x, fast_guard, call_of_x, x_typed in *. simpl in *.
  destruct star as [[vs|]|]; try discriminate T; destruct kw as [[m|]|]; try discriminate T; reflexivity.
Qed.
Lemma fast_guard_x_illtyped : forall (ps : pspec V) (c : xcall V), x_typed c = false -> fast_guard_x ps c = false.
Proof.
  intros ps [pos named star kw] T. unfold fast_guard_x, x_typed in *. simpl in *.
  destruct star as [[vs|]|]; destruct kw as [[m|]|]; try discriminate T; simpl; rewrite ?andb_false_r; reflexivity.
Qed.

Theorem collect_x_typed : forall (sg : sig) (c : xcall V), x_typed c = true ->
  collect_x sg c = lift_x (collect sg (call_of_x c)).
Proof.
  intros sg c T. unfold collect_x, collect_inline_x, collect, collect_inline.
  rewrite (fast_guard_x_typed _ _ T). destruct (fast_guard (build_spec sg) (call_of_x c)).
  - reflexivity.
  - apply collect_slow_x_typed, T.
Qed.

(* the spec equality on the extended calls: an ill-typed `*seq` / `**map` makes the call fail, and nothing else changes *)
Theorem collect_x_eq_spec : forall (sg : sig) (c : xcall V),
  wf_sig sg = true -> NoDup (map fst (x_named c)) ->
  outcome_of_x (collect_x sg c) = outcome_of_spec (bind_x sg c).
Proof.
  intros sg c Hwf Hnd. destruct (x_typed c) eqn:T.
  - rewrite (collect_x_typed sg c T).
    assert (B : bind_x sg c = bind sg (call_of_x c)).
    { unfold bind_x, x_typed in *. destruct (x_star c) as [[vs|]|]; try discriminate T;
        destruct (x_kw c) as [[m|]|]; try discriminate T; reflexivity. }
    rewrite B, <- (collect_eq_spec sg (call_of_x c) Hwf Hnd).
    destruct (collect sg (call_of_x c)); reflexivity.
  - unfold collect_x, collect_inline_x. rewrite (fast_guard_x_illtyped _ _ T).
    destruct (collect_slow_x_illtyped (build_spec sg) c T) as [e E]. rewrite E.
    unfold bind_x, x_typed in *. destruct (x_star c) as [[vs|]|]; try reflexivity;
      destruct (x_kw c) as [[m|]|]; try discriminate T; reflexivity.
Qed.
(* on well-typed calls the extended binder is the old one *)
Theorem collect_x_embed : forall (sg : sig) (c : call), collect_x sg (x_of_call c) = lift_x (collect sg c).
Proof.
  intros sg [pos named star kw].
  assert (T : x_typed (x_of_call (mkCall pos named star kw)) = true) by (destruct star, kw; reflexivity).
  rewrite (collect_x_typed _ _ T). f_equal. f_equal. unfold call_of_x, x_of_call. simpl. destruct star, kw; reflexivity.
Qed.

End Proofs.

Arguments def_unpack {V}.
Arguments dflt_ok {V}.
Arguments render {V}.
Arguments render_sig {V}.
Arguments ANormal {V}.
Arguments ANoArgs {V}.
Arguments ASlash {V}.
Arguments AArgs {V}.
Arguments AKwArgs {V}.
