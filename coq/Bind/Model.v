(* C08 implementation model (IModel) of argument binding in starlark-rust.
   Mirrors, branch by branch:
     starlark/src/eval/runtime/params/spec.rs   ParametersSpecBuilder / ParametersSpec::{collect_inline_impl, collect_slow}
     starlark/src/eval/runtime/arguments.rs     ArgumentsFull {pos, named, names, args, kwargs}
     starlark/src/eval/bc/instr_impl.rs         InstrDefImpl::run_with_args (how a `def` drives the builder)
     starlark_syntax/src/syntax/def.rs          DefParams::unpack (static order / duplicate checks = wf_sig)
   Executable definitions only; no proofs in this file. *)
From Coq Require Import List Arith Bool PeanoNat.
Import ListNotations.
Set Implicit Arguments.

(* Names are abstract identifiers with decidable equality (strings in the implementation). *)
Definition name := nat.

(* The kinds of parameter a `def` / native signature can declare.  A bare `*` is not a parameter: it is the
   fact that KwOnly parameters occur without a preceding VarArgs. *)
Inductive pkind := PosOnly | PosOrKw | VarArgs | KwOnly | VarKw.

Definition pkind_eqb (a b : pkind) : bool :=
  match a, b with
  | PosOnly, PosOnly | PosOrKw, PosOrKw | VarArgs, VarArgs | KwOnly, KwOnly | VarKw, VarKw => true
  | _, _ => false
  end.

(* A key of a `**mapping` argument: a string, or any other value (an error at call time). *)
Inductive key := KStr (n : name) | KOther.

Section Bind.
Variable V : Type.   (* runtime values: abstract *)

Record param := mkParam { pname : name; pkd : pkind; pdef : option V }.
Definition sig := list param.

(* A call  f(p1, .., n1=v1, .., *seq, **map)  after evaluation of its argument expressions
   (arguments.rs ArgumentsFull: pos, names+named, args, kwargs). *)
Record call := mkCall {
  c_pos : list V;
  c_named : list (name * V);
  c_star : option (list V);           (* the elements the `*seq` iterable yields *)
  c_kw : option (list (key * V)) }.   (* the entries of the `**map` dict in iteration order *)

(* What a parameter slot holds after binding. *)
Inductive slotval := SVal (v : V) | STuple (vs : list V) | SDict (kvs : list (name * V)).

(* spec.rs: the three "Missing ... parameter" messages *)
Inductive mkind := MPosOnly | MNamedOnly | MPlain.
(* arguments.rs FunctionError (the variants collect_slow can produce on well-typed *seq / **map) *)
Inductive err :=
| ERepeated (n : name)            (* RepeatedArg *)
| ENotString                      (* ArgsValueIsNotString *)
| EMissing (k : mkind) (n : name) (* function_error!("Missing ... parameter") *)
| EExtraPos (count : nat)         (* ExtraPositionalArg *)
| EExtraNamed (ns : list name).   (* ExtraNamedArg *)
Inductive result (A : Type) := Ok (a : A) | Err (e : err).
Arguments Ok {A} a.
Arguments Err {A} e.

(* ---------------------------------------------------------------------------------------------- *)
(* Static well-formedness: DefParams::unpack (State Normal < SeenSlash < SeenStar < SeenStarStar, duplicated
   parameter name) together with the assertions of ParametersSpecBuilder::{add, args, kwargs,
   no_more_positional_only_args, no_more_positional_args}: kinds occur in the order
   PosOnly* PosOrKw* VarArgs? KwOnly* VarKw?  and all names are distinct. *)
Definition stage (k : pkind) : nat :=
  match k with PosOnly => 0 | PosOrKw => 1 | VarArgs => 2 | KwOnly => 3 | VarKw => 4 end.

Fixpoint order_ok (st : nat) (ks : list pkind) : bool :=
  match ks with
  | [] => true
  | k :: r => (st <=? stage k) &&
              order_ok (match k with VarArgs => 3 | VarKw => 5 | _ => stage k end) r
  end.

Fixpoint nodupb (l : list name) : bool :=
  match l with
  | [] => true
  | x :: r => negb (existsb (Nat.eqb x) r) && nodupb r
  end.

Definition wf_sig (s : sig) : bool := order_ok 0 (map pkd s) && nodupb (map pname s).

(* ---------------------------------------------------------------------------------------------- *)
(* ParametersSpec<V>: param_kinds, param_names, names (SymbolMap<u32>), indices (DefParamIndices). *)
Inductive pkindI := Required | Defaulted (v : V) | Args | KWargs
                   | Optional.   (* ParameterKind; `Optional` is native-only: an unfilled slot stays None *)

Record pspec := mkSpec {
  ps_kinds : list pkindI;
  ps_names : list name;
  ps_map : list (name * nat);
  ps_npos_only : nat;
  ps_npos : nat;
  ps_args : option nat;
  ps_kwargs : option nat }.

Definition is_posonly (p : param) := match pkd p with PosOnly => true | _ => false end.
Definition is_positional (p : param) := match pkd p with PosOnly | PosOrKw => true | _ => false end.
(* builder.add: `if self.current_style != PosOnly { self.names.insert(name, i) }` *)
Definition kwable (p : param) := match pkd p with PosOrKw | KwOnly => true | _ => false end.
Definition is_variadic (p : param) := match pkd p with VarArgs | VarKw => true | _ => false end.

(* InstrDefImpl: Normal(_, _, None) => required ; Normal(_, _, Some v) => defaulted ; Args ; KwArgs *)
Definition kind_of (p : param) : pkindI :=
  match pkd p with
  | VarArgs => Args
  | VarKw => KWargs
  | _ => match pdef p with Some v => Defaulted v | None => Required end
  end.

Fixpoint names_from (i : nat) (s : sig) : list (name * nat) :=
  match s with
  | [] => []
  | p :: r => (if kwable p then [(pname p, i)] else []) ++ names_from (S i) r
  end.

Fixpoint find_kind (k : pkind) (i : nat) (s : sig) : option nat :=
  match s with
  | [] => None
  | p :: r => if pkind_eqb (pkd p) k then Some i else find_kind k (S i) r
  end.

(* The result of running the builder over a well-formed signature (finish()): positional_only / positional are
   `i + 1` of the last parameter added in PosOnly / non-NamedOnly style, i.e. the counts of such parameters;
   args / kwargs are the indices at which args() / kwargs() were called. *)
Definition build_spec (s : sig) : pspec :=
  {| ps_kinds := map kind_of s;
     ps_names := map pname s;
     ps_map := names_from 0 s;
     ps_npos_only := length (filter is_posonly s);
     ps_npos := length (filter is_positional s);
     ps_args := find_kind VarArgs 0 s;
     ps_kwargs := find_kind VarKw 0 s |}.

Definition is_some_nat (o : option nat) : bool := match o with Some _ => true | None => false end.
Fixpoint assoc_nat (n : name) (l : list (name * nat)) : option nat :=
  match l with
  | [] => None
  | (k, v) :: r => if Nat.eqb n k then Some v else assoc_nat n r
  end.

(* ---------------------------------------------------------------------------------------------- *)
(* ParametersSpecBuilder (spec.rs), one method call at a time.  `None` = an `assert!` of the method fired (panic). *)
Inductive style := SPosOnly | SPosOrNamed | SNamedOnly | SNoMore.        (* enum CurrentParameterStyle, derived Ord *)
Definition style_rank (s : style) : nat :=
  match s with SPosOnly => 0 | SPosOrNamed => 1 | SNamedOnly => 2 | SNoMore => 3 end.

Record bstate := mkB {
  b_params : list (name * pkindI);      (* params: Vec<(String, ParameterKind<V>)> *)
  b_names : list (name * nat);          (* names: SymbolMap<u32>, in insertion order *)
  b_npos_only : nat;                    (* positional_only *)
  b_npos : nat;                         (* positional *)
  b_style : style;                      (* current_style *)
  b_args : option nat;
  b_kwargs : option nat }.

(* ParametersSpec::with_capacity *)
Definition b_init : bstate := mkB [] [] 0 0 SPosOnly None None.

(* The methods.  `args()` / `kwargs()` push the literals "*args" / "**kwargs" as the name; the model passes the
   name in (steps_of passes the declared name): param_names is only ever read at the index of a Required
   parameter (Missing ... parameter) or at an index taken from `names` (RepeatedArg), never at these entries. *)
Inductive bstep :=
| BRequired (n : name) | BOptional (n : name) | BDefaulted (n : name) (v : V)
| BArgs (n : name) | BKwargs (n : name)
| BNoMorePosOnly            (* no_more_positional_only_args *)
| BNoMorePos.               (* no_more_positional_args *)

(* fn add(&mut self, name, val): val is never Args / KWargs (first assert) because only required / optional /
   defaulted call it *)
Definition b_add (b : bstate) (n : name) (k : pkindI) : option bstate :=
  if negb (style_rank (b_style b) <? 3) then None                 (* assert!(current_style < NoMore) *)
  else if is_some_nat (b_kwargs b) then None                      (* assert!(kwargs.is_none()) *)
  else
    let i := length (b_params b) in
    match (match b_style b with
           | SPosOnly => Some (b_names b)
           | _ => match assoc_nat n (b_names b) with
                  | Some _ => None                                (* assert!(old.is_none(), "Repeated parameter") *)
                  | None => Some (b_names b ++ [(n, i)])
                  end
           end) with
    | None => None
    | Some names' =>
        let upd := negb (is_some_nat (b_args b)) && negb (style_rank (b_style b) =? 2) in
        Some (mkB (b_params b ++ [(n, k)]) names'
                  (if upd && (style_rank (b_style b) =? 0) then i + 1 else b_npos_only b)
                  (if upd then i + 1 else b_npos b)
                  (b_style b) (b_args b) (b_kwargs b))
    end.

Definition builder_step (ob : option bstate) (st : bstep) : option bstate :=
  match ob with
  | None => None
  | Some b =>
    match st with
    | BRequired n => b_add b n Required
    | BOptional n => b_add b n Optional
    | BDefaulted n v => b_add b n (Defaulted v)
    | BArgs n =>
        if is_some_nat (b_args b) then None                                   (* assert!(args.is_none()) *)
        else if negb (style_rank (b_style b) <? 2) then None                   (* assert!(current_style < NamedOnly) *)
        else if is_some_nat (b_kwargs b) then None                             (* assert!(kwargs.is_none()) *)
        else Some (mkB (b_params b ++ [(n, Args)]) (b_names b) (b_npos_only b) (b_npos b) SNamedOnly
                       (Some (length (b_params b))) (b_kwargs b))
    | BNoMorePosOnly =>
        if style_rank (b_style b) =? 0                                         (* assert_eq!(current_style, PosOnly) *)
        then Some (mkB (b_params b) (b_names b) (b_npos_only b) (b_npos b) SPosOrNamed (b_args b) (b_kwargs b))
        else None
    | BNoMorePos =>
        if is_some_nat (b_args b) then None
        else if negb (style_rank (b_style b) <? 2) then None
        else if is_some_nat (b_kwargs b) then None
        else Some (mkB (b_params b) (b_names b) (b_npos_only b) (b_npos b) SNamedOnly (b_args b) (b_kwargs b))
    | BKwargs n =>
        if is_some_nat (b_kwargs b) then None                                  (* assert!(kwargs.is_none()) *)
        else Some (mkB (b_params b ++ [(n, KWargs)]) (b_names b) (b_npos_only b) (b_npos b) SNoMore
                       (b_args b) (Some (length (b_params b))))
    end
  end.

(* fn finish(self): assert!(positional_only <= positional); params.unzip() *)
Definition b_finish (ob : option bstate) : option pspec :=
  match ob with
  | None => None
  | Some b =>
      if b_npos_only b <=? b_npos b
      then Some (mkSpec (map snd (b_params b)) (map fst (b_params b)) (b_names b) (b_npos_only b) (b_npos b)
                        (b_args b) (b_kwargs b))
      else None
  end.

Definition run_builder (steps : list bstep) : option pspec := b_finish (fold_left builder_step steps (Some b_init)).

(* How a `def` drives the builder: InstrDefImpl::run_with_args (instr_impl.rs).  npo / np are
   def_data.params.indices.{num_positional_only, num_positional} (DefParams::unpack). *)
Definition step_of_param (p : param) : bstep :=
  match pkd p with
  | VarArgs => BArgs (pname p)
  | VarKw => BKwargs (pname p)
  | _ => match pdef p with Some v => BDefaulted (pname p) v | None => BRequired (pname p) end
  end.
Fixpoint steps_from (npo np i : nat) (s : sig) : list bstep :=
  match s with
  | [] => []
  | p :: r =>
      (if (i =? npo) && negb (is_variadic p) then [BNoMorePosOnly] else [])
      ++ (if (i =? np) && negb (is_variadic p) then [BNoMorePos] else [])
      ++ step_of_param p :: steps_from npo np (S i) r
  end.
Definition steps_of (s : sig) : list bstep :=
  steps_from (length (filter is_posonly s)) (length (filter is_positional s)) 0 s.

(* The order discipline the asserts enforce, as a four-phase automaton over method calls
   (0 positional-only, 1 positional-or-named, 2 named-only, 3 after **kwargs) plus distinctness of the
   names added outside phase 0:   P* [/ P*] [{args | star} P*] [kwargs]  *)
Fixpoint steps_ok (ph : nat) (seen : list name) (l : list bstep) : bool :=
  match l with
  | [] => true
  | st :: r =>
      match st with
      | BRequired n | BOptional n | BDefaulted n _ =>
          (ph <? 3) && (if ph =? 0 then steps_ok ph seen r
                        else negb (existsb (Nat.eqb n) seen) && steps_ok ph (seen ++ [n]) r)
      | BNoMorePosOnly => (ph =? 0) && steps_ok 1 seen r
      | BArgs _ | BNoMorePos => (ph <? 2) && steps_ok 2 seen r
      | BKwargs _ => (ph <? 3) && steps_ok 3 seen r
      end
  end.

(* ---------------------------------------------------------------------------------------------- *)
(* slots: &mut [Option<Value>] *)
Definition slots := list (option slotval).

Fixpoint upd {A : Type} (l : list A) (i : nat) (x : A) : list A :=
  match l, i with
  | [], _ => []
  | _ :: t, 0 => x :: t
  | h :: t, S j => h :: upd t j x
  end.

Definition get (s : slots) (i : nat) : option slotval := nth i s None.

Fixpoint assoc {B : Type} (n : name) (l : list (name * B)) : option B :=
  match l with
  | [] => None
  | (k, v) :: r => if Nat.eqb n k then Some v else assoc n r
  end.

Definition is_some {A : Type} (o : option A) : bool := match o with Some _ => true | None => false end.
Definition nonempty {A : Type} (l : list A) : bool := match l with [] => false | _ => true end.

(* `for (v, s) in args.pos().iter().zip(slots.iter_mut()) { s := Some v }` *)
Fixpoint zip_fill (vs : list V) (s : slots) : slots :=
  match vs, s with
  | v :: vs', _ :: s' => Some (SVal v) :: zip_fill vs' s'
  | _, _ => s
  end.

(* `if next_position < num_positional { slots[next_position] = Some v; next_position += 1 } else { star_args.push v }`
   (used for the explicit positionals when there are too many, and for the elements of *seq) *)
Fixpoint fill_pos (npos : nat) (vs : list V) (s : slots) (next : nat) (star : list V)
  : slots * nat * list V :=
  match vs with
  | [] => (s, next, star)
  | v :: vs' =>
      if next <? npos then fill_pos npos vs' (upd s next (Some (SVal v))) (S next) star
      else fill_pos npos vs' s next (star ++ [v])
  end.

(* LazyKwargs { kwargs: Option<SmallMap<..>> } : insertion-ordered *)
Definition lazy_kwargs := option (list (name * V)).
Definition kw_list (kw : lazy_kwargs) : list (name * V) := match kw with Some m => m | None => [] end.
(* insert_unique_unchecked *)
Definition kw_insert_unique (kw : lazy_kwargs) (n : name) (v : V) : lazy_kwargs :=
  match kw with None => Some [(n, v)] | Some m => Some (m ++ [(n, v)]) end.
(* insert: "Return true if the value is a duplicate" *)
Definition kw_insert (kw : lazy_kwargs) (n : name) (v : V) : bool * lazy_kwargs :=
  match kw with
  | None => (false, Some [(n, v)])
  | Some m => match assoc n m with
              | Some _ => (true, Some m)   (* the old value is replaced in place; the caller errors anyway *)
              | None => (false, Some (m ++ [(n, v)]))
              end
  end.

(* lowest_name: usize::MAX is None *)
Definition min_low (l : option nat) (i : nat) : option nat :=
  match l with None => Some i | Some x => Some (Nat.min x i) end.

(* the loop over args.names().names().iter().zip(args.named()) *)
Fixpoint do_named (ps : pspec) (named : list (name * V)) (s : slots) (kw : lazy_kwargs) (low : option nat)
  : slots * lazy_kwargs * option nat :=
  match named with
  | [] => (s, kw, low)
  | (n, v) :: r =>
      match assoc n (ps_map ps) with            (* name.get_index_from_param_spec(self) *)
      | None => do_named ps r s (kw_insert_unique kw n v) low
      | Some i => do_named ps r (upd s i (Some (SVal v))) kw (min_low low i)
      end
  end.

(* the loop over y.iter_hashed() of the **map argument *)
Fixpoint do_kwmap (ps : pspec) (m : list (key * V)) (s : slots) (kw : lazy_kwargs)
  : result (slots * lazy_kwargs) :=
  match m with
  | [] => Ok (s, kw)
  | (KOther, _) :: _ => Err ENotString
  | (KStr n, v) :: r =>
      match assoc n (ps_map ps) with
      | None => let '(dup, kw') := kw_insert kw n v in
                if dup then Err (ERepeated n) else do_kwmap ps r s kw'
      | Some i => if is_some (get s i) then Err (ERepeated n)
                  else do_kwmap ps r (upd s i (Some (SVal v))) kw
      end
  end.

(* `for index in next_position..kinds.len()` : k = remaining iterations *)
Fixpoint fill_defaults (ps : pspec) (k : nat) (index : nat) (s : slots) : result slots :=
  match k with
  | 0 => Ok s
  | S k' =>
      match get s index with
      | Some _ => fill_defaults ps k' (S index) s
      | None =>
          match nth index (ps_kinds ps) Args with
          | Required =>
              Err (EMissing (if index <? ps_npos_only ps then MPosOnly
                             else if ps_npos ps <=? index then MNamedOnly else MPlain)
                            (nth index (ps_names ps) 0))
          | Defaulted x => fill_defaults ps k' (S index) (upd s index (Some (SVal x)))
          | _ => fill_defaults ps k' (S index) s
          end
      end
  end.

Definition clash (low : option nat) (next : nat) : option nat :=
  match low with Some l => if l <? next then Some l else None | None => None end.

Definition collect_slow (ps : pspec) (c : call) : result slots :=
  let len := length (ps_kinds ps) in
  let s0 := repeat None len in
  (* First deal with positional parameters *)
  let '(s1, next1, star1) :=
    if length (c_pos c) <=? ps_npos ps
    then (zip_fill (c_pos c) s0, length (c_pos c), [])
    else fill_pos (ps_npos ps) (c_pos c) s0 0 [] in
  (* Next deal with named parameters *)
  let '(s2, kw2, low) := do_named ps (c_named c) s1 None None in
  (* Next up are the *args parameters *)
  let '(s3, next3, star3) :=
    match c_star c with
    | None => (s2, next1, star1)
    | Some vs => fill_pos (ps_npos ps) vs s2 next1 star1
    end in
  (* Check if the named arguments clashed with the positional arguments *)
  match clash low next3 with
  | Some l => Err (ERepeated (nth l (ps_names ps) 0))
  | None =>
    (* Now insert the kwargs, if there are any *)
    match (match c_kw c with None => Ok (s3, kw2) | Some m => do_kwmap ps m s3 kw2 end) with
    | Err e => Err e
    | Ok (s5, kw5) =>
      (* set default values and error if any required values are missing *)
      match fill_defaults ps (len - next3) next3 s5 with
      | Err e => Err e
      | Ok s6 =>
        (* Now set the kwargs/args slots, if they are requested, and fail it they are absent but used *)
        match (match ps_args ps with
               | Some a => Ok (upd s6 a (Some (STuple star3)))
               | None => if nonempty star3 then Err (EExtraPos (length star3)) else Ok s6
               end) with
        | Err e => Err e
        | Ok s7 =>
          match ps_kwargs ps with
          | Some k => Ok (upd s7 k (Some (SDict (kw_list kw5))))
          | None => match kw5 with
                    | Some m => Err (EExtraNamed (map fst m))
                    | None => Ok s7
                    end
          end
        end
      end
    end
  end.

(* collect_inline_impl: the all-positional exact-arity fast path *)
Definition fast_guard (ps : pspec) (c : call) : bool :=
  (length (c_pos c) =? ps_npos ps) && (length (c_pos c) =? length (ps_kinds ps))
  && negb (nonempty (c_named c)) && negb (is_some (c_star c)) && negb (is_some (c_kw c)).

Definition collect_fast (ps : pspec) (c : call) : slots :=
  zip_fill (c_pos c) (repeat None (length (ps_kinds ps))).

Definition collect_inline (ps : pspec) (c : call) : result slots :=
  if fast_guard ps c then Ok (collect_fast ps c) else collect_slow ps c.

(* Binding the arguments of a call to the parameters of a function with signature s. *)
Definition collect (s : sig) (c : call) : result slots := collect_inline (build_spec s) c.
Definition collect_via_slow (s : sig) (c : call) : result slots := collect_slow (build_spec s) c.

(* ---------------------------------------------------------------------------------------------- *)
(* The same binder on calls whose `*seq` / `**map` operands may have the wrong type (arguments.rs
   FunctionError::{ArgsArrayIsNotIterable, KwArgsIsNotDict}); `call` above is the well-typed fragment. *)
Inductive star_arg := StarSeq (vs : list V) | StarNotIterable.    (* param_args.iterate(heap) is Err *)
Inductive kw_arg := KwDict (m : list (key * V)) | KwNotDict.      (* DictRef::from_value(param_kwargs) is None *)
Record xcall := mkXCall {
  x_pos : list V;
  x_named : list (name * V);
  x_star : option star_arg;
  x_kw : option kw_arg }.

Inductive xerr := XErr (e : err) | XArgsNotIterable | XKwNotDict.
Inductive xresult (A : Type) := XOk (a : A) | XFail (e : xerr).
Arguments XOk {A} a.
Arguments XFail {A} e.
Definition lift_x {A : Type} (r : result A) : xresult A :=
  match r with Ok a => XOk a | Err e => XFail (XErr e) end.

(* the end of collect_slow: defaults, then the *args / **kwargs slots *)
Definition collect_tail (ps : pspec) (next3 : nat) (star3 : list V) (s5 : slots) (kw5 : lazy_kwargs) : result slots :=
  match fill_defaults ps (length (ps_kinds ps) - next3) next3 s5 with
  | Err e => Err e
  | Ok s6 =>
    match (match ps_args ps with
           | Some a => Ok (upd s6 a (Some (STuple star3)))
           | None => if nonempty star3 then Err (EExtraPos (length star3)) else Ok s6
           end) with
    | Err e => Err e
    | Ok s7 =>
      match ps_kwargs ps with
      | Some k => Ok (upd s7 k (Some (SDict (kw_list kw5))))
      | None => match kw5 with
                | Some m => Err (EExtraNamed (map fst m))
                | None => Ok s7
                end
      end
    end
  end.

(* collect_slow with the two type errors at the places the code raises them: `*seq` is iterated after the
   named arguments and before the positional/named clash check; `**map` is unpacked after that check *)
Definition collect_slow_x (ps : pspec) (c : xcall) : xresult slots :=
  let len := length (ps_kinds ps) in
  let s0 := repeat None len in
  let '(s1, next1, star1) :=
    if length (x_pos c) <=? ps_npos ps
    then (zip_fill (x_pos c) s0, length (x_pos c), [])
    else fill_pos (ps_npos ps) (x_pos c) s0 0 [] in
  let '(s2, kw2, low) := do_named ps (x_named c) s1 None None in
  match (match x_star c with
         | None => XOk (s2, next1, star1)
         | Some (StarSeq vs) => XOk (fill_pos (ps_npos ps) vs s2 next1 star1)
         | Some StarNotIterable => XFail XArgsNotIterable
         end) with
  | XFail e => XFail e
  | XOk (s3, next3, star3) =>
    match clash low next3 with
    | Some l => XFail (XErr (ERepeated (nth l (ps_names ps) 0)))
    | None =>
      match (match x_kw c with
             | None => XOk (s3, kw2)
             | Some (KwDict m) => lift_x (do_kwmap ps m s3 kw2)
             | Some KwNotDict => XFail XKwNotDict
             end) with
      | XFail e => XFail e
      | XOk (s5, kw5) => lift_x (collect_tail ps next3 star3 s5 kw5)
      end
    end
  end.

Definition fast_guard_x (ps : pspec) (c : xcall) : bool :=
  (length (x_pos c) =? ps_npos ps) && (length (x_pos c) =? length (ps_kinds ps))
  && negb (nonempty (x_named c)) && negb (is_some (x_star c)) && negb (is_some (x_kw c)).
Definition collect_inline_x (ps : pspec) (c : xcall) : xresult slots :=
  if fast_guard_x ps c then XOk (zip_fill (x_pos c) (repeat None (length (ps_kinds ps)))) else collect_slow_x ps c.
Definition collect_x (s : sig) (c : xcall) : xresult slots := collect_inline_x (build_spec s) c.

(* the well-typed fragment *)
Definition x_typed (c : xcall) : bool :=
  match x_star c, x_kw c with
  | Some StarNotIterable, _ => false
  | _, Some KwNotDict => false
  | _, _ => true
  end.
Definition call_of_x (c : xcall) : call :=
  mkCall (x_pos c) (x_named c)
         (match x_star c with Some (StarSeq vs) => Some vs | _ => None end)
         (match x_kw c with Some (KwDict m) => Some m | _ => None end).
Definition x_of_call (c : call) : xcall :=
  mkXCall (c_pos c) (c_named c) (option_map StarSeq (c_star c)) (option_map KwDict (c_kw c)).

(* What is observable: the exact contents of the parameter slots, or failure. *)
Inductive outcome := OkSlots (l : slots) | Failed.
Definition outcome_of (r : result slots) : outcome :=
  match r with Ok s => OkSlots s | Err _ => Failed end.
Definition outcome_of_x (r : xresult slots) : outcome :=
  match r with XOk s => OkSlots s | XFail _ => Failed end.

End Bind.

Arguments Ok {A} a.
Arguments Err {A} e.
Arguments mkParam {V}.
Arguments mkCall {V}.
Arguments SVal {V}.
Arguments STuple {V}.
Arguments SDict {V}.
Arguments Required {V}.
Arguments Defaulted {V}.
Arguments Args {V}.
Arguments KWargs {V}.
Arguments Optional {V}.
Arguments BRequired {V}.
Arguments BOptional {V}.
Arguments BArgs {V}.
Arguments BKwargs {V}.
Arguments BNoMorePosOnly {V}.
Arguments BNoMorePos {V}.
Arguments b_init {V}.
Arguments XOk {A} a.
Arguments XFail {A} e.
Arguments StarSeq {V}.
Arguments StarNotIterable {V}.
Arguments KwDict {V}.
Arguments KwNotDict {V}.
Arguments mkXCall {V}.
Arguments OkSlots {V}.
Arguments Failed {V}.
