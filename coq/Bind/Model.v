(* C08 implementation model (IModel) of argument binding in starlark-rust.
   Mirrors, branch by branch:
     starlark/src/eval/runtime/params/spec.rs   ParametersSpecBuilder / ParametersSpec::{collect_inline_impl, collect_slow}
     starlark/src/eval/runtime/arguments.rs     ArgumentsFull {pos, named, names, args, kwargs}
     starlark/src/eval/bc/instr_impl.rs         InstrDefImpl::run_with_args (how a `def` drives the builder)
     starlark_syntax/src/syntax/def.rs          DefParams::unpack (static order / duplicate checks = wf_sig)
   Executable definitions only; no proofs in this file. *)
From Coq Require Import List Arith Bool PeanoNat.
Import ListNotations.
Set Implicit Arguments.

(* Names are abstract identifiers with decidable equality (strings in the implementation). *)
Definition name := nat.

(* The kinds of parameter a `def` / native signature can declare.  A bare `*` is not a parameter: it is the
   fact that KwOnly parameters occur without a preceding VarArgs. *)
Inductive pkind := PosOnly | PosOrKw | VarArgs | KwOnly | VarKw.

Definition pkind_eqb (a b : pkind) : bool :=
  match a, b with
  | PosOnly, PosOnly | PosOrKw, PosOrKw | VarArgs, VarArgs | KwOnly, KwOnly | VarKw, VarKw => true
  | _, _ => false
  end.

(* A key of a `**mapping` argument: a string, or any other value (an error at call time). *)
Inductive key := KStr (n : name) | KOther.

Section Bind.
Variable V : Type.   (* runtime values: abstract *)

Record param := mkParam { pname : name; pkd : pkind; pdef : option V }.
Definition sig := list param.

(* A call  f(p1, .., n1=v1, .., *seq, **map)  after evaluation of its argument expressions
   (arguments.rs ArgumentsFull: pos, names+named, args, kwargs). *)
Record call := mkCall {
  c_pos : list V;
  c_named : list (name * V);
  c_star : option (list V);           (* the elements the `*seq` iterable yields *)
  c_kw : option (list (key * V)) }.   (* the entries of the `**map` dict in iteration order *)

(* What a parameter slot holds after binding. *)
Inductive slotval := SVal (v : V) | STuple (vs : list V) | SDict (kvs : list (name * V)).

(* spec.rs: the three "Missing ... parameter" messages *)
Inductive mkind := MPosOnly | MNamedOnly | MPlain.
(* arguments.rs FunctionError (the variants collect_slow can produce on well-typed *seq / **map) *)
Inductive err :=
| ERepeated (n : name)            (* RepeatedArg *)
| ENotString                      (* ArgsValueIsNotString *)
| EMissing (k : mkind) (n : name) (* function_error!("Missing ... parameter") *)
| EExtraPos (count : nat)         (* ExtraPositionalArg *)
| EExtraNamed (ns : list name).   (* ExtraNamedArg *)
Inductive result (A : Type) := Ok (a : A) | Err (e : err).
Arguments Ok {A} a.
Arguments Err {A} e.

(* ---------------------------------------------------------------------------------------------- *)
(* Static well-formedness: DefParams::unpack (State Normal < SeenSlash < SeenStar < SeenStarStar, duplicated
   parameter name) together with the assertions of ParametersSpecBuilder::{add, args, kwargs,
   no_more_positional_only_args, no_more_positional_args}: kinds occur in the order
   PosOnly* PosOrKw* VarArgs? KwOnly* VarKw?  and all names are distinct. *)
Definition stage (k : pkind) : nat :=
  match k with PosOnly => 0 | PosOrKw => 1 | VarArgs => 2 | KwOnly => 3 | VarKw => 4 end.

Fixpoint order_ok (st : nat) (ks : list pkind) : bool :=
  match ks with
  | [] => true
  | k :: r => (st <=? stage k) &&
              order_ok (match k with VarArgs => 3 | VarKw => 5 | _ => stage k end) r
  end.

Fixpoint nodupb (l : list name) : bool :=
  match l with
  | [] => true
  | x :: r => negb (existsb (Nat.eqb x) r) && nodupb r
  end.

Definition wf_sig (s : sig) : bool := order_ok 0 (map pkd s) && nodupb (map pname s).

(* ---------------------------------------------------------------------------------------------- *)
(* ParametersSpec<V>: param_kinds, param_names, names (SymbolMap<u32>), indices (DefParamIndices). *)
Inductive pkindI := Required | Defaulted (v : V) | Args | KWargs.   (* ParameterKind; `Optional` is native-only *)

Record pspec := mkSpec {
  ps_kinds : list pkindI;
  ps_names : list name;
  ps_map : list (name * nat);
  ps_npos_only : nat;
  ps_npos : nat;
  ps_args : option nat;
  ps_kwargs : option nat }.

Definition is_posonly (p : param) := match pkd p with PosOnly => true | _ => false end.
Definition is_positional (p : param) := match pkd p with PosOnly | PosOrKw => true | _ => false end.
(* builder.add: `if self.current_style != PosOnly { self.names.insert(name, i) }` *)
Definition kwable (p : param) := match pkd p with PosOrKw | KwOnly => true | _ => false end.
Definition is_variadic (p : param) := match pkd p with VarArgs | VarKw => true | _ => false end.

(* InstrDefImpl: Normal(_, _, None) => required ; Normal(_, _, Some v) => defaulted ; Args ; KwArgs *)
Definition kind_of (p : param) : pkindI :=
  match pkd p with
  | VarArgs => Args
  | VarKw => KWargs
  | _ => match pdef p with Some v => Defaulted v | None => Required end
  end.

Fixpoint names_from (i : nat) (s : sig) : list (name * nat) :=
  match s with
  | [] => []
  | p :: r => (if kwable p then [(pname p, i)] else []) ++ names_from (S i) r
  end.

Fixpoint find_kind (k : pkind) (i : nat) (s : sig) : option nat :=
  match s with
  | [] => None
  | p :: r => if pkind_eqb (pkd p) k then Some i else find_kind k (S i) r
  end.

(* The result of running the builder over a well-formed signature (finish()): positional_only / positional are
   `i + 1` of the last parameter added in PosOnly / non-NamedOnly style, i.e. the counts of such parameters;
   args / kwargs are the indices at which args() / kwargs() were called. *)
Definition build_spec (s : sig) : pspec :=
  {| ps_kinds := map kind_of s;
     ps_names := map pname s;
     ps_map := names_from 0 s;
     ps_npos_only := length (filter is_posonly s);
     ps_npos := length (filter is_positional s);
     ps_args := find_kind VarArgs 0 s;
     ps_kwargs := find_kind VarKw 0 s |}.

(* ---------------------------------------------------------------------------------------------- *)
(* slots: &mut [Option<Value>] *)
Definition slots := list (option slotval).

Fixpoint upd {A : Type} (l : list A) (i : nat) (x : A) : list A :=
  match l, i with
  | [], _ => []
  | _ :: t, 0 => x :: t
  | h :: t, S j => h :: upd t j x
  end.

Definition get (s : slots) (i : nat) : option slotval := nth i s None.

Fixpoint assoc {B : Type} (n : name) (l : list (name * B)) : option B :=
  match l with
  | [] => None
  | (k, v) :: r => if Nat.eqb n k then Some v else assoc n r
  end.

Definition is_some {A : Type} (o : option A) : bool := match o with Some _ => true | None => false end.
Definition nonempty {A : Type} (l : list A) : bool := match l with [] => false | _ => true end.

(* `for (v, s) in args.pos().iter().zip(slots.iter_mut()) { s := Some v }` *)
Fixpoint zip_fill (vs : list V) (s : slots) : slots :=
  match vs, s with
  | v :: vs', _ :: s' => Some (SVal v) :: zip_fill vs' s'
  | _, _ => s
  end.

(* `if next_position < num_positional { slots[next_position] = Some v; next_position += 1 } else { star_args.push v }`
   (used for the explicit positionals when there are too many, and for the elements of *seq) *)
Fixpoint fill_pos (npos : nat) (vs : list V) (s : slots) (next : nat) (star : list V)
  : slots * nat * list V :=
  match vs with
  | [] => (s, next, star)
  | v :: vs' =>
      if next <? npos then fill_pos npos vs' (upd s next (Some (SVal v))) (S next) star
      else fill_pos npos vs' s next (star ++ [v])
  end.

(* LazyKwargs { kwargs: Option<SmallMap<..>> } : insertion-ordered *)
Definition lazy_kwargs := option (list (name * V)).
Definition kw_list (kw : lazy_kwargs) : list (name * V) := match kw with Some m => m | None => [] end.
(* insert_unique_unchecked *)
Definition kw_insert_unique (kw : lazy_kwargs) (n : name) (v : V) : lazy_kwargs :=
  match kw with None => Some [(n, v)] | Some m => Some (m ++ [(n, v)]) end.
(* insert: "Return true if the value is a duplicate" *)
Definition kw_insert (kw : lazy_kwargs) (n : name) (v : V) : bool * lazy_kwargs :=
  match kw with
  | None => (false, Some [(n, v)])
  | Some m => match assoc n m with
              | Some _ => (true, Some m)   (* the old value is replaced in place; the caller errors anyway *)
              | None => (false, Some (m ++ [(n, v)]))
              end
  end.

(* lowest_name: usize::MAX is None *)
Definition min_low (l : option nat) (i : nat) : option nat :=
  match l with None => Some i | Some x => Some (Nat.min x i) end.

(* the loop over args.names().names().iter().zip(args.named()) *)
Fixpoint do_named (ps : pspec) (named : list (name * V)) (s : slots) (kw : lazy_kwargs) (low : option nat)
  : slots * lazy_kwargs * option nat :=
  match named with
  | [] => (s, kw, low)
  | (n, v) :: r =>
      match assoc n (ps_map ps) with            (* name.get_index_from_param_spec(self) *)
      | None => do_named ps r s (kw_insert_unique kw n v) low
      | Some i => do_named ps r (upd s i (Some (SVal v))) kw (min_low low i)
      end
  end.

(* the loop over y.iter_hashed() of the **map argument *)
Fixpoint do_kwmap (ps : pspec) (m : list (key * V)) (s : slots) (kw : lazy_kwargs)
  : result (slots * lazy_kwargs) :=
  match m with
  | [] => Ok (s, kw)
  | (KOther, _) :: _ => Err ENotString
  | (KStr n, v) :: r =>
      match assoc n (ps_map ps) with
      | None => let '(dup, kw') := kw_insert kw n v in
                if dup then Err (ERepeated n) else do_kwmap ps r s kw'
      | Some i => if is_some (get s i) then Err (ERepeated n)
                  else do_kwmap ps r (upd s i (Some (SVal v))) kw
      end
  end.

(* `for index in next_position..kinds.len()` : k = remaining iterations *)
Fixpoint fill_defaults (ps : pspec) (k : nat) (index : nat) (s : slots) : result slots :=
  match k with
  | 0 => Ok s
  | S k' =>
      match get s index with
      | Some _ => fill_defaults ps k' (S index) s
      | None =>
          match nth index (ps_kinds ps) Args with
          | Required =>
              Err (EMissing (if index <? ps_npos_only ps then MPosOnly
                             else if ps_npos ps <=? index then MNamedOnly else MPlain)
                            (nth index (ps_names ps) 0))
          | Defaulted x => fill_defaults ps k' (S index) (upd s index (Some (SVal x)))
          | _ => fill_defaults ps k' (S index) s
          end
      end
  end.

Definition clash (low : option nat) (next : nat) : option nat :=
  match low with Some l => if l <? next then Some l else None | None => None end.

Definition collect_slow (ps : pspec) (c : call) : result slots :=
  let len := length (ps_kinds ps) in
  let s0 := repeat None len in
  (* First deal with positional parameters *)
  let '(s1, next1, star1) :=
    if length (c_pos c) <=? ps_npos ps
    then (zip_fill (c_pos c) s0, length (c_pos c), [])
    else fill_pos (ps_npos ps) (c_pos c) s0 0 [] in
  (* Next deal with named parameters *)
  let '(s2, kw2, low) := do_named ps (c_named c) s1 None None in
  (* Next up are the *args parameters *)
  let '(s3, next3, star3) :=
    match c_star c with
    | None => (s2, next1, star1)
    | Some vs => fill_pos (ps_npos ps) vs s2 next1 star1
    end in
  (* Check if the named arguments clashed with the positional arguments *)
  match clash low next3 with
  | Some l => Err (ERepeated (nth l (ps_names ps) 0))
  | None =>
    (* Now insert the kwargs, if there are any *)
    match (match c_kw c with None => Ok (s3, kw2) | Some m => do_kwmap ps m s3 kw2 end) with
    | Err e => Err e
    | Ok (s5, kw5) =>
      (* set default values and error if any required values are missing *)
      match fill_defaults ps (len - next3) next3 s5 with
      | Err e => Err e
      | Ok s6 =>
        (* Now set the kwargs/args slots, if they are requested, and fail it they are absent but used *)
        match (match ps_args ps with
               | Some a => Ok (upd s6 a (Some (STuple star3)))
               | None => if nonempty star3 then Err (EExtraPos (length star3)) else Ok s6
               end) with
        | Err e => Err e
        | Ok s7 =>
          match ps_kwargs ps with
          | Some k => Ok (upd s7 k (Some (SDict (kw_list kw5))))
          | None => match kw5 with
                    | Some m => Err (EExtraNamed (map fst m))
                    | None => Ok s7
                    end
          end
        end
      end
    end
  end.

(* collect_inline_impl: the all-positional exact-arity fast path *)
Definition fast_guard (ps : pspec) (c : call) : bool :=
  (length (c_pos c) =? ps_npos ps) && (length (c_pos c) =? length (ps_kinds ps))
  && negb (nonempty (c_named c)) && negb (is_some (c_star c)) && negb (is_some (c_kw c)).

Definition collect_fast (ps : pspec) (c : call) : slots :=
  zip_fill (c_pos c) (repeat None (length (ps_kinds ps))).

Definition collect_inline (ps : pspec) (c : call) : result slots :=
  if fast_guard ps c then Ok (collect_fast ps c) else collect_slow ps c.

(* Binding the arguments of a call to the parameters of a function with signature s. *)
Definition collect (s : sig) (c : call) : result slots := collect_inline (build_spec s) c.
Definition collect_via_slow (s : sig) (c : call) : result slots := collect_slow (build_spec s) c.

(* What is observable: the exact contents of the parameter slots, or failure. *)
Inductive outcome := OkSlots (l : slots) | Failed.
Definition outcome_of (r : result slots) : outcome :=
  match r with Ok s => OkSlots s | Err _ => Failed end.

End Bind.

Arguments Ok {A} a.
Arguments Err {A} e.
Arguments mkParam {V}.
Arguments mkCall {V}.
Arguments SVal {V}.
Arguments STuple {V}.
Arguments SDict {V}.
Arguments Required {V}.
Arguments Defaulted {V}.
Arguments Args {V}.
Arguments KWargs {V}.
Arguments OkSlots {V}.
Arguments Failed {V}.
