(* C08 specification: the Starlark / Python call rule, written over NAMES (an association list from parameter
   name to value), not over slot indices.

   Starlark spec, "Function and method calls" / Python reference 6.3.4 "Calls":
   1. The positional arguments are the explicit ones followed by the elements of `*seq`.  They are bound, left to
      right, to the parameters that can be filled positionally (positional-only, then positional-or-keyword); any
      surplus is collected by `*args`, or the call is an error if there is no `*args`.
   2. The keyword arguments are the explicit `name=value` ones followed by the entries of `**map`, whose keys must
      be strings.  Each one binds the positional-or-keyword or keyword-only parameter of that name - an error if
      that parameter is already bound - and otherwise is a surplus keyword - an error if the same surplus keyword
      was already given; surplus keywords are collected, in order, by `**kwargs`, or the call is an error if there
      is no `**kwargs`.
   3. Every parameter still unbound takes its default value; it is an error if it has none.
   The result is the value of every parameter (`*args` a tuple, `**kwargs` an insertion-ordered dict).
   No proofs in this file. *)
From Coq Require Import List Arith Bool PeanoNat.
From SV Require Import Bind.Model.
Import ListNotations.
Set Implicit Arguments.

Section Spec.
Variable V : Type.

Definition positional_args (c : call V) : list V :=
  c_pos c ++ match c_star c with Some s => s | None => [] end.

Definition keyword_args (c : call V) : list (key * V) :=
  map (fun nv => (KStr (fst nv), snd nv)) (c_named c) ++ match c_kw c with Some m => m | None => [] end.

Definition positional_params (s : sig V) : list (param V) := filter (@is_positional V) s.

(* n names a parameter that may be given by keyword *)
Definition is_kw_name (s : sig V) (n : name) : bool :=
  existsb (fun p => kwable p && Nat.eqb (pname p) n) s.

Definition bound (n : name) (env : list (name * V)) : bool := is_some (assoc n env).

(* rule 2, one keyword at a time; env = parameters bound so far (by name), extras = surplus keywords so far *)
Fixpoint bind_keywords (s : sig V) (kws : list (key * V)) (env extras : list (name * V))
  : option (list (name * V) * list (name * V)) :=
  match kws with
  | [] => Some (env, extras)
  | (KOther, _) :: _ => None
  | (KStr n, v) :: r =>
      if is_kw_name s n
      then (if bound n env then None else bind_keywords s r (env ++ [(n, v)]) extras)
      else (if bound n extras then None else bind_keywords s r env (extras ++ [(n, v)]))
  end.

(* rule 3 and the result *)
Definition value_of (env : list (name * V)) (surplus : list V) (extras : list (name * V)) (p : param V)
  : option (slotval V) :=
  match pkd p with
  | VarArgs => Some (STuple surplus)
  | VarKw => Some (SDict extras)
  | _ => match assoc (pname p) env with
         | Some v => Some (SVal v)
         | None => match pdef p with Some d => Some (SVal d) | None => None end
         end
  end.

Definition has_kind (k : pkind) (s : sig V) : bool := existsb (fun p => pkind_eqb (pkd p) k) s.

Fixpoint all_some {A : Type} (l : list (option A)) : option (list A) :=
  match l with
  | [] => Some []
  | None :: _ => None
  | Some x :: r => match all_some r with Some xs => Some (x :: xs) | None => None end
  end.

Definition bind (s : sig V) (c : call V) : option (list (slotval V)) :=
  let pargs := positional_args c in
  let pps := positional_params s in
  let env0 := combine (map (@pname V) pps) pargs in          (* rule 1 *)
  let surplus := skipn (length pps) pargs in
  match bind_keywords s (keyword_args c) env0 [] with         (* rule 2 *)
  | None => None
  | Some (env, extras) =>
      if nonempty surplus && negb (has_kind VarArgs s) then None
      else if nonempty extras && negb (has_kind VarKw s) then None
      else all_some (map (value_of env surplus extras) s)     (* rule 3 *)
  end.

(* the call rule on calls whose `*seq` / `**map` operands may have the wrong type: "`*seq` must be an iterable",
   "`**map` must be a mapping with string keys" (the string-key part is rule 2 above); otherwise as before *)
Definition bind_x (s : sig V) (c : xcall V) : option (list (slotval V)) :=
  match x_star c with
  | Some StarNotIterable => None
  | _ => match x_kw c with
         | Some KwNotDict => None
         | _ => bind s (call_of_x c)
         end
  end.

Definition outcome_of_spec (o : option (list (slotval V))) : outcome V :=
  match o with Some l => OkSlots (map Some l) | None => Failed end.

End Spec.
