(* C08 correspondence driver: runs the implementation model (fast path + slow path), the slow path alone and the
   specification on the signature / call the real library was run on.  Executable only; values are nat. *)
From Coq Require Import List Arith Bool.
From SV Require Import Bind.Model Bind.Spec.
Import ListNotations.

Record case_out := mkOut {
  o_model : result (slots nat);            (* ParametersSpec::collect (collect_inline) *)
  o_slow : result (slots nat);             (* collect_slow alone *)
  o_spec : option (list (slotval nat));    (* the call rule *)
  o_fast : bool;                           (* did the fast-path guard hold *)
  o_wf : bool }.

Definition run (s : sig nat) (c : call nat) : case_out :=
  mkOut (collect s c) (collect_via_slow s c) (bind s c) (fast_guard (build_spec s) c) (wf_sig s).
